import Pcore.Proofs.ValueEqTy
import Pcore.Proofs.ValueEqSort
/-! Helper lemmas for C07: the key of a type decides `Equals` exactly (`tyKey_iff`).  The members of a Variant and the values
    of an Enum enter the key as a SET of a given size (`appendUnorderedTypeParamKeys`: the count, then the distinct element
    keys in ascending order), which is what their `Equals` compares. -/
namespace Pcore.ValueEq

/-! ### the parameters of a type as a list of keys -/

def intParamL (lo hi : Int) : List Bytes :=
  if lo = minInt then (if hi = maxInt then [] else [defaultKey, intKey hi])
  else if hi = maxInt then [intKey lo] else [intKey lo, intKey hi]

def fltParamL (lo hi : Nat) : List Bytes :=
  if feq lo negMaxFloatBits then (if feq hi maxFloatBits then [] else [defaultKey, floatKey hi])
  else if feq hi maxFloatBits then [floatKey lo] else [floatKey lo, floatKey hi]

def sizeParamL (lo hi : Int) : List Bytes := [intKey lo, if hi = maxInt then defaultKey else intKey hi]

/-- `TupleType.ToKey` of the parameter Tuple of a Callable (no explicit size) -/
def tupKeyOf (ts : List Ty) : Bytes :=
  [1, 0x74] ++ ekStr [0x54, 0x75, 0x70, 0x6c, 0x65] ++ tyKeys ts ++ sizeParams ts.length ts.length

/-- the parameter list of a wrapper type (`wrapParam` as a list of keys) -/
def wrapParamL (quirk : Bool) (t : Ty) : List Bytes :=
  if t.isAny then []
  else match quirk, t with
    | true, .strVal v => if v.isEmpty then [tyKey t] else [strMark ++ v]
    | _, _ => [tyKey t]

def tyParamL : Ty → List Bytes
  | .any => [] | .undef => [] | .str => []
  | .int lo hi => intParamL lo hi
  | .flt lo hi => fltParamL lo hi
  | .enum ci vs => intKey (enumKeys ci vs).length :: dedupS (sortB (enumKeys ci vs))
  | .arr e lo hi => (if (e.isAny ∧ ¬ (lo = 0 ∧ hi = 0)) ∨ (e.isUnit ∧ (lo = 0 ∧ hi = 0)) then [] else [tyKey e]) ++
      (if lo = 0 ∧ hi = maxInt then [] else sizeParamL lo hi)
  | .var ts => intKey ts.length :: dedupS (sortB (ts.map tyKey))
  | .tup ts sz => ts.map tyKey ++ sizeParamL (goaSize ts.length sz).1 (goaSize ts.length sz).2
  | .opt t => wrapParamL true t
  | .typ t => wrapParamL false t
  | .nul _ => []
  | .bool none => []
  | .bool (some b) => [boolKey b]
  | .coll lo hi => if lo = 0 ∧ hi = maxInt then [] else sizeParamL lo hi
  | .un k t => wrapParamL (k == .notUndef) t
  | .strSize lo hi => intParamL lo hi
  | .strVal v => [strMark ++ v]
  | .rx p => if p.isEmpty then [] else [rxKey p]
  | .pattern ps => intKey ps.length :: dedupS (sortB (ps.map rxKey))
  | .tref s => if s = unresolvedRef then [] else [strMark ++ s]
  | .semverT _ rs => if rangesEq rs matchAllR then [] else [strMark ++ normStr rs]
  | .hash k v lo hi =>
      if (k.isAny ∧ v.isAny) ∧ (lo = 0 ∧ hi = maxInt) then []
      else if (k.isUnit ∧ v.isUnit) ∧ (lo = 0 ∧ hi = 0) then [intKey 0, intKey 0]
      else tyKey k :: tyKey v :: (if lo = 0 ∧ hi = maxInt then [] else sizeParamL lo hi)
  | .like b n => if b.isAny ∧ n.isEmpty then [] else [tyKey b, strMark ++ n]
  | .callable h ts hr r hb b => [if h then tupKeyOf ts else undefKey, if hr then tyKey r else undefKey, if hb then tyKey b else undefKey]
  | .struct _ => []      -- (a Struct's parameter is not a list of framed keys: `structTail`)
  | .init h t => if h then [tyKey t] else []
  | .runtime rt n p =>
      if (rt.isEmpty ∧ n.isEmpty) ∧ p.isNone then []
      else (strMark ++ rt) :: ((if n.isEmpty ∧ p.isNone then [] else [strMark ++ n]) ++ (match p with | none => [] | some p => [rxTyKey p]))

theorem flat_append (a b : List Bytes) : flat (a ++ b) = flat a ++ flat b := by
  induction a with
  | nil => rfl
  | cons x xs ih => simp [flat, ih]

theorem tyKeys_eq : ∀ ts : List Ty, tyKeys ts = flat ((ts.map tyKey).map frame)
  | [] => rfl
  | t :: ts => by simp [tyKeys, flat, tyKeys_eq ts]

theorem tyKeyL_eq : ∀ ts : List Ty, tyKeyL ts = ts.map tyKey
  | [] => rfl
  | t :: ts => by simp [tyKeyL, tyKeyL_eq ts]

theorem frames_eq : ∀ ks : List Bytes, frames ks = flat (ks.map frame)
  | [] => rfl
  | k :: ks => by simp [frames, flat, frames_eq ks]

theorem wrapParam_shape (q : Bool) (t : Ty) : wrapParam q t (tyKey t) = flat ((wrapParamL q t).map frame) := by
  cases q <;> cases t <;> simp [wrapParam, wrapParamL, Ty.isAny, flat, ekStr]
  split <;> simp [flat]

def Ty.isStruct : Ty → Bool
  | .struct _ => true
  | _ => false

/-- what follows the name in the key of a Struct -/
def structTail (es : List (Bytes × Bool × Ty)) : Bytes := if es.isEmpty then [] else 2 :: (ekInt es.length ++ tyKeyS es)

theorem tyKey_struct (es : List (Bytes × Bool × Ty)) :
    tyKey (.struct es) = [1, 0x74] ++ (frame (strMark ++ (Ty.struct es).name) ++ structTail es) := by
  simp [tyKey, structTail, Ty.name, ekStr]

theorem tyKey_shape (t : Ty) (hs : t.isStruct = false := by rfl) :
    tyKey t = [1, 0x74] ++ (frame (strMark ++ t.name) ++ flat ((tyParamL t).map frame)) := by
  cases t with
  | struct es => simp [Ty.isStruct] at hs
  | any => simp [tyKey, tyParamL, ekStr, flat]
  | undef => simp [tyKey, tyParamL, ekStr, flat]
  | str => simp [tyKey, tyParamL, ekStr, flat]
  | int lo hi =>
    simp only [tyKey, tyParamL, intParams, intParamL, ekStr, ekDefault, ekInt]
    split <;> split <;> simp [flat]
  | flt lo hi =>
    simp only [tyKey, tyParamL, fltParams, fltParamL, ekStr, ekDefault, ekFloat]
    split <;> split <;> simp [flat]
  | enum ci vs => simp [tyKey, tyParamL, Ty.name, ekStr, ekInt, unorderedParams, frames_eq, flat]
  | arr e lo hi =>
    simp only [tyKey, tyParamL, Ty.name, ekStr, List.map_append, flat_append, sizeParams, sizeParamL, ekInt, ekDefault]
    split <;> split <;> (try split) <;> simp [flat]
  | var ts => simp [tyKey, tyParamL, Ty.name, ekStr, ekInt, unorderedParams, frames_eq, flat, tyKeyL_eq]
  | tup ts sz =>
    simp only [tyKey, tyParamL, Ty.name, ekStr, List.map_append, flat_append, tyKeys_eq, sizeParams, sizeParamL,
      ekInt, ekDefault]
    split <;> simp [flat]
  | opt t => simp [tyKey, tyParamL, Ty.name, ekStr, wrapParam_shape]
  | typ t => simp [tyKey, tyParamL, Ty.name, ekStr, wrapParam_shape]
  | nul k => cases k <;> simp [tyKey, tyParamL, Ty.name, ekStr, flat]
  | bool v => cases v <;> simp [tyKey, tyParamL, Ty.name, ekStr, ekBool, flat]
  | coll lo hi =>
    simp only [tyKey, tyParamL, Ty.name, ekStr, sizeParams, sizeParamL, ekInt, ekDefault]
    split <;> (try split) <;> simp [flat]
  | un k t => cases k <;> simp [tyKey, tyParamL, Ty.name, ekStr, wrapParam_shape]
  | strSize lo hi =>
    simp only [tyKey, tyParamL, intParams, intParamL, Ty.name, ekStr, ekDefault, ekInt]
    split <;> split <;> simp [flat]
  | strVal v => simp [tyKey, tyParamL, Ty.name, ekStr, flat]
  | rx p =>
    simp only [tyKey, rxTyKey, tyParamL, Ty.name, ekStr]
    split <;> simp [flat]
  | pattern ps => simp [tyKey, tyParamL, Ty.name, ekStr, ekInt, unorderedParams, frames_eq, flat]
  | tref s =>
    simp only [tyKey, tyParamL, Ty.name, ekStr]
    split <;> simp [flat]
  | semverT o rs =>
    simp only [tyKey, tyParamL, Ty.name, ekStr]
    split <;> simp [flat]
  | hash k v lo hi =>
    simp only [tyKey, tyParamL, Ty.name, ekStr, sizeParams, sizeParamL, ekInt, ekDefault]
    split
    · simp [flat]
    · split
      · simp [flat]
      · split <;> (try split) <;> simp [flat]
  | like b n =>
    simp only [tyKey, tyParamL, Ty.name, ekStr]
    split <;> simp [flat]
  | callable h ts hr r hb b => cases h <;> cases hr <;> cases hb <;> simp [tyKey, tyParamL, Ty.name, ekStr, flat, tupKeyOf]
  | init h t => cases h <;> simp [tyKey, tyParamL, Ty.name, ekStr, flat]
  | runtime rt n p =>
    simp only [tyKey, tyParamL, Ty.name, ekStr]
    split
    · simp [flat]
    · cases p <;> (split <;> simp [flat])

/-! ### names: which constructors share a name -/

inductive NameTag where
  | any | undef | str | int | flt | enum | arr | var | tup | opt | typ
  | nul (k : NulK) | bool | coll | un (k : UnK) | rx | pattern | tref | semver | hash | like | callable | runtime | struct | init
  deriving DecidableEq

def nameTag : Ty → NameTag
  | .any => .any | .undef => .undef | .str => .str | .int _ _ => .int | .flt _ _ => .flt | .enum _ _ => .enum
  | .arr _ _ _ => .arr | .var _ => .var | .tup _ _ => .tup | .opt _ => .opt | .typ _ => .typ
  | .nul k => .nul k | .bool _ => .bool | .coll _ _ => .coll | .un k _ => .un k
  | .strSize _ _ => .str | .strVal _ => .str | .rx _ => .rx | .pattern _ => .pattern | .tref _ => .tref
  | .semverT _ _ => .semver | .hash _ _ _ _ => .hash | .like _ _ => .like | .callable _ _ _ _ _ _ => .callable | .runtime _ _ _ => .runtime
  | .struct _ => .struct | .init _ _ => .init

def tagName : NameTag → Bytes
  | .any => Ty.any.name | .undef => Ty.undef.name | .str => Ty.str.name | .int => (Ty.int 0 0).name | .flt => (Ty.flt 0 0).name
  | .enum => (Ty.enum false []).name | .arr => (Ty.arr .any 0 0).name | .var => (Ty.var []).name | .tup => (Ty.tup [] none).name
  | .opt => (Ty.opt .any).name | .typ => (Ty.typ .any).name | .nul k => (Ty.nul k).name | .bool => (Ty.bool none).name
  | .coll => (Ty.coll 0 0).name | .un k => (Ty.un k .any).name | .rx => (Ty.rx []).name | .pattern => (Ty.pattern []).name
  | .tref => (Ty.tref []).name | .semver => (Ty.semverT [] []).name
  | .hash => (Ty.hash .any .any 0 0).name | .like => (Ty.like .any []).name | .callable => (Ty.callable false [] false .any false .any).name
  | .runtime => (Ty.runtime [] [] none).name | .struct => (Ty.struct []).name
  | .init => (Ty.init false .any).name

theorem name_tag (t : Ty) : t.name = tagName (nameTag t) := by
  cases t with
  | nul k => cases k <;> rfl
  | un k t => cases k <;> rfl
  | _ => rfl

def allTags : List NameTag :=
  [.any, .undef, .str, .int, .flt, .enum, .arr, .var, .tup, .opt, .typ, .bool, .coll, .rx, .pattern, .tref, .semver,
   .hash, .like, .callable, .runtime, .struct, .init,
   .nul .dflt, .nul .unit, .nul .scalar, .nul .scalarData, .nul .numeric, .nul .binary, .nul .data, .nul .richData, .nul .semverRange,
   .un .notUndef, .un .sensitive, .un .iterable, .un .iterator]

theorem mem_allTags (x : NameTag) : x ∈ allTags := by
  cases x with
  | nul k => cases k <;> simp [allTags]
  | un k => cases k <;> simp [allTags]
  | _ => simp [allTags]

set_option maxRecDepth 100000 in
theorem tagName_inj_list : ∀ x ∈ allTags, ∀ y ∈ allTags, tagName x = tagName y → x = y := by decide

/-- two types have the same name exactly when their constructors are in the same name class -/
theorem name_eq_iff (a b : Ty) : a.name = b.name ↔ nameTag a = nameTag b := by
  rw [name_tag a, name_tag b]
  exact ⟨tagName_inj_list _ (mem_allTags _) _ (mem_allTags _), fun h => by rw [h]⟩

/-- the key of a type is its name and its parameter keys -/
theorem nameTag_struct (t : Ty) : nameTag t = .struct ↔ t.isStruct = true := by
  cases t <;> simp [nameTag, Ty.isStruct]

theorem isStruct_of_name {a b : Ty} (ha : a.isStruct = false) (h : a.name = b.name) : b.isStruct = false := by
  rw [name_eq_iff] at h
  cases hb : b.isStruct
  · rfl
  · have := (nameTag_struct b).mpr hb
    rw [← h] at this
    rw [(nameTag_struct a).mp this] at ha
    cases ha

theorem tyKey_shape_gen (t : Ty) : ∃ tail, tyKey t = [1, 0x74] ++ (frame (strMark ++ t.name) ++ tail) := by
  cases hs : t.isStruct
  · exact ⟨_, tyKey_shape t hs⟩
  · cases t <;> simp [Ty.isStruct] at hs
    exact ⟨_, tyKey_struct _⟩

/-- the key of a type that is not a Struct is its name and its parameter keys -/
theorem tyKey_eq_iff (a b : Ty) (ha : a.isStruct = false) : tyKey a = tyKey b ↔ a.name = b.name ∧ tyParamL a = tyParamL b := by
  constructor
  · intro h
    obtain ⟨tb, hb⟩ := tyKey_shape_gen b
    have hn : a.name = b.name := by
      rw [tyKey_shape a ha, hb] at h
      exact List.append_cancel_left (frame_decode (List.append_cancel_left h)).1
    rw [tyKey_shape a ha, tyKey_shape b (isStruct_of_name ha hn)] at h
    have h1 := frame_decode (List.append_cancel_left h)
    exact ⟨hn, flat_frames_inj _ _ h1.2⟩
  · rintro ⟨h1, h2⟩
    rw [tyKey_shape a ha, tyKey_shape b (isStruct_of_name ha h1), h1, h2]

/-! ### parameter lists are injective -/

def IntOk (i : Int) : Prop := minInt ≤ i ∧ i ≤ maxInt
def FltOk (b : Nat) : Prop := b < 18446744073709551616 ∧ fIsNaN b = false

theorem intKey_inj {i j : Int} (hi : IntOk i) (hj : IntOk j) : intKey i = intKey j ↔ i = j := by
  constructor
  · intro h
    simp only [intKey, List.append_cancel_left_eq] at h
    exact u64OfInt_inj hi hj (be64_inj (u64OfInt_lt i) (u64OfInt_lt j) h)
  · intro h; rw [h]

theorem feq_iff_fnorm {a b : Nat} (ha : FltOk a) (hb : FltOk b) : feq a b = true ↔ fnorm a = fnorm b := by
  simp only [feq, fnorm, fIsZero, ha.2, hb.2, Bool.not_false, Bool.true_and, Bool.or_eq_true, beq_iff_eq,
    Bool.and_eq_true]
  split <;> split <;> omega

theorem fnorm_lt {a : Nat} (ha : FltOk a) : fnorm a < 18446744073709551616 := by
  have := ha.1
  simp only [fnorm]; split <;> omega

theorem floatKey_inj {a b : Nat} (ha : FltOk a) (hb : FltOk b) : floatKey a = floatKey b ↔ feq a b = true := by
  rw [feq_iff_fnorm ha hb]
  constructor
  · intro h
    simp only [floatKey, List.append_cancel_left_eq] at h
    exact be64_inj (fnorm_lt ha) (fnorm_lt hb) h
  · intro h; simp [floatKey, h]

theorem default_ne_intKey (i : Int) : defaultKey ≠ intKey i := by simp [defaultKey, intKey]
theorem default_ne_floatKey (b : Nat) : defaultKey ≠ floatKey b := by simp [defaultKey, floatKey]

theorem intParamL_inj {lo hi lo' hi' : Int} (h1 : IntOk lo) (h2 : IntOk hi) (h3 : IntOk lo') (h4 : IntOk hi') :
    intParamL lo hi = intParamL lo' hi' ↔ lo = lo' ∧ hi = hi' := by
  unfold intParamL
  split <;> split <;> split <;> split <;>
    simp_all [intKey_inj, default_ne_intKey, (default_ne_intKey _).symm] <;> (try omega) <;>
    (intros; simp_all [IntOk, minInt, maxInt]; try omega)

theorem fltOk_negMax : FltOk negMaxFloatBits := ⟨by decide, by decide⟩
theorem fltOk_max : FltOk maxFloatBits := ⟨by decide, by decide⟩

theorem fltParamL_inj {lo hi lo' hi' : Nat} (h1 : FltOk lo) (h2 : FltOk hi) (h3 : FltOk lo') (h4 : FltOk hi') :
    fltParamL lo hi = fltParamL lo' hi' ↔ feq lo lo' = true ∧ feq hi hi' = true := by
  unfold fltParamL
  rw [feq_iff_fnorm h1 h3, feq_iff_fnorm h2 h4]
  simp only [feq_iff_fnorm h1 fltOk_negMax, feq_iff_fnorm h2 fltOk_max, feq_iff_fnorm h3 fltOk_negMax,
    feq_iff_fnorm h4 fltOk_max]
  split <;> split <;> split <;> split <;>
    simp_all [floatKey_inj, feq_iff_fnorm, default_ne_floatKey, (default_ne_floatKey _).symm] <;>
    (intros; first | (intro h; simp_all) | simp_all)

theorem sizeParamL_inj {lo hi lo' hi' : Int} (h1 : IntOk lo) (h2 : IntOk hi) (h3 : IntOk lo') (h4 : IntOk hi') :
    sizeParamL lo hi = sizeParamL lo' hi' ↔ lo = lo' ∧ hi = hi' := by
  unfold sizeParamL
  split <;> split <;>
    simp_all [intKey_inj, default_ne_intKey, (default_ne_intKey _).symm] <;>
    (intros; first | (intro h; simp_all) | simp_all)

/-! ### separating the type parameters from the trailing size / flag parameters -/

theorem append_sep {P : Bytes → Prop} : ∀ {A B S S' : List Bytes}, (∀ a ∈ A, P a) → (∀ b ∈ B, P b) →
    (∀ s ∈ S, ¬ P s) → (∀ s ∈ S', ¬ P s) → (A ++ S = B ++ S' ↔ A = B ∧ S = S')
  | [], [], _, _, _, _, _, _ => by simp
  | [], b :: B, S, S', _, hB, hS, _ => by
      simp only [List.nil_append, List.cons_append, List.nil_eq, reduceCtorEq, false_and, iff_false]
      intro h
      exact hS b (h ▸ List.mem_cons_self) (hB b List.mem_cons_self)
  | a :: A, [], S, S', hA, _, _, hS' => by
      simp only [List.nil_append, List.cons_append, reduceCtorEq, false_and, iff_false]
      intro h
      exact hS' a (h ▸ List.mem_cons_self) (hA a List.mem_cons_self)
  | a :: A, b :: B, S, S', hA, hB, hS, hS' => by
      simp only [List.cons_append, List.cons.injEq,
        append_sep (fun x hx => hA x (List.mem_cons_of_mem _ hx)) (fun x hx => hB x (List.mem_cons_of_mem _ hx)) hS hS',
        and_assoc]

def IsTyKey (a : Bytes) : Prop := ∃ r, a = 1 :: 0x74 :: r
def IsStrKey (a : Bytes) : Prop := ∃ r, a = 1 :: 0x73 :: r

theorem tyKey_hd (t : Ty) : IsTyKey (tyKey t) := by
  obtain ⟨tail, h⟩ := tyKey_shape_gen t
  rw [h]; exact ⟨_, rfl⟩

theorem not_isTyKey_size {lo hi : Int} : ∀ s ∈ sizeParamL lo hi, ¬ IsTyKey s := by
  intro s hs
  simp only [sizeParamL, List.mem_cons, List.not_mem_nil, or_false] at hs
  rcases hs with rfl | rfl
  · simp [IsTyKey, intKey]
  · split <;> simp [IsTyKey, intKey, defaultKey]

theorem map_tyKey_isTyKey (ts : List Ty) : ∀ a ∈ ts.map tyKey, IsTyKey a := by
  intro a ha
  obtain ⟨t, _, rfl⟩ := List.mem_map.mp ha
  exact tyKey_hd t

theorem isAny_eq {t : Ty} (h : t.isAny = true) : t = .any := by
  cases t <;> simp [Ty.isAny] at h; rfl

theorem tyEq_any_left (t : Ty) : tyEq .any t = t.isAny := by cases t <;> simp [tyEq, Ty.isAny]
theorem tyEq_any_right (t : Ty) : tyEq t .any = t.isAny := by cases t <;> simp [tyEq, Ty.isAny]

/-- the optional leading type parameter of Array -/
theorem optParam_iff {e e' : Ty} (ih : tyKey e = tyKey e' ↔ tyEq e e' = true) :
    (if e.isAny then [] else [tyKey e]) = (if e'.isAny then [] else [tyKey e']) ↔ tyEq e e' = true := by
  cases h : e.isAny <;> cases h' : e'.isAny
  · simp [ih]
  · rw [isAny_eq h', tyEq_any_right, h]; simp
  · rw [isAny_eq h, tyEq_any_left, h']; simp
  · rw [isAny_eq h, isAny_eq h']; simp [tyEq]

theorem isUnit_eq {t : Ty} (h : t.isUnit = true) : t = .nul .unit := by
  cases t with
  | nul k => cases k <;> simp [Ty.isUnit] at h; rfl
  | _ => simp [Ty.isUnit] at h

theorem tyEq_unit_left (t : Ty) : tyEq (.nul .unit) t = t.isUnit := by
  cases t with
  | nul k => cases k <;> simp [tyEq, Ty.isUnit]
  | _ => simp [tyEq, Ty.isUnit]

theorem tyEq_unit_right (t : Ty) : tyEq t (.nul .unit) = t.isUnit := by
  cases t with
  | nul k => cases k <;> simp [tyEq, Ty.isUnit]
  | _ => simp [tyEq, Ty.isUnit]

/-- the leading type parameter of `Array[T, 0, 0]`: absent for Unit -/
theorem unitParam_iff {e e' : Ty} (ih : tyKey e = tyKey e' ↔ tyEq e e' = true) :
    (if e.isUnit then [] else [tyKey e]) = (if e'.isUnit then [] else [tyKey e']) ↔ tyEq e e' = true := by
  cases h : e.isUnit <;> cases h' : e'.isUnit
  · simp [ih]
  · rw [isUnit_eq h', tyEq_unit_right, h]; simp
  · rw [isUnit_eq h, tyEq_unit_left, h']; simp
  · rw [isUnit_eq h, isUnit_eq h']; simp [tyEq]

def strValOf : Ty → Option Bytes
  | .strVal v => some v
  | _ => none

theorem strValOf_some {t : Ty} {v : Bytes} (h : strValOf t = some v) : t = .strVal v := by
  cases t <;> simp [strValOf] at h; rw [h]

theorem tyEq_strVal_left {v : Bytes} {t : Ty} (h : strValOf t = none) : tyEq (.strVal v) t = false := by
  cases t <;> simp [strValOf] at h <;> simp [tyEq]

theorem tyEq_strVal_right {v : Bytes} {t : Ty} (h : strValOf t = none) : tyEq t (.strVal v) = false := by
  cases t <;> simp [strValOf] at h <;> simp [tyEq]

theorem wrapParamL_eq (q : Bool) (t : Ty) : wrapParamL q t =
    if t.isAny then [] else
      match q, strValOf t with
      | true, some v => if v.isEmpty then [tyKey t] else [strMark ++ v]
      | _, _ => [tyKey t] := by
  cases q <;> cases t <;> simp [wrapParamL, strValOf, Ty.isAny]

theorem strMark_ne_tyKey (v : Bytes) (t : Ty) : strMark ++ v ≠ tyKey t := by
  obtain ⟨r, hr⟩ := tyKey_hd t
  rw [hr]; simp [strMark]

/-- the one parameter of a wrapper type (Optional, Type, NotUndef, Sensitive, Iterable, Iterator): absent for Any; Optional and
    NotUndef hand out the string `'v'` for a wrapped `String['v']` -/
theorem wrapParamL_iff {q : Bool} {e e' : Ty} (he : TyWF e = true) (he' : TyWF e' = true)
    (ih : tyKey e = tyKey e' ↔ tyEq e e' = true) : wrapParamL q e = wrapParamL q e' ↔ tyEq e e' = true := by
  rw [wrapParamL_eq, wrapParamL_eq]
  cases h : e.isAny <;> cases h' : e'.isAny
  · cases q
    · simp [ih]
    · cases hs : strValOf e with
      | none =>
        cases hs' : strValOf e' with
        | none => simp [ih]
        | some v' =>
          have e2 := strValOf_some hs'
          subst e2
          have hv' : v'.isEmpty = false := by simpa [TyWF] using he'
          have hv'' : v' ≠ [] := by simpa using hv'
          simp [hv'', tyEq_strVal_right hs, (strMark_ne_tyKey v' e).symm]
      | some v =>
        have e1 := strValOf_some hs
        subst e1
        have hv : v.isEmpty = false := by simpa [TyWF] using he
        have hv2 : v ≠ [] := by simpa using hv
        cases hs' : strValOf e' with
        | none => simp [hv2, tyEq_strVal_left hs', strMark_ne_tyKey v e']
        | some v' =>
          have e2 := strValOf_some hs'
          subst e2
          have hv' : v'.isEmpty = false := by simpa [TyWF] using he'
          have hv'' : v' ≠ [] := by simpa using hv'
          simp [hv2, hv'', tyEq]
  · rw [isAny_eq h', tyEq_any_right, h]; cases q <;> cases strValOf e <;> simp <;> split <;> simp
  · rw [isAny_eq h, tyEq_any_left, h']; cases q <;> cases strValOf e' <;> simp <;> split <;> simp
  · rw [isAny_eq h, isAny_eq h']; simp [tyEq]

theorem intParamL_ne_nil {lo hi : Int} (h : 0 ≤ lo) : intParamL lo hi ≠ [] := by
  unfold intParamL
  have : lo ≠ minInt := by unfold minInt; omega
  simp only [this, if_false]
  split <;> simp

theorem intParamL_ne_str {lo hi : Int} {v : Bytes} : intParamL lo hi ≠ [strMark ++ v] := by
  unfold intParamL
  split <;> split <;> simp [intKey, defaultKey, strMark]

/-- the optional trailing size of Array / Collection -/
theorem sizeOptL_iff {lo hi lo' hi' : Int} (h1 : IntOk lo) (h2 : IntOk hi) (h3 : IntOk lo') (h4 : IntOk hi') :
    ((if lo = 0 ∧ hi = maxInt then [] else sizeParamL lo hi) =
      (if lo' = 0 ∧ hi' = maxInt then [] else sizeParamL lo' hi')) ↔ lo = lo' ∧ hi = hi' := by
  split <;> split
  · simp_all
  · simp_all [sizeParamL] <;> omega
  · simp_all [sizeParamL] <;> omega
  · exact sizeParamL_inj h1 h2 h3 h4

theorem map_strMark_inj : ∀ {vs vs' : List Bytes}, vs.map (strMark ++ ·) = vs'.map (strMark ++ ·) ↔ vs = vs'
  | [], [] => by simp
  | [], _ :: _ => by simp
  | _ :: _, [] => by simp
  | v :: vs, v' :: vs' => by simp [map_strMark_inj (vs := vs) (vs' := vs')]

theorem lenOk {n : Nat} (h : n ≤ 9223372036854775807) : IntOk (n : Int) := by
  simp only [IntOk, minInt, maxInt]; omega

theorem TyWFL_mem : ∀ {ts : List Ty}, TyWFL ts = true → ∀ t ∈ ts, TyWF t = true
  | [], _, _, h => by simp at h
  | t' :: ts, hw, t, ht => by
      simp only [TyWFL, Bool.and_eq_true] at hw
      rcases List.mem_cons.mp ht with e | ht
      · rw [e]; exact hw.1
      · exact TyWFL_mem hw.2 t ht

theorem enumKeys_length (ci : Bool) (vs : List Bytes) : (enumKeys ci vs).length = vs.length + (if ci then 1 else 0) := by
  cases ci <;> simp [enumKeys]

theorem mem_enumKeys_str (ci : Bool) (vs : List Bytes) (v : Bytes) : strMark ++ v ∈ enumKeys ci vs ↔ v ∈ vs := by
  cases ci <;> simp [enumKeys, strMark, boolKey]

theorem mem_enumKeys_flag (ci : Bool) (vs : List Bytes) : boolKey true ∈ enumKeys ci vs ↔ ci = true := by
  cases ci <;> simp [enumKeys, strMark, boolKey]

theorem mem_enumKeys (ci : Bool) (vs : List Bytes) (x : Bytes) :
    x ∈ enumKeys ci vs ↔ (∃ v ∈ vs, x = strMark ++ v) ∨ (ci = true ∧ x = boolKey true) := by
  cases ci <;> simp [enumKeys, eq_comm]

theorem containsAll_iff (a b : List Bytes) : containsAll a b = true ↔ ∀ s ∈ b, s ∈ a := by
  simp [containsAll]

/-- the parameters of an Enum: the count and the set of element keys decide `Equals` -/
theorem enumParam_iff {ci ci' : Bool} {vs vs' : List Bytes} (ha : vs.length < 9223372036854775807)
    (hb : vs'.length < 9223372036854775807) :
    (intKey (enumKeys ci vs).length = intKey (enumKeys ci' vs').length ∧
        dedupS (sortB (enumKeys ci vs)) = dedupS (sortB (enumKeys ci' vs'))) ↔
      ((ci = ci' ∧ vs.length = vs'.length) ∧ containsAll vs vs' = true) ∧ containsAll vs' vs = true := by
  rw [dedupS_sortB_eq_iff, containsAll_iff, containsAll_iff,
    intKey_inj (lenOk (by rw [enumKeys_length]; split <;> omega)) (lenOk (by rw [enumKeys_length]; split <;> omega))]
  constructor
  · rintro ⟨hl, hm⟩
    have hc : ci = ci' := by
      have := hm (boolKey true)
      rw [mem_enumKeys_flag, mem_enumKeys_flag] at this
      cases ci <;> cases ci' <;> simp_all
    subst hc
    have hl' : (enumKeys ci vs).length = (enumKeys ci vs').length := by exact_mod_cast hl
    rw [enumKeys_length, enumKeys_length] at hl'
    refine ⟨⟨⟨rfl, by omega⟩, fun s hs => ?_⟩, fun s hs => ?_⟩
    · exact (mem_enumKeys_str ci vs s).mp ((hm _).mpr ((mem_enumKeys_str ci vs' s).mpr hs))
    · exact (mem_enumKeys_str ci vs' s).mp ((hm _).mp ((mem_enumKeys_str ci vs s).mpr hs))
  · rintro ⟨⟨⟨hc, hl⟩, h1⟩, h2⟩
    subst hc
    refine ⟨by rw [enumKeys_length, enumKeys_length, hl], fun x => ?_⟩
    rw [mem_enumKeys, mem_enumKeys]
    constructor
    · rintro (⟨v, hv, rfl⟩ | h)
      · exact Or.inl ⟨v, h2 v hv, rfl⟩
      · exact Or.inr h
    · rintro (⟨v, hv, rfl⟩ | h)
      · exact Or.inl ⟨v, h1 v hv, rfl⟩
      · exact Or.inr h

theorem rxKey_inj {p q : Bytes} : rxKey p = rxKey q ↔ p = q := by simp [rxKey]

/-- the parameters of a Pattern: the count and the set of pattern keys decide `Equals` -/
theorem patternParam_iff {ps qs : List Bytes} (ha : ps.length ≤ 9223372036854775807) (hb : qs.length ≤ 9223372036854775807) :
    (intKey ps.length = intKey qs.length ∧ dedupS (sortB (ps.map rxKey)) = dedupS (sortB (qs.map rxKey))) ↔
      (ps.length = qs.length ∧ containsAll ps qs = true) ∧ containsAll qs ps = true := by
  rw [dedupS_sortB_eq_iff, containsAll_iff, containsAll_iff, intKey_inj (lenOk ha) (lenOk hb)]
  constructor
  · rintro ⟨hl, hm⟩
    refine ⟨⟨by exact_mod_cast hl, fun s hs => ?_⟩, fun s hs => ?_⟩
    · obtain ⟨p, hp, e⟩ := List.mem_map.mp ((hm (rxKey s)).mpr (List.mem_map_of_mem hs))
      rw [← rxKey_inj.mp e]; exact hp
    · obtain ⟨p, hp, e⟩ := List.mem_map.mp ((hm (rxKey s)).mp (List.mem_map_of_mem hs))
      rw [← rxKey_inj.mp e]; exact hp
  · rintro ⟨⟨hl, h1⟩, h2⟩
    refine ⟨by rw [hl], fun x => ⟨fun hx => ?_, fun hx => ?_⟩⟩
    · obtain ⟨p, hp, rfl⟩ := List.mem_map.mp hx
      exact List.mem_map_of_mem (h2 p hp)
    · obtain ⟨p, hp, rfl⟩ := List.mem_map.mp hx
      exact List.mem_map_of_mem (h1 p hp)

theorem tyEq_isAny {a b : Ty} (h : tyEq a b = true) : a.isAny = b.isAny := by
  cases ha : a.isAny
  · cases hb : b.isAny
    · rfl
    · rw [isAny_eq hb, tyEq_any_right, ha] at h; cases h
  · rw [isAny_eq ha, tyEq_any_left] at h; rw [h]

theorem tyEq_isUnit {a b : Ty} (h : tyEq a b = true) : a.isUnit = b.isUnit := by
  cases ha : a.isUnit
  · cases hb : b.isUnit
    · rfl
    · rw [isUnit_eq hb, tyEq_unit_right, ha] at h; cases h
  · rw [isUnit_eq ha, tyEq_unit_left] at h; rw [h]

theorem intKey_ne_tyKey (i : Int) (t : Ty) : intKey i ≠ tyKey t := by
  obtain ⟨r, hr⟩ := tyKey_hd t
  rw [hr]; simp [intKey]

theorem rxTyKey_eq (p : Bytes) : rxTyKey p = tyKey (.rx p) := by simp [tyKey]

theorem rxTyKey_inj {p q : Bytes} : rxTyKey p = rxTyKey q ↔ p = q := by
  rw [rxTyKey_eq, rxTyKey_eq, tyKey_eq_iff _ _ rfl]
  cases p <;> cases q <;> simp [Ty.name, tyParamL, rxKey]

theorem strMark_ne_rxTyKey (v p : Bytes) : strMark ++ v ≠ rxTyKey p := by
  rw [rxTyKey_eq]; exact strMark_ne_tyKey v _

/-- the parameters of a Hash type decide `Equals` -/
theorem hashParam_iff {k v k' v' : Ty} {lo hi lo' hi' : Int} (h1 : IntOk lo) (h2 : IntOk hi) (h3 : IntOk lo') (h4 : IntOk hi')
    (ihk : tyKey k = tyKey k' ↔ tyEq k k' = true) (ihv : tyKey v = tyKey v' ↔ tyEq v v' = true) :
    tyParamL (.hash k v lo hi) = tyParamL (.hash k' v' lo' hi') ↔
      ((lo = lo' ∧ hi = hi') ∧ tyEq k k' = true) ∧ tyEq v v' = true := by
  constructor
  · intro h
    simp only [tyParamL] at h
    have gen : ∀ {S S' : List Bytes}, tyKey k :: tyKey v :: S = tyKey k' :: tyKey v' :: S' →
        tyEq k k' = true ∧ tyEq v v' = true ∧ S = S' := by
      intro S S' e
      simp only [List.cons.injEq] at e
      exact ⟨ihk.mp e.1, ihv.mp e.2.1, e.2.2⟩
    by_cases d : (k.isAny ∧ v.isAny) ∧ (lo = 0 ∧ hi = maxInt)
    · by_cases d' : (k'.isAny ∧ v'.isAny) ∧ (lo' = 0 ∧ hi' = maxInt)
      · obtain ⟨⟨a1, a2⟩, e1, e2⟩ := d
        obtain ⟨⟨b1, b2⟩, f1, f2⟩ := d'
        rw [isAny_eq a1, isAny_eq a2, isAny_eq b1, isAny_eq b2, e1, e2, f1, f2]
        simp [tyEq]
      · rw [if_pos d, if_neg d'] at h
        split at h <;> simp at h
    · rw [if_neg d] at h
      by_cases e : (k.isUnit ∧ v.isUnit) ∧ (lo = 0 ∧ hi = 0)
      · rw [if_pos e] at h
        by_cases d' : (k'.isAny ∧ v'.isAny) ∧ (lo' = 0 ∧ hi' = maxInt)
        · rw [if_pos d'] at h; simp at h
        · rw [if_neg d'] at h
          by_cases e' : (k'.isUnit ∧ v'.isUnit) ∧ (lo' = 0 ∧ hi' = 0)
          · obtain ⟨⟨a1, a2⟩, e1, e2⟩ := e
            obtain ⟨⟨b1, b2⟩, f1, f2⟩ := e'
            rw [isUnit_eq a1, isUnit_eq a2, isUnit_eq b1, isUnit_eq b2, e1, e2, f1, f2]
            simp [tyEq]
          · rw [if_neg e'] at h
            simp only [List.cons.injEq] at h
            exact absurd h.1 (intKey_ne_tyKey 0 k')
      · rw [if_neg e] at h
        by_cases d' : (k'.isAny ∧ v'.isAny) ∧ (lo' = 0 ∧ hi' = maxInt)
        · rw [if_pos d'] at h; simp at h
        · rw [if_neg d'] at h
          by_cases e' : (k'.isUnit ∧ v'.isUnit) ∧ (lo' = 0 ∧ hi' = 0)
          · rw [if_pos e'] at h
            simp only [List.cons.injEq] at h
            exact absurd h.1.symm (intKey_ne_tyKey 0 k)
          · rw [if_neg e'] at h
            obtain ⟨g1, g2, g3⟩ := gen h
            exact ⟨⟨(sizeOptL_iff h1 h2 h3 h4).mp g3, g1⟩, g2⟩
  · rintro ⟨⟨⟨rfl, rfl⟩, hk⟩, hv⟩
    simp only [tyParamL, tyEq_isAny hk, tyEq_isAny hv, tyEq_isUnit hk, tyEq_isUnit hv, ihk.mpr hk, ihv.mpr hv]

theorem likeParam_iff {b b' : Ty} {n n' : Bytes} (ih : tyKey b = tyKey b' ↔ tyEq b b' = true) :
    tyParamL (.like b n) = tyParamL (.like b' n') ↔ n = n' ∧ tyEq b b' = true := by
  constructor
  · intro h
    simp only [tyParamL] at h
    by_cases d : b.isAny ∧ n.isEmpty
    · by_cases d' : b'.isAny ∧ n'.isEmpty
      · obtain ⟨a1, a2⟩ := d
        obtain ⟨b1, b2⟩ := d'
        rw [isAny_eq a1, isAny_eq b1, List.isEmpty_iff.mp a2, List.isEmpty_iff.mp b2]
        simp [tyEq]
      · rw [if_pos d, if_neg d'] at h; simp at h
    · rw [if_neg d] at h
      by_cases d' : b'.isAny ∧ n'.isEmpty
      · rw [if_pos d'] at h; simp at h
      · rw [if_neg d'] at h
        simp only [List.cons.injEq, List.append_cancel_left_eq, and_true] at h
        exact ⟨h.2, ih.mp h.1⟩
  · rintro ⟨rfl, hb⟩
    simp only [tyParamL, tyEq_isAny hb, ih.mpr hb]

theorem runtimeParam_iff {rt n rt' n' : Bytes} {p p' : Option Bytes} :
    tyParamL (.runtime rt n p) = tyParamL (.runtime rt' n' p') ↔ (rt = rt' ∧ n = n') ∧ p = p' := by
  constructor
  · intro h
    simp only [tyParamL] at h
    by_cases d : (rt.isEmpty ∧ n.isEmpty) ∧ p.isNone
    · by_cases d' : (rt'.isEmpty ∧ n'.isEmpty) ∧ p'.isNone
      · obtain ⟨⟨a1, a2⟩, a3⟩ := d
        obtain ⟨⟨b1, b2⟩, b3⟩ := d'
        rw [List.isEmpty_iff.mp a1, List.isEmpty_iff.mp a2, List.isEmpty_iff.mp b1, List.isEmpty_iff.mp b2,
          Option.isNone_iff_eq_none.mp a3, Option.isNone_iff_eq_none.mp b3]
        simp
      · rw [if_pos d, if_neg d'] at h; simp at h
    · rw [if_neg d] at h
      by_cases d' : (rt'.isEmpty ∧ n'.isEmpty) ∧ p'.isNone
      · rw [if_pos d'] at h; simp at h
      · rw [if_neg d'] at h
        simp only [List.cons.injEq, List.append_cancel_left_eq] at h
        obtain ⟨hrt, hrest⟩ := h
        subst hrt
        cases p <;> cases p' <;> by_cases hn : n = [] <;> by_cases hn' : n' = [] <;>
          simp [hn, hn', strMark_ne_rxTyKey, (strMark_ne_rxTyKey _ _).symm, rxTyKey_inj] at hrest ⊢ <;>
          first | exact hrest | (obtain ⟨e1, e2⟩ := hrest; exact ⟨e1, e2⟩) | skip
  · rintro ⟨⟨rfl, rfl⟩, rfl⟩; rfl

theorem tupKeyOf_eq (ts : List Ty) : tupKeyOf ts = tyKey (.tup ts none) := by simp [tupKeyOf, tyKey, goaSize]

/-- the key of the parameter Tuple of a Callable decides its `Equals` (given that fact for the member lists) -/
theorem tupKeyOf_iff {ts us : List Ty} (h1 : (ts.length : Int) ≤ maxInt) (h2 : (us.length : Int) ≤ maxInt)
    (hL : ts.map tyKey = us.map tyKey ↔ ts.length = us.length ∧ tyEqL ts us = true) :
    tupKeyOf ts = tupKeyOf us ↔ ts.length = us.length ∧ tyEqL ts us = true := by
  rw [tupKeyOf_eq, tupKeyOf_eq, tyKey_eq_iff _ _ rfl]
  simp only [Ty.name, tyParamL, goaSize, true_and]
  have o1 : IntOk (ts.length : Int) := by simp only [IntOk, minInt, maxInt] at *; omega
  have o2 : IntOk (us.length : Int) := by simp only [IntOk, minInt, maxInt] at *; omega
  rw [append_sep (P := IsTyKey) (map_tyKey_isTyKey ts) (map_tyKey_isTyKey us) not_isTyKey_size not_isTyKey_size, hL,
    sizeParamL_inj o1 o1 o2 o2]
  constructor
  · rintro ⟨h, _⟩; exact h
  · rintro ⟨h, h'⟩; exact ⟨⟨h, h'⟩, by rw [h], by rw [h]⟩

theorem undefKey_ne_tyKey (t : Ty) : undefKey ≠ tyKey t := by
  obtain ⟨r, hr⟩ := tyKey_hd t
  rw [hr]; simp [undefKey]

/-! ### Struct: the entry keys -/

theorem acceptsUndefL_eq (ts : List Ty) : acceptsUndefL ts = ts.any acceptsUndef := by
  induction ts with
  | nil => rfl
  | cons t ts ih => simp [acceptsUndefL, ih]

/-- Equal types accept undef alike (so the entry key of a Struct member is written in the same form on both sides) -/
theorem tyEq_acceptsUndef : ∀ (n : Nat) (a b : Ty), sizeOf a ≤ n → tyEq a b = true → acceptsUndef a = acceptsUndef b := by
  intro n
  induction n with
  | zero => intro a b h; cases a <;> simp at h
  | succ n ih =>
    intro a b hs h
    cases a with
    | var ts =>
      cases b with
      | var us =>
        rw [tyEq_var] at h
        obtain ⟨_, h1, h2⟩ := h
        simp only [acceptsUndef, acceptsUndefL_eq]
        have sz : ∀ v ∈ ts, sizeOf v ≤ n := by
          intro v hv
          have := List.sizeOf_lt_of_mem hv
          simp only [Ty.var.sizeOf_spec] at hs
          omega
        apply Bool.eq_iff_iff.mpr
        simp only [List.any_eq_true]
        constructor
        · rintro ⟨v, hv, ha⟩
          obtain ⟨u, hu, e⟩ := h1 v hv
          exact ⟨u, hu, by rw [← ih v u (sz v hv) e]; exact ha⟩
        · rintro ⟨u, hu, ha⟩
          obtain ⟨v, hv, e⟩ := h2 u hu
          exact ⟨v, hv, by rw [ih v u (sz v hv) e]; exact ha⟩
      | _ => simp [tyEq] at h
    | nul k => cases b <;> simp [tyEq] at h; subst h; rfl
    | any => cases b <;> simp [tyEq] at h; rfl
    | undef => cases b <;> simp [tyEq] at h; rfl
    | opt t => cases b <;> simp [tyEq] at h; rfl
    | _ => cases b <;> simp [tyEq] at h <;> rfl

theorem ekStr_inj {a b : Bytes} : ekStr a = ekStr b ↔ a = b := by
  constructor
  · intro h; exact List.append_cancel_left (frame_inj h)
  · intro h; rw [h]

theorem structEntryKey_inj {n n' : Bytes} {o o' a : Bool} :
    structEntryKey n o a = structEntryKey n' o' a ↔ n = n' ∧ o = o' := by
  cases o <;> cases o' <;> cases a <;>
    simp [structEntryKey, optStrKey, notUndefStrKey, strMark, ekStr_inj]

theorem tyKeyS_step {n n' : Bytes} {o o' : Bool} {v v' : Ty} {es fs : List (Bytes × Bool × Ty)}
    (ihv : tyKey v = tyKey v' ↔ tyEq v v' = true) (ihs : tyKeyS es = tyKeyS fs ↔ tyEqS es fs = true) :
    tyKeyS ((n, o, v) :: es) = tyKeyS ((n', o', v') :: fs) ↔ tyEqS ((n, o, v) :: es) ((n', o', v') :: fs) = true := by
  simp only [tyKeyS, tyEqS, Bool.and_eq_true, beq_iff_eq]
  constructor
  · intro h
    have h1 := frame_decode h
    have h2 := frame_decode (List.cons.inj h1.2).2
    have hv := ihv.mp h2.1
    have ha := tyEq_acceptsUndef _ v v' (Nat.le_refl _) hv
    rw [ha] at h1
    exact ⟨⟨structEntryKey_inj.mp h1.1, hv⟩, ihs.mp h2.2⟩
  · rintro ⟨⟨⟨rfl, rfl⟩, hv⟩, hs⟩
    rw [tyEq_acceptsUndef _ v v' (Nat.le_refl _) hv, ihv.mpr hv, ihs.mpr hs]

/-- one of the three parts of a Callable key: a type key, or undef for an absent part -/
theorem optPart_iff {x y : Bool} {k1 k2 : Bytes} {P : Prop} (h1 : undefKey ≠ k1) (h2 : undefKey ≠ k2)
    (hk : x = true → y = true → (k1 = k2 ↔ P)) :
    ((if x then k1 else undefKey) = (if y then k2 else undefKey)) ↔ (x = y ∧ (x = false ∨ P)) := by
  cases x <;> cases y
  · simp
  · simp [h2]
  · simp [Ne.symm h1]
  · simp [hk rfl rfl]

mutual
theorem tyKey_iff : ∀ a b : Ty, TyWF a = true → TyWF b = true → (tyKey a = tyKey b ↔ tyEq a b = true)
  | .any, b, _, _ => by rw [tyKey_eq_iff _ _ (by rfl), name_eq_iff]; cases b <;> simp [nameTag, tyEq, tyParamL]
  | .undef, b, _, _ => by rw [tyKey_eq_iff _ _ (by rfl), name_eq_iff]; cases b <;> simp [nameTag, tyEq, tyParamL]
  | .str, b, _, hb => by
      rw [tyKey_eq_iff _ _ (by rfl), name_eq_iff]
      cases b <;> simp [nameTag, tyEq, tyParamL]
      simp only [TyWF, Bool.and_eq_true, decide_eq_true_eq] at hb
      exact intParamL_ne_nil hb.1.1
  | .int lo hi, b, ha, hb => by
      rw [tyKey_eq_iff _ _ (by rfl), name_eq_iff]
      cases b <;> simp [nameTag, tyEq, tyParamL]
      simp only [TyWF, Bool.and_eq_true, decide_eq_true_eq] at ha hb
      exact intParamL_inj ha.1 ha.2 hb.1 hb.2
  | .flt lo hi, b, ha, hb => by
      rw [tyKey_eq_iff _ _ (by rfl), name_eq_iff]
      cases b <;> simp [nameTag, tyEq, tyParamL]
      simp only [TyWF, Bool.and_eq_true, decide_eq_true_eq, Bool.not_eq_true'] at ha hb
      exact fltParamL_inj ha.1 ha.2 hb.1 hb.2
  | .enum ci vs, b, ha, hb => by
      rw [tyKey_eq_iff _ _ (by rfl), name_eq_iff]
      cases b <;> simp [nameTag, tyEq, tyParamL]
      rename_i ci' vs'
      simp only [TyWF, decide_eq_true_eq] at ha hb
      exact enumParam_iff ha hb
  | .arr e lo hi, b, ha, hb => by
      rw [tyKey_eq_iff _ _ (by rfl), name_eq_iff]
      cases b <;> simp [nameTag, tyEq, tyParamL]
      rename_i e' lo' hi'
      simp only [TyWF, Bool.and_eq_true, decide_eq_true_eq] at ha hb
      rw [append_sep (P := IsTyKey)]
      · rw [sizeOptL_iff ha.2.1 ha.2.2 hb.2.1 hb.2.2]
        constructor
        · rintro ⟨h1, h2, h3⟩
          subst h2; subst h3
          refine ⟨⟨rfl, rfl⟩, ?_⟩
          by_cases c : lo = 0 ∧ hi = 0
          · have q : (lo = 0 → hi = 0) := fun _ => c.2
            simp only [c.1, c.2, not_true_eq_false, and_false, and_self, and_true, false_or, forall_const] at h1
            exact (unitParam_iff (tyKey_iff e e' ha.1 hb.1)).mp h1
          · have q : (lo = 0 → ¬hi = 0) := fun a b => c ⟨a, b⟩
            simp only [eq_true q, and_true, c, and_false, or_false] at h1
            exact (optParam_iff (tyKey_iff e e' ha.1 hb.1)).mp h1
        · rintro ⟨⟨h2, h3⟩, h1⟩
          subst h2; subst h3
          refine ⟨?_, rfl, rfl⟩
          by_cases c : lo = 0 ∧ hi = 0
          · simp only [c.1, c.2, not_true_eq_false, and_false, and_self, and_true, false_or, forall_const]
            exact (unitParam_iff (tyKey_iff e e' ha.1 hb.1)).mpr h1
          · have q : (lo = 0 → ¬hi = 0) := fun a b => c ⟨a, b⟩
            simp only [eq_true q, and_true, c, and_false, or_false]
            exact (optParam_iff (tyKey_iff e e' ha.1 hb.1)).mpr h1
      · intro a ha'; split at ha' <;> simp at ha'; subst ha'; exact tyKey_hd e
      · intro a ha'; split at ha' <;> simp at ha'; subst ha'; exact tyKey_hd e'
      · intro s hs; split at hs
        · simp at hs
        · exact not_isTyKey_size s hs
      · intro s hs; split at hs
        · simp at hs
        · exact not_isTyKey_size s hs
  | .var ts, b, ha, hb => by
      cases b with
      | var us =>
        simp only [TyWF, Bool.and_eq_true, decide_eq_true_eq] at ha hb
        rw [tyKey_eq_iff _ _ (by rfl), tyEq_var]
        simp only [Ty.name, tyParamL, List.cons.injEq, true_and, dedupS_sortB_eq_iff]
        rw [intKey_inj (lenOk ha.2) (lenOk hb.2)]
        have ih : ∀ v ∈ ts, ∀ u ∈ us, (tyKey v = tyKey u ↔ tyEq v u = true) :=
          fun v hv u hu => tyKey_iff_all ts ha.1 v hv u (TyWFL_mem hb.1 u hu)
        constructor
        · rintro ⟨hl, hm⟩
          refine ⟨by exact_mod_cast hl, fun v hv => ?_, fun u hu => ?_⟩
          · obtain ⟨u, hu, e⟩ := List.mem_map.mp ((hm (tyKey v)).mp (List.mem_map_of_mem hv))
            exact ⟨u, hu, (ih v hv u hu).mp e.symm⟩
          · obtain ⟨v, hv, e⟩ := List.mem_map.mp ((hm (tyKey u)).mpr (List.mem_map_of_mem hu))
            exact ⟨v, hv, (ih v hv u hu).mp e⟩
        · rintro ⟨hl, h1, h2⟩
          refine ⟨by exact_mod_cast hl, fun x => ⟨fun hx => ?_, fun hx => ?_⟩⟩
          · obtain ⟨v, hv, rfl⟩ := List.mem_map.mp hx
            obtain ⟨u, hu, e⟩ := h1 v hv
            rw [(ih v hv u hu).mpr e]; exact List.mem_map_of_mem hu
          · obtain ⟨u, hu, rfl⟩ := List.mem_map.mp hx
            obtain ⟨v, hv, e⟩ := h2 u hu
            rw [← (ih v hv u hu).mpr e]; exact List.mem_map_of_mem hv
      | _ => rw [tyKey_eq_iff _ _ (by rfl), name_eq_iff]; simp [nameTag, tyEq]
  | .tup ts sz, b, ha, hb => by
      rw [tyKey_eq_iff _ _ (by rfl), name_eq_iff]
      cases b <;> simp [nameTag, tyEq, tyParamL]
      rename_i us sz'
      simp only [TyWF, Bool.and_eq_true, decide_eq_true_eq] at ha hb
      rw [append_sep (P := IsTyKey) (map_tyKey_isTyKey ts) (map_tyKey_isTyKey us) not_isTyKey_size not_isTyKey_size,
        tyKey_iff_L ts us ha.1.1 hb.1.1]
      have ok : ∀ (n : Nat) (sz : Option (Int × Int)), (n : Int) ≤ maxInt →
          (match sz with
            | some (lo, hi) => ((decide (minInt ≤ lo) && decide (lo ≤ maxInt)) && (decide (minInt ≤ hi) && decide (hi ≤ maxInt)))
            | none => true) = true → IntOk (goaSize n sz).1 ∧ IntOk (goaSize n sz).2 := by
        intro n sz hn h
        cases sz with
        | none => simp only [goaSize, IntOk, minInt, maxInt] at *; omega
        | some p =>
          obtain ⟨lo, hi⟩ := p
          simpa [goaSize, IntOk, and_assoc] using h
      have o1 := ok ts.length sz ha.2 ha.1.2
      have o2 := ok us.length sz' hb.2 hb.1.2
      rw [sizeParamL_inj o1.1 o1.2 o2.1 o2.2]
      constructor
      · rintro ⟨⟨h1, h2⟩, h3, h4⟩
        exact ⟨⟨h1, Prod.ext h3 h4⟩, h2⟩
      · rintro ⟨⟨h1, h2⟩, h3⟩
        exact ⟨⟨h1, h3⟩, by rw [h2], by rw [h2]⟩
  | .opt t, b, ha, hb => by
      rw [tyKey_eq_iff _ _ (by rfl), name_eq_iff]
      cases b <;> simp [nameTag, tyEq, tyParamL]
      rename_i u
      simp only [TyWF] at ha hb
      exact wrapParamL_iff ha hb (tyKey_iff t u ha hb)
  | .typ t, b, ha, hb => by
      rw [tyKey_eq_iff _ _ (by rfl), name_eq_iff]
      cases b <;> simp [nameTag, tyEq, tyParamL]
      rename_i u
      simp only [TyWF] at ha hb
      exact wrapParamL_iff ha hb (tyKey_iff t u ha hb)
  | .nul k, b, _, _ => by rw [tyKey_eq_iff _ _ (by rfl), name_eq_iff]; cases b <;> simp [nameTag, tyEq, tyParamL]
  | .bool v, b, _, _ => by
      rw [tyKey_eq_iff _ _ (by rfl), name_eq_iff]
      cases b with
      | bool v' =>
        cases v with
        | none => cases v' <;> simp [nameTag, tyEq, tyParamL]
        | some x =>
          cases v' with
          | none => simp [nameTag, tyEq, tyParamL]
          | some y => cases x <;> cases y <;> simp [nameTag, tyEq, tyParamL, boolKey]
      | _ => simp [nameTag, tyEq, tyParamL]
  | .coll lo hi, b, ha, hb => by
      rw [tyKey_eq_iff _ _ (by rfl), name_eq_iff]
      cases b <;> simp [nameTag, tyEq, tyParamL]
      simp only [TyWF, Bool.and_eq_true, decide_eq_true_eq] at ha hb
      exact sizeOptL_iff ha.1 ha.2 hb.1 hb.2
  | .un k t, b, ha, hb => by
      rw [tyKey_eq_iff _ _ (by rfl), name_eq_iff]
      cases b <;> simp [nameTag, tyEq, tyParamL]
      rename_i k' u
      simp only [TyWF] at ha hb
      intro hk
      subst hk
      exact wrapParamL_iff ha hb (tyKey_iff t u ha hb)
  | .strSize lo hi, b, ha, hb => by
      rw [tyKey_eq_iff _ _ (by rfl), name_eq_iff]
      simp only [TyWF, Bool.and_eq_true, decide_eq_true_eq] at ha
      cases b <;> simp [nameTag, tyEq, tyParamL]
      · exact intParamL_ne_nil ha.1.1
      · simp only [TyWF, Bool.and_eq_true, decide_eq_true_eq] at hb
        have m1 : minInt ≤ lo := by unfold minInt; omega
        rename_i lo' hi'
        have m2 : minInt ≤ lo' := by unfold minInt; omega
        exact intParamL_inj ⟨m1, ha.1.2⟩ ha.2 ⟨m2, hb.1.2⟩ hb.2
      · exact intParamL_ne_str
  | .strVal v, b, _, _ => by
      rw [tyKey_eq_iff _ _ (by rfl), name_eq_iff]
      cases b <;> simp [nameTag, tyEq, tyParamL]
      exact fun h => intParamL_ne_str h.symm
  | .rx p, b, _, _ => by
      rw [tyKey_eq_iff _ _ (by rfl), name_eq_iff]
      cases b with
      | rx q => cases p <;> cases q <;> simp [nameTag, tyEq, tyParamL, rxKey]
      | _ => simp [nameTag, tyEq, tyParamL]
  | .pattern ps, b, ha, hb => by
      rw [tyKey_eq_iff _ _ (by rfl), name_eq_iff]
      cases b <;> simp [nameTag, tyEq, tyParamL]
      simp only [TyWF, decide_eq_true_eq] at ha hb
      exact patternParam_iff ha hb
  | .tref s, b, _, _ => by
      rw [tyKey_eq_iff _ _ (by rfl), name_eq_iff]
      cases b with
      | tref s' =>
        simp only [nameTag, tyEq, tyParamL, true_and, beq_iff_eq]
        by_cases h : s = unresolvedRef
        · by_cases h' : s' = unresolvedRef
          · simp [h, h']
          · simp [h, h']; try (exact fun e => h' e.symm)
        · by_cases h' : s' = unresolvedRef
          · simp [h, h']; try (exact h)
          · simp [h, h']
      | _ => simp [nameTag, tyEq, tyParamL]
  | .semverT o rs, b, ha, hb => by
      rw [tyKey_eq_iff _ _ (by rfl), name_eq_iff]
      cases b with
      | semverT o' rs' =>
        simp only [TyWF, List.all_eq_true] at ha hb
        simp only [nameTag, tyEq, tyParamL, true_and, rangesEq_iff]
        by_cases h : rs = matchAllR
        · by_cases h' : rs' = matchAllR
          · simp [h, h']
          · simp [h, h']; try (exact fun e => h' e.symm)
        · by_cases h' : rs' = matchAllR
          · simp [h, h']; try (exact h)
          · simp only [h, h', if_false, List.cons.injEq, and_true, List.append_cancel_left_eq]
            exact ⟨fun e => normStr_inj ha hb e, fun e => by rw [e]⟩
      | _ => simp [nameTag, tyEq, tyParamL]
  | .hash k v lo hi, b, ha, hb => by
      rw [tyKey_eq_iff _ _ (by rfl), name_eq_iff]
      cases b with
      | hash k' v' lo' hi' =>
        simp only [TyWF, Bool.and_eq_true, decide_eq_true_eq] at ha hb
        simp only [nameTag, true_and, tyEq, Bool.and_eq_true, beq_iff_eq]
        exact hashParam_iff ha.2.1 ha.2.2 hb.2.1 hb.2.2 (tyKey_iff k k' ha.1.1 hb.1.1) (tyKey_iff v v' ha.1.2 hb.1.2)
      | _ => simp [nameTag, tyEq]
  | .like t n, b, ha, hb => by
      rw [tyKey_eq_iff _ _ (by rfl), name_eq_iff]
      cases b with
      | like t' n' =>
        simp only [TyWF] at ha hb
        simp only [nameTag, true_and, tyEq, Bool.and_eq_true, beq_iff_eq]
        exact likeParam_iff (tyKey_iff t t' ha hb)
      | _ => simp [nameTag, tyEq]
  | .callable h ts hr r hb bl, b, ha, hb' => by
      rw [tyKey_eq_iff _ _ (by rfl), name_eq_iff]
      cases b with
      | callable h' us hr' r' hb2 bl' =>
        simp only [TyWF, Bool.and_eq_true, Bool.or_eq_true, Bool.not_eq_true', decide_eq_true_eq] at ha hb'
        simp only [nameTag, tyParamL, tyEq, true_and, List.cons.injEq, and_true, Bool.and_eq_true, beq_iff_eq, Bool.or_eq_true,
          Bool.not_eq_true']
        have t1 : ∀ xs : List Ty, undefKey ≠ tupKeyOf xs := fun xs => by rw [tupKeyOf_eq]; exact undefKey_ne_tyKey _
        rw [optPart_iff (P := ts.length = us.length ∧ tyEqL ts us = true) (t1 ts) (t1 us)
              (fun hx hy => by
                have a1 := ha.1.resolve_left (by simp [hx])
                have b1 := hb'.1.resolve_left (by simp [hy])
                exact tupKeyOf_iff a1.2 b1.2 (tyKey_iff_L ts us a1.1 b1.1)),
            optPart_iff (P := tyEq r r' = true) (undefKey_ne_tyKey r) (undefKey_ne_tyKey r')
              (fun hx hy => tyKey_iff r r' (ha.2.1.resolve_left (by simp [hx])) (hb'.2.1.resolve_left (by simp [hy]))),
            optPart_iff (P := tyEq bl bl' = true) (undefKey_ne_tyKey bl) (undefKey_ne_tyKey bl')
              (fun hx hy => tyKey_iff bl bl' (ha.2.2.resolve_left (by simp [hx])) (hb'.2.2.resolve_left (by simp [hy])))]
      | _ => simp [nameTag, tyEq]
  | .runtime rt n p, b, _, _ => by
      rw [tyKey_eq_iff _ _ (by rfl), name_eq_iff]
      cases b with
      | runtime rt' n' p' =>
        simp only [nameTag, true_and, tyEq, Bool.and_eq_true, beq_iff_eq]
        exact runtimeParam_iff
      | _ => simp [nameTag, tyEq]
  | .struct es, b, ha, hb => by
      cases b with
      | struct fs =>
        simp only [TyWF, Bool.and_eq_true, decide_eq_true_eq] at ha hb
        rw [tyKey_struct, tyKey_struct]
        simp only [Ty.name, List.append_cancel_left_eq, tyEq, Bool.and_eq_true, beq_iff_eq]
        cases es with
        | nil =>
          cases fs with
          | nil => simp [structTail, tyEqS]
          | cons f fs => simp [structTail]
        | cons e es =>
          cases fs with
          | nil => simp [structTail]
          | cons f fs =>
            simp only [structTail, List.isEmpty_cons, Bool.false_eq_true, if_false, List.cons.injEq, true_and, ekInt]
            constructor
            · intro h
              have h1 := frame_decode h
              have hl : (e :: es).length = (f :: fs).length := by
                have := (intKey_inj (lenOk ha.2) (lenOk hb.2)).mp h1.1
                exact_mod_cast this
              exact ⟨hl, (tyKey_iff_S (e :: es) (f :: fs) ha.1 hb.1 hl).mp h1.2⟩
            · rintro ⟨hl, h⟩
              rw [hl, (tyKey_iff_S (e :: es) (f :: fs) ha.1 hb.1 hl).mpr h]
      | _ => rw [eq_comm, tyKey_eq_iff _ _ (by rfl), name_eq_iff]; simp [nameTag, tyEq]
  | .init h t, b, ha, hb => by
      rw [tyKey_eq_iff _ _ (by rfl), name_eq_iff]
      cases b with
      | init h' u =>
        cases h <;> cases h' <;> simp [nameTag, tyEq, tyParamL]
        simp only [TyWF, Bool.not_true, Bool.false_or] at ha hb
        exact tyKey_iff t u ha hb
      | _ => simp [nameTag, tyEq]
theorem tyKey_iff_S : ∀ es fs : List (Bytes × Bool × Ty), TyWFS es = true → TyWFS fs = true → es.length = fs.length →
    (tyKeyS es = tyKeyS fs ↔ tyEqS es fs = true)
  | [], [], _, _, _ => by simp [tyKeyS, tyEqS]
  | [], _ :: _, _, _, h => by simp at h
  | _ :: _, [], _, _, h => by simp at h
  | (n, o, v) :: es, (n', o', v') :: fs, ha, hb, hl => by
      simp only [TyWFS, Bool.and_eq_true] at ha hb
      exact tyKeyS_step (tyKey_iff v v' ha.1 hb.1) (tyKey_iff_S es fs ha.2 hb.2 (by simpa using hl))
theorem tyKey_iff_L : ∀ ts us : List Ty, TyWFL ts = true → TyWFL us = true →
    (ts.map tyKey = us.map tyKey ↔ ts.length = us.length ∧ tyEqL ts us = true)
  | [], [], _, _ => by simp [tyEqL]
  | [], _ :: _, _, _ => by simp
  | _ :: _, [], _, _ => by simp
  | t :: ts, u :: us, ha, hb => by
      simp only [TyWFL, Bool.and_eq_true] at ha hb
      simp only [List.map_cons, List.cons.injEq, List.length_cons, tyEqL, Bool.and_eq_true,
        tyKey_iff t u ha.1 hb.1, tyKey_iff_L ts us ha.2 hb.2]
      constructor
      · rintro ⟨h1, h2, h3⟩; exact ⟨by omega, h1, h3⟩
      · rintro ⟨h1, h2, h3⟩; exact ⟨h2, by omega, h3⟩
theorem tyKey_iff_all : ∀ ts : List Ty, TyWFL ts = true → ∀ v ∈ ts, ∀ u, TyWF u = true → (tyKey v = tyKey u ↔ tyEq v u = true)
  | [], _, _, h => by simp at h
  | t :: ts, ha, v, hv => by
      simp only [TyWFL, Bool.and_eq_true] at ha
      rcases List.mem_cons.mp hv with e | hv
      · rw [e]; exact fun u hu => tyKey_iff t u ha.1 hu
      · exact tyKey_iff_all ts ha.2 v hv
end

/-- equal keys ⇒ equal types: a Hash / `Unique` never confuses two different types -/
theorem tyEq_of_tyKey (a b : Ty) (ha : TyWF a = true) (hb : TyWF b = true) (h : tyKey a = tyKey b) : tyEq a b = true :=
  (tyKey_iff a b ha hb).mp h

/-- equal types ⇒ equal keys: a Hash finds a type under every spelling of it, `Unique` keeps one -/
theorem tyKey_of_tyEq (a b : Ty) (ha : TyWF a = true) (hb : TyWF b = true) (h : tyEq a b = true) : tyKey a = tyKey b :=
  (tyKey_iff a b ha hb).mpr h

end Pcore.ValueEq
