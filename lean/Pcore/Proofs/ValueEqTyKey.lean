import Pcore.Proofs.ValueEqTy
/-! Helper lemmas for C07: the key of a type determines the type up to *ordered* equality (`tyEqO`: like `Equals`, but
    the members of a Variant and the values of an Enum are compared position by position). -/
namespace Pcore.ValueEq

mutual
/-- order-sensitive type equality: what the key of a type can see -/
def tyEqO : Ty → Ty → Bool
  | .any, b => match b with | .any => true | _ => false
  | .undef, b => match b with | .undef => true | _ => false
  | .str, b => match b with | .str => true | _ => false
  | .int lo hi, b => match b with | .int lo' hi' => lo == lo' && hi == hi' | _ => false
  | .flt lo hi, b => match b with | .flt lo' hi' => feq lo lo' && feq hi hi' | _ => false
  | .enum ci vs, b => match b with | .enum ci' vs' => ci == ci' && vs == vs' | _ => false
  | .arr e lo hi, b => match b with | .arr e' lo' hi' => (lo == lo' && hi == hi') && tyEqO e e' | _ => false
  | .var ts, b => match b with | .var us => ts.length == us.length && tyEqOL ts us | _ => false
  | .tup ts sz, b =>
      match b with
      | .tup us sz' => ts.length == us.length && goaSize ts.length sz == goaSize us.length sz' && tyEqOL ts us
      | _ => false
  | .opt t, b => match b with | .opt u => tyEqO t u | _ => false
  | .typ t, b => match b with | .typ u => tyEqO t u | _ => false
def tyEqOL : List Ty → List Ty → Bool
  | [], _ => true
  | t :: ts, us => match us with | u :: us' => tyEqO t u && tyEqOL ts us' | [] => false
end

/-! ### the parameters of a type as a list of keys -/

def intParamL (lo hi : Int) : List Bytes :=
  if lo = minInt then (if hi = maxInt then [] else [defaultKey, intKey hi])
  else if hi = maxInt then [intKey lo] else [intKey lo, intKey hi]

def fltParamL (lo hi : Nat) : List Bytes :=
  if feq lo negMaxFloatBits then (if feq hi maxFloatBits then [] else [defaultKey, floatKey hi])
  else if feq hi maxFloatBits then [floatKey lo] else [floatKey lo, floatKey hi]

def sizeParamL (lo hi : Int) : List Bytes := [intKey lo, if hi = maxInt then defaultKey else intKey hi]

def tyParamL : Ty → List Bytes
  | .any => [] | .undef => [] | .str => []
  | .int lo hi => intParamL lo hi
  | .flt lo hi => fltParamL lo hi
  | .enum ci vs => vs.map (strMark ++ ·) ++ (if ci then [boolKey true] else [])
  | .arr e lo hi => (if e.isAny ∧ ¬ (lo = 0 ∧ hi = 0) then [] else [tyKey e]) ++
      (if lo = 0 ∧ hi = maxInt then [] else sizeParamL lo hi)
  | .var ts => ts.map tyKey
  | .tup ts sz => ts.map tyKey ++ sizeParamL (goaSize ts.length sz).1 (goaSize ts.length sz).2
  | .opt t => if t.isAny then [] else [tyKey t]
  | .typ t => if t.isAny then [] else [tyKey t]

theorem flat_append (a b : List Bytes) : flat (a ++ b) = flat a ++ flat b := by
  induction a with
  | nil => rfl
  | cons x xs ih => simp [flat, ih]

theorem tyKeys_eq : ∀ ts : List Ty, tyKeys ts = flat ((ts.map tyKey).map frame)
  | [] => rfl
  | t :: ts => by simp [tyKeys, flat, tyKeys_eq ts]

theorem enumParams_eq : ∀ vs : List Bytes, enumParams vs = flat ((vs.map (strMark ++ ·)).map frame)
  | [] => rfl
  | v :: vs => by simp [enumParams, flat, ekStr, enumParams_eq vs]

theorem tyKey_shape (t : Ty) : tyKey t = [1, 0x74] ++ (frame (strMark ++ t.name) ++ flat ((tyParamL t).map frame)) := by
  cases t with
  | any => simp [tyKey, tyParamL, ekStr, flat]
  | undef => simp [tyKey, tyParamL, ekStr, flat]
  | str => simp [tyKey, tyParamL, ekStr, flat]
  | int lo hi =>
    simp only [tyKey, tyParamL, intParams, intParamL, ekStr, ekDefault, ekInt]
    split <;> split <;> simp [flat]
  | flt lo hi =>
    simp only [tyKey, tyParamL, fltParams, fltParamL, ekStr, ekDefault, ekFloat]
    split <;> split <;> simp [flat]
  | enum ci vs =>
    simp only [tyKey, tyParamL, ekStr, enumParams_eq, List.map_append, flat_append, ekBool]
    cases ci <;> simp [flat]
  | arr e lo hi =>
    simp only [tyKey, tyParamL, Ty.name, ekStr, List.map_append, flat_append, sizeParams, sizeParamL, ekInt, ekDefault]
    split <;> split <;> (try split) <;> simp [flat]
  | var ts => simp [tyKey, tyParamL, Ty.name, ekStr, tyKeys_eq]
  | tup ts sz =>
    simp only [tyKey, tyParamL, Ty.name, ekStr, List.map_append, flat_append, tyKeys_eq, sizeParams, sizeParamL,
      ekInt, ekDefault]
    split <;> simp [flat]
  | opt t =>
    simp only [tyKey, tyParamL, Ty.name, ekStr]
    split <;> simp [flat]
  | typ t =>
    simp only [tyKey, tyParamL, Ty.name, ekStr]
    split <;> simp [flat]

/-- the key of a type is its name and its parameter keys -/
theorem tyKey_eq_iff (a b : Ty) : tyKey a = tyKey b ↔ a.name = b.name ∧ tyParamL a = tyParamL b := by
  rw [tyKey_shape a, tyKey_shape b]
  constructor
  · intro h
    have h1 := frame_decode (List.append_cancel_left h)
    exact ⟨List.append_cancel_left h1.1, flat_frames_inj _ _ h1.2⟩
  · rintro ⟨h1, h2⟩; rw [h1, h2]

/-! ### parameter lists are injective -/

def IntOk (i : Int) : Prop := minInt ≤ i ∧ i ≤ maxInt
def FltOk (b : Nat) : Prop := b < 18446744073709551616 ∧ fIsNaN b = false

theorem intKey_inj {i j : Int} (hi : IntOk i) (hj : IntOk j) : intKey i = intKey j ↔ i = j := by
  constructor
  · intro h
    simp only [intKey, List.append_cancel_left_eq] at h
    exact u64OfInt_inj hi hj (be64_inj (u64OfInt_lt i) (u64OfInt_lt j) h)
  · intro h; rw [h]

theorem feq_iff_fnorm {a b : Nat} (ha : FltOk a) (hb : FltOk b) : feq a b = true ↔ fnorm a = fnorm b := by
  simp only [feq, fnorm, fIsZero, ha.2, hb.2, Bool.not_false, Bool.true_and, Bool.or_eq_true, beq_iff_eq,
    Bool.and_eq_true]
  split <;> split <;> omega

theorem fnorm_lt {a : Nat} (ha : FltOk a) : fnorm a < 18446744073709551616 := by
  have := ha.1
  simp only [fnorm]; split <;> omega

theorem floatKey_inj {a b : Nat} (ha : FltOk a) (hb : FltOk b) : floatKey a = floatKey b ↔ feq a b = true := by
  rw [feq_iff_fnorm ha hb]
  constructor
  · intro h
    simp only [floatKey, List.append_cancel_left_eq] at h
    exact be64_inj (fnorm_lt ha) (fnorm_lt hb) h
  · intro h; simp [floatKey, h]

theorem default_ne_intKey (i : Int) : defaultKey ≠ intKey i := by simp [defaultKey, intKey]
theorem default_ne_floatKey (b : Nat) : defaultKey ≠ floatKey b := by simp [defaultKey, floatKey]

theorem intParamL_inj {lo hi lo' hi' : Int} (h1 : IntOk lo) (h2 : IntOk hi) (h3 : IntOk lo') (h4 : IntOk hi') :
    intParamL lo hi = intParamL lo' hi' ↔ lo = lo' ∧ hi = hi' := by
  unfold intParamL
  split <;> split <;> split <;> split <;>
    simp_all [intKey_inj, default_ne_intKey, (default_ne_intKey _).symm] <;> (try omega) <;>
    (intros; simp_all [IntOk, minInt, maxInt]; try omega)

theorem fltOk_negMax : FltOk negMaxFloatBits := ⟨by decide, by decide⟩
theorem fltOk_max : FltOk maxFloatBits := ⟨by decide, by decide⟩

theorem fltParamL_inj {lo hi lo' hi' : Nat} (h1 : FltOk lo) (h2 : FltOk hi) (h3 : FltOk lo') (h4 : FltOk hi') :
    fltParamL lo hi = fltParamL lo' hi' ↔ feq lo lo' = true ∧ feq hi hi' = true := by
  unfold fltParamL
  rw [feq_iff_fnorm h1 h3, feq_iff_fnorm h2 h4]
  simp only [feq_iff_fnorm h1 fltOk_negMax, feq_iff_fnorm h2 fltOk_max, feq_iff_fnorm h3 fltOk_negMax,
    feq_iff_fnorm h4 fltOk_max]
  split <;> split <;> split <;> split <;>
    simp_all [floatKey_inj, feq_iff_fnorm, default_ne_floatKey, (default_ne_floatKey _).symm] <;>
    (intros; first | (intro h; simp_all) | simp_all)

theorem sizeParamL_inj {lo hi lo' hi' : Int} (h1 : IntOk lo) (h2 : IntOk hi) (h3 : IntOk lo') (h4 : IntOk hi') :
    sizeParamL lo hi = sizeParamL lo' hi' ↔ lo = lo' ∧ hi = hi' := by
  unfold sizeParamL
  split <;> split <;>
    simp_all [intKey_inj, default_ne_intKey, (default_ne_intKey _).symm] <;>
    (intros; first | (intro h; simp_all) | simp_all)

/-! ### separating the type parameters from the trailing size / flag parameters -/

theorem append_sep {P : Bytes → Prop} : ∀ {A B S S' : List Bytes}, (∀ a ∈ A, P a) → (∀ b ∈ B, P b) →
    (∀ s ∈ S, ¬ P s) → (∀ s ∈ S', ¬ P s) → (A ++ S = B ++ S' ↔ A = B ∧ S = S')
  | [], [], _, _, _, _, _, _ => by simp
  | [], b :: B, S, S', _, hB, hS, _ => by
      simp only [List.nil_append, List.cons_append, List.nil_eq, reduceCtorEq, false_and, iff_false]
      intro h
      exact hS b (h ▸ List.mem_cons_self) (hB b List.mem_cons_self)
  | a :: A, [], S, S', hA, _, _, hS' => by
      simp only [List.nil_append, List.cons_append, reduceCtorEq, false_and, iff_false]
      intro h
      exact hS' a (h ▸ List.mem_cons_self) (hA a List.mem_cons_self)
  | a :: A, b :: B, S, S', hA, hB, hS, hS' => by
      simp only [List.cons_append, List.cons.injEq,
        append_sep (fun x hx => hA x (List.mem_cons_of_mem _ hx)) (fun x hx => hB x (List.mem_cons_of_mem _ hx)) hS hS',
        and_assoc]

def IsTyKey (a : Bytes) : Prop := ∃ r, a = 1 :: 0x74 :: r
def IsStrKey (a : Bytes) : Prop := ∃ r, a = 1 :: 0x73 :: r

theorem tyKey_hd (t : Ty) : IsTyKey (tyKey t) := by
  cases t <;> simp [tyKey, IsTyKey]

theorem not_isTyKey_size {lo hi : Int} : ∀ s ∈ sizeParamL lo hi, ¬ IsTyKey s := by
  intro s hs
  simp only [sizeParamL, List.mem_cons, List.not_mem_nil, or_false] at hs
  rcases hs with rfl | rfl
  · simp [IsTyKey, intKey]
  · split <;> simp [IsTyKey, intKey, defaultKey]

theorem map_tyKey_isTyKey (ts : List Ty) : ∀ a ∈ ts.map tyKey, IsTyKey a := by
  intro a ha
  obtain ⟨t, _, rfl⟩ := List.mem_map.mp ha
  exact tyKey_hd t

theorem isAny_eq {t : Ty} (h : t.isAny = true) : t = .any := by
  cases t <;> simp [Ty.isAny] at h; rfl

theorem tyEqO_any_left (t : Ty) : tyEqO .any t = t.isAny := by cases t <;> simp [tyEqO, Ty.isAny]
theorem tyEqO_any_right (t : Ty) : tyEqO t .any = t.isAny := by cases t <;> simp [tyEqO, Ty.isAny]

/-- the optional leading type parameter of Array / Optional / Type -/
theorem optParam_iff {e e' : Ty} (ih : tyKey e = tyKey e' ↔ tyEqO e e' = true) :
    (if e.isAny then [] else [tyKey e]) = (if e'.isAny then [] else [tyKey e']) ↔ tyEqO e e' = true := by
  cases h : e.isAny <;> cases h' : e'.isAny
  · simp [ih]
  · rw [isAny_eq h', tyEqO_any_right, h]; simp
  · rw [isAny_eq h, tyEqO_any_left, h']; simp
  · rw [isAny_eq h, isAny_eq h']; simp [tyEqO]

theorem map_strMark_inj : ∀ {vs vs' : List Bytes}, vs.map (strMark ++ ·) = vs'.map (strMark ++ ·) ↔ vs = vs'
  | [], [] => by simp
  | [], _ :: _ => by simp
  | _ :: _, [] => by simp
  | v :: vs, v' :: vs' => by simp [map_strMark_inj (vs := vs) (vs' := vs')]

mutual
theorem tyKey_iff_O : ∀ a b : Ty, TyWF a = true → TyWF b = true → (tyKey a = tyKey b ↔ tyEqO a b = true)
  | .any, b, _, _ => by rw [tyKey_eq_iff]; cases b <;> simp [Ty.name, tyEqO, tyParamL]
  | .undef, b, _, _ => by rw [tyKey_eq_iff]; cases b <;> simp [Ty.name, tyEqO, tyParamL]
  | .str, b, _, _ => by rw [tyKey_eq_iff]; cases b <;> simp [Ty.name, tyEqO, tyParamL]
  | .int lo hi, b, ha, hb => by
      rw [tyKey_eq_iff]
      cases b <;> simp [Ty.name, tyEqO, tyParamL]
      simp only [TyWF, Bool.and_eq_true, decide_eq_true_eq] at ha hb
      exact intParamL_inj ha.1 ha.2 hb.1 hb.2
  | .flt lo hi, b, ha, hb => by
      rw [tyKey_eq_iff]
      cases b <;> simp [Ty.name, tyEqO, tyParamL]
      simp only [TyWF, Bool.and_eq_true, decide_eq_true_eq, Bool.not_eq_true'] at ha hb
      exact fltParamL_inj ha.1 ha.2 hb.1 hb.2
  | .enum ci vs, b, _, _ => by
      rw [tyKey_eq_iff]
      cases b <;> simp [Ty.name, tyEqO, tyParamL]
      rename_i ci' vs'
      rw [append_sep (P := IsStrKey)]
      · rw [map_strMark_inj]
        cases ci <;> cases ci' <;> simp [boolKey, and_comm]
      · intro a ha; obtain ⟨v, _, rfl⟩ := List.mem_map.mp ha; exact ⟨v, by simp [strMark]⟩
      · intro a ha; obtain ⟨v, _, rfl⟩ := List.mem_map.mp ha; exact ⟨v, by simp [strMark]⟩
      · intro s hs; split at hs <;> simp at hs; subst hs; simp [IsStrKey, boolKey]
      · intro s hs; split at hs <;> simp at hs; subst hs; simp [IsStrKey, boolKey]
  | .arr e lo hi, b, ha, hb => by
      rw [tyKey_eq_iff]
      cases b <;> simp [Ty.name, tyEqO, tyParamL]
      rename_i e' lo' hi'
      simp only [TyWF, Bool.and_eq_true, decide_eq_true_eq] at ha hb
      rw [append_sep (P := IsTyKey)]
      · have hsz : ((if lo = 0 ∧ hi = maxInt then [] else sizeParamL lo hi) =
            (if lo' = 0 ∧ hi' = maxInt then [] else sizeParamL lo' hi')) ↔ lo = lo' ∧ hi = hi' := by
          split <;> split
          · simp_all
          · simp_all [sizeParamL] <;> omega
          · simp_all [sizeParamL] <;> omega
          · exact sizeParamL_inj ha.2.1 ha.2.2 hb.2.1 hb.2.2
        rw [hsz]
        constructor
        · rintro ⟨h1, h2, h3⟩
          subst h2; subst h3
          refine ⟨⟨rfl, rfl⟩, ?_⟩
          by_cases c : lo = 0 ∧ hi = 0
          · simpa [c, tyKey_iff_O e e' ha.1 hb.1] using h1
          · have q : (lo = 0 → ¬hi = 0) := fun a b => c ⟨a, b⟩
            simp only [eq_true q, and_true] at h1
            exact (optParam_iff (tyKey_iff_O e e' ha.1 hb.1)).mp h1
        · rintro ⟨⟨h2, h3⟩, h1⟩
          subst h2; subst h3
          refine ⟨?_, rfl, rfl⟩
          by_cases c : lo = 0 ∧ hi = 0
          · simpa [c, tyKey_iff_O e e' ha.1 hb.1] using h1
          · have q : (lo = 0 → ¬hi = 0) := fun a b => c ⟨a, b⟩
            simp only [eq_true q, and_true]
            exact (optParam_iff (tyKey_iff_O e e' ha.1 hb.1)).mpr h1
      · intro a ha'; split at ha' <;> simp at ha'; subst ha'; exact tyKey_hd e
      · intro a ha'; split at ha' <;> simp at ha'; subst ha'; exact tyKey_hd e'
      · intro s hs; split at hs
        · simp at hs
        · exact not_isTyKey_size s hs
      · intro s hs; split at hs
        · simp at hs
        · exact not_isTyKey_size s hs
  | .var ts, b, ha, hb => by
      rw [tyKey_eq_iff]
      cases b <;> simp [Ty.name, tyEqO, tyParamL]
      rename_i us
      simp only [TyWF] at ha hb
      exact tyKey_iff_OL ts us ha hb
  | .tup ts sz, b, ha, hb => by
      rw [tyKey_eq_iff]
      cases b <;> simp [Ty.name, tyEqO, tyParamL]
      rename_i us sz'
      simp only [TyWF, Bool.and_eq_true, decide_eq_true_eq] at ha hb
      rw [append_sep (P := IsTyKey) (map_tyKey_isTyKey ts) (map_tyKey_isTyKey us) not_isTyKey_size not_isTyKey_size,
        tyKey_iff_OL ts us ha.1.1 hb.1.1]
      have ok : ∀ (n : Nat) (sz : Option (Int × Int)), (n : Int) ≤ maxInt →
          (match sz with
            | some (lo, hi) => ((decide (minInt ≤ lo) && decide (lo ≤ maxInt)) && (decide (minInt ≤ hi) && decide (hi ≤ maxInt)))
            | none => true) = true → IntOk (goaSize n sz).1 ∧ IntOk (goaSize n sz).2 := by
        intro n sz hn h
        cases sz with
        | none => simp only [goaSize, IntOk, minInt, maxInt] at *; omega
        | some p =>
          obtain ⟨lo, hi⟩ := p
          simpa [goaSize, IntOk, and_assoc] using h
      have o1 := ok ts.length sz ha.2 ha.1.2
      have o2 := ok us.length sz' hb.2 hb.1.2
      rw [sizeParamL_inj o1.1 o1.2 o2.1 o2.2]
      constructor
      · rintro ⟨⟨h1, h2⟩, h3, h4⟩
        exact ⟨⟨h1, Prod.ext h3 h4⟩, h2⟩
      · rintro ⟨⟨h1, h2⟩, h3⟩
        exact ⟨⟨h1, h3⟩, by rw [h2], by rw [h2]⟩
  | .opt t, b, ha, hb => by
      rw [tyKey_eq_iff]
      cases b <;> simp [Ty.name, tyEqO, tyParamL]
      rename_i u
      simp only [TyWF] at ha hb
      exact optParam_iff (tyKey_iff_O t u ha hb)
  | .typ t, b, ha, hb => by
      rw [tyKey_eq_iff]
      cases b <;> simp [Ty.name, tyEqO, tyParamL]
      rename_i u
      simp only [TyWF] at ha hb
      exact optParam_iff (tyKey_iff_O t u ha hb)
theorem tyKey_iff_OL : ∀ ts us : List Ty, TyWFL ts = true → TyWFL us = true →
    (ts.map tyKey = us.map tyKey ↔ ts.length = us.length ∧ tyEqOL ts us = true)
  | [], [], _, _ => by simp [tyEqOL]
  | [], _ :: _, _, _ => by simp
  | _ :: _, [], _, _ => by simp
  | t :: ts, u :: us, ha, hb => by
      simp only [TyWFL, Bool.and_eq_true] at ha hb
      simp only [List.map_cons, List.cons.injEq, List.length_cons, tyEqOL, Bool.and_eq_true,
        tyKey_iff_O t u ha.1 hb.1, tyKey_iff_OL ts us ha.2 hb.2]
      constructor
      · rintro ⟨h1, h2, h3⟩; exact ⟨by omega, h1, h3⟩
      · rintro ⟨h1, h2, h3⟩; exact ⟨h2, by omega, h3⟩
end

/-! ### ordered equality implies `Equals` -/

theorem incl_of_pointwise : ∀ {ts us : List Ty}, (∀ t ∈ ts, ∀ u, tyEqO t u = true → tyEq t u = true) →
    ts.length = us.length → tyEqOL ts us = true →
    (∀ v ∈ ts, ∃ u ∈ us, tyEq v u = true) ∧ (∀ u ∈ us, ∃ v ∈ ts, tyEq v u = true)
  | [], [], _, _, _ => by simp
  | [], _ :: _, _, h, _ => by simp at h
  | _ :: _, [], _, h, _ => by simp at h
  | t :: ts, u :: us, ih, hl, h => by
      simp only [tyEqOL, Bool.and_eq_true] at h
      have r := incl_of_pointwise (fun t' ht => ih t' (List.mem_cons_of_mem _ ht)) (by simpa using hl) h.2
      have h0 := ih t List.mem_cons_self u h.1
      constructor
      · intro v hv
        rcases List.mem_cons.mp hv with e | hv
        · exact ⟨u, List.mem_cons_self, e ▸ h0⟩
        · obtain ⟨u', hu', h'⟩ := r.1 v hv
          exact ⟨u', List.mem_cons_of_mem _ hu', h'⟩
      · intro u' hu'
        rcases List.mem_cons.mp hu' with e | hu'
        · exact ⟨t, List.mem_cons_self, e ▸ h0⟩
        · obtain ⟨v, hv, h'⟩ := r.2 u' hu'
          exact ⟨v, List.mem_cons_of_mem _ hv, h'⟩

mutual
theorem tyEq_of_O : ∀ a b : Ty, tyEqO a b = true → tyEq a b = true
  | .any, b => by cases b <;> simp [tyEqO, tyEq]
  | .undef, b => by cases b <;> simp [tyEqO, tyEq]
  | .str, b => by cases b <;> simp [tyEqO, tyEq]
  | .int _ _, b => by cases b <;> simp [tyEqO, tyEq]
  | .flt _ _, b => by cases b <;> simp [tyEqO, tyEq]
  | .enum _ _, b => by
      cases b <;> simp [tyEqO, tyEq]
      intro h1 h2; subst h1; subst h2; simp [containsAll_refl]
  | .arr e _ _, b => by
      cases b <;> simp [tyEqO, tyEq]
      intro h1 h2 h3; exact ⟨⟨h1, h2⟩, tyEq_of_O e _ h3⟩
  | .var ts, b => by
      cases b with
      | var us =>
        rw [tyEq_var]
        simp only [tyEqO, Bool.and_eq_true, beq_iff_eq]
        rintro ⟨hl, h⟩
        exact ⟨hl, incl_of_pointwise (tyEq_of_O_all ts) hl h⟩
      | _ => simp [tyEqO]
  | .tup ts _, b => by
      cases b <;> simp [tyEqO, tyEq]
      intro h1 h2 h3; exact ⟨⟨h1, h2⟩, tyEqL_of_O ts _ h3⟩
  | .opt t, b => by cases b <;> simp [tyEqO, tyEq]; exact tyEq_of_O t _
  | .typ t, b => by cases b <;> simp [tyEqO, tyEq]; exact tyEq_of_O t _
theorem tyEq_of_O_all : ∀ ts : List Ty, ∀ t ∈ ts, ∀ u, tyEqO t u = true → tyEq t u = true
  | [], _, h => by simp at h
  | t' :: ts, t, ht => by
      rcases List.mem_cons.mp ht with e | ht
      · rw [e]; exact tyEq_of_O t'
      · exact tyEq_of_O_all ts t ht
theorem tyEqL_of_O : ∀ ts us : List Ty, tyEqOL ts us = true → tyEqL ts us = true
  | [], _ => by simp [tyEqL]
  | t :: ts, us => by
      cases us <;> simp [tyEqOL, tyEqL]
      intro h1 h2; exact ⟨tyEq_of_O t _ h1, tyEqL_of_O ts _ h2⟩
end

/-- equal keys ⇒ equal types: a Hash / `Unique` never confuses two different types -/
theorem tyEq_of_tyKey (a b : Ty) (ha : TyWF a = true) (hb : TyWF b = true) (h : tyKey a = tyKey b) : tyEq a b = true :=
  tyEq_of_O a b ((tyKey_iff_O a b ha hb).mp h)

end Pcore.ValueEq
