import Pcore.Proofs.FilesTypeset
/-!
C15, type sets through a module's loader in the DEFAULT topology (the module loader is a child of the global loader and
is the context's loader): every lookup asks the parent first, so each member costs a complete miss of the global loader
(a placeholder there), a complete miss of the module loader (a placeholder there) and the definition over the latter.
Exact result and exact state for any number of members, for the index route (`Mod::…::Set`) and for the module's own
name (`init_typeset.pp`).
-/
namespace Pcore.Files

theorem quietAnc_put_other {cfg : Cfg} {l l' : Lid} {s : St} {name : Name} (h : QuietAnc cfg l s name) (hne : l' ≠ l)
    (k : Key) (e : Entry) : QuietAnc cfg l (s.put l' k e) name := by
  have hget : ∀ k', (s.put l' k e).get l k' = s.get l k' := by
    intro k'
    rw [get_put, if_neg]
    intro hk; injection hk with h1 _; exact hne h1.symm
  refine ⟨?_, h.valid, ?_, ?_⟩
  · rw [hget]; exact h.fresh
  · rw [hget]; exact h.init
  · intro nm hnm hp hneq
    rw [hget]; exact h.ancestors nm hnm hp hneq

/-- `LoadEntry` of a module loader below the global loader when both miss completely: two placeholders -/
theorem fbLoadEntry_child_miss (cfg : Cfg) (mod : String) (hflat : cfg.flat = false) (s : St) (name : Name)
    (hne : name ≠ []) (hsys : sysLoad name = none)
    (hqg : QuietAnc cfg .g s name) (hig : idx cfg .g (keyOf name) = [])
    (hqm : QuietAnc cfg (.m mod) s name) (him : idx cfg (.m mod) (keyOf name) = [])
    (fuel : Nat) (hf : 3 * name.length ≤ fuel) :
    fbLoadEntry (fuel+2) cfg (.m mod) name s =
      .ok (some none) ((s.put .g (keyOf name) none).put (.m mod) (keyOf name) none) := by
  have hfg := find_miss cfg .g s name hne hqg hig fuel hf
  have hqm' := quietAnc_put_other hqm (l' := .g) (by intro h; cases h) (keyOf name) none
  have hfm := find_miss cfg (.m mod) _ name hne hqm' him (fuel+1) (by omega)
  have hnek : (Lid.m mod, keyOf name) ≠ (Lid.g, keyOf name) := by intro h; cases h
  simp only [fbLoadEntry, bind, pure, getSt, hflat, Bool.false_eq_true, if_false, hsys, hqg.fresh, hfg]
  simp only [setEntry, hqg.fresh, get_put, hqm.fresh, hnek, if_false, hfm, if_true]

/-- the state after the members `ts` have been defined through the module loader `m mod` below the global loader -/
def defineMembers2 (mod : String) (nm : Name) : List String → Nat → St → St
  | [], _, σ => σ
  | t :: rest, i, σ =>
    defineMembers2 mod nm rest (i+1)
      ((σ.put .g (keyOf (nm ++ [t])) none).put (.m mod) (keyOf (nm ++ [t])) (some ⟨kindAt i, nm ++ [t]⟩))

theorem defineMembers2_reads (mod : String) (nm : Name) : ∀ (ts : List String) (i : Nat) (σ : St),
    (defineMembers2 mod nm ts i σ).reads = σ.reads
  | [], _, _ => rfl
  | t :: rest, i, σ => by simp only [defineMembers2]; rw [defineMembers2_reads mod nm rest]; rfl

theorem defineMembers2_get_other (mod : String) (nm : Name) (l' : Lid) (k : Key) :
    ∀ (ts : List String) (i : Nat) (σ : St), (∀ t ∈ ts, k ≠ keyOf (nm ++ [t])) →
      (defineMembers2 mod nm ts i σ).get l' k = σ.get l' k
  | [], _, _, _ => rfl
  | t :: rest, i, σ, h => by
    simp only [defineMembers2]
    have hk := h t List.mem_cons_self
    rw [defineMembers2_get_other mod nm l' k rest (i+1) _ (fun u hu => h u (List.mem_cons_of_mem _ hu)), get_put,
      if_neg (by intro h'; injection h' with _ h2; exact hk h2), get_put,
      if_neg (by intro h'; injection h' with _ h2; exact hk h2)]

theorem defineMembers2_get_member (mod : String) (nm : Name) :
    ∀ (ts : List String) (i : Nat) (σ : St) (j : Nat) (t : String), (ts.map lowerS).Nodup → ts[j]? = some t →
      (defineMembers2 mod nm ts i σ).get (.m mod) (keyOf (nm ++ [t])) = some (some ⟨kindAt (i + j), nm ++ [t]⟩)
  | [], _, _, j, t, _, h => by simp at h
  | u :: rest, i, σ, 0, t, hnd, h => by
    simp only [List.getElem?_cons_zero, Option.some.injEq] at h
    subst h
    simp only [defineMembers2]
    rw [defineMembers2_get_other mod nm _ _ rest (i+1)]
    · rw [get_put, if_pos rfl]; rfl
    · intro v hv hk
      simp only [List.map_cons, List.nodup_cons, List.mem_map, not_exists, not_and] at hnd
      exact memberKey_ne (fun h' => hnd.1 v hv h'.symm) hk
  | u :: rest, i, σ, j+1, t, hnd, h => by
    simp only [List.getElem?_cons_succ] at h
    simp only [defineMembers2]
    simp only [List.map_cons, List.nodup_cons] at hnd
    rw [defineMembers2_get_member mod nm rest (i+1) _ j t hnd.2 h]
    have : i + 1 + j = i + (j + 1) := by omega
    rw [this]

theorem memInv_step {l : Lid} {nm : Name} {s1 σ σ' : St} {t : String} {rest : List String}
    (hi : MemInv l nm s1 σ (t :: rest)) (hnd : ((t :: rest).map lowerS).Nodup)
    (hother : ∀ k, k ≠ keyOf (nm ++ [t]) → σ'.get l k = σ.get l k)
    (hthis : σ'.get l (keyOf (nm ++ [t])) ≠ none) : MemInv l nm s1 σ' rest := by
  have hlen : (nm ++ [t]).length = nm.length + 1 := by simp
  refine ⟨?_, ?_, ?_⟩
  · rw [hother _ (keyOf_ne_of_length (by rw [hlen]; omega))]; exact hi.holder
  · intro k0 h0
    by_cases hk0 : k0 = keyOf (nm ++ [t])
    · rw [hk0]; exact hthis
    · rw [hother k0 hk0]; exact hi.mono k0 h0
  · intro u hu
    have hnd' := List.nodup_cons.mp (by simpa using hnd : (lowerS t :: rest.map lowerS).Nodup)
    have hne_u : keyOf (nm ++ [u]) ≠ keyOf (nm ++ [t]) := by
      refine memberKey_ne ?_
      intro hlu
      exact hnd'.1 (by rw [← hlu]; exact List.mem_map_of_mem hu)
    rw [hother _ hne_u]
    exact hi.fresh u (List.mem_cons_of_mem _ hu)

theorem memHyp_tail {cfg : Cfg} {l : Lid} {nm : Name} {s1 : St} {t : String} {rest : List String}
    (hh : MemHyp cfg l nm s1 (t :: rest)) : MemHyp cfg l nm s1 rest :=
  ⟨hh.nonempty, (List.nodup_cons.mp (by simpa using hh.nodup)).2,
    fun u hu => hh.noStatic u (List.mem_cons_of_mem _ hu), fun u hu => hh.noOrigin u (List.mem_cons_of_mem _ hu),
    hh.valid.imp id (fun h u hu => h u (List.mem_cons_of_mem _ hu)), hh.init, hh.ancestors⟩

/-- `resolveTypeSet` over fresh members, through a module loader below the global loader -/
theorem resolveTS_child (cfg : Cfg) (mod : String) (hv : cfg.via = .m mod) (hflat : cfg.flat = false) (nm : Name)
    (s1 : St) :
    ∀ (ts : List String) (i : Nat) (σ : St) (k : Nat), 3 * (nm.length + 1) + ts.length ≤ k →
      MemHyp cfg .g nm s1 ts → MemHyp cfg (.m mod) nm s1 ts → MemInv .g nm s1 σ ts → MemInv (.m mod) nm s1 σ ts →
      resolveTS (k+4) cfg nm ts i σ = .ok () (defineMembers2 mod nm ts i σ) ∧
      (defineMembers2 mod nm ts i σ).get (.m mod) (keyOf nm) = some none
  | [], i, σ, k, _, _, _, _, him => by
    refine ⟨by simp only [resolveTS, defineMembers2]; rfl, ?_⟩
    simp only [defineMembers2]; exact him.holder
  | t :: rest, i, σ, k, hk, hhg, hhm, hig, him => by
    obtain ⟨k', rfl⟩ : ∃ k', k = k' + 1 := ⟨k - 1, by simp only [List.length_cons] at hk; omega⟩
    simp only [List.length_cons] at hk
    have htn : nm ++ [t] ≠ [] := by simp
    have hlen : (nm ++ [t]).length = nm.length + 1 := by simp
    have hqg := member_quiet hhg hig
    have hqm := member_quiet hhm him
    have hload : loadEntry (k'+1+3) cfg (.m mod) (nm ++ [t]) σ =
        .ok (some none) ((σ.put .g (keyOf (nm ++ [t])) none).put (.m mod) (keyOf (nm ++ [t])) none) := by
      simp only [loadEntry]
      exact fbLoadEntry_child_miss cfg mod hflat σ (nm ++ [t]) htn (hhg.noStatic t List.mem_cons_self) hqg
        (hhg.noOrigin t List.mem_cons_self) hqm (hhm.noOrigin t List.mem_cons_self) (k'+1) (by rw [hlen]; omega)
    -- the state after this member
    let σ' := (σ.put .g (keyOf (nm ++ [t])) none).put (.m mod) (keyOf (nm ++ [t])) (some ⟨kindAt i, nm ++ [t]⟩)
    have hgm : ∀ k0 k1 : Key, (Lid.g, k0) ≠ (Lid.m mod, k1) := by intro _ _ h; cases h
    have hmg : ∀ k0 k1 : Key, (Lid.m mod, k0) ≠ (Lid.g, k1) := by intro _ _ h; cases h
    have hig' : MemInv .g nm s1 σ' rest := by
      refine memInv_step hig hhg.nodup ?_ ?_
      · intro k0 hk0
        show ((σ.put .g _ none).put (.m mod) _ _).get .g k0 = _
        rw [get_put, if_neg (hgm _ _), get_put, if_neg (by intro h; injection h with _ h2; exact hk0 h2)]
      · show ((σ.put .g _ none).put (.m mod) _ _).get .g _ ≠ none
        rw [get_put, if_neg (hgm _ _), get_put, if_pos rfl]; intro h; cases h
    have him' : MemInv (.m mod) nm s1 σ' rest := by
      refine memInv_step him hhm.nodup ?_ ?_
      · intro k0 hk0
        show ((σ.put .g _ none).put (.m mod) _ _).get (.m mod) k0 = _
        rw [get_put, if_neg (by intro h; injection h with _ h2; exact hk0 h2), get_put, if_neg (hmg _ _)]
      · show ((σ.put .g _ none).put (.m mod) _ _).get (.m mod) _ ≠ none
        rw [get_put, if_pos rfl]; intro h; cases h
    have ih := resolveTS_child cfg mod hv hflat nm s1 rest (i+1) σ' k' (by omega) (memHyp_tail hhg) (memHyp_tail hhm)
      hig' him'
    refine ⟨?_, by simp only [defineMembers2]; exact ih.2⟩
    simp only [defineMembers2]
    rw [← ih.1]
    obtain ⟨mods, tree, via, gi, fl⟩ := cfg
    simp only at hv
    subst hv
    simp only [resolveTS, bind, hload]
    simp only [setEntry, get_put, if_true, put_put]
    rfl

/-- the state a type-set load through a module loader below the global loader leaves behind (from the state in which the
    module loader's `instantiate` starts) -/
def typesetState2 (mod : String) (name nm : Name) (ts : List String) (p : Path) (s : St) : St :=
  (defineMembers2 mod nm ts 0 ((s.put (.m mod) (keyOf name) none).addRead p)).put (.m mod) (keyOf name)
    (some ⟨.typeset, nm⟩)

theorem typesetState2_reads (mod : String) (name nm : Name) (ts : List String) (p : Path) (s : St) :
    (typesetState2 mod name nm ts p s).reads = s.reads ++ [p] := by
  unfold typesetState2
  rw [reads_put, defineMembers2_reads]
  rfl

theorem typesetState2_member (mod : String) (name nm : Name) (ts : List String) (p : Path) (s : St)
    (hkey : keyOf nm = keyOf name) (hnd : (ts.map lowerS).Nodup) (j : Nat) (t : String) (ht : ts[j]? = some t) :
    (typesetState2 mod name nm ts p s).get (.m mod) (keyOf (nm ++ [t])) = some (some ⟨kindAt j, nm ++ [t]⟩) ∧
    (typesetState2 mod name nm ts p s).get .g (keyOf (nm ++ [t])) = some none := by
  unfold typesetState2
  have hne' : keyOf (nm ++ [t]) ≠ keyOf name := by
    intro h2
    rw [← hkey] at h2
    exact keyOf_ne_of_length (by simp) h2
  refine ⟨?_, ?_⟩
  · rw [get_put, if_neg (by intro h; injection h with _ h2; exact hne' h2),
      defineMembers2_get_member mod nm ts 0 _ j t hnd ht, Nat.zero_add]
  · rw [get_put, if_neg (by intro h; cases h)]
    exact defineMembers2_get_g mod nm ts 0 _ j t hnd ht
where
  defineMembers2_get_g (mod : String) (nm : Name) : ∀ (ts : List String) (i : Nat) (σ : St) (j : Nat) (t : String),
      (ts.map lowerS).Nodup → ts[j]? = some t → (defineMembers2 mod nm ts i σ).get .g (keyOf (nm ++ [t])) = some none
    | [], _, _, j, t, _, h => by simp at h
    | u :: rest, i, σ, 0, t, hnd, h => by
      simp only [List.getElem?_cons_zero, Option.some.injEq] at h
      subst h
      simp only [defineMembers2]
      rw [defineMembers2_get_other mod nm _ _ rest (i+1)]
      · rw [get_put, if_neg (by intro h; cases h), get_put, if_pos rfl]
      · intro v hv hk
        simp only [List.map_cons, List.nodup_cons, List.mem_map, not_exists, not_and] at hnd
        exact memberKey_ne (fun h' => hnd.1 v hv h'.symm) hk
    | u :: rest, i, σ, j+1, t, hnd, h => by
      simp only [List.getElem?_cons_succ] at h
      simp only [defineMembers2]
      simp only [List.map_cons, List.nodup_cons] at hnd
      exact defineMembers2_get_g mod nm rest (i+1) _ j t hnd.2 h

/-- a name the module loader holds a definition for (the global loader above it a placeholder) is answered from the
    cache -/
theorem child_cached (cfg : Cfg) (mod : String) (hv : cfg.via = .m mod) (hflat : cfg.flat = false) (name : Name) (s : St)
    (d : Def) (n : Nat) (hsys : sysLoad name = none) (hg : s.get .g (keyOf name) = some none)
    (hget : s.get (.m mod) (keyOf name) = some (some d)) :
    loadS (n+3) cfg s name = (.found d, s) := by
  obtain ⟨mods, tree, via, gi, fl⟩ := cfg
  simp only at hv hflat
  subst hv
  subst hflat
  unfold loadS load
  simp only [loadEntry, fbLoadEntry, bind, pure, getSt, Bool.false_eq_true, if_false, hsys, hg, hget]

/-- `instantiate` of a type-set file by a module loader below the global loader (the global loader holds the placeholder
    of the requested name: it has been asked first) -/
theorem instantiate_typeset_child (cfg : Cfg) (mod : String) (hv : cfg.via = .m mod) (hflat : cfg.flat = false)
    (name nm : Name) (ts : List String) (p : Path) (ps : List Path) (s : St) (k : Nat)
    (hk : 3 * (nm.length + 1) + ts.length ≤ k)
    (hb : bodyAt cfg.tree p = some (.typ .typeset nm ts)) (hkey : keyOf nm = keyOf name)
    (hget : s.get (.m mod) (keyOf name) = none) (hgetg : s.get .g (keyOf name) = some none)
    (hhg : MemHyp cfg .g nm ((s.put (.m mod) (keyOf name) none).addRead p) ts)
    (hhm : MemHyp cfg (.m mod) nm ((s.put (.m mod) (keyOf name) none).addRead p) ts)
    (hfreshg : ∀ t ∈ ts, s.get .g (keyOf (nm ++ [t])) = none)
    (hfreshm : ∀ t ∈ ts, s.get (.m mod) (keyOf (nm ++ [t])) = none) :
    instantiate (k+7) cfg (.m mod) name (p :: ps) s =
      .ok (some (some ⟨.typeset, nm⟩)) (typesetState2 mod name nm ts p s) := by
  have hgm : ∀ k0 k1 : Key, (Lid.g, k0) ≠ (Lid.m mod, k1) := by intro _ _ h; cases h
  have hne' : ∀ t, keyOf (nm ++ [t]) ≠ keyOf name := by
    intro t h2
    rw [← hkey] at h2
    exact keyOf_ne_of_length (by simp) h2
  have hig : MemInv .g nm ((s.put (.m mod) (keyOf name) none).addRead p) ((s.put (.m mod) (keyOf name) none).addRead p) ts := by
    refine ⟨?_, fun _ h => h, ?_⟩
    · rw [hkey, get_addRead, get_put, if_neg (hgm _ _)]; exact hgetg
    · intro t ht
      rw [get_addRead, get_put, if_neg (hgm _ _)]
      exact hfreshg t ht
  have him : MemInv (.m mod) nm ((s.put (.m mod) (keyOf name) none).addRead p) ((s.put (.m mod) (keyOf name) none).addRead p) ts := by
    refine ⟨?_, fun _ h => h, ?_⟩
    · rw [hkey, get_addRead, get_put, if_pos rfl]
    · intro t ht
      rw [get_addRead, get_put, if_neg (by intro h; injection h with _ h2; exact hne' t h2)]
      exact hfreshm t ht
  obtain ⟨hres, hholder⟩ := resolveTS_child cfg mod hv hflat nm _ ts 0 _ k hk hhg hhm hig him
  rw [hkey] at hholder
  obtain ⟨mods, tree, via, gi, fl⟩ := cfg
  simp only at hv
  subst hv
  simp only at hb
  simp only [instantiate, bind, pure, getSt, hget, setEntry, instantiator, modifySt, hb, hkey, ne_eq, not_true_eq_false,
    if_false, addTypes, if_true, hres]
  simp only [hholder, get_put, if_true]
  rfl

/-- the lookup of a type set `Mod::…` (index route) through the module's loader below the global loader: the global loader
    misses completely, the module's file is the only read -/
theorem typeset_child (cfg : Cfg) (mod : String) (hv : cfg.via = .m mod) (hflat : cfg.flat = false)
    (name nm : Name) (hne : name ≠ []) (ts : List String) (p : Path) (ps : List Path) (s : St) (k : Nat)
    (hk : 3 * (nm.length + 1) + ts.length ≤ k)
    (hsys : sysLoad name = none) (hroute : Routed (.m mod) name)
    (hqg : QuietAnc cfg .g s name) (hig : idx cfg .g (keyOf name) = [])
    (hi : idx cfg (.m mod) (keyOf name) = p :: ps)
    (hb : bodyAt cfg.tree p = some (.typ .typeset nm ts)) (hkey : keyOf nm = keyOf name)
    (hget : s.get (.m mod) (keyOf name) = none)
    (hhg : MemHyp cfg .g nm (((s.put .g (keyOf name) none).put (.m mod) (keyOf name) none).addRead p) ts)
    (hhm : MemHyp cfg (.m mod) nm (((s.put .g (keyOf name) none).put (.m mod) (keyOf name) none).addRead p) ts)
    (hfreshg : ∀ t ∈ ts, s.get .g (keyOf (nm ++ [t])) = none)
    (hfreshm : ∀ t ∈ ts, s.get (.m mod) (keyOf (nm ++ [t])) = none) :
    loadS (k+11) cfg s name =
      (.found ⟨.typeset, nm⟩, typesetState2 mod name nm ts p (s.put .g (keyOf name) none)) := by
  have hgm : ∀ k0 k1 : Key, (Lid.g, k0) ≠ (Lid.m mod, k1) := by intro _ _ h; cases h
  have hmg : ∀ k0 k1 : Key, (Lid.m mod, k0) ≠ (Lid.g, k1) := by intro _ _ h; cases h
  have hlen : nm.length = name.length := by rw [← keyOf_length nm, ← keyOf_length name, hkey]
  have hfg := find_miss cfg .g s name hne hqg hig (k+8) (by omega)
  have hgfresh := hqg.fresh
  have hne' : ∀ t, keyOf (nm ++ [t]) ≠ keyOf name := by
    intro t h2
    rw [← hkey] at h2
    exact keyOf_ne_of_length (by simp) h2
  have hinst := instantiate_typeset_child cfg mod hv hflat name nm ts p ps (s.put .g (keyOf name) none) k hk hb hkey
    (by rw [get_put, if_neg (hmg _ _)]; exact hget) (by rw [get_put, if_pos rfl]) hhg hhm
    (fun t ht => by rw [get_put, if_neg (by intro h; injection h with _ h2; exact hne' t h2)]; exact hfreshg t ht)
    (fun t ht => by rw [get_put, if_neg (hmg _ _)]; exact hfreshm t ht)
  have hget' : (s.put .g (keyOf name) none).get (.m mod) (keyOf name) = none := by
    rw [get_put, if_neg (hmg _ _)]; exact hget
  obtain ⟨mods, tree, via, gi, fl⟩ := cfg
  simp only at hv hflat
  subst hv
  subst hflat
  unfold loadS load
  simp only [loadEntry, fbLoadEntry, bind, pure, getSt, Bool.false_eq_true, if_false, hsys, hgfresh, hfg]
  simp only [setEntry, hgfresh, get_put, hget, hmg, if_false, find_routed _ _ _ _ hroute, findTail, hi, hinst]

/-- the module's own name through its loader below the global loader: `init_typeset.pp` -/
theorem init_typeset_child (cfg : Cfg) (mod : String) (hv : cfg.via = .m mod) (hflat : cfg.flat = false)
    (hguard : cfg.guardInit = true) (hm : isGlobalMod mod = false) (a : String) (nm : Name)
    (ts : List String) (o : Path) (os : List Path) (s : St) (k : Nat)
    (hk : 3 * (nm.length + 1) + ts.length ≤ k)
    (hsys : sysLoad [a] = none) (hparts : partsOf [a] = some [mod])
    (hgetg : s.get .g (keyOf [a]) = none) (hig : idx cfg .g (keyOf [a]) = [])
    (hi : idx cfg (.m mod) ["init_typeset"] = o :: os)
    (hb : bodyAt cfg.tree o = some (.typ .typeset nm ts)) (hkey : keyOf nm = keyOf [a])
    (hget : s.get (.m mod) (keyOf [a]) = none)
    (hhg : MemHyp cfg .g nm (((s.put .g (keyOf [a]) none).put (.m mod) (keyOf [a]) none).addRead o) ts)
    (hhm : MemHyp cfg (.m mod) nm (((s.put .g (keyOf [a]) none).put (.m mod) (keyOf [a]) none).addRead o) ts)
    (hfreshg : ∀ t ∈ ts, s.get .g (keyOf (nm ++ [t])) = none)
    (hfreshm : ∀ t ∈ ts, s.get (.m mod) (keyOf (nm ++ [t])) = none) :
    loadS (k+10) cfg s [a] =
      (.found ⟨.typeset, nm⟩, typesetState2 mod [a] nm ts o (s.put .g (keyOf [a]) none)) := by
  have hmg : ∀ k0 k1 : Key, (Lid.m mod, k0) ≠ (Lid.g, k1) := by intro _ _ h; cases h
  have hqg : QuietAnc cfg .g s [a] := by
    refine ⟨hgetg, Or.inl rfl, Or.inl rfl, ?_⟩
    intro x hx hp hneq
    have := length_lt_of_proper_prefix hp hneq
    cases x with
    | nil => exact absurd rfl hx
    | cons y r => simp at this
  have hfg := find_miss cfg .g s [a] (by simp) hqg hig (k+7) (by show 3 * 1 ≤ k + 7; omega)
  have hne' : ∀ t, keyOf (nm ++ [t]) ≠ keyOf [a] := by
    intro t h2
    rw [← hkey] at h2
    exact keyOf_ne_of_length (by simp) h2
  have hinst := instantiate_typeset_child cfg mod hv hflat [a] nm ts o os (s.put .g (keyOf [a]) none) k hk hb hkey
    (by rw [get_put, if_neg (hmg _ _)]; exact hget) (by rw [get_put, if_pos rfl]) hhg hhm
    (fun t ht => by rw [get_put, if_neg (by intro h; injection h with _ h2; exact hne' t h2)]; exact hfreshg t ht)
    (fun t ht => by rw [get_put, if_neg (hmg _ _)]; exact hfreshm t ht)
  have hget' : (s.put .g (keyOf [a]) none).get (.m mod) (keyOf [a]) = none := by
    rw [get_put, if_neg (hmg _ _)]; exact hget
  have hq1 : qualified [a] = false := rfl
  have hfind : find (k+8) cfg (.m mod) [a] (s.put .g (keyOf [a]) none) =
      .ok (some (some ⟨.typeset, nm⟩)) (typesetState2 mod [a] nm ts o (s.put .g (keyOf [a]) none)) := by
    have hhead : ¬ (some (Lid.m mod).moduleName ≠ ([mod] : Key).head?) := fun h => h rfl
    simp only [find, hq1, bind, pure, partsM, hparts, hi, hguard, Bool.false_eq_true, if_false]
    rw [if_pos (by simp [Lid.moduleName, hm])]
    simp only [if_neg hhead, hinst, if_true]
  obtain ⟨mods, tree, via, gi, fl⟩ := cfg
  simp only at hv hflat
  subst hv
  subst hflat
  unfold loadS load
  simp only [loadEntry, fbLoadEntry, bind, pure, getSt, Bool.false_eq_true, if_false, hsys, hgetg, hfg]
  simp only [setEntry, hgetg, get_put, hget, hmg, if_false, hfind]

end Pcore.Files
