import Pcore.Proofs.SliceHeap
/-!
C08 helper lemmas, part 2: one step of the heap interpreter under a safe table is one step of the pure interpreter
(`step_refines`), hence whole runs (`run_refines`); the pure pool only ever grows at its end (`runPure_prefix`).
-/
namespace Pcore.Heap

/-- `produce` with a fresh-class idiom allocates -/
theorem produce_fresh (P : Policy) (h : Heap) (i : Idiom) (site : String) (hint : Nat) (recv : Slice) (lo hi : Nat)
    (res : List Val) (hc : i.cls = .fresh) :
    produce P h i site hint recv lo hi res = mkFresh h res (P.spare site hint res.length) := by
  unfold produce; rw [hc]

theorem produce_recv (P : Policy) (h : Heap) (i : Idiom) (site : String) (hint : Nat) (recv : Slice) (lo hi : Nat)
    (res : List Val) (hc : i.cls = .recv) : produce P h i site hint recv lo hi res = (h, recv) := by
  unfold produce; rw [hc]

theorem produce_reslice (P : Policy) (h : Heap) (i : Idiom) (site : String) (hint : Nat) (recv : Slice) (lo hi : Nat)
    (res : List Val) (hc : i.cls = .reslice) : produce P h i site hint recv lo hi res = (h, recv.sub lo hi) := by
  unfold produce; rw [hc]

theorem look_of_slice? {s : HState} {r : Nat} {k : Kind} {sl : Slice} (h : s.slice? r = some (k, sl)) :
    s.look r = some (k, s.heap.read sl) := by
  unfold HState.look; rw [h]

theorem look_of_slice?_none {s : HState} {r : Nat} (h : s.slice? r = none) : s.look r = none := by
  unfold HState.look; rw [h]

/-- SEALING, one step: under a safe table a step of the implementation layer (a) is the pure step on the represented
    state — in particular the content of every earlier value is untouched — and (b) keeps all slice headers valid. -/
theorem step_refines (P : Policy) (tbl : Table) (ht : IdiomsSafe tbl) (s : HState) (hw : s.WF) (op : Op) :
    (stepHeap P tbl s op).abs = stepPure s.abs op ∧ (stepHeap P tbl s op).WF := by
  unfold stepHeap stepPure
  rw [abs_look]
  cases hop : opSem s.look op with
  | mark m => exact push_mark s hw m
  | alloc site k cap res =>
    simp only
    exact push_fresh s hw k res _ s.dead
  | same site k r =>
    simp only
    cases hs : s.slice? r with
    | none =>
      rw [look_of_slice?_none hs]
      exact push_mark s hw "~"
    | some p =>
      obtain ⟨k', recv⟩ := p
      rw [look_of_slice? hs]
      simp only
      have hrecv : recv.arr < s.heap.length := hw _ (slice?_mem hs) k' recv rfl
      rcases safe_same ht site with hc | hc | hc
      · rw [produce_fresh _ _ _ _ _ _ _ _ _ hc]
        exact push_fresh s hw k (s.heap.read recv) _ s.dead
      · rw [produce_recv _ _ _ _ _ _ _ _ _ hc]
        exact push_shared s hw k recv hrecv s.dead
      · rw [produce_reslice _ _ _ _ _ _ _ _ _ hc]
        have := push_shared s hw k (recv.sub 0 recv.len) hrecv s.dead
        rw [read_sub_full] at this
        exact this
  | window site k r lo hi =>
    simp only
    cases hs : s.slice? r with
    | none =>
      rw [look_of_slice?_none hs]
      exact push_mark s hw "~"
    | some p =>
      obtain ⟨k', recv⟩ := p
      rw [look_of_slice? hs]
      simp only
      have hrecv : recv.arr < s.heap.length := hw _ (slice?_mem hs) k' recv rfl
      cases hok : winOK (s.heap.read recv).length lo hi with
      | false => simp only [Bool.false_eq_true, if_false]; exact push_mark s hw "^"
      | true =>
        simp only [if_true]
        rcases safe_win ht site with hc | hc
        · rw [produce_fresh _ _ _ _ _ _ _ _ _ hc]
          exact push_fresh s hw k (window (s.heap.read recv) lo hi) _ s.dead
        · rw [produce_reslice _ _ _ _ _ _ _ _ _ hc]
          have := push_shared s hw k (recv.sub lo.toNat hi.toNat) hrecv s.dead
          rw [read_sub_window _ _ _ _ hok] at this
          exact this
  | new site k r res kill =>
    simp only
    rw [safe_noWrite ht site.method]
    simp only [Bool.false_eq_true, if_false]
    rw [produce_fresh _ _ _ _ _ _ _ _ _ (safe_new ht site)]
    exact push_fresh s hw k res _ _

/-- SEALING, literally: under a safe table a step never writes a cell of an existing backing array — the heap after
    the step is the heap before it plus (at most one) newly allocated array -/
theorem step_sealed (P : Policy) (tbl : Table) (ht : IdiomsSafe tbl) (s : HState) (op : Op) :
    ∃ cs, (stepHeap P tbl s op).heap = s.heap ++ cs := by
  unfold stepHeap
  cases hop : opSem s.look op with
  | mark m => exact ⟨[], by simp [HState.push]⟩
  | alloc site k cap res => exact ⟨_, rfl⟩
  | same site k r =>
    simp only
    cases hs : s.slice? r with
    | none => exact ⟨[], by simp [HState.push]⟩
    | some p =>
      obtain ⟨k', recv⟩ := p
      simp only
      rcases safe_same ht site with hc | hc | hc
      · rw [produce_fresh _ _ _ _ _ _ _ _ _ hc]; exact ⟨_, rfl⟩
      · rw [produce_recv _ _ _ _ _ _ _ _ _ hc]; exact ⟨[], by simp [HState.push]⟩
      · rw [produce_reslice _ _ _ _ _ _ _ _ _ hc]; exact ⟨[], by simp [HState.push]⟩
  | window site k r lo hi =>
    simp only
    cases hs : s.slice? r with
    | none => exact ⟨[], by simp [HState.push]⟩
    | some p =>
      obtain ⟨k', recv⟩ := p
      simp only
      cases hok : winOK (s.heap.read recv).length lo hi with
      | false => exact ⟨[], by simp [HState.push]⟩
      | true =>
        simp only [if_true]
        rcases safe_win ht site with hc | hc
        · rw [produce_fresh _ _ _ _ _ _ _ _ _ hc]; exact ⟨_, rfl⟩
        · rw [produce_reslice _ _ _ _ _ _ _ _ _ hc]; exact ⟨[], by simp [HState.push]⟩
  | new site k r res kill =>
    simp only
    rw [safe_noWrite ht site.method]
    simp only [Bool.false_eq_true, if_false]
    rw [produce_fresh _ _ _ _ _ _ _ _ _ (safe_new ht site)]
    exact ⟨_, rfl⟩

theorem foldl_sealed (P : Policy) (tbl : Table) (ht : IdiomsSafe tbl) (ops : List Op) :
    ∀ s : HState, ∃ cs, (ops.foldl (stepHeap P tbl) s).heap = s.heap ++ cs := by
  induction ops with
  | nil => intro s; exact ⟨[], by simp⟩
  | cons op ops ih =>
    intro s
    obtain ⟨c1, h1⟩ := step_sealed P tbl ht s op
    obtain ⟨c2, h2⟩ := ih (stepHeap P tbl s op)
    exact ⟨c1 ++ c2, by simp only [List.foldl_cons]; rw [h2, h1, List.append_assoc]⟩

theorem foldl_refines (P : Policy) (tbl : Table) (ht : IdiomsSafe tbl) (ops : List Op) :
    ∀ s : HState, s.WF → (ops.foldl (stepHeap P tbl) s).abs = ops.foldl stepPure s.abs ∧ (ops.foldl (stepHeap P tbl) s).WF := by
  induction ops with
  | nil => intro s hw; exact ⟨rfl, hw⟩
  | cons op ops ih =>
    intro s hw
    simp only [List.foldl_cons]
    obtain ⟨h1, h2⟩ := step_refines P tbl ht s hw op
    rw [← h1]
    exact ih _ h2

theorem run_refines (P : Policy) (tbl : Table) (ht : IdiomsSafe tbl) (ops : List Op) :
    (runHeap P tbl ops).abs = runPure ops := by
  have := (foldl_refines P tbl ht ops {} (by intro e he; cases he)).1
  exact this

/-! ### the pure pool only grows at its end -/

theorem stepPure_pool (s : PState) (op : Op) : ∃ e, (stepPure s op).pool = s.pool ++ [e] := by
  unfold stepPure
  split
  · exact ⟨_, rfl⟩
  · exact ⟨_, rfl⟩
  · split <;> exact ⟨_, rfl⟩
  · split
    · split <;> exact ⟨_, rfl⟩
    · exact ⟨_, rfl⟩
  · exact ⟨_, rfl⟩

theorem foldl_pool (ops : List Op) : ∀ s : PState, ∃ es, es.length = ops.length ∧ (ops.foldl stepPure s).pool = s.pool ++ es := by
  induction ops with
  | nil => intro s; exact ⟨[], rfl, by simp⟩
  | cons op ops ih =>
    intro s
    obtain ⟨e, he⟩ := stepPure_pool s op
    obtain ⟨es, hl, hes⟩ := ih (stepPure s op)
    refine ⟨e :: es, by simp [hl], ?_⟩
    simp only [List.foldl_cons]
    rw [hes, he]
    simp

theorem runPure_length (ops : List Op) : (runPure ops).pool.length = ops.length := by
  obtain ⟨es, hl, hes⟩ := foldl_pool ops {}
  unfold runPure
  rw [hes]
  simp [hl]

/-- entries created by the first `j` steps are what the whole history's pool holds at those positions -/
theorem runPure_prefix (ops : List Op) (i j : Nat) (hij : i < j) (hj : j ≤ ops.length) :
    (runPure (ops.take j)).pool[i]? = (runPure ops).pool[i]? := by
  have hsplit : ops = ops.take j ++ ops.drop j := (List.take_append_drop j ops).symm
  have h2 : runPure ops = (ops.drop j).foldl stepPure (runPure (ops.take j)) := by
    conv => lhs; rw [hsplit]
    unfold runPure
    rw [List.foldl_append]
  obtain ⟨es, _, hes⟩ := foldl_pool (ops.drop j) (runPure (ops.take j))
  rw [h2, hes]
  have hl : (runPure (ops.take j)).pool.length = j := by
    rw [runPure_length]; simp [List.length_take]; omega
  rw [List.getElem?_append_left (by omega)]

theorem content_abs (s : HState) (i : Nat) :
    content s i = (match s.abs.pool[i]? with | some (.val _ xs) => some xs | _ => none) := by
  unfold content HState.abs
  simp only [List.getElem?_map]
  cases h : s.pool[i]? with
  | none => rfl
  | some e => cases e <;> rfl

end Pcore.Heap
