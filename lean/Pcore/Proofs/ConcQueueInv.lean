import Pcore.Proofs.ConcQueue
/-! The declare / resolve queue, `fresh` variant: the inductive invariant over every interleaving. -/
namespace Pcore.ConcQueue

/-! ### list facts -/

theorem take_succ_set {α : Type} (a : List α) (n : Nat) (v : α) (h : n < a.length) :
    (a.set n v).take (n + 1) = a.take n ++ [v] := by
  induction a generalizing n with
  | nil => simp at h
  | cons hd tl ih =>
    cases n with
    | zero => simp
    | succ m =>
      simp only [List.length_cons] at h
      simp only [List.set_cons_succ, List.take_succ_cons, List.cons_append, List.cons.injEq, true_and]
      exact ih m (by omega)

theorem getD_set_ne {α : Type} (l : List α) (i j : Nat) (v d : α) (h : j ≠ i) : (l.set i v).getD j d = l.getD j d := by
  simp [List.getD_eq_getElem?_getD, Ne.symm h]

theorem getD_set_self {α : Type} (l : List α) (i : Nat) (v d : α) (h : i < l.length) : (l.set i v).getD i d = v := by
  simp [List.getD_eq_getElem?_getD, h]

theorem getD_append_lt {α : Type} (l m : List α) (j : Nat) (d : α) (h : j < l.length) : (l ++ m).getD j d = l.getD j d := by
  simp [List.getD_eq_getElem?_getD, List.getElem?_append_left h]

theorem getD_append_len {α : Type} (l : List α) (v d : α) : (l ++ [v]).getD l.length d = v := by
  simp [List.getD_eq_getElem?_getD]

theorem take_succ_of_getElem? {α : Type} (b : List α) (i : Nat) (x : α) (h : b[i]? = some x) : b.take (i + 1) = b.take i ++ [x] := by
  induction b generalizing i with
  | nil => simp at h
  | cons hd tl ih =>
    cases i with
    | zero => simp at h; subst h; simp
    | succ j => simp at h; simp [ih j h]

/-! ### the invariant -/

/-- the new heap and queue variable leave alone every array other than the queue's, and the queue moves, if at all, to an
    array that did not exist -/
structure Frame (heap : List (List (Option Item))) (q : Slice) (heap' : List (List (Option Item))) (q' : Slice) : Prop where
  same : ∀ a, a < heap.length → a ≠ q.arr → heap'.getD a [] = heap.getD a []
  len : heap.length ≤ heap'.length
  arr : q'.arr = q.arr ∨ heap.length ≤ q'.arr

/-- a slice a thread holds shows what it showed when it was popped (and cannot be written through the queue) -/
def SliceOK (heap : List (List (Option Item))) (q s : Slice) (b : List Item) : Prop :=
  s.len = b.length ∧ (0 < s.len → s.arr ≠ q.arr ∧ s.arr < heap.length ∧ readSlice heap s = b.map some)

def PCok (heap : List (List (Option Item))) (q : Slice) : PC → Prop
  | .idle => True
  | .bindRead s b i _ => SliceOK heap q s b ∧ i ≤ s.len
  | .bindSet s b i x _ => SliceOK heap q s b ∧ b[i]? = some x
  | .resRead s b i _ => SliceOK heap q s b ∧ i ≤ s.len
  | .resCall s b i x _ => SliceOK heap q s b ∧ b[i]? = some x

theorem SliceOK_frame {heap heap' : List (List (Option Item))} {q q' s : Slice} {b : List Item} (fr : Frame heap q heap' q')
    (h : SliceOK heap q s b) : SliceOK heap' q' s b := by
  refine ⟨h.1, fun hl => ?_⟩
  obtain ⟨h1, h2, h3⟩ := h.2 hl
  refine ⟨?_, by have := fr.len; omega, ?_⟩
  · rcases fr.arr with e | e
    · rw [e]; exact h1
    · omega
  · unfold readSlice at h3 ⊢
    rw [fr.same _ h2 h1]; exact h3

theorem PCok_frame {heap heap' : List (List (Option Item))} {q q' : Slice} (fr : Frame heap q heap' q') (pc : PC)
    (h : PCok heap q pc) : PCok heap' q' pc := by
  cases pc with
  | idle => trivial
  | bindRead s b i ev => exact ⟨SliceOK_frame fr h.1, h.2⟩
  | bindSet s b i x ev => exact ⟨SliceOK_frame fr h.1, h.2⟩
  | resRead s b i ev => exact ⟨SliceOK_frame fr h.1, h.2⟩
  | resCall s b i x ev => exact ⟨SliceOK_frame fr h.1, h.2⟩

structure Inv (c : Config) : Prop where
  w1 : c.sh.q.arr < c.sh.heap.length
  w2 : c.sh.q.len ≤ (c.sh.heap.getD c.sh.q.arr []).length
  w3 : readSlice c.sh.heap c.sh.q = (qItems c.sh).map some
  p : ∀ t ∈ c.th, PCok c.sh.heap c.sh.q t.pc
  a1 : ∀ x : Nat, (qItems c.sh).count x + occ batch x c.th + c.sh.fin.count x = if x < c.sh.next then 1 else 0
  a2 : ∀ x : Nat, c.sh.bound.count x = occ bdone x c.th + c.sh.fin.count x
  a3 : ∀ x : Nat, c.sh.resolved.count x = occ rdone x c.th + c.sh.fin.count x
  f : ∀ t ∈ c.th, ∀ ev, Ans.fault ev ∉ t.log

/-! ### `append` -/

theorem readSlice_length (heap : List (List (Option Item))) (s : Slice) (h : s.len ≤ (heap.getD s.arr []).length) :
    (readSlice heap s).length = s.len := by
  unfold readSlice
  rw [List.length_take]
  omega

/-- what `resolvableTypes = append(resolvableTypes, x)` does to the heap and the queue variable -/
theorem appendQ_spec (cfg : Cfg) (sh : Shared) (x : Item) (w1 : sh.q.arr < sh.heap.length)
    (w2 : sh.q.len ≤ (sh.heap.getD sh.q.arr []).length) :
    Frame sh.heap sh.q (appendQ cfg sh x).heap (appendQ cfg sh x).q ∧
    (appendQ cfg sh x).q.arr < (appendQ cfg sh x).heap.length ∧
    (appendQ cfg sh x).q.len ≤ ((appendQ cfg sh x).heap.getD (appendQ cfg sh x).q.arr []).length ∧
    readSlice (appendQ cfg sh x).heap (appendQ cfg sh x).q = readSlice sh.heap sh.q ++ [some x] := by
  unfold appendQ readSlice
  generalize ha : sh.heap.getD sh.q.arr [] = a at w2 ⊢
  by_cases hc : sh.q.len < a.length
  · simp only [hc, if_true]
    refine ⟨⟨fun a _ hne => getD_set_ne _ _ _ _ _ hne, by rw [List.length_set]; exact Nat.le_refl _, Or.inl rfl⟩,
      by rw [List.length_set]; exact w1, ?_, ?_⟩
    · rw [getD_set_self _ _ _ _ w1, List.length_set]; omega
    · rw [getD_set_self _ _ _ _ w1]
      exact take_succ_set _ _ _ hc
  · simp only [hc, if_false]
    have hlen : sh.q.len = a.length := by omega
    refine ⟨⟨fun a ha _ => getD_append_lt _ _ _ _ ha, by rw [List.length_append]; omega, Or.inr (Nat.le_refl _)⟩,
      by rw [List.length_append]; simp only [List.length_cons, List.length_nil]; omega, ?_, ?_⟩
    · rw [getD_append_len]
      simp only [List.length_append, List.length_take, List.length_replicate, List.length_cons, List.length_nil]
      omega
    · rw [getD_append_len, hlen, List.take_length, List.append_assoc, List.take_length_add_append]
      rfl

theorem appendQ_other (cfg : Cfg) (sh : Shared) (x : Item) :
    (appendQ cfg sh x).next = sh.next ∧ (appendQ cfg sh x).bound = sh.bound ∧ (appendQ cfg sh x).resolved = sh.resolved ∧
    (appendQ cfg sh x).fin = sh.fin := by
  unfold appendQ
  by_cases hc : sh.q.len < (sh.heap.getD sh.q.arr []).length
  · simp only [hc, if_true, and_self]
  · simp only [hc, if_false, and_self]

theorem filterMap_id_map_some (l : List Item) : (l.map some).filterMap id = l := by
  induction l with
  | nil => rfl
  | cons hd tl ih => simp [ih]

/-- the critical section of a declaration keeps the invariant, whatever the threads are doing -/
theorem Inv_declare (cfg : Cfg) (c : Config) (h : Inv c) : Inv { sh := declare cfg c.sh, th := c.th } := by
  obtain ⟨fr, s1, s2, s3⟩ := appendQ_spec cfg c.sh c.sh.next h.w1 h.w2
  obtain ⟨o1, o2, o3, o4⟩ := appendQ_other cfg c.sh c.sh.next
  have hq : qItems (declare cfg c.sh) = qItems c.sh ++ [c.sh.next] := by
    show (readSlice (appendQ cfg c.sh c.sh.next).heap (appendQ cfg c.sh c.sh.next).q).filterMap id = _
    rw [s3, List.filterMap_append]
    rfl
  refine { w1 := s1, w2 := s2, w3 := ?_, p := fun t ht => PCok_frame fr _ (h.p t ht), a1 := ?_, a2 := ?_, a3 := ?_, f := h.f }
  · show readSlice (appendQ cfg c.sh c.sh.next).heap (appendQ cfg c.sh c.sh.next).q = _
    rw [s3, hq, h.w3, List.map_append]
    rfl
  · intro x
    have := h.a1 x
    rw [hq, List.count_append]
    show _ + _ + (appendQ cfg c.sh c.sh.next).fin.count x = if x < c.sh.next + 1 then 1 else 0
    rw [o4]
    by_cases hx : x = c.sh.next
    · subst hx
      simp only [Nat.lt_irrefl, if_false] at this
      simp only [List.count_cons_self, List.count_nil, Nat.lt_succ_self, if_true]
      omega
    · have hne : (c.sh.next == x) = false := by simp [Ne.symm hx]
      simp only [List.count_cons, hne, List.count_nil]
      by_cases hlt : x < c.sh.next
      · have : x < c.sh.next + 1 := by omega
        simp_all
      · have : ¬ x < c.sh.next + 1 := by omega
        simp_all
  · intro x
    show (appendQ cfg c.sh c.sh.next).bound.count x = _ + (appendQ cfg c.sh c.sh.next).fin.count x
    rw [o2, o4]; exact h.a2 x
  · intro x
    show (appendQ cfg c.sh c.sh.next).resolved.count x = _ + (appendQ cfg c.sh c.sh.next).fin.count x
    rw [o3, o4]; exact h.a3 x

/-- thread `i` moves from `t` to `t'`; the heap, the queue variable and the declaration counter stay; the accounts balance -/
theorem Inv_update (c : Config) (i : Nat) (t t' : Thread) (sh' : Shared) (h : Inv c) (hi : c.th[i]? = some t)
    (hheap : sh'.heap = c.sh.heap) (hq : sh'.q = c.sh.q) (hnext : sh'.next = c.sh.next)
    (hp : PCok c.sh.heap c.sh.q t'.pc)
    (h1 : ∀ x : Nat, (batch t'.pc).count x + sh'.fin.count x = (batch t.pc).count x + c.sh.fin.count x)
    (h2 : ∀ x : Nat, sh'.bound.count x + (bdone t.pc).count x + c.sh.fin.count x = c.sh.bound.count x + (bdone t'.pc).count x + sh'.fin.count x)
    (h3 : ∀ x : Nat, sh'.resolved.count x + (rdone t.pc).count x + c.sh.fin.count x = c.sh.resolved.count x + (rdone t'.pc).count x + sh'.fin.count x)
    (hf : ∀ ev, Ans.fault ev ∉ t'.log) : Inv { sh := sh', th := c.th.set i t' } := by
  have hqi : qItems sh' = qItems c.sh := by unfold qItems; rw [hheap, hq]
  refine { w1 := ?_, w2 := ?_, w3 := ?_, p := ?_, a1 := ?_, a2 := ?_, a3 := ?_, f := ?_ }
  · show sh'.q.arr < sh'.heap.length
    rw [hheap, hq]; exact h.w1
  · show sh'.q.len ≤ (sh'.heap.getD sh'.q.arr []).length
    rw [hheap, hq]; exact h.w2
  · show readSlice sh'.heap sh'.q = (qItems sh').map some
    rw [hqi, hheap, hq]; exact h.w3
  · intro u hu
    show PCok sh'.heap sh'.q u.pc
    rw [hheap, hq]
    rcases List.mem_or_eq_of_mem_set hu with hu | rfl
    · exact h.p u hu
    · exact hp
  · intro x
    show (qItems sh').count x + occ batch x (c.th.set i t') + sh'.fin.count x = if x < sh'.next then 1 else 0
    have := h.a1 x
    have := occ_set batch x c.th i t t' hi
    have := h1 x
    rw [hqi, hnext]
    omega
  · intro x
    show sh'.bound.count x = occ bdone x (c.th.set i t') + sh'.fin.count x
    have := h.a2 x
    have := occ_set bdone x c.th i t t' hi
    have := h2 x
    omega
  · intro x
    show sh'.resolved.count x = occ rdone x (c.th.set i t') + sh'.fin.count x
    have := h.a3 x
    have := occ_set rdone x c.th i t t' hi
    have := h3 x
    omega
  · intro u hu
    rcases List.mem_or_eq_of_mem_set hu with hu | rfl
    · exact h.f u hu
    · exact hf

end Pcore.ConcQueue
