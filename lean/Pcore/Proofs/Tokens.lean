import Pcore.Proofs.Quote
import Pcore.Model.Print
/-!
Layer 2 of C05 (tokens): what the printer writes for one token, followed by a continuation that starts with one of
the characters the printer puts after a value (`,` `]` `}` `)` blank) or by the end of the text, the lexer reads back as
that token and leaves exactly the continuation.
-/
namespace Pcore.Syntax

/-- the continuations the printer produces after a value -/
def stopOK : List Sym → Bool
  | [] => true
  | .chr c :: _ => c = ',' || c = ']' || c = '}' || c = ')' || c = ' '
  | .bad :: _ => false

theorem stopOK_cases {k : List Sym} (h : stopOK k = true) :
    k = [] ∨ ∃ c tl, k = .chr c :: tl ∧ (c = ',' ∨ c = ']' ∨ c = '}' ∨ c = ')' ∨ c = ' ') := by
  cases k with
  | nil => exact Or.inl rfl
  | cons s tl =>
    cases s with
    | bad => simp [stopOK] at h
    | chr c =>
      right; refine ⟨c, tl, rfl, ?_⟩
      simp only [stopOK, Bool.or_eq_true, decide_eq_true_eq] at h
      rcases h with (((h | h) | h) | h) | h <;> simp [h]

/-- facts about a stop character that every token scanner needs -/
theorem stop_char {c : Char} (h : c = ',' ∨ c = ']' ∨ c = '}' ∨ c = ')' ∨ c = ' ') :
    (Sym.chr c).rune = some c ∧ c ≠ '\x00' ∧ isDigit c = false ∧ isWord c = false ∧ c ≠ ':' ∧ c ≠ 'e' ∧ c ≠ 'E' ∧
    c ≠ 'x' ∧ c ≠ 'X' ∧ c ≠ '.' ∧ isHex c = false := by
  rcases h with h | h | h | h | h <;> subst h <;> decide

/-! ### words -/

/-- what may follow a word: the end, or a character that is neither a word character nor `:` -/
def identStop : List Sym → Prop
  | [] => True
  | s :: _ => ∃ c, s = .chr c ∧ (Sym.chr c).rune = some c ∧ isWord c = false ∧ c ≠ ':'

theorem identStop_of_stopOK {k : List Sym} (h : stopOK k = true) : identStop k := by
  rcases stopOK_cases h with rfl | ⟨c, tl, rfl, hc⟩
  · trivial
  · obtain ⟨hr, _, _, hwd, hcol, _⟩ := stop_char hc
    exact ⟨c, rfl, hr, hwd, hcol⟩

theorem identStop_lbrack (k : List Sym) : identStop (.chr '[' :: k) := ⟨'[', rfl, by decide, by decide, by decide⟩

theorem lexIdent_word' (u : Bool) (w acc : Str) (k : List Sym) (hw : ∀ c ∈ w, isWord c = true ∧ c ≠ ':' ∧ c ≠ runeError)
    (hk : identStop k) :
    lexIdent u .body acc (syms w ++ k) = .tok ⟨if u then .name else .ident, acc.reverse ++ w⟩ k false := by
  induction w generalizing acc with
  | nil =>
    simp only [syms_nil, List.nil_append, List.append_nil]
    cases k with
    | nil => simp [lexIdent]
    | cons s tl =>
      obtain ⟨c, rfl, hr, hwd, hcol⟩ := hk
      rw [lexIdent, hr]; simp [hcol, hwd]
  | cons c cs ih =>
    obtain ⟨h1, h2, h3⟩ := hw c (by simp)
    simp only [syms_cons, List.cons_append]
    rw [lexIdent, rune_chr h3]; simp only [h2, if_false, h1, if_true]
    rw [ih _ (fun d hd => hw d (by simp [hd]))]
    simp

theorem lexIdent_word (u : Bool) (w acc : Str) (k : List Sym) (hw : ∀ c ∈ w, isWord c = true ∧ c ≠ ':' ∧ c ≠ runeError)
    (hk : stopOK k = true) :
    lexIdent u .body acc (syms w ++ k) = .tok ⟨if u then .name else .ident, acc.reverse ++ w⟩ k false :=
  lexIdent_word' u w acc k hw (identStop_of_stopOK hk)

/-- an upper-case word (no `:`) is read back as a type name -/
theorem nextToken_name (il : Char → Bool) (c : Char) (w : Str) (k : List Sym) (hc : isUpper c = true)
    (hw : ∀ d ∈ w, isWord d = true ∧ d ≠ ':' ∧ d ≠ runeError) (hk : identStop k) :
    nextToken il (syms (c :: w) ++ k) = .tok ⟨.name, c :: w⟩ k false := by
  have hn : 65 ≤ c.toNat ∧ c.toNat ≤ 90 := by
    simp only [isUpper, Bool.and_eq_true, decide_eq_true_eq] at hc
    exact ⟨hc.1, hc.2⟩
  have ne : ∀ d : Char, (d.toNat < 65 ∨ 90 < d.toNat) → c ≠ d := by
    intro d hd e; subst e; omega
  have h1 : (Sym.chr c).rune = some c := rune_chr (ne _ (by decide))
  have h3 : ¬(c = ' ' ∨ c = '\t' ∨ c = '\n') := by intro h; rcases h with h | h | h <;> exact ne _ (by decide) h
  have h5 : ¬(c = '\'' ∨ c = '"') := by intro h; rcases h with h | h <;> exact ne _ (by decide) h
  have h7 : punctTok c = (fun _ => none) := by
    funext tl
    simp [punctTok, ne '{' (by decide), ne '}' (by decide), ne '[' (by decide), ne ']' (by decide),
      ne '(' (by decide), ne ')' (by decide), ne ',' (by decide), ne '.' (by decide)]
  have h9 : ¬(c = '-' ∨ c = '+') := by intro h; rcases h with h | h <;> exact ne _ (by decide) h
  have h10 : isDigit c = false := by
    simp only [isDigit, Bool.and_eq_false_imp, decide_eq_true_eq, decide_eq_false_iff_not]
    intro _; show ¬ c.toNat ≤ 57; omega
  unfold nextToken
  simp only [syms_cons, List.cons_append]
  rw [nextTok, h1]; simp only [Bool.false_eq_true, if_false, ne '\x00' (by decide), h3, ne '#' (by decide)]
  unfold startTok
  simp only [h5, ne '/' (by decide), if_false, h7, ne '=' (by decide), h9, h10, Bool.false_eq_true, hc, if_true]
  have := lexIdent_word' true w [c] k hw hk
  simpa using this

/-- a lower-case word (no `:`) is read back as an identifier -/
theorem nextToken_word (il : Char → Bool) (c : Char) (w : Str) (k : List Sym) (hc : isLower c = true)
    (hw : ∀ d ∈ w, isWord d = true ∧ d ≠ ':' ∧ d ≠ runeError) (hk : stopOK k = true) :
    nextToken il (syms (c :: w) ++ k) = .tok ⟨.ident, c :: w⟩ k false := by
  have hl : ∀ c, isLower c = true → (Sym.chr c).rune = some c ∧ c ≠ '\x00' ∧ ¬(c = ' ' ∨ c = '\t' ∨ c = '\n') ∧ c ≠ '#' ∧
      ¬(c = '\'' ∨ c = '"') ∧ c ≠ '/' ∧ punctTok c = (fun _ => none) ∧ c ≠ '=' ∧ ¬(c = '-' ∨ c = '+') ∧ isDigit c = false ∧
      isUpper c = false := by
    intro c h
    have hn : 97 ≤ c.toNat ∧ c.toNat ≤ 122 := by
      simp only [isLower, Bool.and_eq_true, decide_eq_true_eq] at h
      exact ⟨h.1, h.2⟩
    have ne : ∀ d : Char, (d.toNat < 97 ∨ 122 < d.toNat) → c ≠ d := by
      intro d hd e; subst e; omega
    refine ⟨?_, ne _ (by decide), ?_, ne _ (by decide), ?_, ne _ (by decide), ?_, ne _ (by decide), ?_, ?_, ?_⟩
    · exact rune_chr (ne _ (by decide))
    · intro h; rcases h with h | h | h <;> exact ne _ (by decide) h
    · intro h; rcases h with h | h <;> exact ne _ (by decide) h
    · funext tl
      simp [punctTok, ne '{' (by decide), ne '}' (by decide), ne '[' (by decide), ne ']' (by decide),
        ne '(' (by decide), ne ')' (by decide), ne ',' (by decide), ne '.' (by decide)]
    · intro h; rcases h with h | h <;> exact ne _ (by decide) h
    · simp only [isDigit, Bool.and_eq_false_imp, decide_eq_true_eq, decide_eq_false_iff_not]
      intro _; show ¬ c.toNat ≤ 57; omega
    · simp only [isUpper, Bool.and_eq_false_imp, decide_eq_true_eq, decide_eq_false_iff_not]
      intro _; show ¬ c.toNat ≤ 90; omega
  obtain ⟨h1, h2, h3, h4, h5, h6, h7, h8, h9, h10, h11⟩ := hl c hc
  unfold nextToken
  simp only [syms_cons, List.cons_append]
  rw [nextTok, h1]; simp only [Bool.false_eq_true, if_false, h2, h3, h4]
  unfold startTok
  simp only [h5, h6, if_false, h7, h8, h9, h10, h11, Bool.false_eq_true, hc, if_true]
  have := lexIdent_word false w [c] k hw hk
  simpa using this

/-! ### integers -/

theorem digit_facts (c : Char) (h : isDigit c = true) :
    (Sym.chr c).rune = some c ∧ c ≠ '\x00' ∧ ¬(c = ' ' ∨ c = '\t' ∨ c = '\n') ∧ c ≠ '#' ∧
    ¬(c = '\'' ∨ c = '"') ∧ c ≠ '/' ∧ punctTok c = (fun _ => none) ∧ c ≠ '=' ∧ ¬(c = '-' ∨ c = '+') ∧ c ≠ runeError := by
  have hn : 48 ≤ c.toNat ∧ c.toNat ≤ 57 := by
    simp only [isDigit, Bool.and_eq_true, decide_eq_true_eq] at h
    exact ⟨h.1, h.2⟩
  have ne : ∀ d : Char, (d.toNat < 48 ∨ 57 < d.toNat) → c ≠ d := by
    intro d hd e; subst e; omega
  refine ⟨?_, ne _ (by decide), ?_, ne _ (by decide), ?_, ne _ (by decide), ?_, ne _ (by decide), ?_, ne _ (by decide)⟩
  · exact rune_chr (ne _ (by decide))
  · intro h; rcases h with h | h | h <;> exact ne _ (by decide) h
  · intro h; rcases h with h | h <;> exact ne _ (by decide) h
  · funext tl
    simp [punctTok, ne '{' (by decide), ne '}' (by decide), ne '[' (by decide), ne ']' (by decide),
      ne '(' (by decide), ne ')' (by decide), ne ',' (by decide), ne '.' (by decide)]
  · intro h; rcases h with h | h <;> exact ne _ (by decide) h

theorem lexNum_digits (il : Char → Bool) (fz : Bool) (ds acc : Str) (k : List Sym)
    (hd : ∀ c ∈ ds, isDigit c = true) (hk : stopOK k = true) :
    lexNum il (.intPart fz) acc (syms ds ++ k) = intTok (ds.reverse ++ acc) k := by
  induction ds generalizing acc with
  | nil =>
    simp only [syms_nil, List.nil_append, List.reverse_nil]
    rcases stopOK_cases hk with rfl | ⟨c, tl, rfl, hc⟩
    · simp [lexNum]
    · obtain ⟨hr, h0, hdg, _, _, he, hE, hx, hX, hdot, _⟩ := stop_char hc
      rw [lexNum, hr]; simp [h0, hdg, he, hE, hx, hX, hdot]
  | cons c cs ih =>
    have hc := hd c (by simp)
    obtain ⟨hr, h0, _⟩ := digit_facts c hc
    simp only [syms_cons, List.cons_append]
    rw [lexNum, hr]; simp only [h0, if_false, hc, if_true]
    rw [ih _ (fun d hd' => hd d (by simp [hd']))]
    simp

theorem natDigits_digits (n : Nat) : ∀ c ∈ natDigits n, isDigit c = true := by
  induction n using Nat.strongRecOn with
  | _ n ih =>
    intro c hc
    rw [natDigits] at hc
    by_cases h : n < 10
    · simp only [h, dite_true, List.mem_singleton] at hc
      subst hc; exact (digitVal_digitChar n h).2
    · simp only [h, dite_false, List.mem_append, List.mem_singleton] at hc
      rcases hc with hc | hc
      · exact ih (n / 10) (by omega) c hc
      · subst hc; exact (digitVal_digitChar _ (by omega)).2

theorem natDigits_ne_nil (n : Nat) : natDigits n ≠ [] := by
  rw [natDigits]; split <;> simp

/-- a decimal number is read back as one integer token -/
theorem nextToken_nat (il : Char → Bool) (n : Nat) (k : List Sym) (hk : stopOK k = true) :
    nextToken il (syms (natDigits n) ++ k) = .tok ⟨.int, natDigits n⟩ k false := by
  have hds := natDigits_digits n
  cases hnd : natDigits n with
  | nil => exact absurd hnd (natDigits_ne_nil n)
  | cons c cs =>
    rw [hnd] at hds
    have hc := hds c (by simp)
    obtain ⟨h1, h2, h3, h4, h5, h6, h7, h8, h9, _⟩ := digit_facts c hc
    unfold nextToken
    simp only [syms_cons, List.cons_append]
    rw [nextTok, h1]; simp only [Bool.false_eq_true, if_false, h2, h3, h4]
    unfold startTok
    simp only [h5, h6, if_false, h7, h8, h9, hc, if_true]
    rw [lexNum_digits il _ cs [c] k (fun d hd => hds d (by simp [hd])) hk]
    simp [intTok]

theorem nextToken_int (il : Char → Bool) (i : Int) (k : List Sym) (hk : stopOK k = true) :
    nextToken il (syms (intText i) ++ k) = .tok ⟨.int, intText i⟩ k false := by
  cases i with
  | ofNat n => exact nextToken_nat il n k hk
  | negSucc n =>
    simp only [intText]
    have hds := natDigits_digits (n + 1)
    cases hnd : natDigits (n + 1) with
    | nil => exact absurd hnd (natDigits_ne_nil _)
    | cons c cs =>
      rw [hnd] at hds
      have hc := hds c (by simp)
      obtain ⟨h1, _⟩ := digit_facts c hc
      unfold nextToken
      simp only [syms_cons, List.cons_append]
      rw [nextTok]
      have hm : (Sym.chr '-').rune = some '-' := by decide
      rw [hm]; simp only [Bool.false_eq_true, if_false]
      have e1 : ('-' = '\x00') = False := by decide
      have e2 : ('-' = ' ' ∨ '-' = '\t' ∨ '-' = '\n') = False := by decide
      have e3 : ('-' = '#') = False := by decide
      simp only [e1, e2, e3, if_false]
      unfold startTok
      have e4 : ('-' = '\'' ∨ '-' = '"') = False := by decide
      have e5 : ('-' = '/') = False := by decide
      have e6 : punctTok '-' (Sym.chr c :: (syms cs ++ k)) = none := by simp [punctTok]
      have e7 : ('-' = '=') = False := by decide
      simp only [e4, e5, if_false, e6, e7, true_or, if_true]
      unfold signTok
      simp only [h1, hc, if_true]
      rw [lexNum_digits il _ cs [c, '-'] k (fun d hd => hds d (by simp [hd])) hk]
      simp [intTok]

/-! ### floats of the shape digits `.` digits (the lexing half of the `FloatIO` parameter is provable for them) -/

theorem lexNum_frac_digits (il : Char → Bool) (ds acc : Str) (k : List Sym)
    (hd : ∀ c ∈ ds, isDigit c = true) (hk : stopOK k = true) :
    lexNum il .fracPart acc (syms ds ++ k) = floatTok (ds.reverse ++ acc) k := by
  induction ds generalizing acc with
  | nil =>
    simp only [syms_nil, List.nil_append, List.reverse_nil]
    rcases stopOK_cases hk with rfl | ⟨c, tl, rfl, hc⟩
    · simp [lexNum]
    · obtain ⟨hr, h0, hdg, _, _, he, hE, hx, hX, hdot, _⟩ := stop_char hc
      rw [lexNum, hr]; simp [h0, hdg, he, hE, hx, hX, hdot]
  | cons c cs ih =>
    have hc := hd c (by simp)
    obtain ⟨hr, h0, _⟩ := digit_facts c hc
    simp only [syms_cons, List.cons_append]
    rw [lexNum, hr]; simp only [h0, if_false, hc, if_true]
    rw [ih _ (fun d hd' => hd d (by simp [hd']))]
    simp

theorem lexNum_int_dot_frac (il : Char → Bool) (fz : Bool) (ds1 : Str) (d : Char) (ds2 acc : Str) (k : List Sym)
    (h1 : ∀ c ∈ ds1, isDigit c = true) (hd : isDigit d = true) (h2 : ∀ c ∈ ds2, isDigit c = true)
    (hk : stopOK k = true) :
    lexNum il (.intPart fz) acc (syms (ds1 ++ '.' :: d :: ds2) ++ k) =
      floatTok (ds2.reverse ++ d :: '.' :: (ds1.reverse ++ acc)) k := by
  induction ds1 generalizing acc with
  | nil =>
    simp only [List.nil_append, syms_cons, List.cons_append, List.reverse_nil]
    have hdot : (Sym.chr '.').rune = some '.' := by decide
    rw [lexNum, hdot]; simp only
    have e0 : ('.' = '\x00') = False := by decide
    have e1 : isDigit '.' = false := by decide
    have e2 : ('.' = 'e' ∨ '.' = 'E') = False := by decide
    have e3 : ('.' = 'x' ∨ '.' = 'X') = False := by decide
    simp only [e0, e1, e2, e3, if_false, if_true, Bool.false_eq_true]
    obtain ⟨hr, _⟩ := digit_facts d hd
    simp only [lexNum, hr, hd, if_true]
    rw [lexNum_frac_digits il ds2 _ k h2 hk]
  | cons c cs ih =>
    have hc := h1 c (by simp)
    obtain ⟨hr, h0, _⟩ := digit_facts c hc
    simp only [List.cons_append, syms_cons]
    rw [lexNum, hr]; simp only [h0, if_false, hc, if_true]
    rw [ih (c :: acc) (fun x hx => h1 x (by simp [hx]))]
    simp

/-- `D+ . D+` is read back as one float token -/
theorem nextToken_simple_float (il : Char → Bool) (c : Char) (ds1 : Str) (d : Char) (ds2 : Str) (k : List Sym)
    (hc : isDigit c = true) (h1 : ∀ x ∈ ds1, isDigit x = true) (hd : isDigit d = true)
    (h2 : ∀ x ∈ ds2, isDigit x = true) (hk : stopOK k = true) :
    nextToken il (syms (c :: ds1 ++ '.' :: d :: ds2) ++ k) = .tok ⟨.float, c :: ds1 ++ '.' :: d :: ds2⟩ k false := by
  obtain ⟨q1, q2, q3, q4, q5, q6, q7, q8, q9, _⟩ := digit_facts c hc
  unfold nextToken
  simp only [List.cons_append, syms_cons]
  rw [nextTok, q1]; simp only [Bool.false_eq_true, if_false, q2, q3, q4]
  unfold startTok
  simp only [q5, q6, if_false, q7, q8, q9, hc, if_true]
  rw [lexNum_int_dot_frac il (decide (c = '0')) ds1 d ds2 [c] k h1 hd h2 hk]
  simp [floatTok]

/-! ### punctuation and blanks -/

theorem nextToken_blank (il : Char → Bool) (r : List Sym) : nextToken il (.chr ' ' :: r) = nextToken il r := by
  unfold nextToken
  rw [nextTok]
  have h : (Sym.chr ' ').rune = some ' ' := by decide
  rw [h]; simp

theorem nextToken_punct (il : Char → Bool) (c : Char) (kd : TK) (r : List Sym)
    (h : (c = '[' ∧ kd = .lbrack) ∨ (c = ']' ∧ kd = .rbrack) ∨ (c = '{' ∧ kd = .lcurly) ∨ (c = '}' ∧ kd = .rcurly) ∨
      (c = ',' ∧ kd = .comma)) :
    nextToken il (.chr c :: r) = .tok ⟨kd, [c]⟩ r false := by
  unfold nextToken
  rcases h with ⟨rfl, rfl⟩ | ⟨rfl, rfl⟩ | ⟨rfl, rfl⟩ | ⟨rfl, rfl⟩ | ⟨rfl, rfl⟩ <;>
    (rw [nextTok]; simp [Sym.rune, runeError, startTok, punctTok, mk])

theorem nextToken_rocket (il : Char → Bool) (r : List Sym) :
    nextToken il (.chr '=' :: .chr '>' :: r) = .tok ⟨.rocket, ['=', '>']⟩ r false := by
  unfold nextToken
  rw [nextTok]
  simp [Sym.rune, runeError, startTok, punctTok, eqTok, mk]

end Pcore.Syntax
