import Pcore.Proofs.DispatchBuilder
/-!
`TupleType.IsInstance3` on the tuple that `createDispatch` builds from an accepted builder state is exactly the positional
reading of the declaration.  Core Lean only.
-/
namespace Pcore.Dispatch

section
variable {T BT V B : Type} (inst : T → V → Bool) (binst : BT → B → Bool)

/-- positional reading of a parameter declaration (independent of the builder's `min`/`max` bookkeeping):
    every required parameter receives an argument; without a repeated parameter there are no surplus arguments;
    argument `j` is an instance of the type of parameter `min(j, last)` -/
def DeclAccepts (ps : List (PKind × T)) (args : List V) : Prop :=
  (∀ j p, ps[j]? = some p → p.1.required = true → j < args.length) ∧
  ((∀ p ∈ ps, p.1.repeated = false) → args.length ≤ ps.length) ∧
  (∀ j v, args[j]? = some v → ∃ p, ps[min j (ps.length - 1)]? = some p ∧ inst p.2 v = true)

/-- the block requirement of a declaration against the block the caller passes -/
def BlockSat : BlockReq BT → Option B → Prop
  | .none, blk => blk = none
  | .required bt, blk => ∃ b, blk = some b ∧ binst bt b = true
  | .optional bt, blk => blk = none ∨ ∃ b, blk = some b ∧ binst bt b = true

theorem blockOK_iff (r : BlockReq BT) (blk : Option B) : blockOK binst r blk = true ↔ BlockSat binst r blk := by
  cases r <;> cases blk <;> simp [blockOK, BlockSat]

theorem shape_get_reqrep (a : Nat) : (shapeKinds a 0 .reqrep)[a]? = some .reqrep := by
  simp [shapeKinds, Tail.kinds]

theorem map_get {α β : Type} (f : α → β) (l : List α) (j : Nat) (y : β) (h : (l.map f)[j]? = some y) :
    ∃ x, l[j]? = some x ∧ f x = y := by
  rw [List.getElem?_map] at h
  cases hx : l[j]? with
  | none => simp [hx] at h
  | some x => simp [hx] at h; exact ⟨x, rfl, h⟩

theorem decl_iff (b : Builder T BT) (ps : List (PKind × T)) (hinv : ParamInv b ps) (args : List V) :
    tupleInst inst b.types b.min b.max args = true ↔ DeclAccepts inst ps args := by
  obtain ⟨hty, a, o, tl, hk, hro, hmin, hmax⟩ := hinv
  have hlen : ps.length = a + o + tl.kinds.length := by
    have := congrArg List.length hk
    simpa [shape_length] using this
  have htl : b.types.length = ps.length := by simp [hty]
  unfold tupleInst sizeOK
  constructor
  · intro h
    simp only [Bool.and_eq_true, decide_eq_true_eq] at h
    obtain ⟨⟨hlo, hhi⟩, hloop⟩ := h
    refine ⟨?_, ?_, ?_⟩
    · intro j p hj hreq
      have hj' : (ps.map (·.1))[j]? = some p.1 := by simp [List.getElem?_map, hj]
      rw [hk] at hj'
      have := shape_required_lt hro hj' hreq
      omega
    · intro hnr
      have : tl = .none := by
        apply (shape_no_repeated (a := a) (o := o)).mp
        intro k hkm
        rw [← hk] at hkm
        obtain ⟨p, hp, rfl⟩ := List.mem_map.mp hkm
        exact hnr p hp
      subst this
      simp [hmax, tailMax, leMax] at hhi
      simp [Tail.kinds] at hlen
      omega
    · intro j v hj
      cases hb : b.types with
      | nil =>
        rw [hb] at htl
        have hps : ps.length = 0 := by simpa using htl.symm
        have : tl = .none := by
          cases tl with
          | none => rfl
          | rep => simp [Tail.kinds] at hlen; omega
          | reqrep => simp [Tail.kinds] at hlen; omega
        subst this
        simp [hmax, tailMax, leMax] at hhi
        have hn : args.length = 0 := by omega
        have : args = [] := List.length_eq_zero_iff.mp hn
        subst this
        simp at hj
      | cons t ts =>
        rw [hb] at hloop
        simp only at hloop
        obtain ⟨t', ht', hi⟩ := (instLoop_iff inst args t ts).mp hloop j v hj
        have hts : ts.length = ps.length - 1 := by rw [hb] at htl; simp at htl; omega
        rw [← hb, hty, hts] at ht'
        obtain ⟨p, hp, rfl⟩ := map_get _ _ _ _ ht'
        exact ⟨p, hp, hi⟩
  · rintro ⟨hreq, hnr, hargs⟩
    simp only [Bool.and_eq_true, decide_eq_true_eq]
    refine ⟨⟨?_, ?_⟩, ?_⟩
    · rw [hmin]
      cases tl with
      | reqrep =>
        have ho := hro rfl
        subst ho
        have h1 : (ps.map (·.1))[a]? = some .reqrep := by rw [hk]; exact shape_get_reqrep a
        obtain ⟨p, hp, hp1⟩ := map_get _ _ _ _ h1
        have := hreq a p hp (by rw [hp1]; rfl)
        simp [tailMin]; omega
      | none =>
        simp only [tailMin, Nat.add_zero]
        cases a with
        | zero => omega
        | succ a' =>
          have h1 : (ps.map (·.1))[a']? = some .req := by rw [hk]; exact shape_get_req (by omega)
          obtain ⟨p, hp, hp1⟩ := map_get _ _ _ _ h1
          have := hreq a' p hp (by rw [hp1]; rfl)
          omega
      | rep =>
        simp only [tailMin, Nat.add_zero]
        cases a with
        | zero => omega
        | succ a' =>
          have h1 : (ps.map (·.1))[a']? = some .req := by rw [hk]; exact shape_get_req (by omega)
          obtain ⟨p, hp, hp1⟩ := map_get _ _ _ _ h1
          have := hreq a' p hp (by rw [hp1]; rfl)
          omega
    · rw [hmax]
      cases tl with
      | none =>
        have : ∀ p ∈ ps, p.1.repeated = false := by
          intro p hp
          have := (shape_no_repeated (a := a) (o := o) (tl := .none)).mpr rfl p.1
            (by rw [← hk]; exact List.mem_map.mpr ⟨p, hp, rfl⟩)
          exact this
        have := hnr this
        simp [Tail.kinds] at hlen
        simp [tailMax, leMax]; omega
      | rep => simp [tailMax, leMax]
      | reqrep => simp [tailMax, leMax]
    · cases hb : b.types with
      | nil => rfl
      | cons t ts =>
        simp only
        apply (instLoop_iff inst args t ts).mpr
        intro j v hj
        obtain ⟨p, hp, hi⟩ := hargs j v hj
        have hts : ts.length = ps.length - 1 := by rw [hb] at htl; simp at htl; omega
        refine ⟨p.2, ?_, hi⟩
        rw [← hb, hty, hts, List.getElem?_map, hp]; rfl

end

end Pcore.Dispatch
