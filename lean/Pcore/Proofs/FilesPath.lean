import Pcore.Model.Files
/-!
C15, the name ↔ path round trip of `smartpath.go`: the file at the effective path of a name is indexed under exactly
that name's key (helper lemmas; the property theorem is `C15_path_name` in `Pcore/Props/C15.lean`).
-/
namespace Pcore.Files

theorem toLower_of_not (d : Char) (h : ¬(d.val ≥ 'A'.val ∧ d.val ≤ 'Z'.val)) : d.toLower = d := by
  unfold Char.toLower; rw [dif_neg h]

theorem toLower_idem (c : Char) : c.toLower.toLower = c.toLower := by
  by_cases h : c.val ≥ 'A'.val ∧ c.val ≤ 'Z'.val
  · have hv : c.toLower.val = c.val + ('a'.val - 'A'.val) := by
      unfold Char.toLower; rw [dif_pos h]
    apply toLower_of_not
    rw [hv]
    obtain ⟨h1, h3⟩ := h
    have h1' : 65 ≤ c.val.toNat := by simpa [UInt32.le_iff_toNat_le] using h1
    have h3' : c.val.toNat ≤ 90 := by simpa [UInt32.le_iff_toNat_le] using h3
    intro ⟨_, h5⟩
    have : (c.val + ('a'.val - 'A'.val)).toNat = c.val.toNat + 32 := by
      rw [UInt32.toNat_add]
      have : ('a'.val - 'A'.val).toNat = 32 := by decide
      rw [this]; omega
    have h5' : (c.val + ('a'.val - 'A'.val)).toNat ≤ 90 := by simpa [UInt32.le_iff_toNat_le] using h5
    omega
  · rw [toLower_of_not c h, toLower_of_not c h]

theorem lowerS_idem (s : String) : lowerS (lowerS s) = lowerS s := by
  unfold lowerS
  rw [String.toList_ofList, List.map_map]
  congr 1
  apply List.map_congr_left
  intro c _
  exact toLower_idem c

theorem keyOf_idem (n : Name) : keyOf (keyOf n) = keyOf n := by
  unfold keyOf
  rw [List.map_map]
  apply List.map_congr_left
  intro s _
  exact lowerS_idem s

theorem stripExt_append (ext s : String) : stripExt ext (s ++ ext) = s := by
  unfold stripExt
  rw [String.toList_append, String.length_append, Nat.add_sub_cancel, List.take_left' String.length_toList,
    String.ofList_toList]

theorem appendExt_ne_nil (ext : String) : ∀ ps : Path, ps ≠ [] → appendExt ext ps ≠ []
  | [], h => absurd rfl h
  | [s], _ => by simp [appendExt]
  | s :: t :: rest, _ => by simp [appendExt]

theorem stripLast_appendExt (ext : String) : ∀ ps : Path, stripLast ext (appendExt ext ps) = ps
  | [] => rfl
  | [s] => by simp [appendExt, stripLast, stripExt_append]
  | s :: t :: rest => by
    have ih := stripLast_appendExt ext (t :: rest)
    rw [appendExt]
    cases h : appendExt ext (t :: rest) with
    | nil => exact absurd h (appendExt_ne_nil ext _ (by simp))
    | cons a as =>
      rw [h] at ih
      cases as with
      | nil =>
        -- a one-element tail: `t :: rest` had one element
        rw [stripLast, ih]
      | cons b bs => rw [stripLast, ih]

theorem relOf_append (g x : Path) (hx : x ≠ []) : relOf g (g ++ x) = some x := by
  unfold relOf
  have h1 : g.isPrefixOf (g ++ x) = true := List.isPrefixOf_iff_prefix.mpr (List.prefix_append g x)
  have h2 : (g ++ x).length > g.length := by
    rw [List.length_append]
    have : x.length > 0 := List.length_pos_iff.mpr hx
    omega
  simp only [h1, h2, decide_true, Bool.and_self, if_true]
  rw [List.drop_left' rfl]

theorem getLast_appendExt (ext : String) : ∀ ps : Path, ps ≠ [] → ∃ s, (appendExt ext ps).getLast? = some (s ++ ext)
  | [], h => absurd rfl h
  | [s], _ => ⟨s, by simp [appendExt]⟩
  | s :: t :: rest, _ => by
    obtain ⟨x, hx⟩ := getLast_appendExt ext (t :: rest) (by simp)
    refine ⟨x, ?_⟩
    rw [appendExt]
    cases h : appendExt ext (t :: rest) with
    | nil => exact absurd h (appendExt_ne_nil ext _ (by simp))
    | cons a as =>
      rw [h] at hx
      rw [List.getLast?_cons_cons]
      exact hx

theorem hasSuffix_append (s ext : String) : hasSuffix (s ++ ext) ext = true := by
  unfold hasSuffix
  rw [String.toList_append]
  exact List.isSuffixOf_iff_suffix.mpr (List.suffix_append _ _)

/-- the reserved names of a module: `<mod>::init` and `<mod>::init_typeset` address the top-level files that are indexed
    without the module prefix -/
def Reserved (sp : SmartPath) (n : Name) : Prop :=
  sp.moduleNameRelative = true ∧ ∃ m s, keyOf n = [m, s] ∧ (s = "init" ∨ s = "init_typeset")

theorem fileKeys_of_rel (sp : SmartPath) (rel : Path) (hrel : rel ≠ []) :
    fileKeys sp (sp.generic ++ appendExt sp.extension rel) =
      [keyOf (if sp.moduleNameRelative && !isSpecial rel then sp.moduleName :: rel else rel)] := by
  unfold fileKeys
  rw [relOf_append _ _ (appendExt_ne_nil _ _ hrel)]
  obtain ⟨x, hx⟩ := getLast_appendExt sp.extension rel hrel
  simp only [hx, hasSuffix_append, if_true]
  unfold typedNames
  simp only [stripLast_appendExt]
  by_cases hc : (sp.moduleNameRelative && !isSpecial rel) = true
  · simp [hc]
  · simp [hc]

theorem fileKeys_effectivePath (sp : SmartPath) (n : Name) (p : Path) (hn : n ≠ [])
    (h : effectivePath sp n = .path p) (hr : ¬ Reserved sp n) : fileKeys sp p = [keyOf n] := by
  unfold effectivePath at h
  cases hp : partsOf n with
  | none => rw [hp] at h; cases h
  | some ps =>
    rw [hp] at h
    simp only [] at h
    have hps : ps = keyOf n := by
      unfold partsOf at hp
      by_cases hv : (keyOf n).all validPart = true
      · simp only [hv, if_true] at hp; exact (Option.some.inj hp).symm
      · simp only [hv] at hp; cases hp
    by_cases hm : sp.moduleNameRelative = true
    · rw [if_pos hm] at h
      match ps, hps, h with
      | [], _, h => cases h
      | [_], _, h => cases h
      | m :: a :: rest, hps, h =>
        simp only [] at h
        by_cases hmm : m ≠ sp.moduleName
        · rw [if_pos hmm] at h; cases h
        · rw [if_neg hmm] at h
          have hmm' : m = sp.moduleName := by
            by_cases h' : m = sp.moduleName
            · exact h'
            · exact absurd h' hmm
          have hp' : p = sp.generic ++ appendExt sp.extension (a :: rest) := by injection h with h; exact h.symm
          rw [hp']
          rw [fileKeys_of_rel sp (a :: rest) (by simp)]
          have hspecial : isSpecial (a :: rest) = false := by
            cases rest with
            | cons b r => rfl
            | nil =>
              by_cases hi : isSpecial [a] = true
              · exfalso
                apply hr
                refine ⟨hm, m, a, hps.symm, ?_⟩
                simpa [isSpecial] using hi
              · simpa using hi
          rw [hspecial, hm]
          simp only [Bool.not_false, Bool.and_self, if_true]
          rw [← hmm', hps, keyOf_idem]
    · rw [if_neg hm] at h
      have hp' : p = sp.generic ++ appendExt sp.extension ps := by injection h with h; exact h.symm
      have hne : ps ≠ [] := by
        rw [hps]; unfold keyOf
        intro h'; exact hn (List.map_eq_nil_iff.mp h')
      rw [hp', fileKeys_of_rel sp ps hne]
      have : sp.moduleNameRelative = false := by simpa using hm
      rw [this]
      simp only [Bool.false_and]
      rw [hps]
      simp [keyOf_idem]

end Pcore.Files
