import Pcore.Model.LoaderKey
import Pcore.Proofs.LoaderSeq
/-! `Child()` / `Parent()` BEFORE fix 50062c5 cut the cached key of the derived name out of the receiver's key at byte
    offsets measured on the unfolded strings.  The pre-fix definitions, and the proof that they were right exactly when
    lower-casing keeps the UTF-8 length of every letter involved (C12_key_derived_lenstable_before_fix). -/
namespace Pcore.LoaderSeq

/-- `child(stripCount)` before the fix -/
def TN.childNBeforeFix (t : TN) (k : Nat) : Derived :=
  match stripN k t.name with
  | none => .nil
  | some name' =>
    let pfxLen := blen t.auth + blen t.ns + 2
    let diff := blen t.name - blen name'
    let parts' := t.parts.map (·.drop k)
    if t.canonical = [] then .ok { ns := t.ns, auth := t.auth, name := name', canonical := [], parts := parts' }
    else if pfxLen + diff ≤ t.canonical.length then
      .ok { ns := t.ns, auth := t.auth, name := name',
            canonical := t.canonical.take pfxLen ++ t.canonical.drop (pfxLen + diff), parts := parts' }
    else .fault

def TN.childBeforeFix (t : TN) : Derived := if t.isQualified then t.childNBeforeFix 1 else .nil

/-- `Parent()` before the fix -/
def TN.parentBeforeFix (t : TN) : Derived :=
  match lastIndexColons t.name with
  | none => .nil
  | some i =>
    let name' := t.name.take i
    let lx := blen name'
    let pfxLen := blen t.auth + blen t.ns + 2
    let parts' := t.parts.map (·.dropLast)
    if t.canonical = [] then .ok { ns := t.ns, auth := t.auth, name := name', canonical := [], parts := parts' }
    else if pfxLen + lx ≤ t.canonical.length then
      .ok { ns := t.ns, auth := t.auth, name := name', canonical := t.canonical.take (pfxLen + lx), parts := parts' }
    else .fault

theorem enc_append (a b : List Char) : enc (a ++ b) = enc a ++ enc b := by simp [enc]

theorem enc_cons (c : Char) (r : List Char) : enc (c :: r) = encChar c ++ enc r := by simp [enc]

theorem lowerL_append (a b : List Char) : lowerL (a ++ b) = lowerL a ++ lowerL b := by simp [lowerL]

theorem lowerL_cons (c : Char) (r : List Char) : lowerL (c :: r) = lowerChar c :: lowerL r := rfl

/-- lower-casing keeps the UTF-8 length of every letter of the string -/
def LenStable (cs : List Char) : Prop := ∀ c ∈ cs, (encChar (lowerChar c)).length = (encChar c).length

instance (cs : List Char) : Decidable (LenStable cs) := by unfold LenStable; infer_instance

theorem LenStable.append_left {a b : List Char} (h : LenStable (a ++ b)) : LenStable a :=
  fun c hc => h c (List.mem_append_left _ hc)

theorem LenStable.append_right {a b : List Char} (h : LenStable (a ++ b)) : LenStable b :=
  fun c hc => h c (List.mem_append_right _ hc)

theorem blen_lowerL (cs : List Char) (h : LenStable cs) : (enc (lowerL cs)).length = blen cs := by
  induction cs with
  | nil => rfl
  | cons c r ih =>
    have hr : LenStable r := fun x hx => h x (List.mem_cons_of_mem _ hx)
    simp only [lowerL_cons, enc_cons, blen, List.length_append, h c (by simp)]
    have := ih hr
    simp only [blen] at this
    rw [this]

theorem blen_append (a b : List Char) : blen (a ++ b) = blen a + blen b := by
  simp [blen, enc_append]

theorem lowerChar_slash : lowerChar '/' = '/' := by decide
theorem encChar_slash : encChar '/' = [47] := by decide

/-- the key computed from the three strings, in pieces -/
theorem freshKey_eq (ns auth name : List Char) (cn : List UInt8) (ps : Option (List (List Char))) :
    TN.freshKey { ns := ns, auth := auth, name := name, canonical := cn, parts := ps } =
      enc (lowerL auth) ++ 47 :: enc (lowerL ns) ++ 47 :: enc (lowerL name) := by
  simp only [TN.freshKey, lowerL_append, lowerL_cons, enc_append, enc_cons, lowerChar_slash, encChar_slash,
    List.cons_append, List.nil_append, List.append_assoc]

/-- what `child` strips is a prefix of the name -/
theorem stripN_suffix (k : Nat) (cs name' : List Char) (h : stripN k cs = some name') : ∃ p, cs = p ++ name' := by
  induction k generalizing cs with
  | zero => simp only [stripN, Option.some.injEq] at h; exact ⟨[], by simp [h]⟩
  | succ k ih =>
    simp only [stripN] at h
    cases hi : indexColons cs with
    | none => rw [hi] at h; cases h
    | some i =>
      rw [hi] at h
      obtain ⟨p, hp⟩ := ih _ h
      refine ⟨cs.take (i + 2) ++ p, ?_⟩
      rw [List.append_assoc, ← hp, List.take_append_drop]

theorem take_prefix_len {α : Type} (x y : List α) (n : Nat) (h : n = x.length) : (x ++ y).take n = x := by
  subst h; simp

theorem drop_prefix_len {α : Type} (x y : List α) (n : Nat) (h : n = x.length) : (x ++ y).drop n = y := by
  subst h; simp

/-- the sliced key is the fresh key: `child` -/
theorem childN_key (t : TN) (k : Nat) (t' : TN) (hkey : t.canonical = t.freshKey)
    (hs : LenStable (t.auth ++ t.ns ++ t.name)) (h : t.childNBeforeFix k = .ok t') : t'.canonical = [] ∨ t'.canonical = t'.freshKey := by
  obtain ⟨ns, auth, name, cn, ps⟩ := t
  simp only at hkey hs
  unfold TN.childNBeforeFix at h
  simp only at h
  cases hst : stripN k name with
  | none => rw [hst] at h; cases h
  | some name' =>
    rw [hst] at h
    simp only at h
    obtain ⟨p, hp⟩ := stripN_suffix k name name' hst
    by_cases hc : cn = []
    · simp only [hc, if_true, Derived.ok.injEq] at h
      left; rw [← h]
    · right
      simp only [hc, if_false] at h
      have hsa : LenStable auth := hs.append_left.append_left
      have hsn : LenStable ns := hs.append_left.append_right
      have hsm : LenStable name := hs.append_right
      have hsp : LenStable p := by rw [hp] at hsm; exact hsm.append_left
      have hcn : cn = (enc (lowerL auth) ++ 47 :: enc (lowerL ns) ++ [47] ++ enc (lowerL p)) ++ enc (lowerL name') := by
        rw [hkey, freshKey_eq, hp, lowerL_append, enc_append]
        simp only [List.append_assoc, List.cons_append, List.nil_append]
      have hlen1 : blen auth + blen ns + 2 = (enc (lowerL auth) ++ 47 :: enc (lowerL ns) ++ [47]).length := by
        simp only [List.length_append, List.length_cons, List.length_nil, blen_lowerL auth hsa, blen_lowerL ns hsn]
        omega
      have hdiff : blen name - blen name' = (enc (lowerL p)).length := by
        rw [blen_lowerL p hsp, hp, blen_append]; omega
      have hlen2 : blen auth + blen ns + 2 + (blen name - blen name') =
          (enc (lowerL auth) ++ 47 :: enc (lowerL ns) ++ [47] ++ enc (lowerL p)).length := by
        rw [hdiff, hlen1]; simp only [List.length_append]
      split at h
      · simp only [Derived.ok.injEq] at h
        rw [← h, freshKey_eq]
        simp only
        have htake : cn.take (blen auth + blen ns + 2) = enc (lowerL auth) ++ 47 :: enc (lowerL ns) ++ [47] := by
          rw [hcn, List.append_assoc]
          exact take_prefix_len _ _ _ hlen1
        have hdrop : cn.drop (blen auth + blen ns + 2 + (blen name - blen name')) = enc (lowerL name') := by
          rw [hcn]
          exact drop_prefix_len _ _ _ hlen2
        rw [htake, hdrop]
        simp only [List.append_assoc, List.cons_append, List.nil_append]
      · cases h

/-- the sliced key is the fresh key: `Parent()` -/
theorem parent_key (t t' : TN) (hkey : t.canonical = t.freshKey) (hs : LenStable (t.auth ++ t.ns ++ t.name))
    (h : t.parentBeforeFix = .ok t') : t'.canonical = [] ∨ t'.canonical = t'.freshKey := by
  obtain ⟨ns, auth, name, cn, ps⟩ := t
  simp only at hkey hs
  unfold TN.parentBeforeFix at h
  simp only at h
  cases hli : lastIndexColons name with
  | none => rw [hli] at h; cases h
  | some i =>
    rw [hli] at h
    simp only at h
    by_cases hc : cn = []
    · simp only [hc, if_true, Derived.ok.injEq] at h
      left; rw [← h]
    · right
      simp only [hc, if_false] at h
      have hsa : LenStable auth := hs.append_left.append_left
      have hsn : LenStable ns := hs.append_left.append_right
      have hsm : LenStable name := hs.append_right
      have hname : name = name.take i ++ name.drop i := (List.take_append_drop i name).symm
      have hsp : LenStable (name.take i) := by rw [hname] at hsm; exact hsm.append_left
      have hcn : cn = (enc (lowerL auth) ++ 47 :: enc (lowerL ns) ++ [47] ++ enc (lowerL (name.take i))) ++
          enc (lowerL (name.drop i)) := by
        rw [hkey, freshKey_eq]
        conv => lhs; rw [hname]
        rw [lowerL_append, enc_append]
        simp only [List.append_assoc, List.cons_append, List.nil_append]
      have hlen : blen auth + blen ns + 2 + blen (name.take i) =
          (enc (lowerL auth) ++ 47 :: enc (lowerL ns) ++ [47] ++ enc (lowerL (name.take i))).length := by
        simp only [List.length_append, List.length_cons, List.length_nil, blen_lowerL auth hsa, blen_lowerL ns hsn,
          blen_lowerL _ hsp]
        omega
      split at h
      · simp only [Derived.ok.injEq] at h
        rw [← h, freshKey_eq]
        simp only
        rw [hcn, take_prefix_len _ _ _ hlen]
        simp only [List.append_assoc, List.cons_append, List.nil_append]
      · cases h

/-- with a right key and length-stable strings the slices are in range: no fault -/
theorem childN_no_fault (t : TN) (k : Nat) (hkey : t.canonical = [] ∨ t.canonical = t.freshKey)
    (hs : LenStable (t.auth ++ t.ns ++ t.name)) : t.childNBeforeFix k ≠ .fault := by
  obtain ⟨ns, auth, name, cn, ps⟩ := t
  simp only at hkey hs
  unfold TN.childNBeforeFix
  simp only
  cases hst : stripN k name with
  | none => simp
  | some name' =>
    simp only
    obtain ⟨p, hp⟩ := stripN_suffix k name name' hst
    by_cases hc : cn = []
    · simp [hc]
    · simp only [hc, if_false]
      rcases hkey with hkey | hkey
      · exact absurd hkey hc
      · have hsa : LenStable auth := hs.append_left.append_left
        have hsn : LenStable ns := hs.append_left.append_right
        have hsm : LenStable name := hs.append_right
        have hlen : cn.length = blen auth + blen ns + 2 + blen name := by
          rw [hkey, freshKey_eq]
          simp only [List.length_append, List.length_cons, blen_lowerL auth hsa, blen_lowerL ns hsn, blen_lowerL name hsm]
          omega
        have : blen name' ≤ blen name := by rw [hp, blen_append]; omega
        have hle : blen auth + blen ns + 2 + (blen name - blen name') ≤ cn.length := by rw [hlen]; omega
        simp [hle]

theorem parent_no_fault (t : TN) (hkey : t.canonical = [] ∨ t.canonical = t.freshKey)
    (hs : LenStable (t.auth ++ t.ns ++ t.name)) : t.parentBeforeFix ≠ .fault := by
  obtain ⟨ns, auth, name, cn, ps⟩ := t
  simp only at hkey hs
  unfold TN.parentBeforeFix
  simp only
  cases hli : lastIndexColons name with
  | none => simp
  | some i =>
    simp only
    by_cases hc : cn = []
    · simp [hc]
    · simp only [hc, if_false]
      rcases hkey with hkey | hkey
      · exact absurd hkey hc
      · have hsa : LenStable auth := hs.append_left.append_left
        have hsn : LenStable ns := hs.append_left.append_right
        have hsm : LenStable name := hs.append_right
        have hlen : cn.length = blen auth + blen ns + 2 + blen name := by
          rw [hkey, freshKey_eq]
          simp only [List.length_append, List.length_cons, blen_lowerL auth hsa, blen_lowerL ns hsn, blen_lowerL name hsm]
          omega
        have : blen (name.take i) ≤ blen name := by
          conv => rhs; rw [← List.take_append_drop i name]
          rw [blen_append]; omega
        have hle : blen auth + blen ns + 2 + blen (name.take i) ≤ cn.length := by rw [hlen]; omega
        simp [hle]

/-- ASCII letters keep their length: one byte before and after -/
theorem lenStable_ascii (cs : List Char) (h : ∀ c ∈ cs, c.toNat < 128) : LenStable cs := by
  intro c hc
  have hlt := h c hc
  have h1 : (encChar c).length = 1 := by unfold encChar; simp [hlt]
  have h2 : (lowerChar c).toNat < 128 := by
    unfold lowerChar Pcore.UnicodeCase.toLower
    have hle : c.toNat ≤ 127 := by omega
    simp only [hle, if_true]
    split
    · rename_i hu
      have hA : 'A'.toNat = 65 := rfl
      have hZ : 'Z'.toNat = 90 := rfl
      rw [hA, hZ] at hu
      have hv : (c.toNat + 32).isValidChar := by left; omega
      rw [Pcore.UnicodeCase.toNat_ofNat_valid _ hv]; omega
    · exact hlt
  have h3 : (encChar (lowerChar c)).length = 1 := by unfold encChar; simp [h2]
  rw [h1, h3]

end Pcore.LoaderSeq
