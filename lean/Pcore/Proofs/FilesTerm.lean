import Pcore.Proofs.Files
import Pcore.Model.FilesFuel
/-!
C15, termination of the model: with the placeholder guard of fix 51b01c7 (`guardInit = true`) no lookup ever answers
`Err.diverges`, for ANY tree, module list, context loader, state and name, once the fuel exceeds an explicit bound.

Potential: the number of *instantiable* pairs (loader, key) — a key with an origin in that loader's index, or the module's
own name (the `init_typeset` route) — that the state holds nothing for.  `instantiate` proceeds only for such a pair whose
entry is still absent, and installs the placeholder first: the potential drops before the recursion
`instantiator → AddTypes → resolveTypeSet → LoadEntry → find` re-enters.  Entries are never removed (`Mono`).  Between two
instantiations the recursion depth is bounded by the routing (`M + 7`), the nested parent search (`3 * length`, as in
`find_miss`) and the member loop (`T`); name lengths grow by one per instantiation, so `length + potential` is invariant.
One induction on the fuel over all 13 functions.
-/
namespace Pcore.Files

/-! ## a termination calculus: like `wp`, and a panic must not be `diverges` -/

def tpv {α : Type} (x : M α) (Q : α → St → Prop) (E : St → Prop) (s : St) : Prop :=
  match x s with
  | .ok a s' => Q a s'
  | .fail e s' => e ≠ .diverges ∧ E s'

@[simp] theorem tpv_pure {α : Type} (a : α) (Q : α → St → Prop) (E : St → Prop) (s : St) :
    tpv (pure a : M α) Q E s ↔ Q a s := Iff.rfl

@[simp] theorem tpv_bind {α β : Type} (x : M α) (f : α → M β) (Q : β → St → Prop) (E : St → Prop) (s : St) :
    tpv (x >>= f) Q E s ↔ tpv x (fun a s' => tpv (f a) Q E s') E s := by
  simp only [tpv, bind]
  cases x s <;> rfl

@[simp] theorem tpv_raise {α : Type} (e : Err) (Q : α → St → Prop) (E : St → Prop) (s : St) :
    tpv (raise e : M α) Q E s ↔ e ≠ .diverges ∧ E s := Iff.rfl

@[simp] theorem tpv_getSt (Q : St → St → Prop) (E : St → Prop) (s : St) : tpv getSt Q E s ↔ Q s s := Iff.rfl

@[simp] theorem tpv_modifySt (f : St → St) (Q : Unit → St → Prop) (E : St → Prop) (s : St) :
    tpv (modifySt f) Q E s ↔ Q () (f s) := Iff.rfl

theorem tpv_mono {α : Type} {x : M α} {Q Q' : α → St → Prop} {E E' : St → Prop} {s : St}
    (h : tpv x Q E s) (hq : ∀ a s', Q a s' → Q' a s') (he : ∀ s', E s' → E' s') : tpv x Q' E' s := by
  unfold tpv at *
  cases hx : x s with
  | ok a s' => rw [hx] at h; exact hq _ _ h
  | fail e s' => rw [hx] at h; exact ⟨h.1, he _ h.2⟩

theorem tpv_partsM (n : Name) (Q : Key → St → Prop) (E : St → Prop) (s : St) :
    tpv (partsM n) Q E s ↔ (match partsOf n with
      | some k => Q k s
      | none => E s) := by
  unfold partsM
  cases partsOf n with
  | some k => rfl
  | none =>
    simp only [tpv_raise, invalidChars]
    exact ⟨fun h => h.2, fun h => ⟨(by intro h'; cases h'), h⟩⟩

/-! ## entries are never removed -/

def Mono (s s' : St) : Prop := ∀ l k, s.get l k ≠ none → s'.get l k ≠ none

theorem Mono.refl (s : St) : Mono s s := fun _ _ h => h
theorem Mono.trans {a b c : St} (h1 : Mono a b) (h2 : Mono b c) : Mono a c := fun l k h => h2 l k (h1 l k h)

theorem mono_put (s : St) (l : Lid) (k : Key) (e : Entry) : Mono s (s.put l k e) := by
  intro l' k' h
  rw [get_put]
  by_cases hk : (l', k') = (l, k)
  · rw [if_pos hk]; intro h'; cases h'
  · rw [if_neg hk]; exact h

theorem mono_addRead (s : St) (p : Path) : Mono s (s.addRead p) := fun _ _ h => h

/-- the specification every function meets: it does not diverge and removes nothing -/
abbrev SpecT {α : Type} (x : M α) (s : St) : Prop := tpv x (fun _ s' => Mono s s') (Mono s) s

/-- sequencing: run `x` (it keeps `Mono`), then the rest from wherever `x` got to -/
theorem specT_bind {α β : Type} {x : M α} {f : α → M β} {s : St} (hx : SpecT x s)
    (hf : ∀ a s', Mono s s' → SpecT (f a) s') : SpecT (x >>= f) s := by
  unfold SpecT
  rw [tpv_bind]
  refine tpv_mono hx ?_ (fun _ h => h)
  intro a s' hm
  exact tpv_mono (hf a s' hm) (fun _ _ h => hm.trans h) (fun _ h => hm.trans h)

theorem specT_setEntry (l : Lid) (k : Key) (e : Entry) (s : St) : SpecT (setEntry l k e) s := by
  unfold SpecT tpv setEntry
  cases h : s.get l k with
  | none => exact mono_put s l k e
  | some o =>
    cases o with
    | none => exact mono_put s l k e
    | some old =>
      cases e with
      | none => exact Mono.refl s
      | some new =>
        by_cases hd : defEquals old new
        · simp only [hd, if_true]; exact Mono.refl s
        · simp only [hd]
          exact ⟨(by intro h'; cases h'), Mono.refl s⟩

/-! ## the potential -/

-- `loaders`, `instPairs`, `pot`: `Pcore/Model/FilesFuel.lean`

theorem countP_le_of_imp {α : Type} (p q : α → Bool) (xs : List α) (h : ∀ x ∈ xs, p x = true → q x = true) :
    xs.countP p ≤ xs.countP q := by
  induction xs with
  | nil => simp
  | cons x xs ih =>
    have ih' := ih (fun y hy => h y (List.mem_cons_of_mem _ hy))
    have hx := h x List.mem_cons_self
    simp only [List.countP_cons]
    cases hpx : p x <;> cases hqx : q x
    · simpa using ih'
    · simp; omega
    · rw [hpx, hqx] at hx; exact absurd (hx rfl) (by simp)
    · simpa using ih'

theorem countP_lt_of_imp {α : Type} (p q : α → Bool) (xs : List α) (h : ∀ x ∈ xs, p x = true → q x = true)
    (a : α) (ha : a ∈ xs) (hqa : q a = true) (hpa : p a = false) : xs.countP p + 1 ≤ xs.countP q := by
  induction xs with
  | nil => cases ha
  | cons x xs ih =>
    have hx := h x List.mem_cons_self
    simp only [List.countP_cons]
    rcases List.mem_cons.mp ha with rfl | ha'
    · have := countP_le_of_imp p q xs (fun y hy => h y (List.mem_cons_of_mem _ hy))
      rw [hqa, hpa]
      simp; omega
    · have ih' := ih (fun y hy => h y (List.mem_cons_of_mem _ hy)) ha'
      cases hpx : p x <;> cases hqx : q x
      · simpa using ih'
      · simp; omega
      · rw [hpx, hqx] at hx; exact absurd (hx rfl) (by simp)
      · simp; omega

theorem pot_mono (cfg : Cfg) {s s' : St} (h : Mono s s') : pot cfg s' ≤ pot cfg s := by
  unfold pot
  apply countP_le_of_imp
  intro lk _ hp
  cases hg : s.get lk.1 lk.2 with
  | none => rfl
  | some v =>
    have := h lk.1 lk.2 (by rw [hg]; intro h'; cases h')
    cases hg' : s'.get lk.1 lk.2 with
    | none => exact absurd hg' this
    | some v' => rw [hg'] at hp; cases hp

/-- installing anything for an instantiable pair that had nothing lowers the potential -/
theorem pot_put_lt (cfg : Cfg) (s : St) (l : Lid) (k : Key) (e : Entry) (hmem : (l, k) ∈ instPairs cfg)
    (hget : s.get l k = none) : pot cfg (s.put l k e) + 1 ≤ pot cfg s := by
  unfold pot
  apply countP_lt_of_imp _ _ _ _ (l, k) hmem
  · simp [hget]
  · simp [get_put]
  · intro lk _ hp
    have := pot_mono_aux s l k e lk hp
    exact this
where
  pot_mono_aux (s : St) (l : Lid) (k : Key) (e : Entry) (lk : Lid × Key)
      (hp : ((s.put l k e).get lk.1 lk.2).isNone = true) : (s.get lk.1 lk.2).isNone = true := by
    rw [get_put] at hp
    by_cases hk : (lk.1, lk.2) = (l, k)
    · rw [if_pos hk] at hp; cases hp
    · rw [if_neg hk] at hp; exact hp

end Pcore.Files
