import Pcore.Proofs.LatSound
set_option linter.unusedSimpArgs false
set_option linter.unusedVariables false
/-! C01: the two built-in recursive aliases Data and RichData, as receivers and on the right-hand side. -/
namespace Pcore.Lat
variable (cfg : Cfg) (sfh : Bool)

theorem frag_leaf (t : Ty) (h : match t with
    | .undef | .dflt | .numeric | .str | .bin | .int _ | .float _ _ | .bool _ | .tspan _ | .tstamp _ | .strSz _ | .strVal _ | .enum _ _
    | .pattern _ | .regexp _ | .runtime _ _ _ | .object _ | .scalar | .scalarData | .any | .coll _ | .data | .richData => True
    | _ => False) : t.Frag sfh := by
  cases t <;> simp only [] at h <;> (first | contradiction | (unfold Ty.Frag; trivial))

theorem wfl (t : Ty) (h : match t with
    | .undef | .dflt | .numeric | .str | .bin | .int _ | .float _ _ | .bool _ | .tspan _ | .tstamp _ | .strSz _ | .strVal _
    | .pattern _ | .regexp _ | .runtime _ _ _ | .object _ | .scalar | .scalarData | .any | .coll _ | .data | .richData => True
    | _ => False) : Ty.WF cfg t := by
  cases t <;> simp only [] at h <;> (first | contradiction | (unfold Ty.WF; trivial))

theorem usl (t : Ty) (h : match t with
    | .undef | .dflt | .numeric | .str | .bin | .int _ | .float _ _ | .bool _ | .tspan _ | .tstamp _ | .strSz _ | .strVal _ | .enum _ _
    | .pattern _ | .regexp _ | .runtime _ _ _ | .object _ | .scalar | .scalarData | .any | .coll _ | .data | .richData => True
    | _ => False) : t.US := by
  cases t <;> simp only [] at h <;> (first | contradiction | (unfold Ty.US; trivial))

theorem inst_sdata_data {v : Val} (h : inst cfg sfh .scalarData v = true) : instData v = true := by
  unfold inst at h; cases v <;> simp at h <;> simp [instData]

theorem instData_rich : ∀ (n : Nat) (v : Val), v.w ≤ n → instData v = true → instRich v = true := by
  intro n
  induction n with
  | zero => intro v h; have : 0 < v.w := by cases v <;> simp [Val.w] <;> omega
            omega
  | succ n ih =>
    intro v hw h
    cases v with
    | array vs =>
      simp only [instData, instDataL_iff] at h
      simp only [instRich, instRichL_iff]
      simp only [Val.w] at hw
      exact fun x hx => ih x (by have := Val.w_lt_wl hx; omega) (h x hx)
    | hash es =>
      simp only [instData, instDataE_iff] at h
      simp only [instRich, instRichE_iff]
      simp only [Val.w] at hw
      intro e he
      refine ⟨?_, ih e.2 (by have := Val.w_lt_we he; omega) (h e he).2⟩
      have := (h e he).1
      cases hk : e.1 <;> simp [hk, isStrKey] at this <;> simp [isRichKey]
    | _ => simp [instData] at h <;> simp [instRich, isScalarVal]

theorem pos_contains_len (n : Nat) (h : (n : Int) ≤ I64.max) (r : Rng) (hr : r.sub Rng.pos = true) : r.contains n = true := by
  have h12 : r.lo ≤ 0 ∧ I64.max ≤ r.hi := by
    simp only [Rng.sub, Rng.pos, Bool.and_eq_true] at hr; exact ⟨of_decide_eq_true hr.1, of_decide_eq_true hr.2⟩
  simp only [Rng.contains, Bool.and_eq_true, decide_eq_true_eq]
  omega

/-- the Array / Tuple / Hash / Struct arms shared by the two alias receivers: `al` accepts the element / value types, hence every
    element / value satisfies `P` (= `inst al`), keys satisfy `K` -/
theorem alias_arms (n : Nat) (ih : Sound cfg sfh n) (al : Ty) (kt : Ty) (hal : al = .data ∨ al = .richData)
    (hkt : kt = .str ∨ kt = .variant [.str, .numeric])
    (b : Ty) (v : Val) (hw : al.w + b.w ≤ n + 1) (hkw : kt.w ≤ al.w)
    (fb : b.Frag sfh) (wb : Ty.WF cfg b) (us : b.US) (ok : v.OK) (tv : Val.TyOKS cfg sfh v)
    (h : (match b with
       | .array e' r' => Rng.pos.sub r' && (decide (r'.hi ≤ 0) || asg cfg sfh al e')
       | .tuple ts' g' => Rng.pos.sub (tupleSize ts' g') &&
           (if (tupleSize ts' g').hi ≤ 0 then true else if ts'.isEmpty then asg cfg sfh al .any else tupZip cfg sfh [al] ts' (tupleSize ts' g').hi)
       | .hash k' v' r' => Rng.pos.sub r' && (decide (r'.hi ≤ 0) || (asg cfg sfh kt k' && asg cfg sfh al v'))
       | .struct ms' => Rng.pos.sub (structSize ms') && (ms'.all fun m => asg cfg sfh al m.2.2)
       | _ => false) = true)
    (hi : inst cfg sfh b v = true) :
    (∃ vs, v = .array vs ∧ ∀ x ∈ vs, inst cfg sfh al x = true) ∨
    (∃ es, v = .hash es ∧ ∀ e ∈ es, (inst cfg sfh kt e.1 = true ∨ ∃ s, e.1 = .str s) ∧ inst cfg sfh al e.2 = true) := by
  have fal : al.Frag sfh := by rcases hal with rfl | rfl <;> (unfold Ty.Frag; trivial)
  have wal : Ty.WF cfg al := by rcases hal with rfl | rfl <;> (unfold Ty.WF; trivial)
  have fkt : kt.Frag sfh := by rcases hkt with rfl | rfl <;> simp [Ty.Frag]
  have wkt : Ty.WF cfg kt := by rcases hkt with rfl | rfl <;> simp [Ty.WF]
  cases b <;> simp only [] at h <;> (first | contradiction | skip)
  · -- array
    rename_i e' r'
    unfold Ty.Frag at fb; unfold Ty.WF at wb; unfold Ty.US at us
    simp only [Ty.w] at hw
    rw [Bool.and_eq_true] at h
    unfold inst at hi
    cases v <;> simp only [] at hi <;> (first | contradiction | skip)
    rename_i vs
    simp only [Bool.and_eq_true, Bool.or_eq_true] at hi
    left; refine ⟨vs, rfl, fun x hx => ?_⟩
    have hnone : r'.hi ≤ 0 → False := by
      intro hz
      have : vs.length = 0 := length_zero_of_contains hi.1 hz
      have : vs = [] := List.length_eq_zero_iff.1 this
      subst this; cases hx
    have us' : e'.US := us.resolve_left hnone
    have hx' : inst cfg sfh e' x = true := by
      rcases hi.2 with h2 | h2
      · exact inst_of_isAny cfg sfh h2 x
      · exact (instAll_iff cfg sfh e' vs).1 h2 x hx
    have hee : asg cfg sfh al e' = true := by
      have := h.2; simp only [Bool.or_eq_true, decide_eq_true_eq] at this
      exact this.resolve_left hnone
    exact ih al e' x (by omega) ⟨fal, fb, wal, wb, us', ok.elems x hx, tv.elems x hx⟩ hee hx'
  · -- hash
    rename_i k' v' r'
    unfold Ty.Frag at fb; unfold Ty.WF at wb; unfold Ty.US at us
    simp only [Ty.w] at hw
    rw [Bool.and_eq_true] at h
    unfold inst at hi
    cases v <;> simp only [] at hi <;> (first | contradiction | skip)
    rename_i es
    simp only [Bool.and_eq_true] at hi
    right; refine ⟨es, rfl, fun e he => ?_⟩
    have hnone : r'.hi ≤ 0 → False := by
      intro hz
      have : es.length = 0 := length_zero_of_contains hi.1 hz
      have : es = [] := List.length_eq_zero_iff.1 this
      subst this; cases he
    have us' := us.resolve_left hnone
    have h2 := (instEntries_iff cfg sfh k' v' es).1 hi.2 e he
    have hkv : asg cfg sfh kt k' = true ∧ asg cfg sfh al v' = true := by
      have := h.2; simp only [Bool.or_eq_true, decide_eq_true_eq, Bool.and_eq_true] at this
      exact this.resolve_left hnone
    exact ⟨Or.inl (ih kt k' e.1 (by omega) ⟨fkt, fb.1, wkt, wb.1, us'.1, ok.keys e he, tv.keys e he⟩ hkv.1 h2.1),
           ih al v' e.2 (by omega) ⟨fal, fb.2, wal, wb.2, us'.2, ok.vals e he, tv.vals e he⟩ hkv.2 h2.2⟩
  · -- tuple
    rename_i ts' g'
    unfold Ty.Frag at fb; unfold Ty.WF at wb; unfold Ty.US at us
    simp only [Ty.w] at hw
    rw [Bool.and_eq_true] at h
    unfold inst at hi
    cases v <;> simp only [] at hi <;> (first | contradiction | skip)
    rename_i vs
    simp only [Bool.and_eq_true, Bool.or_eq_true] at hi
    left; refine ⟨vs, rfl, fun x hx => ?_⟩
    have hnone : (tupleSize ts' g').hi ≤ 0 → False := by
      intro hz
      have : vs.length = 0 := length_zero_of_contains hi.1 hz
      have : vs = [] := List.length_eq_zero_iff.1 this
      subst this; cases hx
    have us' : ∀ t', t' ∈ ts' → t'.US := us.resolve_left hnone
    have h2 := h.2
    rw [if_neg hnone] at h2
    by_cases hts : ts' = []
    · subst hts
      simp only [List.isEmpty_nil, if_true] at h2
      exact ih al .any x (by simp [Ty.w]; omega) ⟨fal, by unfold Ty.Frag; trivial, wal, by unfold Ty.WF; trivial, by unfold Ty.US; trivial, ok.elems x hx, tv.elems x hx⟩ h2 (by unfold inst; rfl)
    · have hne : ¬ (ts'.isEmpty = true) := by simp [List.isEmpty_iff, hts]
      rw [if_neg hne] at h2
      have hall := (tupZipL_iff cfg sfh al ts' _ hts).1 h2
      have hzip : instZip cfg sfh ts' vs = true := by
        rcases hi.2 with h3 | h3
        · exact absurd h3 hne
        · exact h3
      rw [instZip_iff cfg sfh ts' vs hts] at hzip
      obtain ⟨i, hlt, hget⟩ := List.getElem_of_mem hx
      have hlen : min i (ts'.length - 1) < ts'.length := by
        have : 0 < ts'.length := List.length_pos_iff.2 hts
        omega
      have ht := List.getElem?_eq_getElem hlen
      have hm : ts'[min i (ts'.length - 1)] ∈ ts' := List.getElem_mem hlen
      have hix := hzip i _ x ht (by rw [List.getElem?_eq_getElem hlt, hget])
      have hreach : ((min i (ts'.length - 1) : Nat) : Int) < (tupleSize ts' g').hi := by
        have := hi.1; simp [Rng.contains] at this; omega
      exact ih al _ x (by have := Ty.w_lt_wl hm; omega) ⟨fal, fb _ hm, wal, wb _ hm, us' _ hm, ok.elems x hx, tv.elems x hx⟩ (hall _ _ hreach ht) hix
  · -- struct
    rename_i ms'
    unfold Ty.Frag at fb; unfold Ty.WF at wb; unfold Ty.US at us
    simp only [Ty.w] at hw
    rw [Bool.and_eq_true] at h
    unfold inst at hi
    cases v <;> simp only [] at hi <;> (first | contradiction | skip)
    rename_i es
    simp only [beq_iff_eq] at hi
    right; refine ⟨es, rfl, fun e he => ?_⟩
    obtain ⟨hdecl, _⟩ := (instStruct_den cfg sfh ms' es ok.nodup wb.1).1 hi
    obtain ⟨m, hm, hk, hmi⟩ := hdecl e he
    have hall := h.2
    simp only [List.all_eq_true] at hall
    exact ⟨Or.inr ⟨m.1, hk⟩,
      ih al m.2.2 e.2 (by have := Ty.w_lt_wm hm; omega) ⟨fal, fb.2 m hm, wal, wb.2 m hm, us m hm, ok.vals e he, tv.vals e he⟩ (hall m hm) hmi⟩

theorem asgMembersRichKey_iff (sfh : Bool) (ms : List Member) :
    asgMembersRichKey cfg sfh ms = true ↔ ∀ m ∈ ms, asg cfg sfh .richData m.2.2 = true := by
  induction ms with
  | nil => unfold asgMembersRichKey; simp
  | cons m ms ih => obtain ⟨n, o, t⟩ := m; unfold asgMembersRichKey; simp [ih]

theorem inst_str_key {v : Val} (h : inst cfg sfh .str v = true) : isStrKey v = true := by
  unfold inst at h; cases v <;> simp at h; rfl

theorem recv_data (n : Nat) (ih : Sound cfg sfh n) (b : Ty) (v : Val)
    (hw : Ty.data.w + b.w ≤ n + 1) (H : Hyp cfg sfh .data b v)
    (h : asgRecv cfg sfh .data b = true) (hi : inst cfg sfh b v = true) : inst cfg sfh .data v = true := by
  unfold asgRecv at h
  unfold inst
  simp only [Bool.or_eq_true] at h
  have hw' : b.w + 5 ≤ n + 1 := by simp only [Ty.w] at hw; omega
  rcases h with (h | h) | h
  · exact inst_sdata_data cfg sfh (ih .scalarData b v (by simp [Ty.w]; omega) ⟨frag_leaf sfh _ trivial, H.fb, wfl cfg _ trivial, H.wb, H.us, H.ok, H.tv⟩ h hi)
  · have := ih .undef b v (by simp [Ty.w]; omega) ⟨frag_leaf sfh _ trivial, H.fb, wfl cfg _ trivial, H.wb, H.us, H.ok, H.tv⟩ h hi
    rw [inst_undef_eq cfg sfh this]; rfl
  · have harms := alias_arms cfg sfh n ih .data .str (Or.inl rfl) (Or.inl rfl) b v hw (by simp [Ty.w]) H.fb H.wb H.us H.ok H.tv
      (by
        cases b <;> simp only [] at h ⊢ <;> (first | contradiction | skip)
        · exact h
        · exact h
        · exact h
        · rename_i ms'
          rw [Bool.and_eq_true] at h ⊢
          refine ⟨h.1, ?_⟩
          simp only [List.all_eq_true]
          exact fun m hm => ((asgMembers_iff cfg sfh .str .data ms').1 h.2 m hm).2) hi
    rcases harms with ⟨vs, rfl, hall⟩ | ⟨es, rfl, hall⟩
    · simp only [instData, instDataL_iff]
      intro x hx
      have := hall x hx; unfold inst at this; exact this
    · simp only [instData, instDataE_iff]
      intro e he
      obtain ⟨hk, hv⟩ := hall e he
      refine ⟨?_, by unfold inst at hv; exact hv⟩
      rcases hk with hk | ⟨s, hs⟩
      · exact inst_str_key cfg sfh hk
      · rw [hs]; rfl

theorem inst_richkey {v : Val} (h : inst cfg sfh (.variant [.str, .numeric]) v = true) : isRichKey v = true := by
  unfold inst at h
  unfold instAny at h; unfold instAny at h; unfold instAny at h
  unfold inst at h
  cases v <;> simp at h <;> rfl

theorem recv_rich (n : Nat) (ih : Sound cfg sfh n) (b : Ty) (v : Val)
    (hw : Ty.richData.w + b.w ≤ n + 1) (H : Hyp cfg sfh .richData b v)
    (h : asgRecv cfg sfh .richData b = true) (hi : inst cfg sfh b v = true) : inst cfg sfh .richData v = true := by
  unfold asgRecv at h
  unfold inst
  simp only [Bool.or_eq_true] at h
  have hw' : b.w + 12 ≤ n + 1 := by simp only [Ty.w] at hw; omega
  rcases h with (((((h | h) | h) | h) | h) | h) | h
  · have := ih .scalar b v (by simp [Ty.w]; omega) ⟨frag_leaf sfh _ trivial, H.fb, wfl cfg _ trivial, H.wb, H.us, H.ok, H.tv⟩ h hi
    unfold inst at this; cases v <;> simp [isScalarVal] at this <;> simp [instRich, isScalarVal]
  · have := ih .bin b v (by simp [Ty.w]; omega) ⟨frag_leaf sfh _ trivial, H.fb, wfl cfg _ trivial, H.wb, H.us, H.ok, H.tv⟩ h hi
    unfold inst at this; cases v <;> simp at this; simp [instRich]
  · have := ih .dflt b v (by simp [Ty.w]; omega) ⟨frag_leaf sfh _ trivial, H.fb, wfl cfg _ trivial, H.wb, H.us, H.ok, H.tv⟩ h hi
    unfold inst at this; cases v <;> simp at this; simp [instRich]
  · have := ih (.object none) b v (by simp [Ty.w]; omega) ⟨frag_leaf sfh _ trivial, H.fb, wfl cfg _ trivial, H.wb, H.us, H.ok, H.tv⟩ h hi
    unfold inst at this; cases v <;> simp at this <;> simp [instRich]
  · have := ih (.typ .any) b v (by simp [Ty.w]; omega) ⟨by simp [Ty.Frag, Ty.TA], H.fb, by simp [Ty.WF], H.wb, H.us, H.ok, H.tv⟩ h hi
    unfold inst at this; cases v <;> simp at this; simp [instRich]
  · have := ih .undef b v (by simp [Ty.w]; omega) ⟨frag_leaf sfh _ trivial, H.fb, wfl cfg _ trivial, H.wb, H.us, H.ok, H.tv⟩ h hi
    rw [inst_undef_eq cfg sfh this]; rfl
  · have harms := alias_arms cfg sfh n ih .richData (.variant [.str, .numeric]) (Or.inr rfl) (Or.inr rfl) b v hw (by simp [Ty.w, Ty.wl])
      H.fb H.wb H.us H.ok H.tv
      (by
        cases b <;> simp only [] at h ⊢ <;> (first | contradiction | skip)
        · exact h
        · exact h
        · exact h
        · rename_i ms'
          rw [Bool.and_eq_true] at h ⊢
          refine ⟨h.1, ?_⟩
          simp only [List.all_eq_true]
          exact fun m hm => (asgMembersRichKey_iff cfg sfh ms').1 h.2 m hm) hi
    rcases harms with ⟨vs, rfl, hall⟩ | ⟨es, rfl, hall⟩
    · simp only [instRich, instRichL_iff]
      intro x hx
      have := hall x hx; unfold inst at this; exact this
    · simp only [instRich, instRichE_iff]
      intro e he
      obtain ⟨hk, hv⟩ := hall e he
      refine ⟨?_, by unfold inst at hv; exact hv⟩
      rcases hk with hk | ⟨s, hs⟩
      · exact inst_richkey cfg sfh hk
      · rw [hs]; rfl

theorem asgToArrAny_iff (sfh : Bool) (al : Alias) (as : List Ty) :
    asgToArrAny cfg sfh al as = true ↔ ∃ a ∈ as, asgToArr cfg sfh al a = true := by
  induction as with
  | nil => unfold asgToArrAny; simp
  | cons a as ih => unfold asgToArrAny; simp [ih]

theorem asgToHashAny_iff (sfh : Bool) (al : Alias) (as : List Ty) :
    asgToHashAny cfg sfh al as = true ↔ ∃ a ∈ as, asgToHash cfg sfh al a = true := by
  induction as with
  | nil => unfold asgToHashAny; simp
  | cons a as ih => unfold asgToHashAny; simp [ih]

theorem alias_frag (al : Alias) : al.ty.Frag sfh ∧ Ty.WF cfg al.ty ∧ al.ty.US := by
  cases al <;> simp [Alias.ty, Ty.Frag, Ty.WF, Ty.US]
theorem alias_key_frag (al : Alias) : al.key.Frag sfh ∧ Ty.WF cfg al.key ∧ al.key.US := by
  cases al <;> simp [Alias.key, Ty.Frag, Ty.WF, Ty.US]

/-- an array all of whose elements are instances of the alias is an instance of whatever accepts `Array[alias]` -/
theorem toArr_sound (n : Nat) (ih : Sound cfg sfh n) (al : Alias) : ∀ (k : Nat) (a : Ty), a.w ≤ k → a.w + al.ty.w ≤ n + 1 →
    a.Frag sfh → Ty.WF cfg a → asgToArr cfg sfh al a = true →
    ∀ vs, (∀ x ∈ vs, inst cfg sfh al.ty x = true) → (Val.array vs).OK → Val.TyOKS cfg sfh (.array vs) →
    inst cfg sfh a (.array vs) = true := by
  intro k
  induction k with
  | zero => intro a h; have := Ty.w_pos a; omega
  | succ k ihk =>
    intro a hk hw fa wa h vs hall ok tv
    obtain ⟨fal, wal, ual⟩ := alias_frag cfg sfh al
    unfold asgToArr at h
    cases a <;> simp only [] at h <;> (first | contradiction | skip)
    · unfold inst; rfl
    · unfold inst; rfl
    · -- data
      cases al <;> simp only [] at h <;> (first | contradiction | skip)
      unfold inst; simp only [instData, instDataL_iff]
      intro x hx; have := hall x hx; simp only [Alias.ty] at this; unfold inst at this; exact this
    · -- richData
      unfold inst; simp only [instRich, instRichL_iff]
      intro x hx
      have := hall x hx
      cases al with
      | data => simp only [Alias.ty] at this; unfold inst at this; exact instData_rich x.w x (Nat.le_refl _) this
      | rich => simp only [Alias.ty] at this; unfold inst at this; exact this
    · -- coll
      unfold inst; exact pos_contains_len _ tv.alen _ h
    · -- array
      rename_i e r
      unfold Ty.Frag at fa; unfold Ty.WF at wa
      simp only [Ty.w] at hw hk
      rw [Bool.and_eq_true] at h
      unfold inst
      simp only [Bool.and_eq_true, Bool.or_eq_true]
      refine ⟨pos_contains_len _ tv.alen _ h.1, Or.inr ?_⟩
      rw [instAll_iff]
      intro x hx
      exact ih e al.ty x (by omega) ⟨fa, fal, wa, wal, ual, ok.elems x hx, tv.elems x hx⟩ h.2 (hall x hx)
    · -- tuple
      rename_i ts g
      unfold Ty.Frag at fa; unfold Ty.WF at wa
      simp only [Ty.w] at hw hk
      rw [Bool.and_eq_true] at h
      unfold inst
      simp only [Bool.and_eq_true, Bool.or_eq_true]
      refine ⟨pos_contains_len _ tv.alen _ h.1, ?_⟩
      by_cases hts : ts = []
      · left; simp [hts]
      · right
        have h2 : asgAllL cfg sfh ts al.ty = true := by
          have := h.2; simp only [Bool.or_eq_true] at this
          rcases this with h3 | h3
          · simp [List.isEmpty_iff] at h3; exact absurd h3 hts
          · exact h3
        rw [instZip_iff cfg sfh ts vs hts]
        intro i t x ht hx
        have hm : t ∈ ts := List.mem_of_getElem? ht
        have hxm : x ∈ vs := List.mem_of_getElem? hx
        exact ih t al.ty x (by have := Ty.w_lt_wl hm; omega) ⟨fa t hm, fal, wa t hm, wal, ual, ok.elems x hxm, tv.elems x hxm⟩
          ((asgAllL_iff cfg sfh ts al.ty).1 h2 t hm) (hall x hxm)
    · -- variant
      rename_i as
      unfold Ty.Frag at fa; unfold Ty.WF at wa
      simp only [Ty.w] at hw hk
      rw [asgToArrAny_iff] at h
      obtain ⟨m, hm, hma⟩ := h
      unfold inst; rw [instAny_iff]
      have hwm := Ty.w_lt_wl hm
      exact ⟨m, hm, ihk m (by omega) (by omega) (fa m hm) (wa m hm) hma vs hall ok tv⟩
    · -- optional
      rename_i x
      unfold Ty.Frag at fa; unfold Ty.WF at wa
      simp only [Ty.w] at hw hk
      unfold inst
      simp [ihk x (by omega) (by omega) fa wa h vs hall ok tv]
    · -- notUndef
      rename_i x
      unfold Ty.Frag at fa; unfold Ty.WF at wa
      simp only [Ty.w] at hw hk
      unfold inst
      simp [ihk x (by omega) (by omega) fa wa h vs hall ok tv]
    · -- iterable
      unfold Ty.Frag at fa; exact absurd fa id

/-- a hash all of whose entries have alias keys and alias values is an instance of whatever accepts `Hash[key, alias]` -/
theorem toHash_sound (n : Nat) (ih : Sound cfg sfh n) (al : Alias) : ∀ (k : Nat) (a : Ty), a.w ≤ k → a.w + al.ty.w ≤ n + 1 →
    a.Frag sfh → Ty.WF cfg a → asgToHash cfg sfh al a = true →
    ∀ es, (∀ e ∈ es, inst cfg sfh al.key e.1 = true ∧ inst cfg sfh al.ty e.2 = true) →
    (al = .data → ∀ e ∈ es, isStrKey e.1 = true) →
    (Val.hash es).OK → Val.TyOKS cfg sfh (.hash es) →
    inst cfg sfh a (.hash es) = true := by
  intro k
  induction k with
  | zero => intro a h; have := Ty.w_pos a; omega
  | succ k ihk =>
    intro a hk hw fa wa h es hall hstr ok tv
    obtain ⟨fal, wal, ual⟩ := alias_frag cfg sfh al
    obtain ⟨fkl, wkl, ukl⟩ := alias_key_frag cfg sfh al
    have hkw : al.key.w ≤ al.ty.w := by cases al <;> simp [Alias.key, Alias.ty, Ty.w, Ty.wl]
    unfold asgToHash at h
    cases a <;> simp only [] at h <;> (first | contradiction | skip)
    · unfold inst; rfl
    · unfold inst; rfl
    · -- data
      cases al <;> simp only [] at h <;> (first | contradiction | skip)
      unfold inst; simp only [instData, instDataE_iff]
      intro e he
      have := (hall e he).2; simp only [Alias.ty] at this; unfold inst at this
      exact ⟨hstr rfl e he, this⟩
    · -- richData
      unfold inst; simp only [instRich, instRichE_iff]
      intro e he
      have h1 := (hall e he).1
      have h2 := (hall e he).2
      cases al with
      | data =>
        simp only [Alias.ty] at h2; unfold inst at h2
        refine ⟨?_, instData_rich e.2.w e.2 (Nat.le_refl _) h2⟩
        have := hstr rfl e he
        cases hk' : e.1 <;> simp [hk', isStrKey] at this <;> simp [isRichKey]
      | rich =>
        simp only [Alias.ty] at h2; unfold inst at h2
        simp only [Alias.key] at h1
        exact ⟨inst_richkey cfg sfh h1, h2⟩
    · -- coll
      unfold inst; exact pos_contains_len _ tv.hlen _ h
    · -- hash
      rename_i kk vv r
      unfold Ty.Frag at fa; unfold Ty.WF at wa
      simp only [Ty.w] at hw hk
      simp only [Bool.and_eq_true] at h
      unfold inst
      simp only [Bool.and_eq_true]
      refine ⟨pos_contains_len _ tv.hlen _ h.1.1, ?_⟩
      rw [instEntries_iff]
      intro e he
      exact ⟨ih kk al.key e.1 (by omega) ⟨fa.1, fkl, wa.1, wkl, ukl, ok.keys e he, tv.keys e he⟩ h.1.2 (hall e he).1,
             ih vv al.ty e.2 (by omega) ⟨fa.2, fal, wa.2, wal, ual, ok.vals e he, tv.vals e he⟩ h.2 (hall e he).2⟩
    · -- struct: only through the exempt rule, which the fragment switches off
      unfold Ty.Frag at fa
      rw [fa.1] at h; simp at h
    · -- variant
      rename_i as
      unfold Ty.Frag at fa; unfold Ty.WF at wa
      simp only [Ty.w] at hw hk
      rw [asgToHashAny_iff] at h
      obtain ⟨m, hm, hma⟩ := h
      unfold inst; rw [instAny_iff]
      have hwm := Ty.w_lt_wl hm
      exact ⟨m, hm, ihk m (by omega) (by omega) (fa m hm) (wa m hm) hma es hall hstr ok tv⟩
    · -- optional
      rename_i x
      unfold Ty.Frag at fa; unfold Ty.WF at wa
      simp only [Ty.w] at hw hk
      unfold inst
      simp [ihk x (by omega) (by omega) fa wa h es hall hstr ok tv]
    · -- notUndef
      rename_i x
      unfold Ty.Frag at fa; unfold Ty.WF at wa
      simp only [Ty.w] at hw hk
      unfold inst
      simp [ihk x (by omega) (by omega) fa wa h es hall hstr ok tv]
    · -- iterable
      unfold Ty.Frag at fa; exact absurd fa id

theorem asg_data_r (sfh : Bool) (a : Ty) :
    asg cfg sfh a .data = (a.isAny || sameNullary a .data ||
      (asg cfg sfh a .scalarData && asg cfg sfh a .undef && asgToArr cfg sfh .data a && asgToHash cfg sfh .data a)) := by
  conv => lhs; unfold asg
  cases a <;> simp [sameNullary, Ty.isAny]

theorem asg_rich_r (sfh : Bool) (a : Ty) :
    asg cfg sfh a .richData = (a.isAny || sameNullary a .richData ||
      (asg cfg sfh a .scalar && asg cfg sfh a .bin && asg cfg sfh a .dflt && asg cfg sfh a (.object none) && asg cfg sfh a (.typ .any)
        && accTypeSet a && accDeferred a && asg cfg sfh a .undef && asgToArr cfg sfh .rich a && asgToHash cfg sfh .rich a)) := by
  conv => lhs; unfold asg
  cases a <;> simp [sameNullary, Ty.isAny]

/-- right-hand side `Data` -/
theorem sound_data_r (n : Nat) (ih : Sound cfg sfh n) (a : Ty) (v : Val) (hw : a.w + Ty.data.w ≤ n + 1) (H : Hyp cfg sfh a .data v)
    (ha : asg cfg sfh a .data = true) (hb : inst cfg sfh .data v = true) : inst cfg sfh a v = true := by
  rw [asg_data_r] at ha
  simp only [Bool.or_eq_true, Bool.and_eq_true] at ha
  rcases ha with (ha | ha) | ha
  · exact inst_of_isAny cfg sfh ha v
  · rw [← sameNullary_inst cfg sfh ha v]; exact hb
  · obtain ⟨⟨⟨h1, h2⟩, h3⟩, h4⟩ := ha
    simp only [Ty.w] at hw
    unfold inst at hb
    have leaf : inst cfg sfh .scalarData v = true → inst cfg sfh a v = true := fun hv =>
      ih a .scalarData v (by simp [Ty.w]; omega) ⟨H.fa, frag_leaf sfh _ trivial, H.wa, wfl cfg _ trivial, usl _ trivial, H.ok, H.tv⟩ h1 hv
    cases v with
    | str s => exact leaf (by unfold inst; rfl)
    | int i => exact leaf (by unfold inst; rfl)
    | float f => exact leaf (by unfold inst; rfl)
    | bool b => exact leaf (by unfold inst; rfl)
    | undef =>
      exact ih a .undef .undef (by simp [Ty.w]; omega) ⟨H.fa, frag_leaf sfh _ trivial, H.wa, wfl cfg _ trivial, usl _ trivial, H.ok, H.tv⟩ h2 (by unfold inst; rfl)
    | array vs =>
      simp only [instData, instDataL_iff] at hb
      exact toArr_sound cfg sfh n ih .data a.w a (Nat.le_refl _) (by simp [Alias.ty, Ty.w]; omega) H.fa H.wa h3 vs
        (fun x hx => by simp only [Alias.ty]; unfold inst; exact hb x hx) H.ok H.tv
    | hash es =>
      simp only [instData, instDataE_iff] at hb
      exact toHash_sound cfg sfh n ih .data a.w a (Nat.le_refl _) (by simp [Alias.ty, Ty.w]; omega) H.fa H.wa h4 es
        (fun e he => by
          simp only [Alias.ty, Alias.key]
          refine ⟨?_, by unfold inst; exact (hb e he).2⟩
          have := (hb e he).1
          cases hk : e.1 <;> simp [hk, isStrKey] at this
          unfold inst; rfl)
        (fun _ e he => (hb e he).1) H.ok H.tv
    | _ => simp [instData] at hb

/-- right-hand side `RichData` -/
theorem sound_rich_r (n : Nat) (ih : Sound cfg sfh n) (a : Ty) (v : Val) (hw : a.w + Ty.richData.w ≤ n + 1) (H : Hyp cfg sfh a .richData v)
    (ha : asg cfg sfh a .richData = true) (hb : inst cfg sfh .richData v = true) : inst cfg sfh a v = true := by
  rw [asg_rich_r] at ha
  simp only [Bool.or_eq_true, Bool.and_eq_true] at ha
  rcases ha with (ha | ha) | ha
  · exact inst_of_isAny cfg sfh ha v
  · rw [← sameNullary_inst cfg sfh ha v]; exact hb
  · obtain ⟨⟨⟨⟨⟨⟨⟨⟨⟨hsc, hbin⟩, hdf⟩, hobj⟩, htyp⟩, _⟩, _⟩, hun⟩, harr⟩, hhash⟩ := ha
    simp only [Ty.w] at hw
    unfold inst at hb
    have viaScalar : inst cfg sfh .scalar v = true → inst cfg sfh a v = true := fun hv =>
      ih a .scalar v (by simp [Ty.w]; omega) ⟨H.fa, frag_leaf sfh _ trivial, H.wa, wfl cfg _ trivial, usl _ trivial, H.ok, H.tv⟩ hsc hv
    cases v with
    | str s => exact viaScalar (by unfold inst; rfl)
    | int i => exact viaScalar (by unfold inst; rfl)
    | float f => exact viaScalar (by unfold inst; rfl)
    | bool b => exact viaScalar (by unfold inst; rfl)
    | tspan b => exact viaScalar (by unfold inst; rfl)
    | tstamp b => exact viaScalar (by unfold inst; rfl)
    | regexp b => exact viaScalar (by unfold inst; rfl)
    | binary bs =>
      exact ih a .bin _ (by simp [Ty.w]; omega) ⟨H.fa, frag_leaf sfh _ trivial, H.wa, wfl cfg _ trivial, usl _ trivial, H.ok, H.tv⟩ hbin (by unfold inst; rfl)
    | dflt =>
      exact ih a .dflt _ (by simp [Ty.w]; omega) ⟨H.fa, frag_leaf sfh _ trivial, H.wa, wfl cfg _ trivial, usl _ trivial, H.ok, H.tv⟩ hdf (by unfold inst; rfl)
    | undef =>
      exact ih a .undef _ (by simp [Ty.w]; omega) ⟨H.fa, frag_leaf sfh _ trivial, H.wa, wfl cfg _ trivial, usl _ trivial, H.ok, H.tv⟩ hun (by unfold inst; rfl)
    | obj p =>
      exact ih a (.object none) _ (by simp [Ty.w]; omega) ⟨H.fa, frag_leaf sfh _ trivial, H.wa, wfl cfg _ trivial, usl _ trivial, H.ok, H.tv⟩ hobj (by unfold inst; rfl)
    | typ u =>
      exact ih a (.typ .any) _ (by simp [Ty.w]; omega) ⟨H.fa, by simp [Ty.Frag, Ty.TA], H.wa, by simp [Ty.WF], by simp [Ty.US], H.ok, H.tv⟩ htyp
        (by unfold inst; exact asg_any_l cfg sfh u)
    | array vs =>
      simp only [instRich, instRichL_iff] at hb
      exact toArr_sound cfg sfh n ih .rich a.w a (Nat.le_refl _) (by simp [Alias.ty, Ty.w]; omega) H.fa H.wa harr vs
        (fun x hx => by simp only [Alias.ty]; unfold inst; exact hb x hx) H.ok H.tv
    | hash es =>
      simp only [instRich, instRichE_iff] at hb
      exact toHash_sound cfg sfh n ih .rich a.w a (Nat.le_refl _) (by simp [Alias.ty, Ty.w]; omega) H.fa H.wa hhash es
        (fun e he => by
          simp only [Alias.ty, Alias.key]
          refine ⟨?_, by unfold inst; exact (hb e he).2⟩
          have := (hb e he).1
          unfold inst; unfold instAny; unfold instAny; unfold instAny; unfold inst
          cases hk : e.1 <;> simp [hk, isRichKey] at this <;> simp)
        (fun h => by cases h) H.ok H.tv
    | sensitive x => simp [instRich, isScalarVal] at hb

end Pcore.Lat
