import Pcore.Proofs.SerWf
/-! Helper lemmas for C10, part 2: every back-reference points to an earlier, completed position that holds the
    (reference-free form of the) value it stands for.  Property theorems are in `Pcore/Props/C10.lean`. -/
namespace Pcore.Ser

/-! ### sharing hypothesis: equal identities denote equal values

`F` assigns to every identity the reference-free event of the value carrying it; `Coh c F v` says every node of `v`
agrees with it.  A value built from the op syntax (one definition per id, `(= id)` copies) satisfies it with
`F` = "the plain event of the node defined with that id". -/

mutual
def Coh (c : Cfg) (F : Key → Ev) : V → Prop
  | .hash id es => F (.ptr id) = plain c (.hash id es) ∧ CohPairs c F es
  | .arr id vs => F (.ptr id) = plain c (.arr id vs) ∧ CohList c F vs
  | .sens id v => F (.ptr id) = plain c (.sens id v) ∧ Coh c F v
  | .bin id bs => F (.ptr id) = plain c (.bin id bs)
  | .leaf id k enc disp => F (leafKey id k enc) = plain c (.leaf id k enc disp)
  | .obj id tn disp as => F (.ptr id) = plain c (.obj id tn disp as) ∧ CohAttrs c F as
  | _ => True
def CohList (c : Cfg) (F : Key → Ev) : List V → Prop
  | [] => True | v :: vs => Coh c F v ∧ CohList c F vs
def CohPairs (c : Cfg) (F : Key → Ev) : List (V × V) → Prop
  | [] => True | (k, v) :: es => Coh c F k ∧ Coh c F v ∧ CohPairs c F es
def CohAttrs (c : Cfg) (F : Key → Ev) : List (String × V) → Prop
  | [] => True | (_, v) :: as => Coh c F v ∧ CohAttrs c F as
end

/-- strings are identified by content, so their entry is forced -/
def FStr (F : Key → Ev) : Prop := ∀ s, F (.str s) = .add (.str s)

/-! ### the invariant between the serializer's map and the resolved positions -/

structure Inv (F : Key → Ev) (st : St) (env : List (Option Ev)) : Prop where
  len : st.ref = env.length
  ok : ∀ k p, st.vals.lookup k = some p → env[p]? = some (some (F k))

/-- `env'` extends `env`: earlier positions are untouched -/
def Ext (env env' : List (Option Ev)) : Prop :=
  env.length ≤ env'.length ∧ ∀ p, p < env.length → env'[p]? = env[p]?

theorem Ext.refl (env : List (Option Ev)) : Ext env env := ⟨Nat.le_refl _, fun _ _ => rfl⟩

theorem Ext.trans {a b c : List (Option Ev)} (h1 : Ext a b) (h2 : Ext b c) : Ext a c :=
  ⟨Nat.le_trans h1.1 h2.1, fun p hp => by rw [h2.2 p (Nat.lt_of_lt_of_le hp h1.1), h1.2 p hp]⟩

theorem Ext.push (env : List (Option Ev)) (x : Option Ev) : Ext env (env ++ [x]) :=
  ⟨by simp, fun p hp => by simp [List.getElem?_append_left hp]⟩

theorem Inv.open' {F : Key → Ev} {st : St} {env : List (Option Ev)} (h : Inv F st env) :
    Inv F (bump st) (env ++ [none]) :=
  ⟨by simp [h.len], fun k p hk => by
    have := h.ok k p hk
    have hp : p < env.length := by
      rcases Nat.lt_or_ge p env.length with hp | hp
      · exact hp
      · simp [List.getElem?_eq_none hp] at this
    rw [List.getElem?_append_left hp]; exact this⟩

theorem Inv.push {F : Key → Ev} {st : St} {env : List (Option Ev)} (h : Inv F st env) (x : Ev) :
    Inv F (bump st) (env ++ [some x]) :=
  ⟨by simp [h.len], fun k p hk => by
    have := h.ok k p hk
    have hp : p < env.length := by
      rcases Nat.lt_or_ge p env.length with hp | hp
      · exact hp
      · simp [List.getElem?_eq_none hp] at this
    rw [List.getElem?_append_left hp]; exact this⟩

/-- closing the container that was opened at position `env.length` -/
theorem Inv.close {F : Key → Ev} {st1 : St} {env env1 : List (Option Ev)} (x : Ev)
    (h : Inv F st1 env1) (hx : Ext (env ++ [none]) env1) :
    Inv F st1 (env1.set env.length (some x)) ∧ Ext env (env1.set env.length (some x)) ∧
      (env1.set env.length (some x))[env.length]? = some (some x) := by
  have hlen : env.length < env1.length := by have := hx.1; simp at this; omega
  have hopen : env1[env.length]? = some none := by
    rw [hx.2 env.length (by simp)]; simp
  refine ⟨⟨by simp [h.len], fun k p hk => ?_⟩, ⟨by simp; omega, fun p hp => ?_⟩, ?_⟩
  · have := h.ok k p hk
    have hne : env.length ≠ p := by
      intro he; rw [← he, hopen] at this; simp at this
    rw [List.getElem?_set_ne hne]; exact this
  · rw [List.getElem?_set_ne (by omega), hx.2 p (by simp; omega), List.getElem?_append_left hp]
  · simp [List.getElem?_set_self hlen]

/-- `record` keeps the invariant when the position it records holds the value's reference-free event -/
theorem Inv.record {F : Key → Ev} {env' : List (Option Ev)} (c : Cfg) (k : Key) (pos : Nat) (r : Ev × St)
    (h : Inv F r.2 env') (hp : r.2.ref > pos → env'[pos]? = some (some (F k))) :
    Inv F (record c k pos r).2 env' := by
  unfold Pcore.Ser.record
  split
  · exact h
  · split
    · rename_i hgt
      split
      · exact h
      · refine ⟨h.len, fun k' p hk' => ?_⟩
        simp only [List.lookup_cons] at hk'
        split at hk'
        · rename_i heq
          have : k' = k := by simpa using heq
          subst this
          simp only [Option.some.injEq] at hk'
          subst hk'
          exact hp hgt
        · exact h.ok k' p hk'
    · exact h

theorem seen_some {c : Cfg} {k : Key} {st : St} {r : Nat} (h : seen c k st = some r) : st.vals.lookup k = some r := by
  unfold seen at h
  split at h
  · simp at h
  · exact h

/-- a back-reference found in the map resolves to the value's reference-free event -/
theorem ref_ok {F : Key → Ev} {c : Cfg} {k : Key} {st : St} {env : List (Option Ev)} {r : Nat}
    (hI : Inv F st env) (h : seen c k st = some r) : expand (.ref r) env = some (F k, env) := by
  simp [expand, hI.ok k r (seen_some h)]

/-- the shape every case of the induction has -/
def Step (F : Key → Ev) (env : List (Option Ev)) (r : Ev × St) (x : Ev) : Prop :=
  ∃ env', expand r.1 env = some (x, env') ∧ Inv F r.2 env' ∧ Ext env env'

def StepL (F : Key → Ev) (env : List (Option Ev)) (r : List Ev × St) (xs : List Ev) : Prop :=
  ∃ env', expandList r.1 env = some (xs, env') ∧ Inv F r.2 env' ∧ Ext env env'

theorem step_add {F : Key → Ev} {st : St} {env : List (Option Ev)} (hI : Inv F st env) (d : Sc) :
    Step F env (addData d st) (.add d) :=
  ⟨env ++ [some (.add d)], by simp [expand], hI.push _, Ext.push ..⟩

/-- a string: sent in full (then its slot holds it) or as a back-reference to an equal string -/
theorem step_strData' {F : Key → Ev} (hF : FStr F) (c : Cfg) (level : Nat) (s : String) {st : St}
    {env : List (Option Ev)} (hI : Inv F st env) :
    ∃ env', expand (strData c level s st).1 env = some (.add (.str s), env') ∧ Inv F (strData c level s st).2 env' ∧
      Ext env env' ∧ ((strData c level s st).2.ref > st.ref → env'[env.length]? = some (some (.add (.str s)))) := by
  unfold strData
  split
  · split
    · rename_i r hs
      exact ⟨env, by rw [ref_ok hI hs, hF], hI, Ext.refl _, fun h => absurd h (Nat.lt_irrefl _)⟩
    · refine ⟨env ++ [some (.add (.str s))], by simp [expand], ?_, Ext.push .., fun _ => by simp⟩
      apply Inv.record
      · exact hI.push _
      · intro _; rw [hF, hI.len]; simp
  · exact ⟨env ++ [some (.add (.str s))], by simp [expand], hI.push _, Ext.push .., fun _ => by simp⟩

theorem step_strData {F : Key → Ev} (hF : FStr F) (c : Cfg) (level : Nat) (s : String) {st : St}
    {env : List (Option Ev)} (hI : Inv F st env) : Step F env (strData c level s st) (.add (.str s)) := by
  obtain ⟨env', h1, h2, h3, _⟩ := step_strData' hF c level s hI
  exact ⟨env', h1, h2, h3⟩

/-- a container whose children resolve: `sc.addArray` / `sc.addHash` without `process` -/
theorem step_arr {F : Key → Ev} {env : List (Option Ev)} {es : List Ev} {st1 : St} {xs : List Ev}
    (h : StepL F (env ++ [none]) (es, st1) xs) :
    ∃ env', expand (.arr es) env = some (.arr xs, env') ∧ Inv F st1 env' ∧ Ext env env' ∧
      env'[env.length]? = some (some (.arr xs)) := by
  obtain ⟨env1, he, hI, hx⟩ := h
  obtain ⟨h1, h2, h3⟩ := hI.close (.arr xs) hx
  exact ⟨_, by simp only [expand]; simp only [] at he; rw [he], h1, h2, h3⟩

theorem step_hsh {F : Key → Ev} {env : List (Option Ev)} {es : List Ev} {st1 : St} {xs : List Ev}
    (h : StepL F (env ++ [none]) (es, st1) xs) :
    ∃ env', expand (.hsh es) env = some (.hsh xs, env') ∧ Inv F st1 env' ∧ Ext env env' ∧
      env'[env.length]? = some (some (.hsh xs)) := by
  obtain ⟨env1, he, hI, hx⟩ := h
  obtain ⟨h1, h2, h3⟩ := hI.close (.hsh xs) hx
  exact ⟨_, by simp only [expand]; simp only [] at he; rw [he], h1, h2, h3⟩

/-- … and recorded by `process` under key `k` -/
theorem step_record {F : Key → Ev} {st : St} {env : List (Option Ev)} (c : Cfg) (k : Key) {e : Ev} {st1 : St} {x : Ev}
    (hI : Inv F st env) (hk : F k = x)
    (h : ∃ env', expand e env = some (x, env') ∧ Inv F st1 env' ∧ Ext env env' ∧
      (st1.ref > st.ref → env'[env.length]? = some (some x))) :
    Step F env (record c k st.ref (e, st1)) x := by
  obtain ⟨env', he, hI', hx, hp⟩ := h
  refine ⟨env', by simpa using he, ?_, hx⟩
  apply Inv.record _ _ _ _ hI'
  intro hgt; rw [hk, hI.len]; exact hp hgt

theorem stepL_nil {F : Key → Ev} {st : St} {env : List (Option Ev)} (hI : Inv F st env) :
    StepL F env ([], st) [] := ⟨env, rfl, hI, Ext.refl _⟩

theorem stepL_cons {F : Key → Ev} {env : List (Option Ev)} {r1 : Ev × St} {x : Ev}
    (h1 : Step F env r1 x) {es : List Ev} {st2 : St} {xs : List Ev}
    (h2 : ∀ env1, Inv F r1.2 env1 → StepL F env1 (es, st2) xs) :
    StepL F env (r1.1 :: es, st2) (x :: xs) := by
  obtain ⟨env1, he1, hI1, hx1⟩ := h1
  obtain ⟨env2, he2, hI2, hx2⟩ := h2 env1 hI1
  refine ⟨env2, ?_, hI2, hx1.trans hx2⟩
  simp only [] at he2
  simp only [expandList, he1, he2]

/-- the three leading children of a typed hash -/
theorem stepL_head3 {F : Key → Ev} (hF : FStr F) (c : Cfg) (tl : Nat) (tn : String) {st : St} {env : List (Option Ev)}
    (hI : Inv F st env) {e : Ev} {st1 : St} {x : Ev}
    (h : ∀ env1, Inv F (head3 c tl tn st).2 env1 → Step F env1 (e, st1) x) :
    StepL F env ((head3 c tl tn st).1 ++ [e], st1) [ptypeEv, .add (.str tn), pvalueEv, x] := by
  simp only [head3, List.cons_append, List.nil_append]
  apply stepL_cons (step_strData hF c 2 "__ptype" hI)
  intro env1 hI1
  apply stepL_cons (step_strData hF c tl tn hI1)
  intro env2 hI2
  apply stepL_cons (step_strData hF c 2 "__pvalue" hI2)
  intro env3 hI3
  have := h env3 (by simpa [head3] using hI3)
  exact stepL_cons (r1 := (e, st1)) this (fun env4 hI4 => stepL_nil hI4)

/-- a typed hash `{__ptype: tn, __pvalue: x}` emitted under `process` with key `k` -/
theorem step_typed {F : Key → Ev} (hF : FStr F) (c : Cfg) (k : Key) (tl : Nat) (tn : String) {st : St}
    {env : List (Option Ev)} (hI : Inv F st env) {e : Ev} {st1 : St} {x : Ev} (hk : F k = typed tn x)
    (h : ∀ env1, Inv F (head3 c tl tn (bump st)).2 env1 → Step F env1 (e, st1) x) :
    Step F env (record c k st.ref (.hsh ((head3 c tl tn (bump st)).1 ++ [e]), st1)) (typed tn x) := by
  apply step_record c k hI hk
  have hl := stepL_head3 hF c tl tn hI.open' h
  obtain ⟨env', h1, h2, h3, h4⟩ := step_hsh hl
  exact ⟨env', h1, h2, h3, fun _ => h4⟩

mutual
theorem toData_step (c : Cfg) (F : Key → Ev) (hF : FStr F) :
    ∀ (level : Nat) (v : V) (st : St) (env : List (Option Ev)), Inv F st env → Coh c F v →
      Step F env (toData c level v st) (plain c v)
  | _, .undef, st, env, hI, _ => by simpa [toData, plain] using step_add hI _
  | _, .bool _, st, env, hI, _ => by simpa [toData, plain] using step_add hI _
  | _, .int _, st, env, hI, _ => by simpa [toData, plain] using step_add hI _
  | _, .flt _, st, env, hI, _ => by simpa [toData, plain] using step_add hI _
  | level, .str s, st, env, hI, _ => by simpa [toData, plain] using step_strData hF c level s hI
  | _, .dflt, st, env, hI, _ => by
      simp only [toData, plain]
      split
      · have hl : StepL F (env ++ [none])
            ([(strData c 2 "__ptype" (bump st)).1, (strData c 1 "Default" (strData c 2 "__ptype" (bump st)).2).1],
              (strData c 1 "Default" (strData c 2 "__ptype" (bump st)).2).2) [ptypeEv, .add (.str "Default")] := by
          apply stepL_cons (step_strData hF c 2 "__ptype" hI.open')
          intro env1 hI1
          exact stepL_cons (step_strData hF c 1 "Default" hI1) (fun env2 hI2 => stepL_nil hI2)
        obtain ⟨env', h1, h2, h3, _⟩ := step_hsh hl
        exact ⟨env', h1, h2, h3⟩
      · exact step_strData hF c 1 "default" hI
  | _, .hash id es, st, env, hI, hC => by
      simp only [Coh] at hC
      simp only [toData]
      split
      · rename_i r hs
        exact ⟨env, by rw [ref_ok hI hs, hC.1], hI, Ext.refl _⟩
      · simp only [plain]
        split
        · rename_i hc
          apply step_record c _ hI (by rw [hC.1]; simp [plain, hc])
          have hl := pairsData_step c F hF es (bump st) (env ++ [none]) hI.open' hC.2
          obtain ⟨env', h1, h2, h3, h4⟩ := step_hsh hl
          exact ⟨env', h1, h2, h3, fun _ => h4⟩
        · rename_i hc
          split
          · rename_i hr
            apply step_typed hF c _ 1 "Hash" hI (by rw [hC.1]; simp [plain, hc, hr])
            intro env1 hI1
            have hl := flatData_step c F hF es (bump (head3 c 1 "Hash" (bump st)).2) (env1 ++ [none]) hI1.open' hC.2
            obtain ⟨env', h1, h2, h3, _⟩ := step_arr hl
            exact ⟨env', h1, h2, h3⟩
          · rename_i hr
            apply step_record c _ hI (by rw [hC.1]; simp [plain, hc, hr])
            have hl := skeyData_step c F hF es (bump st) (env ++ [none]) hI.open' hC.2
            obtain ⟨env', h1, h2, h3, h4⟩ := step_hsh hl
            exact ⟨env', h1, h2, h3, fun _ => h4⟩
  | _, .arr id vs, st, env, hI, hC => by
      simp only [Coh] at hC
      simp only [toData]
      split
      · rename_i r hs
        exact ⟨env, by rw [ref_ok hI hs, hC.1], hI, Ext.refl _⟩
      · simp only [plain]
        apply step_record c _ hI (by rw [hC.1]; simp [plain])
        have hl := listData_step c F hF vs (bump st) (env ++ [none]) hI.open' hC.2
        obtain ⟨env', h1, h2, h3, h4⟩ := step_arr hl
        exact ⟨env', h1, h2, h3, fun _ => h4⟩
  | level, .sens id v, st, env, hI, hC => by
      simp only [Coh] at hC
      simp only [toData]
      split
      · rename_i r hs
        exact ⟨env, by rw [ref_ok hI hs, hC.1], hI, Ext.refl _⟩
      · simp only [plain]
        split
        · rename_i hr
          apply step_typed hF c _ 1 "Sensitive" hI (by rw [hC.1]; simp [plain, hr])
          intro env1 hI1
          exact toData_step c F hF 1 v _ env1 hI1 hC.2
        · rename_i hr
          apply step_record c _ hI (by rw [hC.1]; simp [plain, hr])
          exact step_strData' hF c level sensitiveText hI
  | level, .bin id bs, st, env, hI, hC => by
      simp only [Coh] at hC
      simp only [toData]
      split
      · rename_i r hs
        exact ⟨env, by rw [ref_ok hI hs, hC], hI, Ext.refl _⟩
      · simp only [plain]
        split
        · rename_i hb
          apply step_record c _ hI (by rw [hC]; simp [plain, hb])
          refine ⟨env ++ [some (.add (.bin bs))], by simp [expand], hI.push _, Ext.push .., fun _ => by simp⟩
        · rename_i hb
          split
          · rename_i hr
            apply step_typed hF c _ 1 "Binary" hI (by rw [hC]; simp [plain, hb, hr])
            intro env1 hI1
            exact step_strData hF c 1 (b64 bs) hI1
          · rename_i hr
            apply step_record c _ hI (by rw [hC]; simp [plain, hb, hr])
            exact step_strData' hF c level (b64 bs) hI
  | _, .leaf id k enc disp, st, env, hI, hC => by
      simp only [Coh] at hC
      simp only [toData, plain]
      split
      · rename_i hr
        split
        · rename_i r hs
          exact ⟨env, by rw [ref_ok hI hs, hC]; simp [plain, hr], hI, Ext.refl _⟩
        · apply step_typed hF c _ k.typeLevel k.typeName hI (by rw [hC]; simp [plain, hr])
          intro env1 hI1
          exact step_strData hF c 1 enc hI1
      · exact step_strData hF c 1 disp hI
  | _, .obj id tn disp attrs, st, env, hI, hC => by
      simp only [Coh] at hC
      simp only [toData, plain]
      split
      · rename_i hr
        split
        · rename_i r hs
          exact ⟨env, by rw [ref_ok hI hs, hC.1]; simp [plain, hr], hI, Ext.refl _⟩
        · apply step_record c _ hI (by rw [hC.1]; simp [plain, hr])
          have hl : StepL F (env ++ [none])
              ((strData c 2 "__ptype" (bump st)).1 :: (strData c 1 tn (strData c 2 "__ptype" (bump st)).2).1 ::
                (attrsData c attrs (strData c 1 tn (strData c 2 "__ptype" (bump st)).2).2).1,
                (attrsData c attrs (strData c 1 tn (strData c 2 "__ptype" (bump st)).2).2).2)
              (ptypeEv :: .add (.str tn) :: plainAttrs c attrs) := by
            apply stepL_cons (step_strData hF c 2 "__ptype" hI.open')
            intro env1 hI1
            apply stepL_cons (step_strData hF c 1 tn hI1)
            intro env2 hI2
            exact attrsData_step c F hF attrs _ env2 hI2 hC.2
          obtain ⟨env', h1, h2, h3, h4⟩ := step_hsh hl
          exact ⟨env', h1, h2, h3, fun _ => h4⟩
      · exact step_strData hF c 1 disp hI

theorem listData_step (c : Cfg) (F : Key → Ev) (hF : FStr F) :
    ∀ (vs : List V) (st : St) (env : List (Option Ev)), Inv F st env → CohList c F vs →
      StepL F env (listData c vs st) (plainList c vs)
  | [], st, env, hI, _ => by simpa [listData, plainList] using stepL_nil hI
  | v :: vs, st, env, hI, hC => by
      simp only [CohList] at hC
      simp only [listData, plainList]
      exact stepL_cons (toData_step c F hF 1 v st env hI hC.1)
        (fun env1 hI1 => listData_step c F hF vs _ env1 hI1 hC.2)

theorem pairsData_step (c : Cfg) (F : Key → Ev) (hF : FStr F) :
    ∀ (es : List (V × V)) (st : St) (env : List (Option Ev)), Inv F st env → CohPairs c F es →
      StepL F env (pairsData c es st) (plainPairs c es)
  | [], st, env, hI, _ => by simpa [pairsData, plainPairs] using stepL_nil hI
  | (k, v) :: es, st, env, hI, hC => by
      simp only [CohPairs] at hC
      simp only [pairsData, plainPairs]
      apply stepL_cons (toData_step c F hF 2 k st env hI hC.1)
      intro env1 hI1
      exact stepL_cons (toData_step c F hF 1 v _ env1 hI1 hC.2.1)
        (fun env2 hI2 => pairsData_step c F hF es _ env2 hI2 hC.2.2)

theorem flatData_step (c : Cfg) (F : Key → Ev) (hF : FStr F) :
    ∀ (es : List (V × V)) (st : St) (env : List (Option Ev)), Inv F st env → CohPairs c F es →
      StepL F env (flatData c es st) (plainPairs c es)
  | [], st, env, hI, _ => by simpa [flatData, plainPairs] using stepL_nil hI
  | (k, v) :: es, st, env, hI, hC => by
      simp only [CohPairs] at hC
      simp only [flatData, plainPairs]
      apply stepL_cons (toData_step c F hF 1 k st env hI hC.1)
      intro env1 hI1
      exact stepL_cons (toData_step c F hF 1 v _ env1 hI1 hC.2.1)
        (fun env2 hI2 => flatData_step c F hF es _ env2 hI2 hC.2.2)

theorem skeyData_step (c : Cfg) (F : Key → Ev) (hF : FStr F) :
    ∀ (es : List (V × V)) (st : St) (env : List (Option Ev)), Inv F st env → CohPairs c F es →
      StepL F env (skeyData c es st) (plainSKeys c es)
  | [], st, env, hI, _ => by simpa [skeyData, plainSKeys] using stepL_nil hI
  | (k, v) :: es, st, env, hI, hC => by
      simp only [CohPairs] at hC
      simp only [skeyData, plainSKeys]
      apply stepL_cons (step_strData hF c 2 k.disp hI)
      intro env1 hI1
      exact stepL_cons (toData_step c F hF 1 v _ env1 hI1 hC.2.1)
        (fun env2 hI2 => skeyData_step c F hF es _ env2 hI2 hC.2.2)

theorem attrsData_step (c : Cfg) (F : Key → Ev) (hF : FStr F) :
    ∀ (as : List (String × V)) (st : St) (env : List (Option Ev)), Inv F st env → CohAttrs c F as →
      StepL F env (attrsData c as st) (plainAttrs c as)
  | [], st, env, hI, _ => by simpa [attrsData, plainAttrs] using stepL_nil hI
  | (k, v) :: as, st, env, hI, hC => by
      simp only [CohAttrs] at hC
      simp only [attrsData, plainAttrs]
      apply stepL_cons (step_strData hF c 2 k hI)
      intro env1 hI1
      exact stepL_cons (toData_step c F hF 1 v _ env1 hI1 hC.1)
        (fun env2 hI2 => attrsData_step c F hF as _ env2 hI2 hC.2)
end

end Pcore.Ser
