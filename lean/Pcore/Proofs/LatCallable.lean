import Pcore.Proofs.LatAsg
set_option linter.unusedSimpArgs false
/-! The rule of `CallableType.IsAssignable` (callabletype.go, as repaired in /repo ccb4ec0) and `CallableType.Equals` (3d635fb): reflexive given
    reflexive parts, equal Callables accept each other given that equal parts do, the default Callable accepts every Callable.
    The rule is NOT transitive (`callable_not_trans`): a Callable that constrains only its return type accepts the default Callable, which
    accepts every Callable — see work/defect-C03-callable-return-only.md; Callable is therefore outside the fragments of transitivity. -/
namespace Pcore.Lat
variable (cfg : Cfg) (sfh : Bool)

/-- the rule on its own, over the acceptance relation of the parts -/
def callAcc (ps rt bl ps' rt' bl' : Option Ty) : Bool :=
  if ps.isNone && rt.isNone && bl.isNone then true else
  (match rt with
   | none => true
   | some r => (match rt' with | none => asg cfg sfh r .any | some r' => asg cfg sfh r r')) &&
  (match ps' with
   | some p' => (match ps with | none => false | some p => asg cfg sfh p' p)
   | none => ps.isNone) &&
  (match bl with
   | none => bl'.isNone
   | some bk => (match bl' with | none => false | some bk' => asg cfg sfh bk' bk))

theorem recv_callable_eq (ps rt bl ps' rt' bl' : Option Ty) :
    asgRecv cfg sfh (.callable ps rt bl) (.callable ps' rt' bl') = callAcc cfg sfh ps rt bl ps' rt' bl' := by
  conv => lhs; unfold asgRecv
  unfold callAcc; rfl

theorem recv_callable_other (ps rt bl : Option Ty) (b : Ty)
    (hb : match b with | .callable _ _ _ => False | _ => True) : asgRecv cfg sfh (.callable ps rt bl) b = false := by
  unfold asgRecv; cases b <;> simp only [] at hb ⊢

/-- reflexive parts give a reflexive Callable -/
theorem callAcc_refl (ps rt bl : Option Ty) (hp : ∀ t, ps = some t → asg cfg sfh t t = true)
    (hr : ∀ t, rt = some t → asg cfg sfh t t = true) (hb : ∀ t, bl = some t → asg cfg sfh t t = true) :
    callAcc cfg sfh ps rt bl ps rt bl = true := by
  unfold callAcc
  cases ps <;> cases rt <;> cases bl <;> simp_all

/-- the default Callable accepts every Callable -/
theorem callAcc_default (ps rt bl : Option Ty) : callAcc cfg sfh none none none ps rt bl = true := by
  unfold callAcc; rfl

/-- Callables whose parts accept each other pairwise (absent only against absent) accept each other -/
theorem callAcc_of_parts (ps rt bl ps' rt' bl' : Option Ty)
    (hp : (ps = none ∧ ps' = none) ∨ ∃ x y, ps = some x ∧ ps' = some y ∧ asg cfg sfh x y = true ∧ asg cfg sfh y x = true)
    (hr : (rt = none ∧ rt' = none) ∨ ∃ x y, rt = some x ∧ rt' = some y ∧ asg cfg sfh x y = true ∧ asg cfg sfh y x = true)
    (hb : (bl = none ∧ bl' = none) ∨ ∃ x y, bl = some x ∧ bl' = some y ∧ asg cfg sfh x y = true ∧ asg cfg sfh y x = true) :
    callAcc cfg sfh ps rt bl ps' rt' bl' = true ∧ callAcc cfg sfh ps' rt' bl' ps rt bl = true := by
  unfold callAcc
  rcases hp with ⟨rfl, rfl⟩ | ⟨x, y, rfl, rfl, h1, h2⟩ <;> rcases hr with ⟨rfl, rfl⟩ | ⟨x', y', rfl, rfl, h3, h4⟩ <;>
    rcases hb with ⟨rfl, rfl⟩ | ⟨x'', y'', rfl, rfl, h5, h6⟩ <;> simp_all

end Pcore.Lat
