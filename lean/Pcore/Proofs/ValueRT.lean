import Pcore.Proofs.Tokens
import Pcore.Proofs.Parse
/-!
Layers 2–3 of C05 for literal values: the text `printVal v` parses back to `exprOf v`.
The three lemmas `item_rt` / `arr_rt` / `hash_rt` follow `parseItem` / `arrayLoop` / `hashLoop`; the fuel hypotheses
are phrased in the length of the printed text, so that `parseFile`'s `2·|input| + 2` trivially suffices.
-/
namespace Pcore.Syntax

mutual
/-- literal values whose leaves can be read back, relative to the oracles of `env` -/
def Lit (env : Env) : Val → Prop
  | .int i => -(int64Bound : Int) ≤ i ∧ i < (int64Bound : Int)
  | .float b t =>
    (∀ k, stopOK k = true → nextToken env.isLetter (syms t ++ k) = .tok ⟨.float, t⟩ k false) ∧ env.pf t = some b
  | .regexp s => rxRep false s = true ∧ env.rxOK s = true
  | .arr vs => LitL env vs
  | .hash es => LitE env es
  | _ => True
def LitL (env : Env) : List Val → Prop
  | [] => True
  | v :: vs => Lit env v ∧ LitL env vs
def LitE (env : Env) : List (Val × Val) → Prop
  | [] => True
  | (k, v) :: es => Lit env k ∧ Lit env v ∧ LitE env es
end

/-- the item result "value `e`, then whatever token comes next in `k`" -/
def ItemRes (env : Env) (e : Expr) (k : List Sym) : PR (Option (Expr × Tok × PS)) :=
  (readTok env k).bind fun r => .ok (some (e, r.1, r.2))

theorem after_eq (env : Env) (e : Expr) (st : PS) : after env e st = ItemRes env e st.rest := rfl

theorem readTok_of_tok {env : Env} {r : List Sym} {t : Tok} {rest : List Sym} {b : Bool}
    (h : nextToken env.isLetter r = .tok t rest b) : readTok env r = .ok (t, ⟨rest, b, t.s.length⟩) := by
  simp [readTok, h]

theorem readTok_blank (env : Env) (r : List Sym) : readTok env (.chr ' ' :: r) = readTok env r := by
  simp [readTok, nextToken_blank]

theorem ItemRes_rbrack (env : Env) (e : Expr) (k : List Sym) :
    ItemRes env e (.chr ']' :: k) = .ok (some (e, ⟨.rbrack, [']']⟩, ⟨k, false, 1⟩)) := by
  simp [ItemRes, readTok_of_tok (nextToken_punct env.isLetter ']' .rbrack k (by simp)), PR.bind]

theorem ItemRes_rcurly (env : Env) (e : Expr) (k : List Sym) :
    ItemRes env e (.chr '}' :: k) = .ok (some (e, ⟨.rcurly, ['}']⟩, ⟨k, false, 1⟩)) := by
  simp [ItemRes, readTok_of_tok (nextToken_punct env.isLetter '}' .rcurly k (by simp)), PR.bind]

theorem ItemRes_comma (env : Env) (e : Expr) (k : List Sym) :
    ItemRes env e (.chr ',' :: k) = .ok (some (e, ⟨.comma, [',']⟩, ⟨k, false, 1⟩)) := by
  simp [ItemRes, readTok_of_tok (nextToken_punct env.isLetter ',' .comma k (by simp)), PR.bind]

theorem ItemRes_rocket (env : Env) (e : Expr) (k : List Sym) :
    ItemRes env e (.chr ' ' :: .chr '=' :: .chr '>' :: k) = .ok (some (e, ⟨.rocket, ['=', '>']⟩, ⟨k, false, 2⟩)) := by
  simp [ItemRes, readTok_blank, readTok_of_tok (nextToken_rocket env.isLetter k), PR.bind]

/-! ### `cvt` is the identity on what `exprOf` produces -/

mutual
def Expr.noEntry : Expr → Bool
  | .entry _ _ => false
  | _ => true
end

theorem cvt_noEntry (l : List Expr) (h : ∀ e ∈ l, e.noEntry = true) : cvt l [] = l := by
  induction l with
  | nil => rfl
  | cons e es ih =>
    have he := h e (by simp)
    have := ih (fun x hx => h x (by simp [hx]))
    cases e <;> simp_all [cvt, Expr.noEntry]

theorem exprOf_noEntry (v : Val) : (exprOf v).noEntry = true := by
  cases v <;> simp [exprOf, Expr.noEntry]

theorem exprsOf_noEntry (vs : List Val) : ∀ e ∈ exprsOf vs, e.noEntry = true := by
  induction vs with
  | nil => simp [exprsOf]
  | cons v vs ih =>
    intro e he
    simp only [exprsOf, List.mem_cons] at he
    rcases he with rfl | he
    · exact exprOf_noEntry v
    · exact ih e he

theorem cvt_append_exprs (items : List Expr) (vs : List Val) (hi : ∀ e ∈ items, e.noEntry = true) :
    cvt (items.reverse ++ exprsOf vs) [] = items.reverse ++ exprsOf vs := by
  apply cvt_noEntry
  intro e he
  simp only [List.mem_append, List.mem_reverse] at he
  rcases he with he | he
  · exact hi e he
  · exact exprsOf_noEntry vs e he

/-! ### scalar items -/

theorem kw_undef : "undef".toList = ['u', 'n', 'd', 'e', 'f'] := by decide
theorem kw_default : "default".toList = ['d', 'e', 'f', 'a', 'u', 'l', 't'] := by decide
theorem kw_true : "true".toList = ['t', 'r', 'u', 'e'] := by decide
theorem kw_false : "false".toList = ['f', 'a', 'l', 's', 'e'] := by decide

theorem item_word (env : Env) (c : Char) (w : Str) (e : Expr) (k : List Sym) (fuel : Nat)
    (hc : isLower c = true) (hw : ∀ d ∈ w, isWord d = true ∧ d ≠ ':' ∧ d ≠ runeError)
    (hkw : keyword (c :: w) = e) (hk : stopOK k = true) :
    ∃ t st, readTok env (syms (c :: w) ++ k) = .ok (t, st) ∧ parseItem env fuel t st = ItemRes env e k := by
  refine ⟨_, _, readTok_of_tok (nextToken_word env.isLetter c w k hc hw hk), ?_⟩
  unfold parseItem
  simp only [hkw, after_eq]

theorem item_scalar (env : Env) (v : Val) (hv : Lit env v) (k : List Sym) (hk : stopOK k = true) (fuel : Nat)
    (hs : match v with | .arr _ => False | .hash _ => False | _ => True) :
    ∃ t st, readTok env (syms (printVal v) ++ k) = .ok (t, st) ∧
      parseItem env fuel t st = ItemRes env (exprOf v) k := by
  cases v with
  | undef =>
    simp only [printVal, kw_undef, exprOf]
    exact item_word env 'u' _ _ k fuel (by decide) (by decide) (by rfl) hk
  | dflt =>
    simp only [printVal, kw_default, exprOf]
    exact item_word env 'd' _ _ k fuel (by decide) (by decide) (by rfl) hk
  | bool b =>
    cases b with
    | true =>
      simp only [printVal, if_true, kw_true, exprOf]
      exact item_word env 't' _ _ k fuel (by decide) (by decide) (by rfl) hk
    | false =>
      simp only [printVal, Bool.false_eq_true, if_false, kw_false, exprOf]
      exact item_word env 'f' _ _ k fuel (by decide) (by decide) (by rfl) hk
  | int i =>
    simp only [Lit] at hv
    refine ⟨_, _, readTok_of_tok (nextToken_int env.isLetter i k hk), ?_⟩
    unfold parseItem
    simp only [parseInt_intText i hv.1 hv.2, after_eq, exprOf]
  | float b t =>
    simp only [Lit] at hv
    refine ⟨_, _, readTok_of_tok (hv.1 k hk), ?_⟩
    unfold parseItem
    simp only [hv.2, after_eq, exprOf]
  | str s =>
    refine ⟨_, _, readTok_of_tok (nextToken_puppetQuote env.isLetter s k), ?_⟩
    unfold parseItem
    simp only [after_eq, exprOf]
  | regexp s =>
    simp only [Lit] at hv
    refine ⟨_, _, readTok_of_tok (nextToken_regexpQuote env.isLetter s k hv.1), ?_⟩
    unfold parseItem
    simp only [hv.2, if_true, after_eq, exprOf]
  | arr vs => exact absurd hs (by simp)
  | hash es => exact absurd hs (by simp)

end Pcore.Syntax
