import Pcore.Proofs.Tokens
import Pcore.Proofs.QualName
import Pcore.Proofs.Parse
/-!
Layers 2–3 of C05 for literal values: the text `printVal v` parses back to `exprOf v`.
The three lemmas `item_rt` / `arr_rt` / `hash_rt` follow `parseItem` / `arrayLoop` / `hashLoop`; the fuel hypotheses
are phrased in the length of the printed text, so that `parseFile`'s `2·|input| + 2` trivially suffices.
-/
namespace Pcore.Syntax

/-- a simple type name: an upper-case letter followed by word characters (no `::`) -/
def TyName (n : Str) : Prop :=
  ∃ c w, n = c :: w ∧ isUpper c = true ∧ ∀ d ∈ w, isWord d = true ∧ d ≠ ':' ∧ d ≠ runeError

/-- the name of an object type: segments `Seg::Seg…`, each an upper-case letter followed by word characters -/
def ObjName (n : Str) : Prop :=
  ∃ c w r, n = qname c w r ∧ isUpper c = true ∧ (∀ d ∈ w, isWord d = true ∧ d ≠ ':' ∧ d ≠ runeError) ∧ ∀ p ∈ r, Seg p

theorem objName_of_tyName {n : Str} (h : TyName n) : ObjName n := by
  obtain ⟨c, w, rfl, hc, hw⟩ := h
  exact ⟨c, w, [], by simp [qname, qrest], hc, hw, by simp⟩

def startsRocket : List Sym → Bool
  | .chr a :: .chr b :: _ => a = '=' && b = '>'
  | _ => false

/-- the continuations the printer produces after a value: the end of the text, `,` `]` `}` `)`, or ` =>` -/
def follows : List Sym → Bool
  | [] => true
  | .chr c :: rest => c = ',' || c = ']' || c = '}' || c = ')' || (c = ' ' && startsRocket rest)
  | .bad :: _ => false

theorem stopOK_of_follows {k : List Sym} (h : follows k = true) : stopOK k = true := by
  cases k with
  | nil => rfl
  | cons s tl =>
    cases s with
    | bad => simp [follows] at h
    | chr c =>
      simp only [follows, Bool.or_eq_true, decide_eq_true_eq, Bool.and_eq_true] at h
      simp only [stopOK, Bool.or_eq_true, decide_eq_true_eq]
      rcases h with (((h | h) | h) | h) | h
      · simp [h]
      · simp [h]
      · simp [h]
      · simp [h]
      · simp [h.1]

mutual
/-- literal values whose leaves can be read back, relative to the oracles of `env` -/
def Lit (env : Env) : Val → Prop
  | .int i => -(int64Bound : Int) ≤ i ∧ i < (int64Bound : Int)
  | .float b t =>
    (∀ k, stopOK k = true → nextToken env.isLetter (syms t ++ k) = .tok ⟨.float, t⟩ k false) ∧ env.pf t = some b
  | .regexp s => rxRep false s = true ∧ env.rxOK s = true
  | .arr vs => LitL env vs
  | .hash es => LitE env es
  | .tyx n none => TyName n
  | .tyx n (some ps) => TyName n ∧ ps ≠ [] ∧ LitL env ps
  | .obj n es => ObjName n ∧ n ≠ "Deferred".toList ∧ LitE env es
  | _ => True
def LitL (env : Env) : List Val → Prop
  | [] => True
  | v :: vs => Lit env v ∧ LitL env vs
def LitE (env : Env) : List (Val × Val) → Prop
  | [] => True
  | (k, v) :: es => Lit env k ∧ Lit env v ∧ LitE env es
end

/-- the item result "value `e`, then whatever token comes next in `k`" -/
def ItemRes (env : Env) (e : Expr) (k : List Sym) : PR (Option (Expr × Tok × PS)) :=
  (readTok env k).bind fun r => .ok (some (e, r.1, r.2))

theorem after_eq (env : Env) (e : Expr) (st : PS) : after env e st = ItemRes env e st.rest := rfl

theorem readTok_of_tok {env : Env} {r : List Sym} {t : Tok} {rest : List Sym} {b : Bool}
    (h : nextToken env.isLetter r = .tok t rest b) : readTok env r = .ok (t, ⟨rest, b, t.s.length⟩) := by
  simp [readTok, h]

theorem readTok_blank (env : Env) (r : List Sym) : readTok env (.chr ' ' :: r) = readTok env r := by
  simp [readTok, nextToken_blank]

theorem ItemRes_rbrack (env : Env) (e : Expr) (k : List Sym) :
    ItemRes env e (.chr ']' :: k) = .ok (some (e, ⟨.rbrack, [']']⟩, ⟨k, false, 1⟩)) := by
  simp [ItemRes, readTok_of_tok (nextToken_punct env.isLetter ']' .rbrack k (by simp)), PR.bind]

theorem ItemRes_rcurly (env : Env) (e : Expr) (k : List Sym) :
    ItemRes env e (.chr '}' :: k) = .ok (some (e, ⟨.rcurly, ['}']⟩, ⟨k, false, 1⟩)) := by
  simp [ItemRes, readTok_of_tok (nextToken_punct env.isLetter '}' .rcurly k (by simp)), PR.bind]

theorem nextToken_lparen (il : Char → Bool) (r : List Sym) : nextToken il (.chr '(' :: r) = .tok ⟨.lparen, ['(']⟩ r false := by
  unfold nextToken; rw [nextTok]; simp [Sym.rune, runeError, startTok, punctTok, mk]

theorem nextToken_rparen (il : Char → Bool) (r : List Sym) : nextToken il (.chr ')' :: r) = .tok ⟨.rparen, [')']⟩ r false := by
  unfold nextToken; rw [nextTok]; simp [Sym.rune, runeError, startTok, punctTok, mk]

theorem ItemRes_rparen (env : Env) (e : Expr) (k : List Sym) :
    ItemRes env e (.chr ')' :: k) = .ok (some (e, ⟨.rparen, [')']⟩, ⟨k, false, 1⟩)) := by
  simp [ItemRes, readTok_of_tok (nextToken_rparen env.isLetter k), PR.bind]

theorem ItemRes_comma (env : Env) (e : Expr) (k : List Sym) :
    ItemRes env e (.chr ',' :: k) = .ok (some (e, ⟨.comma, [',']⟩, ⟨k, false, 1⟩)) := by
  simp [ItemRes, readTok_of_tok (nextToken_punct env.isLetter ',' .comma k (by simp)), PR.bind]

theorem ItemRes_rocket (env : Env) (e : Expr) (k : List Sym) :
    ItemRes env e (.chr ' ' :: .chr '=' :: .chr '>' :: k) = .ok (some (e, ⟨.rocket, ['=', '>']⟩, ⟨k, false, 2⟩)) := by
  simp [ItemRes, readTok_blank, readTok_of_tok (nextToken_rocket env.isLetter k), PR.bind]

/-! ### `cvt` is the identity on what `exprOf` produces -/

mutual
def Expr.noEntry : Expr → Bool
  | .entry _ _ => false
  | _ => true
end

theorem cvt_noEntry (l : List Expr) (h : ∀ e ∈ l, e.noEntry = true) : cvt l [] = l := by
  induction l with
  | nil => rfl
  | cons e es ih =>
    have he := h e (by simp)
    have := ih (fun x hx => h x (by simp [hx]))
    cases e <;> simp_all [cvt, Expr.noEntry]

theorem exprOf_noEntry (v : Val) : (exprOf v).noEntry = true := by
  cases v with
  | tyx n ps => cases ps <;> simp [exprOf, Expr.noEntry]
  | obj n es => cases es <;> simp [exprOf, Expr.noEntry]
  | _ => simp [exprOf, Expr.noEntry]

theorem exprsOf_noEntry (vs : List Val) : ∀ e ∈ exprsOf vs, e.noEntry = true := by
  induction vs with
  | nil => simp [exprsOf]
  | cons v vs ih =>
    intro e he
    simp only [exprsOf, List.mem_cons] at he
    rcases he with rfl | he
    · exact exprOf_noEntry v
    · exact ih e he

theorem cvt_append_exprs (items : List Expr) (vs : List Val) (hi : ∀ e ∈ items, e.noEntry = true) :
    cvt (items.reverse ++ exprsOf vs) [] = items.reverse ++ exprsOf vs := by
  apply cvt_noEntry
  intro e he
  simp only [List.mem_append, List.mem_reverse] at he
  rcases he with he | he
  · exact hi e he
  · exact exprsOf_noEntry vs e he

/-! ### scalar items -/

theorem kw_undef : "undef".toList = ['u', 'n', 'd', 'e', 'f'] := by decide
theorem kw_default : "default".toList = ['d', 'e', 'f', 'a', 'u', 'l', 't'] := by decide
theorem kw_true : "true".toList = ['t', 'r', 'u', 'e'] := by decide
theorem kw_false : "false".toList = ['f', 'a', 'l', 's', 'e'] := by decide

theorem item_word (env : Env) (c : Char) (w : Str) (e : Expr) (k : List Sym) (fuel : Nat)
    (hc : isLower c = true) (hw : ∀ d ∈ w, isWord d = true ∧ d ≠ ':' ∧ d ≠ runeError)
    (hkw : keyword (c :: w) = e) (hk : stopOK k = true) :
    ∃ t st, readTok env (syms (c :: w) ++ k) = .ok (t, st) ∧ parseItem env fuel t st = ItemRes env e k := by
  refine ⟨_, _, readTok_of_tok (nextToken_word env.isLetter c w k hc hw hk), ?_⟩
  unfold parseItem
  simp only [hkw, after_eq]

theorem item_scalar (env : Env) (v : Val) (hv : Lit env v) (k : List Sym) (hk : stopOK k = true) (fuel : Nat)
    (hs : match v with | .arr _ => False | .hash _ => False | .tyx _ _ => False | .obj _ _ => False | _ => True) :
    ∃ t st, readTok env (syms (printVal v) ++ k) = .ok (t, st) ∧
      parseItem env fuel t st = ItemRes env (exprOf v) k := by
  cases v with
  | undef =>
    simp only [printVal, kw_undef, exprOf]
    exact item_word env 'u' _ _ k fuel (by decide) (by decide) (by rfl) hk
  | dflt =>
    simp only [printVal, kw_default, exprOf]
    exact item_word env 'd' _ _ k fuel (by decide) (by decide) (by rfl) hk
  | bool b =>
    cases b with
    | true =>
      simp only [printVal, if_true, kw_true, exprOf]
      exact item_word env 't' _ _ k fuel (by decide) (by decide) (by rfl) hk
    | false =>
      simp only [printVal, Bool.false_eq_true, if_false, kw_false, exprOf]
      exact item_word env 'f' _ _ k fuel (by decide) (by decide) (by rfl) hk
  | int i =>
    simp only [Lit] at hv
    refine ⟨_, _, readTok_of_tok (nextToken_int env.isLetter i k hk), ?_⟩
    unfold parseItem
    simp only [parseInt_intText i hv.1 hv.2, after_eq, exprOf]
  | float b t =>
    simp only [Lit] at hv
    refine ⟨_, _, readTok_of_tok (hv.1 k hk), ?_⟩
    unfold parseItem
    simp only [hv.2, after_eq, exprOf]
  | str s =>
    refine ⟨_, _, readTok_of_tok (nextToken_puppetQuote env.isLetter s k), ?_⟩
    unfold parseItem
    simp only [after_eq, exprOf]
  | regexp s =>
    simp only [Lit] at hv
    refine ⟨_, _, readTok_of_tok (nextToken_regexpQuote env.isLetter s k hv.1), ?_⟩
    unfold parseItem
    simp only [hv.2, if_true, after_eq, exprOf]
  | arr vs => exact absurd hs (by simp)
  | hash es => exact absurd hs (by simp)
  | tyx n ps => exact absurd hs (by simp)
  | obj n es => exact absurd hs (by simp)

/-! ### containers -/

theorem syms_length (s : Str) : (syms s).length = s.length := by simp [syms]

theorem readTok_nil' (env : Env) : readTok env [] = .ok (⟨.eoi, []⟩, ⟨[], true, 0⟩) := by
  simp [readTok, nextToken, nextTok]

theorem follows_rbrack (k : List Sym) : follows (.chr ']' :: k) = true := rfl
theorem follows_rcurly (k : List Sym) : follows (.chr '}' :: k) = true := rfl
theorem follows_comma (k : List Sym) : follows (.chr ',' :: k) = true := rfl
theorem follows_rocket (k : List Sym) : follows (.chr ' ' :: .chr '=' :: .chr '>' :: k) = true := rfl

/-- after a value the next token never opens a bracket (so a bare type name stays bare) -/
theorem follows_tok (env : Env) (k : List Sym) (h : follows k = true) :
    ∃ tk st1, readTok env k = .ok (tk, st1) ∧ tk.k ≠ .lbrack ∧ tk.k ≠ .lcurly ∧ tk.k ≠ .lparen := by
  cases k with
  | nil => exact ⟨_, _, readTok_nil' env, by decide, by decide, by decide⟩
  | cons s tl =>
    cases s with
    | bad => simp [follows] at h
    | chr c =>
      simp only [follows, Bool.or_eq_true, decide_eq_true_eq, Bool.and_eq_true] at h
      rcases h with (((h | h) | h) | h) | h
      · subst h
        exact ⟨_, _, readTok_of_tok (nextToken_punct env.isLetter ',' .comma tl (by simp)), by decide, by decide, by decide⟩
      · subst h
        exact ⟨_, _, readTok_of_tok (nextToken_punct env.isLetter ']' .rbrack tl (by simp)), by decide, by decide, by decide⟩
      · subst h
        exact ⟨_, _, readTok_of_tok (nextToken_punct env.isLetter '}' .rcurly tl (by simp)), by decide, by decide, by decide⟩
      · subst h
        have : nextToken env.isLetter (.chr ')' :: tl) = .tok ⟨.rparen, [')']⟩ tl false := by
          unfold nextToken; rw [nextTok]; simp [Sym.rune, runeError, startTok, punctTok, mk]
        exact ⟨_, _, readTok_of_tok this, by decide, by decide, by decide⟩
      · obtain ⟨hc, hr⟩ := h
        subst hc
        cases tl with
        | nil => simp [startsRocket] at hr
        | cons s1 tl1 =>
          cases s1 with
          | bad => simp [startsRocket] at hr
          | chr a =>
            cases tl1 with
            | nil => simp [startsRocket] at hr
            | cons s2 tl2 =>
              cases s2 with
              | bad => simp [startsRocket] at hr
              | chr b =>
                simp only [startsRocket, Bool.and_eq_true, decide_eq_true_eq] at hr
                obtain ⟨rfl, rfl⟩ := hr
                refine ⟨⟨.rocket, ['=', '>']⟩, ⟨tl2, false, 2⟩, ?_, by decide, by decide, by decide⟩
                rw [readTok_blank]; exact readTok_of_tok (nextToken_rocket env.isLetter tl2)

/-- a type name that is not followed by an opening bracket is a bare type -/
theorem parseItem_name_bare (env : Env) (fuel : Nat) (n : Str) (st : PS) (h : follows st.rest = true) :
    parseItem env fuel ⟨.name, n⟩ st = ItemRes env (.dtype n none) st.rest := by
  obtain ⟨tk, st1, h1, h2, h3, h4⟩ := follows_tok env st.rest h
  unfold parseItem ItemRes
  simp only [h1, PR.bind]

theorem follows_rparen (k : List Sym) : follows (.chr ')' :: k) = true := rfl

theorem identStop_lparen (k : List Sym) : identStop (.chr '(' :: k) := ⟨'(', rfl, by decide, by decide, by decide⟩

/-- the `k => v` arguments of a constructor call as the parser collects them -/
def entryExprs : List (Val × Val) → List Expr
  | [] => []
  | (k, v) :: es => .entry (exprOf k) (exprOf v) :: entryExprs es

/-- `convertHashEntries` on a list that consists of entries only: one hash -/
theorem cvt_entries (es : List (Val × Val)) (en : List (Expr × Expr)) (h : es ≠ [] ∨ en ≠ []) :
    cvt (entryExprs es) en = [.hash (en.reverse ++ entriesOf es)] := by
  induction es generalizing en with
  | nil =>
    cases en with
    | nil => simp at h
    | cons p ps => simp [entryExprs, cvt, entriesOf]
  | cons e es ih =>
    obtain ⟨k, v⟩ := e
    simp only [entryExprs, cvt, entriesOf]
    rw [ih _ (Or.inr (by simp))]
    simp

mutual
theorem item_rt (env : Env) : (v : Val) → Lit env v → (k : List Sym) → follows k = true → (fuel : Nat) →
    2 * (printVal v).length ≤ fuel →
    ∃ t st, readTok env (syms (printVal v) ++ k) = .ok (t, st) ∧
      parseItem env fuel t st = ItemRes env (exprOf v) k
  | .arr vs, hv, k, hk, fuel, hf => by
    simp only [printVal, List.length_cons, List.length_append, List.length_nil] at hf
    obtain ⟨f, rfl⟩ : ∃ f, fuel = f + 1 := ⟨fuel - 1, by omega⟩
    refine ⟨⟨.lbrack, ['[']⟩, ⟨syms (printVals vs ++ [']']) ++ k, false, 1⟩, ?_, ?_⟩
    · simp only [printVal, syms_cons, List.cons_append]
      exact readTok_of_tok (nextToken_punct env.isLetter '[' .lbrack _ (by simp))
    · unfold parseItem
      simp only
      have hlit : LitL env vs := by simpa [Lit] using hv
      rw [arr_rt env vs hlit k hk f (by omega) _ [] (by simp) (by simp [syms_append])]
      simp only [PR.bind, after_eq, List.reverse_nil, List.nil_append, exprOf]
      rw [cvt_noEntry _ (exprsOf_noEntry vs)]
  | .hash es, hv, k, hk, fuel, hf => by
    simp only [printVal, List.length_cons, List.length_append, List.length_nil] at hf
    obtain ⟨f, rfl⟩ : ∃ f, fuel = f + 1 := ⟨fuel - 1, by omega⟩
    refine ⟨⟨.lcurly, ['{']⟩, ⟨syms (printEntries es ++ ['}']) ++ k, false, 1⟩, ?_, ?_⟩
    · simp only [printVal, syms_cons, List.cons_append]
      exact readTok_of_tok (nextToken_punct env.isLetter '{' .lcurly _ (by simp))
    · unfold parseItem
      simp only
      have hlit : LitE env es := by simpa [Lit] using hv
      rw [hash_rt env es hlit k hk f (by omega) _ [] (by simp [syms_append])]
      simp only [PR.bind, after_eq, List.reverse_nil, List.nil_append, exprOf]
  | .tyx n none, hv, k, hk, fuel, _ => by
    obtain ⟨c, w, rfl, hc, hw⟩ : TyName n := by simpa [Lit] using hv
    refine ⟨⟨.name, c :: w⟩, ⟨k, false, (c :: w).length⟩, ?_, ?_⟩
    · exact readTok_of_tok (nextToken_name env.isLetter c w k hc hw (identStop_of_stopOK (stopOK_of_follows hk)))
    · rw [parseItem_name_bare env fuel (c :: w) ⟨k, false, (c :: w).length⟩ hk]
      simp [exprOf]
  | .tyx n (some ps), hv, k, hk, fuel, hf => by
    obtain ⟨⟨c, w, rfl, hc, hw⟩, hne, hlit⟩ : TyName n ∧ ps ≠ [] ∧ LitL env ps := by simpa [Lit] using hv
    simp only [printVal, List.length_cons, List.length_append, List.length_nil] at hf
    obtain ⟨f, rfl⟩ : ∃ f, fuel = f + 1 := ⟨fuel - 1, by omega⟩
    refine ⟨⟨.name, c :: w⟩, ⟨.chr '[' :: (syms (printVals ps ++ [']']) ++ k), false, (c :: w).length⟩, ?_, ?_⟩
    · have := nextToken_name env.isLetter c w (.chr '[' :: (syms (printVals ps ++ [']']) ++ k)) hc hw (identStop_lbrack _)
      simp only [printVal, syms_append, syms_cons, List.append_assoc, List.cons_append] at this ⊢
      exact readTok_of_tok this
    · unfold parseItem
      simp only
      rw [readTok_of_tok (nextToken_punct env.isLetter '[' .lbrack _ (by simp))]
      simp only [PR.bind]
      rw [arr_rt env ps hlit k hk f (by omega) _ [] (by simp) (by simp [syms_append])]
      simp only [asArray, after_eq, List.reverse_nil, List.nil_append, exprOf]
      rw [cvt_noEntry _ (exprsOf_noEntry ps)]
      have hemp : (exprsOf ps).isEmpty = false := by
        cases ps with
        | nil => exact absurd rfl hne
        | cons p ps' => simp [exprsOf]
      simp [hemp]
  | .obj n es, hv, k, hk, fuel, hf => by
    obtain ⟨⟨c, w, r, rfl, hc, hw, hr⟩, hnd, hlit⟩ : ObjName n ∧ n ≠ "Deferred".toList ∧ LitE env es := by
      simpa [Lit] using hv
    have hlen : 1 ≤ (qname c w r).length := by simp [qname]
    simp only [printVal, List.length_cons, List.length_append, List.length_nil] at hf
    obtain ⟨f, rfl⟩ : ∃ f, fuel = f + 1 := ⟨fuel - 1, by omega⟩
    refine ⟨⟨.name, qname c w r⟩, ⟨.chr '(' :: (syms (printEntries es ++ [')']) ++ k), false, (qname c w r).length⟩, ?_, ?_⟩
    · have := nextToken_qname env.isLetter c w r (.chr '(' :: (syms (printEntries es ++ [')']) ++ k)) hc hw hr
        (identStop_lparen _)
      simp only [printVal, syms_append, syms_cons, List.append_assoc, List.cons_append] at this ⊢
      exact readTok_of_tok this
    · unfold parseItem
      simp only
      rw [readTok_of_tok (nextToken_lparen env.isLetter _)]
      simp only [PR.bind]
      cases es with
      | nil =>
        -- `Name()`
        obtain ⟨f', rfl⟩ : ∃ f', f = f' + 1 := ⟨f - 1, by omega⟩
        unfold arrayLoop
        simp only [printEntries, List.nil_append, syms_cons, syms_nil, List.cons_append]
        rw [readTok_of_tok (nextToken_rparen env.isLetter k)]
        simp only [PR.bind]
        unfold parseItem
        simp only [show (TK.rparen = TK.rparen) = True from eq_self _, if_true, List.reverse_nil, cvt, asArray]
        rw [if_pos hnd]
        simp only [after_eq, exprOf]
      | cons e es' =>
        have hp := params_rt env (e :: es') hlit (by simp) k hk f (by omega)
          ⟨syms (printEntries (e :: es') ++ [')']) ++ k, false, ['('].length⟩ [] rfl
        simp only [entryExprs, List.reverse_nil, List.nil_append] at hp
        simp only [syms_append] at hp ⊢
        rw [hp]
        simp only [asArray]
        rw [if_pos hnd]
        have hc2 := cvt_entries (e :: es') [] (Or.inl (by simp))
        simp only [entryExprs, List.reverse_nil, List.nil_append] at hc2
        rw [hc2]
        simp only [after_eq, exprOf]
  | .undef, hv, k, hk, fuel, _ => item_scalar env _ hv k (stopOK_of_follows hk) fuel trivial
  | .dflt, hv, k, hk, fuel, _ => item_scalar env _ hv k (stopOK_of_follows hk) fuel trivial
  | .bool _, hv, k, hk, fuel, _ => item_scalar env _ hv k (stopOK_of_follows hk) fuel trivial
  | .int _, hv, k, hk, fuel, _ => item_scalar env _ hv k (stopOK_of_follows hk) fuel trivial
  | .float _ _, hv, k, hk, fuel, _ => item_scalar env _ hv k (stopOK_of_follows hk) fuel trivial
  | .str _, hv, k, hk, fuel, _ => item_scalar env _ hv k (stopOK_of_follows hk) fuel trivial
  | .regexp _, hv, k, hk, fuel, _ => item_scalar env _ hv k (stopOK_of_follows hk) fuel trivial

theorem arr_rt (env : Env) : (vs : List Val) → LitL env vs → (k : List Sym) → follows k = true → (fuel : Nat) →
    2 * (printVals vs).length + 1 ≤ fuel → (st : PS) → (items : List Expr) → (∀ e ∈ items, e.noEntry = true) →
    readTok env st.rest = readTok env (syms (printVals vs ++ [']']) ++ k) →
    arrayLoop env fuel .rbrack st items none =
      .ok (.arr (cvt (items.reverse ++ exprsOf vs) []), ⟨k, false, 1⟩)
  | [], _, k, _, fuel, hf, st, items, _, hst => by
    obtain ⟨f, rfl⟩ : ∃ f, fuel = f + 1 := ⟨fuel - 1, by omega⟩
    unfold arrayLoop
    simp only [printVals, List.nil_append, syms_cons, syms_nil, List.cons_append] at hst
    rw [hst, readTok_of_tok (nextToken_punct env.isLetter ']' .rbrack k (by simp))]
    simp only [PR.bind]
    unfold parseItem
    simp [exprsOf]
  | [v], hvs, k, hk, fuel, hf, st, items, hi, hst => by
    obtain ⟨f, rfl⟩ : ∃ f, fuel = f + 1 := ⟨fuel - 1, by omega⟩
    simp only [printVals] at hf hst
    have hv : Lit env v := hvs.1
    obtain ⟨t, st1, h1, h2⟩ := item_rt env v hv (.chr ']' :: k) (by rfl) f (by omega)
    unfold arrayLoop
    rw [hst]
    simp only [syms_append, syms_cons, syms_nil, List.append_assoc, List.cons_append, List.nil_append] at h1 ⊢
    rw [h1]
    simp only [PR.bind, h2, ItemRes_rbrack]
    simp [exprsOf]
  | v :: w :: ws, hvs, k, hk, fuel, hf, st, items, hi, hst => by
    obtain ⟨f, rfl⟩ : ∃ f, fuel = f + 1 := ⟨fuel - 1, by omega⟩
    simp only [printVals, List.length_append, List.length_cons] at hf
    have hv : Lit env v := hvs.1
    have hrest : LitL env (w :: ws) := hvs.2
    let X := syms (printVals (w :: ws) ++ [']']) ++ k
    obtain ⟨t, st1, h1, h2⟩ := item_rt env v hv (.chr ',' :: .chr ' ' :: X) (by rfl) f (by omega)
    have hrec := arr_rt env (w :: ws) hrest k hk f (by omega) ⟨.chr ' ' :: X, false, 1⟩ (exprOf v :: items)
      (by intro e he; simp only [List.mem_cons] at he; rcases he with rfl | he
          · exact exprOf_noEntry v
          · exact hi e he)
      (by simp only [readTok_blank]; rfl)
    unfold arrayLoop
    rw [hst]
    have htxt : syms (printVals (v :: w :: ws) ++ [']']) ++ k = syms (printVal v) ++ (.chr ',' :: .chr ' ' :: X) := by
      simp [printVals, syms_append, syms_cons, X]
    rw [htxt, h1]
    simp only [PR.bind, h2, ItemRes_comma]
    simp only [show (TK.comma = TK.rbrack) = False by decide, if_false, if_true]
    rw [hrec]
    simp [exprsOf]

theorem hash_rt (env : Env) : (es : List (Val × Val)) → LitE env es → (k : List Sym) → follows k = true → (fuel : Nat) →
    2 * (printEntries es).length + 1 ≤ fuel → (st : PS) → (items : List (Expr × Expr)) →
    readTok env st.rest = readTok env (syms (printEntries es ++ ['}']) ++ k) →
    hashLoop env fuel st items = .ok (items.reverse ++ entriesOf es, ⟨k, false, 1⟩)
  | [], _, k, _, fuel, hf, st, items, hst => by
    obtain ⟨f, rfl⟩ : ∃ f, fuel = f + 1 := ⟨fuel - 1, by omega⟩
    unfold hashLoop
    simp only [printEntries, List.nil_append, syms_cons, syms_nil, List.cons_append] at hst
    rw [hst, readTok_of_tok (nextToken_punct env.isLetter '}' .rcurly k (by simp))]
    simp only [PR.bind]
    unfold parseItem
    simp [entriesOf]
  | [(kk, vv)], hes, k, hk, fuel, hf, st, items, hst => by
    obtain ⟨f, rfl⟩ : ∃ f, fuel = f + 1 := ⟨fuel - 1, by omega⟩
    simp only [printEntries, List.length_append] at hf hst
    have hkk : Lit env kk := hes.1
    have hvv : Lit env vv := hes.2.1
    let Y := syms (printVal vv) ++ (.chr '}' :: k)
    obtain ⟨t, st1, h1, h2⟩ := item_rt env kk hkk (.chr ' ' :: .chr '=' :: .chr '>' :: .chr ' ' :: Y)
      (by rfl) f (by omega)
    obtain ⟨t2, st3, h3, h4⟩ := item_rt env vv hvv (.chr '}' :: k) (by rfl) f (by omega)
    unfold hashLoop
    rw [hst]
    have htxt : syms (printVal kk ++ (" => ".toList ++ printVal vv) ++ ['}']) ++ k =
        syms (printVal kk) ++ (.chr ' ' :: .chr '=' :: .chr '>' :: .chr ' ' :: Y) := by
      have : " => ".toList = [' ', '=', '>', ' '] := by decide
      simp [this, syms_append, syms_cons, Y]
    rw [htxt, h1]
    simp only [PR.bind, h2, ItemRes_rocket]
    simp only [ne_eq, not_true_eq_false, if_false, readTok_blank]
    rw [h3]
    simp only [h4, ItemRes_rcurly]
    simp [entriesOf]
  | (kk, vv) :: e2 :: es, hes, k, hk, fuel, hf, st, items, hst => by
    obtain ⟨f, rfl⟩ : ∃ f, fuel = f + 1 := ⟨fuel - 1, by omega⟩
    simp only [printEntries, List.length_append, List.length_cons] at hf
    have hkk : Lit env kk := hes.1
    have hvv : Lit env vv := hes.2.1
    have hrest : LitE env (e2 :: es) := hes.2.2
    let X := syms (printEntries (e2 :: es) ++ ['}']) ++ k
    let Y := syms (printVal vv) ++ (.chr ',' :: .chr ' ' :: X)
    obtain ⟨t, st1, h1, h2⟩ := item_rt env kk hkk (.chr ' ' :: .chr '=' :: .chr '>' :: .chr ' ' :: Y)
      (by rfl) f (by omega)
    obtain ⟨t2, st3, h3, h4⟩ := item_rt env vv hvv (.chr ',' :: .chr ' ' :: X) (by rfl) f (by omega)
    have hrec := hash_rt env (e2 :: es) hrest k hk f (by omega) ⟨.chr ' ' :: X, false, 1⟩
      ((exprOf kk, exprOf vv) :: items) (by simp only [readTok_blank]; rfl)
    unfold hashLoop
    rw [hst]
    have htxt : syms (printEntries ((kk, vv) :: e2 :: es) ++ ['}']) ++ k =
        syms (printVal kk) ++ (.chr ' ' :: .chr '=' :: .chr '>' :: .chr ' ' :: Y) := by
      have : " => ".toList = [' ', '=', '>', ' '] := by decide
      simp [printEntries, this, syms_append, syms_cons, X, Y]
    rw [htxt, h1]
    simp only [PR.bind, h2, ItemRes_rocket]
    simp only [ne_eq, not_true_eq_false, if_false, readTok_blank]
    rw [h3]
    simp only [h4, ItemRes_comma]
    simp only [show (TK.comma = TK.rcurly) = False by decide, if_false, if_true]
    rw [hrec]
    simp [entriesOf]
/-- the arguments `k => v, …` of a constructor call `Name(…)`, entered after `(`: `p.params()` collects one entry per pair
    (two loop iterations each: the key, then — with `rockLhs` set — the value) -/
theorem params_rt (env : Env) : (es : List (Val × Val)) → LitE env es → es ≠ [] → (k : List Sym) → follows k = true →
    (fuel : Nat) → 2 * (printEntries es).length + 2 ≤ fuel → (st : PS) → (items : List (Val × Val)) →
    readTok env st.rest = readTok env (syms (printEntries es ++ [')']) ++ k) →
    arrayLoop env fuel .rparen st (entryExprs items).reverse none =
      .ok (.arr (cvt (entryExprs items ++ entryExprs es) []), ⟨k, false, 1⟩)
  | [], _, hne, _, _, _, _, _, _, _ => absurd rfl hne
  | [(kk, vv)], hes, _, k, hk, fuel, hf, st, items, hst => by
    obtain ⟨f, rfl⟩ : ∃ f, fuel = f + 1 := ⟨fuel - 1, by omega⟩
    obtain ⟨f', rfl⟩ : ∃ f', f = f' + 1 := ⟨f - 1, by omega⟩
    simp only [printEntries, List.length_append] at hf hst
    have hkk : Lit env kk := hes.1
    have hvv : Lit env vv := hes.2.1
    let Y := syms (printVal vv) ++ (.chr ')' :: k)
    obtain ⟨t, st1, h1, h2⟩ := item_rt env kk hkk (.chr ' ' :: .chr '=' :: .chr '>' :: .chr ' ' :: Y)
      (by rfl) (f' + 1) (by omega)
    obtain ⟨t2, st3, h3, h4⟩ := item_rt env vv hvv (.chr ')' :: k) (by rfl) f' (by omega)
    have htxt : syms (printVal kk ++ (" => ".toList ++ printVal vv) ++ [')']) ++ k =
        syms (printVal kk) ++ (.chr ' ' :: .chr '=' :: .chr '>' :: .chr ' ' :: Y) := by
      have : " => ".toList = [' ', '=', '>', ' '] := by decide
      simp [this, syms_append, syms_cons, Y]
    unfold arrayLoop
    rw [hst, htxt, h1]
    simp only [PR.bind, h2, ItemRes_rocket]
    simp only [show (TK.rocket = TK.rparen) = False by decide, show (TK.rocket = TK.comma) = False by decide, if_false, if_true]
    unfold arrayLoop
    simp only [readTok_blank]
    rw [h3]
    simp only [PR.bind, h4, ItemRes_rparen, if_true]
    simp [entryExprs]
  | (kk, vv) :: e2 :: es, hes, _, k, hk, fuel, hf, st, items, hst => by
    obtain ⟨f, rfl⟩ : ∃ f, fuel = f + 1 := ⟨fuel - 1, by omega⟩
    obtain ⟨f', rfl⟩ : ∃ f', f = f' + 1 := ⟨f - 1, by omega⟩
    simp only [printEntries, List.length_append, List.length_cons] at hf
    have hkk : Lit env kk := hes.1
    have hvv : Lit env vv := hes.2.1
    have hrest : LitE env (e2 :: es) := hes.2.2
    let X := syms (printEntries (e2 :: es) ++ [')']) ++ k
    let Y := syms (printVal vv) ++ (.chr ',' :: .chr ' ' :: X)
    obtain ⟨t, st1, h1, h2⟩ := item_rt env kk hkk (.chr ' ' :: .chr '=' :: .chr '>' :: .chr ' ' :: Y)
      (by rfl) (f' + 1) (by omega)
    obtain ⟨t2, st3, h3, h4⟩ := item_rt env vv hvv (.chr ',' :: .chr ' ' :: X) (by rfl) f' (by omega)
    have hrec := params_rt env (e2 :: es) hrest (by simp) k hk f' (by omega) ⟨.chr ' ' :: X, false, 1⟩
      (items ++ [(kk, vv)]) (by simp only [readTok_blank]; rfl)
    have htxt : syms (printEntries ((kk, vv) :: e2 :: es) ++ [')']) ++ k =
        syms (printVal kk) ++ (.chr ' ' :: .chr '=' :: .chr '>' :: .chr ' ' :: Y) := by
      have : " => ".toList = [' ', '=', '>', ' '] := by decide
      simp [printEntries, this, syms_append, syms_cons, X, Y]
    have hitems : (entryExprs (items ++ [(kk, vv)])).reverse = .entry (exprOf kk) (exprOf vv) :: (entryExprs items).reverse := by
      have : ∀ a b : List (Val × Val), entryExprs (a ++ b) = entryExprs a ++ entryExprs b := by
        intro a b; induction a with
        | nil => rfl
        | cons x xs ih => obtain ⟨p, q⟩ := x; simp [entryExprs, ih]
      simp [this, entryExprs]
    have happ : entryExprs (items ++ [(kk, vv)]) ++ entryExprs (e2 :: es) = entryExprs items ++ entryExprs ((kk, vv) :: e2 :: es) := by
      have : ∀ a b : List (Val × Val), entryExprs (a ++ b) = entryExprs a ++ entryExprs b := by
        intro a b; induction a with
        | nil => rfl
        | cons x xs ih => obtain ⟨p, q⟩ := x; simp [entryExprs, ih]
      simp [this, entryExprs]
    unfold arrayLoop
    rw [hst, htxt, h1]
    simp only [PR.bind, h2, ItemRes_rocket]
    simp only [show (TK.rocket = TK.rparen) = False by decide, show (TK.rocket = TK.comma) = False by decide, if_false, if_true]
    unfold arrayLoop
    simp only [readTok_blank]
    rw [h3]
    simp only [PR.bind, h4, ItemRes_comma]
    simp only [show (TK.comma = TK.rparen) = False by decide, if_false, if_true]
    rw [← hitems, hrec, happ]
end

/-! ### the whole text -/

theorem readTok_nil (env : Env) : readTok env [] = .ok (⟨.eoi, []⟩, ⟨[], true, 0⟩) := by
  simp [readTok, nextToken, nextTok]

theorem first_tok_not_type (env : Env) (v : Val) (hv : Lit env v) (k : List Sym) (hk : stopOK k = true) (t : Tok) (st : PS)
    (h : readTok env (syms (printVal v) ++ k) = .ok (t, st)) : ¬(t.k = .ident ∧ t.s = "type".toList) := by
  have inj : ∀ {t' : Tok} {st' : PS}, readTok env (syms (printVal v) ++ k) = .ok (t', st') → t = t' := by
    intro t' st' h'; rw [h] at h'; cases h'; rfl
  have word : ∀ (c : Char) (w : Str), printVal v = c :: w → isLower c = true →
      (∀ d ∈ w, isWord d = true ∧ d ≠ ':' ∧ d ≠ runeError) → (c :: w) ≠ "type".toList →
      ¬(t.k = .ident ∧ t.s = "type".toList) := by
    intro c w hp hc hw hne
    rw [hp] at inj
    have := inj (readTok_of_tok (nextToken_word env.isLetter c w k hc hw hk))
    subst this
    intro hh; exact hne hh.2
  cases v with
  | undef => exact word 'u' ['n', 'd', 'e', 'f'] (by simp only [printVal, kw_undef]) (by decide) (by decide) (by decide)
  | dflt =>
    exact word 'd' ['e', 'f', 'a', 'u', 'l', 't'] (by simp only [printVal, kw_default]) (by decide) (by decide)
      (by decide)
  | bool b =>
    cases b with
    | true =>
      exact word 't' ['r', 'u', 'e'] (by simp only [printVal, if_true, kw_true]) (by decide) (by decide) (by decide)
    | false =>
      exact word 'f' ['a', 'l', 's', 'e'] (by simp only [printVal, Bool.false_eq_true, if_false, kw_false]) (by decide)
        (by decide) (by decide)
  | int i =>
    have := inj (readTok_of_tok (nextToken_int env.isLetter i k hk)); subst this; simp
  | float b tx =>
    simp only [Lit] at hv
    have := inj (readTok_of_tok (hv.1 k hk)); subst this; simp
  | str s =>
    have := inj (readTok_of_tok (nextToken_puppetQuote env.isLetter s k)); subst this; simp
  | regexp s =>
    simp only [Lit] at hv
    have := inj (readTok_of_tok (nextToken_regexpQuote env.isLetter s k hv.1)); subst this; simp
  | arr vs =>
    have := inj (show readTok env (syms (printVal (.arr vs)) ++ k) = _ from by
      simp only [printVal, syms_cons, List.cons_append]
      exact readTok_of_tok (nextToken_punct env.isLetter '[' .lbrack _ (by simp)))
    subst this; simp
  | hash es =>
    have := inj (show readTok env (syms (printVal (.hash es)) ++ k) = _ from by
      simp only [printVal, syms_cons, List.cons_append]
      exact readTok_of_tok (nextToken_punct env.isLetter '{' .lcurly _ (by simp)))
    subst this; simp
  | obj n es =>
    obtain ⟨⟨c, w, r, rfl, hc, hw, hr⟩, _, _⟩ : ObjName n ∧ n ≠ "Deferred".toList ∧ LitE env es := by
      simpa [Lit] using hv
    have h' := nextToken_qname env.isLetter c w r (.chr '(' :: (syms (printEntries es ++ [')']) ++ k)) hc hw hr
      (identStop_lparen _)
    have := inj (show readTok env (syms (printVal (.obj (qname c w r) es)) ++ k) = _ from by
      simp only [printVal, syms_append, syms_cons, List.append_assoc, List.cons_append] at h' ⊢
      exact readTok_of_tok h')
    subst this; simp
  | tyx n ps =>
    cases ps with
    | none =>
      obtain ⟨c, w, rfl, hc, hw⟩ : TyName n := by simpa [Lit] using hv
      have := inj (readTok_of_tok (nextToken_name env.isLetter c w k hc hw (identStop_of_stopOK hk)))
      subst this; simp
    | some ps =>
      obtain ⟨⟨c, w, rfl, hc, hw⟩, _, _⟩ : TyName n ∧ ps ≠ [] ∧ LitL env ps := by simpa [Lit] using hv
      have h' := nextToken_name env.isLetter c w (.chr '[' :: (syms (printVals ps ++ [']']) ++ k)) hc hw (identStop_lbrack _)
      have := inj (show readTok env (syms (printVal (.tyx (c :: w) (some ps))) ++ k) = _ from by
        simp only [printVal, syms_append, syms_cons, List.append_assoc, List.cons_append] at h' ⊢
        exact readTok_of_tok h')
      subst this; simp

/-- **values**: the program-format text of a literal value parses back to that value -/
theorem value_rt (env : Env) (v : Val) (hv : Lit env v) : parse env (syms (printVal v)) = .value (exprOf v) := by
  obtain ⟨t, st, h1, h2⟩ := item_rt env v hv [] rfl (fuelFor (syms (printVal v)))
    (by simp [fuelFor, syms_length])
  have hnt := first_tok_not_type env v hv [] rfl t st h1
  simp only [List.append_nil] at h1
  unfold parse parseFile
  simp only [h1, PR.bind, hnt, if_false]
  unfold parseTop
  simp only [h2, ItemRes, readTok_nil, PR.bind]
  simp

end Pcore.Syntax
