import Pcore.Proofs.SerRefs
/-! Helper lemmas for C10, part 7: a decidable check of the sharing hypothesis.  `sharedB c v` collects, in pre-order, the
    reference-free event of every identified node and checks that every node agrees with the FIRST entry of its
    identity.  The driver evaluates it on every op value, so the hypothesis `Shared` of `C10_refs_wellformed` and
    `C10_roundtrip_partial` is checked at run time for everything the harness generates. -/
namespace Pcore.Ser

mutual
theorem Ev.beq_eq : ∀ (a b : Ev), a.beq b = true → a = b
  | .add a, .add b, h => by simp [Ev.beq] at h; rw [h]
  | .ref a, .ref b, h => by simp [Ev.beq] at h; rw [h]
  | .arr a, .arr b, h => by simp only [Ev.beq] at h; rw [beqList_eq a b h]
  | .hsh a, .hsh b, h => by simp only [Ev.beq] at h; rw [beqList_eq a b h]
  | .add _, .ref _, h => by simp [Ev.beq] at h
  | .add _, .arr _, h => by simp [Ev.beq] at h
  | .add _, .hsh _, h => by simp [Ev.beq] at h
  | .ref _, .add _, h => by simp [Ev.beq] at h
  | .ref _, .arr _, h => by simp [Ev.beq] at h
  | .ref _, .hsh _, h => by simp [Ev.beq] at h
  | .arr _, .add _, h => by simp [Ev.beq] at h
  | .arr _, .ref _, h => by simp [Ev.beq] at h
  | .arr _, .hsh _, h => by simp [Ev.beq] at h
  | .hsh _, .add _, h => by simp [Ev.beq] at h
  | .hsh _, .ref _, h => by simp [Ev.beq] at h
  | .hsh _, .arr _, h => by simp [Ev.beq] at h
theorem beqList_eq : ∀ (a b : List Ev), beqList a b = true → a = b
  | [], [], _ => rfl
  | x :: xs, y :: ys, h => by
      simp only [beqList, Bool.and_eq_true] at h
      rw [Ev.beq_eq x y h.1, beqList_eq xs ys h.2]
  | [], _ :: _, h => by simp [beqList] at h
  | _ :: _, [], h => by simp [beqList] at h
end

mutual
theorem cohB_sound (c : Cfg) (tbl : List (Key × Ev)) : ∀ (v : V), cohB c tbl v = true → Coh c (Fof tbl) v
  | .hash id es, h => by
      simp only [cohB, Bool.and_eq_true] at h
      exact ⟨Ev.beq_eq _ _ h.1, cohBPairs_sound c tbl es h.2⟩
  | .arr id vs, h => by
      simp only [cohB, Bool.and_eq_true] at h
      exact ⟨Ev.beq_eq _ _ h.1, cohBList_sound c tbl vs h.2⟩
  | .sens id v, h => by
      simp only [cohB, Bool.and_eq_true] at h
      exact ⟨Ev.beq_eq _ _ h.1, cohB_sound c tbl v h.2⟩
  | .bin id bs, h => by simp only [cohB] at h; exact Ev.beq_eq _ _ h
  | .leaf id k enc disp, h => by simp only [cohB] at h; exact Ev.beq_eq _ _ h
  | .obj id tn disp as, h => by
      simp only [cohB, Bool.and_eq_true] at h
      exact ⟨Ev.beq_eq _ _ h.1, cohBAttrs_sound c tbl as h.2⟩
  | .undef, _ => by simp [Coh]
  | .dflt, _ => by simp [Coh]
  | .bool _, _ => by simp [Coh]
  | .int _, _ => by simp [Coh]
  | .flt _, _ => by simp [Coh]
  | .str _, _ => by simp [Coh]
theorem cohBList_sound (c : Cfg) (tbl : List (Key × Ev)) : ∀ (vs : List V), cohBList c tbl vs = true → CohList c (Fof tbl) vs
  | [], _ => by simp [CohList]
  | v :: vs, h => by
      simp only [cohBList, Bool.and_eq_true] at h
      exact ⟨cohB_sound c tbl v h.1, cohBList_sound c tbl vs h.2⟩
theorem cohBPairs_sound (c : Cfg) (tbl : List (Key × Ev)) : ∀ (es : List (V × V)),
    cohBPairs c tbl es = true → CohPairs c (Fof tbl) es
  | [], _ => by simp [CohPairs]
  | (k, v) :: es, h => by
      simp only [cohBPairs, Bool.and_eq_true] at h
      exact ⟨cohB_sound c tbl k h.1.1, cohB_sound c tbl v h.1.2, cohBPairs_sound c tbl es h.2⟩
theorem cohBAttrs_sound (c : Cfg) (tbl : List (Key × Ev)) : ∀ (as : List (String × V)),
    cohBAttrs c tbl as = true → CohAttrs c (Fof tbl) as
  | [], _ => by simp [CohAttrs]
  | (_, v) :: as, h => by
      simp only [cohBAttrs, Bool.and_eq_true] at h
      exact ⟨cohB_sound c tbl v h.1, cohBAttrs_sound c tbl as h.2⟩
end

theorem sharedB_sound (c : Cfg) (v : V) (h : sharedB c v = true) : ∃ F : Key → Ev, FStr F ∧ Coh c F v :=
  ⟨Fof (keysOf c v), fun _ => rfl, cohB_sound c _ v h⟩

end Pcore.Ser
