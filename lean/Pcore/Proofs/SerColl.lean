import Pcore.Proofs.SerTrip
/-! Helper lemmas for C10, part 4: the collector.  (a) `collect_rel`: feeding a stream whose references resolve
    (`expand`) builds, position by position, the Data the resolved stream denotes (`dataOf`).  (b) `collect_cons`: the
    identities the collector hands out are consistent — a container identity names one slot of `values`, and every
    copy made by AddRef is that slot's value. -/
namespace Pcore.Ser

/-! ### (a) collector ⟷ resolved stream -/

/-- collector positions and resolved events agree: open containers at the same positions, and a completed position
    holds the Data its resolved event denotes -/
structure Rel (vals : List Slot) (env : List (Option Ev)) : Prop where
  len : vals.length = env.length
  op : ∀ p : Nat, env[p]? = some none → vals[p]? = some Slot.opened
  dn : ∀ (p : Nat) (x : Ev), env[p]? = some (some x) → ∃ d : V, vals[p]? = some (Slot.done d) ∧ dataOf x = some d.abs

theorem Rel.push_open {vals : List Slot} {env : List (Option Ev)} (h : Rel vals env) :
    Rel (vals ++ [Slot.opened]) (env ++ [none]) := by
  refine ⟨by simp [h.len], fun p hp => ?_, fun p x hp => ?_⟩
  · rcases Nat.lt_trichotomy p env.length with hlt | heq | hgt
    · rw [List.getElem?_append_left hlt] at hp
      rw [List.getElem?_append_left (by rw [h.len]; exact hlt)]; exact h.op p hp
    · subst heq; rw [← h.len]; simp
    · rw [List.getElem?_eq_none (by simp; omega)] at hp; cases hp
  · rcases Nat.lt_trichotomy p env.length with hlt | heq | hgt
    · rw [List.getElem?_append_left hlt] at hp
      rw [List.getElem?_append_left (by rw [h.len]; exact hlt)]; exact h.dn p x hp
    · subst heq; simp at hp
    · rw [List.getElem?_eq_none (by simp; omega)] at hp; cases hp

theorem Rel.push_done {vals : List Slot} {env : List (Option Ev)} (h : Rel vals env) (d : V) (x : Ev)
    (hx : dataOf x = some d.abs) : Rel (vals ++ [.done d]) (env ++ [some x]) := by
  refine ⟨by simp [h.len], fun p hp => ?_, fun p y hp => ?_⟩
  · rcases Nat.lt_trichotomy p env.length with hlt | heq | hgt
    · rw [List.getElem?_append_left hlt] at hp
      rw [List.getElem?_append_left (by rw [h.len]; exact hlt)]; exact h.op p hp
    · subst heq; simp at hp
    · rw [List.getElem?_eq_none (by simp; omega)] at hp; cases hp
  · rcases Nat.lt_trichotomy p env.length with hlt | heq | hgt
    · rw [List.getElem?_append_left hlt] at hp
      rw [List.getElem?_append_left (by rw [h.len]; exact hlt)]; exact h.dn p y hp
    · subst heq
      simp at hp; subst hp
      exact ⟨d, by rw [← h.len]; simp, hx⟩
    · rw [List.getElem?_eq_none (by simp; omega)] at hp; cases hp

/-- closing the container opened at position `n` -/
theorem Rel.close {vals1 : List Slot} {env1 : List (Option Ev)} (h : Rel vals1 env1) (n : Nat) (hn : n < vals1.length)
    (d : V) (x : Ev) (hx : dataOf x = some d.abs) :
    Rel (vals1.set n (Slot.done d)) (env1.set n (some x)) := by
  have hn' : n < env1.length := by rw [← h.len]; exact hn
  refine ⟨by simp [h.len], fun p hp => ?_, fun p y hp => ?_⟩
  · by_cases hp' : n = p
    · subst hp'; rw [List.getElem?_set_self hn'] at hp; cases hp
    · rw [List.getElem?_set_ne hp'] at hp ⊢; exact h.op p hp
  · by_cases hp' : n = p
    · subst hp'; rw [List.getElem?_set_self hn'] at hp
      simp only [Option.some.injEq] at hp; subst hp
      exact ⟨d, by rw [List.getElem?_set_self hn], hx⟩
    · rw [List.getElem?_set_ne hp'] at hp ⊢; exact h.dn p y hp

theorem ofSc_abs (d : Sc) : (ofSc d).abs = scD d := by cases d <;> rfl

theorem pairUp_abs : ∀ (kids : List V) (ps : List (D × D)), pairUpD (absList kids) = some ps →
    ∃ kps, pairUp kids = some kps ∧ absPairs kps = ps
  | [], ps, h => by simp [absList, pairUpD] at h; subst h; exact ⟨[], rfl, rfl⟩
  | [_], ps, h => by simp [absList, pairUpD] at h
  | k :: v :: rest, ps, h => by
      simp only [absList, pairUpD, Option.map_eq_some_iff] at h
      obtain ⟨ps', h1, h2⟩ := h
      obtain ⟨kps, h3, h4⟩ := pairUp_abs rest ps' h1
      exact ⟨(k, v) :: kps, by simp [pairUp, h3], by simp [absPairs, h4, ← h2]⟩

mutual
theorem collect_rel : ∀ (e : Ev) (env : List (Option Ev)) (x : Ev) (env' : List (Option Ev)) (vals : List Slot) (a : D),
    expand e env = some (x, env') → Rel vals env → dataOf x = some a →
      ∃ d vals', collect e vals = .ok (d, vals') ∧ d.abs = a ∧ Rel vals' env'
  | .add s, env, x, env', vals, a, he, hR, hx => by
      simp only [expand, Option.some.injEq, Prod.mk.injEq] at he
      obtain ⟨rfl, rfl⟩ := he
      simp only [dataOf, Option.some.injEq] at hx
      exact ⟨ofSc s, _, rfl, by rw [ofSc_abs, hx], hR.push_done _ _ (by simp [dataOf, ofSc_abs])⟩
  | .ref n, env, x, env', vals, a, he, hR, hx => by
      simp only [expand] at he
      split at he
      · rename_i y hy
        simp only [Option.some.injEq, Prod.mk.injEq] at he
        obtain ⟨rfl, rfl⟩ := he
        obtain ⟨d, hd1, hd2⟩ := hR.dn n _ hy
        refine ⟨d, vals, by simp [collect, hd1], ?_, hR⟩
        rw [hx] at hd2; simpa using hd2.symm
      · cases he
  | .arr es, env, x, env', vals, a, he, hR, hx => by
      simp only [expand] at he
      split at he
      · cases he
      · rename_i xs env1 hl
        simp only [Option.some.injEq, Prod.mk.injEq] at he
        obtain ⟨rfl, rfl⟩ := he
        simp only [dataOf, Option.map_eq_some_iff] at hx
        obtain ⟨as, ha1, rfl⟩ := hx
        obtain ⟨kids, vals1, hc, hk, hR1⟩ := collectList_rel es _ xs env1 (vals ++ [Slot.opened]) as hl hR.push_open ha1
        have hlen := collectList_len es _ _ _ hc
        refine ⟨.arr vals.length kids, vals1.set vals.length (Slot.done (.arr vals.length kids)),
          by simp [collect, hc], by simp [V.abs, hk], ?_⟩
        rw [← hR.len]
        exact hR1.close vals.length (by rw [hlen]; simp; omega) _ _ (by simp [dataOf, ha1, V.abs, hk])
  | .hsh es, env, x, env', vals, a, he, hR, hx => by
      simp only [expand] at he
      split at he
      · cases he
      · rename_i xs env1 hl
        simp only [Option.some.injEq, Prod.mk.injEq] at he
        obtain ⟨rfl, rfl⟩ := he
        simp only [dataOf, Option.bind_eq_some_iff, Option.map_eq_some_iff] at hx
        obtain ⟨as, ha1, ps, ha2, rfl⟩ := hx
        obtain ⟨kids, vals1, hc, hk, hR1⟩ := collectList_rel es _ xs env1 (vals ++ [Slot.opened]) as hl hR.push_open ha1
        have hlen := collectList_len es _ _ _ hc
        obtain ⟨kps, hp1, hp2⟩ := pairUp_abs kids ps (by rw [hk]; exact ha2)
        refine ⟨.hash vals.length kps, vals1.set vals.length (Slot.done (.hash vals.length kps)),
          by simp [collect, hc, hp1], by simp [V.abs, hp2], ?_⟩
        rw [← hR.len]
        exact hR1.close vals.length (by rw [hlen]; simp; omega) _ _ (by simp [dataOf, ha1, ha2, V.abs, hp2])
theorem collectList_rel : ∀ (es : List Ev) (env : List (Option Ev)) (xs : List Ev) (env' : List (Option Ev))
    (vals : List Slot) (as : List D),
    expandList es env = some (xs, env') → Rel vals env → dataOfList xs = some as →
      ∃ ds vals', collectList es vals = .ok (ds, vals') ∧ absList ds = as ∧ Rel vals' env'
  | [], env, xs, env', vals, as, he, hR, hx => by
      simp only [expandList, Option.some.injEq, Prod.mk.injEq] at he
      obtain ⟨rfl, rfl⟩ := he
      simp only [dataOfList, Option.some.injEq] at hx
      exact ⟨[], vals, rfl, by simp [absList, hx], hR⟩
  | e :: es, env, xs, env', vals, as, he, hR, hx => by
      simp only [expandList] at he
      split at he
      · cases he
      · rename_i x env1 h1
        split at he
        · cases he
        · rename_i xs' env2 h2
          simp only [Option.some.injEq, Prod.mk.injEq] at he
          obtain ⟨rfl, rfl⟩ := he
          simp only [dataOfList, Option.bind_eq_some_iff, Option.map_eq_some_iff] at hx
          obtain ⟨a, ha, as', has, rfl⟩ := hx
          obtain ⟨d, vals1, hc1, hd, hR1⟩ := collect_rel e env x env1 vals a h1 hR ha
          obtain ⟨ds, vals2, hc2, hds, hR2⟩ := collectList_rel es env1 xs' env2 vals1 as' h2 hR1 has
          exact ⟨d :: ds, vals2, by simp [collectList, hc1, hc2], by simp [absList, hd, hds], hR2⟩
end

/-! ### (b) the identities handed out by the collector are consistent -/

/-- identity ↦ content of the slot it names -/
def Gof (vals : List Slot) (i : Nat) : Option D :=
  match vals[i]? with
  | some (Slot.done t) => some t.abs
  | _ => none

mutual
/-- every container node of `t` carries an identity that `G` maps to that node's content -/
def Cons (G : Nat → Option D) : V → Prop
  | .arr id vs => G id = some (V.arr id vs).abs ∧ ConsList G vs
  | .hash id es => G id = some (V.hash id es).abs ∧ ConsPairs G es
  | .sens _ v => Cons G v
  | _ => True
def ConsList (G : Nat → Option D) : List V → Prop
  | [] => True | v :: vs => Cons G v ∧ ConsList G vs
def ConsPairs (G : Nat → Option D) : List (V × V) → Prop
  | [] => True | (k, v) :: es => Cons G k ∧ Cons G v ∧ ConsPairs G es
end

mutual
theorem Cons.mono {G G' : Nat → Option D} (h : ∀ i a, G i = some a → G' i = some a) : ∀ (t : V), Cons G t → Cons G' t
  | .arr id vs, hc => by simp only [Cons] at hc ⊢; exact ⟨h _ _ hc.1, ConsList.mono h vs hc.2⟩
  | .hash id es, hc => by simp only [Cons] at hc ⊢; exact ⟨h _ _ hc.1, ConsPairs.mono h es hc.2⟩
  | .sens _ v, hc => by simp only [Cons] at hc ⊢; exact Cons.mono h v hc
  | .undef, _ => by simp [Cons]
  | .dflt, _ => by simp [Cons]
  | .bool _, _ => by simp [Cons]
  | .int _, _ => by simp [Cons]
  | .flt _, _ => by simp [Cons]
  | .str _, _ => by simp [Cons]
  | .bin _ _, _ => by simp [Cons]
  | .leaf _ _ _ _, _ => by simp [Cons]
  | .obj _ _ _ _, _ => by simp [Cons]
theorem ConsList.mono {G G' : Nat → Option D} (h : ∀ i a, G i = some a → G' i = some a) :
    ∀ (ts : List V), ConsList G ts → ConsList G' ts
  | [], _ => by simp [ConsList]
  | t :: ts, hc => by simp only [ConsList] at hc ⊢; exact ⟨Cons.mono h t hc.1, ConsList.mono h ts hc.2⟩
theorem ConsPairs.mono {G G' : Nat → Option D} (h : ∀ i a, G i = some a → G' i = some a) :
    ∀ (es : List (V × V)), ConsPairs G es → ConsPairs G' es
  | [], _ => by simp [ConsPairs]
  | (k, v) :: es, hc => by
      simp only [ConsPairs] at hc ⊢
      exact ⟨Cons.mono h k hc.1, Cons.mono h v hc.2.1, ConsPairs.mono h es hc.2.2⟩
end

theorem consList_pairUp {G : Nat → Option D} : ∀ (kids : List V) (kps : List (V × V)), pairUp kids = some kps →
    ConsList G kids → ConsPairs G kps
  | [], kps, h, _ => by simp [pairUp] at h; subst h; simp [ConsPairs]
  | [_], kps, h, _ => by simp [pairUp] at h
  | k :: v :: rest, kps, h, hc => by
      simp only [pairUp, Option.map_eq_some_iff] at h
      obtain ⟨kps', h1, rfl⟩ := h
      simp only [ConsList] at hc
      simp only [ConsPairs]
      exact ⟨hc.1, hc.2.1, consList_pairUp rest kps' h1 hc.2.2⟩

/-- every completed slot is consistent with the table of slots -/
def CInv (vals : List Slot) : Prop := ∀ (p : Nat) (t : V), vals[p]? = some (Slot.done t) → Cons (Gof vals) t

/-- earlier positions are untouched -/
def Keep (vals vals' : List Slot) : Prop :=
  vals.length ≤ vals'.length ∧ ∀ p : Nat, p < vals.length → vals'[p]? = vals[p]?

theorem Keep.refl (vals : List Slot) : Keep vals vals := ⟨Nat.le_refl _, fun _ _ => rfl⟩
theorem Keep.trans {a b c : List Slot} (h1 : Keep a b) (h2 : Keep b c) : Keep a c :=
  ⟨Nat.le_trans h1.1 h2.1, fun p hp => by rw [h2.2 p (Nat.lt_of_lt_of_le hp h1.1), h1.2 p hp]⟩

theorem Keep.gof {vals vals' : List Slot} (h : Keep vals vals') : ∀ i a, Gof vals i = some a → Gof vals' i = some a := by
  intro i a hg
  unfold Gof at hg ⊢
  rcases Nat.lt_or_ge i vals.length with hi | hi
  · rw [h.2 i hi]; exact hg
  · rw [List.getElem?_eq_none hi] at hg; cases hg

theorem gof_push (vals : List Slot) (s : Slot) : ∀ i a, Gof vals i = some a → Gof (vals ++ [s]) i = some a :=
  Keep.gof ⟨by simp, fun p hp => by simp [List.getElem?_append_left hp]⟩

/-- filling the slot that was opened at position `n` only adds to the table -/
theorem gof_set {vals1 : List Slot} {n : Nat} (ho : vals1[n]? = some Slot.opened) (t : V) :
    ∀ i a, Gof vals1 i = some a → Gof (vals1.set n (Slot.done t)) i = some a := by
  intro i a hg
  unfold Gof at hg ⊢
  by_cases hi : n = i
  · subst hi; rw [ho] at hg; cases hg
  · rw [List.getElem?_set_ne hi]; exact hg

theorem CInv.push_open {vals : List Slot} (h : CInv vals) : CInv (vals ++ [Slot.opened]) := by
  intro p t hp
  rcases Nat.lt_trichotomy p vals.length with hlt | heq | hgt
  · rw [List.getElem?_append_left hlt] at hp
    exact Cons.mono (gof_push vals _) t (h p t hp)
  · subst heq; simp at hp
  · rw [List.getElem?_eq_none (by simp; omega)] at hp; cases hp

mutual
theorem collect_cons : ∀ (e : Ev) (vals : List Slot) (d : V) (vals' : List Slot),
    collect e vals = .ok (d, vals') → CInv vals → CInv vals' ∧ Cons (Gof vals') d ∧ Keep vals vals'
  | .add s, vals, d, vals', h, hI => by
      simp only [collect, Except.ok.injEq, Prod.mk.injEq] at h
      obtain ⟨rfl, rfl⟩ := h
      have hs : ∀ G, Cons G (ofSc s) := by intro G; cases s <;> simp [ofSc, Cons]
      refine ⟨fun p t hp => ?_, hs _, ⟨by simp, fun p hp => by simp [List.getElem?_append_left hp]⟩⟩
      rcases Nat.lt_trichotomy p vals.length with hlt | heq | hgt
      · rw [List.getElem?_append_left hlt] at hp
        exact Cons.mono (gof_push vals _) t (hI p t hp)
      · subst heq; simp at hp; subst hp; exact hs _
      · rw [List.getElem?_eq_none (by simp; omega)] at hp; cases hp
  | .ref n, vals, d, vals', h, hI => by
      simp only [collect] at h
      split at h
      · cases h
      · cases h
      · rename_i v hv
        simp only [Except.ok.injEq, Prod.mk.injEq] at h
        obtain ⟨rfl, rfl⟩ := h
        exact ⟨hI, hI n _ hv, Keep.refl _⟩
  | .arr es, vals, d, vals', h, hI => by
      simp only [collect] at h
      split at h
      · cases h
      · rename_i kids vals1 hc
        simp only [Except.ok.injEq, Prod.mk.injEq] at h
        obtain ⟨rfl, rfl⟩ := h
        obtain ⟨hI1, hk, hK⟩ := collectList_cons es _ kids vals1 hc hI.push_open
        have hlen : vals.length < vals1.length := by have := hK.1; simp at this; omega
        have ho : vals1[vals.length]? = some Slot.opened := by rw [hK.2 _ (by simp)]; simp
        have hmono := gof_set ho (.arr vals.length kids)
        have hself : Cons (Gof (vals1.set vals.length (Slot.done (.arr vals.length kids)))) (.arr vals.length kids) := by
          simp only [Cons]
          refine ⟨?_, ConsList.mono hmono kids hk⟩
          simp [Gof, List.getElem?_set_self hlen]
        refine ⟨fun p t hp => ?_, hself, ⟨by simp; omega, fun p hp => ?_⟩⟩
        · by_cases hp' : vals.length = p
          · subst hp'; rw [List.getElem?_set_self hlen] at hp
            simp only [Option.some.injEq, Slot.done.injEq] at hp; subst hp; exact hself
          · rw [List.getElem?_set_ne hp'] at hp; exact Cons.mono hmono t (hI1 p t hp)
        · rw [List.getElem?_set_ne (by omega), hK.2 p (by simp; omega), List.getElem?_append_left hp]
  | .hsh es, vals, d, vals', h, hI => by
      simp only [collect] at h
      split at h
      · cases h
      · rename_i kids vals1 hc
        split at h
        · cases h
        · rename_i kps hp1
          simp only [Except.ok.injEq, Prod.mk.injEq] at h
          obtain ⟨rfl, rfl⟩ := h
          obtain ⟨hI1, hk, hK⟩ := collectList_cons es _ kids vals1 hc hI.push_open
          have hlen : vals.length < vals1.length := by have := hK.1; simp at this; omega
          have ho : vals1[vals.length]? = some Slot.opened := by rw [hK.2 _ (by simp)]; simp
          have hmono := gof_set ho (.hash vals.length kps)
          have hself : Cons (Gof (vals1.set vals.length (Slot.done (.hash vals.length kps)))) (.hash vals.length kps) := by
            simp only [Cons]
            refine ⟨?_, ConsPairs.mono hmono kps (consList_pairUp kids kps hp1 hk)⟩
            simp [Gof, List.getElem?_set_self hlen]
          refine ⟨fun p t hp => ?_, hself, ⟨by simp; omega, fun p hp => ?_⟩⟩
          · by_cases hp' : vals.length = p
            · subst hp'; rw [List.getElem?_set_self hlen] at hp
              simp only [Option.some.injEq, Slot.done.injEq] at hp; subst hp; exact hself
            · rw [List.getElem?_set_ne hp'] at hp; exact Cons.mono hmono t (hI1 p t hp)
          · rw [List.getElem?_set_ne (by omega), hK.2 p (by simp; omega), List.getElem?_append_left hp]
theorem collectList_cons : ∀ (es : List Ev) (vals : List Slot) (ds : List V) (vals' : List Slot),
    collectList es vals = .ok (ds, vals') → CInv vals → CInv vals' ∧ ConsList (Gof vals') ds ∧ Keep vals vals'
  | [], vals, ds, vals', h, hI => by
      simp only [collectList, Except.ok.injEq, Prod.mk.injEq] at h
      obtain ⟨rfl, rfl⟩ := h
      exact ⟨hI, by simp [ConsList], Keep.refl _⟩
  | e :: es, vals, ds, vals', h, hI => by
      simp only [collectList] at h
      split at h
      · cases h
      · rename_i v vals1 hc
        split at h
        · cases h
        · rename_i vs vals2 hc2
          simp only [Except.ok.injEq, Prod.mk.injEq] at h
          obtain ⟨rfl, rfl⟩ := h
          obtain ⟨hI1, hv, hK1⟩ := collect_cons e vals v vals1 hc hI
          obtain ⟨hI2, hvs, hK2⟩ := collectList_cons es vals1 vs vals2 hc2 hI1
          exact ⟨hI2, by simp only [ConsList]; exact ⟨Cons.mono hK2.gof v hv, hvs⟩, hK1.trans hK2⟩
end

end Pcore.Ser
