import Pcore.Model.Files
/-!
Helper lemmas for C15: a weakest-precondition calculus for the state-and-panic monad `M` of `Pcore.Model.Files`,
and the store lemmas (`St.get` / `St.put`).  Property theorems are in `Pcore/Props/C15.lean`.
-/
namespace Pcore.Files

/-- weakest precondition: `Q` on normal return, `E` on the state a panic leaves behind -/
def wp {α : Type} (x : M α) (Q : α → St → Prop) (E : St → Prop) (s : St) : Prop :=
  match x s with
  | .ok a s' => Q a s'
  | .fail _ s' => E s'

@[simp] theorem wp_pure {α : Type} (a : α) (Q : α → St → Prop) (E : St → Prop) (s : St) :
    wp (pure a : M α) Q E s ↔ Q a s := Iff.rfl

@[simp] theorem wp_bind {α β : Type} (x : M α) (f : α → M β) (Q : β → St → Prop) (E : St → Prop) (s : St) :
    wp (x >>= f) Q E s ↔ wp x (fun a s' => wp (f a) Q E s') E s := by
  simp only [wp, bind]
  cases x s <;> rfl

@[simp] theorem wp_raise {α : Type} (e : Err) (Q : α → St → Prop) (E : St → Prop) (s : St) :
    wp (raise e : M α) Q E s ↔ E s := Iff.rfl

@[simp] theorem wp_getSt (Q : St → St → Prop) (E : St → Prop) (s : St) : wp getSt Q E s ↔ Q s s := Iff.rfl

@[simp] theorem wp_modifySt (f : St → St) (Q : Unit → St → Prop) (E : St → Prop) (s : St) :
    wp (modifySt f) Q E s ↔ Q () (f s) := Iff.rfl

theorem wp_mono {α : Type} {x : M α} {Q Q' : α → St → Prop} {E E' : St → Prop} {s : St}
    (h : wp x Q E s) (hq : ∀ a s', Q a s' → Q' a s') (he : ∀ s', E s' → E' s') : wp x Q' E' s := by
  unfold wp at *
  cases hx : x s with
  | ok a s' => rw [hx] at h; exact hq _ _ h
  | fail e s' => rw [hx] at h; exact he _ h

theorem wp_partsM (n : Name) (Q : Key → St → Prop) (E : St → Prop) (s : St) :
    wp (partsM n) Q E s ↔ (match partsOf n with
      | some k => Q k s
      | none => E s) := by
  unfold partsM
  cases partsOf n <;> rfl

/-! ## the store -/

theorem find_putEnt (l : Lid) (k : Key) (e : Entry) (l' : Lid) (k' : Key) (xs : List ((Lid × Key) × Entry)) :
    (putEnt l k e xs).find? (fun x => x.1 = (l', k')) =
      if (l', k') = (l, k) then some ((l, k), e) else xs.find? (fun x => x.1 = (l', k')) := by
  induction xs with
  | nil =>
    by_cases h : (l', k') = (l, k)
    · simp [putEnt, h]
    · have h' : ¬ (l, k) = (l', k') := fun h'' => h h''.symm
      simp [putEnt, h, h']
  | cons x xs ih =>
    unfold putEnt
    by_cases hx : x.1 = (l, k)
    · simp only [hx, if_true]
      by_cases h : (l', k') = (l, k)
      · simp [List.find?, h]
      · have h' : ¬ (l, k) = (l', k') := fun h'' => h h''.symm
        have h2 : ¬ x.1 = (l', k') := by rw [hx]; exact h'
        simp [List.find?, h, h', h2]
    · simp only [hx, if_false]
      by_cases h2 : x.1 = (l', k')
      · have h : ¬ (l', k') = (l, k) := by rw [← h2]; exact hx
        simp [List.find?, h2, h]
      · simp [List.find?, h2, ih]

theorem get_put (s : St) (l : Lid) (k : Key) (e : Entry) (l' : Lid) (k' : Key) :
    (s.put l k e).get l' k' = if (l', k') = (l, k) then some e else s.get l' k' := by
  unfold St.get St.put
  simp only [find_putEnt]
  by_cases h : (l', k') = (l, k) <;> simp [h]

@[simp] theorem get_addRead (s : St) (p : Path) (l : Lid) (k : Key) : (s.addRead p).get l k = s.get l k := rfl
@[simp] theorem reads_put (s : St) (l : Lid) (k : Key) (e : Entry) : (s.put l k e).reads = s.reads := rfl
@[simp] theorem reads_addRead (s : St) (p : Path) : (s.addRead p).reads = s.reads ++ [p] := rfl

/-- `setEntry`, as a predicate transformer -/
theorem wp_setEntry (l : Lid) (k : Key) (e : Entry) (Q : Entry → St → Prop) (E : St → Prop) (s : St) :
    wp (setEntry l k e) Q E s ↔
      (match s.get l k with
       | none => Q e (s.put l k e)
       | some none => Q e (s.put l k e)
       | some (some old) =>
         match e with
         | none => Q (some old) s
         | some new => if defEquals old new then Q (some old) s else E s) := by
  unfold wp setEntry
  cases h : s.get l k with
  | none => simp
  | some o =>
    cases o with
    | none => simp
    | some old =>
      cases e with
      | none => simp
      | some new => by_cases hd : defEquals old new <;> simp [hd]

end Pcore.Files
