import Pcore.Model.DescribeSig
import Pcore.Proofs.Describe
set_option linter.unusedSimpArgs false
set_option linter.unusedVariables false
/-!
  C19 helper lemmas: `describeSignatures` returns normally for every call that respects the contract of px.DescribeSignatures
  (every signature has a parameter tuple whose names match its types and which declares a type unless it takes no argument;
  the argument type is a Tuple or Array type that can have as many elements as it declares).
-/
namespace Pcore.Desc
open Pcore.Lat

/-- a signature as the dispatcher builds it -/
def SigOK (sg : Sig) : Prop :=
  ∃ ts r, sg.params = some (ts, r) ∧ sg.names.length = ts.length ∧ (ts = [] → r.hi ≤ 0)

/-- the type of an argument list -/
def ArgsOK : Ty → Prop
  | .tuple ts g => (ts.length : Int) ≤ (tupleSize ts g).hi
  | .array _ r => r.lo ≤ r.hi
  | _ => False

section
variable (cfg : Cfg) (sfh : Bool)

theorem describe_ok (e a : Ty) (p : Path) : ∃ ms, describe cfg sfh e a p = .ok ms := by
  unfold describe
  split
  · exact ⟨_, rfl⟩
  · obtain ⟨r, hr⟩ := (describe_total cfg sfh).1 e e a p
    rw [hr]
    cases r with
    | nil => exact ⟨_, rfl⟩
    | cons d ds => exact ⟨_, rfl⟩

theorem sigArgLoop_ok (eTypes : List Ty) (eNames : List String) (path : Path) (hn : eNames.length = eTypes.length)
    (aTypes : List Ty) (ax : Nat) (h : eTypes ≠ [] ∨ aTypes = []) :
    ∃ ms, sigArgLoop cfg sfh eTypes eNames path aTypes ax = .ok ms := by
  induction aTypes generalizing ax with
  | nil => exact ⟨_, rfl⟩
  | cons aType rest ih =>
    have hne : eTypes ≠ [] := by rcases h with h | h; exact h; cases h
    have hih : ∀ ax, ∃ ms, sigArgLoop cfg sfh eTypes eNames path rest ax = .ok ms := fun ax => ih ax (.inl hne)
    simp only [sigArgLoop]
    cases hl : eTypes.getLast? with
    | none => exact absurd (List.getLast?_eq_none_iff.mp hl) hne
    | some last =>
      simp only []
      split
      · exact hih _
      · have hlen : 0 < eTypes.length := List.length_pos_iff.mpr hne
        have hex : min ax (eTypes.length - 1) < eNames.length := by omega
        rw [List.getElem?_eq_getElem hex]
        simp only []
        obtain ⟨ds, hds⟩ := describe_ok cfg sfh ((eTypes[min ax (eTypes.length - 1)]?).getD last) aType
          (path ++ [⟨.parameter, eNames[min ax (eTypes.length - 1)]⟩])
        rw [hds]
        cases ds with
        | nil => exact hih _
        | cons d ds => exact ⟨_, rfl⟩

theorem sigArguments_ok (sg : Sig) (args : Ty) (path : Path) (hs : SigOK sg) (ha : ArgsOK args) :
    ∃ ms, sigArguments cfg sfh sg args path = .ok ms := by
  obtain ⟨ts, r, hp, hn, hempty⟩ := hs
  unfold sigArguments
  rw [hp]
  cases args <;> simp only [ArgsOK] at ha
  case tuple ats g =>
    simp only []
    split
    · rename_i hsub
      apply sigArgLoop_ok cfg sfh ts sg.names path hn
      by_cases hts : ts = []
      · right
        have := hempty hts
        simp only [Rng.sub, Bool.and_eq_true, decide_eq_true_eq] at hsub
        have h0 : (ats.length : Int) ≤ 0 := by omega
        exact List.eq_nil_of_length_eq_zero (by omega)
      · exact .inl hts
    · exact ⟨_, rfl⟩
  case array e r' =>
    simp only []
    split
    · rename_i hsub
      apply sigArgLoop_ok cfg sfh ts sg.names path hn
      by_cases hts : ts = []
      · right
        have := hempty hts
        simp only [Rng.sub, Bool.and_eq_true, decide_eq_true_eq] at hsub
        have h0 : r'.lo.toNat = 0 := by omega
        rw [h0]; rfl
      · exact .inl hts
    · exact ⟨_, rfl⟩

theorem sigAllArgs_ok (args : Ty) (ha : ArgsOK args) (sigs : List Sig) (hs : ∀ sg ∈ sigs, SigOK sg) (ix : Nat) :
    ∃ r, sigAllArgs cfg sfh args sigs ix = .ok r := by
  induction sigs generalizing ix with
  | nil => exact ⟨_, rfl⟩
  | cons sg rest ih =>
    obtain ⟨ae, hae⟩ := sigArguments_ok cfg sfh sg args (sigPath ix) (hs sg List.mem_cons_self) ha
    obtain ⟨more, hmore⟩ := ih (fun s h => hs s (List.mem_cons_of_mem _ h)) (ix + 1)
    simp only [sigAllArgs, hae, hmore]
    exact ⟨_, rfl⟩

theorem sigFinish_ok (ea : List (List Mismatch)) : ∀ k, sigFinish ea ≠ .fault k := by
  intro k
  unfold sigFinish
  obtain ⟨r, hr⟩ := mergeDescriptions_ok 0 .count ea.flatten
  rw [hr]
  match r with
  | [] => simp
  | [d] => simp
  | d :: d' :: r' => simp

theorem sigBlock_ok (sg : Sig) (blk : Option Ty) (path : Path) : ∃ r, sigBlock cfg sfh sg blk path = .ok r := by
  unfold sigBlock
  cases blk with
  | none =>
    simp only []
    split
    · exact ⟨_, rfl⟩
    · split <;> exact ⟨_, rfl⟩
  | some ab =>
    simp only []
    split
    · exact ⟨_, rfl⟩
    · exact describe_ok cfg sfh _ _ _

theorem sigAllBlocks_ok (blk : Option Ty) (sigs : List Sig) (ix : Nat) : ∃ r, sigAllBlocks cfg sfh blk sigs ix = .ok r := by
  induction sigs generalizing ix with
  | nil => exact ⟨_, rfl⟩
  | cons sg rest ih =>
    obtain ⟨be, hbe⟩ := sigBlock_ok cfg sfh sg blk (sigPath ix)
    obtain ⟨more, hmore⟩ := ih (ix + 1)
    simp only [sigAllBlocks, hbe, hmore]
    exact ⟨_, rfl⟩

/-- NO FAULT for a call that respects the contract, with or without a block -/
theorem describeSignatures_total (sigs : List Sig) (args : Ty) (blk : Option Ty) (hs : ∀ sg ∈ sigs, SigOK sg) (ha : ArgsOK args) :
    ∀ k, describeSignatures cfg sfh sigs args blk ≠ .fault k := by
  intro k
  obtain ⟨argErrs, he⟩ := sigAllArgs_ok cfg sfh args ha sigs hs 0
  obtain ⟨blockArrays, hb⟩ := sigAllBlocks_ok cfg sfh blk sigs 0
  unfold describeSignatures
  rw [he]
  simp only [hb, Except.map]
  split
  · rename_i h; split at h <;> cases h
  · split
    · simp
    · exact sigFinish_ok _ k

end
end Pcore.Desc
