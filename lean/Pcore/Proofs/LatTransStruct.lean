import Pcore.Proofs.LatTransAll
set_option linter.unusedSimpArgs false
set_option linter.unusedVariables false
/-! C03, transitivity stage 3: `StructType.IsAssignable(Struct)` as a relation between member lists (names pairwise different on both
    sides): every member of the receiver that the other Struct has is accepted (key optionality, value type), every member it lacks
    is optional, and every member of the other Struct is one of the receiver's.  The size of the receiver then includes the other's. -/
namespace Pcore.Lat
variable (cfg : Cfg) (sfh : Bool)

theorem namesNodup_tail {m : Member} {ms : List Member} (h : NamesNodup (m :: ms)) : NamesNodup ms := by
  simp only [NamesNodup, List.map_cons, List.nodup_cons] at h; exact h.2

theorem namesNodup_filter (p : Member → Bool) {ms : List Member} (h : NamesNodup ms) : NamesNodup (ms.filter p) := by
  unfold NamesNodup at h ⊢
  exact List.Nodup.sublist (List.Sublist.map _ List.filter_sublist) h

/-- the members of `ms'` that carry one of the names of `ms` are at most `|ms|` many -/
theorem sFound_le (ms ms' : List Member) (hn' : NamesNodup ms') : sFound ms ms' ≤ ms.length := by
  induction ms with
  | nil => simp [sFound]
  | cons m ms ih =>
    simp only [sFound, List.length_cons]
    have := hn'.count_le m.1
    omega

theorem nameIn_iff (ms : List Member) (m' : Member) : nameIn ms m' = true ↔ ∃ m ∈ ms, m.1 = m'.1 := by
  simp only [nameIn, List.any_eq_true, nameIs_iff]
  constructor
  · rintro ⟨m, hm, h⟩; exact ⟨m, hm, h.symm⟩
  · rintro ⟨m, hm, h⟩; exact ⟨m, hm, h.symm⟩

/-- every name of `xs` occurs in `ys` (names pairwise different on both sides): `xs` is the shorter list -/
theorem length_le_of_names (xs ys : List Member) (hx : NamesNodup xs) (hy : NamesNodup ys)
    (h : ∀ x ∈ xs, ∃ y ∈ ys, y.1 = x.1) : xs.length ≤ ys.length := by
  have h1 : sFound ys xs = xs.length := by
    rw [sFound_eq ys xs hy, List.countP_eq_length]
    intro x hx'; exact (nameIn_iff ys x).2 (h x hx')
  have := sFound_le ys xs hx
  omega

theorem SMemberOK_iff (ms' : List Member) (hn' : NamesNodup ms') (m : Member) :
    SMemberOK cfg sfh ms' m ↔
      (∀ m' ∈ ms', m'.1 = m.1 → (m.2.1 || !m'.2.1) = true ∧ asg cfg sfh m.2.2 m'.2.2 = true) ∧
      ((∀ m' ∈ ms', m'.1 ≠ m.1) → m.2.1 = true) := by
  by_cases hex : ∃ m' ∈ ms', m'.1 = m.1
  · obtain ⟨m0, hm0, hk0⟩ := hex
    constructor
    · intro h
      refine ⟨fun m' hm' hk => ?_, fun hno => absurd hk0 (hno m0 hm0)⟩
      rw [SMemberOK, structMember_mem cfg sfh m.1 m.2.1 m.2.2 ms' hn' m' hm' hk] at h
      simpa using h
    · rintro ⟨h, _⟩
      rw [SMemberOK, structMember_mem cfg sfh m.1 m.2.1 m.2.2 ms' hn' m0 hm0 hk0]
      have := h m0 hm0 hk0
      simp [this.1, this.2]
  · have hno : ∀ m' ∈ ms', m'.1 ≠ m.1 := fun m' hm' hk => hex ⟨m', hm', hk⟩
    have h0 : ms'.countP (nameIs m.1) = 0 := by
      apply List.countP_eq_zero.2
      intro m' hm' hc
      exact hno m' hm' ((nameIs_iff _ _).1 hc)
    have hnone := (structMember_none cfg sfh m.1 m.2.1 m.2.2 ms').2 h0
    constructor
    · intro h
      rw [SMemberOK, hnone] at h
      exact ⟨fun m' hm' hk => absurd hk (hno m' hm'), fun _ => h⟩
    · rintro ⟨_, h⟩
      rw [SMemberOK, hnone]
      exact h hno

/-- `Struct ⊒ Struct` as a relation between the member lists -/
theorem struct_recv_iff (ms ms' : List Member) (hn : NamesNodup ms) (hn' : NamesNodup ms') :
    asgRecv cfg sfh (.struct ms) (.struct ms') = true ↔
      (∀ m ∈ ms, (∀ m' ∈ ms', m'.1 = m.1 → (m.2.1 || !m'.2.1) = true ∧ asg cfg sfh m.2.2 m'.2.2 = true) ∧
                 ((∀ m' ∈ ms', m'.1 ≠ m.1) → m.2.1 = true)) ∧
      (∀ m' ∈ ms', ∃ m ∈ ms, m.1 = m'.1) := by
  unfold asgRecv
  simp only [beq_iff_eq]
  rw [distinctCount_nodup _ hn', structAll_iff cfg sfh _ _ hn', List.length_map]
  have hfull : sFound ms ms' = ms'.length ↔ ∀ m' ∈ ms', ∃ m ∈ ms, m.1 = m'.1 := by
    rw [sFound_eq ms ms' hn, List.countP_eq_length]
    exact ⟨fun h m' hm' => (nameIn_iff ms m').1 (h m' hm'), fun h m' hm' => (nameIn_iff ms m').2 (h m' hm')⟩
  constructor
  · rintro ⟨h1, h2⟩
    exact ⟨fun m hm => (SMemberOK_iff cfg sfh ms' hn' m).1 (h1 m hm), hfull.1 h2.symm⟩
  · rintro ⟨h1, h2⟩
    exact ⟨fun m hm => (SMemberOK_iff cfg sfh ms' hn' m).2 (h1 m hm), (hfull.2 h2).symm⟩

/-- the receiver's size range `[#required, #members]` includes the accepted Struct's -/
theorem struct_sub_size (ms ms' : List Member) (hn : NamesNodup ms) (hn' : NamesNodup ms')
    (h : asgRecv cfg sfh (.struct ms) (.struct ms') = true) : (structSize ms).sub (structSize ms') = true := by
  obtain ⟨h1, h2⟩ := (struct_recv_iff cfg sfh ms ms' hn hn').1 h
  have hlen : ms'.length ≤ ms.length := length_le_of_names ms' ms hn' hn h2
  have hreq : (ms.filter (fun m => !m.2.1)).length ≤ (ms'.filter (fun m => !m.2.1)).length := by
    apply length_le_of_names _ _ (namesNodup_filter _ hn) (namesNodup_filter _ hn')
    intro m hm
    simp only [List.mem_filter, Bool.not_eq_true'] at hm
    obtain ⟨hA, hB⟩ := h1 m hm.1
    by_cases hex : ∃ m' ∈ ms', m'.1 = m.1
    · obtain ⟨m', hm', hk⟩ := hex
      refine ⟨m', ?_, hk⟩
      simp only [List.mem_filter, Bool.not_eq_true']
      have := (hA m' hm' hk).1
      rw [hm.2] at this
      exact ⟨hm', by simpa using this⟩
    · have := hB (fun m' hm' hk => hex ⟨m', hm', hk⟩)
      rw [hm.2] at this; cases this
  simp only [structSize, Rng.sub, Bool.and_eq_true, decide_eq_true_eq]
  refine ⟨by simpa using hreq, by simpa using hlen⟩

/-- the member relation is transitive when the value types are -/
theorem struct_trans (ms ms' ms'' : List Member) (hn : NamesNodup ms) (hn' : NamesNodup ms') (hn'' : NamesNodup ms'')
    (el : ∀ m ∈ ms, ∀ m' ∈ ms', ∀ m'' ∈ ms'', asg cfg sfh m.2.2 m'.2.2 = true → asg cfg sfh m'.2.2 m''.2.2 = true →
      asg cfg sfh m.2.2 m''.2.2 = true)
    (h1 : asgRecv cfg sfh (.struct ms) (.struct ms') = true) (h2 : asgRecv cfg sfh (.struct ms') (.struct ms'') = true) :
    asgRecv cfg sfh (.struct ms) (.struct ms'') = true := by
  obtain ⟨a1, a2⟩ := (struct_recv_iff cfg sfh ms ms' hn hn').1 h1
  obtain ⟨b1, b2⟩ := (struct_recv_iff cfg sfh ms' ms'' hn' hn'').1 h2
  rw [struct_recv_iff cfg sfh ms ms'' hn hn'']
  refine ⟨fun m hm => ⟨fun m'' hm'' hk => ?_, fun hno => ?_⟩, fun m'' hm'' => ?_⟩
  · obtain ⟨m', hm', hk'⟩ := b2 m'' hm''
    have hA := (a1 m hm).1 m' hm' (hk'.trans hk)
    have hB := (b1 m' hm').1 m'' hm'' hk'.symm
    refine ⟨?_, el m hm m' hm' m'' hm'' hA.2 hB.2⟩
    have x := hA.1; have y := hB.1
    revert x y
    cases m.2.1 <;> cases m'.2.1 <;> cases m''.2.1 <;> simp
  · by_cases hex : ∃ m' ∈ ms', m'.1 = m.1
    · obtain ⟨m', hm', hk⟩ := hex
      have hopt' : m'.2.1 = true := (b1 m' hm').2 (fun m'' hm'' hk'' => hno m'' hm'' (hk''.trans hk))
      have := ((a1 m hm).1 m' hm' hk).1
      rw [hopt'] at this
      simpa using this
    · exact (a1 m hm).2 (fun m' hm' hk => hex ⟨m', hm', hk⟩)
  · obtain ⟨m', hm', hk'⟩ := b2 m'' hm''
    obtain ⟨m, hm, hk⟩ := a2 m' hm'
    exact ⟨m, hm, hk.trans hk'⟩

/-- `Hash ⊒ Struct` member loop composed with `Struct ⊒ Struct` -/
theorem members_trans (k v : Ty) (ms' ms'' : List Member) (hn' : NamesNodup ms') (hn'' : NamesNodup ms'')
    (el : ∀ m' ∈ ms', ∀ m'' ∈ ms'', asg cfg sfh v m'.2.2 = true → asg cfg sfh m'.2.2 m''.2.2 = true → asg cfg sfh v m''.2.2 = true)
    (h1 : asgMembers cfg sfh k v ms' = true) (h2 : asgRecv cfg sfh (.struct ms') (.struct ms'') = true) :
    asgMembers cfg sfh k v ms'' = true := by
  rw [asgMembers_iff] at h1 ⊢
  obtain ⟨b1, b2⟩ := (struct_recv_iff cfg sfh ms' ms'' hn' hn'').1 h2
  intro m'' hm''
  obtain ⟨m', hm', hk'⟩ := b2 m'' hm''
  have hB := (b1 m' hm').1 m'' hm'' hk'.symm
  have hA := h1 m' hm'
  exact ⟨by rw [← hk']; exact hA.1, el m' hm' m'' hm'' hA.2 hB.2⟩

end Pcore.Lat
