import Pcore.Proofs.LatSoundTyp
import Pcore.Proofs.LatTransCall
set_option linter.unusedSimpArgs false
set_option linter.unusedVariables false
/-! C01: soundness of the receiver `Type[x]` for `x` in the fragment of `C03_trans_callable_partial` (`Ty.TSK`: the stage-3 fragment plus every
    Callable that is the default or has a parameter list) — the twin of `typ_recv_sound` (LatSoundTyp) over `transGK`. -/
namespace Pcore.Lat
variable (cfg : Cfg) (sfh : Bool)

theorem typ_recv_soundK (hl : ∀ s, (cfg.lower s).length = s.length) (x : Ty) (fx : x.TSK cfg sfh) (wx : Ty.WF cfg x) :
    ∀ (n : Nat) (b : Ty), b.w ≤ n → b.TSK cfg sfh → Ty.WF cfg b → ∀ v : Val, (∀ u, v = .typ u → u.TSK cfg sfh ∧ Ty.WF cfg u) →
      asg cfg sfh (.typ x) b = true → inst cfg sfh b v = true → inst cfg sfh (.typ x) v = true := by
  intro n
  induction n with
  | zero => intro b h; have := Ty.w_pos b; omega
  | succ n ih =>
    intro b hw fb wb v hv h hi
    cases b with
    | unit => unfold Ty.TSK at fb; exact absurd fb id
    | optional ot =>
      have := (asg_optional_parts cfg sfh h).1
      rw [asg_typ_leaf_false cfg sfh x .undef rfl trivial] at this; cases this
    | data => unfold Ty.TSK at fb; exact absurd fb id
    | richData => unfold Ty.TSK at fb; exact absurd fb id
    | variant bs =>
      unfold Ty.TSK at fb; unfold Ty.WF at wb; simp only [Ty.w] at hw
      unfold inst at hi
      rw [instAny_iff] at hi
      obtain ⟨m, hm, hmi⟩ := hi
      exact ih m (by have := Ty.w_lt_wl hm; omega) (fb m hm) (wb m hm) v hv (asg_variant_parts cfg sfh h m hm) hmi
    | notUndef nt =>
      unfold Ty.TSK at fb; unfold Ty.WF at wb; simp only [Ty.w] at hw
      by_cases hnt : asg cfg sfh nt .undef = true
      · have := asg_nu_fall cfg sfh rfl hnt h
        unfold asgRecv at this; simp at this
      · have h' := asg_nu_strict cfg sfh (bool_false_of_ne_true hnt) h
        unfold inst at hi
        simp only [Bool.and_eq_true] at hi
        exact ih nt (by omega) fb wb v hv h' hi.2
    | typ y =>
      unfold Ty.TSK at fb; unfold Ty.WF at wb
      rw [asg_plain_r cfg sfh _ _ rfl] at h
      simp only [Ty.isAny, sameNullary, Bool.false_or] at h
      unfold asgRecv at h
      unfold inst at hi ⊢
      cases v <;> simp only [] at hi ⊢ <;> (first | contradiction | skip)
      rename_i u
      obtain ⟨fu, wu⟩ := hv u rfl
      exact transGK cfg sfh hl x y u fx fb fu wx wb wu h hi
    | _ =>
      rw [asg_typ_leaf_false cfg sfh x _ rfl trivial] at h; cases h


end Pcore.Lat
