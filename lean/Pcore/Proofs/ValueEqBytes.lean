import Pcore.Model.ValueEq
/-! Helper lemmas for C07, byte level: fixed-width payloads, `uvarint` framing, concatenations of frames. -/
namespace Pcore.ValueEq

theorem ofNat_inj_of_lt {a b : Nat} (ha : a < 256) (hb : b < 256) (h : UInt8.ofNat a = UInt8.ofNat b) : a = b := by
  have := congrArg UInt8.toNat h
  simp at this
  omega

/-- the eight payload bytes determine the 64-bit number -/
theorem be64_inj {n m : Nat} (hn : n < 18446744073709551616) (hm : m < 18446744073709551616)
    (h : be64 n = be64 m) : n = m := by
  simp only [be64, List.cons.injEq, and_true] at h
  obtain ⟨h0, h1, h2, h3, h4, h5, h6, h7⟩ := h
  have e0 := ofNat_inj_of_lt (Nat.mod_lt _ (by decide)) (Nat.mod_lt _ (by decide)) h0
  have e1 := ofNat_inj_of_lt (Nat.mod_lt _ (by decide)) (Nat.mod_lt _ (by decide)) h1
  have e2 := ofNat_inj_of_lt (Nat.mod_lt _ (by decide)) (Nat.mod_lt _ (by decide)) h2
  have e3 := ofNat_inj_of_lt (Nat.mod_lt _ (by decide)) (Nat.mod_lt _ (by decide)) h3
  have e4 := ofNat_inj_of_lt (Nat.mod_lt _ (by decide)) (Nat.mod_lt _ (by decide)) h4
  have e5 := ofNat_inj_of_lt (Nat.mod_lt _ (by decide)) (Nat.mod_lt _ (by decide)) h5
  have e6 := ofNat_inj_of_lt (Nat.mod_lt _ (by decide)) (Nat.mod_lt _ (by decide)) h6
  have e7 := ofNat_inj_of_lt (Nat.mod_lt _ (by decide)) (Nat.mod_lt _ (by decide)) h7
  omega

theorem be64_length (n : Nat) : (be64 n).length = 8 := rfl

theorem u64OfInt_lt (i : Int) : u64OfInt i < 18446744073709551616 := by
  unfold u64OfInt; omega

theorem u64OfInt_inj {i j : Int} (hi : minInt ≤ i ∧ i ≤ maxInt) (hj : minInt ≤ j ∧ j ≤ maxInt)
    (h : u64OfInt i = u64OfInt j) : i = j := by
  unfold u64OfInt at h; unfold minInt maxInt at hi hj; omega

/-! ### uvarint is a prefix code -/

theorem uvarintAux_decode : ∀ (f g n m : Nat) (x y : Bytes), n ≤ f → m ≤ g →
    uvarintAux f n ++ x = uvarintAux g m ++ y → n = m ∧ x = y := by
  intro f
  induction f with
  | zero =>
    intro g n m x y hn hm h
    have hn0 : n = 0 := by omega
    subst hn0
    cases g with
    | zero =>
      have : m = 0 := by omega
      subst this
      simpa [uvarintAux] using h
    | succ g =>
      simp only [uvarintAux] at h
      split at h
      · rename_i hlt
        simp only [List.cons_append, List.nil_append, List.cons.injEq] at h
        have := ofNat_inj_of_lt (by omega) (by omega) h.1
        exact ⟨this, h.2⟩
      · rename_i hge
        simp only [List.cons_append, List.nil_append, List.cons.injEq] at h
        have := ofNat_inj_of_lt (by omega) (by omega) h.1
        omega
  | succ f ih =>
    intro g n m x y hn hm h
    cases g with
    | zero =>
      have hm0 : m = 0 := by omega
      subst hm0
      simp only [uvarintAux] at h
      split at h
      · simp only [List.cons_append, List.nil_append, List.cons.injEq] at h
        have := ofNat_inj_of_lt (by omega) (by omega) h.1
        exact ⟨this, h.2⟩
      · simp only [List.cons_append, List.nil_append, List.cons.injEq] at h
        have := ofNat_inj_of_lt (by omega) (by omega) h.1
        omega
    | succ g =>
      simp only [uvarintAux] at h
      split at h <;> split at h
      · simp only [List.cons_append, List.nil_append, List.cons.injEq] at h
        have := ofNat_inj_of_lt (by omega) (by omega) h.1
        exact ⟨this, h.2⟩
      · simp only [List.cons_append, List.nil_append, List.cons.injEq] at h
        have := ofNat_inj_of_lt (by omega) (by omega) h.1
        omega
      · simp only [List.cons_append, List.nil_append, List.cons.injEq] at h
        have := ofNat_inj_of_lt (by omega) (by omega) h.1
        omega
      · simp only [List.cons_append, List.cons.injEq] at h
        have h1 := ofNat_inj_of_lt (by omega) (by omega) h.1
        have h2 := ih g (n / 128) (m / 128) x y (by omega) (by omega) h.2
        exact ⟨by omega, h2.2⟩

theorem uvarint_decode {n m : Nat} {x y : Bytes} (h : uvarint n ++ x = uvarint m ++ y) : n = m ∧ x = y :=
  uvarintAux_decode n m n m x y (Nat.le_refl _) (Nat.le_refl _) h

/-- two framed byte strings followed by anything: equal concatenations have equal frames and equal rests -/
theorem frame_decode {a b x y : Bytes} (h : frame a ++ x = frame b ++ y) : a = b ∧ x = y := by
  unfold frame at h
  rw [List.append_assoc, List.append_assoc] at h
  have h1 := uvarint_decode h
  exact List.append_inj h1.2 h1.1

theorem frame_inj {a b : Bytes} (h : frame a = frame b) : a = b := by
  have := @frame_decode a b [] [] (by simpa using h)
  exact this.1

theorem uvarintAux_ne_nil (f n : Nat) : uvarintAux f n ≠ [] := by
  cases f <;> simp [uvarintAux]
  split <;> simp

theorem frame_ne_nil (a : Bytes) : frame a ≠ [] := by
  unfold frame uvarint
  intro h
  exact uvarintAux_ne_nil _ _ (List.append_eq_nil_iff.mp h).1

/-- a concatenation of frames determines the list of framed strings -/
theorem flat_frames_inj : ∀ (as bs : List Bytes), flat (as.map frame) = flat (bs.map frame) → as = bs
  | [], [] => fun _ => rfl
  | [], b :: bs => fun h => by
      simp only [List.map, flat] at h
      exact absurd (List.append_eq_nil_iff.mp h.symm).1 (frame_ne_nil b)
  | a :: as, [] => fun h => by
      simp only [List.map, flat] at h
      exact absurd (List.append_eq_nil_iff.mp h).1 (frame_ne_nil a)
  | a :: as, b :: bs => fun h => by
      simp only [List.map, flat] at h
      have h1 := frame_decode h
      rw [h1.1, flat_frames_inj as bs h1.2]

end Pcore.ValueEq
