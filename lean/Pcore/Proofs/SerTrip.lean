import Pcore.Proofs.SerRefs
/-! Helper lemmas for C10, part 3: the reference-free stream, read as plain data and converted back without regard to
    identity, is the original value (`plain_trip`).  Pure structural induction; the stateful parts (references,
    collector positions, the `converted` memo) are related to these pure functions in parts 2, 4 and 5. -/
namespace Pcore.Ser

/-! ### identity-free reading of a reference-free stream, and identity-free `convert` -/

def scD : Sc → D
  | .undef => .undef | .bool b => .bool b | .int i => .int i | .flt f => .flt f | .str s => .str s | .bin bs => .bin bs

def pairUpD : List D → Option (List (D × D))
  | [] => some []
  | [_] => none
  | k :: v :: rest => (pairUpD rest).map ((k, v) :: ·)

mutual
/-- the Data value a reference-free event denotes (what the collector builds, without identities) -/
def dataOf : Ev → Option D
  | .add d => some (scD d)
  | .ref _ => none
  | .arr es => (dataOfList es).map .arr
  | .hsh es => (dataOfList es).bind fun ds => (pairUpD ds).map .hash
def dataOfList : List Ev → Option (List D)
  | [] => some []
  | e :: es => (dataOf e).bind fun d => (dataOfList es).map (d :: ·)
end

def D.isStr : D → Bool
  | .str _ => true | _ => false
def D.isKey (name : String) : D → Bool
  | .str s => s == name | _ => false
def dAllStrKeys : List (D × D) → Bool
  | [] => true | (k, _) :: es => k.isStr && dAllStrKeys es
def dHasKey (name : String) : List (D × D) → Bool
  | [] => false | (k, _) :: es => k.isKey name || dHasKey name es
def dLookupLast (name : String) : List (D × D) → Option D
  | [] => none
  | (k, v) :: es => if k.isKey name && !dHasKey name es then some v else dLookupLast name es

def decodeLeafD (tn s : String) : Except DErr D :=
  if tn = "Binary" then
    match unb64 s with
    | some bs => .ok (.bin bs)
    | none => .error .badValue
  else if tn = "Timespan" then
    match parseSpan s with
    | some ns => .ok (.leaf .ts (printSpan ns))
    | none => .error .badValue
  else
    match kindOfTypeName tn with
    | some k => .ok (.leaf k.canon s)
    | none => .error .unresolved

mutual
/-- `convert` without identities and without the memo -/
def cnv : D → Except DErr D
  | .arr ds =>
    match cnvList ds with
    | .error e => .error e
    | .ok r => .ok (.arr r)
  | .hash es =>
    match (if dAllStrKeys es then dLookupLast "__ptype" es else none) with
    | some pt =>
      match pt with
      | .str tn =>
        if tn = "Hash" then
          match cnvPVHash es with
          | .error e => .error e
          | .ok r => .ok (.hash r)
        else if tn = "Sensitive" then
          match cnvPVSens es with
          | .error e => .error e
          | .ok r => .ok (.sens r)
        else if tn = "Default" then .ok .dflt
        else
          match dLookupLast "__pvalue" es with
          | some (.str s) => decodeLeafD tn s
          | some (.hash _) => .error .unmodelled
          | none =>
            if isObjType tn then
              match cnvAttrs es with
              | .error e => .error e
              | .ok r => .ok (.obj tn r)
            else .error .unmodelled
          | some _ => .error .badValue
      | _ => .error .badType
    | none =>
      match cnvPairs es with
      | .error e => .error e
      | .ok r => .ok (.hash r)
  | d => .ok d
def cnvList : List D → Except DErr (List D)
  | [] => .ok []
  | d :: ds =>
    match cnv d with
    | .error e => .error e
    | .ok r =>
      match cnvList ds with
      | .error e => .error e
      | .ok rs => .ok (r :: rs)
def cnvPairs : List (D × D) → Except DErr (List (D × D))
  | [] => .ok []
  | (k, v) :: es =>
    match cnv k with
    | .error e => .error e
    | .ok k' =>
      match cnv v with
      | .error e => .error e
      | .ok v' =>
        match cnvPairs es with
        | .error e => .error e
        | .ok r => .ok ((k', v') :: r)
def cnvPVHash : List (D × D) → Except DErr (List (D × D))
  | [] => .ok []
  | (k, v) :: es =>
    if k.isKey "__pvalue" && !dHasKey "__pvalue" es then
      match v with
      | .arr xs => cnvFlat xs
      | _ => .error .badValue
    else cnvPVHash es
def cnvPVSens : List (D × D) → Except DErr D
  | [] => .ok .undef
  | (k, v) :: es =>
    if k.isKey "__pvalue" && !dHasKey "__pvalue" es then cnv v else cnvPVSens es
def cnvAttrs : List (D × D) → Except DErr (List (String × D))
  | [] => .ok []
  | (k, v) :: es =>
    match k with
    | .str s =>
      if s = "__ptype" then cnvAttrs es
      else
        match cnv v with
        | .error e => .error e
        | .ok v' =>
          match cnvAttrs es with
          | .error e => .error e
          | .ok r => .ok ((s, v') :: r)
    | _ => .error .badValue
def cnvFlat : List D → Except DErr (List (D × D))
  | [] => .ok []
  | [_] => .error .badValue
  | k :: v :: rest =>
    match cnv k with
    | .error e => .error e
    | .ok k' =>
      match cnv v with
      | .error e => .error e
      | .ok v' =>
        match cnvFlat rest with
        | .error e => .error e
        | .ok r => .ok ((k', v') :: r)
end

/-! ### the fragment for which the round trip is claimed -/

mutual
/-- no user hash that the deserializer re-interprets: all keys strings and one of them `__ptype`
    (known finding C10-reserved-ptype-key) -/
def V.noRes : V → Bool
  | .hash _ es => !(allStrKeys es && hasKey "__ptype" es) && noResPairs es
  | .arr _ vs => noResList vs
  | .sens _ v => v.noRes
  | .obj _ tn _ as => isObjType tn && noResAttrs as
  | .leaf _ k enc _ => canonLeaf k enc          -- a Timespan payload is the default format of some duration
  | _ => true
def noResList : List V → Bool
  | [] => true | v :: vs => v.noRes && noResList vs
def noResPairs : List (V × V) → Bool
  | [] => true | (k, v) :: es => k.noRes && v.noRes && noResPairs es
/-- attribute names are not the reserved keys -/
def noResAttrs : List (String × V) → Bool
  | [] => true | (k, v) :: as => (k != "__ptype" && k != "__pvalue") && v.noRes && noResAttrs as
end

mutual
/-- already Data: scalars, strings, arrays, string-keyed hashes — and Binary when the consumer takes Binary as it is
    (`bin`): the serializer hands it over untouched whatever rich_data says -/
def V.isData (bin : Bool) : V → Bool
  | .undef => true | .bool _ => true | .int _ => true | .flt _ => true | .str _ => true
  | .bin _ _ => bin
  | .arr _ vs => isDataList bin vs
  | .hash _ es => allStrKeys es && isDataPairs bin es
  | _ => false
def isDataList (bin : Bool) : List V → Bool
  | [] => true | v :: vs => v.isData bin && isDataList bin vs
def isDataPairs (bin : Bool) : List (V × V) → Bool
  | [] => true | (k, v) :: es => k.isData bin && v.isData bin && isDataPairs bin es
end

/-- the values the round trip is claimed for under configuration `c` -/
def Frag (c : Cfg) (v : V) : Prop := v.noRes = true ∧ (c.rich = false → v.isData c.bin = true)
def FragList (c : Cfg) (vs : List V) : Prop := noResList vs = true ∧ (c.rich = false → isDataList c.bin vs = true)
def FragPairs (c : Cfg) (es : List (V × V)) : Prop := noResPairs es = true ∧ (c.rich = false → isDataPairs c.bin es = true)

theorem isObjType_ne (tn : String) (h : isObjType tn = true) :
    tn ≠ "Hash" ∧ tn ≠ "Sensitive" ∧ tn ≠ "Default" := by
  simp only [isObjType, objTypes, List.contains_cons, List.contains_nil, Bool.or_false, Bool.or_eq_true, beq_iff_eq] at h
  rcases h with rfl | rfl | rfl | rfl <;> decide

/-- the leaf-codec hypothesis for Binary: decoding inverts encoding -/
def B64Ok : Prop := ∀ bs, unb64 (b64 bs) = some bs

theorem typeName_codec (k : Kind) :
    k.typeName ≠ "Hash" ∧ k.typeName ≠ "Sensitive" ∧ k.typeName ≠ "Default" ∧ k.typeName ≠ "Binary" ∧
      kindOfTypeName k.typeName = some k.canon ∧ k.canon.canon = k.canon := by
  cases k <;> decide

/-- a typed hash read back -/
theorem typed_data (tn : String) (x : Ev) (d : D) (h : dataOf x = some d) :
    dataOf (typed tn x) = some (.hash [(.str "__ptype", .str tn), (.str "__pvalue", d)]) := by
  simp [typed, ptypeEv, pvalueEv, dataOf, dataOfList, scD, h, pairUpD]

theorem typed_lookup (tn : String) (d : D) :
    (if dAllStrKeys [(.str "__ptype", .str tn), (.str "__pvalue", d)] then
      dLookupLast "__ptype" [(.str "__ptype", .str tn), (.str "__pvalue", d)] else none) = some (.str tn) := by
  simp [dAllStrKeys, D.isStr, dLookupLast, D.isKey, dHasKey]

theorem typed_pvalue (tn : String) (d : D) :
    dLookupLast "__pvalue" [(.str "__ptype", .str tn), (.str "__pvalue", d)] = some d := by
  simp [dLookupLast, D.isKey, dHasKey]

/-- what the induction carries for one value: it reads back as `d`, `d` converts to the original, and `d` is a
    string (key) exactly when the original is -/
def Trip (c : Cfg) (v : V) : Prop :=
  ∃ d, dataOf (plain c v) = some d ∧ cnv d = .ok v.abs ∧ d.isStr = v.isStr ∧ ∀ n, d.isKey n = v.isKey n

def TripList (c : Cfg) (vs : List V) : Prop :=
  ∃ ds, dataOfList (plainList c vs) = some ds ∧ cnvList ds = .ok (absList vs)

def TripPairs (c : Cfg) (es : List (V × V)) : Prop :=
  ∃ flat ps, dataOfList (plainPairs c es) = some flat ∧ pairUpD flat = some ps ∧
    cnvFlat flat = .ok (absPairs es) ∧ cnvPairs ps = .ok (absPairs es) ∧
    dAllStrKeys ps = allStrKeys es ∧ ∀ n, dHasKey n ps = hasKey n es

def TripAttrs (c : Cfg) (as : List (String × V)) : Prop :=
  ∃ flat ps, dataOfList (plainAttrs c as) = some flat ∧ pairUpD flat = some ps ∧ dAllStrKeys ps = true ∧
    dHasKey "__ptype" ps = false ∧ dHasKey "__pvalue" ps = false ∧ cnvAttrs ps = .ok (absAttrs as)

theorem trip_scalar (c : Cfg) (v : V) (d : D) (h1 : dataOf (plain c v) = some d) (h2 : cnv d = .ok v.abs)
    (h3 : d.isStr = v.isStr) (h4 : ∀ n, d.isKey n = v.isKey n) : Trip c v := ⟨d, h1, h2, h3, h4⟩

theorem dLookupLast_none (n : String) : ∀ (ps : List (D × D)), dHasKey n ps = false → dLookupLast n ps = none
  | [], _ => rfl
  | (k, v) :: ps, h => by
      simp only [dHasKey, Bool.or_eq_false_iff] at h
      simp [dLookupLast, h.1, dLookupLast_none n ps h.2]

mutual
theorem plain_trip (c : Cfg) (hb : B64Ok) : ∀ (v : V), Frag c v → Trip c v
  | .undef, _ => trip_scalar c _ .undef (by simp [plain, dataOf, scD]) (by simp [cnv, V.abs]) rfl (fun _ => rfl)
  | .bool b, _ => trip_scalar c _ (.bool b) (by simp [plain, dataOf, scD]) (by simp [cnv, V.abs]) rfl (fun _ => rfl)
  | .int i, _ => trip_scalar c _ (.int i) (by simp [plain, dataOf, scD]) (by simp [cnv, V.abs]) rfl (fun _ => rfl)
  | .flt f, _ => trip_scalar c _ (.flt f) (by simp [plain, dataOf, scD]) (by simp [cnv, V.abs]) rfl (fun _ => rfl)
  | .str s, _ => trip_scalar c _ (.str s) (by simp [plain, dataOf, scD]) (by simp [cnv, V.abs]) rfl (fun _ => rfl)
  | .dflt, hf => by
      have hr : c.rich = true := by
        cases h : c.rich with
        | true => rfl
        | false => have := hf.2 h; simp [V.isData] at this
      refine trip_scalar c _ (.hash [(.str "__ptype", .str "Default")]) ?_ ?_ rfl (fun _ => rfl)
      · simp [plain, hr, ptypeEv, dataOf, dataOfList, scD, pairUpD]
      · simp [cnv, dAllStrKeys, D.isStr, dLookupLast, D.isKey, dHasKey, V.abs]
  | .leaf id k enc disp, hf => by
      have hr : c.rich = true := by
        cases h : c.rich with
        | true => rfl
        | false => have := hf.2 h; simp [V.isData] at this
      have hcan : canonLeaf k enc = true := by simpa [V.noRes] using hf.1
      obtain ⟨h1, h2, h3, h4, h5, h6⟩ := typeName_codec k
      refine trip_scalar c _ (.hash [(.str "__ptype", .str k.typeName), (.str "__pvalue", .str enc)]) ?_ ?_ rfl (fun _ => rfl)
      · simp only [plain, hr, if_true]; exact typed_data _ _ (.str enc) (by simp [dataOf, scD])
      · by_cases hts : k.typeName = "Timespan"
        · -- the real Timespan codec: the payload parses and prints back to itself
          have hk : k = .ts := by cases k <;> simp [Kind.typeName] at hts <;> rfl
          subst hk
          simp only [canonLeaf, canonSpan] at hcan
          split at hcan
          · rename_i ns hp
            have he : printSpan ns = enc := by simpa using hcan
            simp only [cnv, typed_lookup, typed_pvalue, if_neg h1, if_neg h2, if_neg h3, decodeLeafD, if_neg h4, if_pos hts,
              hp, he, V.abs, Kind.canon]
          · cases hcan
        · simp only [cnv, typed_lookup, typed_pvalue, if_neg h1, if_neg h2, if_neg h3, decodeLeafD, if_neg h4, if_neg hts,
            h5, h6, V.abs]
  | .bin id bs, hf => by
      cases hbin : c.bin with
      | true =>
        exact trip_scalar c _ (.bin bs) (by simp [plain, hbin, dataOf, scD]) (by simp [cnv, V.abs]) rfl (fun _ => rfl)
      | false =>
        have hr : c.rich = true := by
          cases h : c.rich with
          | true => rfl
          | false => have := hf.2 h; simp [V.isData, hbin] at this
        refine trip_scalar c _ (.hash [(.str "__ptype", .str "Binary"), (.str "__pvalue", .str (b64 bs))]) ?_ ?_ rfl (fun _ => rfl)
        · simp only [plain, hbin, hr, if_true, Bool.false_eq_true, if_false]
          exact typed_data _ _ (.str (b64 bs)) (by simp [dataOf, scD])
        · simp [cnv, typed_lookup, typed_pvalue, decodeLeafD, hb bs, V.abs]
  | .sens id v, hf => by
      have hr : c.rich = true := by
        cases h : c.rich with
        | true => rfl
        | false => have := hf.2 h; simp [V.isData] at this
      have hv : Frag c v := ⟨by simpa [V.noRes] using hf.1, fun h => by simp [hr] at h⟩
      obtain ⟨d, hd1, hd2, _, _⟩ := plain_trip c hb v hv
      refine trip_scalar c _ (.hash [(.str "__ptype", .str "Sensitive"), (.str "__pvalue", d)]) ?_ ?_ rfl (fun _ => rfl)
      · simp only [plain, hr, if_true]; exact typed_data _ _ d hd1
      · simp [cnv, typed_lookup, cnvPVSens, D.isKey, dHasKey, hd2, V.abs]
  | .arr id vs, hf => by
      have hv : FragList c vs := ⟨by simpa [V.noRes] using hf.1, fun h => by simpa [V.isData] using hf.2 h⟩
      obtain ⟨ds, hd1, hd2⟩ := plainList_trip c hb vs hv
      refine trip_scalar c _ (.arr ds) ?_ ?_ rfl (fun _ => rfl)
      · simp [plain, dataOf, hd1]
      · simp [cnv, hd2, V.abs]
  | .hash id es, hf => by
      have hnr : (allStrKeys es = true → hasKey "__ptype" es = false) ∧ noResPairs es = true := by
        have := hf.1
        simp only [V.noRes, Bool.and_eq_true, Bool.not_eq_true', Bool.and_eq_false_iff] at this
        refine ⟨fun h => ?_, this.2⟩
        rcases this.1 with h' | h'
        · rw [h] at h'; cases h'
        · exact h' 
      have hv : FragPairs c es := ⟨hnr.2, fun h => by have := hf.2 h; simp [V.isData] at this; exact this.2⟩
      obtain ⟨flat, ps, hd1, hd2, hd3, hd4, hd5, hd6⟩ := plainPairs_trip c hb es hv
      by_cases hc : (c.cplx || allStrKeys es) = true
      · -- emitted as a hash; not re-interpreted on the way back
        refine trip_scalar c _ (.hash ps) ?_ ?_ rfl (fun _ => rfl)
        · simp [plain, hc, dataOf, hd1, hd2]
        · have hlook : (if dAllStrKeys ps then dLookupLast "__ptype" ps else none) = none := by
            rw [hd5]
            cases hs : allStrKeys es with
            | false => simp
            | true =>
              have : hasKey "__ptype" es = false := hnr.1 hs
              simp [dLookupLast_none "__ptype" ps (by rw [hd6]; exact this)]
          simp [cnv, hlook, hd4, V.abs]
      · have hr : c.rich = true := by
          cases h : c.rich with
          | true => rfl
          | false =>
            have := hf.2 h
            simp [V.isData] at this
            simp [this.1] at hc
        refine trip_scalar c _ (.hash [(.str "__ptype", .str "Hash"), (.str "__pvalue", .arr flat)]) ?_ ?_ rfl (fun _ => rfl)
        · simp only [plain, hc, hr, if_true, Bool.false_eq_true, if_false]
          exact typed_data _ _ (.arr flat) (by simp [dataOf, hd1])
        · simp [cnv, typed_lookup, cnvPVHash, D.isKey, dHasKey, hd3, V.abs]
  | .obj id tn disp as, hf => by
      have hr : c.rich = true := by
        cases h : c.rich with
        | true => rfl
        | false => have := hf.2 h; simp [V.isData] at this
      have hn : isObjType tn = true ∧ noResAttrs as = true := by simpa [V.noRes] using hf.1
      obtain ⟨n1, n2, n3⟩ := isObjType_ne tn hn.1
      obtain ⟨flat, ps, h1, h2, h3, h4, h5, h6⟩ := plainAttrs_trip c hb as hr hn.2
      refine trip_scalar c _ (.hash ((.str "__ptype", .str tn) :: ps)) ?_ ?_ rfl (fun _ => rfl)
      · simp [plain, hr, ptypeEv, dataOf, dataOfList, scD, h1, pairUpD, h2]
      · have hl1 : (if dAllStrKeys ((D.str "__ptype", D.str tn) :: ps) then
            dLookupLast "__ptype" ((D.str "__ptype", D.str tn) :: ps) else none) = some (.str tn) := by
          simp [dAllStrKeys, D.isStr, h3, dLookupLast, D.isKey, h4]
        have hl2 : dLookupLast "__pvalue" ((D.str "__ptype", D.str tn) :: ps) = none := by
          simp [dLookupLast, D.isKey, dLookupLast_none "__pvalue" ps h5]
        simp only [cnv, hl1, if_neg n1, if_neg n2, if_neg n3, hl2, hn.1, if_true]
        simp [cnvAttrs, h6, V.abs]

theorem plainList_trip (c : Cfg) (hb : B64Ok) : ∀ (vs : List V), FragList c vs → TripList c vs
  | [], _ => ⟨[], by simp [plainList, dataOfList], by simp [cnvList, absList]⟩
  | v :: vs, hf => by
      have h1 : Frag c v := ⟨by have := hf.1; simp [noResList] at this; exact this.1,
        fun h => by have := hf.2 h; simp [isDataList] at this; exact this.1⟩
      have h2 : FragList c vs := ⟨by have := hf.1; simp [noResList] at this; exact this.2,
        fun h => by have := hf.2 h; simp [isDataList] at this; exact this.2⟩
      obtain ⟨d, hd1, hd2, _, _⟩ := plain_trip c hb v h1
      obtain ⟨ds, hs1, hs2⟩ := plainList_trip c hb vs h2
      exact ⟨d :: ds, by simp [plainList, dataOfList, hd1, hs1], by simp [cnvList, hd2, hs2, absList]⟩

theorem plainPairs_trip (c : Cfg) (hb : B64Ok) : ∀ (es : List (V × V)), FragPairs c es → TripPairs c es
  | [], _ => ⟨[], [], by simp [plainPairs, dataOfList], by simp [pairUpD], by simp [cnvFlat, absPairs],
      by simp [cnvPairs, absPairs], by simp [dAllStrKeys, allStrKeys], fun _ => by simp [dHasKey, hasKey]⟩
  | (k, v) :: es, hf => by
      have hn : (k.noRes = true ∧ v.noRes = true) ∧ noResPairs es = true := by
        have := hf.1; simpa [noResPairs] using this
      have hd : c.rich = false → (k.isData c.bin = true ∧ v.isData c.bin = true) ∧ isDataPairs c.bin es = true := by
        intro h; have := hf.2 h; simpa [isDataPairs] using this
      obtain ⟨dk, hk1, hk2, hk3, hk4⟩ := plain_trip c hb k ⟨hn.1.1, fun h => (hd h).1.1⟩
      obtain ⟨dv, hv1, hv2, _, _⟩ := plain_trip c hb v ⟨hn.1.2, fun h => (hd h).1.2⟩
      obtain ⟨flat, ps, hs1, hs2, hs3, hs4, hs5, hs6⟩ := plainPairs_trip c hb es ⟨hn.2, fun h => (hd h).2⟩
      refine ⟨dk :: dv :: flat, (dk, dv) :: ps, ?_, ?_, ?_, ?_, ?_, ?_⟩
      · simp [plainPairs, dataOfList, hk1, hv1, hs1]
      · simp [pairUpD, hs2]
      · simp [cnvFlat, hk2, hv2, hs3, absPairs]
      · simp [cnvPairs, hk2, hv2, hs4, absPairs]
      · simp [dAllStrKeys, allStrKeys, hk3, hs5]
      · intro n; simp [dHasKey, hasKey, hk4 n, hs6 n]

theorem plainAttrs_trip (c : Cfg) (hb : B64Ok) : ∀ (as : List (String × V)), c.rich = true → noResAttrs as = true →
    TripAttrs c as
  | [], _, _ => ⟨[], [], by simp [plainAttrs, dataOfList], by simp [pairUpD], by simp [dAllStrKeys], by simp [dHasKey],
      by simp [dHasKey], by simp [cnvAttrs, absAttrs]⟩
  | (k, v) :: as, hr, hn => by
      have hn' : ((k ≠ "__ptype" ∧ k ≠ "__pvalue") ∧ v.noRes = true) ∧ noResAttrs as = true := by
        simpa [noResAttrs] using hn
      obtain ⟨dv, hv1, hv2, _, _⟩ := plain_trip c hb v ⟨hn'.1.2, fun h => by simp [hr] at h⟩
      obtain ⟨flat, ps, h1, h2, h3, h4, h5, h6⟩ := plainAttrs_trip c hb as hr hn'.2
      refine ⟨.str k :: dv :: flat, (.str k, dv) :: ps, ?_, ?_, ?_, ?_, ?_, ?_⟩
      · simp [plainAttrs, dataOfList, dataOf, scD, hv1, h1]
      · simp [pairUpD, h2]
      · simp [dAllStrKeys, D.isStr, h3]
      · simp [dHasKey, D.isKey, h4, hn'.1.1.1]
      · simp [dHasKey, D.isKey, h5, hn'.1.1.2]
      · simp [cnvAttrs, hn'.1.1.1, hv2, h6, absAttrs]
end

end Pcore.Ser
