import Pcore.Model.CtorNew
/-!
`new` returns an instance of the receiver: the skeleton (`newInstance`, any constructor function) and its instance on the
alphabet (`newModel`).  Core Lean only.  (The property theorems `C16_new`, `C16_newm` of Props/C16.lean are these.)
-/
namespace Pcore.Dispatch

section
variable {T V : Type} (inst : T → V → Bool)

/-- the type a `new` on this receiver must produce an instance of -/
def Recv.type? : Recv T V → Option T
  | .noCtor t => some t
  | .ctor t _ => some t
  | .init t _ => some t
  | .initNoCtor => none
  | .initDefault => none

theorem newInstance_value (recv : Recv T V) (args : List V) (r : V) (h : newInstance inst recv args = .value r) :
    ∃ t, recv.type? = some t ∧ inst t r = true := by
  cases recv with
  | noCtor t => simp [newInstance] at h
  | initNoCtor => simp [newInstance] at h
  | initDefault => simp [newInstance] at h
  | ctor t f =>
    simp only [newInstance] at h
    cases hf : f args with
    | reported c => simp [hf] at h
    | fault => simp [hf] at h
    | value v =>
      simp only [hf, assertInstance] at h
      by_cases hi : inst t v = true
      · simp [hi] at h; subst h; exact ⟨t, rfl, hi⟩
      · simp [hi] at h
  | init t f =>
    simp only [newInstance] at h
    cases hf : f args with
    | reported c => simp [hf] at h
    | fault => simp [hf] at h
    | value v =>
      simp only [hf, assertInstance] at h
      by_cases hi : inst t v = true
      · simp [hi] at h; subst h; exact ⟨t, rfl, hi⟩
      · simp [hi] at h

end

namespace Alpha

section
variable (pf : List Char → Option Nat)

def RecvTy.type? : RecvTy → Option Ty
  | .plain t => some t
  | .init t _ => some t
  | .initDefault => none

theorem newModel_some (r : RecvTy) (args : List Val) (o : NewOutcome Val) (h : newModel pf r args = some o) :
    ∃ recv, recvOf pf r = some recv ∧ newInstance inst recv args = o := by
  unfold newModel at h
  cases hr : recvOf pf r with
  | none => simp [hr] at h
  | some recv =>
    refine ⟨recv, rfl, ?_⟩
    simp only [hr] at h
    split at h
    · cases h
    · exact Option.some.inj h

theorem newModel_value (r : RecvTy) (args : List Val) (v : Val) (h : newModel pf r args = some (.value v)) :
    ∃ t, r.type? = some t ∧ inst t v = true := by
  obtain ⟨recv, hr, hn⟩ := newModel_some pf r args _ h
  obtain ⟨t, ht, hi⟩ := newInstance_value inst recv args v hn
  refine ⟨t, ?_, hi⟩
  cases r with
  | plain t0 => simp only [recvOf] at hr; split at hr <;> simp at hr <;> subst hr <;> simpa [Recv.type?, RecvTy.type?] using ht
  | init t0 ia => simp only [recvOf] at hr; split at hr <;> simp at hr <;> subst hr <;> simp [Recv.type?, RecvTy.type?] at ht ⊢ <;> exact ht
  | initDefault => simp [recvOf] at hr; subst hr; simp [Recv.type?] at ht

end

end Alpha

end Pcore.Dispatch
