import Pcore.Proofs.LatFrag
import Pcore.Proofs.LatStruct
set_option linter.unusedSimpArgs false
set_option linter.unusedVariables false
set_option maxRecDepth 2000
/-! C01: soundness of assignability w.r.t. instance-of, rule off (`sfh = false`), on the fragment `Ty.Frag`. -/
namespace Pcore.Lat
variable (cfg : Cfg) (sfh : Bool)

structure Hyp (a b : Ty) (v : Val) : Prop where
  fa : a.Frag sfh
  fb : b.Frag sfh
  wa : Ty.WF cfg a
  wb : Ty.WF cfg b
  us : b.US
  ok : v.OK
  tv : Val.TyOKS cfg sfh v

def Sound (n : Nat) : Prop :=
  ∀ a b v, a.w + b.w ≤ n → Hyp cfg sfh a b v → asg cfg sfh a b = true → inst cfg sfh b v = true → inst cfg sfh a v = true

theorem Rng.sub_contains {r r' : Rng} {i : Int} (h : r.sub r' = true) (h' : r'.contains i = true) : r.contains i = true := by
  simp [Rng.sub, Rng.contains] at *; omega

theorem sameNullary_inst {a b : Ty} (h : sameNullary a b = true) (v : Val) :
    inst cfg sfh b v = inst cfg sfh a v := by
  cases a <;> cases b <;> simp [sameNullary] at h <;> try rfl
  all_goals (rename_i p q; cases p <;> cases q <;> simp at h; rfl)

/-- nothing is an instance of a string-family type but strings -/
theorem inst_strfam {b : Ty} (hb : isStringFamily b = true) {v : Val} (h : inst cfg sfh b v = true) : ∃ s, v = .str s := by
  cases b <;> simp [isStringFamily] at hb <;> (unfold inst at h; cases v <;> simp at h <;> exact ⟨_, rfl⟩)

theorem recv_undef (b : Ty) (v : Val) (h : asgRecv cfg sfh .undef b = true) (hi : inst cfg sfh b v = true) :
    inst cfg sfh .undef v = true := by
  unfold asgRecv at h; cases b <;> simp at h; exact hi

theorem recv_dflt (b : Ty) (v : Val) (h : asgRecv cfg sfh .dflt b = true) (hi : inst cfg sfh b v = true) :
    inst cfg sfh .dflt v = true := by
  unfold asgRecv at h; cases b <;> simp at h; exact hi

theorem recv_numeric (b : Ty) (v : Val) (h : asgRecv cfg sfh .numeric b = true) (hi : inst cfg sfh b v = true) :
    inst cfg sfh .numeric v = true := by
  unfold asgRecv at h; cases b <;> simp at h <;> (unfold inst at hi ⊢; cases v <;> simp at hi ⊢)

theorem recv_str (b : Ty) (v : Val) (h : asgRecv cfg sfh .str b = true) (hi : inst cfg sfh b v = true) :
    inst cfg sfh .str v = true := by
  unfold asgRecv at h
  obtain ⟨s, rfl⟩ := inst_strfam cfg sfh h hi
  unfold inst; rfl

theorem recv_bin (b : Ty) (v : Val) (h : asgRecv cfg sfh .bin b = true) (hi : inst cfg sfh b v = true) :
    inst cfg sfh .bin v = true := by
  unfold asgRecv at h; cases b <;> simp at h; exact hi

theorem recv_int (r : Rng) (b : Ty) (v : Val) (h : asgRecv cfg sfh (.int r) b = true) (hi : inst cfg sfh b v = true) :
    inst cfg sfh (.int r) v = true := by
  unfold asgRecv at h; cases b <;> simp at h
  unfold inst at hi ⊢; cases v <;> simp at hi ⊢
  exact Rng.sub_contains h hi

theorem recv_tspan (r : Rng) (b : Ty) (v : Val) (h : asgRecv cfg sfh (.tspan r) b = true) (hi : inst cfg sfh b v = true) :
    inst cfg sfh (.tspan r) v = true := by
  unfold asgRecv at h; cases b <;> simp at h
  unfold inst at hi ⊢; cases v <;> simp at hi ⊢
  exact Rng.sub_contains h hi

theorem recv_tstamp (r : Rng) (b : Ty) (v : Val) (h : asgRecv cfg sfh (.tstamp r) b = true) (hi : inst cfg sfh b v = true) :
    inst cfg sfh (.tstamp r) v = true := by
  unfold asgRecv at h; cases b <;> simp at h
  unfold inst at hi ⊢; cases v <;> simp at hi ⊢
  exact Rng.sub_contains h hi

theorem recv_float (lo hi' : Fl) (b : Ty) (v : Val) (h : asgRecv cfg sfh (.float lo hi') b = true) (hi : inst cfg sfh b v = true) :
    inst cfg sfh (.float lo hi') v = true := by
  unfold asgRecv at h; cases b <;> simp at h
  unfold inst at hi ⊢; cases v <;> simp at hi ⊢
  exact ⟨Int.le_trans h.1 hi.1, Int.le_trans hi.2 h.2⟩

theorem recv_bool (x : Option Bool) (b : Ty) (v : Val) (h : asgRecv cfg sfh (.bool x) b = true) (hi : inst cfg sfh b v = true) :
    inst cfg sfh (.bool x) v = true := by
  unfold asgRecv at h; cases b <;> simp at h
  unfold inst at hi ⊢; cases v <;> simp at hi ⊢
  rcases h with h | h
  · left; exact h
  · subst h; exact hi

theorem recv_strSz (hl : ∀ s, (cfg.lower s).length = s.length) (r : Rng) (b : Ty) (v : Val) (h : asgRecv cfg sfh (.strSz r) b = true) (hi : inst cfg sfh b v = true) :
    inst cfg sfh (.strSz r) v = true := by
  unfold asgRecv at h; cases b <;> simp at h
  · unfold inst at hi ⊢; cases v <;> simp at hi ⊢
    exact Rng.sub_contains h hi
  · unfold inst at hi ⊢; cases v <;> simp at hi ⊢
    subst hi; exact h
  · unfold inst at hi ⊢; cases v <;> simp at hi ⊢
    rename_i vs ci s
    simp [enumInst] at hi
    rcases hi with hi | hi
    · simp [hi] at h
    · have := h.2 _ hi
      cases ci <;> simp [hl] at this <;> exact this

theorem foundCount_le (ms : List Member) (es : List (Val × Val)) (hn : KeysNodup es) :
    foundCount ms es ≤ ms.length := by
  induction ms with
  | nil => simp [foundCount]
  | cons m ms ih => simp only [foundCount, List.length_cons]; have := hn m.1; omega

theorem foundCount_ge (sfh : Bool) (ms : List Member) (es : List (Val × Val))
    (hok : ∀ m ∈ ms, MemberOK cfg sfh es m) :
    (ms.filter (fun m => !m.2.1)).length ≤ foundCount ms es := by
  induction ms with
  | nil => simp [foundCount]
  | cons m ms ih =>
    have ih' := ih (fun m' hm' => hok m' (List.mem_cons_of_mem _ hm'))
    simp only [foundCount, List.filter_cons]
    cases ho : m.2.1 with
    | true => simp; omega
    | false =>
      simp
      have h1 := hok m (by simp)
      rw [MemberOK] at h1
      cases hg : hashGetW cfg sfh m.1 m.2.2 es with
      | none => rw [hg] at h1; simp [ho] at h1
      | some b =>
        obtain ⟨e, he, hk, _⟩ := hashGetW_some cfg sfh _ _ _ _ hg
        have hpos : 0 < es.countP (keyIs m.1) := List.countP_pos_iff.2 ⟨e, he, (keyIs_iff _ e).2 hk⟩
        omega

theorem instStruct_size (sfh : Bool) (ms : List Member) (es : List (Val × Val)) (hn : KeysNodup es)
    (h : instStruct cfg sfh ms es = some es.length) : (structSize ms).contains es.length = true := by
  obtain ⟨hok, hc⟩ := (instStruct_iff cfg sfh ms es hn _).1 h
  have h1 := foundCount_le ms es hn
  have h2 := foundCount_ge cfg sfh ms es hok
  simp [structSize, Rng.contains]
  omega

theorem recv_strVal (s : String) (b : Ty) (v : Val) (h : asgRecv cfg sfh (.strVal s) b = true) (hi : inst cfg sfh b v = true) :
    inst cfg sfh (.strVal s) v = true := by
  unfold asgRecv at h; cases b <;> simp at h
  subst h; exact hi

theorem recv_regexp (s : String) (b : Ty) (v : Val) (h : asgRecv cfg sfh (.regexp s) b = true) (hi : inst cfg sfh b v = true) :
    inst cfg sfh (.regexp s) v = true := by
  unfold asgRecv at h; cases b <;> simp at h
  unfold inst at hi ⊢; cases v <;> simp at hi ⊢
  rcases h with h | h
  · left; exact h
  · subst h; exact hi

theorem recv_enum (vs : List String) (ci : Bool) (b : Ty) (v : Val) (wb : Ty.WF cfg b)
    (h : asgRecv cfg sfh (.enum vs ci) b = true) (hi : inst cfg sfh b v = true) :
    inst cfg sfh (.enum vs ci) v = true := by
  unfold asgRecv at h
  by_cases he : vs.isEmpty = true
  · simp only [he, if_true] at h
    obtain ⟨s, rfl⟩ := inst_strfam cfg sfh h hi
    unfold inst; simp [enumInst, he]
  · simp only [he] at h
    cases b <;> simp at h
    · -- strVal
      unfold inst at hi ⊢; cases v <;> simp at hi ⊢
      subst hi; exact h
    · -- enum
      rename_i vs' ci'
      unfold Ty.WF at wb
      unfold inst at hi ⊢; cases v <;> simp at hi ⊢
      rename_i s
      obtain ⟨⟨hne, hc⟩, hall⟩ := h
      simp only [enumInst, Bool.or_eq_true, List.isEmpty_iff] at hi
      rcases hi with hi | hi
      · exact absurd hi hne
      · simp only [List.contains_iff_mem, List.elem_eq_mem, decide_eq_true_eq] at hi
        have h1 := hall _ hi
        cases ci' with
        | false => simpa using h1
        | true =>
          simp at hc; subst hc
          simp at hi
          have hfix := wb rfl _ hi
          simp only [enumInst, Bool.or_eq_true, List.isEmpty_iff, if_true] at h1 ⊢
          rw [hfix] at h1
          exact h1

theorem recv_pattern (rs : List String) (b : Ty) (v : Val)
    (h : asgRecv cfg sfh (.pattern rs) b = true) (hi : inst cfg sfh b v = true) :
    inst cfg sfh (.pattern rs) v = true := by
  unfold asgRecv at h
  cases b <;> simp at h
  · -- str
    unfold inst at hi ⊢; cases v <;> simp at hi ⊢; left; exact h
  · -- strSz
    unfold inst at hi ⊢; cases v <;> simp at hi ⊢; left; exact h
  · -- strVal
    unfold inst at hi ⊢; cases v <;> simp at hi ⊢; subst hi; exact h
  · -- enum
    rename_i vs ci
    unfold inst at hi ⊢; cases v <;> simp at hi ⊢
    rcases h with h | ⟨⟨hne, hci⟩, hall⟩
    · left; exact h
    · right
      subst hci
      simp [enumInst] at hi
      rcases hi with hi | hi
      · exact absurd hi hne
      · exact hall _ hi
  · -- pattern
    rename_i rs'
    unfold inst at hi ⊢; cases v <;> simp at hi ⊢
    rcases h with h | ⟨hne, hsub⟩
    · left; exact h
    · right
      rcases hi with hi | hi
      · exact absurd hi hne
      · simp only [rxAny, List.any_eq_true] at hi ⊢
        obtain ⟨r, hr, hm⟩ := hi
        simp [subsetStr] at hsub
        exact ⟨r, hsub r hr, hm⟩

theorem recv_coll (r : Rng) (b : Ty) (v : Val) (ok : v.OK)
    (h : asgRecv cfg sfh (.coll r) b = true) (hi : inst cfg sfh b v = true) :
    inst cfg sfh (.coll r) v = true := by
  unfold asgRecv at h
  cases b <;> simp at h
  · unfold inst at hi ⊢; cases v <;> simp at hi ⊢ <;> exact Rng.sub_contains h hi
  · unfold inst at hi ⊢; cases v <;> simp at hi ⊢; exact Rng.sub_contains h hi.1
  · unfold inst at hi ⊢; cases v <;> simp at hi ⊢; exact Rng.sub_contains h hi.1
  · unfold inst at hi ⊢; cases v <;> simp at hi ⊢; exact Rng.sub_contains h hi.1
  · unfold inst at hi ⊢; cases v <;> simp at hi ⊢
    exact Rng.sub_contains h (instStruct_size cfg sfh _ _ ok.nodup hi)

theorem recv_object (p : Option (List Nat)) (b : Ty) (v : Val)
    (h : asgRecv cfg sfh (.object p) b = true) (hi : inst cfg sfh b v = true) :
    inst cfg sfh (.object p) v = true := by
  unfold asgRecv at h
  cases b <;> simp at h
  rename_i q
  unfold inst at hi ⊢
  cases p with
  | none => cases v <;> simp at hi ⊢
  | some pp =>
    cases q with
    | none => simp at h
    | some qq =>
      simp at h
      cases v <;> simp at hi ⊢
      exact isPrefix_trans _ _ _ h hi

theorem Hyp.mk' {a b : Ty} {v : Val} (fa : a.Frag sfh) (fb : b.Frag sfh) (wa : Ty.WF cfg a) (wb : Ty.WF cfg b) (us : b.US) (ok : v.OK) (tv : Val.TyOKS cfg sfh v) :
    Hyp cfg sfh a b v := ⟨fa, fb, wa, wb, us, ok, tv⟩

theorem recv_variant (n : Nat) (ih : Sound cfg sfh n) (as : List Ty) (b : Ty) (v : Val)
    (hw : (Ty.variant as).w + b.w ≤ n + 1) (H : Hyp cfg sfh (.variant as) b v)
    (h : asgRecv cfg sfh (.variant as) b = true) (hi : inst cfg sfh b v = true) :
    inst cfg sfh (.variant as) v = true := by
  unfold asgRecv at h
  rw [asgAnyL_iff] at h
  obtain ⟨a, hm, ha⟩ := h
  unfold inst; rw [instAny_iff]
  have fa := H.fa; unfold Ty.Frag at fa
  have wa := H.wa; unfold Ty.WF at wa
  simp only [Ty.w] at hw
  exact ⟨a, hm, ih a b v (by have := Ty.w_lt_wl hm; omega) ⟨fa a hm, H.fb, wa a hm, H.wb, H.us, H.ok, H.tv⟩ ha hi⟩

theorem inst_undef_eq {v : Val} (h : inst cfg sfh .undef v = true) : v = .undef := by
  unfold inst at h; cases v <;> simp at h; rfl

theorem recv_optional (n : Nat) (ih : Sound cfg sfh n) (x : Ty) (b : Ty) (v : Val)
    (hw : (Ty.optional x).w + b.w ≤ n + 1) (H : Hyp cfg sfh (.optional x) b v)
    (h : asgRecv cfg sfh (.optional x) b = true) (hi : inst cfg sfh b v = true) :
    inst cfg sfh (.optional x) v = true := by
  unfold asgRecv at h
  have fa := H.fa; unfold Ty.Frag at fa
  have wa := H.wa; unfold Ty.WF at wa
  simp only [Ty.w] at hw
  rw [Bool.or_eq_true] at h
  unfold inst
  rcases h with h | h
  · have := ih .undef b v (by simp [Ty.w]; omega) ⟨by unfold Ty.Frag; trivial, H.fb, by unfold Ty.WF; trivial, H.wb, H.us, H.ok, H.tv⟩ h hi
    rw [inst_undef_eq cfg sfh this]; simp
  · have := ih x b v (by omega) ⟨fa, H.fb, wa, H.wb, H.us, H.ok, H.tv⟩ h hi
    simp [this]

theorem recv_notUndef (n : Nat) (ih : Sound cfg sfh n) (x : Ty) (b : Ty) (v : Val)
    (hw : (Ty.notUndef x).w + b.w ≤ n + 1) (H : Hyp cfg sfh (.notUndef x) b v)
    (h : asgRecv cfg sfh (.notUndef x) b = true) (hi : inst cfg sfh b v = true) :
    inst cfg sfh (.notUndef x) v = true := by
  unfold asgRecv at h
  have fa := H.fa; unfold Ty.Frag at fa
  have wa := H.wa; unfold Ty.WF at wa
  simp only [Ty.w] at hw
  have key : ∀ (b' : Ty), b' = b → asg cfg sfh b' .undef = false → asg cfg sfh x b' = true → inst cfg sfh (.notUndef x) v = true := by
    intro b' hb' h1 h2
    subst hb'
    have hx := ih x b' v (by omega) ⟨fa, H.fb, wa, H.wb, H.us, H.ok, H.tv⟩ h2 hi
    unfold inst
    have hv : v ≠ .undef := by
      intro hv; subst hv
      have := inst_undef_complete cfg sfh _ b' (Nat.le_refl _) hi
      rw [this] at h1; cases h1
    cases v <;> simp [hx] at hv ⊢
  cases b with
  | notUndef y =>
    simp only [] at h
    have fb := H.fb; unfold Ty.Frag at fb
    have wb := H.wb; unfold Ty.WF at wb
    have us := H.us; unfold Ty.US at us
    unfold inst at hi
    simp only [Bool.and_eq_true] at hi
    simp only [Ty.w] at hw
    simp only [Bool.or_eq_true] at h
    have hx : inst cfg sfh x v = true := by
      rcases h with h | h
      · exact ih x y v (by omega) ⟨fa, fb, wa, wb, us, H.ok, H.tv⟩ h hi.2
      · exact ih x (.notUndef y) v (by simp [Ty.w]; omega) ⟨fa, H.fb, wa, H.wb, H.us, H.ok, H.tv⟩ h
          (by unfold inst; simp [hi.1, hi.2])
    unfold inst; simp [hi.1, hx]
  | _ =>
    simp only [Bool.and_eq_true, Bool.not_eq_true'] at h
    exact key _ rfl h.1 h.2

/-- a Callable type accepts only Callable types, which have no instance in the value language -/
theorem recv_callable (p r k : Option Ty) (b : Ty) (v : Val)
    (h : asgRecv cfg sfh (.callable p r k) b = true) (hi : inst cfg sfh b v = true) :
    inst cfg sfh (.callable p r k) v = true := by
  unfold asgRecv at h
  cases b <;> simp only [] at h <;> (first | contradiction | skip)
  unfold inst at hi; simp at hi

/-- a Runtime type accepts only Runtime types, which have no instance in the value language -/
theorem recv_runtime (rt nm : String) (pt : Option String) (b : Ty) (v : Val)
    (h : asgRecv cfg sfh (.runtime rt nm pt) b = true) (hi : inst cfg sfh b v = true) :
    inst cfg sfh (.runtime rt nm pt) v = true := by
  unfold asgRecv at h
  cases b <;> simp only [] at h <;> (first | contradiction | skip)
  unfold inst at hi; simp at hi

/-- `Iterator[x]` accepts only Iterator types, which have no instance in the value language -/
theorem recv_iterator (x : Ty) (b : Ty) (v : Val) (h : asgRecv cfg sfh (.iterator x) b = true) (hi : inst cfg sfh b v = true) :
    inst cfg sfh (.iterator x) v = true := by
  unfold asgRecv at h
  cases b <;> simp at h
  unfold inst at hi; simp at hi

theorem recv_sensitive (n : Nat) (ih : Sound cfg sfh n) (x : Ty) (b : Ty) (v : Val)
    (hw : (Ty.sensitive x).w + b.w ≤ n + 1) (H : Hyp cfg sfh (.sensitive x) b v)
    (h : asgRecv cfg sfh (.sensitive x) b = true) (hi : inst cfg sfh b v = true) :
    inst cfg sfh (.sensitive x) v = true := by
  unfold asgRecv at h
  cases b <;> simp at h
  rename_i y
  have fa := H.fa; unfold Ty.Frag at fa
  have wa := H.wa; unfold Ty.WF at wa
  have fb := H.fb; unfold Ty.Frag at fb
  have wb := H.wb; unfold Ty.WF at wb
  have us := H.us; unfold Ty.US at us
  simp only [Ty.w] at hw
  unfold inst at hi ⊢
  cases v <;> simp at hi ⊢
  exact ih x y _ (by omega) ⟨fa, fb, wa, wb, us, H.ok.inner, H.tv.inner⟩ h hi

theorem triv_frag_str : Ty.Frag .str sfh := by unfold Ty.Frag; trivial
theorem leaf_hyp {a b : Ty} {v : Val} (H : Hyp cfg sfh a b v) (c : Ty) (hf : c.Frag sfh) (hwf : Ty.WF cfg c) : Hyp cfg sfh c b v :=
  ⟨hf, H.fb, hwf, H.wb, H.us, H.ok, H.tv⟩

theorem recv_scalar (n : Nat) (ih : Sound cfg sfh n) (b : Ty) (v : Val)
    (hw : Ty.scalar.w + b.w ≤ n + 1) (H : Hyp cfg sfh .scalar b v)
    (h : asgRecv cfg sfh .scalar b = true) (hi : inst cfg sfh b v = true) :
    inst cfg sfh .scalar v = true := by
  unfold asgRecv at h
  simp only [Ty.w] at hw
  have key : (asg cfg sfh .str b || asg cfg sfh .numeric b || asg cfg sfh (.bool none) b || asg cfg sfh (.regexp "") b ||
      asg cfg sfh (.tspan Rng.all) b || asg cfg sfh (.tstamp tstampAll) b) = true → inst cfg sfh .scalar v = true := by
    intro h
    simp only [Bool.or_eq_true] at h
    rcases h with ((((h | h) | h) | h) | h) | h
    · have := ih .str b v (by simp [Ty.w]; omega) (leaf_hyp cfg sfh H _ (by unfold Ty.Frag; trivial) (by unfold Ty.WF; trivial)) h hi
      unfold inst at this ⊢; cases v <;> simp [isScalarVal] at this ⊢
    · have := ih .numeric b v (by simp [Ty.w]; omega) (leaf_hyp cfg sfh H _ (by unfold Ty.Frag; trivial) (by unfold Ty.WF; trivial)) h hi
      unfold inst at this ⊢; cases v <;> simp [isScalarVal] at this ⊢
    · have := ih (.bool none) b v (by simp [Ty.w]; omega) (leaf_hyp cfg sfh H _ (by unfold Ty.Frag; trivial) (by unfold Ty.WF; trivial)) h hi
      unfold inst at this ⊢; cases v <;> simp [isScalarVal] at this ⊢
    · have := ih (.regexp "") b v (by simp [Ty.w]; omega) (leaf_hyp cfg sfh H _ (by unfold Ty.Frag; trivial) (by unfold Ty.WF; trivial)) h hi
      unfold inst at this ⊢; cases v <;> simp [isScalarVal] at this ⊢
    · have := ih (.tspan Rng.all) b v (by simp [Ty.w]; omega) (leaf_hyp cfg sfh H _ (by unfold Ty.Frag; trivial) (by unfold Ty.WF; trivial)) h hi
      unfold inst at this ⊢; cases v <;> simp [isScalarVal] at this ⊢
    · have := ih (.tstamp tstampAll) b v (by simp [Ty.w]; omega) (leaf_hyp cfg sfh H _ (by unfold Ty.Frag; trivial) (by unfold Ty.WF; trivial)) h hi
      unfold inst at this ⊢; cases v <;> simp [isScalarVal] at this ⊢
  cases b with
  | scalar => exact hi
  | scalarData => unfold inst at hi ⊢; cases v <;> simp [isScalarVal] at hi ⊢
  | _ => exact key h

theorem recv_scalarData (n : Nat) (ih : Sound cfg sfh n) (b : Ty) (v : Val)
    (hw : Ty.scalarData.w + b.w ≤ n + 1) (H : Hyp cfg sfh .scalarData b v)
    (h : asgRecv cfg sfh .scalarData b = true) (hi : inst cfg sfh b v = true) :
    inst cfg sfh .scalarData v = true := by
  unfold asgRecv at h
  simp only [Ty.w] at hw
  have key : (asg cfg sfh .str b || asg cfg sfh (.int Rng.all) b || asg cfg sfh (.bool none) b || asg cfg sfh floatAll b) = true →
      inst cfg sfh .scalarData v = true := by
    intro h
    simp only [Bool.or_eq_true] at h
    rcases h with ((h | h) | h) | h
    · have := ih .str b v (by simp [Ty.w]; omega) (leaf_hyp cfg sfh H _ (by unfold Ty.Frag; trivial) (by unfold Ty.WF; trivial)) h hi
      unfold inst at this ⊢; cases v <;> simp at this ⊢
    · have := ih (.int Rng.all) b v (by simp [Ty.w]; omega) (leaf_hyp cfg sfh H _ (by unfold Ty.Frag; trivial) (by unfold Ty.WF; trivial)) h hi
      unfold inst at this ⊢; cases v <;> simp at this ⊢
    · have := ih (.bool none) b v (by simp [Ty.w]; omega) (leaf_hyp cfg sfh H _ (by unfold Ty.Frag; trivial) (by unfold Ty.WF; trivial)) h hi
      unfold inst at this ⊢; cases v <;> simp at this ⊢
    · have := ih floatAll b v (by simp [Ty.w, floatAll]; omega) (leaf_hyp cfg sfh H _ (by unfold floatAll Ty.Frag; trivial) (by unfold floatAll Ty.WF; trivial)) h hi
      unfold floatAll at this
      unfold inst at this ⊢; cases v <;> simp at this ⊢
  cases b with
  | scalarData => exact hi
  | _ => exact key h

/-- `inst e x` holds trivially when `e` is Any -/
theorem inst_of_isAny {e : Ty} (h : e.isAny = true) (x : Val) : inst cfg sfh e x = true := by
  cases e <;> simp [Ty.isAny] at h; unfold inst; rfl

theorem recv_array (n : Nat) (ih : Sound cfg sfh n) (e : Ty) (r : Rng) (b : Ty) (v : Val)
    (hw : (Ty.array e r).w + b.w ≤ n + 1) (H : Hyp cfg sfh (.array e r) b v)
    (h : asgRecv cfg sfh (.array e r) b = true) (hi : inst cfg sfh b v = true) :
    inst cfg sfh (.array e r) v = true := by
  unfold asgRecv at h
  have fa := H.fa; unfold Ty.Frag at fa
  have wa := H.wa; unfold Ty.WF at wa
  simp only [Ty.w] at hw
  cases b <;> simp only [] at h <;> (first | contradiction | skip)
  · -- array
    rename_i e' r'
    have fb := H.fb; unfold Ty.Frag at fb
    have wb := H.wb; unfold Ty.WF at wb
    have us := H.us; unfold Ty.US at us
    simp only [Ty.w] at hw
    simp only [Bool.and_eq_true] at h
    unfold inst at hi ⊢
    cases v <;> simp only [] at hi ⊢ <;> (first | contradiction | skip)
    rename_i vs
    simp only [Bool.and_eq_true, Bool.or_eq_true] at hi ⊢
    refine ⟨Rng.sub_contains h.1 hi.1, Or.inr ?_⟩
    rw [instAll_iff]
    intro x hx
    have hnone : r'.hi ≤ 0 → False := by
      intro hz
      have : vs.length = 0 := by
        have := hi.1; simp [Rng.contains] at this; omega
      have : vs = [] := List.length_eq_zero_iff.1 this
      subst this; cases hx
    rcases us with us | us
    · exact absurd us hnone
    · have hx' : inst cfg sfh e' x = true := by
        rcases hi.2 with h2 | h2
        · exact inst_of_isAny cfg sfh h2 x
        · exact (instAll_iff cfg sfh e' vs).1 h2 x hx
      have hee : asg cfg sfh e e' = true := by
        have := h.2; simp only [Bool.or_eq_true, decide_eq_true_eq] at this
        rcases this with h3 | h3
        · exact absurd h3 hnone
        · exact h3
      exact ih e e' x (by omega) ⟨fa, fb, wa, wb, us, H.ok.elems x hx, H.tv.elems x hx⟩ hee hx'
  · -- tuple
    rename_i ts' g'
    have fb := H.fb; unfold Ty.Frag at fb
    have wb := H.wb; unfold Ty.WF at wb
    have us := H.us; unfold Ty.US at us
    simp only [Ty.w] at hw
    simp only [Bool.and_eq_true] at h
    unfold inst at hi ⊢
    cases v <;> simp only [] at hi ⊢ <;> (first | contradiction | skip)
    rename_i vs
    simp only [Bool.and_eq_true, Bool.or_eq_true] at hi ⊢
    refine ⟨Rng.sub_contains h.1 hi.1, Or.inr ?_⟩
    rw [instAll_iff]
    intro x hx
    by_cases hz : (tupleSize ts' g').hi ≤ 0
    · have : vs.length = 0 := by
        have := hi.1; simp [Rng.contains] at this; omega
      have : vs = [] := List.length_eq_zero_iff.1 this
      subst this; cases hx
    · have us' : ∀ t', t' ∈ ts' → t'.US := by
        rcases us with us | us
        · exact absurd us hz
        · exact us
      cases hts : ts' with
      | nil =>
        subst hts
        have h2 := h.2
        rw [if_neg hz] at h2
        simp only [List.isEmpty_nil, if_true] at h2
        exact ih e .any x (by simp [Ty.w]; omega) ⟨fa, by unfold Ty.Frag; trivial, wa, by unfold Ty.WF; trivial, by unfold Ty.US; trivial, H.ok.elems x hx, H.tv.elems x hx⟩ h2 (by unfold inst; rfl)
      | cons t0 ts0 =>
        have hne : ts' ≠ [] := by rw [hts]; simp
        have hcond : ¬(ts'.isEmpty = true) := by rw [hts]; simp
        have h2 := h.2
        rw [if_neg hz, if_neg hcond] at h2
        have hall := (tupZipL_iff cfg sfh e ts' _ hne).1 h2
        have hzip : instZip cfg sfh ts' vs = true := by
          rcases hi.2 with h2 | h2
          · simp [hts] at h2
          · exact h2
        rw [instZip_iff cfg sfh ts' vs hne] at hzip
        obtain ⟨i, hlt, hget⟩ := List.getElem_of_mem hx
        have hlen : min i (ts'.length - 1) < ts'.length := by
          have : 0 < ts'.length := List.length_pos_iff.2 hne
          omega
        have ht := List.getElem?_eq_getElem hlen
        have hm : ts'[min i (ts'.length - 1)] ∈ ts' := List.getElem_mem hlen
        have hix := hzip i _ x ht (by rw [List.getElem?_eq_getElem hlt, hget])
        have hreach : ((min i (ts'.length - 1) : Nat) : Int) < (tupleSize ts' g').hi := by
          have := hi.1; simp [Rng.contains] at this; omega
        exact ih e _ x (by have := Ty.w_lt_wl hm; omega) ⟨fa, fb _ hm, wa, wb _ hm, us' _ hm, H.ok.elems x hx, H.tv.elems x hx⟩ (hall _ _ hreach ht) hix

theorem length_zero_of_contains {r : Rng} {n : Nat} (h : r.contains n = true) (hz : r.hi ≤ 0) : n = 0 := by
  simp [Rng.contains] at h; omega

theorem recv_hash (n : Nat) (ih : Sound cfg sfh n) (k x : Ty) (r : Rng) (b : Ty) (v : Val)
    (hw : (Ty.hash k x r).w + b.w ≤ n + 1) (H : Hyp cfg sfh (.hash k x r) b v)
    (h : asgRecv cfg sfh (.hash k x r) b = true) (hi : inst cfg sfh b v = true) :
    inst cfg sfh (.hash k x r) v = true := by
  unfold asgRecv at h
  have fa := H.fa; unfold Ty.Frag at fa
  have wa := H.wa; unfold Ty.WF at wa
  simp only [Ty.w] at hw
  cases b <;> simp only [] at h <;> (first | contradiction | skip)
  · -- hash
    rename_i k' x' r'
    have fb := H.fb; unfold Ty.Frag at fb
    have wb := H.wb; unfold Ty.WF at wb
    have us := H.us; unfold Ty.US at us
    simp only [Ty.w] at hw
    simp only [Bool.and_eq_true] at h
    unfold inst at hi ⊢
    cases v <;> simp only [] at hi ⊢ <;> (first | contradiction | skip)
    rename_i es
    simp only [Bool.and_eq_true] at hi ⊢
    refine ⟨Rng.sub_contains h.1 hi.1, ?_⟩
    rw [instEntries_iff]
    intro e he
    have hnone : r'.hi ≤ 0 → False := by
      intro hz
      have : es.length = 0 := length_zero_of_contains hi.1 hz
      have : es = [] := List.length_eq_zero_iff.1 this
      subst this; cases he
    rcases us with us | us
    · exact absurd us hnone
    · have h2 := (instEntries_iff cfg sfh k' x' es).1 hi.2 e he
      have hkv : asg cfg sfh k k' = true ∧ asg cfg sfh x x' = true := by
        have := h.2; simp only [Bool.or_eq_true, decide_eq_true_eq, Bool.and_eq_true] at this
        rcases this with h3 | h3
        · exact absurd h3 hnone
        · exact h3
      exact ⟨ih k k' e.1 (by omega) ⟨fa.1, fb.1, wa.1, wb.1, us.1, H.ok.keys e he, H.tv.keys e he⟩ hkv.1 h2.1,
             ih x x' e.2 (by omega) ⟨fa.2, fb.2, wa.2, wb.2, us.2, H.ok.vals e he, H.tv.vals e he⟩ hkv.2 h2.2⟩
  · -- struct
    rename_i ms'
    have fb := H.fb; unfold Ty.Frag at fb
    have wb := H.wb; unfold Ty.WF at wb
    have us := H.us; unfold Ty.US at us
    simp only [Ty.w] at hw
    simp only [Bool.and_eq_true] at h
    unfold inst at hi ⊢
    cases v <;> simp only [] at hi ⊢ <;> (first | contradiction | skip)
    rename_i es
    simp only [beq_iff_eq] at hi
    simp only [Bool.and_eq_true]
    refine ⟨Rng.sub_contains h.1 (instStruct_size cfg sfh ms' es H.ok.nodup hi), ?_⟩
    rw [instEntries_iff]
    intro e he
    obtain ⟨hdecl, _⟩ := (instStruct_den cfg sfh ms' es H.ok.nodup wb.1).1 hi
    obtain ⟨m, hm, hk, hmi⟩ := hdecl e he
    have hmem := (asgMembers_iff cfg sfh k x ms').1 h.2 m hm
    have hwm := Ty.w_lt_wm hm
    constructor
    · have := ih k (.strVal m.1) e.1 (by simp [Ty.w]; omega)
        ⟨fa.1, by unfold Ty.Frag; trivial, wa.1, by unfold Ty.WF; trivial, by unfold Ty.US; trivial, H.ok.keys e he, H.tv.keys e he⟩ hmem.1
        (by rw [hk]; unfold inst; simp)
      exact this
    · exact ih x m.2.2 e.2 (by omega) ⟨fa.2, fb.2 m hm, wa.2, wb.2 m hm, us m hm, H.ok.vals e he, H.tv.vals e he⟩ hmem.2 hmi

theorem recv_tuple (n : Nat) (ih : Sound cfg sfh n) (ts : List Ty) (g : Option Rng) (b : Ty) (v : Val)
    (hw : (Ty.tuple ts g).w + b.w ≤ n + 1) (H : Hyp cfg sfh (.tuple ts g) b v)
    (h : asgRecv cfg sfh (.tuple ts g) b = true) (hi : inst cfg sfh b v = true) :
    inst cfg sfh (.tuple ts g) v = true := by
  unfold asgRecv at h
  have fa := H.fa; unfold Ty.Frag at fa
  have wa := H.wa; unfold Ty.WF at wa
  simp only [Ty.w] at hw
  cases b <;> simp only [] at h <;> (first | contradiction | skip)
  · -- array
    rename_i e' r'
    have fb := H.fb; unfold Ty.Frag at fb
    have wb := H.wb; unfold Ty.WF at wb
    have us := H.us; unfold Ty.US at us
    simp only [Ty.w] at hw
    simp only [Bool.and_eq_true, Bool.or_eq_true] at h
    unfold inst at hi ⊢
    cases v <;> simp only [] at hi ⊢ <;> (first | contradiction | skip)
    rename_i vs
    simp only [Bool.and_eq_true, Bool.or_eq_true] at hi ⊢
    refine ⟨Rng.sub_contains h.1 hi.1, ?_⟩
    by_cases hts : ts = []
    · left; simp [hts]
    · right
      rw [instZip_iff cfg sfh ts vs hts]
      intro i t x ht hx
      have hxm : x ∈ vs := List.mem_of_getElem? hx
      have hm : t ∈ ts := List.mem_of_getElem? ht
      have hpos : ¬ r'.hi ≤ 0 := by
        intro hz
        have : vs.length = 0 := length_zero_of_contains hi.1 hz
        have : vs = [] := List.length_eq_zero_iff.1 this
        subst this; cases hxm
      have us' : e'.US := by
        rcases us with us | us
        · exact absurd us hpos
        · exact us
      have hall : tupZip cfg sfh ts [e'] r'.hi = true := by
        rcases h.2 with (h2 | h2) | h2
        · simp [List.isEmpty_iff] at h2; exact absurd h2 hts
        · simp at h2; omega
        · exact h2
      have hilt : i < vs.length := by
        rcases Nat.lt_or_ge i vs.length with h | h
        · exact h
        · rw [List.getElem?_eq_none h] at hx; cases hx
      have hreach : ((min i (ts.length - 1) : Nat) : Int) < r'.hi := by
        have := hi.1; simp [Rng.contains] at this; omega
      have hx' : inst cfg sfh e' x = true := by
        rcases hi.2 with h2 | h2
        · exact inst_of_isAny cfg sfh h2 x
        · exact (instAll_iff cfg sfh e' vs).1 h2 x hxm
      exact ih t e' x (by have := Ty.w_lt_wl hm; omega) ⟨fa t hm, fb, wa t hm, wb, us', H.ok.elems x hxm, H.tv.elems x hxm⟩
        ((tupZipR_iff cfg sfh ts e' _ hts).1 hall _ t hreach ht) hx'
  · -- tuple
    rename_i ts' g'
    have fb := H.fb; unfold Ty.Frag at fb
    have wb := H.wb; unfold Ty.WF at wb
    have us := H.us; unfold Ty.US at us
    simp only [Ty.w] at hw
    simp only [Bool.and_eq_true, Bool.or_eq_true] at h
    unfold inst at hi ⊢
    cases v <;> simp only [] at hi ⊢ <;> (first | contradiction | skip)
    rename_i vs
    simp only [Bool.and_eq_true, Bool.or_eq_true] at hi ⊢
    refine ⟨Rng.sub_contains h.1 hi.1, ?_⟩
    by_cases hts : ts = []
    · left; simp [hts]
    · right
      rw [instZip_iff cfg sfh ts vs hts]
      intro i t x ht hx
      have hxm : x ∈ vs := List.mem_of_getElem? hx
      have hm : t ∈ ts := List.mem_of_getElem? ht
      have hilt : i < vs.length := by
        rcases Nat.lt_or_ge i vs.length with h | h
        · exact h
        · rw [List.getElem?_eq_none h] at hx; cases hx
      have hpos : ¬ (tupleSize ts' g').hi ≤ 0 := by
        intro hz
        have : vs.length = 0 := length_zero_of_contains hi.1 hz
        omega
      have us' : ∀ t', t' ∈ ts' → t'.US := by
        rcases us with us | us
        · exact absurd us hpos
        · exact us
      have h2 : (if ts'.isEmpty = true then tupZip cfg sfh ts [.any] (tupleSize ts' g').hi = true else tupZip cfg sfh ts ts' (tupleSize ts' g').hi = true) := by
        rcases h.2 with h2 | h2
        · simp [List.isEmpty_iff] at h2; exact absurd h2 hts
        · split at h2 <;> simp_all
      by_cases hts' : ts' = []
      · -- the other tuple is untyped: every reachable position of this one accepts Any
        subst hts'
        simp only [List.isEmpty_nil, if_true] at h2
        have hreach : ((min i (ts.length - 1) : Nat) : Int) < (tupleSize [] g').hi := by
          have := hi.1; simp [Rng.contains] at this; omega
        have hany := (tupZipR_iff cfg sfh ts .any _ hts).1 h2 _ t hreach ht
        exact ih t .any x (by have := Ty.w_lt_wl hm; simp only [Ty.w, Ty.wl] at hw ⊢; omega)
          ⟨fa t hm, by unfold Ty.Frag; trivial, wa t hm, by unfold Ty.WF; trivial, by unfold Ty.US; trivial,
            H.ok.elems x hxm, H.tv.elems x hxm⟩ hany (by unfold inst; rfl)
      · have hne' : ¬ (ts'.isEmpty = true) := by simp [List.isEmpty_iff, hts']
        rw [if_neg hne'] at h2
        rw [tupZip_iff cfg sfh ts ts' _ hts hts'] at h2
        -- the value's position i is described by ts'[min i last]
        have hzip' : instZip cfg sfh ts' vs = true := by
          rcases hi.2 with h3 | h3
          · exact absurd h3 hne'
          · exact h3
        rw [instZip_iff cfg sfh ts' vs hts'] at hzip'
        have hl' : min i (ts'.length - 1) < ts'.length := by
          have : 0 < ts'.length := List.length_pos_iff.2 hts'
          omega
        have ht' := List.getElem?_eq_getElem hl'
        have hm' : ts'[min i (ts'.length - 1)] ∈ ts' := List.getElem_mem hl'
        have hix := hzip' i _ x ht' hx
        have hik : (i : Int) < (tupleSize ts' g').hi := by
          have := hi.1; simp [Rng.contains] at this; omega
        -- the compared position: i itself, or the last compared one when i is beyond both declared lists
        have hasg : asg cfg sfh t ts'[min i (ts'.length - 1)] = true := by
          have hlt : 0 < ts.length := List.length_pos_iff.2 hts
          have hlt' : 0 < ts'.length := List.length_pos_iff.2 hts'
          by_cases hmax : i < max ts.length ts'.length
          · exact h2 i t _ hik hmax ht ht'
          · have hj : max ts.length ts'.length - 1 < max ts.length ts'.length := by omega
            have e1 : min (max ts.length ts'.length - 1) (ts.length - 1) = min i (ts.length - 1) := by omega
            have e2 : min (max ts.length ts'.length - 1) (ts'.length - 1) = min i (ts'.length - 1) := by omega
            apply h2 (max ts.length ts'.length - 1) t _ (by omega) hj
            · rw [e1]; exact ht
            · rw [e2]; exact ht'
        exact ih t _ x (by have := Ty.w_lt_wl hm; have := Ty.w_lt_wl hm'; omega)
          ⟨fa t hm, fb _ hm', wa t hm, wb _ hm', us' _ hm', H.ok.elems x hxm, H.tv.elems x hxm⟩ hasg hix

theorem recv_struct (n : Nat) (ih : Sound cfg sfh n) (ms : List Member) (b : Ty) (v : Val)
    (hw : (Ty.struct ms).w + b.w ≤ n + 1) (H : Hyp cfg sfh (.struct ms) b v)
    (h : asgRecv cfg sfh (.struct ms) b = true) (hi : inst cfg sfh b v = true) :
    inst cfg sfh (.struct ms) v = true := by
  unfold asgRecv at h
  have fa := H.fa; unfold Ty.Frag at fa
  have hoff : sfh = false := fa.1
  have wa := H.wa; unfold Ty.WF at wa
  simp only [Ty.w] at hw
  cases b <;> simp only [] at h <;> (first | contradiction | skip)
  · -- the Hash arm is the exempt rule, switched off
    rw [hoff] at h; simp at h
  · -- struct
    rename_i ms'
    have fb := H.fb; unfold Ty.Frag at fb
    have wb := H.wb; unfold Ty.WF at wb
    have us := H.us; unfold Ty.US at us
    simp only [Ty.w] at hw
    simp only [beq_iff_eq] at h
    unfold inst at hi ⊢
    cases v <;> simp only [] at hi ⊢ <;> (first | contradiction | skip)
    rename_i es
    simp only [beq_iff_eq] at hi ⊢
    rw [distinctCount_nodup _ wb.1] at h
    obtain ⟨hok, hc⟩ := (structAll_iff cfg sfh ms ms' wb.1 _).1 h
    rw [sFound_eq ms ms' wa.1, List.length_map] at hc
    have hallin : ∀ m' ∈ ms', nameIn ms m' = true := List.countP_eq_length.1 hc.symm
    obtain ⟨hdecl, hreq⟩ := (instStruct_den cfg sfh ms' es H.ok.nodup wb.1).1 hi
    rw [instStruct_den cfg sfh ms es H.ok.nodup wa.1]
    constructor
    · intro e he
      obtain ⟨m', hm', hk, hmi⟩ := hdecl e he
      have := hallin m' hm'
      simp only [nameIn, List.any_eq_true] at this
      obtain ⟨m, hm, hnm⟩ := this
      rw [nameIs_iff] at hnm
      refine ⟨m, hm, by rw [hk, hnm], ?_⟩
      have h1 := hok m hm
      rw [SMemberOK, structMember_mem cfg sfh m.1 m.2.1 m.2.2 ms' wb.1 m' hm' hnm] at h1
      simp only [Bool.and_eq_true] at h1
      exact ih m.2.2 m'.2.2 e.2 (by have := Ty.w_lt_wm hm; have := Ty.w_lt_wm hm'; omega)
        ⟨fa.2 m hm, fb.2 m' hm', wa.2 m hm, wb.2 m' hm', us m' hm', H.ok.vals e he, H.tv.vals e he⟩ h1.2 hmi
    · intro m hm hopt
      have h1 := hok m hm
      rw [SMemberOK] at h1
      cases hg : structMember cfg sfh m.1 m.2.1 m.2.2 ms' with
      | none => rw [hg] at h1; simp [hopt] at h1
      | some b =>
        obtain ⟨m', hm', hk, hb⟩ := structMember_some cfg sfh _ _ _ _ _ hg
        rw [hg] at h1
        simp only [] at h1
        subst h1
        simp only [hopt, Bool.false_or] at hb
        have : m'.2.1 = false := by
          cases hh : m'.2.1 <;> simp [hh] at hb ⊢
        obtain ⟨e, he, hke⟩ := hreq m' hm' this
        exact ⟨e, he, by rw [hke, hk]⟩

end Pcore.Lat
