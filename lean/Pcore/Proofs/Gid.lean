import Pcore.Model.Gid

/-!
# `threadlocal.getg` returns the goroutine id the runtime printed (property C14, model `Model/Gid.lean`)

All theorems are for **all** ids `n` (induction on the decimal rendering), core Lean only; `decide` appears only in
`example`s and in finite facts about bytes (`digitByte_spec`: the ten digits; `goPrefix_length`).

Hypotheses used throughout
* `stops rest = true` — what follows the id in the dump is empty or starts with a non-digit.  The runtime prints
  `" [running]:\n…"`, i.e. `rest = 0x20 :: r` (`stops_space`); `rest = []` is `stops_nil`.  Necessary: see the
  `some 75` example.
* `n < 10^54` — the id has at most 54 digits, so `10 + #digits ≤ 64` and the truncation to the 64-byte buffer cuts no
  digit (the buffer may then be all prefix + digits, the loop ends by `i < l`).  Sharp: see the `10^54` example.

Proved (nothing left partial)
* `getg_stackBuf`      `0 < n → n < 10^54 → stops rest → getg (stackBuf n rest) = some n`
* `getg_stackBuf_eq`   the same with id 0: `… = if n = 0 then none else some n`;  `getg_zero`, `getg_none_iff` (panic ⇔ id 0)
* `getg_injective`     distinct ids ⇒ distinct keys (ℕ accumulator, ids `< 10^54`, 0 included)
* `getg64_eq`          on any buffer, the `int64` loop = the ℕ loop modulo 2^64, read as signed
* `getg64_stackBuf_eq` for every id `< 10^54`: `getg64 (stackBuf n rest) = if n % 2^64 = 0 then none else some (toInt64 (n % 2^64))`
* `getg64_stackBuf`    `0 < n → n < 2^63 → stops rest → getg64 (stackBuf n rest) = some ↑n` (no overflow)
* `getg64_stackBuf_iff`, `getg64_eq_getg_iff`   … **iff** `n < 2^63` (the bound is sharp; wraps negative at `2^63`: example)
* `getg64_injective`   distinct ids below 2^63 ⇒ distinct `int64` keys

Not covered here (trusted, DESIGN §5): that `runtime.Stack` writes `stackBuf id rest` for the calling goroutine's id, and
that the runtime never reuses an id of a live goroutine nor hands out 0 or an id ≥ 2^63 (`goid` is a `uint64` counter).
-/

namespace Pcore.Gid

/-! ## bytes -/

theorem goPrefix_length : goPrefix.length = 10 := by decide

/-- the ten ASCII digits pass the loop's test and decode to themselves -/
theorem digitByte_spec {k : Nat} (h : k < 10) :
    notDigit (digitByte k) = false ∧ (digitByte k - 0x30).toNat = k := by
  have all : ∀ i : Fin 10, notDigit (digitByte i.val) = false ∧ (digitByte i.val - 0x30).toNat = i.val := by decide
  exact all ⟨k, h⟩

/-! ## `digits` -/

theorem digitsFuel_eq : ∀ (f g n : Nat), n < f → n < g → digitsFuel f n = digitsFuel g n := by
  intro f
  induction f with
  | zero => intro g n h; omega
  | succ f ih =>
    intro g n hf hg
    cases g with
    | zero => omega
    | succ g =>
      simp only [digitsFuel]
      split
      · rfl
      · rw [ih g (n / 10) (by omega) (by omega)]

/-- the recursion `digits` implements -/
theorem digits_eq (n : Nat) :
    digits n = if n < 10 then [digitByte n] else digits (n / 10) ++ [digitByte (n % 10)] := by
  show digitsFuel (n + 1) n = _
  simp only [digitsFuel]
  split
  · rfl
  · rw [digitsFuel_eq n (n / 10 + 1) (n / 10) (by omega) (by omega)]; rfl

theorem digits_length_le : ∀ (k n : Nat), n < 10 ^ (k + 1) → (digits n).length ≤ k + 1 := by
  intro k
  induction k with
  | zero =>
    intro n h
    rw [digits_eq, if_pos (by simpa using h)]; simp
  | succ k ih =>
    intro n h
    rw [digits_eq]
    split
    · simp
    · have : n / 10 < 10 ^ (k + 1) := by
        apply Nat.div_lt_of_lt_mul
        rw [Nat.pow_succ, Nat.mul_comm] at h; exact h
      have := ih (n / 10) this
      simp; omega

/-! ## the loop over the printed id -/

/-- running the loop from 0 over the printed id leaves exactly the id in the accumulator -/
theorem scan_digits : ∀ (n : Nat) (rest : List UInt8), scan 0 (digits n ++ rest) = scan n rest := by
  intro n
  induction n using Nat.strongRecOn with
  | _ n ih =>
    intro rest
    rw [digits_eq]
    split
    · rename_i h
      have ⟨h1, h2⟩ := digitByte_spec h
      simp [scan, h1, h2]
    · rename_i h
      have ⟨h1, h2⟩ := digitByte_spec (Nat.mod_lt n (by decide : 10 > 0))
      rw [List.append_assoc, ih (n / 10) (by omega)]
      simp only [List.singleton_append, scan, h1, h2]
      have : n / 10 * 10 + n % 10 = n := by omega
      simp [this]

/-- `rest` makes the loop stop: it is empty (`i < l` fails) or starts with a non-digit (`break`).  What the runtime
prints after the id is `" [running]:\n…"`, so `rest = 0x20 :: r` (`stops_space`). -/
def stops : List UInt8 → Bool
  | [] => true
  | d :: _ => notDigit d

theorem scan_stops {rest : List UInt8} (h : stops rest = true) (n : Nat) : scan n rest = n := by
  cases rest with
  | nil => rfl
  | cons d ds => simp only [stops] at h; simp [scan, h]

theorem stops_take {rest : List UInt8} (h : stops rest = true) (k : Nat) : stops (rest.take k) = true := by
  cases k with
  | zero => rfl
  | succ k =>
    cases rest with
    | nil => rfl
    | cons x xs => exact h

theorem stops_nil : stops [] = true := rfl

theorem stops_space (r : List UInt8) : stops (0x20 :: r) = true := by
  show notDigit 0x20 = true; decide

/-- the bytes the loop sees of a dump whose id has at most 54 digits: the whole id, then a stopping tail -/
theorem window_stackBuf {n : Nat} (hn : (digits n).length ≤ 54) (rest : List UInt8) :
    window (stackBuf n rest) = digits n ++ rest.take (54 - (digits n).length) := by
  unfold window stackBuf stackHeader bufLen prefixLen
  rw [List.take_take, List.append_assoc, List.drop_take, List.drop_left' goPrefix_length]
  rw [List.take_append]
  rw [List.take_of_length_le (by omega)]
  rfl

/-- the accumulator after the loop over a dump of goroutine `n` is `n` -/
theorem scan_window_stackBuf {n : Nat} (hn : (digits n).length ≤ 54) {rest : List UInt8} (hr : stops rest = true) :
    scan 0 (window (stackBuf n rest)) = n := by
  rw [window_stackBuf hn, scan_digits, scan_stops (stops_take hr _)]

theorem digits_length_le_54 {n : Nat} (hn : n < 10 ^ 54) : (digits n).length ≤ 54 :=
  digits_length_le 53 n hn

/-! ## `getg` (ℕ accumulator) -/

/-- both outcomes at once: the parser returns the printed id, and panics exactly on id 0 -/
theorem getg_stackBuf_eq {n : Nat} (hn : n < 10 ^ 54) {rest : List UInt8} (hr : stops rest = true) :
    getg (stackBuf n rest) = if n = 0 then none else some n := by
  unfold getg
  simp only [scan_window_stackBuf (digits_length_le_54 hn) hr]

/-- **the parser returns exactly the id the runtime printed**, also after truncation to the 64-byte buffer.
`n < 10^54`: the id has at most 54 digits, so that `10 + #digits ≤ 64` and no digit is cut off (sharp: see the
`10^54` example below). -/
theorem getg_stackBuf {n : Nat} (h0 : 0 < n) (hn : n < 10 ^ 54) {rest : List UInt8} (hr : stops rest = true) :
    getg (stackBuf n rest) = some n := by
  rw [getg_stackBuf_eq hn hr, if_neg (by omega)]

/-- the two shapes of `rest` spelled out: the runtime's `" [status]:\n…"`, and a dump that ends after the id -/
theorem getg_stackBuf_space {n : Nat} (h0 : 0 < n) (hn : n < 10 ^ 54) (r : List UInt8) :
    getg (stackBuf n (0x20 :: r)) = some n := getg_stackBuf h0 hn (stops_space r)

theorem getg_stackBuf_nil {n : Nat} (h0 : 0 < n) (hn : n < 10 ^ 54) : getg (stackBuf n []) = some n :=
  getg_stackBuf h0 hn stops_nil

/-- the panic branch (`n == 0`): only the id 0, which the runtime never hands out (ids start at 1) -/
theorem getg_zero {rest : List UInt8} (hr : stops rest = true) : getg (stackBuf 0 rest) = none := by
  rw [getg_stackBuf_eq (by decide) hr, if_pos rfl]

/-- in range, the panic branch is taken **only** for id 0 -/
theorem getg_none_iff {n : Nat} (hn : n < 10 ^ 54) {rest : List UInt8} (hr : stops rest = true) :
    getg (stackBuf n rest) = none ↔ n = 0 := by
  rw [getg_stackBuf_eq hn hr]; split <;> simp [*]

/-- distinct goroutines get distinct keys (whatever follows the id in either dump; id 0 included) -/
theorem getg_injective {n m : Nat} (hn : n < 10 ^ 54) (hm : m < 10 ^ 54) {rest rest' : List UInt8}
    (hr : stops rest = true) (hr' : stops rest' = true)
    (h : getg (stackBuf n rest) = getg (stackBuf m rest')) : n = m := by
  rw [getg_stackBuf_eq hn hr, getg_stackBuf_eq hm hr'] at h
  split at h <;> split at h <;> simp at h <;> omega

/-! ## `getg64` (Go's `int64` accumulator) -/

/-- the wrapped accumulator is the unbounded one modulo 2^64, at every step -/
theorem scan64_eq_scan_mod : ∀ (l : List UInt8) (acc : Nat), scan64 (acc % 2 ^ 64) l = scan acc l % 2 ^ 64 := by
  intro l
  induction l with
  | nil => intro acc; rfl
  | cons d ds ih =>
    intro acc
    simp only [scan64, scan]
    split
    · rfl
    · rw [← ih]
      congr 1
      omega

/-- `getg64` in terms of the unbounded loop, on **any** buffer -/
theorem getg64_eq (buf : List UInt8) :
    getg64 buf = if scan 0 (window buf) % 2 ^ 64 = 0 then none else some (toInt64 (scan 0 (window buf) % 2 ^ 64)) := by
  unfold getg64
  have := scan64_eq_scan_mod (window buf) 0
  simp only [Nat.zero_mod] at this
  simp only [this]

/-- what the Go code computes for **every** id that fits the buffer: the id modulo 2^64 read as a signed number, and
the panic when that is 0 -/
theorem getg64_stackBuf_eq {n : Nat} (hn : n < 10 ^ 54) {rest : List UInt8} (hr : stops rest = true) :
    getg64 (stackBuf n rest) = if n % 2 ^ 64 = 0 then none else some (toInt64 (n % 2 ^ 64)) := by
  rw [getg64_eq, scan_window_stackBuf (digits_length_le_54 hn) hr]

/-- **no overflow for ids below 2^63**: the `int64` code returns exactly the id printed -/
theorem getg64_stackBuf {n : Nat} (h0 : 0 < n) (hn : n < 2 ^ 63) {rest : List UInt8} (hr : stops rest = true) :
    getg64 (stackBuf n rest) = some (n : Int) := by
  rw [getg64_stackBuf_eq (Nat.lt_trans hn (by decide)) hr]
  have h1 : n % 2 ^ 64 = n := Nat.mod_eq_of_lt (by omega)
  rw [h1, if_neg (by omega)]
  simp only [toInt64, if_pos hn]

/-- the bound is sharp: for an id that fits the buffer, the `int64` code returns it **iff** it is below 2^63 -/
theorem getg64_stackBuf_iff {n : Nat} (h0 : 0 < n) (hn : n < 10 ^ 54) {rest : List UInt8} (hr : stops rest = true) :
    getg64 (stackBuf n rest) = some (n : Int) ↔ n < 2 ^ 63 := by
  constructor
  · intro h
    rw [getg64_stackBuf_eq hn hr] at h
    split at h
    · cases h
    · have h := Option.some.inj h
      unfold toInt64 at h
      split at h <;> omega
  · intro h; exact getg64_stackBuf h0 h hr

/-- `getg` and `getg64` agree (up to the embedding ℕ → ℤ) exactly on the ids below 2^63 -/
theorem getg64_eq_getg_iff {n : Nat} (h0 : 0 < n) (hn : n < 10 ^ 54) {rest : List UInt8} (hr : stops rest = true) :
    getg64 (stackBuf n rest) = (getg (stackBuf n rest)).map Int.ofNat ↔ n < 2 ^ 63 := by
  rw [getg_stackBuf h0 hn hr]; exact getg64_stackBuf_iff h0 hn hr

theorem getg64_injective {n m : Nat} (h0 : 0 < n) (hn : n < 2 ^ 63) (h0' : 0 < m) (hm : m < 2 ^ 63)
    {rest rest' : List UInt8} (hr : stops rest = true) (hr' : stops rest' = true)
    (h : getg64 (stackBuf n rest) = getg64 (stackBuf m rest')) : n = m := by
  rw [getg64_stackBuf h0 hn hr, getg64_stackBuf h0' hm hr'] at h
  exact Int.ofNat.inj (Option.some.inj h)

/-! ## non-vacuity and sharpness (concrete buffers, evaluated by the kernel) -/

/-- a real dump (`runtime.Stack` of a test run), not truncated -/
example : getg (bytes "goroutine 18778 [running]:\nmain.main()\n") = some 18778 := by decide
example : getg64 (bytes "goroutine 18778 [running]:\nmain.main()\n") = some 18778 := by decide
/-- a real dump truncated to 64 bytes by the runtime -/
example : getg (bytes "goroutine 1 [running]:\ngithub.com/lyraproj/pcore/threadlocal.get") = some 1 := by decide
/-- `stackBuf` produces such dumps, and truncates -/
example : stackBuf 18778 (bytes " [running]:\nmain.main()\n") = bytes "goroutine 18778 [running]:\nmain.main()\n" := by
  decide
example : stackBuf 1 (bytes " [running]:\ngithub.com/lyraproj/pcore/threadlocal.getg(0x0, 0x0)\n")
    = bytes "goroutine 1 [running]:\ngithub.com/lyraproj/pcore/threadlocal.get" := by decide
example : (stackBuf 1 (bytes " [running]:\ngithub.com/lyraproj/pcore/threadlocal.getg(0x0, 0x0)\n")).length = 64 := by
  decide
/-- the hypotheses of `getg_stackBuf` / `getg64_stackBuf` are satisfiable by a non-trivial case -/
example : 0 < 18778 ∧ 18778 < 2 ^ 63 ∧ 18778 < 10 ^ 54 ∧ stops (bytes " [running]:\nmain.main()\n") = true := by decide
/-- the dump may also end right after the id (`rest = []`), or be all digits up to the end of the buffer -/
example : getg (stackBuf (10 ^ 54 - 1) (bytes " [running]:\n")) = some (10 ^ 54 - 1) := by decide
example : (stackBuf (10 ^ 54 - 1) (bytes " [running]:\n")).length = 64 := by decide
/-- sharpness of `n < 10^54`: a 55-digit id loses its last digit to the truncation -/
example : getg (stackBuf (10 ^ 54) (bytes " [running]:\n")) = some (10 ^ 53) := by decide
/-- without `stops rest` the claim is false: a digit after the id is read as part of it -/
example : getg (stackBuf 7 (bytes "5 [running]:\n")) = some 75 := by decide
/-- the panic branch -/
example : getg (bytes "goroutine 0 [idle]:\n") = none := by decide
example : getg (bytes "short") = none := by decide
example : getg [] = none := by decide

/-- at `n = 2^63` the `int64` accumulator wraps negative: the bound of `getg64_stackBuf` is necessary -/
example : getg64 (stackBuf (2 ^ 63) (bytes " [running]:\n")) = some (-(2 ^ 63)) := by decide
example : getg (stackBuf (2 ^ 63) (bytes " [running]:\n")) = some (2 ^ 63) := by decide
/-- the last good id -/
example : getg64 (stackBuf (2 ^ 63 - 1) (bytes " [running]:\n")) = some (2 ^ 63 - 1) := by decide
/-- two distinct ids with the same `int64` key, and an id ≠ 0 that panics -/
example : getg64 (stackBuf (2 ^ 64 + 5) (bytes " [running]:\n")) = getg64 (stackBuf 5 (bytes " [running]:\n")) := by decide
example : getg64 (stackBuf (2 ^ 64) (bytes " [running]:\n")) = none := by decide

end Pcore.Gid
