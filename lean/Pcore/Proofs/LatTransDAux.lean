import Pcore.Proofs.LatTransDIter
import Pcore.Proofs.LatSoundAlias
set_option linter.unusedSimpArgs false
set_option linter.unusedVariables false
/-! C03, transitivity stage 4: lemmas that hold for EVERY right-hand side, the two built-in aliases included — Variant / Optional
    accept whatever a member accepts (`weaken_variant_all`, `weaken_optional_all`), what accepts Any accepts everything
    (`acceptsD_any`), and `b ⊒ c ⊒ Undef → b ⊒ Undef` (`trans_undef`). -/
namespace Pcore.Lat
variable (cfg : Cfg) (sfh : Bool)

theorem asgToEntryAny_iff (sfh : Bool) (al : Alias) (as : List Ty) :
    asgToEntryAny cfg sfh al as = true ↔ ∃ a ∈ as, asgToEntry cfg sfh al a = true := by
  induction as with
  | nil => unfold asgToEntryAny; simp
  | cons a as ih => unfold asgToEntryAny; simp [ih]

theorem accTypeSet_accL_iff (ts : List Ty) : accTypeSet.accL ts = true ↔ ∃ t ∈ ts, accTypeSet t = true := by
  induction ts with
  | nil => simp [accTypeSet.accL]
  | cons t ts ih => simp [accTypeSet.accL, ih]

theorem accDeferred_accL_iff (ts : List Ty) : accDeferred.accL ts = true ↔ ∃ t ∈ ts, accDeferred t = true := by
  induction ts with
  | nil => simp [accDeferred.accL]
  | cons t ts ih => simp [accDeferred.accL, ih]

theorem asg_scalarData_refl : asg cfg sfh .scalarData .scalarData = true := by
  rw [asg_plain_r cfg sfh _ _ rfl]; simp [sameNullary]

theorem asg_data_undef : asg cfg sfh .data .undef = true := by
  rw [asg_plain_r cfg sfh _ _ rfl]
  simp only [Bool.or_eq_true]; right
  unfold asgRecv; simp [asg_undef_undef]

theorem asg_rich_undef : asg cfg sfh .richData .undef = true := by
  rw [asg_plain_r cfg sfh _ _ rfl]
  simp only [Bool.or_eq_true]; right
  unfold asgRecv; simp [asg_undef_undef]

/-- the four members of `Data`, as accepted by whatever accepts `Data` -/
theorem asg_data_comps {a : Ty} (h : asg cfg sfh a .data = true) :
    asg cfg sfh a .scalarData = true ∧ asg cfg sfh a .undef = true ∧ asgToArr cfg sfh .data a = true ∧ asgToHash cfg sfh .data a = true := by
  rw [asg_data_r] at h
  simp only [Bool.or_eq_true, Bool.and_eq_true] at h
  rcases h with (h | h) | h
  · cases a <;> simp [Ty.isAny] at h
    refine ⟨asg_any_l cfg sfh _, asg_any_l cfg sfh _, ?_, ?_⟩
    · unfold asgToArr; rfl
    · unfold asgToHash; rfl
  · have := sameNullary_eq h; subst this
    refine ⟨?_, asg_data_undef cfg sfh, ?_, ?_⟩
    · rw [asg_plain_r cfg sfh _ _ rfl]
      simp only [Bool.or_eq_true]; right
      unfold asgRecv; simp [asg_scalarData_refl]
    · unfold asgToArr; rfl
    · unfold asgToHash; rfl
  · exact ⟨h.1.1.1, h.1.1.2, h.1.2, h.2⟩

theorem asg_data_of_comps {a : Ty} (h1 : asg cfg sfh a .scalarData = true) (h2 : asg cfg sfh a .undef = true)
    (h3 : asgToArr cfg sfh .data a = true) (h4 : asgToHash cfg sfh .data a = true) : asg cfg sfh a .data = true := by
  rw [asg_data_r]; simp [h1, h2, h3, h4]

/-- the members of `RichData` (the unmodelled TypeSet and Deferred types as the two acceptance predicates) -/
structure RichComps (a : Ty) : Prop where
  sc : asg cfg sfh a .scalar = true
  bi : asg cfg sfh a .bin = true
  df : asg cfg sfh a .dflt = true
  ob : asg cfg sfh a (.object none) = true
  ty : asg cfg sfh a (.typ .any) = true
  ts : accTypeSet a = true
  de : accDeferred a = true
  un : asg cfg sfh a .undef = true
  ar : asgToArr cfg sfh .rich a = true
  ha : asgToHash cfg sfh .rich a = true

theorem asg_rich_of_comps {a : Ty} (h : RichComps cfg sfh a) : asg cfg sfh a .richData = true := by
  rw [asg_rich_r]; simp [h.sc, h.bi, h.df, h.ob, h.ty, h.ts, h.de, h.un, h.ar, h.ha]

theorem richComps_any : RichComps cfg sfh .any :=
  ⟨asg_any_l cfg sfh _, asg_any_l cfg sfh _, asg_any_l cfg sfh _, asg_any_l cfg sfh _, asg_any_l cfg sfh _, rfl, rfl, asg_any_l cfg sfh _,
   by unfold asgToArr; rfl, by unfold asgToHash; rfl⟩

theorem recv_rich_of {x b : Ty} (hx : x = .scalar ∨ x = .bin ∨ x = .dflt ∨ x = .object none ∨ x = .typ .any ∨ x = .undef)
    (h : asg cfg sfh x b = true) : asgRecv cfg sfh .richData b = true := by
  unfold asgRecv
  rcases hx with rfl | rfl | rfl | rfl | rfl | rfl <;> simp [h]

theorem asg_nullary_refl (x : Ty) (hp : x.plainR = true) (h : sameNullary x x = true) : asg cfg sfh x x = true := by
  rw [asg_plain_r cfg sfh _ _ hp, h]; simp

theorem asg_typ_any : asg cfg sfh (.typ .any) (.typ .any) = true := by
  rw [asg_plain_r cfg sfh _ _ rfl]
  simp only [Bool.or_eq_true]; right
  unfold asgRecv; exact asg_any_l cfg sfh _

theorem richComps_rich : RichComps cfg sfh .richData := by
  have plain : ∀ x : Ty, x.plainR = true → (x = .scalar ∨ x = .bin ∨ x = .dflt ∨ x = .object none ∨ x = .typ .any ∨ x = .undef) →
      asg cfg sfh x x = true → asg cfg sfh .richData x = true := by
    intro x hp hx hr
    rw [asg_plain_r cfg sfh _ _ hp]
    simp only [Bool.or_eq_true]; right
    exact recv_rich_of cfg sfh hx hr
  refine ⟨plain _ rfl (by simp) (asg_nullary_refl cfg sfh _ rfl rfl), plain _ rfl (by simp) (asg_nullary_refl cfg sfh _ rfl rfl),
    plain _ rfl (by simp) (asg_nullary_refl cfg sfh _ rfl rfl), plain _ rfl (by simp) (asg_nullary_refl cfg sfh _ rfl rfl),
    plain _ rfl (by simp) (asg_typ_any cfg sfh), rfl, rfl, asg_rich_undef cfg sfh, by unfold asgToArr; rfl, by unfold asgToHash; rfl⟩

theorem asg_rich_comps {a : Ty} (h : asg cfg sfh a .richData = true) : RichComps cfg sfh a := by
  rw [asg_rich_r] at h
  simp only [Bool.or_eq_true, Bool.and_eq_true] at h
  rcases h with (h | h) | h
  · cases a <;> simp [Ty.isAny] at h
    exact richComps_any cfg sfh
  · have := sameNullary_eq h; subst this
    exact richComps_rich cfg sfh
  · exact ⟨h.1.1.1.1.1.1.1.1.1, h.1.1.1.1.1.1.1.1.2, h.1.1.1.1.1.1.1.2, h.1.1.1.1.1.1.2, h.1.1.1.1.1.2, h.1.1.1.1.2, h.1.1.1.2, h.1.1.2,
      h.1.2, h.2⟩

/-- `Variant[..m..]` accepts whatever its member `m` accepts — every right-hand side, aliases included -/
theorem weaken_variant_all (m : Ty) (as : List Ty) (hm : m ∈ as) :
    ∀ (n : Nat) (c : Ty), c.w ≤ n → asg cfg sfh m c = true → asg cfg sfh (.variant as) c = true := by
  intro n
  induction n with
  | zero => intro c h; have := Ty.w_pos c; omega
  | succ n ih =>
    intro c hw h
    have viaRecv : asgRecv cfg sfh (.variant as) c = true := by
      unfold asgRecv; rw [asgAnyL_iff]; exact ⟨m, hm, h⟩
    cases c with
    | unit => exact asg_unit_r cfg sfh _
    | optional oc =>
      simp only [Ty.w] at hw
      obtain ⟨h1, h2⟩ := asg_optional_parts cfg sfh h
      rw [asg_optional_r]; simp only [Bool.or_eq_true, Bool.and_eq_true]; right
      exact ⟨ih .undef (by simp [Ty.w]; omega) h1, ih oc (by omega) h2⟩
    | variant cs =>
      simp only [Ty.w] at hw
      have hall := asg_variant_parts cfg sfh h
      rw [asg_variant_r]; simp only [Bool.or_eq_true]; right
      rw [asgAllR_iff]
      exact fun t ht => ih t (by have := Ty.w_lt_wl ht; omega) (hall t ht)
    | notUndef nt =>
      simp only [Ty.w] at hw
      by_cases hc : asg cfg sfh nt .undef = true
      · rw [asg_notUndef_r]; simp [hc, viaRecv]
      · have hc' := bool_false_of_ne_true hc
        exact asg_nu_of_strict cfg sfh hc' (ih nt (by omega) (asg_nu_strict cfg sfh hc' h))
    | data =>
      simp only [Ty.w] at hw
      obtain ⟨h1, h2, h3, h4⟩ := asg_data_comps cfg sfh h
      apply asg_data_of_comps cfg sfh (ih _ (by simp [Ty.w]; omega) h1) (ih _ (by simp [Ty.w]; omega) h2)
      · unfold asgToArr; rw [asgToArrAny_iff]; exact ⟨m, hm, h3⟩
      · unfold asgToHash; rw [asgToHashAny_iff]; exact ⟨m, hm, h4⟩
    | richData =>
      simp only [Ty.w] at hw
      have hc := asg_rich_comps cfg sfh h
      apply asg_rich_of_comps
      refine ⟨ih _ (by simp [Ty.w]; omega) hc.sc, ih _ (by simp [Ty.w]; omega) hc.bi, ih _ (by simp [Ty.w]; omega) hc.df,
        ih _ (by simp [Ty.w]; omega) hc.ob, ih _ (by simp [Ty.w]; omega) hc.ty, ?_, ?_, ih _ (by simp [Ty.w]; omega) hc.un, ?_, ?_⟩
      · unfold accTypeSet; rw [accTypeSet_accL_iff]; exact ⟨m, hm, hc.ts⟩
      · unfold accDeferred; rw [accDeferred_accL_iff]; exact ⟨m, hm, hc.de⟩
      · unfold asgToArr; rw [asgToArrAny_iff]; exact ⟨m, hm, hc.ar⟩
      · unfold asgToHash; rw [asgToHashAny_iff]; exact ⟨m, hm, hc.ha⟩
    | _ => rw [asg_plain_r cfg sfh _ _ rfl, viaRecv]; simp

/-- `Optional[x]` accepts whatever `x` accepts — every right-hand side, aliases included -/
theorem weaken_optional_all (x : Ty) :
    ∀ (n : Nat) (c : Ty), c.w ≤ n → asg cfg sfh x c = true → asg cfg sfh (.optional x) c = true := by
  intro n
  induction n with
  | zero => intro c h; have := Ty.w_pos c; omega
  | succ n ih =>
    intro c hw h
    have viaRecv : asgRecv cfg sfh (.optional x) c = true := by
      unfold asgRecv; simp [h]
    cases c with
    | unit => exact asg_unit_r cfg sfh _
    | optional oc =>
      simp only [Ty.w] at hw
      obtain ⟨h1, h2⟩ := asg_optional_parts cfg sfh h
      rw [asg_optional_r]; simp only [Bool.or_eq_true, Bool.and_eq_true]; right
      exact ⟨ih .undef (by simp [Ty.w]; omega) h1, ih oc (by omega) h2⟩
    | variant cs =>
      simp only [Ty.w] at hw
      have hall := asg_variant_parts cfg sfh h
      rw [asg_variant_r]; simp only [Bool.or_eq_true]; right
      rw [asgAllR_iff]
      exact fun t ht => ih t (by have := Ty.w_lt_wl ht; omega) (hall t ht)
    | notUndef nt =>
      simp only [Ty.w] at hw
      by_cases hc : asg cfg sfh nt .undef = true
      · rw [asg_notUndef_r]; simp [hc, viaRecv]
      · have hc' := bool_false_of_ne_true hc
        exact asg_nu_of_strict cfg sfh hc' (ih nt (by omega) (asg_nu_strict cfg sfh hc' h))
    | data =>
      simp only [Ty.w] at hw
      obtain ⟨h1, h2, h3, h4⟩ := asg_data_comps cfg sfh h
      apply asg_data_of_comps cfg sfh (ih _ (by simp [Ty.w]; omega) h1) (ih _ (by simp [Ty.w]; omega) h2)
      · unfold asgToArr; exact h3
      · unfold asgToHash; exact h4
    | richData =>
      simp only [Ty.w] at hw
      have hc := asg_rich_comps cfg sfh h
      apply asg_rich_of_comps
      refine ⟨ih _ (by simp [Ty.w]; omega) hc.sc, ih _ (by simp [Ty.w]; omega) hc.bi, ih _ (by simp [Ty.w]; omega) hc.df,
        ih _ (by simp [Ty.w]; omega) hc.ob, ih _ (by simp [Ty.w]; omega) hc.ty, ?_, ?_, ih _ (by simp [Ty.w]; omega) hc.un, ?_, ?_⟩
      · unfold accTypeSet; exact hc.ts
      · unfold accDeferred; exact hc.de
      · unfold asgToArr; exact hc.ar
      · unfold asgToHash; exact hc.ha
    | _ => rw [asg_plain_r cfg sfh _ _ rfl, viaRecv]; simp

theorem wv_all {m : Ty} {as : List Ty} (hm : m ∈ as) {c : Ty} (h : asg cfg sfh m c = true) : asg cfg sfh (.variant as) c = true :=
  weaken_variant_all cfg sfh m as hm c.w c (Nat.le_refl _) h
theorem wo_all {x c : Ty} (h : asg cfg sfh x c = true) : asg cfg sfh (.optional x) c = true :=
  weaken_optional_all cfg sfh x c.w c (Nat.le_refl _) h

/-- which receivers answer true for a NotUndef right-hand side whose content accepts Undef -/
theorem recvNUD_cases (a nb : Ty) (fa : a.TD sfh) (hnb : asg cfg sfh nb .undef = true)
    (h : asgRecv cfg sfh a (.notUndef nb) = true) :
    a = .any ∨ (∃ as m, a = .variant as ∧ m ∈ as ∧ asg cfg sfh m (.notUndef nb) = true) ∨
    (∃ x, a = .optional x ∧ asg cfg sfh x (.notUndef nb) = true) ∨
    (∃ x, a = .notUndef x ∧ (asg cfg sfh x nb = true ∨ asg cfg sfh x (.notUndef nb) = true)) := by
  have leafF : ∀ t : Ty, t.isAny = false → asgRecv cfg sfh t (.notUndef nb) = false → asg cfg sfh t (.notUndef nb) = false := by
    intro t h1 h2; rw [asg_notUndef_r, hnb]; simp [h1, h2]
  cases a with
  | any => left; rfl
  | unit => unfold Ty.TD at fa; exact absurd fa id
  | data =>
    exfalso
    have hsd : asg cfg sfh .scalarData (.notUndef nb) = false := by
      apply leafF _ rfl
      unfold asgRecv
      simp [leafF .str rfl (by unfold asgRecv; rfl), leafF (.int Rng.all) rfl (by unfold asgRecv; rfl),
        leafF (.bool none) rfl (by unfold asgRecv; rfl), leafF floatAll rfl (by unfold floatAll asgRecv; rfl)]
    unfold asgRecv at h
    simp [hsd, leafF .undef rfl (by unfold asgRecv; rfl)] at h
  | richData =>
    exfalso
    have hsc : asg cfg sfh .scalar (.notUndef nb) = false := by
      apply leafF _ rfl
      unfold asgRecv
      simp [leafF .str rfl (by unfold asgRecv; rfl), leafF .numeric rfl (by unfold asgRecv; rfl),
        leafF (.bool none) rfl (by unfold asgRecv; rfl), leafF (.regexp "") rfl (by unfold asgRecv; rfl),
        leafF (.tspan Rng.all) rfl (by unfold asgRecv; rfl),
        leafF (.tstamp tstampAll) rfl (by unfold asgRecv; rfl)]
    unfold asgRecv at h
    simp [hsc, leafF .undef rfl (by unfold asgRecv; rfl), leafF .bin rfl (by unfold asgRecv; rfl),
      leafF .dflt rfl (by unfold asgRecv; rfl), leafF (.object none) rfl (by unfold asgRecv; rfl),
      leafF (.typ .any) rfl (by unfold asgRecv; rfl)] at h
  | variant as =>
    right; left
    unfold asgRecv at h; rw [asgAnyL_iff] at h
    obtain ⟨m, hm, h⟩ := h
    exact ⟨as, m, rfl, hm, h⟩
  | optional x =>
    right; right; left
    unfold asgRecv at h
    simp only [Bool.or_eq_true] at h
    rcases h with h | h
    · rw [leafF .undef rfl (by unfold asgRecv; rfl)] at h; cases h
    · exact ⟨x, rfl, h⟩
  | notUndef x =>
    right; right; right
    unfold asgRecv at h
    simp only [Bool.or_eq_true] at h
    exact ⟨x, rfl, h⟩
  | scalar =>
    exfalso
    unfold asgRecv at h
    simp only [Bool.or_eq_true] at h
    rcases h with ((((h | h) | h) | h) | h) | h
    · rw [leafF .str rfl (by unfold asgRecv; rfl)] at h; cases h
    · rw [leafF .numeric rfl (by unfold asgRecv; rfl)] at h; cases h
    · rw [leafF (.bool none) rfl (by unfold asgRecv; rfl)] at h; cases h
    · rw [leafF (.regexp "") rfl (by unfold asgRecv; rfl)] at h; cases h
    · rw [leafF (.tspan Rng.all) rfl (by unfold asgRecv; rfl)] at h; cases h
    · rw [leafF (.tstamp tstampAll) rfl (by unfold asgRecv; rfl)] at h; cases h
  | scalarData =>
    exfalso
    unfold asgRecv at h
    simp only [Bool.or_eq_true] at h
    rcases h with ((h | h) | h) | h
    · rw [leafF .str rfl (by unfold asgRecv; rfl)] at h; cases h
    · rw [leafF (.int Rng.all) rfl (by unfold asgRecv; rfl)] at h; cases h
    · rw [leafF (.bool none) rfl (by unfold asgRecv; rfl)] at h; cases h
    · rw [leafF floatAll rfl (by unfold floatAll asgRecv; rfl)] at h; cases h
  | enum vs ci => exfalso; unfold asgRecv at h; split at h <;> simp [isStringFamily] at h
  | _ => exfalso; unfold asgRecv at h; simp [isStringFamily] at h

/-- whatever accepts Any accepts everything (aliases on the right included) -/
theorem acceptsD_any : ∀ (n : Nat) (a : Ty), a.w ≤ n → a.TD sfh → asg cfg sfh a .any = true → ∀ c, asg cfg sfh a c = true := by
  intro n
  induction n with
  | zero => intro a h; have := Ty.w_pos a; omega
  | succ n ih =>
    intro a hw fa h c
    rw [asg_plain_r cfg sfh a .any rfl] at h
    simp only [Bool.or_eq_true] at h
    rcases h with (h | h) | h
    · exact asg_of_isAny cfg sfh h c
    · have := sameNullary_eq h; subst this; exact asg_any_l cfg sfh c
    · cases a with
      | any => exact asg_any_l cfg sfh c
      | unit => unfold Ty.TD at fa; exact absurd fa id
      | data =>
        exfalso
        have : asg cfg sfh .data .any = false := by simp [asg, asgRecv, sameNullary, isStringFamily, floatAll]
        rw [asg_plain_r cfg sfh _ _ rfl] at this
        simp [Ty.isAny, sameNullary, h] at this
      | richData =>
        exfalso
        have : asg cfg sfh .richData .any = false := by simp [asg, asgRecv, sameNullary, isStringFamily, floatAll]
        rw [asg_plain_r cfg sfh _ _ rfl] at this
        simp [Ty.isAny, sameNullary, h] at this
      | variant as =>
        unfold Ty.TD at fa; simp only [Ty.w] at hw
        unfold asgRecv at h; rw [asgAnyL_iff] at h
        obtain ⟨m, hm, h⟩ := h
        exact wv_all cfg sfh hm (ih m (by have := Ty.w_lt_wl hm; omega) (fa m hm) h c)
      | optional x =>
        unfold Ty.TD at fa; simp only [Ty.w] at hw
        unfold asgRecv at h
        simp only [Bool.or_eq_true] at h
        rcases h with h | h
        · rw [asg_plain_r cfg sfh .undef .any rfl] at h; simp [Ty.isAny, sameNullary, asgRecv] at h
        · exact wo_all cfg sfh (ih x (by omega) fa h c)
      | notUndef x =>
        unfold asgRecv at h
        simp [asg_any_l] at h
      | scalar =>
        exfalso; unfold asgRecv at h
        simp only [Bool.or_eq_true] at h
        rcases h with ((((h | h) | h) | h) | h) | h <;>
          (rw [asg_plain_r cfg sfh _ .any rfl] at h; simp [Ty.isAny, sameNullary, asgRecv, isStringFamily] at h)
      | scalarData =>
        exfalso; unfold asgRecv at h
        simp only [Bool.or_eq_true] at h
        rcases h with ((h | h) | h) | h <;>
          (rw [asg_plain_r cfg sfh _ .any rfl] at h; simp [Ty.isAny, sameNullary, asgRecv, isStringFamily, floatAll] at h)
      | enum vs ci => exfalso; unfold asgRecv at h; split at h <;> simp [isStringFamily] at h
      | _ => exfalso; unfold asgRecv at h; simp [isStringFamily] at h

/-- the receivers whose own rule accepts Undef -/
theorem recv_undef_cases (c : Ty) (h : asgRecv cfg sfh c .undef = true) :
    c.isAny = true ∨ c = .unit ∨ c = .undef ∨ c = .data ∨ c = .richData ∨ (∃ x, c = .optional x) ∨
    (∃ cs m, c = .variant cs ∧ m ∈ cs ∧ asg cfg sfh m .undef = true) := by
  have lf : ∀ t : Ty, t.isAny = false → sameNullary t .undef = false → asgRecv cfg sfh t .undef = false → asg cfg sfh t .undef = false := by
    intro t h1 h2 h3; rw [asg_plain_r cfg sfh _ _ rfl]; simp [h1, h2, h3]
  cases c with
  | any => left; rfl
  | unit => right; left; rfl
  | undef => right; right; left; rfl
  | data => right; right; right; left; rfl
  | richData => right; right; right; right; left; rfl
  | optional x => right; right; right; right; right; left; exact ⟨x, rfl⟩
  | variant cs =>
    right; right; right; right; right; right
    unfold asgRecv at h; rw [asgAnyL_iff] at h
    obtain ⟨m, hm, h⟩ := h
    exact ⟨cs, m, rfl, hm, h⟩
  | notUndef x => exfalso; unfold asgRecv at h; simp [asg_undef_undef] at h
  | scalar =>
    exfalso
    unfold asgRecv at h
    simp only [Bool.or_eq_true] at h
    rcases h with ((((h | h) | h) | h) | h) | h
    · rw [lf .str rfl rfl (by unfold asgRecv; rfl)] at h; cases h
    · rw [lf .numeric rfl rfl (by unfold asgRecv; rfl)] at h; cases h
    · rw [lf (.bool none) rfl rfl (by unfold asgRecv; rfl)] at h; cases h
    · rw [lf (.regexp "") rfl rfl (by unfold asgRecv; rfl)] at h; cases h
    · rw [lf (.tspan Rng.all) rfl rfl (by unfold asgRecv; rfl)] at h; cases h
    · rw [lf (.tstamp tstampAll) rfl rfl (by unfold asgRecv; rfl)] at h; cases h
  | scalarData =>
    exfalso
    unfold asgRecv at h
    simp only [Bool.or_eq_true] at h
    rcases h with ((h | h) | h) | h
    · rw [lf .str rfl rfl (by unfold asgRecv; rfl)] at h; cases h
    · rw [lf (.int Rng.all) rfl rfl (by unfold asgRecv; rfl)] at h; cases h
    · rw [lf (.bool none) rfl rfl (by unfold asgRecv; rfl)] at h; cases h
    · rw [lf floatAll rfl rfl (by unfold floatAll asgRecv; rfl)] at h; cases h
  | enum vs ci => exfalso; unfold asgRecv at h; split at h <;> simp [isStringFamily] at h
  | _ => exfalso; unfold asgRecv at h; simp [isStringFamily] at h

/-- `b ⊒ c` and `c ⊒ Undef` give `b ⊒ Undef` (the step that the summed-weight induction took through its hypothesis) -/
theorem trans_undef : ∀ (n : Nat) (c : Ty), c.w ≤ n → c.TD sfh → ∀ b : Ty, b.TD sfh → asg cfg sfh b c = true →
    asg cfg sfh c .undef = true → asg cfg sfh b .undef = true := by
  intro n
  induction n with
  | zero => intro c h; have := Ty.w_pos c; omega
  | succ n ih =>
    intro c hw fc b fb h1 h2
    rw [asg_plain_r cfg sfh c .undef rfl] at h2
    simp only [Bool.or_eq_true] at h2
    have hrecv : asgRecv cfg sfh c .undef = true → asg cfg sfh b .undef = true := by
      intro h2
      rcases recv_undef_cases cfg sfh c h2 with h | rfl | rfl | rfl | rfl | ⟨x, rfl⟩ | ⟨cs, m, rfl, hm, hmu⟩
      · cases c <;> simp [Ty.isAny] at h
        exact acceptsD_any cfg sfh b.w b (Nat.le_refl _) fb h1 _
      · unfold Ty.TD at fc; exact absurd fc id
      · exact h1
      · exact (asg_data_comps cfg sfh h1).2.1
      · exact (asg_rich_comps cfg sfh h1).un
      · exact (asg_optional_parts cfg sfh h1).1
      · unfold Ty.TD at fc; simp only [Ty.w] at hw
        exact ih m (by have := Ty.w_lt_wl hm; omega) (fc m hm) b fb (asg_variant_parts cfg sfh h1 m hm) hmu
    rcases h2 with (h2 | h2) | h2
    · cases c <;> simp [Ty.isAny] at h2
      exact acceptsD_any cfg sfh b.w b (Nat.le_refl _) fb h1 _
    · have := sameNullary_eq h2; subst this; exact h1
    · exact hrecv h2

end Pcore.Lat
