import Pcore.Proofs.LatTransDAux
set_option linter.unusedSimpArgs false
set_option linter.unusedVariables false
/-! C03, transitivity stage 4: the specialised functions `asgToArr` / `asgToHash` / `asgToEntry` of the model (the alias' own members on
    the right-hand side, defined by recursion on the receiver so that the model terminates) ARE `asg` against the member written as a
    type term — `Array[al, 0, MaxInt64]`, `Hash[key, al, 0, MaxInt64]`, `Tuple[key, al]` — for every receiver whose Tuple type lists fit an
    int64 length (`fold_arr`, `fold_hash`, `fold_entry`).  Transitivity with an alias on the right or in the middle goes through them. -/
namespace Pcore.Lat
variable (cfg : Cfg) (sfh : Bool)

theorem pos_hi_pos : ¬ Rng.pos.hi ≤ 0 := by simp [Rng.pos, I64.max]

theorem bool_eq_of_iff {x y : Bool} (h : x = true ↔ y = true) : x = y := by
  cases x <;> cases y <;> simp_all

/-- closed facts about the aliases against each other and against their key types -/
theorem asg_data_data : asg cfg sfh .data .data = true := by simp [asg, sameNullary]
theorem asg_rich_rich : asg cfg sfh .richData .richData = true := by simp [asg, sameNullary]
theorem asg_data_rich : asg cfg sfh .data .richData = false := by simp [asg, asgRecv, sameNullary, isStringFamily, floatAll]
theorem asg_rich_data : asg cfg sfh .richData .data = true := by
  simp [asg, asgRecv, sameNullary, isStringFamily, floatAll, asgToArr, asgToHash]

theorem asg_alias_alias (x y : Alias) : asg cfg sfh x.ty y.ty = (match x, y with | .data, .rich => false | _, _ => true) := by
  cases x <;> cases y <;> simp only [Alias.ty]
  · exact asg_data_data cfg sfh
  · exact asg_data_rich cfg sfh
  · exact asg_rich_data cfg sfh
  · exact asg_rich_rich cfg sfh

/-- among three aliases two coincide: transitivity is immediate -/
theorem alias_triple (x y z : Alias) (h1 : asg cfg sfh x.ty y.ty = true) (h2 : asg cfg sfh y.ty z.ty = true) :
    asg cfg sfh x.ty z.ty = true := by
  rw [asg_alias_alias] at h1 h2 ⊢
  cases x <;> cases y <;> cases z <;> simp_all

theorem asg_alias_key (x y : Alias) : asg cfg sfh x.ty y.key = (match x, y with | .data, .rich => false | _, _ => true) := by
  cases x <;> cases y <;> simp [Alias.ty, Alias.key, asg, asgRecv, asgAllR, asgAnyL, sameNullary, isStringFamily, floatAll]

theorem asg_key_key (x y : Alias) : asg cfg sfh x.key y.key = (match x, y with | .data, .rich => false | _, _ => true) := by
  cases x <;> cases y <;> simp [Alias.key, asg, asgRecv, asgAllR, asgAnyL, sameNullary, isStringFamily, floatAll]

/-- Tuple ⊒ Array[e, 0, MaxInt64] over a type list of int64 length: every declared type accepts `e` -/
theorem tupZip_all (ts : List Ty) (e : Ty) (hne : ts ≠ []) (hlen : (ts.length : Int) ≤ I64.max) :
    tupZip cfg sfh ts [e] Rng.pos.hi = asgAllL cfg sfh ts e := by
  apply bool_eq_of_iff
  rw [tupZipR_iff cfg sfh ts e _ hne, asgAllL_iff]
  constructor
  · intro h t ht
    obtain ⟨j, hj, hget⟩ := List.getElem_of_mem ht
    exact h j t (by simp only [Rng.pos]; omega) (by rw [List.getElem?_eq_getElem hj, hget])
  · intro h j t _ hget
    exact h t (List.mem_of_getElem? hget)

theorem asg_undef_array (e : Ty) (r : Rng) : asg cfg sfh .undef (.array e r) = false := by
  rw [asg_plain_r cfg sfh _ _ rfl]; simp [Ty.isAny, sameNullary, asgRecv]
theorem asg_array_undef (e : Ty) (r : Rng) : asg cfg sfh (.array e r) .undef = false := by
  rw [asg_plain_r cfg sfh _ _ rfl]; simp [Ty.isAny, sameNullary, asgRecv]
theorem asg_undef_hash (k v : Ty) (r : Rng) : asg cfg sfh .undef (.hash k v r) = false := by
  rw [asg_plain_r cfg sfh _ _ rfl]; simp [Ty.isAny, sameNullary, asgRecv]
theorem asg_hash_undef (k v : Ty) (r : Rng) : asg cfg sfh (.hash k v r) .undef = false := by
  rw [asg_plain_r cfg sfh _ _ rfl]; simp [Ty.isAny, sameNullary, asgRecv]
theorem asg_undef_tuple (ts : List Ty) (g : Option Rng) : asg cfg sfh .undef (.tuple ts g) = false := by
  rw [asg_plain_r cfg sfh _ _ rfl]; simp [Ty.isAny, sameNullary, asgRecv]
theorem asg_tuple_undef (ts : List Ty) (g : Option Rng) : asg cfg sfh (.tuple ts g) .undef = false := by
  rw [asg_plain_r cfg sfh _ _ rfl]; simp [Ty.isAny, sameNullary, asgRecv]

/-- `asgToArr al a` is `a ⊒ Array[al, 0, MaxInt64]` -/
theorem fold_arr (al : Alias) : ∀ (n : Nat) (a : Ty), a.w ≤ n → a.TD sfh → asgToArr cfg sfh al a = asg cfg sfh a al.arr := by
  intro n
  induction n with
  | zero => intro a h; have := Ty.w_pos a; omega
  | succ n ih =>
    intro a hw fa
    have hp := pos_hi_pos
    unfold Alias.arr
    rw [asg_plain_r cfg sfh a _ rfl]
    unfold asgToArr
    cases a with
    | any => simp [Ty.isAny]
    | unit => unfold Ty.TD at fa; exact absurd fa id
    | coll r => simp [Ty.isAny, sameNullary, asgRecv]
    | array e r => simp [Ty.isAny, sameNullary, asgRecv, hp]
    | tuple ts g =>
      unfold Ty.TD at fa
      simp only [Ty.isAny, sameNullary, Bool.false_or]
      unfold asgRecv
      simp only []
      congr 1
      by_cases hts : ts = []
      · subst hts; simp
      · have hne : ts.isEmpty = false := by simp [List.isEmpty_iff, hts]
        have hz : (Rng.pos.hi == 0) = false := by simp [Rng.pos, I64.max]
        rw [hne, hz, tupZip_all cfg sfh ts _ hts fa.1]; simp
    | variant as =>
      unfold Ty.TD at fa; simp only [Ty.w] at hw
      simp only [Ty.isAny, sameNullary, Bool.false_or]
      unfold asgRecv
      apply bool_eq_of_iff
      rw [asgToArrAny_iff, asgAnyL_iff]
      constructor
      · rintro ⟨m, hm, h⟩
        refine ⟨m, hm, ?_⟩
        rw [ih m (by have := Ty.w_lt_wl hm; omega) (fa m hm)] at h; exact h
      · rintro ⟨m, hm, h⟩
        refine ⟨m, hm, ?_⟩
        rw [ih m (by have := Ty.w_lt_wl hm; omega) (fa m hm)]; exact h
    | optional x =>
      unfold Ty.TD at fa; simp only [Ty.w] at hw
      simp only [Ty.isAny, sameNullary, Bool.false_or]
      unfold asgRecv
      rw [asg_undef_array, ih x (by omega) fa]; simp [Alias.arr]
    | notUndef x =>
      unfold Ty.TD at fa; simp only [Ty.w] at hw
      simp only [Ty.isAny, sameNullary, Bool.false_or]
      unfold asgRecv
      simp only []
      rw [asg_array_undef, ih x (by omega) fa]; simp [Alias.arr]
    | iterable x => simp [Ty.isAny, sameNullary, asgRecv, hp]
    | data =>
      cases al <;> simp [Alias.ty, Ty.isAny, asg, asgRecv, sameNullary, isStringFamily, floatAll, Rng.sub, Rng.pos, I64.max]
    | richData =>
      cases al <;> simp [Alias.ty, Ty.isAny, asg, asgRecv, sameNullary, isStringFamily, floatAll, Rng.sub, Rng.pos, I64.max,
        asgToArr, asgToHash]
    | enum vs ci => simp only [Ty.isAny, sameNullary, Bool.false_or]; unfold asgRecv; split <;> simp [isStringFamily]
    | scalar => simp [Ty.isAny, sameNullary, asgRecv, isStringFamily, asg_plain_r cfg sfh _ (.array _ _) rfl]
    | scalarData => simp [Ty.isAny, sameNullary, asgRecv, isStringFamily, floatAll, asg_plain_r cfg sfh _ (.array _ _) rfl]
    | _ => simp [Ty.isAny, sameNullary, asgRecv, isStringFamily]

theorem tupZip_two (x k v : Ty) : tupZip cfg sfh [x] [k, v] 2 = (asg cfg sfh x k && asg cfg sfh x v) := by
  unfold tupZip; simp only []; unfold tupZip; simp

/-- `asgToEntry al a` is `a ⊒ Tuple[key, al]` -/
theorem fold_entry (al : Alias) : ∀ (n : Nat) (a : Ty), a.w ≤ n → a.TD sfh → asgToEntry cfg sfh al a = asg cfg sfh a al.ent := by
  intro n
  induction n with
  | zero => intro a h; have := Ty.w_pos a; omega
  | succ n ih =>
    intro a hw fa
    unfold Alias.ent
    rw [asg_plain_r cfg sfh a _ rfl]
    unfold asgToEntry
    cases a with
    | any => simp [Ty.isAny]
    | unit => unfold Ty.TD at fa; exact absurd fa id
    | coll r => simp [Ty.isAny, sameNullary, asgRecv, tupleSize, Rng.exact]
    | array e r =>
      simp only [Ty.isAny, sameNullary, Bool.false_or]
      unfold asgRecv
      simp [tupleSize, Rng.exact, tupZip_two, Bool.and_assoc]
    | tuple ts g =>
      simp only [Ty.isAny, sameNullary, Bool.false_or]
      unfold asgRecv
      simp only [tupleSize, Rng.exact, List.length_cons, List.length_nil, List.isEmpty_cons, if_false, Bool.false_eq_true]
      congr 1
      cases ts with
      | nil => simp
      | cons t0 rest =>
        cases rest with
        | nil => simp [tupZip_two]
        | cons t1 rest' =>
          simp only [List.isEmpty_cons, Bool.false_or]
          unfold tupZip
          simp only []
          cases rest' with
          | nil => unfold tupZip; simp
          | cons r0 rs => unfold tupZip; simp only []; unfold tupZip; simp
    | variant as =>
      unfold Ty.TD at fa; simp only [Ty.w] at hw
      simp only [Ty.isAny, sameNullary, Bool.false_or]
      unfold asgRecv
      apply bool_eq_of_iff
      rw [asgToEntryAny_iff, asgAnyL_iff]
      constructor
      · rintro ⟨m, hm, h⟩
        refine ⟨m, hm, ?_⟩
        rw [ih m (by have := Ty.w_lt_wl hm; omega) (fa m hm)] at h; exact h
      · rintro ⟨m, hm, h⟩
        refine ⟨m, hm, ?_⟩
        rw [ih m (by have := Ty.w_lt_wl hm; omega) (fa m hm)]; exact h
    | optional x =>
      unfold Ty.TD at fa; simp only [Ty.w] at hw
      simp only [Ty.isAny, sameNullary, Bool.false_or]
      unfold asgRecv
      rw [asg_undef_tuple, ih x (by omega) fa]; simp [Alias.ent]
    | notUndef x =>
      unfold Ty.TD at fa; simp only [Ty.w] at hw
      simp only [Ty.isAny, sameNullary, Bool.false_or]
      unfold asgRecv
      simp only []
      rw [asg_tuple_undef, ih x (by omega) fa]; simp [Alias.ent]
    | iterable x =>
      simp only [Ty.isAny, sameNullary, Bool.false_or]
      unfold asgRecv
      simp [tupleSize, Rng.exact, tupZip_two]
    | data =>
      cases al <;> simp [Alias.ty, Alias.key, Ty.isAny, asg, asgRecv, asgAllR, asgAnyL, tupZip, tupleSize, Rng.exact, sameNullary,
        isStringFamily, floatAll, Rng.sub, Rng.pos, I64.max]
    | richData =>
      cases al <;> simp [Alias.ty, Alias.key, Ty.isAny, asg, asgRecv, asgAllR, asgAnyL, tupZip, tupleSize, Rng.exact, sameNullary,
        isStringFamily, floatAll, Rng.sub, Rng.pos, I64.max, asgToArr, asgToHash]
    | enum vs ci => simp only [Ty.isAny, sameNullary, Bool.false_or]; unfold asgRecv; split <;> simp [isStringFamily]
    | scalar => simp [Ty.isAny, sameNullary, asgRecv, isStringFamily, asg_plain_r cfg sfh _ (.tuple _ _) rfl]
    | scalarData => simp [Ty.isAny, sameNullary, asgRecv, isStringFamily, floatAll, asg_plain_r cfg sfh _ (.tuple _ _) rfl]
    | _ => simp [Ty.isAny, sameNullary, asgRecv, isStringFamily]

/-- `asgToHash al a` is `a ⊒ Hash[key, al, 0, MaxInt64]` -/
theorem fold_hash (al : Alias) : ∀ (n : Nat) (a : Ty), a.w ≤ n → a.TD sfh → asgToHash cfg sfh al a = asg cfg sfh a al.hsh := by
  intro n
  induction n with
  | zero => intro a h; have := Ty.w_pos a; omega
  | succ n ih =>
    intro a hw fa
    have hp := pos_hi_pos
    unfold Alias.hsh
    rw [asg_plain_r cfg sfh a _ rfl]
    unfold asgToHash
    cases a with
    | any => simp [Ty.isAny]
    | unit => unfold Ty.TD at fa; exact absurd fa id
    | coll r => simp [Ty.isAny, sameNullary, asgRecv]
    | hash k v r => simp [Ty.isAny, sameNullary, asgRecv, hp, Bool.and_assoc]
    | struct ms => simp only [Ty.isAny, sameNullary, Bool.false_or]; unfold asgRecv; rfl
    | variant as =>
      unfold Ty.TD at fa; simp only [Ty.w] at hw
      simp only [Ty.isAny, sameNullary, Bool.false_or]
      unfold asgRecv
      apply bool_eq_of_iff
      rw [asgToHashAny_iff, asgAnyL_iff]
      constructor
      · rintro ⟨m, hm, h⟩
        refine ⟨m, hm, ?_⟩
        rw [ih m (by have := Ty.w_lt_wl hm; omega) (fa m hm)] at h; exact h
      · rintro ⟨m, hm, h⟩
        refine ⟨m, hm, ?_⟩
        rw [ih m (by have := Ty.w_lt_wl hm; omega) (fa m hm)]; exact h
    | optional x =>
      unfold Ty.TD at fa; simp only [Ty.w] at hw
      simp only [Ty.isAny, sameNullary, Bool.false_or]
      unfold asgRecv
      rw [asg_undef_hash, ih x (by omega) fa]; simp [Alias.hsh]
    | notUndef x =>
      unfold Ty.TD at fa; simp only [Ty.w] at hw
      simp only [Ty.isAny, sameNullary, Bool.false_or]
      unfold asgRecv
      simp only []
      rw [asg_hash_undef, ih x (by omega) fa]; simp [Alias.hsh]
    | iterable x =>
      unfold Ty.TD at fa
      simp only [Ty.isAny, sameNullary, Bool.false_or]
      unfold asgRecv
      simp only [hp, decide_false, Bool.false_or]
      rw [fold_entry cfg sfh al x.w x (Nat.le_refl _) fa]; rfl
    | data =>
      cases al <;> simp [Alias.ty, Alias.key, Ty.isAny, asg, asgRecv, asgAllR, asgAnyL, sameNullary,
        isStringFamily, floatAll, Rng.sub, Rng.pos, I64.max]
    | richData =>
      cases al <;> simp [Alias.ty, Alias.key, Ty.isAny, asg, asgRecv, asgAllR, asgAnyL, sameNullary,
        isStringFamily, floatAll, Rng.sub, Rng.pos, I64.max, asgToArr, asgToHash]
    | enum vs ci => simp only [Ty.isAny, sameNullary, Bool.false_or]; unfold asgRecv; split <;> simp [isStringFamily]
    | scalar => simp [Ty.isAny, sameNullary, asgRecv, isStringFamily, asg_plain_r cfg sfh _ (.hash _ _ _) rfl]
    | scalarData => simp [Ty.isAny, sameNullary, asgRecv, isStringFamily, floatAll, asg_plain_r cfg sfh _ (.hash _ _ _) rfl]
    | _ => simp [Ty.isAny, sameNullary, asgRecv, isStringFamily]

end Pcore.Lat
