import Pcore.Model.SliceHeap
/-!
Helper lemmas for C08 (property theorems are in `Pcore/Props/C08.lean`): the side condition on the idiom table, the
abstraction from heap states to pure states, the SEALING invariant and its preservation by every step.
-/
namespace Pcore.Heap

/-! ### the side condition on the regenerated table -/

/-- idioms that write into (or may write into) storage reachable from the receiver, or that are not understood -/
def rowSafe : Idiom → Bool
  | .appendToReceiver | .resliceThenAppend | .inPlace | .unknown _ => false
  | _ => true

/-- the result lives in storage no earlier value can reach (constructors: this includes the caller's own slice and
    the slice the builder callback fills) -/
def freshLike (i : Idiom) : Bool := i.cls == .fresh && rowSafe i

/-- … for a METHOD of a value: storage the method allocated itself -/
def freshStrict (i : Idiom) : Bool := i == .freshCopy || i == .mapIntoFresh || i == .constant

theorem freshStrict_cls {i : Idiom} (h : freshStrict i = true) : i.cls = .fresh := by
  unfold freshStrict at h
  simp only [Bool.or_eq_true, beq_iff_eq] at h
  rcases h with (h | h) | h <;> rw [h] <;> rfl

def allSame : List SameSite :=
  [.arrFlatten1, .arrUnique0, .arrUnique1, .hashDelete1, .hashDeleteAll0, .hashUnique0, .hashEntries0]
def allWin : List WinSite := [.arrSlice, .hashSlice, .arrEachSlice]
def allNew : List NewSite :=
  [.arrAdd, .arrAddAll, .arrDelete, .arrDeleteAll, .arrMap, .arrSelect, .arrReject, .arrSort, .arrFlatten0, .arrUnique2,
   .hashAdd0, .hashAdd1, .hashAddAll0, .hashDelete0, .hashDeleteAll1, .hashMap, .hashMapValues, .hashSelect, .hashReject,
   .hashSelectPairs, .hashRejectPairs, .hashMerge, .hashSort, .hashFlatten0, .hashFlatten1, .hashKeys, .hashValues,
   .mutPutAll, .hashEachSlice, .hashAsArray, .hashMapEntries, .hashAddAll1, .mutDelete, .mutDeleteAll, .mutEntries,
   .mutUnique]
def allCtor : List CtorSite := [.wrapValues, .wrapHash, .buildArray, .buildHash, .newMutable]

theorem allSame_complete (s : SameSite) : s ∈ allSame := by cases s <;> simp [allSame]
theorem allWin_complete (s : WinSite) : s ∈ allWin := by cases s <;> simp [allWin]
theorem allNew_complete (s : NewSite) : s ∈ allNew := by cases s <;> simp [allNew]

def sameOK (i : Idiom) : Bool := freshStrict i || i == .returnsReceiver || i == .resliceReceiver
def winOK' (i : Idiom) : Bool := freshStrict i || i == .resliceReceiver

/-- the builder callbacks behind `parse` / `coll` / `ser` values (BasicCollector) -/
def builderKeys : List String := ["BasicCollector.AddArray/b0", "BasicCollector.AddHash/b0"]

/-- Side condition on the table (decidable; discharged by `decide` on the regenerated table):
    * no row anywhere uses an idiom that writes through receiver storage or is not understood;
    * every site that computes a new sequence stores it in storage the method allocated itself (`freshCopy`,
      `mapIntoFresh`; NOT `wrapsArgument`: a slice that came from somewhere else);
    * a site may answer the receiver itself (or re-slice it) only where the model says the result IS the receiver's
      value (resp. a window of it);
    * the constructors hand out fresh storage (`wrapsArgument`: the caller's slice — the harness and the parser pass
      slices nobody else holds; `freshToCallback`: BuildArray/BuildHash, whose callbacks — every call site is a `/b`
      row — must only append to the slice they are given, or hand it through BasicCollector's private stack and pop
      it before returning it; the stack's own appends are the `owned…` rows). -/
def idiomsSafeB (t : Table) : Bool :=
  t.all (fun r => rowSafe r.2) &&
  allNew.all (fun s => freshStrict (t.find s.key)) &&
  allSame.all (fun s => sameOK (t.find s.key)) &&
  allWin.all (fun s => winOK' (t.find s.key)) &&
  allCtor.all (fun s => freshLike (t.find s.key)) &&
  builderKeys.all (fun k => t.find k == .ownedHandOver || t.find k == .appendsToGiven)

def IdiomsSafe (t : Table) : Prop := idiomsSafeB t = true

instance (t : Table) : Decidable (IdiomsSafe t) := by unfold IdiomsSafe; infer_instance

theorem safe_rows {t : Table} (h : IdiomsSafe t) : ∀ r ∈ t, rowSafe r.2 = true := by
  unfold IdiomsSafe idiomsSafeB at h
  simp only [Bool.and_eq_true, List.all_eq_true] at h
  exact h.1.1.1.1.1

theorem safe_new {t : Table} (h : IdiomsSafe t) (s : NewSite) : (t.find s.key).cls = .fresh := by
  unfold IdiomsSafe idiomsSafeB at h
  simp only [Bool.and_eq_true, List.all_eq_true] at h
  exact freshStrict_cls (h.1.1.1.1.2 s (allNew_complete s))

theorem safe_same {t : Table} (h : IdiomsSafe t) (s : SameSite) :
    (t.find s.key).cls = .fresh ∨ (t.find s.key).cls = .recv ∨ (t.find s.key).cls = .reslice := by
  unfold IdiomsSafe idiomsSafeB at h
  simp only [Bool.and_eq_true, List.all_eq_true] at h
  have := h.1.1.1.2 s (allSame_complete s)
  unfold sameOK at this
  simp only [Bool.or_eq_true, beq_iff_eq] at this
  rcases this with (h1 | h2) | h3
  · exact Or.inl (freshStrict_cls h1)
  · right; left; rw [h2]; rfl
  · right; right; rw [h3]; rfl

theorem safe_win {t : Table} (h : IdiomsSafe t) (s : WinSite) :
    (t.find s.key).cls = .fresh ∨ (t.find s.key).cls = .reslice := by
  unfold IdiomsSafe idiomsSafeB at h
  simp only [Bool.and_eq_true, List.all_eq_true] at h
  have := h.1.1.2 s (allWin_complete s)
  unfold winOK' at this
  simp only [Bool.or_eq_true, beq_iff_eq] at this
  rcases this with h1 | h3
  · exact Or.inl (freshStrict_cls h1)
  · right; rw [h3]; rfl

theorem safe_noWrite {t : Table} (h : IdiomsSafe t) (m : String) : t.writesInPlace m = false := by
  unfold Table.writesInPlace
  rw [Bool.eq_false_iff]
  intro hc
  rw [List.any_eq_true] at hc
  obtain ⟨r, hr, hc⟩ := hc
  simp only [Bool.and_eq_true, beq_iff_eq] at hc
  have := safe_rows h r hr
  rw [hc.1] at this
  simp [rowSafe] at this

/-! ### abstraction -/

def absEntry (h : Heap) : HEntry → PEntry
  | .val k s => .val k (h.read s)
  | .mark m => .mark m

/-- the pure state a heap state represents -/
def HState.abs (s : HState) : PState := ⟨s.pool.map (absEntry s.heap), s.dead⟩

/-- every live slice header points into the heap -/
def HState.WF (s : HState) : Prop := ∀ e ∈ s.pool, ∀ k sl, e = HEntry.val k sl → sl.arr < s.heap.length

theorem abs_look (s : HState) : s.abs.look = s.look := by
  funext n
  unfold PState.look HState.look HState.slice? HState.abs
  simp only
  split
  · rfl
  · rw [List.getElem?_map]
    cases h : s.pool[n]? with
    | none => rfl
    | some e => cases e <;> rfl

theorem cells_append_left (h : Heap) (c : List Val) (a : Nat) (ha : a < h.length) :
    Heap.cells (h ++ [c]) a = Heap.cells h a := by
  unfold Heap.cells
  simp [List.getD, List.getElem?_append_left ha]

theorem read_append (h : Heap) (c : List Val) (sl : Slice) (ha : sl.arr < h.length) :
    Heap.read (h ++ [c]) sl = Heap.read h sl := by
  unfold Heap.read
  rw [cells_append_left h c sl.arr ha]

theorem cells_append_new (h : Heap) (c : List Val) : Heap.cells (h ++ [c]) h.length = c := by
  unfold Heap.cells
  simp [List.getD]

theorem read_mkFresh (h : Heap) (res : List Val) (sp : Nat) :
    (mkFresh h res sp).1.read (mkFresh h res sp).2 = res := by
  unfold mkFresh Heap.read
  simp only [cells_append_new, List.drop_zero]
  simp

theorem absEntry_append (h : Heap) (c : List Val) (e : HEntry)
    (he : ∀ k sl, e = HEntry.val k sl → sl.arr < h.length) : absEntry (h ++ [c]) e = absEntry h e := by
  cases e with
  | mark m => rfl
  | val k sl => simp only [absEntry]; rw [read_append h c sl (he k sl rfl)]

theorem pool_abs_append (s : HState) (c : List Val) (hw : s.WF) :
    s.pool.map (absEntry (s.heap ++ [c])) = s.pool.map (absEntry s.heap) := by
  apply List.map_congr_left
  intro e he
  exact absEntry_append s.heap c e (hw e he)

theorem slice?_mem {s : HState} {r : Nat} {k : Kind} {sl : Slice} (h : s.slice? r = some (k, sl)) :
    HEntry.val k sl ∈ s.pool := by
  unfold HState.slice? at h
  split at h
  · cases h
  · cases hp : s.pool[r]? with
    | none => rw [hp] at h; cases h
    | some e =>
      rw [hp] at h
      cases e with
      | mark m => cases h
      | val k' sl' =>
        simp only [Option.some.injEq, Prod.mk.injEq] at h
        obtain ⟨rfl, rfl⟩ := h
        exact List.mem_of_getElem? hp

/-- pushing a value stored in a freshly allocated array -/
theorem push_fresh (s : HState) (hw : s.WF) (k : Kind) (res : List Val) (sp : Nat) (dead : List Nat) :
    let p := mkFresh s.heap res sp
    (HState.abs { heap := p.1, pool := s.pool ++ [.val k p.2], dead := dead } =
      ⟨s.abs.pool ++ [.val k res], dead⟩) ∧
    HState.WF { heap := p.1, pool := s.pool ++ [.val k p.2], dead := dead } := by
  intro p
  constructor
  · unfold HState.abs
    simp only [List.map_append, List.map_cons, List.map_nil, absEntry]
    have h1 : p.1 = s.heap ++ [res ++ List.replicate sp Val.undef] := rfl
    rw [show p.1.read p.2 = res from read_mkFresh s.heap res sp]
    rw [h1, pool_abs_append s _ hw]
  · intro e he k' sl hk
    have h1 : p.1 = s.heap ++ [res ++ List.replicate sp Val.undef] := rfl
    simp only [h1, List.length_append, List.length_cons, List.length_nil]
    rw [List.mem_append] at he
    rcases he with he | he
    · have := hw e he k' sl hk
      omega
    · simp only [List.mem_cons, List.not_mem_nil, or_false] at he
      subst he
      cases hk
      show s.heap.length < _
      omega

/-- pushing a value that shares an existing array (heap unchanged) -/
theorem push_shared (s : HState) (hw : s.WF) (k : Kind) (sl : Slice) (hsl : sl.arr < s.heap.length) (dead : List Nat) :
    (HState.abs { heap := s.heap, pool := s.pool ++ [.val k sl], dead := dead } =
      ⟨s.abs.pool ++ [.val k (s.heap.read sl)], dead⟩) ∧
    HState.WF { heap := s.heap, pool := s.pool ++ [.val k sl], dead := dead } := by
  constructor
  · unfold HState.abs
    simp [absEntry]
  · intro e he k' sl' hk
    rw [List.mem_append] at he
    rcases he with he | he
    · exact hw e he k' sl' hk
    · simp only [List.mem_cons, List.not_mem_nil, or_false] at he
      subst he
      cases hk
      exact hsl

theorem push_mark (s : HState) (hw : s.WF) (m : String) :
    (s.push s.heap (.mark m)).abs = ⟨s.abs.pool ++ [.mark m], s.abs.dead⟩ ∧ (s.push s.heap (.mark m)).WF := by
  constructor
  · unfold HState.abs HState.push
    simp [absEntry]
  · intro e he k sl hk
    unfold HState.push at he
    simp only [List.mem_append, List.mem_cons, List.not_mem_nil, or_false] at he
    rcases he with he | he
    · exact hw e he k sl hk
    · subst he; cases hk

theorem read_sub_full (h : Heap) (recv : Slice) : h.read (recv.sub 0 recv.len) = h.read recv := by
  unfold Slice.sub Heap.read
  simp

theorem read_sub_window (h : Heap) (recv : Slice) (lo hi : Int) (hok : winOK (h.read recv).length lo hi = true) :
    h.read (recv.sub lo.toNat hi.toNat) = window (h.read recv) lo hi := by
  unfold winOK at hok
  simp only [Bool.and_eq_true, decide_eq_true_eq] at hok
  obtain ⟨⟨h0, h1⟩, h2⟩ := hok
  unfold Slice.sub window Heap.read at *
  simp only
  have hlen : (List.take recv.len (List.drop recv.off (h.cells recv.arr))).length ≤ recv.len := by
    simp [List.length_take]; omega
  have hhi : hi.toNat ≤ recv.len := by omega
  rw [List.drop_take, List.take_take, List.drop_drop]
  congr 1
  omega

end Pcore.Heap
