import Pcore.Model.ConcQueue
/-! The declare / resolve queue: the inductive invariant of the `fresh` variant over every interleaving (helper lemmas for
    C13_queue_*), and reachability of what the deterministic scheduler executes. -/
namespace Pcore.ConcQueue

/-! ### the scheduler only takes steps of the step relation -/

theorem reachable_runToYield (cfg : Cfg) (c0 : Config) (fuel : Nat) (c : Config) (i : Nat) (h : Reachable cfg c0 c) :
    Reachable cfg c0 (runToYield cfg fuel c i) := by
  induction fuel generalizing c with
  | zero => exact h
  | succ f ih =>
    simp only [runToYield]
    split
    · exact h
    · split
      · exact h
      · exact ih _ (Reachable.step i h)

theorem reachable_release (cfg : Cfg) (c0 c : Config) (i : Nat) (h : Reachable cfg c0 c) : Reachable cfg c0 (release cfg c i) := by
  unfold release
  split
  · exact h
  · split
    · exact h
    · exact reachable_runToYield cfg c0 _ _ i (Reachable.step i h)

theorem reachable_runSched (cfg : Cfg) (c0 c : Config) (sched : List Nat) (h : Reachable cfg c0 c) :
    Reachable cfg c0 (runSched cfg c sched) := by
  induction sched generalizing c with
  | nil => exact h
  | cons i rest ih => exact ih _ (reachable_release cfg c0 c i h)

theorem reachable_drainThread (cfg : Cfg) (c0 : Config) (fuel : Nat) (c : Config) (i : Nat) (h : Reachable cfg c0 c) :
    Reachable cfg c0 (drainThread cfg fuel c i) := by
  induction fuel generalizing c with
  | zero => exact h
  | succ f ih =>
    simp only [drainThread]
    split
    · exact h
    · split
      · exact h
      · exact ih _ (reachable_release cfg c0 c i h)

theorem reachable_drainAll (cfg : Cfg) (c0 c : Config) (h : Reachable cfg c0 c) : Reachable cfg c0 (drainAll cfg c) := by
  unfold drainAll
  generalize List.range c.th.length = is
  induction is generalizing c with
  | nil => exact h
  | cons i rest ih => exact ih _ (reachable_drainThread cfg c0 _ c i h)

theorem reachable_execute (cfg : Cfg) (pend : Nat) (progs : List (List QOp)) (sched : List Nat) :
    Reachable cfg (Config.init cfg pend progs) (execute cfg pend progs sched) :=
  reachable_drainAll _ _ _ (reachable_runSched _ _ _ sched Reachable.init)

/-! ### what a thread is responsible for -/

/-- the items a thread has taken over and not yet finished with -/
def batch : PC → List Item
  | .idle => []
  | .bindRead _ b _ _ | .bindSet _ b _ _ _ | .resRead _ b _ _ | .resCall _ b _ _ _ => b

/-- … those of them it has bound -/
def bdone : PC → List Item
  | .idle => []
  | .bindRead _ b i _ | .bindSet _ b i _ _ => b.take i
  | .resRead _ b _ _ | .resCall _ b _ _ _ => b

/-- … and resolved -/
def rdone : PC → List Item
  | .idle | .bindRead _ _ _ _ | .bindSet _ _ _ _ _ => []
  | .resRead _ b i _ | .resCall _ b i _ _ => b.take i

/-- occurrences of `x` over all threads -/
def occ (f : PC → List Item) (x : Item) (ths : List Thread) : Nat := (ths.map fun t => (f t.pc).count x).sum

theorem occ_set (f : PC → List Item) (x : Item) (ths : List Thread) (i : Nat) (t t' : Thread) (h : ths[i]? = some t) :
    occ f x (ths.set i t') + (f t.pc).count x = occ f x ths + (f t'.pc).count x := by
  induction ths generalizing i with
  | nil => simp at h
  | cons hd tl ih =>
    cases i with
    | zero =>
      simp only [List.getElem?_cons_zero, Option.some.injEq] at h
      subst h
      simp only [occ, List.set_cons_zero, List.map_cons, List.sum_cons]
      omega
    | succ j =>
      simp only [List.getElem?_cons_succ] at h
      have := ih j h
      simp only [occ, List.set_cons_succ, List.map_cons, List.sum_cons] at this ⊢
      omega

theorem occ_ge (f : PC → List Item) (x : Item) (ths : List Thread) (t : Thread) (h : t ∈ ths) :
    (f t.pc).count x ≤ occ f x ths := by
  induction ths with
  | nil => cases h
  | cons hd tl ih =>
    simp only [occ, List.map_cons, List.sum_cons]
    rcases List.mem_cons.mp h with rfl | h'
    · omega
    · have := ih h'
      simp only [occ] at this
      omega

theorem occ_le_occ (f g : PC → List Item) (x : Item) (ths : List Thread) (h : ∀ pc, (f pc).count x ≤ (g pc).count x) :
    occ f x ths ≤ occ g x ths := by
  induction ths with
  | nil => simp [occ]
  | cons hd tl ih =>
    simp only [occ, List.map_cons, List.sum_cons] at ih ⊢
    have := h hd.pc
    omega

theorem occ_idle (f : PC → List Item) (hf : f .idle = []) (x : Item) (ths : List Thread) (h : ∀ t ∈ ths, t.pc = .idle) :
    occ f x ths = 0 := by
  induction ths with
  | nil => simp [occ]
  | cons hd tl ih =>
    simp only [occ, List.map_cons, List.sum_cons]
    have h1 := h hd (List.mem_cons_self ..)
    have h2 := ih fun t ht => h t (List.mem_cons_of_mem _ ht)
    simp only [occ] at h2
    rw [h1, hf, h2]
    simp

theorem count_take_le (b : List Item) (i : Nat) (x : Item) : (b.take i).count x ≤ b.count x :=
  (List.take_sublist i b).count_le x

theorem bdone_le_batch (x : Item) (pc : PC) : (bdone pc).count x ≤ (batch pc).count x := by
  cases pc <;> simp [bdone, batch, count_take_le]

theorem rdone_le_batch (x : Item) (pc : PC) : (rdone pc).count x ≤ (batch pc).count x := by
  cases pc <;> simp [rdone, batch, count_take_le]

theorem set_self {α : Type} (l : List α) (i : Nat) (a : α) (h : l[i]? = some a) : l.set i a = l := by
  induction l generalizing i with
  | nil => rfl
  | cons hd tl ih =>
    cases i with
    | zero => simp at h; subst h; rfl
    | succ j => simp at h; simp [ih j h]

end Pcore.ConcQueue
