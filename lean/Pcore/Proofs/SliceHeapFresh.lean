import Pcore.Proofs.SliceHeapRefine
/-!
C08 helper lemmas, part 4: under a safe table the result of every operation that computes a new sequence (Add, Sort, Map,
Merge, …: the `NewSite`s) is stored in a backing array allocated by that very step — it shares storage with no value that
existed before.
-/
namespace Pcore.Heap

theorem step_new_fresh (P : Policy) (tbl : Table) (ht : IdiomsSafe tbl) (s : HState) (op : Op)
    {site : NewSite} {k : Kind} {r : Nat} {res : List Val} {kill : Bool}
    (h : opSem s.look op = .new site k r res kill) :
    ∃ sp, stepHeap P tbl s op =
      { heap := s.heap ++ [res ++ List.replicate sp .undef],
        pool := s.pool ++ [.val k ⟨s.heap.length, 0, res.length, res.length + sp⟩],
        dead := if kill then r :: s.dead else s.dead } := by
  unfold stepHeap
  rw [h]
  simp only [safe_noWrite ht, Bool.false_eq_true, if_false]
  rw [produce_fresh _ _ _ _ _ _ _ _ _ (safe_new ht site)]
  exact ⟨_, rfl⟩

theorem run_WF (P : Policy) (tbl : Table) (ht : IdiomsSafe tbl) (ops : List Op) : (runHeap P tbl ops).WF :=
  (foldl_refines P tbl ht ops {} (by intro e he; cases he)).2

theorem runHeap_snoc (P : Policy) (tbl : Table) (ops : List Op) (op : Op) :
    runHeap P tbl (ops ++ [op]) = stepHeap P tbl (runHeap P tbl ops) op := by
  unfold runHeap
  rw [List.foldl_append]
  rfl

end Pcore.Heap
