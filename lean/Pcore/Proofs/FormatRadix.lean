import Pcore.Proofs.FormatInt
/-! Reading a radix rendering back: `readRadix` inverts every rendering of the shape
    spaces ++ sign ++ prefix ++ zeros ++ digits ++ spaces. -/
namespace Pcore.Format

def digitVal (c : Char) : Option Nat :=
  if '0' ≤ c ∧ c ≤ '9' then some (c.toNat - 48)
  else if 'a' ≤ c ∧ c ≤ 'f' then some (c.toNat - 87)
  else if 'A' ≤ c ∧ c ≤ 'F' then some (c.toNat - 55)
  else none

/-- the digits of a string in base `b`; `none` when a character is not a digit below `b` -/
def readDigits (b : Nat) : Str → Option (List Nat)
  | [] => some []
  | c :: cs =>
    match digitVal c with
    | some d => if d < b then (readDigits b cs).map (d :: ·) else none
    | none => none

def radixOf (letter : Char) : Nat :=
  if letter = 'x' ∨ letter = 'X' then 16 else if letter = 'o' then 8 else if letter = 'b' ∨ letter = 'B' then 2 else 10

/-- `0x` / `0X` / `0b` / `0B` in front of the digits, for the letter that writes it -/
def stripPrefix (letter : Char) (s : Str) : Str :=
  match s with
  | '0' :: c :: rest =>
    if (letter = 'x' ∧ c = 'x') ∨ (letter = 'X' ∧ c = 'X') ∨ (letter = 'b' ∧ c = 'b') ∨ (letter = 'B' ∧ c = 'B') then rest else s
  | _ => s

def splitSign : Str → Bool × Str
  | '-' :: r => (true, r)
  | '+' :: r => (false, r)
  | s => (false, s)

/-- Convert a rendering back: `[spaces][+|-][prefix]digits[spaces]` in the radix of the letter
    (what strconv.ParseInt does once the blanks and the prefix are removed). Written independently of the model. -/
def readRadix (letter : Char) (s : Str) : Option Int :=
  let s := s.dropWhile (· = ' ')
  let body := s.takeWhile (· ≠ ' ')
  let rest := s.dropWhile (· ≠ ' ')
  if rest.all (· = ' ') then
    let nb := splitSign body
    let ds := stripPrefix letter nb.2
    if ds.isEmpty then none
    else (readDigits (radixOf letter) ds).map fun xs =>
      if nb.1 then -(ofDigits (radixOf letter) xs : Int) else (ofDigits (radixOf letter) xs : Int)
  else none

/-! ### digit strings -/

theorem digitVal_digitChar (u : Bool) : ∀ d, d < 16 → digitVal (digitChar u d) = some d := by
  cases u <;> decide

/-- every character is a digit below `b` -/
def DigitStr (b : Nat) (s : Str) : Prop := ∀ c ∈ s, ∃ d, d < b ∧ digitVal c = some d

theorem DigitStr.append {b : Nat} {s t : Str} (hs : DigitStr b s) (ht : DigitStr b t) : DigitStr b (s ++ t) := by
  intro c hc
  rcases List.mem_append.mp hc with h | h
  · exact hs c h
  · exact ht c h

theorem digitStr_zeros (b : Nat) (hb : 0 < b) (k : Nat) : DigitStr b (zeros k) := by
  intro c hc
  simp [zeros] at hc
  exact ⟨0, hb, by rw [hc.2]; decide⟩

theorem digitStr_natStr (b : Nat) (hb : 2 ≤ b) (hb16 : b ≤ 16) (u : Bool) (n : Nat) : DigitStr b (natStr b u n) := by
  intro c hc
  simp only [natStr, List.mem_map] at hc
  obtain ⟨d, hd, rfl⟩ := hc
  have := toDigits_lt b hb n d hd
  exact ⟨d, this, digitVal_digitChar u d (by omega)⟩

theorem digitStr_not_mem (b : Nat) (hb16 : b ≤ 16) (s : Str) (hs : DigitStr b s) (x : Char)
    (hx : x = ' ' ∨ x = '-' ∨ x = '+' ∨ x = 'x' ∨ x = 'X') : x ∉ s := by
  intro hmem
  obtain ⟨d, _, hd⟩ := hs x hmem
  rcases hx with rfl | rfl | rfl | rfl | rfl <;> simp [digitVal] at hd <;> revert hd <;> decide

theorem digitStr2_not_mem (s : Str) (hs : DigitStr 2 s) (x : Char) (hx : x = 'b' ∨ x = 'B') : x ∉ s := by
  intro hmem
  obtain ⟨d, hlt, hd⟩ := hs x hmem
  rcases hx with rfl | rfl
  · have : digitVal 'b' = some 11 := by decide
    rw [this] at hd; cases hd; omega
  · have : digitVal 'B' = some 11 := by decide
    rw [this] at hd; cases hd; omega

theorem readDigits_zeros_append (b : Nat) (hb : 0 < b) (k : Nat) (s : Str) :
    readDigits b (zeros k ++ s) = (readDigits b s).map (List.replicate k 0 ++ ·) := by
  induction k with
  | zero => simp [zeros]
  | succ n ih =>
    have h0 : digitVal '0' = some 0 := by decide
    simp only [zeros, List.replicate_succ, List.cons_append, readDigits, h0, if_pos hb] at ih ⊢
    rw [ih]
    cases readDigits b s <;> simp

theorem readDigits_natStr (b : Nat) (hb : 2 ≤ b) (hb16 : b ≤ 16) (u : Bool) (n : Nat) :
    readDigits b (natStr b u n) = some (toDigits b n) := by
  have hlt := toDigits_lt b hb n
  unfold natStr
  generalize toDigits b n = ds at hlt
  induction ds with
  | nil => simp [readDigits]
  | cons d ds ih =>
    have hd : d < b := hlt d (by simp)
    simp only [List.map_cons, readDigits, digitVal_digitChar u d (by omega), if_pos hd]
    rw [ih (fun x hx => hlt x (by simp [hx]))]
    simp

theorem ofDigits_replicate_zero (b k : Nat) (ds : List Nat) : ofDigits b (List.replicate k 0 ++ ds) = ofDigits b ds := by
  induction k with
  | zero => simp
  | succ n ih => simp only [List.replicate_succ, List.cons_append]; simp [ofDigits] at ih ⊢; exact ih

/-! ### trimming -/

theorem trim_body (a bb : Nat) (body : Str) (hne : body ≠ []) (hb : ∀ c ∈ body, c ≠ ' ') :
    let s := (spaces a ++ body ++ spaces bb).dropWhile (· = ' ')
    s.takeWhile (· ≠ ' ') = body ∧ (s.dropWhile (· ≠ ' ')).all (· = ' ') = true := by
  have h1 : (spaces a ++ body ++ spaces bb).dropWhile (· = ' ') = body ++ spaces bb := by
    rw [List.append_assoc, List.dropWhile_append_of_pos (by intro c hc; simp [spaces] at hc; simp [hc.2])]
    cases body with
    | nil => exact absurd rfl hne
    | cons c cs =>
      have : c ≠ ' ' := hb c (by simp)
      simp [List.dropWhile_cons_of_neg, this]
  simp only [h1]
  constructor
  · rw [List.takeWhile_append_of_pos (by intro c hc; simpa using hb c hc)]
    simp [spaces, List.takeWhile_replicate]
  · rw [List.dropWhile_append_of_pos (by intro c hc; simpa using hb c hc)]
    simp [spaces, List.dropWhile_replicate]

/-- **readRadix inverts the shape** spaces ++ sign ++ prefix ++ zeros ++ digits ++ spaces -/
theorem readRadix_shape (letter : Char) (u : Bool) (a k bb n : Nat) (sign pfx : Str) (neg : Bool)
    (hb2 : 2 ≤ radixOf letter) (hb16 : radixOf letter ≤ 16)
    (hsign : (neg = true ∧ sign = ['-']) ∨ (neg = false ∧ (sign = [] ∨ sign = ['+'])))
    (hpfx : pfx = [] ∨ (pfx = ['0', letter] ∧ (letter = 'x' ∨ letter = 'X' ∨ letter = 'b' ∨ letter = 'B'))) :
    readRadix letter (spaces a ++ sign ++ pfx ++ zeros k ++ natStr (radixOf letter) u n ++ spaces bb) =
      some (if neg then -(n : Int) else (n : Int)) := by
  generalize hb : radixOf letter = b at *
  have hD : DigitStr b (zeros k ++ natStr b u n) := (digitStr_zeros b (by omega) k).append (digitStr_natStr b hb2 hb16 u n)
  generalize hDdef : zeros k ++ natStr b u n = D at hD
  have hDne : D ≠ [] := by
    rw [← hDdef]; intro h
    exact natStr_ne_nil b u n (List.append_eq_nil_iff.mp h).2
  have hDsp : ∀ x, (x = ' ' ∨ x = '-' ∨ x = '+' ∨ x = 'x' ∨ x = 'X') → x ∉ D := fun x hx => digitStr_not_mem b hb16 D hD x hx
  -- the characters between the blanks
  have hbody : spaces a ++ sign ++ pfx ++ zeros k ++ natStr b u n ++ spaces bb = spaces a ++ (sign ++ pfx ++ D) ++ spaces bb := by
    rw [← hDdef]; simp [List.append_assoc]
  rw [hbody]
  have hpfx_sp : ∀ c ∈ pfx, c ≠ ' ' := by
    rcases hpfx with rfl | ⟨rfl, hl⟩
    · simp
    · intro c hc; simp at hc
      rcases hc with rfl | rfl
      · decide
      · rcases hl with rfl | rfl | rfl | rfl <;> decide
  have hsign_sp : ∀ c ∈ sign, c ≠ ' ' := by
    rcases hsign with ⟨_, rfl⟩ | ⟨_, rfl | rfl⟩ <;> simp
  have hne : sign ++ pfx ++ D ≠ [] := by simp [hDne]
  have hsp : ∀ c ∈ sign ++ pfx ++ D, c ≠ ' ' := by
    intro c hc
    simp only [List.mem_append] at hc
    rcases hc with (h | h) | h
    · exact hsign_sp c h
    · exact hpfx_sp c h
    · intro hcs; exact hDsp c (Or.inl hcs) h
  have htrim := trim_body a bb (sign ++ pfx ++ D) hne hsp
  unfold readRadix
  simp only [htrim.1, htrim.2, if_true, hb]
  -- the sign
  have hhead : ∀ r, pfx ++ D ≠ '-' :: r ∧ pfx ++ D ≠ '+' :: r := by
    intro r
    rcases hpfx with rfl | ⟨rfl, _⟩
    · cases hDl : D with
      | nil => exact absurd hDl hDne
      | cons c cs =>
        have h1 : c ≠ '-' := by intro h; exact hDsp '-' (by simp) (by rw [hDl, h]; simp)
        have h2 : c ≠ '+' := by intro h; exact hDsp '+' (by simp) (by rw [hDl, h]; simp)
        simp [h1, h2]
    · simp
  have hnb : splitSign (sign ++ pfx ++ D) = (neg, pfx ++ D) := by
    rcases hsign with ⟨rfl, rfl⟩ | ⟨rfl, rfl | rfl⟩
    · simp [splitSign]
    · simp only [List.nil_append]
      unfold splitSign
      split
      · rename_i r h; exact absurd h (hhead r).1
      · rename_i r h; exact absurd h (hhead r).2
      · rfl
    · simp [splitSign]
  rw [hnb]
  -- the prefix
  have hstrip : stripPrefix letter (pfx ++ D) = D := by
    rcases hpfx with rfl | ⟨rfl, hl⟩
    · simp only [List.nil_append]
      unfold stripPrefix
      split
      · rename_i c rest
        have hcx : c ≠ 'x' := by intro h; exact hDsp 'x' (by simp) (by rw [h]; simp)
        have hcX : c ≠ 'X' := by intro h; exact hDsp 'X' (by simp) (by rw [h]; simp)
        have hcb : ¬ (letter = 'b' ∧ c = 'b') := by
          rintro ⟨hl, hc⟩
          have hb' : b = 2 := by rw [← hb, hl]; decide
          subst hb'
          exact digitStr2_not_mem _ hD 'b' (Or.inl rfl) (by rw [hc]; simp)
        have hcB : ¬ (letter = 'B' ∧ c = 'B') := by
          rintro ⟨hl, hc⟩
          have hb' : b = 2 := by rw [← hb, hl]; decide
          subst hb'
          exact digitStr2_not_mem _ hD 'B' (Or.inr rfl) (by rw [hc]; simp)
        rw [if_neg (by tauto)]
      · rfl
    · unfold stripPrefix
      simp only [List.cons_append, List.nil_append]
      rw [if_pos (by tauto)]
  simp only [hstrip]
  have hemp : D.isEmpty = false := by cases D <;> simp_all
  rw [hemp]
  simp only [Bool.false_eq_true, if_false]
  rw [← hDdef, readDigits_zeros_append b (by omega), readDigits_natStr b hb2 hb16]
  simp only [Option.map_some, ofDigits_replicate_zero, ofDigits_toDigits b hb2]

/-! ### the shapes the model produces -/

theorem spaces_add (a b : Nat) : spaces a ++ spaces b = spaces (a + b) := by
  simp [spaces, List.replicate_append_replicate]

theorem goPad_shape (minus : Bool) (wid : Option Nat) (body : Str) :
    ∃ a bb, goPad minus false wid body = spaces a ++ body ++ spaces bb := by
  cases wid with
  | none => exact ⟨0, 0, by simp [goPad, spaces]⟩
  | some w =>
    cases minus
    · exact ⟨w - body.length, 0, by simp [goPad, spaces]⟩
    · exact ⟨0, w - body.length, by simp [goPad, spaces]⟩

def SignOK (neg : Bool) (sign : Str) : Prop := (neg = true ∧ sign = ['-']) ∨ (neg = false ∧ (sign = [] ∨ sign = ['+']))

theorem signStr_shape (neg plus space : Bool) :
    ∃ j sign, signStr neg plus space = spaces j ++ sign ∧ SignOK neg sign := by
  cases neg
  · cases plus
    · cases space
      · exact ⟨0, [], by simp [signStr, spaces], Or.inr ⟨rfl, Or.inl rfl⟩⟩
      · exact ⟨1, [], by simp [signStr, spaces], Or.inr ⟨rfl, Or.inl rfl⟩⟩
    · exact ⟨0, ['+'], by simp [signStr, spaces], Or.inr ⟨rfl, Or.inr rfl⟩⟩
  · exact ⟨0, ['-'], by simp [signStr, spaces], Or.inl ⟨rfl, rfl⟩⟩

/-- what fmt's integer rendering looks like, whatever the flags -/
theorem goAbs_shape (g : GoSpec) (base : Nat) (upper : Bool) (neg : Bool) (ds0 : Str)
    (hv : verbBase g.verb = some (base, upper)) :
    ∃ a k bb sign pfx, goAbs g base upper neg ds0 = spaces a ++ sign ++ pfx ++ zeros k ++ ds0 ++ spaces bb ∧
      SignOK neg sign ∧ (pfx = [] ∨ (pfx = ['0', g.verb] ∧ (g.verb = 'x' ∨ g.verb = 'X' ∨ g.verb = 'b' ∨ g.verb = 'B'))) := by
  obtain ⟨j, sign, hsg, hsok⟩ := signStr_shape neg g.plus g.space
  -- the digits with the `#` prefix
  have hds : ∃ k pfx, (let ds := zeros (goPrec g neg - ds0.length) ++ ds0
      if g.sharp then
        if base = 8 then (if ds.head? = some '0' then ds else '0' :: ds)
        else if base = 16 then '0' :: (if upper then 'X' else 'x') :: ds
        else ds
      else ds) = pfx ++ zeros k ++ ds0 ∧
      (pfx = [] ∨ (pfx = ['0', g.verb] ∧ (g.verb = 'x' ∨ g.verb = 'X' ∨ g.verb = 'b' ∨ g.verb = 'B'))) := by
    simp only
    cases g.sharp
    · exact ⟨goPrec g neg - ds0.length, [], by simp, Or.inl rfl⟩
    · simp only [if_true]
      by_cases h8 : base = 8
      · rw [if_pos h8]
        by_cases hh : (zeros (goPrec g neg - ds0.length) ++ ds0).head? = some '0'
        · rw [if_pos hh]; exact ⟨goPrec g neg - ds0.length, [], by simp, Or.inl rfl⟩
        · rw [if_neg hh]
          refine ⟨goPrec g neg - ds0.length + 1, [], ?_, Or.inl rfl⟩
          simp [zeros, List.replicate_succ]
      · rw [if_neg h8]
        by_cases h16 : base = 16
        · rw [if_pos h16]
          unfold verbBase at hv
          by_cases hd : g.verb = 'd'
          · rw [if_pos hd] at hv; cases hv; omega
          · rw [if_neg hd] at hv
            by_cases hx : g.verb = 'x'
            · rw [if_pos hx] at hv; cases hv
              exact ⟨goPrec g neg - ds0.length, ['0', 'x'], by simp, Or.inr ⟨by rw [hx], Or.inl hx⟩⟩
            · rw [if_neg hx] at hv
              by_cases hX : g.verb = 'X'
              · rw [if_pos hX] at hv; cases hv
                exact ⟨goPrec g neg - ds0.length, ['0', 'X'], by simp, Or.inr ⟨by rw [hX], Or.inr (Or.inl hX)⟩⟩
              · rw [if_neg hX] at hv
                by_cases ho : g.verb = 'o'
                · rw [if_pos ho] at hv; cases hv; omega
                · rw [if_neg ho] at hv; cases hv
        · rw [if_neg h16]; exact ⟨goPrec g neg - ds0.length, [], by simp, Or.inl rfl⟩
  obtain ⟨k, pfx, hdseq, hpfx⟩ := hds
  unfold goAbs
  simp only at hdseq ⊢
  rw [hdseq, hsg]
  obtain ⟨a, bb, hpad⟩ := goPad_shape g.minus g.wid (spaces j ++ sign ++ (pfx ++ zeros k ++ ds0))
  refine ⟨a + j, k, bb, sign, pfx, ?_, hsok, hpfx⟩
  rw [hpad, ← spaces_add]
  simp [List.append_assoc]

/-- the sign flag of a Format record is absent, `+` or a blank -/
def PlusOK (f : Fmt) : Prop := f.plus = none ∨ f.plus = some '+' ∨ f.plus = some ' '

theorem pbbSign_shape (f : Fmt) (i : Int) (hp : f.letter ≠ 'p') (hplus : PlusOK f) :
    ∃ j sign, pbbSign f i = spaces j ++ sign ∧ SignOK (decide (i < 0)) sign := by
  unfold pbbSign
  rw [if_neg hp]
  by_cases hn : i < 0
  · rw [if_pos hn]; exact ⟨0, ['-'], by simp [spaces], Or.inl ⟨by simp [hn], rfl⟩⟩
  · rw [if_neg hn]
    rcases hplus with h | h | h <;> rw [h]
    · exact ⟨0, [], by simp [spaces], Or.inr ⟨by simp [hn], Or.inl rfl⟩⟩
    · exact ⟨0, ['+'], by simp [spaces], Or.inr ⟨by simp [hn], Or.inr rfl⟩⟩
    · exact ⟨1, [], by simp [spaces], Or.inr ⟨by simp [hn], Or.inl rfl⟩⟩

theorem intPbB_shape (f : Fmt) (i : Int) (hb : f.letter = 'b' ∨ f.letter = 'B') (hplus : PlusOK f) :
    ∃ a k bb sign pfx, intPbB f i = spaces a ++ sign ++ pfx ++ zeros k ++ natStr 2 false i.natAbs ++ spaces bb ∧
      SignOK (decide (i < 0)) sign ∧
      (pfx = [] ∨ (pfx = ['0', f.letter] ∧ (f.letter = 'x' ∨ f.letter = 'X' ∨ f.letter = 'b' ∨ f.letter = 'B'))) := by
  have hp : f.letter ≠ 'p' := by rcases hb with h | h <;> rw [h] <;> decide
  obtain ⟨j, sign, hsg, hsok⟩ := pbbSign_shape f i hp hplus
  have hpok : pbbPrefix f i = [] ∨ (pbbPrefix f i = ['0', f.letter] ∧ (f.letter = 'x' ∨ f.letter = 'X' ∨ f.letter = 'b' ∨ f.letter = 'B')) := by
    unfold pbbPrefix
    by_cases ha : (f.alt && decide (i ≠ 0)) = true
    · rw [if_pos ha]
      rcases hb with h | h
      · exact Or.inr ⟨by simp [h], by simp [h]⟩
      · exact Or.inr ⟨by simp [h], by simp [h]⟩
    · rw [if_neg ha]; exact Or.inl rfl
  have hds : pbbDigits f i = natStr 2 false i.natAbs := by
    unfold pbbDigits
    rcases hb with h | h <;> simp [h]
  unfold intPbB
  simp only [hds, if_neg hp]
  generalize hsp : f.width.getD 0 - ((pbbSign f i).length + (pbbPrefix f i).length + (natStr 2 false i.natAbs).length + pbbZeroPad f i) = sp
  rw [hsg]
  cases hl : f.left
  · refine ⟨sp + j, pbbZeroPad f i, 0, sign, pbbPrefix f i, ?_, hsok, hpok⟩
    simp [spaces, List.append_assoc, ← List.replicate_append_replicate]
  · refine ⟨j, pbbZeroPad f i, sp, sign, pbbPrefix f i, ?_, hsok, hpok⟩
    simp [spaces, List.append_assoc]

theorem int_of_natAbs (i : Int) : (if decide (i < 0) = true then -(i.natAbs : Int) else (i.natAbs : Int)) = i := by
  by_cases h : i < 0
  · simp [h]; omega
  · simp [h]; omega

theorem verbBase_radix (c : Char) (base : Nat) (upper : Bool) (h : verbBase c = some (base, upper)) :
    radixOf c = base ∧ 2 ≤ base ∧ base ≤ 16 := by
  unfold verbBase at h
  by_cases hd : c = 'd'
  · rw [if_pos hd] at h; cases h; subst hd; decide
  · rw [if_neg hd] at h
    by_cases hx : c = 'x'
    · rw [if_pos hx] at h; cases h; subst hx; decide
    · rw [if_neg hx] at h
      by_cases hX : c = 'X'
      · rw [if_pos hX] at h; cases h; subst hX; decide
      · rw [if_neg hX] at h
        by_cases ho : c = 'o'
        · rw [if_pos ho] at h; cases h; subst ho; decide
        · rw [if_neg ho] at h; cases h

/-- **radix renderings read back** (Go path): every `d x X o` rendering of fmt, whatever the flags, width and
    precision, except the empty rendering of 0 with precision 0 -/
theorem goInteger_radix_back (g : GoSpec) (i : Int) (base : Nat) (upper : Bool)
    (hv : verbBase g.verb = some (base, upper)) (hne : ¬ (i = 0 ∧ g.prec = some 0)) :
    readRadix g.verb (goInteger g base upper i) = some i := by
  obtain ⟨hr, hb2, hb16⟩ := verbBase_radix g.verb base upper hv
  unfold goInteger
  rw [if_neg (by intro h; exact hne ⟨by omega, h.1⟩)]
  obtain ⟨a, k, bb, sign, pfx, heq, hsok, hpfx⟩ := goAbs_shape g base upper (decide (i < 0)) (natStr base upper i.natAbs) hv
  rw [heq]
  have := readRadix_shape g.verb upper a k bb i.natAbs sign pfx (decide (i < 0)) (by rw [hr]; exact hb2) (by rw [hr]; exact hb16) hsok hpfx
  rw [hr] at this
  rw [this, int_of_natAbs]

/-- **radix renderings read back** (hand-written `b B` branch) -/
theorem intPbB_radix_back (f : Fmt) (i : Int) (hb : f.letter = 'b' ∨ f.letter = 'B') (hplus : PlusOK f) :
    readRadix f.letter (intPbB f i) = some i := by
  obtain ⟨a, k, bb, sign, pfx, heq, hsok, hpfx⟩ := intPbB_shape f i hb hplus
  have hr : radixOf f.letter = 2 := by rcases hb with h | h <;> rw [h] <;> decide
  rw [heq]
  have := readRadix_shape f.letter false a k bb i.natAbs sign pfx (decide (i < 0)) (by rw [hr]; omega) (by rw [hr]; omega) hsok hpfx
  rw [hr] at this
  rw [this, int_of_natAbs]

end Pcore.Format
