import Pcore.Proofs.LatAsg
set_option linter.unusedSimpArgs false
/-! The rule of `RuntimeType.IsAssignable` (runtimetype.go, types without a Go type): reflexive and transitive; what equal Runtime
    types, the generalisation and the common type of two Runtime types satisfy.  Used by the receiver-by-receiver proofs of C01–C04. -/
namespace Pcore.Lat
variable (cfg : Cfg) (sfh : Bool)

/-- the rule on its own -/
def rtAcc (rt nm : String) (pt : Option String) (rt' nm' : String) (pt' : Option String) : Bool :=
  if rt == "" then true else if rt != rt' then false else if nm == "" then true else
  (match pt with
   | some p => nm == nm' && pt' == some p
   | none => nm == nm')

theorem recv_runtime_eq (rt nm : String) (pt : Option String) (rt' nm' : String) (pt' : Option String) :
    asgRecv cfg sfh (.runtime rt nm pt) (.runtime rt' nm' pt') = rtAcc rt nm pt rt' nm' pt' := by
  unfold asgRecv rtAcc; rfl

theorem recv_runtime_other (rt nm : String) (pt : Option String) (b : Ty)
    (hb : match b with | .runtime _ _ _ => False | _ => True) : asgRecv cfg sfh (.runtime rt nm pt) b = false := by
  unfold asgRecv; cases b <;> simp only [] at hb ⊢

theorem rtAcc_refl (rt nm : String) (pt : Option String) : rtAcc rt nm pt rt nm pt = true := by
  unfold rtAcc; cases pt <;> simp

theorem rtAcc_trans {r1 n1 : String} {p1 : Option String} {r2 n2 : String} {p2 : Option String} {r3 n3 : String} {p3 : Option String}
    (h1 : rtAcc r1 n1 p1 r2 n2 p2 = true) (h2 : rtAcc r2 n2 p2 r3 n3 p3 = true) : rtAcc r1 n1 p1 r3 n3 p3 = true := by
  unfold rtAcc at *
  by_cases e1 : r1 = ""
  · simp [e1]
  · simp only [beq_iff_eq, e1, if_false, bne_iff_ne, ne_eq, ite_not] at h1 ⊢
    by_cases e12 : r1 = r2
    · subst e12
      simp only [if_true] at h1
      simp only [beq_iff_eq, e1, if_false, bne_iff_ne, ne_eq, ite_not] at h2
      by_cases e13 : r1 = r3
      · subst e13
        simp only [if_true] at h2 ⊢
        by_cases en : n1 = ""
        · simp [en]
        · simp only [en, if_false] at h1 ⊢
          cases p1 with
          | none =>
            simp only [beq_iff_eq] at h1 ⊢
            subst h1
            simp only [en, if_false] at h2
            cases p2 with
            | none => simpa using h2
            | some q => simp only [Bool.and_eq_true, beq_iff_eq] at h2; exact h2.1
          | some p =>
            simp only [Bool.and_eq_true, beq_iff_eq] at h1 ⊢
            obtain ⟨hn, hp⟩ := h1
            subst hn; subst hp
            simp only [en, if_false, Bool.and_eq_true, beq_iff_eq] at h2
            exact h2
      · simp [e13] at h2
    · simp [e12] at h1

/-- equal Runtime types accept each other -/
theorem rtAcc_of_eq {r n : String} {p : Option String} {r' n' : String} {p' : Option String}
    (h : (r == r' && n == n' && p == p') = true) : rtAcc r n p r' n' p' = true ∧ rtAcc r' n' p' r n p = true := by
  simp only [Bool.and_eq_true, beq_iff_eq] at h
  obtain ⟨⟨h1, h2⟩, h3⟩ := h
  subst h1; subst h2; subst h3
  exact ⟨rtAcc_refl _ _ _, rtAcc_refl _ _ _⟩

/-- the default Runtime accepts every Runtime type; `Runtime[rt]` every Runtime type of that runtime -/
theorem rtAcc_default (r n : String) (p : Option String) : rtAcc "" "" none r n p = true := by unfold rtAcc; rfl
theorem rtAcc_runtime (r n : String) (p : Option String) : rtAcc r "" none r n p = true := by
  unfold rtAcc; by_cases h : r = "" <;> simp [h]

end Pcore.Lat
