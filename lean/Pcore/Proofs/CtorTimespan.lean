import Pcore.Proofs.DispatchCtors
import Pcore.Model.CtorTimespan
/-!
The Timespan constructor (Model/CtorTimespan.lean): no fault arm is reachable; the named fields are the positional fields.
Core Lean only.
-/
namespace Pcore.Dispatch.Alpha

theorem asInt_of_inst (v : Val) (h : inst (.int none none) v = true) : ∃ n, asInt v = some n := by
  cases v <;> simp [inst] at h
  exact ⟨_, rfl⟩

theorem parseResult_no_fault (s : String) : parseResult s ≠ .fault := by
  unfold parseResult; split <;> simp

theorem timespan_no_fault (args : List Val) : ctorCall timespanCtor args ≠ .fault := by
  rcases ctorCall_cases timespanCtor args ⟨_, rfl⟩ with h | ⟨i, cr, hcr, hacc, hcall⟩
  · rw [h]; simp
  · rw [hcall]
    obtain ⟨⟨hreq, hmax, hargs⟩, _⟩ := hacc
    match i, hcr with
    | 0, hcr =>
      simp [timespanCtor] at hcr; subst hcr
      simp only [paramsOf, List.filterMap, BOp.param?] at hreq hargs
      have h0 := hreq 0 (.req, secondsTy) (by simp) rfl
      match args, h0 with
      | a0 :: rest, _ =>
        obtain ⟨p0, hp0, hi0⟩ := hargs 0 a0 (by simp)
        simp at hp0; subst hp0
        cases a0 <;> simp [secondsTy, inst, instAny] at hi0 <;> simp [timespanCtor]
    | 1, hcr =>
      simp [timespanCtor] at hcr; subst hcr
      simp only [paramsOf, List.filterMap, BOp.param?] at hreq hargs
      have h0 := hreq 0 (.req, .str 1 none) (by simp) rfl
      match args, h0 with
      | a0 :: rest, _ =>
        obtain ⟨p0, hp0, hi0⟩ := hargs 0 a0 (by simp)
        simp at hp0; subst hp0
        cases a0 <;> simp [inst] at hi0
        match rest with
        | [] => simpa [timespanCtor] using parseResult_no_fault _
        | _ :: _ => simp [timespanCtor]
    | 2, hcr =>
      simp [timespanCtor] at hcr; subst hcr
      simp only [paramsOf, List.filterMap, BOp.param?] at hreq hargs
      have h3 := hreq 3 (.req, .int none none) (by simp) rfl
      match args, h3 with
      | d :: h :: m :: s :: rest, _ =>
        have hint : ∀ (j : Nat) (v : Val), (d :: h :: m :: s :: rest)[j]? = some v → ∃ n, asInt v = some n := by
          intro j v hv
          obtain ⟨p, hp, hi⟩ := hargs j v hv
          have : p.2 = .int none none := by
            have hj : min j 6 = 0 ∨ min j 6 = 1 ∨ min j 6 = 2 ∨ min j 6 = 3 ∨ min j 6 = 4 ∨ min j 6 = 5 ∨ min j 6 = 6 := by omega
            simp at hp
            rcases hj with hj | hj | hj | hj | hj | hj | hj <;> rw [hj] at hp <;> simp at hp <;> rw [← hp]
          rw [this] at hi
          exact asInt_of_inst v hi
        obtain ⟨d', hd⟩ := hint 0 d rfl
        obtain ⟨h', hh⟩ := hint 1 h rfl
        obtain ⟨m', hm⟩ := hint 2 m rfl
        obtain ⟨s', hs⟩ := hint 3 s rfl
        simp only [timespanCtor, hd, hh, hm, hs]
        match rest with
        | [] => simp
        | [a] =>
          obtain ⟨a', ha⟩ := hint 4 a rfl
          simp [ha]
        | [a, b] =>
          obtain ⟨a', ha⟩ := hint 4 a rfl
          obtain ⟨b', hb⟩ := hint 5 b rfl
          simp [ha, hb]
        | a :: b :: c :: more =>
          obtain ⟨a', ha⟩ := hint 4 a rfl
          obtain ⟨b', hb⟩ := hint 5 b rfl
          obtain ⟨c', hc⟩ := hint 6 c rfl
          simp [ha, hb, hc]
    | 3, hcr =>
      simp [timespanCtor] at hcr; subst hcr
      simp only [paramsOf, List.filterMap, BOp.param?] at hreq hargs
      have h0 := hreq 0 (.req, spanStringHash) (by simp) rfl
      match args, h0 with
      | a0 :: rest, _ =>
        obtain ⟨p0, hp0, hi0⟩ := hargs 0 a0 (by simp)
        simp at hp0; subst hp0
        obtain ⟨es, rfl, -, hm⟩ := inst_struct _ (by decide) a0 hi0
        simp only [timespanCtor]
        cases hf : lookupKey "format" es with
        | some _ => simp
        | none =>
          simp only
          rcases hm ("string", false, .str 1 none) (by simp) with ⟨x, hx, hix⟩ | ⟨h, _⟩
          · cases x <;> simp [inst] at hix
            simpa [hx] using parseResult_no_fault _
          · cases h
    | 4, hcr =>
      simp [timespanCtor] at hcr; subst hcr
      simp only [paramsOf, List.filterMap, BOp.param?] at hreq hargs
      have h0 := hreq 0 (.req, spanFieldsHash) (by simp) rfl
      match args, h0 with
      | a0 :: rest, _ =>
        obtain ⟨p0, hp0, hi0⟩ := hargs 0 a0 (by simp)
        simp at hp0; subst hp0
        obtain ⟨es, rfl, -, -⟩ := inst_struct _ (by decide) a0 hi0
        simp [timespanCtor]
    | n + 5, hcr => simp [timespanCtor] at hcr

/-- int64 arithmetic on a number that fits is exact -/
theorem wrap64_id (x : Int) (h1 : F64.minInt ≤ x) (h2 : x ≤ F64.maxInt) : F64.wrap64 x = x := by
  unfold F64.wrap64
  simp [F64.minInt, F64.maxInt] at h1 h2
  omega

/-- the named fields are the positional fields -/
theorem fieldsOfHash_eq (neg : Bool) (d h m s ms us ns : Int) :
    fieldsOfHash [(.str "negative", .bool neg), (.str "days", .int d), (.str "hours", .int h), (.str "minutes", .int m),
      (.str "seconds", .int s), (.str "milliseconds", .int ms), (.str "microseconds", .int us), (.str "nanoseconds", .int ns)] =
    fromFields neg d h m s ms us ns := by
  simp [fieldsOfHash, intArg, boolArg, lookupKey]

theorem run_timespan_int (n : Int) :
    run inst binst timespanCtor.creators [.int n] (none : Option Blk) = .called (.ran 0) := by
  simp [run, timespanCtor, buildAll, buildOne, steps, step, finish, Builder.init, resolveAll, createDispatch, leMax, ltMax, succMax,
    call, callFrom, callableWith, blockOK, tupleInst, sizeOK, instLoop, secondsTy, inst, instAny, inRange]

theorem run_timespan_fields (d h m s ms us ns : Int) :
    run inst binst timespanCtor.creators [.int d, .int h, .int m, .int s, .int ms, .int us, .int ns] (none : Option Blk) =
      .called (.ran 2) := by
  simp [run, timespanCtor, buildAll, buildOne, steps, step, finish, Builder.init, resolveAll, createDispatch, leMax, ltMax, succMax,
    call, callFrom, callableWith, blockOK, tupleInst, sizeOK, instLoop, secondsTy, inst, instAny, inRange]

def fieldsHash (neg : Bool) (d h m s ms us ns : Int) : Val :=
  .hash [(.str "negative", .bool neg), (.str "days", .int d), (.str "hours", .int h), (.str "minutes", .int m),
    (.str "seconds", .int s), (.str "milliseconds", .int ms), (.str "microseconds", .int us), (.str "nanoseconds", .int ns)]

theorem run_timespan_named (neg : Bool) (d h m s ms us ns : Int) :
    run inst binst timespanCtor.creators [fieldsHash neg d h m s ms us ns] (none : Option Blk) = .called (.ran 4) := by
  simp [fieldsHash, run, timespanCtor, buildAll, buildOne, steps, step, finish, Builder.init, resolveAll, createDispatch, leMax,
    ltMax, succMax, call, callFrom, callableWith, blockOK, tupleInst, sizeOK, instLoop, secondsTy, inst, instAny, spanStringHash,
    spanFieldsHash, instMembers, lookupKey, inRange]

/-- `Timespan.new(n)` is `n` seconds, in int64 arithmetic -/
theorem timespanCtor_seconds (n : Int) :
    ctorCall timespanCtor [.int n] = .value (.timespan (F64.wrap64 (n * 1000000000))) := by
  unfold ctorCall; rw [run_timespan_int]; rfl

/-- `Timespan.new(d, h, m, s, ms, us, ns)` and `Timespan.new({negative => …, days => d, …})` are `fromFields` -/
theorem timespanCtor_fields (neg : Bool) (d h m s ms us ns : Int) :
    ctorCall timespanCtor [.int d, .int h, .int m, .int s, .int ms, .int us, .int ns] =
      .value (.timespan (fromFields false d h m s ms us ns)) ∧
    ctorCall timespanCtor [fieldsHash neg d h m s ms us ns] = .value (.timespan (fromFields neg d h m s ms us ns)) := by
  constructor
  · unfold ctorCall; rw [run_timespan_fields]; simp [timespanCtor, asInt]
  · unfold ctorCall; rw [run_timespan_named]
    simp only [timespanCtor, fieldsHash]
    rw [fieldsOfHash_eq]

end Pcore.Dispatch.Alpha
