import Pcore.Model.ValueEq
import Mathlib.Data.List.Perm.Subperm
import Mathlib.Data.List.Nodup
/-! Helper lemmas for C07: `attributeSlice.Equals` (object instances).  Both of its branches — by position for the same type, by
    attribute name across two types without `equality_include_type` — say the same thing about the EQUALITY VIEW of the two
    instances (the participating attributes as name/value pairs): every pair of the receiver has an Equal partner of the same name
    in the argument. -/
namespace Pcore.ValueEq

def distinctN : List Nat → Bool
  | [] => true
  | x :: xs => !xs.contains x && distinctN xs

def distinctBy : List Bytes → Bool
  | [] => true
  | x :: xs => !xs.contains x && distinctBy xs

theorem distinctN_nodup : ∀ {l : List Nat}, distinctN l = true → l.Nodup
  | [], _ => List.nodup_nil
  | x :: xs, h => by
      simp only [distinctN, Bool.and_eq_true, Bool.not_eq_true', List.contains_eq_mem, decide_eq_false_iff_not] at h
      exact List.nodup_cons.mpr ⟨h.1, distinctN_nodup h.2⟩

theorem distinctBy_nodup : ∀ {l : List Bytes}, distinctBy l = true → l.Nodup
  | [], _ => List.nodup_nil
  | x :: xs, h => by
      simp only [distinctBy, Bool.and_eq_true, Bool.not_eq_true', List.contains_eq_mem, decide_eq_false_iff_not] at h
      exact List.nodup_cons.mpr ⟨h.1, distinctBy_nodup h.2⟩

/-- an instance as `px.New` makes it: attribute names are unique, the equality positions are distinct positions of the type, one
    value per attribute -/
def objWF (t : OType) (vs : List Val) : Bool :=
  distinctBy t.names && distinctN t.eqPos && t.eqPos.all (· < t.names.length) && vs.length == t.names.length

structure ObjWF (t : OType) (vs : List Val) : Prop where
  names : t.names.Nodup
  pos : t.eqPos.Nodup
  range : ∀ i ∈ t.eqPos, i < t.names.length
  len : vs.length = t.names.length

theorem objWF_spec {t : OType} {vs : List Val} (h : objWF t vs = true) : ObjWF t vs := by
  simp only [objWF, Bool.and_eq_true, List.all_eq_true, decide_eq_true_eq, beq_iff_eq] at h
  exact ⟨distinctBy_nodup h.1.1.1, distinctN_nodup h.1.1.2, h.1.2, h.2⟩

/-! ### `posOf` -/

theorem posOf_some : ∀ {ns : List Bytes} {n : Bytes} {j : Nat}, posOf ns n = some j → ns[j]? = some n
  | [], _, _, h => by simp [posOf] at h
  | m :: ms, n, j, h => by
      simp only [posOf] at h
      split at h
      · rename_i hm
        simp only [Option.some.injEq] at h
        subst h
        simp only [beq_iff_eq] at hm
        simp [hm]
      · cases hp : posOf ms n with
        | none => rw [hp] at h; simp at h
        | some j' =>
          rw [hp] at h
          simp only [Option.map_some, Option.some.injEq] at h
          subst h
          simpa using posOf_some hp

theorem posOf_of_nodup : ∀ {ns : List Bytes} {n : Bytes} {i : Nat}, ns.Nodup → ns[i]? = some n → posOf ns n = some i
  | [], _, _, _, h => by simp at h
  | m :: ms, n, i, hd, h => by
      rw [List.nodup_cons] at hd
      cases i with
      | zero =>
        simp only [List.getElem?_cons_zero, Option.some.injEq] at h
        simp [posOf, h]
      | succ i =>
        simp only [List.getElem?_cons_succ] at h
        have hm : n ∈ ms := List.mem_of_getElem? h
        have : (m == n) = false := by
          simp only [beq_eq_false_iff_ne]
          intro e; subst e; exact hd.1 hm
        simp [posOf, this, posOf_of_nodup hd.2 h]

theorem getElem?_inj_of_nodup {ns : List Bytes} (hd : ns.Nodup) {i j : Nat} {n : Bytes} (hi : ns[i]? = some n) (hj : ns[j]? = some n) :
    i = j := by
  have a := posOf_of_nodup hd hi
  have b := posOf_of_nodup hd hj
  rw [a] at b
  exact Option.some.inj b

/-! ### `veqSel` against a list computed position by position -/

/-- what one attribute value must satisfy -/
def selOk (v : Val) : Sel → Prop
  | .skip => True
  | .fail => False
  | .cmp w => veq v w = true

theorem veqSel_range (f : Nat → Sel) : ∀ (vs : List Val) (k : Nat),
    veqSel vs ((List.range' k vs.length).map f) = true ↔ ∀ i v, vs[i]? = some v → selOk v (f (k + i))
  | [], k => by simp [veqSel]
  | v :: vs, k => by
      simp only [List.length_cons, List.range'_succ, List.map_cons, veqSel, Bool.and_eq_true, veqSel_range f vs (k + 1)]
      constructor
      · rintro ⟨h0, hr⟩ i w hi
        cases i with
        | zero =>
          simp only [List.getElem?_cons_zero, Option.some.injEq] at hi
          subst hi
          simp only [Nat.add_zero]
          cases hf : f k with
          | skip => trivial
          | fail => rw [hf] at h0; cases h0
          | cmp w' => rw [hf] at h0; exact h0
        | succ i =>
          simp only [List.getElem?_cons_succ] at hi
          have := hr i w hi
          rwa [show k + 1 + i = k + (i + 1) by omega] at this
      · intro h
        refine ⟨?_, fun i w hi => ?_⟩
        · have := h 0 v (by simp)
          simp only [Nat.add_zero] at this
          cases hf : f k with
          | skip => rfl
          | fail => rw [hf] at this; exact absurd this id
          | cmp w' => rw [hf] at this; exact this
        · have := h (i + 1) w (by simpa using hi)
          rwa [show k + (i + 1) = k + 1 + i by omega] at this

theorem veq_obj_iff (t t' : OType) (vs ws : List Val) :
    veq (.obj t vs) (.obj t' ws) = true ↔ objPre t t' = true ∧ ∀ i v, vs[i]? = some v → selOk v (objSelAt t t' ws i) := by
  simp only [veq, Bool.and_eq_true, objSel, List.range_eq_range']
  rw [veqSel_range]
  simp

/-! ### the equality view -/

/-- the participating attributes as name / value pairs -/
def eqView (t : OType) (vs : List Val) : List (Bytes × Val) :=
  t.eqPos.filterMap fun i =>
    match t.names[i]?, vs[i]? with
    | some n, some v => some (n, v)
    | _, _ => none

theorem mem_eqView {t : OType} {vs : List Val} {n : Bytes} {v : Val} :
    (n, v) ∈ eqView t vs ↔ ∃ i ∈ t.eqPos, t.names[i]? = some n ∧ vs[i]? = some v := by
  simp only [eqView, List.mem_filterMap]
  constructor
  · rintro ⟨i, hi, h⟩
    cases hn : t.names[i]? with
    | none => rw [hn] at h; simp at h
    | some n' =>
      cases hv : vs[i]? with
      | none => rw [hn, hv] at h; simp at h
      | some v' =>
        rw [hn, hv] at h
        simp only [Option.some.injEq, Prod.mk.injEq] at h
        exact ⟨i, hi, h.1 ▸ hn, h.2 ▸ hv⟩
  · rintro ⟨i, hi, hn, hv⟩
    exact ⟨i, hi, by rw [hn, hv]⟩

/-- the receiver's view is matched inside the argument's: every pair has an Equal partner of the same name -/
def viewLe (a b : List (Bytes × Val)) : Prop := ∀ n v, (n, v) ∈ a → ∃ w, (n, w) ∈ b ∧ veq v w = true

theorem objSelAt_skip {t t' : OType} {ws : List Val} {i : Nat} (h : i ∉ t.eqPos) : objSelAt t t' ws i = .skip := by
  unfold objSelAt
  simp [h]

theorem objSelAt_same {t : OType} {ws : List Val} {i : Nat} (h : i ∈ t.eqPos) :
    objSelAt t t ws i = (match ws[i]? with | some w => .cmp w | none => .fail) := by
  unfold objSelAt
  cases hw : ws[i]? <;> simp [h, hw]

theorem objSelAt_diff {t t' : OType} {ws : List Val} {i : Nat} (h : i ∈ t.eqPos) (e : t ≠ t') :
    objSelAt t t' ws i = (match t.names[i]? with
      | none => .fail
      | some n =>
        match posOf t'.names n with
        | none => .fail
        | some j => if t'.eqPos.contains j then (match ws[j]? with | some w => .cmp w | none => .fail) else .fail) := by
  unfold objSelAt
  cases hn : t.names[i]? with
  | none => simp [h, e, hn]
  | some n =>
    cases hp : posOf t'.names n with
    | none => simp [h, e, hn, hp]
    | some j => by_cases hj : j ∈ t'.eqPos <;> cases hw : ws[j]? <;> simp [h, e, hn, hp, hj, hw]

/-- `attributeSlice.Equals` of two well-formed instances, both branches at once -/
theorem veq_obj_view {t t' : OType} {vs ws : List Val} (hx : ObjWF t vs) (hy : ObjWF t' ws) :
    veq (.obj t vs) (.obj t' ws) = true ↔ objPre t t' = true ∧ viewLe (eqView t vs) (eqView t' ws) := by
  rw [veq_obj_iff]
  apply and_congr_right
  intro _
  constructor
  · intro h n v hm
    obtain ⟨i, hi, hn, hv⟩ := mem_eqView.mp hm
    have := h i v hv
    by_cases e : t = t'
    · subst e
      rw [objSelAt_same hi] at this
      cases hw : ws[i]? with
      | none => rw [hw] at this; exact absurd this (by simp [selOk])
      | some w =>
        rw [hw] at this
        exact ⟨w, mem_eqView.mpr ⟨i, hi, hn, hw⟩, this⟩
    · rw [objSelAt_diff hi e, hn] at this
      simp only at this
      cases hp : posOf t'.names n with
      | none => rw [hp] at this; exact absurd this (by simp [selOk])
      | some j =>
        rw [hp] at this
        simp only at this
        by_cases hj : t'.eqPos.contains j = true
        · simp only [hj, if_true] at this
          cases hw : ws[j]? with
          | none => rw [hw] at this; exact absurd this (by simp [selOk])
          | some w =>
            rw [hw] at this
            exact ⟨w, mem_eqView.mpr ⟨j, by simpa using hj, posOf_some hp, hw⟩, this⟩
        · simp only [hj, Bool.false_eq_true, if_false] at this
          exact absurd this (by simp [selOk])
  · intro h i v hv
    by_cases hi : i ∈ t.eqPos
    swap
    · rw [objSelAt_skip hi]; trivial
    · have hlt := hx.range i hi
      have hn : t.names[i]? = some t.names[i] := List.getElem?_eq_getElem hlt
      obtain ⟨w, hm, hvw⟩ := h _ v (mem_eqView.mpr ⟨i, hi, hn, hv⟩)
      obtain ⟨j, hj, hnj, hwj⟩ := mem_eqView.mp hm
      by_cases e : t = t'
      · subst e
        have : j = i := getElem?_inj_of_nodup hx.names hnj hn
        subst this
        rw [objSelAt_same hi, hwj]
        exact hvw
      · rw [objSelAt_diff hi e, hn]
        simp only [posOf_of_nodup hy.names hnj]
        have hjc : t'.eqPos.contains j = true := by simpa using hj
        simp only [hjc, if_true, hwj]
        exact hvw

/-! ### the view of a well-formed instance: distinct names, one pair per equality position -/

theorem eqView_names_nodup {t : OType} {vs : List Val} (hx : ObjWF t vs) : ((eqView t vs).map (·.1)).Nodup := by
  -- the names are the names at the (distinct) equality positions
  have key : ∀ (ps : List Nat), ps.Nodup → (∀ i ∈ ps, i < t.names.length) →
      (((ps.filterMap fun i => match t.names[i]?, vs[i]? with | some n, some v => some (n, v) | _, _ => none).map (·.1)).Nodup ∧
       ∀ n, n ∈ ((ps.filterMap fun i => match t.names[i]?, vs[i]? with | some n, some v => some (n, v) | _, _ => none).map (·.1)) →
         ∃ i ∈ ps, t.names[i]? = some n) := by
    intro ps
    induction ps with
    | nil => intro _ _; simp
    | cons p ps ih =>
      intro hd hr
      rw [List.nodup_cons] at hd
      obtain ⟨ih1, ih2⟩ := ih hd.2 (fun i hi => hr i (List.mem_cons_of_mem _ hi))
      have hp := hr p List.mem_cons_self
      have hn : t.names[p]? = some t.names[p] := List.getElem?_eq_getElem hp
      have hpv : p < vs.length := by rw [hx.len]; exact hp
      have hv : vs[p]? = some (vs[p]'hpv) := List.getElem?_eq_getElem hpv
      simp only [List.filterMap_cons, hn, hv, List.map_cons, List.nodup_cons, List.mem_cons]
      refine ⟨⟨?_, ih1⟩, ?_⟩
      · intro hm
        obtain ⟨i, hi, hni⟩ := ih2 _ hm
        have : i = p := getElem?_inj_of_nodup hx.names hni hn
        subst this
        exact hd.1 hi
      · rintro n (rfl | hm)
        · exact ⟨p, Or.inl rfl, hn⟩
        · obtain ⟨i, hi, hni⟩ := ih2 n hm
          exact ⟨i, Or.inr hi, hni⟩
  exact (key t.eqPos hx.pos hx.range).1

theorem eqView_length {t : OType} {vs : List Val} (hx : ObjWF t vs) : (eqView t vs).length = t.eqPos.length := by
  have key : ∀ (ps : List Nat), (∀ i ∈ ps, i < t.names.length) →
      (ps.filterMap fun i => match t.names[i]?, vs[i]? with | some n, some v => some (n, v) | _, _ => none).length = ps.length := by
    intro ps
    induction ps with
    | nil => intro _; rfl
    | cons p ps ih =>
      intro hr
      have hp := hr p List.mem_cons_self
      have hn : t.names[p]? = some t.names[p] := List.getElem?_eq_getElem hp
      have hpv : p < vs.length := by rw [hx.len]; exact hp
      have hv : vs[p]? = some (vs[p]'hpv) := List.getElem?_eq_getElem hpv
      simp [List.filterMap_cons, hn, hv, ih (fun i hi => hr i (List.mem_cons_of_mem _ hi))]
  exact key t.eqPos hx.range

/-- in a view with distinct names a name has one value -/
theorem view_unique {a : List (Bytes × Val)} (hd : (a.map (·.1)).Nodup) {n : Bytes} {v w : Val} (hv : (n, v) ∈ a) (hw : (n, w) ∈ a) :
    v = w := by
  induction a with
  | nil => cases hv
  | cons p a ih =>
    simp only [List.map_cons, List.nodup_cons] at hd
    rcases List.mem_cons.mp hv with e1 | h1 <;> rcases List.mem_cons.mp hw with e2 | h2
    · rw [← e1] at e2; exact ((Prod.mk.inj e2).2).symm
    · exact absurd (List.mem_map.mpr ⟨(n, w), h2, by rw [← e1]⟩) hd.1
    · exact absurd (List.mem_map.mpr ⟨(n, v), h1, by rw [← e2]⟩) hd.1
    · exact ih hd.2 h1 h2

/-- the counting argument: between two views of the same size with distinct names, "every pair of `a` has a partner in `b`"
    reverses (given that `veq` on the values involved can be turned around) -/
theorem viewLe_symm {a b : List (Bytes × Val)} (ha : (a.map (·.1)).Nodup) (hb : (b.map (·.1)).Nodup) (hl : a.length = b.length)
    (sw : ∀ n v w, (n, v) ∈ a → (n, w) ∈ b → veq v w = true → veq w v = true) (h : viewLe a b) : viewLe b a := by
  have sub : a.map (·.1) ⊆ b.map (·.1) := by
    intro n hn
    obtain ⟨⟨n', v⟩, hm, rfl⟩ := List.mem_map.mp hn
    obtain ⟨w, hw, _⟩ := h n' v hm
    exact List.mem_map.mpr ⟨(n', w), hw, rfl⟩
  have perm : (a.map (·.1)).Perm (b.map (·.1)) :=
    (List.subperm_of_subset ha sub).perm_of_length_le (by simp [hl])
  intro n w hw
  have : n ∈ a.map (·.1) := perm.symm.subset (List.mem_map.mpr ⟨(n, w), hw, rfl⟩)
  obtain ⟨⟨n', v⟩, hm, e⟩ := List.mem_map.mp this
  simp only at e
  subst e
  obtain ⟨w', hw', hvw⟩ := h n' v hm
  have : w' = w := view_unique hb hw' hw
  subst this
  exact ⟨v, hm, sw n' v w' hm hw' hvw⟩

theorem objPre_symm (t t' : OType) : objPre t t' = objPre t' t := by
  unfold objPre
  by_cases e : t = t'
  · subst e; rfl
  · have h1 : (t == t') = false := by simpa using e
    have h2 : (t' == t) = false := by simpa using (fun h => e h.symm : ¬ t' = t)
    have hc : (t.eqPos.length == t'.eqPos.length) = (t'.eqPos.length == t.eqPos.length) := by
      cases h : (t.eqPos.length == t'.eqPos.length) <;> cases h' : (t'.eqPos.length == t.eqPos.length) <;> simp_all
    simp only [h1, h2, Bool.false_or, hc]
    cases t.incl <;> cases t'.incl <;> rfl

theorem objPre_trans {t t' t'' : OType} (h1 : objPre t t' = true) (h2 : objPre t' t'' = true) : objPre t t'' = true := by
  unfold objPre at *
  by_cases e : t = t'
  · subst e; exact h2
  · by_cases e' : t' = t''
    · subst e'; exact h1
    · have b1 : (t == t') = false := by simpa using e
      have b2 : (t' == t'') = false := by simpa using e'
      simp only [b1, b2, Bool.false_or, Bool.and_eq_true, Bool.not_eq_true', beq_iff_eq] at h1 h2
      simp only [Bool.or_eq_true, Bool.and_eq_true, Bool.not_eq_true', beq_iff_eq]
      exact Or.inr ⟨⟨h1.1.1, h2.1.2⟩, h1.2.trans h2.2⟩

theorem objPre_length {t t' : OType} (h : objPre t t' = true) : t.eqPos.length = t'.eqPos.length := by
  unfold objPre at h
  by_cases e : t = t'
  · subst e; rfl
  · have b1 : (t == t') = false := by simpa using e
    simp only [b1, Bool.false_or, Bool.and_eq_true, beq_iff_eq] at h
    exact h.2

/-! ### transitivity, attribute by attribute (the third operand need not be well-formed) -/

/-- what `selOk` says at an equality position -/
theorem selOk_inv {t t' : OType} {ws : List Val} {i : Nat} {v : Val} (hi : i ∈ t.eqPos) (hlt : i < t.names.length)
    (h : selOk v (objSelAt t t' ws i)) :
    ∃ j w, ws[j]? = some w ∧ veq v w = true ∧
      ((t = t' ∧ j = i) ∨ (t ≠ t' ∧ posOf t'.names t.names[i] = some j ∧ j ∈ t'.eqPos)) := by
  have hn : t.names[i]? = some t.names[i] := List.getElem?_eq_getElem hlt
  by_cases e : t = t'
  · subst e
    rw [objSelAt_same hi] at h
    cases hw : ws[i]? with
    | none => rw [hw] at h; exact absurd h (by simp [selOk])
    | some w => rw [hw] at h; exact ⟨i, w, hw, h, Or.inl ⟨rfl, rfl⟩⟩
  · rw [objSelAt_diff hi e, hn] at h
    simp only at h
    cases hp : posOf t'.names t.names[i] with
    | none => rw [hp] at h; exact absurd h (by simp [selOk])
    | some j =>
      rw [hp] at h
      simp only at h
      by_cases hj : t'.eqPos.contains j = true
      · simp only [hj, if_true] at h
        cases hw : ws[j]? with
        | none => rw [hw] at h; exact absurd h (by simp [selOk])
        | some w => rw [hw] at h; exact ⟨j, w, hw, h, Or.inr ⟨e, rfl, by simpa using hj⟩⟩
      · simp only [hj, Bool.false_eq_true, if_false] at h
        exact absurd h (by simp [selOk])

theorem selOk_intro_same {t : OType} {ws : List Val} {i : Nat} {v w : Val} (hi : i ∈ t.eqPos) (hw : ws[i]? = some w)
    (h : veq v w = true) : selOk v (objSelAt t t ws i) := by
  rw [objSelAt_same hi, hw]; exact h

theorem selOk_intro_diff {t t' : OType} {ws : List Val} {i j : Nat} {v w : Val} (hi : i ∈ t.eqPos) (hlt : i < t.names.length)
    (e : t ≠ t') (hp : posOf t'.names t.names[i] = some j) (hj : j ∈ t'.eqPos) (hw : ws[j]? = some w) (h : veq v w = true) :
    selOk v (objSelAt t t' ws i) := by
  have hn : t.names[i]? = some t.names[i] := List.getElem?_eq_getElem hlt
  have hjc : t'.eqPos.contains j = true := by simpa using hj
  rw [objSelAt_diff hi e, hn]
  simp only [hp, hjc, if_true, hw]
  exact h

/-- `attributeSlice.Equals` is transitive, given that `Equals` of the attribute values is -/
theorem veq_obj_trans {t t' t'' : OType} {vs ws us : List Val} (hx : ObjWF t vs) (hy : ObjWF t' ws)
    (tr : ∀ v ∈ vs, ∀ w u, w ∈ ws → veq v w = true → veq w u = true → veq v u = true)
    (h1 : veq (.obj t vs) (.obj t' ws) = true) (h2 : veq (.obj t' ws) (.obj t'' us) = true) :
    veq (.obj t vs) (.obj t'' us) = true := by
  rw [veq_obj_iff] at h1 h2 ⊢
  refine ⟨objPre_trans h1.1 h2.1, fun i v hv => ?_⟩
  by_cases hi : i ∈ t.eqPos
  swap
  · rw [objSelAt_skip hi]; trivial
  have hlt := hx.range i hi
  obtain ⟨j, w, hw, hvw, hc1⟩ := selOk_inv hi hlt (h1.2 i v hv)
  have hvm : v ∈ vs := List.mem_of_getElem? hv
  have hwm : w ∈ ws := List.mem_of_getElem? hw
  -- `j` is an equality position of the middle operand
  have hj : j ∈ t'.eqPos := by
    rcases hc1 with ⟨e, rfl⟩ | ⟨_, _, hj⟩
    · subst e; exact hi
    · exact hj
  have hjlt := hy.range j hj
  obtain ⟨k, u, hu, hwu, hc2⟩ := selOk_inv hj hjlt (h2.2 j w hw)
  have hvu := tr v hvm w u hwm hvw hwu
  -- the name of the middle attribute is the name of the first
  have hname : t'.names[j] = t.names[i] := by
    rcases hc1 with ⟨e, rfl⟩ | ⟨_, hp, _⟩
    · subst e; rfl
    · have := posOf_some hp
      rw [List.getElem?_eq_getElem hjlt] at this
      exact Option.some.inj this
  by_cases e13 : t = t''
  · subst e13
    -- back in the first type: the position found must be `i` (names are unique)
    have hk : k = i := by
      rcases hc2 with ⟨e, rfl⟩ | ⟨_, hp, _⟩
      · subst e
        rcases hc1 with ⟨_, rfl⟩ | ⟨e', _, _⟩
        · rfl
        · exact absurd rfl e'
      · rw [hname] at hp
        have := posOf_of_nodup hx.names (List.getElem?_eq_getElem hlt)
        rw [this] at hp
        exact (Option.some.inj hp).symm
    subst hk
    exact selOk_intro_same hi hu hvu
  · -- the first and the third type differ: by name
    have hp : posOf t''.names t.names[i] = some k ∧ k ∈ t''.eqPos := by
      rcases hc2 with ⟨e, rfl⟩ | ⟨_, hp, hk⟩
      · subst e
        rcases hc1 with ⟨e', _⟩ | ⟨_, hp, hj'⟩
        · exact absurd e' e13
        · exact ⟨hp, hj'⟩
      · rw [hname] at hp
        exact ⟨hp, hk⟩
    exact selOk_intro_diff hi hlt e13 hp.1 hp.2 hu hvu

end Pcore.ValueEq
