import Pcore.Proofs.Json
/-! `read (ref1 e) = some e` — the reader inverts the reference printer (helper lemmas for C11). -/
namespace Pcore.Json

mutual
def need : Ev → Nat
  | .sc _ => 1 | .ref _ => 1
  | .arr es => 1 + needs es
  | .hsh es => 1 + needs es
def needs : List Ev → Nat
  | [] => 0 | e :: es => 1 + need e + needs es
end

theorem ref1_head (e : Ev) : ∃ t ts, ref1 e = t :: ts ∧ t ≠ .rb ∧ t ≠ .rc := by
  cases e <;> simp [ref1, refToks]

theorem isPrefKey_str (s : String) : isPrefKey (.sc (.str s)) = isPrefEv (.sc (.str s)) := rfl

mutual
theorem readVal_ok : ∀ (e : Ev) (rest : List Tok) (fuel : Nat), WF e = true → NoPref e = true →
    need e ≤ fuel → readVal fuel (ref1 e ++ rest) = some (e, rest)
  | .sc s, rest, fuel, _, _, hf => by
      obtain ⟨f, rfl⟩ : ∃ f, fuel = f + 1 := ⟨fuel - 1, by simp [need] at hf; omega⟩
      simp [ref1, readVal]
  | .ref n, rest, fuel, _, _, hf => by
      obtain ⟨f, rfl⟩ : ∃ f, fuel = f + 1 := ⟨fuel - 1, by simp [need] at hf; omega⟩
      simp [ref1, refToks, readVal, isPrefKey]
  | .arr [], rest, fuel, _, _, hf => by
      obtain ⟨f, rfl⟩ : ∃ f, fuel = f + 1 := ⟨fuel - 1, by simp [need] at hf; omega⟩
      simp [ref1, refs, readVal]
  | .arr (e :: es), rest, fuel, hw, hp, hf => by
      obtain ⟨f, rfl⟩ : ∃ f, fuel = f + 1 := ⟨fuel - 1, by simp [need] at hf; omega⟩
      have hw' : WF e = true ∧ WFs es = true := by simpa [WF, WFs] using hw
      have hp' : NoPref e = true ∧ NoPrefs es = true := by simpa [NoPref, NoPrefs] using hp
      have hf' : 1 + need e + needs es ≤ f := by simp [need, needs] at hf; omega
      have ih := readElems_ok e es rest f hw'.1 hw'.2 hp'.1 hp'.2 hf'
      obtain ⟨t, ts, ht, hne, _⟩ := ref1_head e
      simp only [ref1, refs, sepOf, succOf, List.nil_append, List.cons_append, List.append_assoc] at ih ⊢
      rw [ht] at ih ⊢
      simp only [List.cons_append] at ih ⊢
      cases t <;> simp_all [readVal]
  | .hsh [], rest, fuel, _, _, hf => by
      obtain ⟨f, rfl⟩ : ∃ f, fuel = f + 1 := ⟨fuel - 1, by simp [need] at hf; omega⟩
      simp [ref1, refs, readVal]
  | .hsh [_], _, _, hw, _, _ => by simp [WF, WFkv] at hw
  | .hsh [k, v], rest, fuel, hw, hp, hf => by
      obtain ⟨f, rfl⟩ : ∃ f, fuel = f + 1 := ⟨fuel - 1, by simp [need] at hf; omega⟩
      have hw' : isStrKey k = true ∧ WF v = true := by simpa [WF, WFkv] using hw
      have hp' : isPrefEv k = false ∧ NoPref k = true ∧ NoPref v = true := by
        simpa [NoPref, NoPrefs] using hp
      have hf' : need v ≤ f := by simp [need, needs] at hf; omega
      have hv := fun r => readVal_ok v r f hw'.2 hp'.2.2 hf'
      cases k with
      | sc s =>
        cases s with
        | str ks =>
          have hk : isPrefKey (.sc (.str ks)) = false := by rw [isPrefKey_str]; exact hp'.1
          simp [ref1, refs, sepOf, succOf, readVal, hk, hv]
        | int _ => simp [isStrKey] at hw'
        | flt _ => simp [isStrKey] at hw'
        | bool _ => simp [isStrKey] at hw'
        | null => simp [isStrKey] at hw'
      | ref _ => simp [isStrKey] at hw'
      | arr _ => simp [isStrKey] at hw'
      | hsh _ => simp [isStrKey] at hw'
  | .hsh [_, _, _], _, _, hw, _, _ => by simp [WF, WFkv] at hw
  | .hsh (k :: v :: k' :: v' :: es'), rest, fuel, hw, hp, hf => by
      obtain ⟨f, rfl⟩ : ∃ f, fuel = f + 1 := ⟨fuel - 1, by simp [need] at hf; omega⟩
      have hw' : (isStrKey k = true ∧ WF v = true) ∧ (isStrKey k' = true ∧ WF v' = true) ∧ WFkv es' = true := by
        simpa [WF, WFkv] using hw
      have hp' : isPrefEv k = false ∧ NoPref k = true ∧ NoPref v = true ∧ NoPref k' = true ∧ NoPref v' = true ∧
          NoPrefs es' = true := by
        simpa [NoPref, NoPrefs, Bool.and_assoc] using hp
      have hf' : need v ≤ f ∧ 1 + need v' + needs es' ≤ f := by simp [need, needs] at hf; omega
      have hv := fun r => readVal_ok v r f hw'.1.2 hp'.2.2.1 hf'.1
      have hm := readMembers_ok k' v' es' rest f hw'.2.1.1 hw'.2.1.2 hw'.2.2 hp'.2.2.2.2.1 hp'.2.2.2.2.2 hf'.2
      simp only [List.append_assoc, List.cons_append] at hm
      cases k with
      | sc s =>
        cases s with
        | str ks =>
          have hk : isPrefKey (.sc (.str ks)) = false := by rw [isPrefKey_str]; exact hp'.1
          simp [ref1, refs, sepOf, succOf, readVal, hk, hv, hm]
        | int _ => simp [isStrKey] at hw'
        | flt _ => simp [isStrKey] at hw'
        | bool _ => simp [isStrKey] at hw'
        | null => simp [isStrKey] at hw'
      | ref _ => simp [isStrKey] at hw'
      | arr _ => simp [isStrKey] at hw'
      | hsh _ => simp [isStrKey] at hw'
termination_by e => sizeOf e
theorem readElems_ok : ∀ (e : Ev) (es : List Ev) (rest : List Tok) (fuel : Nat), WF e = true → WFs es = true →
    NoPref e = true → NoPrefs es = true → 1 + need e + needs es ≤ fuel →
    readElems fuel (ref1 e ++ refs .afterElement es ++ .rb :: rest) = some (e :: es, rest)
  | e, [], rest, fuel, hw, _, hp, _, hf => by
      obtain ⟨f, rfl⟩ : ∃ f, fuel = f + 1 := ⟨fuel - 1, by omega⟩
      have hv := readVal_ok e (.rb :: rest) f hw hp (by simp [needs] at hf; omega)
      simp [refs, readElems, hv]
  | e, e' :: es, rest, fuel, hw, hws, hp, hps, hf => by
      obtain ⟨f, rfl⟩ : ∃ f, fuel = f + 1 := ⟨fuel - 1, by omega⟩
      have hw' : WF e' = true ∧ WFs es = true := by simpa [WFs] using hws
      have hp' : NoPref e' = true ∧ NoPrefs es = true := by simpa [NoPrefs] using hps
      have hv := fun r => readVal_ok e r f hw hp (by simp [needs] at hf; omega)
      have ih := readElems_ok e' es rest f hw'.1 hw'.2 hp'.1 hp'.2 (by simp [needs] at hf; omega)
      simp only [List.append_assoc] at ih
      simp [refs, sepOf, succOf, readElems, hv, ih]
termination_by e es => sizeOf e + sizeOf es + 1
theorem readMembers_ok : ∀ (k v : Ev) (es : List Ev) (rest : List Tok) (fuel : Nat), isStrKey k = true →
    WF v = true → WFkv es = true → NoPref v = true → NoPrefs es = true → 1 + need v + needs es ≤ fuel →
    readMembers fuel (ref1 k ++ .colon :: ref1 v ++ refs .afterValue es ++ .rc :: rest) = some (k :: v :: es, rest)
  | .sc (.str ks), v, [], rest, fuel, _, hv, _, hpv, _, hf => by
      obtain ⟨f, rfl⟩ : ∃ f, fuel = f + 1 := ⟨fuel - 1, by omega⟩
      have h := readVal_ok v (.rc :: rest) f hv hpv (by simp [needs] at hf; omega)
      simp [ref1, refs, readMembers, h]
  | .sc (.str ks), v, [_], _, _, _, _, h, _, _, _ => by simp [WFkv] at h
  | .sc (.str ks), v, k' :: v' :: es, rest, fuel, _, hv, h, hpv, hps, hf => by
      obtain ⟨f, rfl⟩ : ∃ f, fuel = f + 1 := ⟨fuel - 1, by omega⟩
      have h2 : (isStrKey k' = true ∧ WF v' = true) ∧ WFkv es = true := by simpa [WFkv] using h
      have hp2 : NoPref k' = true ∧ NoPref v' = true ∧ NoPrefs es = true := by
        simpa [NoPrefs, Bool.and_assoc] using hps
      have hvv := fun r => readVal_ok v r f hv hpv (by simp [needs] at hf; omega)
      have hm := readMembers_ok k' v' es rest f h2.1.1 h2.1.2 h2.2 hp2.2.1 hp2.2.2 (by simp [needs] at hf; omega)
      simp only [List.append_assoc, List.cons_append] at hm
      simp [ref1, refs, sepOf, succOf, readMembers, hvv, hm]
  | .sc (.int _), _, _, _, _, hk, _, _, _, _, _ => by simp [isStrKey] at hk
  | .sc (.flt _), _, _, _, _, hk, _, _, _, _, _ => by simp [isStrKey] at hk
  | .sc (.bool _), _, _, _, _, hk, _, _, _, _, _ => by simp [isStrKey] at hk
  | .sc .null, _, _, _, _, hk, _, _, _, _, _ => by simp [isStrKey] at hk
  | .ref _, _, _, _, _, hk, _, _, _, _, _ => by simp [isStrKey] at hk
  | .arr _, _, _, _, _, hk, _, _, _, _, _ => by simp [isStrKey] at hk
  | .hsh _, _, _, _, _, hk, _, _, _, _, _ => by simp [isStrKey] at hk
termination_by k v es => sizeOf k + sizeOf v + sizeOf es + 1
end

theorem sepOf_succ_len (st : St) : (sepOf (succOf st)).length = 1 := by cases st <;> rfl

mutual
theorem need_le : ∀ e : Ev, need e ≤ 2 * (ref1 e).length
  | .sc _ => by simp [need, ref1]
  | .ref _ => by simp [need, ref1, refToks]
  | .arr [] => by simp [need, needs, ref1, refs]
  | .arr (e :: es) => by
      have h1 := need_le e
      have h2 := needs_le .afterElement es rfl
      simp [need, needs, ref1, refs, sepOf, succOf] at *; omega
  | .hsh [] => by simp [need, needs, ref1, refs]
  | .hsh (e :: es) => by
      have h1 := need_le e
      have h2 := needs_le .afterKey es rfl
      simp [need, needs, ref1, refs, sepOf, succOf] at *; omega
theorem needs_le : ∀ (st : St) (es : List Ev), (sepOf st).length = 1 → needs es ≤ 2 * (refs st es).length
  | _, [], _ => by simp [needs]
  | st, e :: es, h => by
      have h1 := need_le e
      have h2 := needs_le (succOf st) es (sepOf_succ_len st)
      simp [needs, refs] at *; omega
end

/-- the reader inverts the reference printer on well-formed trees that do not use the reserved key -/
theorem read_ref1 (e : Ev) (hw : WF e = true) (hp : NoPref e = true) : read (ref1 e) = some e := by
  have h := readVal_ok e [] (2 * (ref1 e).length + 1) hw hp (by have := need_le e; omega)
  simp only [List.append_nil] at h
  simp [read, h]

end Pcore.Json
