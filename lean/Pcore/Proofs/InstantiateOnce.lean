import Pcore.Model.InstantiateOnce
import Pcore.Proofs.LoaderSeq
/-! Exactly-once instantiation: the invariant of the name-mutex protocol (helper lemmas for C13_once). -/
namespace Pcore.Instantiate
open Pcore.LoaderSeq

/-- the mutex a continuation waits for or holds -/
def uses : PC → Option (Key × Mx)
  | .instAcquire k m | .instCheck k m | .instPlace k m | .instRun k m | .instRet k m | .instUnlock k m _ => some (k, m)
  | _ => none

/-- the mutex a continuation holds -/
def holds : PC → Option (Key × Mx)
  | .instCheck k m | .instPlace k m | .instRun k m | .instRet k m | .instUnlock k m _ => some (k, m)
  | _ => none

/-- inside the mutex, saw the entry nil, instantiator not yet run -/
def crit : PC → Option Key
  | .instPlace k _ | .instRun k _ => some k
  | _ => none

/-- past the point where the entry is known to be non-nil -/
def post : PC → Option Key
  | .instRun k _ | .instRet k _ | .instUnlock k _ _ | .instDelete k _ => some k
  | _ => none

structure Inv (c : Config) : Prop where
  h1 : (c.held.map (·.1)).Nodup
  h2 : ∀ (i : Nat) (t : Thread) (k : Key) (m : Mx), c.th[i]? = some t → holds t.pc = some (k, m) → (m, i) ∈ c.held
  i3 : ∀ (i : Nat) (t : Thread) (k : Key) (m : Mx), lk k c.es = none → c.th[i]? = some t → uses t.pc = some (k, m) →
    lookupMx k c.locks = some m
  i4 : ∀ (i : Nat) (t : Thread) (k : Key), c.th[i]? = some t → crit t.pc = some k → c.reads.count k = 0
  i5 : ∀ (k : Key), lk k c.es = none → c.reads.count k = 0
  i6 : ∀ (i j : Nat) (ti tj : Thread) (k : Key), c.th[i]? = some ti → c.th[j]? = some tj →
    crit ti.pc = some k → crit tj.pc = some k → i = j
  i7 : ∀ (k : Key), c.reads.count k ≤ 1
  i8 : ∀ (i : Nat) (t : Thread) (k : Key), c.th[i]? = some t → post t.pc = some k → lk k c.es ≠ none

theorem get_set {α : Type} (l : List α) (i j : Nat) (a t : α) (h : (l.set i a)[j]? = some t) :
    (j = i ∧ t = a) ∨ (j ≠ i ∧ l[j]? = some t) := by
  by_cases hji : j = i
  · subst hji
    rw [List.getElem?_set] at h
    simp at h
    exact Or.inl ⟨rfl, h.2.symm⟩
  · rw [List.getElem?_set] at h
    have : ¬ i = j := fun h' => hji h'.symm
    simp [this] at h
    exact Or.inr ⟨hji, h⟩

theorem lk_setEntry_same (es : Ents) (k : Key) (nv : Option V) : lk k (setEntry es k nv).1 ≠ none := by
  unfold setEntry
  split
  · rw [lk_put_same]; simp
  · rename_i ov h
    split
    · rw [h]; simp
    · split
      · rw [h]; simp
      · split <;> (rw [h]; simp)
  · rw [lk_put_same]; simp

theorem lk_setEntry_mono (es : Ents) (k k' : Key) (nv : Option V) (h : lk k es ≠ none) :
    lk k (setEntry es k' nv).1 ≠ none := by
  by_cases hk : k = k'
  · subst hk; exact lk_setEntry_same es k nv
  · rw [setEntry_lk_other hk]; exact h

theorem lk_setEntry_nil (es : Ents) (k k' : Key) (nv : Option V) (h : lk k (setEntry es k' nv).1 = none) :
    lk k es = none ∧ k ≠ k' := by
  by_cases hk : k = k'
  · subst hk; exact absurd h (lk_setEntry_same es k nv)
  · rw [setEntry_lk_other hk] at h; exact ⟨h, hk⟩

theorem lookupMx_filter (locks : List (Key × Mx)) (k k' : Key) (h : k' ≠ k) :
    lookupMx k' (locks.filter fun p => p.1 != k) = lookupMx k' locks := by
  induction locks with
  | nil => rfl
  | cons hd tl ih =>
    obtain ⟨k0, m0⟩ := hd
    by_cases h0 : k0 = k
    · subst h0
      have : ¬ k0 = k' := fun h' => h h'.symm
      simp only [List.filter, bne_self_eq_false, lookupMx, this, if_false, ih]
    · have hb : (k0 != k) = true := by simp [h0]
      simp only [List.filter, hb, lookupMx, ih]

theorem crit_holds {pc : PC} {k : Key} (h : crit pc = some k) : ∃ m, holds pc = some (k, m) := by
  cases pc <;> simp [crit] at h <;> subst h <;> exact ⟨_, rfl⟩

theorem holds_uses {pc : PC} {km : Key × Mx} (h : holds pc = some km) : uses pc = some km := by
  cases pc <;> simp [holds] at h <;> simp [uses, h]

theorem key_unique {l : List (Mx × Nat)} (hn : (l.map (·.1)).Nodup) {m : Mx} {a b : Nat} (ha : (m, a) ∈ l) (hb : (m, b) ∈ l) :
    a = b := by
  induction l with
  | nil => cases ha
  | cons hd tl ih =>
    simp only [List.map_cons, List.nodup_cons] at hn
    rcases List.mem_cons.mp ha with ha' | ha'
    · rcases List.mem_cons.mp hb with hb' | hb'
      · rw [← ha'] at hb'; cases hb'; rfl
      · subst ha'; exact absurd (List.mem_map_of_mem (f := (·.1)) hb') hn.1
    · rcases List.mem_cons.mp hb with hb' | hb'
      · subst hb'; exact absurd (List.mem_map_of_mem (f := (·.1)) ha') hn.1
      · exact ih hn.2 ha' hb'

/-- the step of a thread that changes only its own continuation, keeping what it waits for / holds, and that neither
    enters the critical phase nor claims anything new about the entry -/
theorem Inv_local (c : Config) (i : Nat) (t t' : Thread) (h : Inv c) (hi : c.th[i]? = some t)
    (hholds : ∀ km, holds t'.pc = some km → holds t.pc = some km)
    (huses : ∀ km, uses t'.pc = some km → uses t.pc = some km ∨ lookupMx km.1 c.locks = some km.2)
    (hcrit : ∀ k, crit t'.pc = some k → crit t.pc = some k)
    (hpost : ∀ k, post t'.pc = some k → post t.pc = some k ∨ lk k c.es ≠ none) :
    Inv (c.withShared c.shared (c.th.set i t')) := by
  refine { h1 := h.h1, h2 := ?_, i3 := ?_, i4 := ?_, i5 := h.i5, i6 := ?_, i7 := h.i7, i8 := ?_ }
  · intro j tj k m hj hh
    rcases get_set _ _ _ _ _ hj with ⟨rfl, rfl⟩ | ⟨_, hj⟩
    · exact h.h2 _ t k m hi (hholds _ hh)
    · exact h.h2 _ tj k m hj hh
  · intro j tj k m hnil hj hu
    rcases get_set _ _ _ _ _ hj with ⟨rfl, rfl⟩ | ⟨_, hj⟩
    · rcases huses _ hu with hu' | hu'
      · exact h.i3 _ t k m hnil hi hu'
      · exact hu'
    · exact h.i3 _ tj k m hnil hj hu
  · intro j tj k hj hc
    rcases get_set _ _ _ _ _ hj with ⟨rfl, rfl⟩ | ⟨_, hj⟩
    · exact h.i4 _ t k hi (hcrit _ hc)
    · exact h.i4 _ tj k hj hc
  · intro j1 j2 t1 t2 k g1 g2 c1 c2
    rcases get_set _ _ _ _ _ g1 with ⟨e1, e1'⟩ | ⟨_, g1'⟩
    · rcases get_set _ _ _ _ _ g2 with ⟨e2, e2'⟩ | ⟨_, g2'⟩
      · rw [e1, e2]
      · subst e1 e1'; exact h.i6 _ _ t t2 k hi g2' (hcrit _ c1) c2
    · rcases get_set _ _ _ _ _ g2 with ⟨e2, e2'⟩ | ⟨_, g2'⟩
      · subst e2 e2'; exact h.i6 _ _ t1 t k g1' hi c1 (hcrit _ c2)
      · exact h.i6 _ _ t1 t2 k g1' g2' c1 c2
  · intro j tj k hj hp
    rcases get_set _ _ _ _ _ hj with ⟨rfl, rfl⟩ | ⟨_, hj⟩
    · rcases hpost _ hp with hp' | hp'
      · exact h.i8 _ t k hi hp'
      · exact hp'
    · exact h.i8 _ tj k hj hp

/-- the same when the step also changes the entry map, monotonically (an entry, once there, stays) -/
theorem Inv_es (c : Config) (i : Nat) (t t' : Thread) (es' : Ents) (h : Inv c) (hi : c.th[i]? = some t)
    (hmono : ∀ k, lk k es' = none → lk k c.es = none)
    (hholds : ∀ km, holds t'.pc = some km → holds t.pc = some km)
    (huses : ∀ km, uses t'.pc = some km → uses t.pc = some km)
    (hcrit : ∀ k, crit t'.pc = some k → crit t.pc = some k)
    (hpost : ∀ k, post t'.pc = some k → lk k es' ≠ none) :
    Inv { files := c.files, broken := c.broken, es := es', locks := c.locks, held := c.held, nextMx := c.nextMx, reads := c.reads, th := c.th.set i t' } := by
  refine { h1 := h.h1, h2 := ?_, i3 := ?_, i4 := ?_, i5 := ?_, i6 := ?_, i7 := h.i7, i8 := ?_ }
  · intro j tj k m hj hh
    rcases get_set _ _ _ _ _ hj with ⟨rfl, rfl⟩ | ⟨_, hj⟩
    · exact h.h2 _ t k m hi (hholds _ hh)
    · exact h.h2 _ tj k m hj hh
  · intro j tj k m hnil hj hu
    rcases get_set _ _ _ _ _ hj with ⟨rfl, rfl⟩ | ⟨_, hj⟩
    · exact h.i3 _ t k m (hmono k hnil) hi (huses _ hu)
    · exact h.i3 _ tj k m (hmono k hnil) hj hu
  · intro j tj k hj hc
    rcases get_set _ _ _ _ _ hj with ⟨rfl, rfl⟩ | ⟨_, hj⟩
    · exact h.i4 _ t k hi (hcrit _ hc)
    · exact h.i4 _ tj k hj hc
  · intro k hnil; exact h.i5 k (hmono k hnil)
  · intro j1 j2 t1 t2 k g1 g2 c1 c2
    rcases get_set _ _ _ _ _ g1 with ⟨e1, e1'⟩ | ⟨_, g1'⟩
    · rcases get_set _ _ _ _ _ g2 with ⟨e2, e2'⟩ | ⟨_, g2'⟩
      · rw [e1, e2]
      · subst e1 e1'; exact h.i6 _ _ t t2 k hi g2' (hcrit _ c1) c2
    · rcases get_set _ _ _ _ _ g2 with ⟨e2, e2'⟩ | ⟨_, g2'⟩
      · subst e2 e2'; exact h.i6 _ _ t1 t k g1' hi c1 (hcrit _ c2)
      · exact h.i6 _ _ t1 t2 k g1' g2' c1 c2
  · intro j tj k hj hp
    rcases get_set _ _ _ _ _ hj with ⟨rfl, rfl⟩ | ⟨_, hj⟩
    · exact hpost _ hp
    · intro hnil; exact h.i8 _ tj k hj hp (hmono k hnil)

/-- a new mutex is put into the table -/
theorem Inv_table (c : Config) (i : Nat) (t t' : Thread) (k : Key) (h : Inv c) (hi : c.th[i]? = some t)
    (hnone : lookupMx k c.locks = none) (hpc : t'.pc = PC.instAcquire k c.nextMx) :
    Inv { files := c.files, broken := c.broken, es := c.es, locks := (k, c.nextMx) :: c.locks, held := c.held, nextMx := c.nextMx + 1,
          reads := c.reads, th := c.th.set i t' } := by
  refine { h1 := h.h1, h2 := ?_, i3 := ?_, i4 := ?_, i5 := h.i5, i6 := ?_, i7 := h.i7, i8 := ?_ }
  · intro j tj k' m hj hh
    rcases get_set _ _ _ _ _ hj with ⟨rfl, rfl⟩ | ⟨_, hj⟩
    · rw [hpc] at hh; simp [holds] at hh
    · exact h.h2 _ tj k' m hj hh
  · intro j tj k' m hnil hj hu
    rcases get_set _ _ _ _ _ hj with ⟨rfl, rfl⟩ | ⟨_, hj⟩
    · rw [hpc] at hu; simp only [uses, Option.some.injEq, Prod.mk.injEq] at hu
      obtain ⟨rfl, rfl⟩ := hu
      simp [lookupMx]
    · have := h.i3 _ tj k' m hnil hj hu
      by_cases hk : k = k'
      · subst hk; rw [hnone] at this; cases this
      · simp [lookupMx, hk, this]
  · intro j tj k' hj hc
    rcases get_set _ _ _ _ _ hj with ⟨rfl, rfl⟩ | ⟨_, hj⟩
    · rw [hpc] at hc; simp [crit] at hc
    · exact h.i4 _ tj k' hj hc
  · intro j1 j2 t1 t2 k' g1 g2 c1 c2
    rcases get_set _ _ _ _ _ g1 with ⟨e1, e1'⟩ | ⟨_, g1'⟩
    · subst e1'; rw [hpc] at c1; simp [crit] at c1
    · rcases get_set _ _ _ _ _ g2 with ⟨e2, e2'⟩ | ⟨_, g2'⟩
      · subst e2'; rw [hpc] at c2; simp [crit] at c2
      · exact h.i6 _ _ t1 t2 k' g1' g2' c1 c2
  · intro j tj k' hj hp
    rcases get_set _ _ _ _ _ hj with ⟨rfl, rfl⟩ | ⟨_, hj⟩
    · rw [hpc] at hp; simp [post] at hp
    · exact h.i8 _ tj k' hj hp

/-- `nameLock.Lock()` succeeds -/
theorem Inv_acquire (c : Config) (i : Nat) (t t' : Thread) (k : Key) (m : Mx) (h : Inv c) (hi : c.th[i]? = some t)
    (hfree : c.held.any (fun p => p.1 == m) = false) (hpc0 : t.pc = PC.instAcquire k m) (hpc : t'.pc = PC.instCheck k m) :
    Inv { files := c.files, broken := c.broken, es := c.es, locks := c.locks, held := (m, i) :: c.held, nextMx := c.nextMx,
          reads := c.reads, th := c.th.set i t' } := by
  refine { h1 := ?_, h2 := ?_, i3 := ?_, i4 := ?_, i5 := h.i5, i6 := ?_, i7 := h.i7, i8 := ?_ }
  · simp only [List.map_cons, List.nodup_cons]
    refine ⟨?_, h.h1⟩
    intro hm
    obtain ⟨p, hp, hpm⟩ := List.mem_map.mp hm
    have : c.held.any (fun p => p.1 == m) = true := List.any_eq_true.mpr ⟨p, hp, by simp [hpm]⟩
    rw [hfree] at this; cases this
  · intro j tj k' m' hj hh
    rcases get_set _ _ _ _ _ hj with ⟨rfl, rfl⟩ | ⟨_, hj⟩
    · rw [hpc] at hh; simp only [holds, Option.some.injEq, Prod.mk.injEq] at hh
      obtain ⟨rfl, rfl⟩ := hh; exact List.mem_cons_self
    · exact List.mem_cons_of_mem _ (h.h2 _ tj k' m' hj hh)
  · intro j tj k' m' hnil hj hu
    rcases get_set _ _ _ _ _ hj with ⟨rfl, rfl⟩ | ⟨_, hj⟩
    · rw [hpc] at hu
      exact h.i3 _ t k' m' hnil hi (by rw [hpc0]; simpa [uses] using hu)
    · exact h.i3 _ tj k' m' hnil hj hu
  · intro j tj k' hj hc
    rcases get_set _ _ _ _ _ hj with ⟨rfl, rfl⟩ | ⟨_, hj⟩
    · rw [hpc] at hc; simp [crit] at hc
    · exact h.i4 _ tj k' hj hc
  · intro j1 j2 t1 t2 k' g1 g2 c1 c2
    rcases get_set _ _ _ _ _ g1 with ⟨e1, e1'⟩ | ⟨_, g1'⟩
    · subst e1'; rw [hpc] at c1; simp [crit] at c1
    · rcases get_set _ _ _ _ _ g2 with ⟨e2, e2'⟩ | ⟨_, g2'⟩
      · subst e2'; rw [hpc] at c2; simp [crit] at c2
      · exact h.i6 _ _ t1 t2 k' g1' g2' c1 c2
  · intro j tj k' hj hp
    rcases get_set _ _ _ _ _ hj with ⟨rfl, rfl⟩ | ⟨_, hj⟩
    · rw [hpc] at hp; simp [post] at hp
    · exact h.i8 _ tj k' hj hp

/-- the entry is seen nil under the mutex: the thread enters the critical phase — and is alone in it -/
theorem Inv_enter (c : Config) (i : Nat) (t t' : Thread) (k : Key) (m : Mx) (h : Inv c) (hi : c.th[i]? = some t)
    (hnil : lk k c.es = none) (hpc0 : t.pc = PC.instCheck k m) (hpc : t'.pc = PC.instPlace k m) :
    Inv (c.withShared c.shared (c.th.set i t')) := by
  have hu0 : uses t.pc = some (k, m) := by rw [hpc0]; rfl
  have hh0 : holds t.pc = some (k, m) := by rw [hpc0]; rfl
  refine { h1 := h.h1, h2 := ?_, i3 := ?_, i4 := ?_, i5 := h.i5, i6 := ?_, i7 := h.i7, i8 := ?_ }
  · intro j tj k' m' hj hh
    rcases get_set _ _ _ _ _ hj with ⟨rfl, rfl⟩ | ⟨_, hj⟩
    · rw [hpc] at hh; simp only [holds, Option.some.injEq, Prod.mk.injEq] at hh
      obtain ⟨rfl, rfl⟩ := hh; exact h.h2 _ t k m hi hh0
    · exact h.h2 _ tj k' m' hj hh
  · intro j tj k' m' hn hj hu
    rcases get_set _ _ _ _ _ hj with ⟨rfl, rfl⟩ | ⟨_, hj⟩
    · rw [hpc] at hu; simp only [uses, Option.some.injEq, Prod.mk.injEq] at hu
      obtain ⟨rfl, rfl⟩ := hu; exact h.i3 _ t k m hn hi hu0
    · exact h.i3 _ tj k' m' hn hj hu
  · intro j tj k' hj hc
    rcases get_set _ _ _ _ _ hj with ⟨rfl, rfl⟩ | ⟨_, hj⟩
    · rw [hpc] at hc; simp only [crit, Option.some.injEq] at hc
      subst hc; exact h.i5 k hnil
    · exact h.i4 _ tj k' hj hc
  · -- nobody else is in the critical phase of k: it would hold THE mutex of k, which this thread holds
    have alone : ∀ j tj, c.th[j]? = some tj → crit tj.pc = some k → j = i := by
      intro j tj hj hc
      obtain ⟨mj, hhj⟩ := crit_holds hc
      have e1 := h.i3 _ tj k mj hnil hj (holds_uses hhj)
      have e2 := h.i3 _ t k m hnil hi hu0
      have hm : mj = m := by rw [e1] at e2; exact Option.some.inj e2
      rw [hm] at hhj
      exact key_unique h.h1 (h.h2 _ tj k m hj hhj) (h.h2 _ t k m hi hh0)
    intro j1 j2 t1 t2 k' g1 g2 c1 c2
    rcases get_set _ _ _ _ _ g1 with ⟨e1, e1'⟩ | ⟨n1, g1'⟩
    · rcases get_set _ _ _ _ _ g2 with ⟨e2, e2'⟩ | ⟨n2, g2'⟩
      · rw [e1, e2]
      · subst e1'; rw [hpc] at c1; simp only [crit, Option.some.injEq] at c1; subst c1
        exact absurd (alone _ t2 g2' c2) n2
    · rcases get_set _ _ _ _ _ g2 with ⟨e2, e2'⟩ | ⟨n2, g2'⟩
      · subst e2'; rw [hpc] at c2; simp only [crit, Option.some.injEq] at c2; subst c2
        exact absurd (alone _ t1 g1' c1) n1
      · exact h.i6 _ _ t1 t2 k' g1' g2' c1 c2
  · intro j tj k' hj hp
    rcases get_set _ _ _ _ _ hj with ⟨rfl, rfl⟩ | ⟨_, hj⟩
    · rw [hpc] at hp; simp [post] at hp
    · exact h.i8 _ tj k' hj hp

/-- the instantiator runs: the one read of the file -/
theorem Inv_run (c : Config) (i : Nat) (t t' : Thread) (k : Key) (m : Mx) (v : V) (h : Inv c) (hi : c.th[i]? = some t)
    (hpc0 : t.pc = PC.instRun k m) (hpc : t'.pc = PC.instRet k m) :
    Inv { files := c.files, broken := c.broken, es := (setEntry c.es k (some v)).1, locks := c.locks, held := c.held, nextMx := c.nextMx,
          reads := k :: c.reads, th := c.th.set i t' } := by
  have hc0 : crit t.pc = some k := by rw [hpc0]; rfl
  have hzero := h.i4 _ t k hi hc0
  refine { h1 := h.h1, h2 := ?_, i3 := ?_, i4 := ?_, i5 := ?_, i6 := ?_, i7 := ?_, i8 := ?_ }
  · intro j tj k' m' hj hh
    rcases get_set _ _ _ _ _ hj with ⟨rfl, rfl⟩ | ⟨_, hj⟩
    · rw [hpc] at hh; exact h.h2 _ t k' m' hi (by rw [hpc0]; simpa [holds] using hh)
    · exact h.h2 _ tj k' m' hj hh
  · intro j tj k' m' hn hj hu
    have hn' := (lk_setEntry_nil _ _ _ _ hn).1
    rcases get_set _ _ _ _ _ hj with ⟨rfl, rfl⟩ | ⟨_, hj⟩
    · rw [hpc] at hu; exact h.i3 _ t k' m' hn' hi (by rw [hpc0]; simpa [uses] using hu)
    · exact h.i3 _ tj k' m' hn' hj hu
  · intro j tj k' hj hc
    rcases get_set _ _ _ _ _ hj with ⟨rfl, rfl⟩ | ⟨hne, hj⟩
    · rw [hpc] at hc; simp [crit] at hc
    · by_cases hk : k = k'
      · subst hk; exact absurd (h.i6 _ _ tj t k hj hi hc hc0) hne
      · rw [List.count_cons_of_ne hk]; exact h.i4 _ tj k' hj hc
  · intro k' hn
    obtain ⟨hn', hk⟩ := lk_setEntry_nil _ _ _ _ hn
    rw [List.count_cons_of_ne (Ne.symm hk)]; exact h.i5 k' hn'
  · intro j1 j2 t1 t2 k' g1 g2 c1 c2
    rcases get_set _ _ _ _ _ g1 with ⟨e1, e1'⟩ | ⟨_, g1'⟩
    · subst e1'; rw [hpc] at c1; simp [crit] at c1
    · rcases get_set _ _ _ _ _ g2 with ⟨e2, e2'⟩ | ⟨_, g2'⟩
      · subst e2'; rw [hpc] at c2; simp [crit] at c2
      · exact h.i6 _ _ t1 t2 k' g1' g2' c1 c2
  · intro k'
    by_cases hk : k = k'
    · subst hk; rw [List.count_cons_self, hzero]; exact Nat.le_refl _
    · rw [List.count_cons_of_ne hk]; exact h.i7 k'
  · intro j tj k' hj hp
    rcases get_set _ _ _ _ _ hj with ⟨rfl, rfl⟩ | ⟨_, hj⟩
    · rw [hpc] at hp; simp only [post, Option.some.injEq] at hp; subst hp; exact lk_setEntry_same _ _ _
    · exact lk_setEntry_mono _ _ _ _ (h.i8 _ tj k' hj hp)

/-- the instantiator runs and RAISES: the one read of the file; the entry map is left as it is (the placeholder stays) -/
theorem Inv_run_broken (c : Config) (i : Nat) (t t' : Thread) (k : Key) (m : Mx) (a : Ans) (h : Inv c) (hi : c.th[i]? = some t)
    (hpc0 : t.pc = PC.instRun k m) (hpc : t'.pc = PC.instUnlock k m a) :
    Inv { files := c.files, broken := c.broken, es := c.es, locks := c.locks, held := c.held, nextMx := c.nextMx,
          reads := k :: c.reads, th := c.th.set i t' } := by
  have hc0 : crit t.pc = some k := by rw [hpc0]; rfl
  have hzero := h.i4 _ t k hi hc0
  have hpost : lk k c.es ≠ none := h.i8 _ t k hi (by rw [hpc0]; rfl)
  refine { h1 := h.h1, h2 := ?_, i3 := ?_, i4 := ?_, i5 := ?_, i6 := ?_, i7 := ?_, i8 := ?_ }
  · intro j tj k' m' hj hh
    rcases get_set _ _ _ _ _ hj with ⟨rfl, rfl⟩ | ⟨_, hj⟩
    · rw [hpc] at hh; exact h.h2 _ t k' m' hi (by rw [hpc0]; simpa [holds] using hh)
    · exact h.h2 _ tj k' m' hj hh
  · intro j tj k' m' hn hj hu
    rcases get_set _ _ _ _ _ hj with ⟨rfl, rfl⟩ | ⟨_, hj⟩
    · rw [hpc] at hu; exact h.i3 _ t k' m' hn hi (by rw [hpc0]; simpa [uses] using hu)
    · exact h.i3 _ tj k' m' hn hj hu
  · intro j tj k' hj hc
    rcases get_set _ _ _ _ _ hj with ⟨rfl, rfl⟩ | ⟨hne, hj⟩
    · rw [hpc] at hc; simp [crit] at hc
    · by_cases hk : k = k'
      · subst hk; exact absurd (h.i6 _ _ tj t k hj hi hc hc0) hne
      · rw [List.count_cons_of_ne hk]; exact h.i4 _ tj k' hj hc
  · intro k' hn
    by_cases hk : k = k'
    · subst hk; exact absurd hn hpost
    · rw [List.count_cons_of_ne hk]; exact h.i5 k' hn
  · intro j1 j2 t1 t2 k' g1 g2 c1 c2
    rcases get_set _ _ _ _ _ g1 with ⟨e1, e1'⟩ | ⟨_, g1'⟩
    · subst e1'; rw [hpc] at c1; simp [crit] at c1
    · rcases get_set _ _ _ _ _ g2 with ⟨e2, e2'⟩ | ⟨_, g2'⟩
      · subst e2'; rw [hpc] at c2; simp [crit] at c2
      · exact h.i6 _ _ t1 t2 k' g1' g2' c1 c2
  · intro k'
    by_cases hk : k = k'
    · subst hk; rw [List.count_cons_self, hzero]; exact Nat.le_refl _
    · rw [List.count_cons_of_ne hk]; exact h.i7 k'
  · intro j tj k' hj hp
    rcases get_set _ _ _ _ _ hj with ⟨rfl, rfl⟩ | ⟨_, hj⟩
    · rw [hpc] at hp; simp only [post, Option.some.injEq] at hp; subst hp; exact hpost
    · exact h.i8 _ tj k' hj hp

/-- `nameLock.Unlock()` -/
theorem Inv_unlock (c : Config) (i : Nat) (t t' : Thread) (k : Key) (m : Mx) (a : Ans) (h : Inv c) (hi : c.th[i]? = some t)
    (hpc0 : t.pc = PC.instUnlock k m a) (hpc : t'.pc = PC.instDelete k a) :
    Inv { files := c.files, broken := c.broken, es := c.es, locks := c.locks, held := c.held.filter (fun p => p.1 != m), nextMx := c.nextMx,
          reads := c.reads, th := c.th.set i t' } := by
  have hh0 : holds t.pc = some (k, m) := by rw [hpc0]; rfl
  refine { h1 := ?_, h2 := ?_, i3 := ?_, i4 := ?_, i5 := h.i5, i6 := ?_, i7 := h.i7, i8 := ?_ }
  · exact List.Nodup.sublist (List.Sublist.map _ List.filter_sublist) h.h1
  · intro j tj k' m' hj hh
    rcases get_set _ _ _ _ _ hj with ⟨rfl, rfl⟩ | ⟨hne, hj⟩
    · rw [hpc] at hh; simp [holds] at hh
    · have hm := h.h2 _ tj k' m' hj hh
      refine List.mem_filter.mpr ⟨hm, ?_⟩
      have : m' ≠ m := by
        intro e; subst e
        exact hne (key_unique h.h1 hm (h.h2 _ t k m' hi hh0))
      simp [this]
  · intro j tj k' m' hn hj hu
    rcases get_set _ _ _ _ _ hj with ⟨rfl, rfl⟩ | ⟨_, hj⟩
    · rw [hpc] at hu; simp [uses] at hu
    · exact h.i3 _ tj k' m' hn hj hu
  · intro j tj k' hj hc
    rcases get_set _ _ _ _ _ hj with ⟨rfl, rfl⟩ | ⟨_, hj⟩
    · rw [hpc] at hc; simp [crit] at hc
    · exact h.i4 _ tj k' hj hc
  · intro j1 j2 t1 t2 k' g1 g2 c1 c2
    rcases get_set _ _ _ _ _ g1 with ⟨e1, e1'⟩ | ⟨_, g1'⟩
    · subst e1'; rw [hpc] at c1; simp [crit] at c1
    · rcases get_set _ _ _ _ _ g2 with ⟨e2, e2'⟩ | ⟨_, g2'⟩
      · subst e2'; rw [hpc] at c2; simp [crit] at c2
      · exact h.i6 _ _ t1 t2 k' g1' g2' c1 c2
  · intro j tj k' hj hp
    rcases get_set _ _ _ _ _ hj with ⟨rfl, rfl⟩ | ⟨_, hj⟩
    · rw [hpc] at hp; simp only [post, Option.some.injEq] at hp; subst hp
      exact h.i8 _ t k hi (by rw [hpc0]; rfl)
    · exact h.i8 _ tj k' hj hp

/-- the mutex is taken out of the table (only ever when the entry is no longer nil) -/
theorem Inv_delete (c : Config) (i : Nat) (t t' : Thread) (k : Key) (a : Ans) (h : Inv c) (hi : c.th[i]? = some t)
    (hpc0 : t.pc = PC.instDelete k a) (hpc : t'.pc = PC.idle) :
    Inv { files := c.files, broken := c.broken, es := c.es, locks := c.locks.filter (fun p => p.1 != k), held := c.held, nextMx := c.nextMx,
          reads := c.reads, th := c.th.set i t' } := by
  have hnn : lk k c.es ≠ none := h.i8 _ t k hi (by rw [hpc0]; rfl)
  refine { h1 := h.h1, h2 := ?_, i3 := ?_, i4 := ?_, i5 := h.i5, i6 := ?_, i7 := h.i7, i8 := ?_ }
  · intro j tj k' m' hj hh
    rcases get_set _ _ _ _ _ hj with ⟨rfl, rfl⟩ | ⟨_, hj⟩
    · rw [hpc] at hh; simp [holds] at hh
    · exact h.h2 _ tj k' m' hj hh
  · intro j tj k' m' hn hj hu
    rcases get_set _ _ _ _ _ hj with ⟨rfl, rfl⟩ | ⟨_, hj⟩
    · rw [hpc] at hu; simp [uses] at hu
    · have hk : k' ≠ k := by intro e; subst e; exact hnn hn
      rw [lookupMx_filter _ _ _ hk]; exact h.i3 _ tj k' m' hn hj hu
  · intro j tj k' hj hc
    rcases get_set _ _ _ _ _ hj with ⟨rfl, rfl⟩ | ⟨_, hj⟩
    · rw [hpc] at hc; simp [crit] at hc
    · exact h.i4 _ tj k' hj hc
  · intro j1 j2 t1 t2 k' g1 g2 c1 c2
    rcases get_set _ _ _ _ _ g1 with ⟨e1, e1'⟩ | ⟨_, g1'⟩
    · subst e1'; rw [hpc] at c1; simp [crit] at c1
    · rcases get_set _ _ _ _ _ g2 with ⟨e2, e2'⟩ | ⟨_, g2'⟩
      · subst e2'; rw [hpc] at c2; simp [crit] at c2
      · exact h.i6 _ _ t1 t2 k' g1' g2' c1 c2
  · intro j tj k' hj hp
    rcases get_set _ _ _ _ _ hj with ⟨rfl, rfl⟩ | ⟨_, hj⟩
    · rw [hpc] at hp; simp [post] at hp
    · exact h.i8 _ tj k' hj hp

theorem withShared_eq (c : Config) (s : Shared) (th : List Thread) :
    c.withShared s th = { files := c.files, broken := c.broken, es := s.es, locks := s.locks, held := s.held, nextMx := s.nextMx, reads := s.reads, th := th } := rfl

/-- every step of every thread keeps the invariant -/
theorem Inv_step (c : Config) (i : Nat) (h : Inv c) : Inv (stepAt c i) := by
  unfold stepAt
  cases hi : c.th[i]? with
  | none => exact h
  | some t =>
    simp only
    obtain ⟨pc, ops, log⟩ := t
    cases pc with
    | idle =>
      simp only [stepThread]
      split
      · apply Inv_local c i _ _ h hi <;> intro x hx <;> simp_all [holds, uses, crit, post]
      · apply Inv_local c i _ _ h hi <;> intro x hx <;> simp_all [holds, uses, crit, post]
      · split
        · apply Inv_local c i _ _ h hi <;> intro x hx <;> simp_all [holds, uses, crit, post]
        · apply Inv_local c i _ _ h hi <;> intro x hx <;> simp_all [holds, uses, crit, post]
    | ldCheck k =>
      simp only [stepThread]
      split
      · apply Inv_local c i _ _ h hi <;> intro x hx <;> simp_all [holds, uses, crit, post]
      · apply Inv_local c i _ _ h hi <;> intro x hx <;> simp_all [holds, uses, crit, post]
    | ldFind k =>
      simp only [stepThread]
      split
      · split
        · apply Inv_local c i _ _ h hi <;> intro x hx <;> simp_all [holds, uses, crit, post]
        · apply Inv_local c i _ _ h hi <;> intro x hx <;> simp_all [holds, uses, crit, post]
      · apply Inv_local c i _ _ h hi <;> intro x hx <;> simp_all [holds, uses, crit, post]
    | ldCacheMiss k =>
      simp only [stepThread, withShared_eq, Config.shared]
      apply Inv_es c i _ _ _ h hi (fun k' hn => (lk_setEntry_nil _ _ _ _ hn).1) <;> intro x hx <;> simp_all [holds, uses, crit, post]
    | instTable k =>
      simp only [stepThread]
      split
      · rename_i m hm
        apply Inv_local c i _ _ h hi
        · intro x hx; simp_all [holds]
        · intro x hx
          simp only [uses, Option.some.injEq] at hx
          subst hx; exact Or.inr hm
        · intro x hx; simp_all [crit]
        · intro x hx; simp_all [post]
      · rename_i hm
        exact Inv_table c i _ _ k h hi hm rfl
    | instAcquire k m =>
      simp only [stepThread]
      split
      · apply Inv_local c i _ _ h hi
        · intro x hx; exact hx
        · intro x hx; exact Or.inl hx
        · intro x hx; exact hx
        · intro x hx; exact Or.inl hx
      · rename_i hfree
        exact Inv_acquire c i _ _ k m h hi (Bool.eq_false_iff.mpr hfree) rfl rfl
    | instCheck k m =>
      simp only [stepThread]
      split
      · rename_i hnil
        exact Inv_enter c i _ _ k m h hi hnil rfl rfl
      · rename_i hnn
        apply Inv_local c i _ _ h hi
        · intro x hx; simpa [holds] using hx
        · intro x hx; exact Or.inl (by simpa [uses] using hx)
        · intro x hx; simp [crit] at hx
        · intro x hx
          simp only [post, Option.some.injEq] at hx
          subst hx
          refine Or.inr ?_
          intro hn; exact hnn hn
    | instPlace k m =>
      simp only [stepThread, withShared_eq, Config.shared]
      apply Inv_es c i _ _ _ h hi (fun k' hn => (lk_setEntry_nil _ _ _ _ hn).1)
      · intro x hx; simpa [holds] using hx
      · intro x hx; simpa [uses] using hx
      · intro x hx; simpa [crit] using hx
      · intro x hx
        simp only [post, Option.some.injEq] at hx
        subst hx; exact lk_setEntry_same _ _ _
    | instRun k m =>
      simp only [stepThread]
      split
      · rename_i v hv
        exact Inv_run c i _ _ k m v h hi rfl rfl
      · split
        · rename_i code hcode
          exact Inv_run_broken c i _ _ k m (.reported code) h hi rfl rfl
        · apply Inv_local c i _ _ h hi
          · intro x hx; simpa [holds] using hx
          · intro x hx; exact Or.inl (by simpa [uses] using hx)
          · intro x hx; simp [crit] at hx
          · intro x hx; exact Or.inl (by simpa [post] using hx)
    | instRet k m =>
      simp only [stepThread]
      apply Inv_local c i _ _ h hi
      · intro x hx; simpa [holds] using hx
      · intro x hx; exact Or.inl (by simpa [uses] using hx)
      · intro x hx; simp [crit] at hx
      · intro x hx; exact Or.inl (by simpa [post] using hx)
    | instUnlock k m a =>
      simp only [stepThread]
      exact Inv_unlock c i _ _ k m a h hi rfl rfl
    | instDelete k a =>
      simp only [stepThread]
      exact Inv_delete c i _ _ k a h hi rfl rfl

theorem Inv_initB (files : List (Key × V)) (broken : List (Key × String)) (progs : List (List FOp)) :
    Inv (Config.initB files broken progs) := by
  have hidle : ∀ (i : Nat) (t : Thread), (Config.initB files broken progs).th[i]? = some t → t.pc = PC.idle := by
    intro i t ht
    have := List.mem_of_getElem? ht
    simp only [Config.initB, List.mem_map] at this
    obtain ⟨p, _, rfl⟩ := this; rfl
  refine { h1 := by simp [Config.initB], h2 := ?_, i3 := ?_, i4 := ?_, i5 := ?_, i6 := ?_, i7 := ?_, i8 := ?_ }
  · intro i t k m ht hh; rw [hidle i t ht] at hh; simp [holds] at hh
  · intro i t k m _ ht hu; rw [hidle i t ht] at hu; simp [uses] at hu
  · intro i t k ht hc; rw [hidle i t ht] at hc; simp [crit] at hc
  · intro k _; simp [Config.initB]
  · intro i j ti tj k hti _ hc; rw [hidle i ti hti] at hc; simp [crit] at hc
  · intro k; simp [Config.initB]
  · intro i t k ht hp; rw [hidle i t ht] at hp; simp [post] at hp

theorem Inv_init (files : List (Key × V)) (progs : List (List FOp)) : Inv (Config.init files progs) :=
  Inv_initB files [] progs

theorem Inv_reachable {c0 c : Config} (h0 : Inv c0) (h : Reachable c0 c) : Inv c := by
  induction h with
  | init => exact h0
  | step i _ ih => exact Inv_step _ i ih

/-! ### what is bound was read from its file -/

theorem lk_setEntry_bound_inv (es : Ents) (k k' : Key) (nv : Option V) (v : V)
    (h : lk k (setEntry es k' nv).1 = some (some v)) : lk k es = some (some v) ∨ (k = k' ∧ nv = some v) := by
  by_cases hk : k = k'
  · subst hk
    unfold setEntry at h
    split at h
    · rw [lk_put_same] at h; exact Or.inr ⟨rfl, Option.some.inj h⟩
    · split at h
      · exact Or.inl h
      · split at h
        · exact Or.inl h
        · split at h <;> exact Or.inl h
    · rw [lk_put_same] at h; exact Or.inr ⟨rfl, Option.some.inj h⟩
  · rw [setEntry_lk_other hk] at h; exact Or.inl h

def Sourced (c : Config) : Prop := ∀ k v, lk k c.es = some (some v) → k ∈ c.reads ∧ fileOf k c.files = some v

theorem Sourced_step (c : Config) (i : Nat) (h : Sourced c) : Sourced (stepAt c i) := by
  unfold stepAt
  cases hi : c.th[i]? with
  | none => exact h
  | some t =>
    simp only
    obtain ⟨pc, ops, log⟩ := t
    cases pc with
    | idle =>
      simp only [stepThread]
      split
      · exact h
      · exact h
      · split <;> exact h
    | ldCheck k => simp only [stepThread]; split <;> exact h
    | ldFind k =>
      simp only [stepThread]
      split
      · split <;> exact h
      · exact h
    | ldCacheMiss k =>
      simp only [stepThread]
      intro k' v hb
      rcases lk_setEntry_bound_inv _ _ _ _ _ hb with hb' | ⟨_, hv⟩
      · exact h k' v hb'
      · cases hv
    | instTable k => simp only [stepThread]; split <;> exact h
    | instAcquire k m => simp only [stepThread]; split <;> exact h
    | instCheck k m => simp only [stepThread]; split <;> exact h
    | instPlace k m =>
      simp only [stepThread]
      intro k' v hb
      rcases lk_setEntry_bound_inv _ _ _ _ _ hb with hb' | ⟨_, hv⟩
      · exact h k' v hb'
      · cases hv
    | instRun k m =>
      simp only [stepThread]
      split
      · rename_i v0 hv0
        intro k' v hb
        rcases lk_setEntry_bound_inv _ _ _ _ _ hb with hb' | ⟨hk, hv⟩
        · exact ⟨List.mem_cons_of_mem _ (h k' v hb').1, (h k' v hb').2⟩
        · subst hk; cases hv; exact ⟨List.mem_cons_self, hv0⟩
      · split
        · intro k' v hb
          exact ⟨List.mem_cons_of_mem _ (h k' v hb).1, (h k' v hb).2⟩
        · exact h
    | instRet k m => simp only [stepThread]; exact h
    | instUnlock k m a => simp only [stepThread]; exact h
    | instDelete k a => simp only [stepThread]; exact h

theorem Sourced_reachable {c0 c : Config} (h0 : Sourced c0) (h : Reachable c0 c) : Sourced c := by
  induction h with
  | init => exact h0
  | step i _ ih => exact Sourced_step _ i ih

theorem Sourced_initB (files : List (Key × V)) (broken : List (Key × String)) (progs : List (List FOp)) :
    Sourced (Config.initB files broken progs) := by
  intro k v hb; simp [Config.initB, lk] at hb

theorem Sourced_init (files : List (Key × V)) (progs : List (List FOp)) : Sourced (Config.init files progs) :=
  Sourced_initB files [] progs

/-- running threads one step at a time -/
def iter (c : Config) : List Nat → Config
  | [] => c
  | i :: r => iter (stepAt c i) r

theorem reachable_iter (c0 c : Config) (is : List Nat) (h : Reachable c0 c) : Reachable c0 (iter c is) := by
  induction is generalizing c with
  | nil => exact h
  | cons i r ih => exact ih _ (Reachable.step i h)

end Pcore.Instantiate
