import Pcore.Proofs.ObjectDefine
import Pcore.Model.ObjectFuncs
/-! C17: member functions and interfaces — what an interface accepts. -/
namespace Pcore.Object

/-- a type none of whose levels declares a function is no interface -/
theorem isInterface_of_noFuncs : ∀ {t : OType}, (∀ l ∈ t, l.funcs = []) → isInterface t = false
  | [], _ => rfl
  | [l], h => by simp [isInterface, h l (by simp)]
  | l :: l' :: p, h => by
    have ih := isInterface_of_noFuncs (t := l' :: p) (fun x hx => h x (by simp [hx]))
    simp [isInterface, ih]

/-- an interface has no attribute (own or inherited; constants are attributes) -/
theorem isInterface_attrs : ∀ {t : OType}, isInterface t = true → ∀ l ∈ t, l.attrs = []
  | [], h => by simp [isInterface] at h
  | [l], h => by
    simp only [isInterface, Bool.and_eq_true, List.isEmpty_iff] at h
    intro x hx
    simp only [List.mem_singleton] at hx
    subst hx
    exact h.1
  | l :: l' :: p, h => by
    simp only [isInterface, Bool.and_eq_true, List.isEmpty_iff] at h
    have ih := isInterface_attrs (t := l' :: p) h.2
    intro x hx
    simp only [List.mem_cons] at hx
    rcases hx with rfl | hx
    · exact h.1
    · exact ih x (by simpa using hx)

/-- without type-level interfaces the assignability with functions is the nominal one -/
theorem isAssignableF_of_not_interface {t o : OType} (h : isInterface t = false) (ho : o ≠ []) :
    isAssignableF t o = isAssignable t o := by
  unfold isAssignableF
  cases o with
  | nil => exact absurd rfl ho
  | cons l p => simp [h]

/-- the overriding function, if any, else the inherited one -/
def replF (own : List FnDecl) (f : FnDecl) : FnDecl := (own.find? (fun g => g.name == f.name)).getD f

theorem allFuncs_cons (l : Level) (p : OType) :
    allFuncs (l :: p) = (allFuncs p).map (replF l.funcs) ++
      l.funcs.filter (fun g => !(allFuncs p).any (fun f => f.name == g.name)) := rfl

theorem findF_some {l : List FnDecl} {n : String} {g : FnDecl} (h : l.find? (fun f => f.name == n) = some g) :
    g ∈ l ∧ g.name = n :=
  ⟨List.mem_of_find?_eq_some h, by simpa using List.find?_some h⟩

theorem fn_nodup_inj {l : List FnDecl} (h : (l.map (·.name)).Nodup) {a b : FnDecl} (ha : a ∈ l) (hb : b ∈ l)
    (hab : a.name = b.name) : a = b := by
  induction l with
  | nil => simp at ha
  | cons c cs ih =>
    simp only [List.map_cons, List.nodup_cons, List.mem_map, not_exists, not_and] at h
    simp only [List.mem_cons] at ha hb
    rcases ha with ha | ha <;> rcases hb with hb | hb
    · rw [ha, hb]
    · subst ha; exact absurd hab.symm (h.1 b hb)
    · subst hb; exact absurd hab (h.1 a ha)
    · exact ih h.2 ha hb

/-- in a type without attributes (an interface) every function of `Functions(true)` is the member `Member` finds under its
    name, at its own type -/
theorem memberFn_allFuncs : ∀ {p : OType}, (∀ l ∈ p, l.attrs = []) → (∀ l ∈ p, (l.funcs.map (·.name)).Nodup) →
    ∀ f ∈ allFuncs p, memberFn p f.name = some f.ret
  | [], _, _ => by simp [allFuncs]
  | l :: q, hat, hnd => by
    have ih := memberFn_allFuncs (p := q) (fun x hx => hat x (by simp [hx])) (fun x hx => hnd x (by simp [hx]))
    intro f hf
    rw [allFuncs_cons, List.mem_append] at hf
    have hl : l.attrs = [] := hat l (by simp)
    unfold memberFn
    simp only [hl, List.any_nil, Bool.false_eq_true, if_false]
    rcases hf with hf | hf
    · rw [List.mem_map] at hf
      obtain ⟨f0, hf0, rfl⟩ := hf
      unfold replF
      cases hfind : l.funcs.find? (fun g => g.name == f0.name) with
      | some g =>
        have hgn := (findF_some hfind).2
        simp only [Option.getD_some, hgn, hfind]
      | none =>
        simp only [Option.getD_none, hfind]
        exact ih f0 hf0
    · rw [List.mem_filter] at hf
      cases hfind : l.funcs.find? (fun g => g.name == f.name) with
      | some g =>
        obtain ⟨hg, hgn⟩ := findF_some hfind
        have : g = f := fn_nodup_inj (hnd l (by simp)) hg hf.1 hgn
        simp [this]
      | none =>
        have := List.find?_eq_none.mp hfind f hf.1
        simp at this

/-- an interface ancestor accepts a descendant none of whose additional levels hides or re-types one of its functions -/
theorem implements_suffix {p : OType} (hat : ∀ l ∈ p, l.attrs = []) (hnd : ∀ l ∈ p, (l.funcs.map (·.name)).Nodup) :
    ∀ (pre : List Level),
      (∀ l ∈ pre, ∀ f ∈ allFuncs p, l.attrs.any (fun a => a.name == f.name) = false ∧
        ∀ g ∈ l.funcs, g.name = f.name → g.ret = f.ret) →
      implements (pre ++ p) p = true := by
  intro pre hpre
  unfold implements
  rw [List.all_eq_true]
  intro f hf
  simp only [beq_iff_eq]
  induction pre with
  | nil => simpa using memberFn_allFuncs hat hnd f hf
  | cons l pre' ih =>
    obtain ⟨hla, hlf⟩ := hpre l (by simp) f hf
    simp only [List.cons_append]
    unfold memberFn
    simp only [hla, Bool.false_eq_true, if_false]
    cases hfind : l.funcs.find? (fun g => g.name == f.name) with
    | some g =>
      obtain ⟨hg, hgn⟩ := findF_some hfind
      simp [hlf g hg hgn]
    | none =>
      simp only
      exact ih (fun x hx => hpre x (by simp [hx]))

end Pcore.Object
