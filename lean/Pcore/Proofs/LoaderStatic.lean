import Pcore.Model.LoaderStatic
import Pcore.Proofs.LoaderDep
/-! The global level: `ResolveResolvables` as a sequence of definitions; a definition in an ancestor after a miss
    (helper lemmas for C12_rr_*, C12_define_ancestor_after_miss). -/
namespace Pcore.LoaderSeq

attribute [local irreducible] segsOf canon

/-! ### `stepX` -/

theorem stepX_define_plain (tss : List (Option TypeSet)) (dps : List (Option Mods)) (s : Sys) (l : Nat) (n : Name) (v : V)
    (h : tsOf tss l = none) : stepX tss dps s (.define l n v) = define s l n v := by
  unfold stepX
  split
  · rfl
  · rw [stepT_plain tss s (.define l n v) h]; rfl

theorem stepX_plain (tss : List (Option TypeSet)) (dps : List (Option Mods)) (s : Sys) (op : Op)
    (ht : tsOf tss op.loader = none) (hd : ∀ a ∈ chain s.ps op.loader, dps.getD a none = none) :
    stepX tss dps s op = step s op := by
  unfold stepX
  split
  · exact stepD_plain dps s op hd
  · exact stepT_plain tss s op ht

theorem tsLoadEntry_ps (s : Sys) (l : Nat) (t : TypeSet) (n : Name) (segs : List String) :
    (tsLoadEntry s l t n segs).1.ps = s.ps := by
  induction segs with
  | nil => rfl
  | cons hd rest ih =>
    simp only [tsLoadEntry]
    split
    · rfl
    · split
      · rfl
      · split
        · exact ih
        · rfl

theorem tsLoadEntry_length (s : Sys) (l : Nat) (t : TypeSet) (n : Name) (segs : List String) :
    (tsLoadEntry s l t n segs).1.es.length = s.es.length := by
  induction segs with
  | nil => rfl
  | cons hd rest ih =>
    simp only [tsLoadEntry]
    split
    · rfl
    · split
      · rfl
      · split
        · exact ih
        · simp

/-- values are never overwritten — on a hierarchy with type-set leaves too -/
theorem bound_stepT_mono (tss : List (Option TypeSet)) (s : Sys) (op : Op) (l : Nat) (k : Key) (v : V)
    (h : bound s l k = some v) : bound (stepT tss s op).1 l k = some v := by
  cases op with
  | load l' n =>
    cases ht : tsOf tss l' with
    | none => rw [stepT_plain tss s (.load l' n) ht]; exact bound_step_mono s _ l k v h
    | some t =>
      by_cases ha : n.auth = runtimeAuthority
      · rw [stepT_load tss s l' t n ht ha, tsLoadEntry_bound]; exact h
      · rw [stepT_load_foreign tss s l' t n ht ha]; exact h
  | define l' n v' =>
    cases ht : tsOf tss l' with
    | none => rw [stepT_plain tss s (.define l' n v') ht]; exact bound_step_mono s _ l k v h
    | some t =>
      cases hp : s.ps.getD l' none with
      | some p => rw [stepT_define tss s l' p t n v' ht hp]; exact bound_step_mono s (.define p n v') l k v h
      | none =>
        have : stepT tss s (.define l' n v') = (s, .fault) := by unfold stepT; simp only [ht, hp]
        rw [this]; exact h
  | has l' n =>
    cases ht : tsOf tss l' with
    | none => rw [stepT_plain tss s (.has l' n) ht]; exact h
    | some t => rw [stepT_has tss s l' t n ht]; exact h
  | get _ _ => exact h
  | discover l' p =>
    cases ht : tsOf tss l' with
    | none => rw [stepT_plain tss s (.discover l' p) ht]; exact h
    | some t =>
      have : stepT tss s (.discover l' p) = (s, .keys (tsDiscover s l' t p)) := by unfold stepT; simp only [ht]
      rw [this]; exact h

theorem bound_stepX_mono (tss : List (Option TypeSet)) (dps : List (Option Mods)) (s : Sys) (op : Op) (l : Nat) (k : Key)
    (v : V) (h : bound s l k = some v) : bound (stepX tss dps s op).1 l k = some v := by
  unfold stepX
  split
  · exact bound_stepD_mono dps s op l k v h
  · exact bound_stepT_mono tss s op l k v h

/-! ### the `SetEntry` loop of `resolveResolvables` -/

theorem rrLoop_cons (tss : List (Option TypeSet)) (dps : List (Option Mods)) (s : Sys) (l : Nat) (n : Name) (v : V)
    (r : List (Name × V)) :
    rrLoop tss dps s l ((n, v) :: r) =
      if (stepX tss dps s (.define l n v)).2 = .ok then rrLoop tss dps (stepX tss dps s (.define l n v)).1 l r
      else stepX tss dps s (.define l n v) := by
  simp only [rrLoop]
  generalize stepX tss dps s (.define l n v) = r1
  obtain ⟨s1, a⟩ := r1
  cases a <;> simp

theorem bound_rrLoop_mono (tss : List (Option TypeSet)) (dps : List (Option Mods)) (s : Sys) (l : Nat)
    (q : List (Name × V)) (l' : Nat) (k : Key) (v : V) (h : bound s l' k = some v) :
    bound (rrLoop tss dps s l q).1 l' k = some v := by
  induction q generalizing s with
  | nil => exact h
  | cons hd r ih =>
    obtain ⟨n, w⟩ := hd
    rw [rrLoop_cons]
    split
    · exact ih _ (bound_stepX_mono tss dps s _ l' k v h)
    · exact bound_stepX_mono tss dps s _ l' k v h

/-- an accepted definition binds the name to the value offered -/
theorem define_ok_bound (s : Sys) (l : Nat) (n : Name) (v : V) (hl : l < s.es.length) (h : (define s l n v).2 = .ok) :
    bound (define s l n v).1 l (canon n) = some v := by
  cases hb : bound s l (canon n) with
  | none => exact (define_unbound s l n v hl hb).2.1
  | some w =>
    by_cases hv : v = w
    · subst hv
      obtain ⟨h1, h2, _⟩ := setEntry_bound (s.ents l) (canon n) v v hb
      have : setEntry (s.ents l) (canon n) (some v) = ((setEntry (s.ents l) (canon n) (some v)).1, .kept) := by
        rw [← h2 rfl]
      unfold define; rw [this]; exact hb
    · exfalso
      obtain ⟨_, _, h3⟩ := setEntry_bound (s.ents l) (canon n) w v hb
      unfold define at h
      rcases h3 hv with h3 | h3
      · have : setEntry (s.ents l) (canon n) (some v) = ((setEntry (s.ents l) (canon n) (some v)).1, .redefineType) := by
          rw [← h3]
        rw [this] at h; cases h
      · have : setEntry (s.ents l) (canon n) (some v) = ((setEntry (s.ents l) (canon n) (some v)).1, .redefine) := by
          rw [← h3]
        rw [this] at h; cases h

theorem define_length (s : Sys) (l : Nat) (n : Name) (v : V) : (define s l n v).1.es.length = s.es.length := by
  have := step_length s (.define l n v); simpa only [step] using this

/-- when `ResolveResolvables` returns normally every declared type is bound, to the value declared, in the loader of the
    context -/
theorem rrLoop_ok_bound (tss : List (Option TypeSet)) (dps : List (Option Mods)) (s : Sys) (l : Nat)
    (q : List (Name × V)) (ht : tsOf tss l = none) (hl : l < s.es.length) (h : (rrLoop tss dps s l q).2 = .ok) :
    ∀ nv ∈ q, bound (rrLoop tss dps s l q).1 l (canon nv.1) = some nv.2 := by
  induction q generalizing s with
  | nil => intro nv hnv; cases hnv
  | cons hd r ih =>
    obtain ⟨n, w⟩ := hd
    rw [rrLoop_cons] at h ⊢
    rw [stepX_define_plain tss dps s l n w ht] at h ⊢
    by_cases hok : (define s l n w).2 = .ok
    · simp only [hok, if_true] at h ⊢
      have hl1 : l < (define s l n w).1.es.length := by rw [define_length]; exact hl
      intro nv hnv
      rcases List.mem_cons.mp hnv with rfl | hnv
      · exact bound_rrLoop_mono tss dps _ l r l _ _ (define_ok_bound s l n w hl hok)
      · exact ih _ hl1 h nv hnv
    · simp only [hok, if_false] at h

/-! ### a definition in an ancestor after a miss -/

theorem findSome?_unique {α β : Type} (g : α → Option β) (xs : List α) (v : β)
    (hx : ∀ x ∈ xs, g x = none ∨ g x = some v) (hex : ∃ x ∈ xs, g x = some v) : xs.findSome? g = some v := by
  induction xs with
  | nil => obtain ⟨x, hx', _⟩ := hex; cases hx'
  | cons a t ih =>
    simp only [List.findSome?_cons]
    rcases hx a (by simp) with h | h
    · simp only [h]
      apply ih (fun y hy => hx y (by simp [hy]))
      obtain ⟨x, hmem, hv⟩ := hex
      rcases List.mem_cons.mp hmem with rfl | hmem
      · rw [h] at hv; cases hv
      · exact ⟨x, hmem, hv⟩
    · simp [h]

end Pcore.LoaderSeq
