import Pcore.Model.LoaderStatic
import Pcore.Proofs.LoaderDep
/-! The global level: `ResolveResolvables` as a sequence of definitions; a definition in an ancestor after a miss
    (helper lemmas for C12_rr_*, C12_define_ancestor_after_miss). -/
namespace Pcore.LoaderSeq

attribute [local irreducible] segsOf canon

/-! ### `stepX` -/

theorem stepX_define_plain (tss : List (Option TypeSet)) (dps : List (Option Mods)) (s : Sys) (l : Nat) (n : Name) (v : V)
    (h : tsOf tss l = none) : stepX tss dps s (.define l n v) = define s l n v := by
  unfold stepX
  split
  · rfl
  · rw [stepT_plain tss s (.define l n v) h]; rfl

theorem stepX_plain (tss : List (Option TypeSet)) (dps : List (Option Mods)) (s : Sys) (op : Op)
    (ht : tsOf tss op.loader = none) (hd : ∀ a ∈ chain s.ps op.loader, dps.getD a none = none) :
    stepX tss dps s op = step s op := by
  unfold stepX
  split
  · exact stepD_plain dps s op hd
  · exact stepT_plain tss s op ht

theorem tsLoadEntry_ps (s : Sys) (l : Nat) (t : TypeSet) (n : Name) (segs : List String) :
    (tsLoadEntry s l t n segs).1.ps = s.ps := by
  induction segs with
  | nil => rfl
  | cons hd rest ih =>
    simp only [tsLoadEntry]
    split
    · rfl
    · split
      · rfl
      · split
        · exact ih
        · rfl

theorem tsLoadEntry_length (s : Sys) (l : Nat) (t : TypeSet) (n : Name) (segs : List String) :
    (tsLoadEntry s l t n segs).1.es.length = s.es.length := by
  induction segs with
  | nil => rfl
  | cons hd rest ih =>
    simp only [tsLoadEntry]
    split
    · rfl
    · split
      · rfl
      · split
        · exact ih
        · simp

/-- values are never overwritten — on a hierarchy with type-set leaves too -/
theorem bound_stepT_mono (tss : List (Option TypeSet)) (s : Sys) (op : Op) (l : Nat) (k : Key) (v : V)
    (h : bound s l k = some v) : bound (stepT tss s op).1 l k = some v := by
  cases op with
  | load l' n =>
    cases ht : tsOf tss l' with
    | none => rw [stepT_plain tss s (.load l' n) ht]; exact bound_step_mono s _ l k v h
    | some t =>
      by_cases ha : n.auth = runtimeAuthority
      · rw [stepT_load tss s l' t n ht ha, tsLoadEntry_bound]; exact h
      · rw [stepT_load_foreign tss s l' t n ht ha]; exact h
  | define l' n v' =>
    cases ht : tsOf tss l' with
    | none => rw [stepT_plain tss s (.define l' n v') ht]; exact bound_step_mono s _ l k v h
    | some t =>
      cases hp : s.ps.getD l' none with
      | some p => rw [stepT_define tss s l' p t n v' ht hp]; exact bound_step_mono s (.define p n v') l k v h
      | none =>
        have : stepT tss s (.define l' n v') = (s, .fault) := by unfold stepT; simp only [ht, hp]
        rw [this]; exact h
  | has l' n =>
    cases ht : tsOf tss l' with
    | none => rw [stepT_plain tss s (.has l' n) ht]; exact h
    | some t => rw [stepT_has tss s l' t n ht]; exact h
  | get _ _ => exact h
  | discover l' p =>
    cases ht : tsOf tss l' with
    | none => rw [stepT_plain tss s (.discover l' p) ht]; exact h
    | some t =>
      have : stepT tss s (.discover l' p) = (s, .keys (tsDiscover s l' t p)) := by unfold stepT; simp only [ht]
      rw [this]; exact h

theorem bound_stepX_mono (tss : List (Option TypeSet)) (dps : List (Option Mods)) (s : Sys) (op : Op) (l : Nat) (k : Key)
    (v : V) (h : bound s l k = some v) : bound (stepX tss dps s op).1 l k = some v := by
  unfold stepX
  split
  · exact bound_stepD_mono dps s op l k v h
  · exact bound_stepT_mono tss s op l k v h

/-! ### the `SetEntry` loop of `resolveResolvables` -/

theorem rrLoop_cons (tss : List (Option TypeSet)) (dps : List (Option Mods)) (s : Sys) (l : Nat) (n : Name) (v : V)
    (r : List (Name × V)) :
    rrLoop tss dps s l ((n, v) :: r) =
      if (stepX tss dps s (.define l n v)).2 = .ok then rrLoop tss dps (stepX tss dps s (.define l n v)).1 l r
      else stepX tss dps s (.define l n v) := by
  simp only [rrLoop]
  generalize stepX tss dps s (.define l n v) = r1
  obtain ⟨s1, a⟩ := r1
  cases a <;> simp

theorem bound_rrLoop_mono (tss : List (Option TypeSet)) (dps : List (Option Mods)) (s : Sys) (l : Nat)
    (q : List (Name × V)) (l' : Nat) (k : Key) (v : V) (h : bound s l' k = some v) :
    bound (rrLoop tss dps s l q).1 l' k = some v := by
  induction q generalizing s with
  | nil => exact h
  | cons hd r ih =>
    obtain ⟨n, w⟩ := hd
    rw [rrLoop_cons]
    split
    · exact ih _ (bound_stepX_mono tss dps s _ l' k v h)
    · exact bound_stepX_mono tss dps s _ l' k v h

/-- an accepted definition binds the name to the value offered -/
theorem define_ok_bound (s : Sys) (l : Nat) (n : Name) (v : V) (hl : l < s.es.length) (h : (define s l n v).2 = .ok) :
    bound (define s l n v).1 l (canon n) = some v := by
  cases hb : bound s l (canon n) with
  | none => exact (define_unbound s l n v hl hb).2.1
  | some w =>
    by_cases hv : v = w
    · subst hv
      obtain ⟨h1, h2, _⟩ := setEntry_bound (s.ents l) (canon n) v v hb
      have : setEntry (s.ents l) (canon n) (some v) = ((setEntry (s.ents l) (canon n) (some v)).1, .kept) := by
        rw [← h2 rfl]
      unfold define; rw [this]; exact hb
    · exfalso
      obtain ⟨_, _, h3⟩ := setEntry_bound (s.ents l) (canon n) w v hb
      unfold define at h
      rcases h3 hv with h3 | h3
      · have : setEntry (s.ents l) (canon n) (some v) = ((setEntry (s.ents l) (canon n) (some v)).1, .redefineType) := by
          rw [← h3]
        rw [this] at h; cases h
      · have : setEntry (s.ents l) (canon n) (some v) = ((setEntry (s.ents l) (canon n) (some v)).1, .redefine) := by
          rw [← h3]
        rw [this] at h; cases h

theorem define_length (s : Sys) (l : Nat) (n : Name) (v : V) : (define s l n v).1.es.length = s.es.length := by
  have := step_length s (.define l n v); simpa only [step] using this

/-- when `ResolveResolvables` returns normally every declared type is bound, to the value declared, in the loader of the
    context -/
theorem rrLoop_ok_bound (tss : List (Option TypeSet)) (dps : List (Option Mods)) (s : Sys) (l : Nat)
    (q : List (Name × V)) (ht : tsOf tss l = none) (hl : l < s.es.length) (h : (rrLoop tss dps s l q).2 = .ok) :
    ∀ nv ∈ q, bound (rrLoop tss dps s l q).1 l (canon nv.1) = some nv.2 := by
  induction q generalizing s with
  | nil => intro nv hnv; cases hnv
  | cons hd r ih =>
    obtain ⟨n, w⟩ := hd
    rw [rrLoop_cons] at h ⊢
    rw [stepX_define_plain tss dps s l n w ht] at h ⊢
    by_cases hok : (define s l n w).2 = .ok
    · simp only [hok, if_true] at h ⊢
      have hl1 : l < (define s l n w).1.es.length := by rw [define_length]; exact hl
      intro nv hnv
      rcases List.mem_cons.mp hnv with rfl | hnv
      · exact bound_rrLoop_mono tss dps _ l r l _ _ (define_ok_bound s l n w hl hok)
      · exact ih _ hl1 h nv hnv
    · simp only [hok, if_false] at h

/-! ### a definition in an ancestor after a miss -/

theorem findSome?_unique {α β : Type} (g : α → Option β) (xs : List α) (v : β)
    (hx : ∀ x ∈ xs, g x = none ∨ g x = some v) (hex : ∃ x ∈ xs, g x = some v) : xs.findSome? g = some v := by
  induction xs with
  | nil => obtain ⟨x, hx', _⟩ := hex; cases hx'
  | cons a t ih =>
    simp only [List.findSome?_cons]
    rcases hx a (by simp) with h | h
    · simp only [h]
      apply ih (fun y hy => hx y (by simp [hy]))
      obtain ⟨x, hmem, hv⟩ := hex
      rcases List.mem_cons.mp hmem with rfl | hmem
      · rw [h] at hv; cases hv
      · exact ⟨x, hmem, hv⟩
    · simp [h]

/-! ### `AddTypes` of a type set -/

theorem define_ps (s : Sys) (l : Nat) (n : Name) (v : V) : (define s l n v).1.ps = s.ps := by
  have := step_ps s (.define l n v); simpa only [step] using this

/-- a definition touches one binding: the one of the loader and the name it addresses -/
theorem define_bound_frame (s : Sys) (l : Nat) (n : Name) (v : V) (l' : Nat) (k' : Key) (h : l' ≠ l ∨ k' ≠ canon n) :
    bound (define s l n v).1 l' k' = bound s l' k' := by
  unfold define
  split
  · rename_i es' heq
    have hes : es' = (setEntry (s.ents l) (canon n) (some v)).1 := by rw [heq]
    subst hes
    simp only [bound, ents_setEnts]
    split
    · rename_i hc
      obtain ⟨rfl, _⟩ := hc
      rcases h with h | h
      · exact absurd rfl h
      · rw [setEntry_lk_other h]
    · rfl
  · rfl
  · rfl
  · rfl

theorem bound_define_mono (s : Sys) (l : Nat) (n : Name) (v : V) (l' : Nat) (k : Key) (w : V)
    (h : bound s l' k = some w) : bound (define s l n v).1 l' k = some w :=
  bound_step_mono s (.define l n v) l' k w h

/-- a definition of another name changes no resolution of this one -/
theorem resolve_define_other (s : Sys) (l : Nat) (n : Name) (v : V) (l' : Nat) (k' : Key) (h : k' ≠ canon n) :
    resolve (define s l n v).1 l' k' = resolve s l' k' := by
  unfold resolve
  rw [define_ps]
  congr 1
  funext a
  exact define_bound_frame s l n v a k' (Or.inr h)

/-- a definition in the loader itself changes no resolution through it that has a value -/
theorem resolve_define_stable (s : Sys) (l : Nat) (n : Name) (v : V) (k : Key) (w : V)
    (hshape : l ∉ ancestors s.ps l) (h : resolve s l k = some w) : resolve (define s l n v).1 l k = some w := by
  unfold resolve at *
  rw [define_ps]
  rw [chain_eq, List.reverse_cons] at h ⊢
  apply findSome?_stable (fun a => bound s a k) (fun a => bound (define s l n v).1 a k) _ _ w h
  · intro x _ u hu; exact bound_define_mono s l n v x k u hu
  · intro x hx hn
    have hxl : x ≠ l := by
      intro e; subst e; exact hshape (List.mem_reverse.mp hx)
    rw [define_bound_frame s l n v x k (Or.inl hxl)]; exact hn

/-- defining a name that does not resolve binds it, and it resolves to the value defined -/
theorem resolve_define_new (s : Sys) (l : Nat) (n : Name) (v : V) (hl : l < s.es.length)
    (h : resolve s l (canon n) = none) :
    (define s l n v).2 = .ok ∧ resolve (define s l n v).1 l (canon n) = some v := by
  have hall : ∀ x ∈ chain s.ps l, bound s x (canon n) = none := by
    intro x hx
    unfold resolve at h
    rw [List.findSome?_eq_none_iff] at h
    exact h x (List.mem_reverse.mpr hx)
  have hmem : l ∈ chain s.ps l := by rw [chain_eq]; simp
  obtain ⟨d1, d2, d3⟩ := define_unbound s l n v hl (hall l hmem)
  refine ⟨d1, ?_⟩
  unfold resolve
  rw [define_ps]
  apply findSome?_unique
  · intro x hx
    by_cases hxl : x = l
    · subst hxl; exact Or.inr d2
    · left; rw [d3 x (canon n) (Or.inl hxl)]; exact hall x (List.mem_reverse.mp hx)
  · exact ⟨l, List.mem_reverse.mpr hmem, d2⟩

/-- `resolveTypeSet` on a chain without dependency loader, one member at a time, in terms of the specification `resolve` -/
theorem addMembers_cons_plain (dps : List (Option Mods)) (s : Sys) (l : Nat) (ts m : String) (k : Nat)
    (r : List (String × Nat)) (hd : ∀ a ∈ chain s.ps l, dps.getD a none = none) :
    addMembers dps s l ts ((m, k) :: r) =
      if (resolve s l (canon (memberName ts m))).isSome then addMembers dps s l ts r
      else if (define s l (memberName ts m) (memberVal ts m k)).2 = .ok then
        addMembers dps (define s l (memberName ts m) (memberVal ts m k)).1 l ts r
      else define s l (memberName ts m) (memberVal ts m k) := by
  simp only [addMembers]
  rw [loadEntryD_plain dps s _ _ hd, resolve_eq_join]
  cases hc : loadEntryC s.es (chain s.ps l) (canon (memberName ts m)) with
  | none =>
    simp only [Option.join_none, Option.isSome_none, Bool.false_eq_true, if_false]
    generalize define s l (memberName ts m) (memberVal ts m k) = d
    obtain ⟨s2, a⟩ := d
    cases a <;> simp
  | some o =>
    cases o with
    | none =>
      simp only [Option.join_some, Option.isSome_none, Bool.false_eq_true, if_false]
      generalize define s l (memberName ts m) (memberVal ts m k) = d
      obtain ⟨s2, a⟩ := d
      cases a <;> simp
    | some w => simp

theorem bound_addMembers_mono (dps : List (Option Mods)) (s : Sys) (l : Nat) (ts : String) (ms : List (String × Nat))
    (l' : Nat) (k : Key) (w : V) (h : bound s l' k = some w) : bound (addMembers dps s l ts ms).1 l' k = some w := by
  induction ms generalizing s with
  | nil => exact h
  | cons hd r ih =>
    obtain ⟨m, j⟩ := hd
    simp only [addMembers]
    have h1 := loadEntryD_bound_mono dps s (chain s.ps l) (memberName ts m) l' k w h
    generalize loadEntryD dps s (chain s.ps l) (memberName ts m) = le at h1
    obtain ⟨s1, e⟩ := le
    have hdef := bound_define_mono s1 l (memberName ts m) (memberVal ts m j) l' k w h1
    cases e with
    | bad => exact h1
    | ok o =>
      cases o with
      | none =>
        simp only
        generalize define s1 l (memberName ts m) (memberVal ts m j) = d at hdef
        obtain ⟨s2, a⟩ := d
        cases a <;> first | exact ih _ hdef | exact hdef
      | some o2 =>
        cases o2 with
        | some _ => exact ih _ h1
        | none =>
          simp only
          generalize define s1 l (memberName ts m) (memberVal ts m j) = d at hdef
          obtain ⟨s2, a⟩ := d
          cases a <;> first | exact ih _ hdef | exact hdef

theorem bound_addTypeSet_mono (dps : List (Option Mods)) (s : Sys) (l : Nat) (ts : String) (ver : Nat)
    (ms : List (String × Nat)) (l' : Nat) (k : Key) (w : V) (h : bound s l' k = some w) :
    bound (addTypeSet dps s l ts ver ms).1 l' k = some w := by
  unfold addTypeSet
  have h1 := bound_addMembers_mono dps s l ts ms l' k w h
  generalize addMembers dps s l ts ms = r at h1
  obtain ⟨s1, a⟩ := r
  cases a <;> first | exact bound_define_mono s1 l _ _ l' k w h1 | exact h1

/-- what `resolveTypeSet` leaves behind on a hierarchy of plain loaders: every member resolves through the loader — to what
    it resolved to before, otherwise to the member — and nothing was rejected -/
theorem addMembers_spec (dps : List (Option Mods)) (s : Sys) (l : Nat) (ts : String) (ms : List (String × Nat))
    (hd : ∀ a ∈ chain s.ps l, dps.getD a none = none) (hshape : l ∉ ancestors s.ps l) (hl : l < s.es.length)
    (hnd : (ms.map fun m => canon (memberName ts m.1)).Nodup) :
    (addMembers dps s l ts ms).2 = .ok ∧ (addMembers dps s l ts ms).1.ps = s.ps ∧
    (addMembers dps s l ts ms).1.es.length = s.es.length ∧
    (∀ k', k' ∉ ms.map (fun m => canon (memberName ts m.1)) →
      resolve (addMembers dps s l ts ms).1 l k' = resolve s l k') ∧
    ∀ m ∈ ms, resolve (addMembers dps s l ts ms).1 l (canon (memberName ts m.1)) =
      some ((resolve s l (canon (memberName ts m.1))).getD (memberVal ts m.1 m.2)) := by
  induction ms generalizing s with
  | nil => exact ⟨rfl, rfl, rfl, fun _ _ => rfl, fun m hm => by cases hm⟩
  | cons hd0 r ih =>
    obtain ⟨m, j⟩ := hd0
    simp only [List.map_cons, List.nodup_cons] at hnd
    obtain ⟨hnotin, hnd'⟩ := hnd
    rw [addMembers_cons_plain dps s l ts m j r hd]
    by_cases hres : (resolve s l (canon (memberName ts m))).isSome = true
    · -- already known: skipped
      simp only [hres, if_true]
      obtain ⟨i1, i2, i3, i4, i5⟩ := ih s hd hshape hl hnd'
      refine ⟨i1, i2, i3, ?_, ?_⟩
      · intro k' hk'
        simp only [List.map_cons, List.mem_cons, not_or] at hk'
        exact i4 k' hk'.2
      · intro x hx
        rcases List.mem_cons.mp hx with rfl | hx
        · simp only
          rw [i4 _ hnotin]
          obtain ⟨w, hw⟩ := Option.isSome_iff_exists.mp hres
          rw [hw]; rfl
        · exact i5 x hx
    · -- not known: defined, accepted
      have hnone : resolve s l (canon (memberName ts m)) = none := by
        cases h : resolve s l (canon (memberName ts m)) with
        | none => rfl
        | some w => rw [h] at hres; simp at hres
      obtain ⟨dok, dres⟩ := resolve_define_new s l (memberName ts m) (memberVal ts m j) hl hnone
      simp only [hnone, Option.isSome_none, Bool.false_eq_true, if_false, dok, if_true]
      have hps := define_ps s l (memberName ts m) (memberVal ts m j)
      have hlen := define_length s l (memberName ts m) (memberVal ts m j)
      obtain ⟨i1, i2, i3, i4, i5⟩ := ih (define s l (memberName ts m) (memberVal ts m j)).1
        (by rw [hps]; exact hd) (by rw [hps]; exact hshape) (by rw [hlen]; exact hl) hnd'
      refine ⟨i1, by rw [i2, hps], by rw [i3, hlen], ?_, ?_⟩
      · intro k' hk'
        simp only [List.map_cons, List.mem_cons, not_or] at hk'
        rw [i4 k' hk'.2, resolve_define_other s l _ _ l k' hk'.1]
      · intro x hx
        rcases List.mem_cons.mp hx with rfl | hx
        · simp only
          rw [i4 _ hnotin, dres, hnone]; rfl
        · rw [i5 x hx]
          have hne : canon (memberName ts x.1) ≠ canon (memberName ts m) := by
            intro e; apply hnotin; rw [← e]; exact List.mem_map_of_mem (f := fun m => canon (memberName ts m.1)) hx
          rw [resolve_define_other s l _ _ l _ hne]

end Pcore.LoaderSeq
