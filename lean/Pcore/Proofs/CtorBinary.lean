import Pcore.Proofs.DispatchCtors
import Pcore.Proofs.SerB64
import Pcore.Model.CtorBinary
/-!
The Binary constructor (Model/CtorBinary.lean): no fault arm is reachable, the strict base64 text of a byte string and the
byte array of a byte string give that byte string back, and the two named forms that always fail.  Core Lean only.
-/
namespace Pcore.Dispatch.Alpha

theorem binaryFromString_no_fault (s f : String) : binaryFromString s f ≠ .fault := by
  unfold binaryFromString
  simp only
  split
  · split <;> simp
  · split
    · split <;> simp
    · split
      · split <;> simp
      · split <;> simp

theorem strOf_of_str (v : Val) (h : inst (.str 0 none) v = true) : ∃ s, strOf v = some s := by
  cases v <;> simp [inst] at h
  exact ⟨_, rfl⟩

theorem strOf_of_encoding (v : Val) (h : inst encodingTy v = true) : ∃ s, strOf v = some s := by
  cases v <;> simp [encodingTy, inst] at h
  exact ⟨_, rfl⟩

theorem strOf_of_optEncoding (v : Val) (h : inst (.opt encodingTy) v = true) : ∃ s, strOf v = some s := by
  cases v <;> simp [encodingTy, inst] at h <;> exact ⟨_, rfl⟩

theorem binary_no_fault (args : List Val) : ctorCall binaryCtor args ≠ .fault := by
  rcases ctorCall_cases binaryCtor args ⟨_, rfl⟩ with h | ⟨i, cr, hcr, hacc, hcall⟩
  · rw [h]; simp
  · rw [hcall]
    obtain ⟨⟨hreq, _, hargs⟩, _⟩ := hacc
    match i, hcr with
    | 0, hcr =>
      simp [binaryCtor] at hcr; subst hcr
      simp only [paramsOf, List.filterMap, BOp.param?] at hreq hargs
      have h0 := hreq 0 (.req, .str 0 none) (by simp) rfl
      match args, h0 with
      | a0 :: rest, _ =>
        obtain ⟨p0, hp0, hi0⟩ := hargs 0 a0 (by simp)
        simp at hp0; subst hp0
        obtain ⟨s, hs⟩ := strOf_of_str a0 hi0
        match rest with
        | [] => simpa [binaryCtor, hs] using binaryFromString_no_fault s "%B"
        | a1 :: more =>
          obtain ⟨p1, hp1, hi1⟩ := hargs 1 a1 (by simp)
          simp at hp1; subst hp1
          obtain ⟨f, hf⟩ := strOf_of_encoding a1 hi1
          simpa [binaryCtor, hs, hf] using binaryFromString_no_fault s f
    | 1, hcr =>
      simp [binaryCtor] at hcr; subst hcr
      simp only [paramsOf, List.filterMap, BOp.param?] at hreq hargs
      have h0 := hreq 0 (.req, byteArrayTy) (by simp) rfl
      match args, h0 with
      | a0 :: rest, _ =>
        obtain ⟨p0, hp0, hi0⟩ := hargs 0 a0 (by simp)
        simp at hp0; subst hp0
        cases a0 <;> simp [byteArrayTy, inst] at hi0
        simp only [binaryCtor]
        split <;> simp
    | 2, hcr =>
      simp [binaryCtor] at hcr; subst hcr
      simp only [paramsOf, List.filterMap, BOp.param?] at hreq hargs
      have h0 := hreq 0 (.req, stringHashTy) (by simp) rfl
      match args, h0 with
      | a0 :: rest, _ =>
        obtain ⟨p0, hp0, hi0⟩ := hargs 0 a0 (by simp)
        simp at hp0; subst hp0
        obtain ⟨es, rfl, -, hm⟩ := inst_struct _ (by decide) a0 hi0
        have hv := hm ("value", false, .str 0 none) (by simp)
        have hf := hm ("format", true, .opt encodingTy) (by simp)
        simp only [binaryCtor]
        rcases hv with ⟨x, hx, hix⟩ | ⟨h, _⟩
        · obtain ⟨s, hs⟩ := strOf_of_str x hix
          rcases hf with ⟨y, hy, hiy⟩ | ⟨_, hy⟩
          · obtain ⟨f, hf'⟩ := strOf_of_optEncoding y hiy
            simpa [hx, hy, hs, hf'] using binaryFromString_no_fault s f
          · have hu : strOf Val.undef = some "undef" := rfl
            simpa [hx, hy, hs, hu] using binaryFromString_no_fault s "undef"
        · cases h
    | 3, hcr =>
      simp [binaryCtor] at hcr; subst hcr
      simp only [paramsOf, List.filterMap, BOp.param?] at hreq hargs
      have h0 := hreq 0 (.req, arrayHashTy) (by simp) rfl
      match args, h0 with
      | a0 :: rest, _ =>
        obtain ⟨p0, hp0, hi0⟩ := hargs 0 a0 (by simp)
        simp at hp0; subst hp0
        obtain ⟨es, rfl, -, -⟩ := inst_struct _ (by decide) a0 hi0
        simp only [binaryCtor]
        split <;> simp
    | n + 4, hcr => simp [binaryCtor] at hcr

end Pcore.Dispatch.Alpha

namespace Pcore.Dispatch.Alpha
open Pcore.Ser

theorem b64Digit_not_nl : ∀ m, m < 64 → (b64Digit m != '\r' && b64Digit m != '\n') = true := by decide

theorem b64Char_keep (n : Nat) : (b64Char n != '\r' && b64Char n != '\n') = true :=
  b64Digit_not_nl (n % 64) (Nat.mod_lt _ (by decide))

theorem stripNL_b64Chars : ∀ bs : List UInt8, stripNL (b64Chars bs) = b64Chars bs
  | [] => rfl
  | [a] => by simp [b64Chars, stripNL, List.filter, b64Char_keep]
  | [a, b] => by simp [b64Chars, stripNL, List.filter, b64Char_keep]
  | a :: b :: c :: rest => by
    have ih := stripNL_b64Chars rest
    simp only [stripNL] at ih
    simp [b64Chars, stripNL, List.filter, b64Char_keep, ih]

/-- the strict base64 text of a byte string decodes to that byte string (the round trip of the serialization model's codec,
    `unb64Chars_b64Chars`, carried through the newline filter) -/
theorem binaryFromString_b64 (bs : List UInt8) : binaryFromString (b64 bs) "%B" = .value (.binary bs) := by
  have hd : ("%B" : String) ≠ "%b" := by decide
  have hu : ("%B" : String) ≠ "%u" := by decide
  simp [binaryFromString, hd, hu, b64, stripNL_b64Chars, unb64Chars_b64Chars]

theorem binaryFromList_bytes (bs : List UInt8) : binaryFromList (bs.map fun b => .int b.toNat) = some bs := by
  induction bs with
  | nil => rfl
  | cons b bs ih =>
    have h1 : (0 : Int) ≤ (b.toNat : Int) := Int.natCast_nonneg _
    have h2 : (b.toNat : Int) ≤ 255 := by have := b.toNat_lt; omega
    simp [binaryFromList, ih, h1, h2]

theorem run_binary_str (s : String) (rest : List Val) (hr : rest = [] ∨ rest = [.str "%B"]) :
    run inst binst binaryCtor.creators (.str s :: rest) (none : Option Blk) = .called (.ran 0) := by
  rcases hr with rfl | rfl <;>
  simp [run, binaryCtor, buildAll, buildOne, steps, step, finish, Builder.init, resolveAll, createDispatch, leMax, ltMax, succMax,
    call, callFrom, callableWith, blockOK, tupleInst, sizeOK, instLoop, inst, encodingTy]

theorem byteArray_inst (bs : List UInt8) : inst byteArrayTy (.arr (bs.map fun b => .int b.toNat)) = true := by
  simp only [byteArrayTy, inst, leMax, Bool.and_true, List.all_eq_true, Nat.zero_le, decide_true, Bool.true_and]
  intro x hx
  obtain ⟨b, _, rfl⟩ := List.mem_map.mp hx
  have h2 : (b.toNat : Int) ≤ 255 := by have := b.toNat_lt; omega
  simp [inRange, h2]

theorem run_binary_arr (vs : List Val) (h : inst byteArrayTy (.arr vs) = true) :
    run inst binst binaryCtor.creators [.arr vs] (none : Option Blk) = .called (.ran 1) := by
  simp [run, binaryCtor, buildAll, buildOne, steps, step, finish, Builder.init, resolveAll, createDispatch, leMax, ltMax, succMax,
    call, callFrom, callableWith, blockOK, tupleInst, sizeOK, instLoop, h]
  simp [inst]

theorem binaryCtor_b64 (bs : List UInt8) :
    ctorCall binaryCtor [.str (b64 bs)] = .value (.binary bs) ∧
    ctorCall binaryCtor [.str (b64 bs), .str "%B"] = .value (.binary bs) := by
  constructor
  · unfold ctorCall
    rw [run_binary_str _ [] (Or.inl rfl)]
    simp [binaryCtor, strOf, binaryFromString_b64]
  · unfold ctorCall
    rw [run_binary_str _ _ (Or.inr rfl)]
    simp [binaryCtor, strOf, binaryFromString_b64]

theorem binaryCtor_bytes (bs : List UInt8) :
    ctorCall binaryCtor [.arr (bs.map fun b => .int b.toNat)] = .value (.binary bs) := by
  unfold ctorCall
  rw [run_binary_arr _ (byteArray_inst bs)]
  simp [binaryCtor, binaryFromList_bytes]

/-! the named forms -/

theorem run_binary_hash (es : List (Val × Val)) :
    run inst binst binaryCtor.creators [.hash es] (none : Option Blk) =
      .called (if inst stringHashTy (.hash es) then .ran 2 else if inst arrayHashTy (.hash es) then .ran 3 else .reported) := by
  simp [run, binaryCtor, buildAll, buildOne, steps, step, finish, Builder.init, resolveAll, createDispatch, leMax, ltMax, succMax,
    call, callFrom, callableWith, blockOK, tupleInst, sizeOK, instLoop]
  simp [inst, byteArrayTy]

/-- `Binary.new({value => s})` — no `format`: `undef.String()` is handed to `BinaryFromString` as the format -/
theorem binaryCtor_named_no_format (s : String) :
    ctorCall binaryCtor [.hash [(.str "value", .str s)]] = .reported "ILLEGAL_ARGUMENT" := by
  unfold ctorCall
  rw [run_binary_hash]
  have h1 : inst stringHashTy (.hash [(.str "value", .str s)]) = true := by
    simp [stringHashTy, inst, instMembers, lookupKey, leMax]
  simp only [h1, if_true]
  have hb : ("undef" : String) ≠ "%b" := by decide
  have hu : ("undef" : String) ≠ "%u" := by decide
  have hB : ("undef" : String) ≠ "%B" := by decide
  have hs : ("undef" : String) ≠ "%s" := by decide
  have hr : ("undef" : String) ≠ "%r" := by decide
  simp [binaryCtor, lookupKey, strOf, binaryFromString, hb, hu, hB, hs, hr]

/-- `Binary.new({value => [bytes…]})`: the hash, not the array, is handed to `BinaryFromArray` -/
theorem binaryCtor_named_array (vs : List Val) :
    ctorCall binaryCtor [.hash [(.str "value", .arr vs)]] = .reported "ILLEGAL_ARGUMENT" ∨
    ctorCall binaryCtor [.hash [(.str "value", .arr vs)]] = .reported "ILLEGAL_ARGUMENTS" := by
  unfold ctorCall
  rw [run_binary_hash]
  have h1 : inst stringHashTy (.hash [(.str "value", .arr vs)]) = false := by
    simp [stringHashTy, inst, instMembers, lookupKey]
  simp only [h1]
  by_cases h2 : inst arrayHashTy (.hash [(.str "value", .arr vs)]) = true
  · left; simp [h2, binaryCtor]
  · right; simp [h2]

end Pcore.Dispatch.Alpha
