import Pcore.Proofs.FormatBasic
/-! Digit lists: `toDigits` is inverted by `ofDigits`, has digits below the base and no leading zero. -/
namespace Pcore.Format

/-- value of a big-endian digit list -/
def ofDigits (b : Nat) (ds : List Nat) : Nat := ds.foldl (fun acc d => acc * b + d) 0

theorem ofDigits_append (b : Nat) (xs ys : List Nat) :
    ofDigits b (xs ++ ys) = ys.foldl (fun acc d => acc * b + d) (ofDigits b xs) := by
  simp [ofDigits, List.foldl_append]

theorem ofDigits_snoc (b : Nat) (xs : List Nat) (d : Nat) : ofDigits b (xs ++ [d]) = ofDigits b xs * b + d := by
  simp [ofDigits_append]

theorem digitsAux_acc (b : Nat) : ∀ fuel n acc, digitsAux b fuel n acc = digitsAux b fuel n [] ++ acc := by
  intro fuel
  induction fuel with
  | zero => intro n acc; simp [digitsAux]
  | succ k ih =>
    intro n acc
    simp only [digitsAux]
    split
    · simp
    · rw [ih (n / b) (n % b :: acc), ih (n / b) [n % b]]; simp

theorem digitsAux_step (b k n : Nat) (h : ¬ n < b) :
    digitsAux b (k + 1) n [] = digitsAux b k (n / b) [] ++ [n % b] := by
  simp only [digitsAux, if_neg h]; rw [digitsAux_acc]

theorem ofDigits_digitsAux (b : Nat) (hb : 2 ≤ b) : ∀ fuel n, n < fuel → ofDigits b (digitsAux b fuel n []) = n := by
  intro fuel
  induction fuel with
  | zero => intro n h; omega
  | succ k ih =>
    intro n h
    by_cases hn : n < b
    · simp [digitsAux, hn, ofDigits]
    · rw [digitsAux_step b k n hn, ofDigits_snoc]
      have hlt : n / b < k := by
        have : n / b < n := Nat.div_lt_self (by omega) (by omega)
        omega
      rw [ih (n / b) hlt]
      exact Nat.div_add_mod' n b

theorem ofDigits_toDigits (b : Nat) (hb : 2 ≤ b) (n : Nat) : ofDigits b (toDigits b n) = n :=
  ofDigits_digitsAux b hb (n + 1) n (by omega)

theorem digitsAux_lt (b : Nat) (hb : 2 ≤ b) : ∀ fuel n, n < fuel → ∀ d ∈ digitsAux b fuel n [], d < b := by
  intro fuel
  induction fuel with
  | zero => intro n h; omega
  | succ k ih =>
    intro n h d hd
    by_cases hn : n < b
    · simp [digitsAux, hn] at hd; omega
    · rw [digitsAux_step b k n hn] at hd
      have hlt : n / b < k := by
        have : n / b < n := Nat.div_lt_self (by omega) (by omega)
        omega
      rcases List.mem_append.mp hd with h1 | h1
      · exact ih _ hlt d h1
      · simp at h1; subst h1; exact Nat.mod_lt _ (by omega)

theorem toDigits_lt (b : Nat) (hb : 2 ≤ b) (n : Nat) : ∀ d ∈ toDigits b n, d < b :=
  digitsAux_lt b hb (n + 1) n (by omega)

theorem digitsAux_ne_nil (b : Nat) : ∀ fuel n, n < fuel → digitsAux b fuel n [] ≠ [] := by
  intro fuel
  induction fuel with
  | zero => intro n h; omega
  | succ k ih =>
    intro n h
    by_cases hn : n < b
    · simp [digitsAux, hn]
    · rw [digitsAux_step b k n hn]; simp

theorem toDigits_ne_nil (b n : Nat) : toDigits b n ≠ [] := digitsAux_ne_nil b (n + 1) n (by omega)

/-- no leading zero digit for a positive number -/
theorem digitsAux_head (b : Nat) (hb : 2 ≤ b) : ∀ fuel n, n < fuel → 0 < n → (digitsAux b fuel n []).head? ≠ some 0 := by
  intro fuel
  induction fuel with
  | zero => intro n h; omega
  | succ k ih =>
    intro n h hpos
    by_cases hn : n < b
    · simp [digitsAux, hn]; omega
    · rw [digitsAux_step b k n hn]
      have hlt : n / b < k := by
        have : n / b < n := Nat.div_lt_self (by omega) (by omega)
        omega
      have hdpos : 0 < n / b := Nat.div_pos (by omega) (by omega)
      have := ih (n / b) hlt hdpos
      have hne := digitsAux_ne_nil b k (n / b) hlt
      cases hd : digitsAux b k (n / b) [] with
      | nil => exact absurd hd hne
      | cons x xs => rw [hd] at this; simpa using this

theorem toDigits_head (b : Nat) (hb : 2 ≤ b) (n : Nat) (hn : 0 < n) : (toDigits b n).head? ≠ some 0 :=
  digitsAux_head b hb (n + 1) n (by omega) hn

theorem toDigits_zero (b : Nat) (hb : 2 ≤ b) : toDigits b 0 = [0] := by
  simp [toDigits, digitsAux]

end Pcore.Format
