import Pcore.Model.Json
/-! Helper lemmas for C11 (property theorems are in `Pcore/Props/C11.lean`). -/
namespace Pcore.Json

/-- the statement lists a correct `delimit` arm has -/
def goodArm : St → List Act
  | .firstInArray => [.doer, .set .afterElement]
  | .firstInObject => [.doer, .set .afterKey]
  | .afterKey => [.write ':', .doer, .set .afterValue]
  | .afterValue => [.write ',', .doer, .set .afterKey]
  | .afterElement => [.write ',', .doer, .set .afterElement]

/-- Side condition on the regenerated table: every state's arm writes the separator, runs the body once and
    then moves to the successor state; the container bodies write their brackets around the body and enter it
    in the matching first-state (the position of the state assignment before the body is free). -/
def TblOK (t : Tbl) : Prop :=
  (∀ st : St, t.arm st = goodArm st) ∧
  (t.addArray = [.set .firstInArray, .write '[', .doer, .write ']'] ∨
   t.addArray = [.write '[', .set .firstInArray, .doer, .write ']']) ∧
  (t.addHash = [.write '{', .set .firstInObject, .doer, .write '}'] ∨
   t.addHash = [.set .firstInObject, .write '{', .doer, .write '}']) ∧
  t.add = [.scalar] ∧ t.addRef = [.refObj] ∧ t.init = .firstInArray

def allSt : List St := [.firstInArray, .firstInObject, .afterElement, .afterValue, .afterKey]

theorem allSt_complete (s : St) : s ∈ allSt := by cases s <;> simp [allSt]

def tblOKb (t : Tbl) : Bool :=
  allSt.all (fun st => t.arm st == goodArm st) &&
  (t.addArray == [.set .firstInArray, .write '[', .doer, .write ']'] ||
   t.addArray == [.write '[', .set .firstInArray, .doer, .write ']']) &&
  (t.addHash == [.write '{', .set .firstInObject, .doer, .write '}'] ||
   t.addHash == [.set .firstInObject, .write '{', .doer, .write '}']) &&
  t.add == [.scalar] && t.addRef == [.refObj] && t.init == .firstInArray

theorem tblOKb_sound (t : Tbl) (h : tblOKb t = true) : TblOK t := by
  simp only [tblOKb, Bool.and_eq_true, Bool.or_eq_true, beq_iff_eq, List.all_eq_true] at h
  obtain ⟨⟨⟨⟨⟨h1, h2⟩, h3⟩, h4⟩, h5⟩, h6⟩ := h
  exact ⟨fun st => h1 st (allSt_complete st), h2, h3, h4, h5, h6⟩

theorem delimit_ok (t : Tbl) (h : TblOK t) (st : St) (inner : St → List Tok × St) :
    delimit t st inner = (sepOf st ++ (inner st).1, succOf st) := by
  have ha := h.1 st
  cases st <;> simp [delimit, ha, goodArm, runActs, sepOf, succOf, charTok]

theorem addArray_ok (t : Tbl) (h : TblOK t) (s1 : St) (body : St → List Tok × St) :
    (runActs body [] t.addArray s1).1 = .lb :: (body .firstInArray).1 ++ [.rb] := by
  rcases h.2.1 with h' | h' <;> simp [h', runActs, charTok]

theorem addHash_ok (t : Tbl) (h : TblOK t) (s1 : St) (body : St → List Tok × St) :
    (runActs body [] t.addHash s1).1 = .lc :: (body .firstInObject).1 ++ [.rc] := by
  rcases h.2.2.1 with h' | h' <;> simp [h', runActs, charTok]

mutual
theorem wEv_ref (t : Tbl) (h : TblOK t) (st : St) :
    ∀ e : Ev, wEv t st e = (sepOf st ++ ref1 e, succOf st)
  | .sc s => by simp [wEv, ref1, delimit_ok t h, h.2.2.2.1, runActs]
  | .ref n => by simp [wEv, ref1, delimit_ok t h, h.2.2.2.2.1, runActs]
  | .arr es => by
      simp only [wEv, ref1, delimit_ok t h, addArray_ok t h]
      rw [wEvs_ref t h .firstInArray es]
  | .hsh es => by
      simp only [wEv, ref1, delimit_ok t h, addHash_ok t h]
      rw [wEvs_ref t h .firstInObject es]
theorem wEvs_ref (t : Tbl) (h : TblOK t) (st : St) :
    ∀ es : List Ev, (wEvs t st es).1 = refs st es
  | [] => by simp [wEvs, refs]
  | e :: es => by simp [wEvs, refs, wEv_ref t h st e, wEvs_ref t h (succOf st) es]
end

/-! ### well-formed event trees and the JSON grammar -/

def isStrKey : Ev → Bool
  | .sc (.str _) => true
  | _ => false

mutual
/-- hashes receive alternating keys and values, keys are strings (the JSON streamer cannot do complex keys) -/
def WF : Ev → Bool
  | .sc _ => true
  | .ref _ => true
  | .arr es => WFs es
  | .hsh es => WFkv es
def WFs : List Ev → Bool
  | [] => true
  | e :: es => WF e && WFs es
def WFkv : List Ev → Bool
  | [] => true
  | [_] => false
  | k :: v :: es => isStrKey k && WF v && WFkv es
end

def isPrefEv : Ev → Bool
  | .sc (.str s) => s == "__pref"
  | _ => false

mutual
/-- no hash uses the reserved key `__pref` as its first key (the reader would take it for a back-reference) -/
def NoPref : Ev → Bool
  | .sc _ => true
  | .ref _ => true
  | .arr es => NoPrefs es
  | .hsh es => (match es with | k :: _ => !isPrefEv k | [] => true) && NoPrefs es
def NoPrefs : List Ev → Bool
  | [] => true
  | e :: es => NoPref e && NoPrefs es
end

/- the JSON value grammar over tokens (RFC 8259 §2–§5 at token level) -/
mutual
inductive JVal : List Tok → Prop
  | sc (s : Sc) : JVal [.sc s]
  | arr0 : JVal [.lb, .rb]
  | arr {ts : List Tok} : JElems ts → JVal (.lb :: ts ++ [.rb])
  | obj0 : JVal [.lc, .rc]
  | obj {ts : List Tok} : JMembers ts → JVal (.lc :: ts ++ [.rc])
inductive JElems : List Tok → Prop
  | one {ts : List Tok} : JVal ts → JElems ts
  | cons {ts us : List Tok} : JVal ts → JElems us → JElems (ts ++ .comma :: us)
inductive JMembers : List Tok → Prop
  | one {s : String} {ts : List Tok} : JVal ts → JMembers (.sc (.str s) :: .colon :: ts)
  | cons {s : String} {ts us : List Tok} : JVal ts → JMembers us →
      JMembers (.sc (.str s) :: .colon :: ts ++ .comma :: us)
end

theorem refToks_valid (n : Int) : JVal (refToks n) := by
  have := JVal.obj (JMembers.one (s := "__pref") (JVal.sc (.int n)))
  simpa [refToks] using this

mutual
theorem valid_ev : ∀ e : Ev, WF e = true → JVal (ref1 e)
  | .sc s, _ => by simpa [ref1] using JVal.sc s
  | .ref n, _ => by simpa [ref1] using refToks_valid n
  | .arr [], _ => by simpa [ref1, refs] using JVal.arr0
  | .arr (e :: es), h => by
      have h' : WF e = true ∧ WFs es = true := by simpa [WF, WFs] using h
      have := JVal.arr (valid_elems e es h'.1 h'.2)
      simpa [ref1, refs, sepOf, succOf] using this
  | .hsh [], _ => by simpa [ref1, refs] using JVal.obj0
  | .hsh [_], h => by simp [WF, WFkv] at h
  | .hsh (k :: v :: es), h => by
      have h' : (isStrKey k = true ∧ WF v = true) ∧ WFkv es = true := by simpa [WF, WFkv] using h
      have := JVal.obj (valid_members k v es h'.1.1 h'.1.2 h'.2)
      simpa [ref1, refs, sepOf, succOf] using this
termination_by e => sizeOf e
theorem valid_elems : ∀ (e : Ev) (es : List Ev), WF e = true → WFs es = true →
    JElems (ref1 e ++ refs .afterElement es)
  | e, [], he, _ => by simpa [refs] using JElems.one (valid_ev e he)
  | e, e' :: es, he, hes => by
      have h' : WF e' = true ∧ WFs es = true := by simpa [WFs] using hes
      have := JElems.cons (valid_ev e he) (valid_elems e' es h'.1 h'.2)
      simpa [refs, sepOf, succOf] using this
termination_by e es => sizeOf e + sizeOf es + 1
theorem valid_members : ∀ (k v : Ev) (es : List Ev), isStrKey k = true → WF v = true → WFkv es = true →
    JMembers (ref1 k ++ .colon :: ref1 v ++ refs .afterValue es)
  | .sc (.str s), v, [], _, hv, _ => by
      simpa [refs, ref1] using JMembers.one (s := s) (valid_ev v hv)
  | .sc (.str s), v, [_], _, _, h => by simp [WFkv] at h
  | .sc (.str s), v, k' :: v' :: es, _, hv, h => by
      have h' : (isStrKey k' = true ∧ WF v' = true) ∧ WFkv es = true := by simpa [WFkv] using h
      have := JMembers.cons (s := s) (valid_ev v hv) (valid_members k' v' es h'.1.1 h'.1.2 h'.2)
      simpa [refs, ref1, sepOf, succOf] using this
  | .sc (.int _), _, _, hk, _, _ => by simp [isStrKey] at hk
  | .sc (.flt _), _, _, hk, _, _ => by simp [isStrKey] at hk
  | .sc (.bool _), _, _, hk, _, _ => by simp [isStrKey] at hk
  | .sc .null, _, _, hk, _, _ => by simp [isStrKey] at hk
  | .ref _, _, _, hk, _, _ => by simp [isStrKey] at hk
  | .arr _, _, _, hk, _, _ => by simp [isStrKey] at hk
  | .hsh _, _, _, hk, _, _ => by simp [isStrKey] at hk
termination_by k v es => sizeOf k + sizeOf v + sizeOf es + 1
end

end Pcore.Json
