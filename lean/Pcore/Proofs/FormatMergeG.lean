import Pcore.Model.FormatMergeG
import Pcore.Proofs.FormatMerge
import Mathlib.Data.String.Basic
/-!
# The lookup law of a merged format map over ANY system of key types

`Proofs/FormatMerge.lean` proves, for the 16-key table, that the first accepting entry of the merged map is the entry of the most
specific accepting key.  Here the same law is proved for keys of any type under the hypotheses it really rests on — on the keys OF
THE MAP the assignability `sub` is reflexive, transitive and antisymmetric and the names are pairwise different (`KeysLawful`) — so
that parameterised key types (whose order is the general lattice's business: C02, C03) are covered, and the 16-key and 22-key
tables become instances whose hypotheses are discharged by `decide`.
-/
namespace Pcore.Format
variable {κ : Type}

/-- what the lookup law needs of the key types that occur in a map -/
structure KeysLawful (ko : KeyOrd κ) (keys : List κ) : Prop where
  refl : ∀ a ∈ keys, ko.sub a a = true
  trans : ∀ a ∈ keys, ∀ b ∈ keys, ∀ c ∈ keys, ko.sub a b = true → ko.sub b c = true → ko.sub a c = true
  antisymm : ∀ a ∈ keys, ∀ b ∈ keys, ko.sub a b = true → ko.sub b a = true → a = b
  name_inj : ∀ a ∈ keys, ∀ b ∈ keys, ko.name a = ko.name b → a = b

/-! ### the order of the merged map -/

theorem entryLessG_eq (ko : KeyOrd κ) (keys : List κ) (a b : κ) :
    entryLessG ko keys a b =
      (if acceptorsG ko keys a ≠ acceptorsG ko keys b then decide (acceptorsG ko keys a > acceptorsG ko keys b)
       else if ko.rank a ≠ ko.rank b then decide (ko.rank a < ko.rank b) else decide (ko.name a < ko.name b)) := by
  unfold entryLessG
  simp only [bne_iff_ne, ne_eq]

theorem entryLessG_asymm (ko : KeyOrd κ) (keys : List κ) (a b : κ) :
    entryLessG ko keys a b = true → entryLessG ko keys b a = false := by
  rw [entryLessG_eq, entryLessG_eq]
  by_cases h1 : acceptorsG ko keys a = acceptorsG ko keys b <;> by_cases h2 : ko.rank a = ko.rank b
  · simp only [h1, h2, ne_eq, not_true_eq_false, if_false, decide_eq_true_eq, decide_eq_false_iff_not]
    exact fun h => lt_asymm h
  · have h2' : ¬ ko.rank b = ko.rank a := fun h => h2 h.symm
    simp only [h1, h2, h2', ne_eq, not_true_eq_false, not_false_eq_true, if_false, if_true, decide_eq_true_eq, decide_eq_false_iff_not]; omega
  · have h1' : ¬ acceptorsG ko keys b = acceptorsG ko keys a := fun h => h1 h.symm
    simp only [h1, h1', ne_eq, not_false_eq_true, if_true, decide_eq_true_eq, decide_eq_false_iff_not, gt_iff_lt]; omega
  · have h1' : ¬ acceptorsG ko keys b = acceptorsG ko keys a := fun h => h1 h.symm
    simp only [h1, h1', ne_eq, not_false_eq_true, if_true, decide_eq_true_eq, decide_eq_false_iff_not, gt_iff_lt]; omega

theorem entryLessG_false_iff (ko : KeyOrd κ) (keys : List κ) (a b : κ) :
    entryLessG ko keys a b = false ↔
      (acceptorsG ko keys a < acceptorsG ko keys b ∨
       (acceptorsG ko keys a = acceptorsG ko keys b ∧
         (ko.rank b < ko.rank a ∨ (ko.rank a = ko.rank b ∧ ko.name b ≤ ko.name a)))) := by
  rw [entryLessG_eq]
  by_cases h1 : acceptorsG ko keys a = acceptorsG ko keys b <;> by_cases h2 : ko.rank a = ko.rank b
  · rw [if_neg (by simpa using h1), if_neg (by simpa using h2), decide_eq_false_iff_not, not_lt]
    constructor
    · intro h; exact Or.inr ⟨h1, Or.inr ⟨h2, h⟩⟩
    · rintro (h | ⟨_, h | ⟨_, h⟩⟩)
      · omega
      · omega
      · exact h
  · rw [if_neg (by simpa using h1), if_pos (by simpa using h2), decide_eq_false_iff_not]
    constructor
    · intro h; exact Or.inr ⟨h1, Or.inl (by omega)⟩
    · rintro (h | ⟨_, h | ⟨h, _⟩⟩) <;> omega
  · rw [if_pos (by simpa using h1), decide_eq_false_iff_not]
    constructor
    · intro h; exact Or.inl (by omega)
    · rintro (h | ⟨h, _⟩) <;> omega
  · rw [if_pos (by simpa using h1), decide_eq_false_iff_not]
    constructor
    · intro h; exact Or.inl (by omega)
    · rintro (h | ⟨h, _⟩) <;> omega

theorem entryLessG_negtrans (ko : KeyOrd κ) (keys : List κ) (a b c : κ) :
    entryLessG ko keys a b = false → entryLessG ko keys b c = false → entryLessG ko keys a c = false := by
  rw [entryLessG_false_iff, entryLessG_false_iff, entryLessG_false_iff]
  rintro (h1 | ⟨h1, h1' | ⟨h1', h1''⟩⟩) (h2 | ⟨h2, h2' | ⟨h2', h2''⟩⟩)
  · exact Or.inl (by omega)
  · exact Or.inl (by omega)
  · exact Or.inl (by omega)
  · exact Or.inl (by omega)
  · exact Or.inr ⟨by omega, Or.inl (by omega)⟩
  · exact Or.inr ⟨by omega, Or.inl (by omega)⟩
  · exact Or.inl (by omega)
  · exact Or.inr ⟨by omega, Or.inl (by omega)⟩
  · exact Or.inr ⟨by omega, Or.inr ⟨by omega, le_trans h2'' h1''⟩⟩

/-- a key has strictly more acceptors than a key that strictly accepts it -/
theorem acceptorsG_lt (ko : KeyOrd κ) (keys : List κ) (hk : KeysLawful ko keys) (a b : κ) (ha : a ∈ keys) (hb : b ∈ keys)
    (hba : ko.sub b a = true) (hab : ko.sub a b = false) : acceptorsG ko keys b < acceptorsG ko keys a := by
  unfold acceptorsG
  exact filter_length_lt _ _ a keys (fun o ho hob => hk.trans o ho b hb a ha hob hba) ha (hk.refl a ha) hab

theorem entryLessG_of_strict (ko : KeyOrd κ) (keys : List κ) (hk : KeysLawful ko keys) (a b : κ) (ha : a ∈ keys) (hb : b ∈ keys)
    (hba : ko.sub b a = true) (hab : ko.sub a b = false) : entryLessG ko keys a b = true := by
  have := acceptorsG_lt ko keys hk a b ha hb hba hab
  rw [entryLessG_eq]
  split <;> simp_all <;> omega

theorem sortEntriesG_mem (ko : KeyOrd κ) (m : GMap κ) (e : κ × GTree κ) : e ∈ sortEntriesG ko m ↔ e ∈ m := by
  unfold sortEntriesG; exact mem_insertionSort _ e m

theorem sortEntriesG_sorted (ko : KeyOrd κ) (m : GMap κ) :
    Sorted (fun (x y : κ × GTree κ) => entryLessG ko (m.map (·.1)) x.1 y.1) (sortEntriesG ko m) := by
  unfold sortEntriesG
  exact insertionSort_sorted _ (fun a b => entryLessG_asymm ko _ a.1 b.1) (fun a b c => entryLessG_negtrans ko _ a.1 b.1 c.1) m

/-! ### the first accepting entry of a sorted map is the entry of the least accepting key -/

theorem getG_sorted_least (ks : KeySys κ) (ko : KeyOrd κ) (keys : List κ) (hk : KeysLawful ko keys) (L : GMap κ)
    (hs : Sorted (fun (x y : κ × GTree κ) => entryLessG ko keys x.1 y.1) L) (hL : ∀ e ∈ L, e.1 ∈ keys)
    (K : κ) (t : GTree κ) (v : XVal) (hm : (K, t) ∈ L) (hacc : ks.acc K v = true)
    (hleast : ∀ e ∈ L, ks.acc e.1 v = true → ko.sub e.1 K = true)
    (huniq : ∀ e ∈ L, e.1 = K → e = (K, t)) :
    getG ks L v = t := by
  unfold getG
  have hK : K ∈ keys := hL _ hm
  cases hf : L.find? (fun e => ks.acc e.1 v) with
  | none =>
    have := List.find?_eq_none.1 hf (K, t) hm
    simp [hacc] at this
  | some e =>
    simp only
    obtain ⟨hp, as, bs, hLe, has⟩ := List.find?_eq_some_iff_append.1 hf
    have heL : e ∈ L := by rw [hLe]; simp
    by_cases hek : e.1 = K
    · rw [huniq e heL hek]
    · exfalso
      have hsub : ko.sub e.1 K = true := hleast e heL (by simpa using hp)
      have hnot : ko.sub K e.1 = false := by
        cases h : ko.sub K e.1 with
        | false => rfl
        | true => exact absurd (hk.antisymm _ (hL e heL) _ hK hsub h) hek
      have hless : entryLessG ko keys K e.1 = true := entryLessG_of_strict ko keys hk K e.1 hK (hL e heL) hsub hnot
      rw [hLe] at hm
      rcases List.mem_append.1 hm with h1 | h1
      · have := has _ h1
        simp [hacc] at this
      · rcases List.mem_cons.1 h1 with h2 | h2
        · exact hek (by rw [← h2])
        · unfold Sorted at hs
          rw [hLe, List.pairwise_append] at hs
          have := (List.pairwise_cons.1 hs.2.1).1 (K, t) h2
          simp only at this
          rw [hless] at this
          exact absurd this (by decide)

theorem entry_uniqueG (m : GMap κ) (hn : (m.map (·.1)).Nodup) (e e' : κ × GTree κ) (he : e ∈ m) (he' : e' ∈ m)
    (hk : e.1 = e'.1) : e = e' := by
  induction m with
  | nil => cases he
  | cons x xs ih =>
    simp only [List.map_cons, List.nodup_cons] at hn
    rcases List.mem_cons.1 he with rfl | he1 <;> rcases List.mem_cons.1 he' with rfl | he2
    · rfl
    · exact absurd (List.mem_map.2 ⟨e', he2, hk.symm⟩) hn.1
    · exact absurd (List.mem_map.2 ⟨e, he1, hk⟩) hn.1
    · exact ih hn.2 he1 he2

/-- THE LOOKUP LAW of a merged map, any key system: the format applied to a value is the entry of the most specific key that
    accepts the value -/
theorem getG_sortEntriesG_least (ks : KeySys κ) (ko : KeyOrd κ) (m : GMap κ) (hk : KeysLawful ko (m.map (·.1)))
    (hn : (m.map (·.1)).Nodup) (K : κ) (t : GTree κ) (v : XVal) (hm : (K, t) ∈ m) (hacc : ks.acc K v = true)
    (hleast : ∀ e ∈ m, ks.acc e.1 v = true → ko.sub e.1 K = true) :
    getG ks (sortEntriesG ko m) v = t := by
  refine getG_sorted_least ks ko (m.map (·.1)) hk (sortEntriesG ko m) (sortEntriesG_sorted ko m) ?_ K t v
    ((sortEntriesG_mem ko m _).2 hm) hacc ?_ ?_
  · intro e he; exact List.mem_map.2 ⟨e, (sortEntriesG_mem ko m e).1 he, rfl⟩
  · intro e he; exact hleast e ((sortEntriesG_mem ko m e).1 he)
  · intro e he hek
    exact entry_uniqueG m hn e (K, t) ((sortEntriesG_mem ko m e).1 he) hm hek

/-! ### the keys of the merged entries are pairwise different when `eqv` is equality -/

theorem mem_dedupG (ko : KeyOrd κ) (heq : ∀ a b, ko.eqv a b = true ↔ a = b) (k : κ) : ∀ l, k ∈ dedupG ko l ↔ k ∈ l
  | [] => by simp [dedupG]
  | x :: xs => by
      simp only [dedupG, List.mem_cons, List.mem_filter, mem_dedupG ko heq k xs, Bool.not_eq_true']
      by_cases h : k = x
      · simp [h]
      · have : ko.eqv k x = false := by
          cases hh : ko.eqv k x with
          | false => rfl
          | true => exact absurd ((heq k x).1 hh) h
        simp [h, this]

theorem nodup_dedupG (ko : KeyOrd κ) (heq : ∀ a b, ko.eqv a b = true ↔ a = b) : ∀ l, (dedupG ko l).Nodup
  | [] => by simp [dedupG]
  | x :: xs => by
      simp only [dedupG, List.nodup_cons, List.mem_filter, Bool.not_eq_true']
      refine ⟨?_, (nodup_dedupG ko heq xs).filter _⟩
      rintro ⟨_, h⟩
      rw [(heq x x).2 rfl] at h
      cases h

theorem lookupG_some_mem (ko : KeyOrd κ) (heq : ∀ a b, ko.eqv a b = true ↔ a = b) (m : GMap κ) (k : κ) (t : GTree κ)
    (h : lookupG ko m k = some t) : (k, t) ∈ m := by
  unfold lookupG at h
  cases hf : m.find? (fun e => ko.eqv e.1 k) with
  | none => simp [hf] at h
  | some e =>
    simp [hf] at h
    have hm := List.mem_of_find?_eq_some hf
    have hp := List.find?_some hf
    have h1 : e.1 = k := (heq _ _).1 hp
    have : e = (k, t) := by
      cases e with | mk a b => simp at h1 h; simp [h1, h]
    rw [← this]; exact hm

theorem mergedEntriesG_fst (ko : KeyOrd κ) (mt : GTree κ → GTree κ → GTree κ) (lo hi : GMap κ) (k : κ) (e : κ × GTree κ)
    (h : (match lookupG ko (normLowerOfG ko lo hi) k, lookupG ko hi k with
      | some l, some h => some (k, mt l h)
      | some l, none => some (k, l)
      | none, some h => some (k, h)
      | none, none => none) = some e) : e.1 = k := by
  split at h <;> simp at h <;> (try rw [← h])

theorem filterMap_keys_nodupG (f : κ → Option (κ × GTree κ)) (hf : ∀ k e, f k = some e → e.1 = k) :
    ∀ ks : List κ, ks.Nodup → ((ks.filterMap f).map (·.1)).Nodup
  | [], _ => by simp
  | k :: ks, h => by
      have hn := List.nodup_cons.1 h
      have ih := filterMap_keys_nodupG f hf ks hn.2
      cases hk : f k with
      | none => simpa [List.filterMap_cons, hk] using ih
      | some e =>
        simp only [List.filterMap_cons, hk, List.map_cons, List.nodup_cons]
        refine ⟨?_, ih⟩
        intro hmem
        obtain ⟨e', he', hfst⟩ := List.mem_map.1 hmem
        obtain ⟨k', hk', hfk'⟩ := List.mem_filterMap.1 he'
        have h1 := hf k' e' hfk'
        have h2 := hf k e hk
        have : k' = k := by rw [← h1, hfst, h2]
        exact hn.1 (this ▸ hk')

theorem mergedEntriesG_keys_nodup (ko : KeyOrd κ) (heq : ∀ a b, ko.eqv a b = true ↔ a = b)
    (mt : GTree κ → GTree κ → GTree κ) (lo hi : GMap κ) : ((mergedEntriesG ko mt lo hi).map (·.1)).Nodup := by
  unfold mergedEntriesG
  exact filterMap_keys_nodupG _ (fun k e h => mergedEntriesG_fst ko mt lo hi k e h) _ (nodup_dedupG ko heq _)

/-- a user entry whose key no remaining default has is taken as it is -/
theorem mergedEntriesG_user_only (ko : KeyOrd κ) (heq : ∀ a b, ko.eqv a b = true ↔ a = b) (mt : GTree κ → GTree κ → GTree κ)
    (lo hi : GMap κ) (K : κ) (h : GTree κ) (hl : lookupG ko (normLowerOfG ko lo hi) K = none) (hh : lookupG ko hi K = some h) :
    (K, h) ∈ mergedEntriesG ko mt lo hi := by
  unfold mergedEntriesG
  refine List.mem_filterMap.2 ⟨K, ?_, ?_⟩
  · unfold mergedKeysG
    rw [mem_dedupG ko heq]
    exact List.mem_append_right _ (List.mem_map.2 ⟨(K, h), lookupG_some_mem ko heq hi K h hh, rfl⟩)
  · simp [hl, hh]

theorem mergeMapsG_both (ko : KeyOrd κ) (fuel : Nat) (x : κ × GTree κ) (xs : GMap κ) (y : κ × GTree κ) (ys : GMap κ) :
    mergeMapsG ko (fuel + 1) (some (x :: xs)) (some (y :: ys)) =
      some (sortEntriesG ko (mergedEntriesG ko (mergeTreeG ko fuel) (x :: xs) (y :: ys))) := by
  simp [mergeMapsG]

/-! ### the 22 default types: the hypotheses by `decide` -/

theorem XKey.sub_refl (a : XKey) : XKey.sub a a = true := by
  cases a with
  | base k => cases k <;> decide
  | _ => decide

def allXKeys : List XKey :=
  [.base .any, .base .scalar, .base .numeric, .base .int, .base .float, .base .str, .base .bool, .base .bin, .base .arr, .base .hash,
   .base .coll, .base .undef, .base .dflt, .base .regexp, .base .obj, .base .typ,
   .semver, .semverRange, .uri, .tspan, .tstamp, .sensitive]

theorem allXKeys_complete (a : XKey) : a ∈ allXKeys := by
  cases a with
  | base k => cases k <;> simp [allXKeys]
  | _ => simp [allXKeys]

theorem XKey.sub_trans_all : allXKeys.all (fun a => allXKeys.all (fun b => allXKeys.all (fun c =>
    !(XKey.sub a b && XKey.sub b c) || XKey.sub a c))) = true := by decide +kernel

theorem XKey.sub_antisymm_all : allXKeys.all (fun a => allXKeys.all (fun b =>
    !(XKey.sub a b && XKey.sub b a) || decide (a = b))) = true := by decide +kernel

theorem XKey.name_inj_all : allXKeys.all (fun a => allXKeys.all (fun b =>
    !(decide (XKey.name a = XKey.name b)) || decide (a = b))) = true := by decide +kernel

/-- the 22 parameterless default types satisfy the hypotheses of the lookup law, whatever keys a map holds -/
theorem xkeyOrd_lawful (keys : List XKey) : KeysLawful xkeyOrd keys where
  refl a _ := XKey.sub_refl a
  trans a _ b _ c _ hab hbc := by
    have h := XKey.sub_trans_all
    simp only [List.all_eq_true] at h
    have := h a (allXKeys_complete a) b (allXKeys_complete b) c (allXKeys_complete c)
    simp only [xkeyOrd] at hab hbc ⊢
    simp [hab, hbc] at this
    exact this
  antisymm a _ b _ hab hba := by
    have h := XKey.sub_antisymm_all
    simp only [List.all_eq_true] at h
    have := h a (allXKeys_complete a) b (allXKeys_complete b)
    simp only [xkeyOrd] at hab hba
    simpa [hab, hba] using this
  name_inj a _ b _ hn := by
    have h := XKey.name_inj_all
    simp only [List.all_eq_true] at h
    have := h a (allXKeys_complete a) b (allXKeys_complete b)
    simp only [xkeyOrd] at hn
    simpa [hn] using this

theorem xkeyOrd_eqv (a b : XKey) : xkeyOrd.eqv a b = true ↔ a = b := by simp [xkeyOrd]

/-- acceptance is monotone along `sub`, and every key that accepts a value accepts the exact key of its kind -/
theorem XKey.accepts_mono_all : allXKeys.all (fun a => allXKeys.all (fun b =>
    [XKind.int, .float, .str, .bool, .undef, .dflt, .bin, .regexp, .arr, .hash, .semver, .semverRange, .uri, .tspan, .tstamp,
      .sensitive, .typ, .obj, .talias, .otype].all (fun k => !(XKey.sub a b && b.accepts k) || a.accepts k))) = true := by decide +kernel

theorem XKey.accepts_sub_exact (a : XKey) (k : XKind) : a.accepts k = true → XKey.sub a k.key = true := by
  cases a with
  | base b => cases b <;> cases k <;> decide
  | _ => cases k <;> decide

theorem XKind.key_accepts (k : XKind) : k.key.accepts k = true := by cases k <;> decide

end Pcore.Format
