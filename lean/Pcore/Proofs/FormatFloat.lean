import Pcore.Proofs.FormatUnparse
/-! The float path around the digits: whatever digit string fmt returns (`FloatIO.sprintf` is a parameter), the
    post-processing of `floatGFormat` and `padNumber` keeps it intact, restores the fraction independently of the sign,
    pads to the width on the correct side and puts zeros only between the sign and the digits. -/
namespace Pcore.Format

def isSignChar (c : Char) : Bool := c = '+' || c = '-' || c = ' '

/-- a number text split into its sign character (if any) and the rest -/
def splitNumSign : Str → Str × Str
  | c :: cs => if isSignChar c then ([c], cs) else ([], c :: cs)
  | [] => ([], [])

theorem splitNumSign_append (s : Str) : (splitNumSign s).1 ++ (splitNumSign s).2 = s := by
  cases s with
  | nil => rfl
  | cons c cs => simp only [splitNumSign]; by_cases h : isSignChar c = true <;> simp [h]

/-- **padding of numbers** (`padNumber`): the text is never cut; blanks go to the left, or to the right with `-`; with
    the `0` flag (and no `-`) zeros go between the sign and the digits — never before the sign, never to the right -/
theorem padNumber_layout (f : Fmt) (s : Str) :
    padNumber f s =
      let n := f.width.getD 0 - s.length
      if f.left then s ++ spaces n
      else if f.zeroPad then (splitNumSign s).1 ++ zeros n ++ (splitNumSign s).2
      else spaces n ++ s := by
  unfold padNumber
  cases hw : f.width with
  | none =>
    simp only [Option.getD_none, Nat.zero_sub]
    cases f.left <;> cases f.zeroPad <;> simp [spaces, zeros, splitNumSign_append]
  | some w =>
    simp only [Option.getD_some]
    by_cases h0 : w - s.length = 0
    · rw [if_pos h0, h0]
      cases f.left <;> cases f.zeroPad <;> simp [spaces, zeros, splitNumSign_append]
    · rw [if_neg h0]
      cases f.left
      · cases f.zeroPad
        · simp
        · simp only [Bool.false_eq_true, if_false, if_true]
          cases s with
          | nil => simp [splitNumSign]
          | cons c cs =>
            simp only [splitNumSign, isSignChar]
            by_cases hc : (c = '+' || c = '-' || c = ' ') = true
            · simp only [hc, if_true]; simp
            · simp only [hc]; simp
      · simp

/-- the sign character does not change how many zeros are restored (the defect fixed by 457acd0) -/
theorem gMissing_sign (f : Fmt) (c : Char) (str : Str) (hc : isSignChar c = true) (hs : ∀ x, str.head? = some x → isSignChar x = false) :
    gMissing f (c :: str) = gMissing f str := by
  have hdot : c ≠ '.' := by rintro rfl; revert hc; decide
  have hcont : (c :: str).contains '.' = str.contains '.' := by
    simp [List.contains_cons, hdot]
    intro h; exact absurd h.symm hdot
  have hdig : gDigits (c :: str) = gDigits str := by
    unfold gDigits
    have hc' : (c = '+' || c = '-' || c = ' ') = true := hc
    simp only [hc', if_true]
    cases str with
    | nil => rfl
    | cons x xs =>
      have := hs x rfl
      have hx : (x = '+' || x = '-' || x = ' ') = false := this
      simp [hx]
  unfold gMissing
  rw [hcont, hdig]

theorem gForced_sign (f : Fmt) (c : Char) (str : Str) (hc : isSignChar c = true) (hs : ∀ x, str.head? = some x → isSignChar x = false) :
    gForced f (c :: str) = gForced f str := by
  have hdot : c ≠ '.' := by rintro rfl; revert hc; decide
  have hcont : (c :: str).contains '.' = str.contains '.' := by
    simp [List.contains_cons, hdot]
    intro h; exact absurd h.symm hdot
  unfold gForced
  rw [hcont, gMissing_sign f c str hc hs]

/-- **the restored fraction does not depend on the sign**: the text of -x, +x, ' 'x is the sign and the text of x -/
theorem gRestored_sign (f : Fmt) (c : Char) (str : Str) (hc : isSignChar c = true) (hs : ∀ x, str.head? = some x → isSignChar x = false) :
    gRestored f (c :: str) = c :: gRestored f str := by
  have hdot : c ≠ '.' := by rintro rfl; revert hc; decide
  have hcont : (c :: str).contains '.' = str.contains '.' := by
    simp [List.contains_cons, hdot]
    intro h; exact absurd h.symm hdot
  unfold gRestored
  rw [hcont, gMissing_sign f c str hc hs]
  simp

/-- **the digits fmt printed are kept**: the restored text is the printed text followed only by `.` and `0`s, and it has
    a decimal point -/
theorem gRestored_prefix (f : Fmt) (str : Str) :
    ∃ suffix, gRestored f str = str ++ suffix ∧ (∀ c ∈ suffix, c = '.' ∨ c = '0') ∧ (gRestored f str).contains '.' = true := by
  unfold gRestored
  refine ⟨(if str.contains '.' then [] else '.' :: (if gMissing f str = 0 then ['0'] else [])) ++ zeros (gMissing f str).toNat,
    by simp [List.append_assoc], ?_, ?_⟩
  · intro c hc
    simp only [List.mem_append] at hc
    rcases hc with hc | hc
    · by_cases hd : str.contains '.' = true
      · rw [if_pos hd] at hc; simp at hc
      · rw [if_neg hd] at hc
        rcases List.mem_cons.mp hc with rfl | hc'
        · exact Or.inl rfl
        · by_cases hm : gMissing f str = 0
          · rw [if_pos hm] at hc'; simp at hc'; exact Or.inr hc'
          · rw [if_neg hm] at hc'; simp at hc'
    · simp [zeros] at hc; exact Or.inr hc.2
  · by_cases hd : str.contains '.' = true
    · have hm : '.' ∈ str := by simpa using hd
      rw [if_pos hd]
      simp [hm]
    · rw [if_neg hd]
      simp

/-! ### width on the float path, for every letter -/

/-- the one thing assumed of fmt's float code here: it pads its own output to the width of the directive -/
def IOWidth (io : FloatIO) : Prop :=
  ∀ (fm : Str) (bits : Nat) (g : GoSpec) (w : Nat), goParse fm = some g → g.wid = some w → w ≤ (io.sprintf fm bits).length

theorem sprintfF_width (io : FloatIO) (hio : IOWidth io) (fm : Str) (bits : Nat) (g : GoSpec) (w : Nat) (s : Str)
    (hg : goParse fm = some g) (hw : g.wid = some w) (h : sprintfF io fm bits = .ok s) : w ≤ s.length := by
  unfold sprintfF at h
  rw [hg] at h
  simp only at h
  split at h
  · cases h; exact hio fm bits g w hg hw
  · cases h

/-- `floatGFormat` reaches the width on each of its three ways out: scientific text padded by `padNumber` (the width
    was lost here before 25b91c3), forced scientific notation printed by fmt with the width, restored fraction padded
    by `padNumber` -/
theorem floatGFormat_width (io : FloatIO) (hio : IOWidth io) (f : Fmt) (hwf : FmtWF f) (bits w : Nat) (s : Str)
    (hw : f.width = some w) (h : floatGFormat io f bits = .ok s) : w ≤ s.length := by
  unfold floatGFormat at h
  cases hs : sprintfF io (goFormat (withoutWidth f)) bits with
  | error e => rw [hs] at h; cases h
  | ok str =>
    rw [hs] at h
    simp only at h
    unfold floatGRest at h
    simp only at h
    by_cases h1 : str.contains (if f.letter = 'G' then 'E' else 'e') = true
    · rw [if_pos h1] at h; cases h; exact padNumber_width f str w hw
    · rw [if_neg h1] at h
      by_cases h2 : gForced f str = true
      · rw [if_pos h2] at h
        have hl : isLetter (if f.letter = 'G' then 'E' else 'e') = true := by split <;> decide
        obtain ⟨g, hg, _, hgw⟩ := goParse_replace f hwf _ hl
        exact sprintfF_width io hio _ bits g w s hg (by rw [hgw, hw]) h
      · rw [if_neg h2] at h; cases h; exact padNumber_width f _ w hw

theorem exceptRes_text' (r : Except FaultKind Str) (k : Str → Str) (s : Str) (h : exceptRes r k = .text s) :
    ∃ x, r = .ok x ∧ s = k x := by
  cases r with
  | ok x => simp [exceptRes] at h; exact ⟨x, rfl, h.symm⟩
  | error e => simp [exceptRes] at h

/-- **width, float path**: with fmt padding its own output, every letter of a Float reaches the width -/
theorem fmtFloat_width_all (io : FloatIO) (hio : IOWidth io) (f : Fmt) (hwf : FmtWF f) (hgo : GoOK f) (bits w : Nat)
    (s : Str) (hw : f.width = some w) (h : fmtFloat io f bits = .text s) : w ≤ s.length := by
  obtain ⟨g, hg, _, hgw, _⟩ := hgo.spec
  unfold fmtFloat at h
  by_cases h1 : isRadixLetter f.letter = true
  · rw [if_pos h1] at h; exact fmtIntCore_width f _ w hw hgo s h
  · rw [if_neg h1] at h
    by_cases h2 : f.letter = 'p'
    · rw [if_pos h2] at h
      obtain ⟨x, _, rfl⟩ := exceptRes_text' _ _ s h
      exact applyStringFlags_width f _ _ w hw
    · rw [if_neg h2] at h
      by_cases h3 : (decide (f.letter = 'e') || decide (f.letter = 'E') || decide (f.letter = 'f')) = true
      · rw [if_pos h3] at h
        obtain ⟨x, hx, hsx⟩ := exceptRes_text' _ _ s h
        rw [hsx]
        exact sprintfF_width io hio _ bits g w x hg (by rw [hgw, hw]) hx
      · rw [if_neg h3] at h
        by_cases h4 : (decide (f.letter = 'g') || decide (f.letter = 'G')) = true
        · rw [if_pos h4] at h
          obtain ⟨x, hx, hsx⟩ := exceptRes_text' _ _ s h
          rw [hsx]
          exact floatGFormat_width io hio f hwf bits w x hw hx
        · rw [if_neg h4] at h
          by_cases h5 : f.letter = 's'
          · rw [if_pos h5] at h
            obtain ⟨x, _, rfl⟩ := exceptRes_text' _ _ s h
            exact applyStringFlags_width f _ _ w hw
          · rw [if_neg h5] at h; cases h

end Pcore.Format
