import Pcore.Proofs.ObjectInitHash
import Mathlib.Logic.Relation
/-! C17: instance-of / assignability between the types of one loader is the reflexive-transitive closure of `parent`. -/
namespace Pcore.Object

/-- `p` is the declared parent of definition `j` (an EARLIER definition: a later or missing number resolves to no parent) -/
def parentRel (ds : List Def) (p j : Nat) : Prop := p < j ∧ ∃ d, ds[j]? = some d ∧ d.parent = some p

/-- the environment `defineAll` builds: type `j` is its own level (named `j`) on top of the type of its parent -/
def GoodEnv (ds : List Def) (env : List OType) : Prop :=
  env.length = ds.length ∧
    ∀ j d, ds[j]? = some d → ∃ l : Level, l.id = j ∧ env[j]? = some (l :: parentOf (env.take j) d)

theorem define_shape {env : List OType} {d : Def} {t : OType} (h : define env d = .ok t) :
    ∃ l : Level, l.id = env.length ∧ t = l :: parentOf env d := by
  obtain ⟨-, -, attrs, -, -, -, -, -, ht⟩ := define_parts h
  exact ⟨_, rfl, ht⟩

theorem defineAll_good {env0 env : List OType} {ds0 ds : List Def} (h0 : GoodEnv ds0 env0)
    (h : defineAll env0 ds = .ok env) : GoodEnv (ds0 ++ ds) env := by
  induction ds generalizing env0 ds0 with
  | nil =>
    simp only [defineAll, Except.ok.injEq] at h
    subst h
    simpa using h0
  | cons d ds ih =>
    unfold defineAll at h
    cases hd : define env0 d with
    | error c => simp [hd] at h
    | ok t =>
      simp only [hd] at h
      obtain ⟨l, hid, ht⟩ := define_shape hd
      have hstep : GoodEnv (ds0 ++ [d]) (env0 ++ [t]) := by
        obtain ⟨hlen, hall⟩ := h0
        refine ⟨by simp [hlen], ?_⟩
        intro j d' hj
        rcases Nat.lt_or_ge j ds0.length with hlt | hge
        · rw [List.getElem?_append_left hlt] at hj
          obtain ⟨l', hl', he⟩ := hall j d' hj
          refine ⟨l', hl', ?_⟩
          rw [List.getElem?_append_left (by omega), he, List.take_append_of_le_length (by omega)]
        · have hjeq : j = ds0.length := by
            have := getElem?_lt_of_some hj
            simp at this
            omega
          subst hjeq
          simp only [List.getElem?_append_right (Nat.le_refl _), Nat.sub_self, List.getElem?_cons_zero,
            Option.some.injEq] at hj
          subst hj
          refine ⟨l, by rw [hid, hlen], ?_⟩
          rw [← hlen, List.getElem?_append_right (Nat.le_refl _), Nat.sub_self, List.getElem?_cons_zero,
            List.take_left', ht]
          rfl
      have := ih hstep h
      simpa using this

theorem goodEnv_nil : GoodEnv [] [] := ⟨rfl, by simp⟩

theorem tyEq_head_id {l l' : Level} {r r' : OType} (h : tyEq (l :: r) (l' :: r') = true) : l.id = l'.id := by
  unfold tyEq at h
  simp only [Bool.or_eq_true, beq_iff_eq] at h
  rcases h with h | h
  · rw [(List.cons.inj h).1]
  · simp only [tyEqDeep, Bool.and_eq_true, beq_iff_eq] at h
    exact h.1.1.1.1.1.1.1

theorem good_head {ds : List Def} {env : List OType} (hg : GoodEnv ds env) {j : Nat} {tj : OType}
    (hj : env[j]? = some tj) : ∃ l r, tj = l :: r ∧ l.id = j := by
  have hlt : j < ds.length := by rw [← hg.1]; exact getElem?_lt_of_some hj
  obtain ⟨l, hl, he⟩ := hg.2 j ds[j] (List.getElem?_eq_getElem hlt)
  rw [he] at hj
  exact ⟨l, _, (Option.some.inj hj).symm, hl⟩

/-- type `j` is its own level on top of the type of its declared parent, or a root -/
theorem good_parent {ds : List Def} {env : List OType} (hg : GoodEnv ds env) {j : Nat} {tj : OType}
    (hj : env[j]? = some tj) :
    ∃ l : Level, l.id = j ∧
      ((∃ p tp, parentRel ds p j ∧ env[p]? = some tp ∧ tj = l :: tp) ∨ ((∀ p, ¬ parentRel ds p j) ∧ tj = [l])) := by
  have hlt : j < ds.length := by rw [← hg.1]; exact getElem?_lt_of_some hj
  have hdj : ds[j]? = some ds[j] := List.getElem?_eq_getElem hlt
  obtain ⟨l, hl, he⟩ := hg.2 j ds[j] hdj
  rw [he] at hj
  have htj := (Option.some.inj hj).symm
  refine ⟨l, hl, ?_⟩
  unfold parentOf at htj
  cases hp : ds[j].parent with
  | none =>
    right
    simp only [hp] at htj
    refine ⟨?_, htj⟩
    rintro p ⟨_, d, hd, hdp⟩
    rw [hdj] at hd
    cases hd
    rw [hp] at hdp
    cases hdp
  | some p =>
    simp only [hp] at htj
    rcases Nat.lt_or_ge p j with hpj | hpj
    · left
      have hpl : p < env.length := by rw [hg.1]; omega
      have htake : (env.take j)[p]? = some env[p] := by
        rw [List.getElem?_take_of_lt hpj]
        exact List.getElem?_eq_getElem hpl
      rw [htake] at htj
      exact ⟨p, env[p], ⟨hpj, ds[j], hdj, hp⟩, List.getElem?_eq_getElem hpl, htj⟩
    · right
      have htake : (env.take j)[p]? = none := by
        rw [List.getElem?_eq_none_iff]
        simp only [List.length_take]
        omega
      rw [htake] at htj
      refine ⟨?_, htj⟩
      rintro q ⟨hq, d, hd, hdp⟩
      rw [hdj] at hd
      cases hd
      rw [hp] at hdp
      cases hdp
      omega

theorem parentRel_unique {ds : List Def} {p q j : Nat} (hp : parentRel ds p j) (hq : parentRel ds q j) : p = q := by
  obtain ⟨_, d, hd, hdp⟩ := hp
  obtain ⟨_, d', hd', hdq⟩ := hq
  rw [hd] at hd'
  cases hd'
  rw [hdp] at hdq
  exact Option.some.inj hdq

/-- assignability between two types of one loader: `i` is `j` or is reached from `j` by following `parent` -/
theorem isAssignable_closure {ds : List Def} {env : List OType} (hg : GoodEnv ds env) {i : Nat} {ti : OType}
    (hi : env[i]? = some ti) :
    ∀ (j : Nat) (tj : OType), env[j]? = some tj →
      (isAssignable ti tj = true ↔ Relation.ReflTransGen (parentRel ds) i j) := by
  intro j
  induction j using Nat.strongRecOn with
  | _ j ih =>
    intro tj hj
    obtain ⟨li, ri, hti, hlii⟩ := good_head hg hi
    obtain ⟨l, hl, hcase⟩ := good_parent hg hj
    have hself : ∀ r, tj = l :: r → (tyEq ti tj = true ↔ i = j) := by
      intro r hr
      constructor
      · intro h
        rw [hti, hr] at h
        have := tyEq_head_id h
        omega
      · intro h
        subst h
        rw [hi] at hj
        cases hj
        exact tyEq_refl _
    rcases hcase with ⟨p, tp, hrel, hp, htj⟩ | ⟨hroot, htj⟩
    · have ihp := ih p hrel.1 tp hp
      rw [htj]
      unfold isAssignable
      rw [← htj, Bool.or_eq_true, hself tp htj, ihp]
      constructor
      · rintro (h | h)
        · rw [h]
        · exact h.tail hrel
      · intro h
        rcases Relation.ReflTransGen.cases_tail h with h | ⟨q, hq, hqj⟩
        · left; exact h.symm
        · right
          rw [parentRel_unique hrel hqj]
          exact hq
    · rw [htj]
      unfold isAssignable
      rw [← htj]
      simp only [isAssignable, Bool.or_false]
      rw [hself [] htj]
      constructor
      · intro h; rw [h]
      · intro h
        rcases Relation.ReflTransGen.cases_tail h with h | ⟨q, _, hqj⟩
        · exact h.symm
        · exact absurd hqj (hroot q)

end Pcore.Object
