import Pcore.Proofs.ObjectDefine
import Pcore.Model.ObjectInitHash
import Mathlib.Data.List.Forall2
/-! C17: the InitHash of an object TYPE — re-creating an accepted type from the definition it prints as. -/
namespace Pcore.Object

theorem ite_some_true (p : Prop) [Decidable p] :
    ((if p then some true else (none : Option Bool)) == some true) = decide p := by
  by_cases hp : p <;> simp [hp]

theorem decl_not_nonfinal (a : Attr) : (a.decl.kind == Kind.constant && a.decl.final == some false) = false := by
  simp only [Attr.decl]
  cases a.final <;> simp

theorem declValue_some {a : Attr} {v : Val} (hv : a.value = some v)
    (hn : a.kind = .constant ∨ ¬ ∃ u, v = .undef ∧ a.ty = .opt u) : a.declValue = some v := by
  unfold Attr.declValue
  by_cases hk : a.kind = .constant
  · simp [hk, hv]
  · have hkb : (a.kind == Kind.constant) = false := by simpa using hk
    simp only [hkb, Bool.false_eq_true, if_false]
    rcases hn with hn | hn
    · exact absurd hn hk
    · split
      · rename_i hv' ht
        rw [hv] at hv'
        simp only [Option.some.injEq] at hv'
        exact absurd ⟨_, hv', ht⟩ hn
      · exact hv

/-- every attribute `attribute.initialize` makes is printed back as a declaration from which `initialize` makes the same
    attribute (after the fix 86875be also a constant of an `Optional[…]` type whose value is undef) -/
theorem mkAttr_decl {d : AttrDecl} {a : Attr} (h : mkAttr d = .ok a) : mkAttr a.decl = .ok a := by
  obtain ⟨hcore, -⟩ := mkAttr_core h
  unfold mkAttr
  rw [decl_not_nonfinal]
  simp only [Bool.false_eq_true, if_false]
  obtain ⟨n, ty, k, dv, o, f⟩ := d
  unfold mkAttrCore at hcore
  cases dv with
  | some v =>
    simp only at hcore
    split at hcore
    · cases hcore
    · rename_i hk
      split at hcore
      · rename_i hinst
        cases hcore
        simp only [Bool.or_eq_true, beq_iff_eq, not_or] at hk
        by_cases hvu : k ≠ .constant ∧ (∃ u, v = .undef ∧ ty = .opt u)
        · obtain ⟨hkc, u, rfl, rfl⟩ := hvu
          simp [mkAttrCore, Attr.decl, Attr.declValue, hkc, hk.2, AttrDecl.isFinal, inst, ite_some_true]
          rcases f with _ | _ | _ <;> simp
        · generalize hfin : AttrDecl.isFinal _ = fin
          have hdv : Attr.declValue (Attr.mk n ty k (some v) o fin) = some v :=
            declValue_some rfl (by
              by_cases hkc : k = .constant
              · exact Or.inl hkc
              · exact Or.inr (fun hex => hvu ⟨hkc, hex⟩))
          simp only [mkAttrCore, Attr.decl, hdv]
          subst hfin
          cases k <;> simp [hinst, AttrDecl.isFinal, ite_some_true] at hk ⊢ <;> rcases f with _ | _ | _ <;> simp
      · cases hcore
  | none =>
    simp only at hcore
    split at hcore
    · cases hcore
    · rename_i hk
      cases hcore
      simp only [beq_iff_eq] at hk
      -- the type after `initialize` accepts undef when the attribute is given_or_derived
      generalize hty : (if (k == Kind.givenOrDerived && !inst ty Val.undef) = true then Ty.opt ty else ty) = ty'
      have hgod : (k == Kind.givenOrDerived && !inst ty' Val.undef) = false := by
        by_cases hc : (k == Kind.givenOrDerived && !inst ty Val.undef) = true
        · rw [if_pos hc] at hty; subst hty; simp [inst]
        · rw [if_neg hc] at hty; subst hty; simpa using hc
      clear hty h
      cases ty' <;> simp only [mkAttrCore, Attr.decl, Attr.declValue, hgod] <;>
        cases k <;> simp [AttrDecl.isFinal, ite_some_true] at hk hgod ⊢ <;> rcases f with _ | _ | _ <;> simp

/-! ### `defineAttrs` as a pointwise relation -/

/-- what `InitFromHash` does with one attribute specification -/
def AttrRel (parent : OType) (d : AttrDecl) (a : Attr) : Prop := mkAttr d = .ok a ∧ assertOverride parent a = .ok ()

theorem defineAttrs_iff {parent : OType} {ds : List AttrDecl} {as : List Attr} :
    defineAttrs parent ds = .ok as ↔ List.Forall₂ (AttrRel parent) ds as := by
  induction ds generalizing as with
  | nil =>
    simp only [defineAttrs, Except.ok.injEq, List.forall₂_nil_left_iff]
    exact eq_comm
  | cons d ds ih =>
    constructor
    · intro h
      unfold defineAttrs at h
      cases hm : mkAttr d with
      | error c => simp [hm] at h
      | ok a =>
        simp only [hm] at h
        cases ho : assertOverride parent a with
        | error c => simp [ho] at h
        | ok u =>
          simp only [ho] at h
          cases hr : defineAttrs parent ds with
          | error c => simp [hr] at h
          | ok as' =>
            simp only [hr] at h
            cases h
            exact List.Forall₂.cons ⟨hm, ho⟩ (ih.mp hr)
    · intro h
      cases h with
      | cons hhead htail =>
        obtain ⟨hm, ho⟩ := hhead
        unfold defineAttrs
        simp [hm, ho, ih.mpr htail]

theorem assertOverride_noShadow {parent : OType} {a : Attr} (h : assertOverride parent a = .ok ()) :
    fnShadow parent a.name = false := by
  unfold assertOverride at h
  cases hs : fnShadow parent a.name with
  | false => rfl
  | true => simp [hs] at h

theorem assertOverride_override {parent : OType} {a : Attr} (h : assertOverride parent a = .ok ()) :
    a.override = (findAttr parent a.name).isSome := by
  have hs := assertOverride_noShadow h
  unfold assertOverride at h
  simp only [hs, Bool.false_eq_true, if_false] at h
  cases hf : findAttr parent a.name with
  | none =>
    simp only [hf] at h
    cases ho : a.override with
    | false => rfl
    | true => simp [ho] at h
  | some pa =>
    simp only [hf] at h
    split at h
    · cases h
    · split at h
      · cases h
      · rename_i ho
        simpa using ho

/-- an attribute that `objectType.initHash` moves to `constants` is made again from its `constants` entry -/
theorem constDecl_rel {parent : OType} {d : AttrDecl} {a : Attr} (hm : mkAttr d = .ok a)
    (ho : assertOverride parent a = .ok ()) (hc : a.constLike = true) :
    AttrRel parent (constDecl parent (a.name, a.value.getD .undef)) a := by
  refine ⟨?_, ho⟩
  have hov := assertOverride_override ho
  have hsh := assertOverride_noShadow ho
  obtain ⟨hk, -, hfin⟩ := mkAttrCore_fields (mkAttr_core hm).1
  obtain ⟨n, ty, k, v, o, fin⟩ := a
  unfold Attr.constLike at hc
  simp only [Bool.and_eq_true, beq_iff_eq] at hc
  obtain ⟨hkc, hv⟩ := hc
  subst hkc
  have hfin' : fin = true := by
    simp only at hk hfin
    rw [hfin]; unfold AttrDecl.isFinal; simp [← hk]
  subst hfin'
  simp only at hov hsh
  subst hov
  cases v with
  | none => simp at hv
  | some w =>
    cases w <;> simp at hv <;> subst hv <;>
      simp [constDecl, tyOfVal, mkAttr, mkAttrCore, AttrDecl.isFinal, inst, hsh]

theorem forall₂_right_mem {α β} {R : α → β → Prop} {l : List α} {u : List β} (h : List.Forall₂ R l u) :
    ∀ b ∈ u, ∃ a ∈ l, R a b := by
  induction h with
  | nil => simp
  | cons hab _ ih =>
    intro b hb
    simp only [List.mem_cons] at hb
    rcases hb with rfl | hb
    · exact ⟨_, by simp, hab⟩
    · obtain ⟨a, ha, hr⟩ := ih b hb
      exact ⟨a, by simp [ha], hr⟩

/-! ### the own attributes in the order of the printed definition -/

theorem mem_reorder {as : List Attr} {a : Attr} : a ∈ reorder as ↔ a ∈ as := by
  unfold reorder
  simp only [List.mem_append, List.mem_filter]
  constructor
  · rintro (⟨h, _⟩ | ⟨h, _⟩) <;> exact h
  · intro h
    cases hc : a.constLike <;> simp [h, hc]

theorem reorder_perm (as : List Attr) : (reorder as).Perm as := by
  unfold reorder
  have := List.filter_append_perm (fun a : Attr => !a.constLike) as
  simpa using this

theorem reorder_nodup {as : List Attr} (h : (as.map (·.name)).Nodup) : ((reorder as).map (·.name)).Nodup :=
  ((reorder_perm as).map _).nodup_iff.mpr h

theorem find_name_iff {l : List Attr} (hnd : (l.map (·.name)).Nodup) {n : String} {a : Attr} :
    l.find? (fun a => a.name == n) = some a ↔ a ∈ l ∧ a.name = n := by
  constructor
  · exact find_some_mem
  · rintro ⟨ha, hn⟩
    cases hf : l.find? (fun a => a.name == n) with
    | none =>
      have := List.find?_eq_none.mp hf a ha
      simp [hn] at this
    | some b =>
      obtain ⟨hb, hbn⟩ := find_some_mem hf
      rw [nodup_map_inj hnd hb ha (hbn.trans hn.symm)]

theorem find_reorder {as : List Attr} (hnd : (as.map (·.name)).Nodup) (n : String) :
    (reorder as).find? (fun a => a.name == n) = as.find? (fun a => a.name == n) := by
  cases hf : as.find? (fun a => a.name == n) with
  | some a =>
    obtain ⟨ha, hn⟩ := find_some_mem hf
    exact (find_name_iff (reorder_nodup hnd)).mpr ⟨mem_reorder.mpr ha, hn⟩
  | none =>
    rw [List.find?_eq_none]
    intro x hx
    exact List.find?_eq_none.mp hf x (mem_reorder.mp hx)

theorem lookupMember_reorder {as : List Attr} (hnd : (as.map (·.name)).Nodup) (p : OType) (n : String) :
    lookupMember (reorder as) p n = lookupMember as p n := by
  unfold lookupMember
  rw [find_reorder hnd]

theorem checkEquality_congr {own own' : List Attr} {p : OType}
    (h : ∀ n, lookupMember own' p n = lookupMember own p n) (l : List String) :
    checkEquality own' p l = checkEquality own p l := by
  induction l with
  | nil => rfl
  | cons n ns ih =>
    unfold checkEquality
    rw [h n, ih]

theorem checkSerialization_congr {own own' : List Attr} {p : OType}
    (h : ∀ n, lookupMember own' p n = lookupMember own p n) (b : Bool) (seen l : List String) :
    checkSerialization own' p b seen l = checkSerialization own p b seen l := by
  induction l generalizing b seen with
  | nil => rfl
  | cons n ns ih =>
    unfold checkSerialization
    rw [h n]
    cases lookupMember own p n with
    | none => rfl
    | some a => simp only [ih]

/-! ### re-creating an accepted type from the definition it prints as -/

theorem define_parts {env : List OType} {d : Def} {t : OType} (h : define env d = .ok t) :
    d.params.any (fun q => (typeParams (parentOf env d)).any (fun r => r.1 == q.1)) = false ∧
    d.constants.any (fun c => d.attrs.any (fun a => a.name == c.1)) = false ∧
    ∃ attrs, defineAttrs (parentOf env d) (d.decls (parentOf env d)) = .ok attrs ∧
      checkEquality attrs (parentOf env d) (d.equality.toList?.getD []) = .ok () ∧
      checkSerialization attrs (parentOf env d) false [] (d.serialization.getD []) = .ok () ∧
      defineFuncs (parentOf env d) (d.attrs.map (·.name)) d.funcs = .ok () ∧
      (∀ n ∈ d.equality.toList?.getD [] ++ d.serialization.getD [], isFnName attrs d.funcs (parentOf env d) n = false) ∧
      t = { id := env.length, attrs := attrs, equality := d.equality.toList?,
            includeType := d.includeType.getD true, serialization := d.serialization, params := d.params,
            funcs := d.funcs } ::
          parentOf env d := by
  unfold define at h
  generalize parentOf env d = parent at h ⊢
  simp only at h
  split at h
  · cases h
  rename_i hpar
  split at h
  · cases h
  · rename_i hboth
    refine ⟨Bool.eq_false_iff.mpr hpar, Bool.eq_false_iff.mpr hboth, ?_⟩
    cases ha : defineAttrs parent (d.decls parent) with
    | error c => simp [ha] at h
    | ok attrs =>
      simp only [ha] at h
      cases hfn : defineFuncs parent (d.attrs.map (·.name)) d.funcs with
      | error c => simp [hfn] at h
      | ok u0 =>
      simp only [hfn] at h
      cases he : checkEqualityF attrs d.funcs parent (d.equality.toList?.getD []) with
      | error c => simp [he] at h
      | ok u =>
        simp only [he] at h
        cases hs : checkSerializationF attrs d.funcs parent (d.serialization.getD []) with
        | error c => simp [hs] at h
        | ok u' =>
          simp only [hs] at h
          cases h
          obtain ⟨he1, he2⟩ := checkEqualityF_ok he
          obtain ⟨hs1, hs2⟩ := checkSerializationF_ok hs
          refine ⟨attrs, rfl, he2, hs2, rfl, ?_, rfl⟩
          intro n hn
          rcases List.mem_append.mp hn with hn | hn
          · exact he1 n hn
          · exact hs1 n hn

theorem typeDef_noBoth {as : List Attr} (hnd : (as.map (·.name)).Nodup) (parent : Option Nat) (l : Level)
    (hl : l.attrs = as) :
    (typeDef parent l).constants.any (fun c => (typeDef parent l).attrs.any (fun a => a.name == c.1)) = false := by
  rw [List.any_eq_false]
  intro c hc
  simp only [Bool.not_eq_true, List.any_eq_false, beq_iff_eq]
  intro x hx hxc
  simp only [typeDef, hl, List.mem_map, List.mem_filter] at hc hx
  obtain ⟨a, ⟨ha, hac⟩, rfl⟩ := hc
  obtain ⟨b, ⟨hb, hbc⟩, rfl⟩ := hx
  have : b = a := nodup_map_inj hnd hb ha hxc
  subst this
  simp [hac] at hbc

theorem typeDef_decls {parent : OType} {ds : List AttrDecl} {as : List Attr} (h : defineAttrs parent ds = .ok as)
    (pn : Option Nat) (l : Level) (hl : l.attrs = as) :
    defineAttrs parent ((typeDef pn l).decls parent) = .ok (reorder as) := by
  have hall := forall₂_right_mem (defineAttrs_iff.mp h)
  rw [defineAttrs_iff]
  unfold Def.decls reorder
  simp only [typeDef, hl]
  apply List.rel_append
  · rw [List.forall₂_map_left_iff, List.forall₂_same]
    intro a ha
    obtain ⟨d, -, hm, ho⟩ := hall a (List.mem_filter.mp ha).1
    exact ⟨mkAttr_decl hm, ho⟩
  · rw [List.forall₂_map_left_iff, List.forall₂_map_left_iff, List.forall₂_same]
    intro a ha
    obtain ⟨d, -, hm, ho⟩ := hall a (List.mem_filter.mp ha).1
    exact constDecl_rel hm ho (List.mem_filter.mp ha).2

/-- the functions loop does not depend on the `attributes` keys beyond the name-conflict test -/
theorem defineFuncs_keys {parent : OType} {keys keys' : List String} {fs : List FnDecl}
    (hk : ∀ f ∈ fs, keys'.contains f.name = false) (h : defineFuncs parent keys fs = .ok ()) :
    defineFuncs parent keys' fs = .ok () := by
  induction fs with
  | nil => rfl
  | cons f fs ih =>
    unfold defineFuncs at h ⊢
    simp only [hk f (by simp), Bool.false_eq_true, if_false]
    split at h
    · cases h
    · cases ha : assertOverrideFn parent f with
      | error c => simp [ha] at h
      | ok u =>
        simp only [ha] at h ⊢
        exact ih (fun g hg => hk g (by simp [hg])) h

/-- an accepted definition, re-created from the InitHash of the type it defined (`typeDef`): accepted again, and the type
    is the same except that the own attributes stand in the order of the printed definition (`constants` last) -/
theorem define_typeDef {env : List OType} {d : Def} {l : Level} {p : OType} (hnd : (d.attrs.map (·.name)).Nodup)
    (hcn : (d.constants.map (·.1)).Nodup) (h : define env d = .ok (l :: p))
    (hfk : ∀ f ∈ l.funcs, ∀ a ∈ l.attrs, a.name = f.name → a.constLike = true) :
    define env (typeDef d.parent l) = .ok ({ l with attrs := reorder l.attrs } :: p) := by
  obtain ⟨hpar, hboth, attrs, hattrs, heq, hser, hfn, hnf, ht⟩ := define_parts h
  have hp : parentOf env (typeDef d.parent l) = parentOf env d := rfl
  have hl : l = Level.mk env.length attrs d.equality.toList? (d.includeType.getD true) d.serialization d.params
      d.funcs := (List.cons.inj ht).1
  have hpars : (typeDef d.parent l).params = d.params := by rw [hl]; rfl
  have hfns : (typeDef d.parent l).funcs = d.funcs := by rw [hl]; rfl
  have hfn' : defineFuncs (parentOf env d) ((typeDef d.parent l).attrs.map (·.name)) d.funcs = .ok () := by
    apply defineFuncs_keys _ hfn
    intro f hf
    have hfl : f ∈ l.funcs := by rw [hl]; exact hf
    cases hc : ((typeDef d.parent l).attrs.map (·.name)).contains f.name with
    | false => rfl
    | true =>
      exfalso
      simp only [typeDef, List.map_map, List.contains_eq_mem, List.mem_map, List.mem_filter, decide_eq_true_eq,
        Function.comp] at hc
      obtain ⟨a, ⟨ha, hnc⟩, han⟩ := hc
      have := hfk f hfl a ha (by simpa [Attr.decl] using han)
      simp [this] at hnc
  have hpp : p = parentOf env d := (List.cons.inj ht).2
  have hla : l.attrs = attrs := by rw [hl]
  have hnames : (attrs.map (·.name)).Nodup := by
    rw [(defineAttrs_ok hattrs).1]; exact decls_nodup hnd hcn hboth
  have hlook := lookupMember_reorder hnames (parentOf env d)
  have heqs : (typeDef d.parent l).equality.toList? = d.equality.toList? := by
    rw [hl]; simp only [typeDef]
    cases d.equality.toList? <;> rfl
  have hsers : (typeDef d.parent l).serialization = d.serialization := by rw [hl]; rfl
  have hinc : (typeDef d.parent l).includeType.getD true = d.includeType.getD true := by
    rw [hl]; simp only [typeDef]
    cases d.includeType.getD true <;> rfl
  unfold define
  simp only [hp, hpars, hfns, hfn', hpar, typeDef_noBoth hnames d.parent l hla, Bool.false_eq_true, if_false,
    typeDef_decls hattrs d.parent l hla, heqs, hsers, hinc]
  have hisfn : ∀ n, isFnName (reorder attrs) d.funcs (parentOf env d) n = isFnName attrs d.funcs (parentOf env d) n := by
    intro n
    unfold isFnName
    congr 2
    rw [Bool.eq_iff_iff]
    simp only [List.any_eq_true]
    constructor
    · rintro ⟨a, ha, hn⟩; exact ⟨a, mem_reorder.mp ha, hn⟩
    · rintro ⟨a, ha, hn⟩; exact ⟨a, mem_reorder.mpr ha, hn⟩
  rw [checkEqualityF_of (fun n hn => by rw [hisfn]; exact hnf n (List.mem_append.mpr (Or.inl hn))),
    checkEquality_congr hlook, heq]
  simp only
  rw [checkSerializationF_of (fun n hn => by rw [hisfn]; exact hnf n (List.mem_append.mpr (Or.inr hn))),
    checkSerialization_congr hlook, hser]
  simp only [hl, hpp]

/-! ### the re-created type lays out, constructs and reads like the original -/

theorem constLike_not_settable {a : Attr} (h : a.constLike = true) : a.settable = false := by
  unfold Attr.constLike at h
  simp only [Bool.and_eq_true, beq_iff_eq] at h
  simp [Attr.settable, h.1]

theorem findAttr_reorder {l l' : Level} {p : OType} (hnd : (l.attrs.map (·.name)).Nodup)
    (hl : l'.attrs = reorder l.attrs) (n : String) : findAttr (l' :: p) n = findAttr (l :: p) n := by
  simp only [findAttr, hl, find_reorder hnd]

theorem filter_reorder_settable (as : List Attr) (q : Attr → Bool) :
    ((reorder as).filter q).filter Attr.settable = (as.filter q).filter Attr.settable := by
  unfold reorder
  rw [List.filter_append, List.filter_append]
  have hA : ((as.filter Attr.constLike).filter q).filter Attr.settable = [] := by
    rw [List.filter_eq_nil_iff]
    intro a ha
    have := (List.mem_filter.mp (List.mem_filter.mp ha).1).2
    simp [constLike_not_settable this]
  rw [hA, List.append_nil, List.filter_filter, List.filter_filter, List.filter_filter]
  apply List.filter_congr
  intro a _
  cases hc : a.constLike with
  | false => simp
  | true => simp [constLike_not_settable hc]

theorem settable_each_reorder {l l' : Level} {p : OType} (hnd : (l.attrs.map (·.name)).Nodup)
    (hl : l'.attrs = reorder l.attrs) :
    (eachAttribute (l' :: p)).filter Attr.settable = (eachAttribute (l :: p)).filter Attr.settable := by
  rw [eachAttribute_cons, eachAttribute_cons, List.filter_append, List.filter_append, hl, filter_reorder_settable]
  congr 2
  apply List.map_congr_left
  intro a _
  simp only [repl, find_reorder hnd]

theorem posAttrs_reorder {l l' : Level} {p : OType} (hnd : (l.attrs.map (·.name)).Nodup)
    (hl : l'.attrs = reorder l.attrs) (hs : l'.serialization = l.serialization) :
    posAttrs (l' :: p) = posAttrs (l :: p) := by
  unfold posAttrs
  simp only [hs]
  cases l.serialization with
  | none =>
    simp only
    rw [settable_each_reorder hnd hl]
  | some ser =>
    simp only
    congr 1
    funext n
    exact findAttr_reorder hnd hl n

theorem attrInfo_reorder {l l' : Level} {p : OType} (hnd : (l.attrs.map (·.name)).Nodup)
    (hl : l'.attrs = reorder l.attrs) (hs : l'.serialization = l.serialization) (he : l'.equality = l.equality) :
    attrInfo (l' :: p) = attrInfo (l :: p) := by
  unfold attrInfo requiredCount
  rw [posAttrs_reorder hnd hl hs]
  simp only [equalityDeclared, equalityAttributes, he]
  rfl

end Pcore.Object
