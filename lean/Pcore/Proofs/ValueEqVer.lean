import Pcore.Model.ValueEqVer
/-! Helper lemmas for C07: `Version.Equals` / `VersionRange.Equals` are structural equality of the parsed data. -/
namespace Pcore.ValueEq

theorem segEq_iff (a b : Seg) : segEq a b = true ↔ a = b := by
  cases a <;> cases b <;> simp [segEq]

theorem segsEq_iff : ∀ a b : List Seg, segsEq a b = true ↔ a = b
  | [], [] => by simp [segsEq]
  | [], _ :: _ => by simp [segsEq]
  | _ :: _, [] => by simp [segsEq]
  | a :: as, b :: bs => by simp [segsEq, segEq_iff, segsEq_iff as bs]

theorem partsEq_iff : ∀ a b : List Bytes, partsEq a b = true ↔ a = b
  | [], [] => by simp [partsEq]
  | [], _ :: _ => by simp [partsEq]
  | _ :: _, [] => by simp [partsEq]
  | a :: as, b :: bs => by simp [partsEq, partsEq_iff as bs]

theorem equalSegs_iff (a b : Option (List Seg)) : equalSegs a b = true ↔ a = b := by
  cases a <;> cases b <;> simp [equalSegs, segsEq_iff]

theorem equalBuild_iff (a b : Option (List Bytes)) : equalBuild a b = true ↔ a = b := by
  cases a <;> cases b <;> simp [equalBuild, partsEq_iff]

/-- `version.Equals` is equality of the five fields -/
theorem verEq_iff (a b : Ver) : verEq a b = true ↔ a = b := by
  cases a; cases b
  simp [verEq, equalSegs_iff, equalBuild_iff, and_assoc]

theorem boundEq_iff (a b : Bound) : boundEq a b = true ↔ a = b := by
  cases a; cases b
  simp [boundEq, verEq_iff]

theorem arEq_iff (a b : ARange) : arEq a b = true ↔ a = b := by
  cases a <;> cases b <;> simp [arEq, boundEq_iff]

/-- `versionRange.Equals` is equality of the lists of ranges -/
theorem rangesEq_iff : ∀ a b : List ARange, rangesEq a b = true ↔ a = b
  | [], [] => by simp [rangesEq]
  | [], _ :: _ => by simp [rangesEq]
  | _ :: _, [] => by simp [rangesEq]
  | a :: as, b :: bs => by simp [rangesEq, arEq_iff, rangesEq_iff as bs]

theorem verEq_comm (a b : Ver) : verEq a b = verEq b a := by
  cases h : verEq a b
  · cases h' : verEq b a
    · rfl
    · rw [verEq_iff] at h'; subst h'; rw [(verEq_iff b b).mpr rfl] at h; cases h
  · rw [verEq_iff] at h; subst h; exact ((verEq_iff _ _).mpr rfl).symm

theorem rangesEq_comm (a b : List ARange) : rangesEq a b = rangesEq b a := by
  cases h : rangesEq a b
  · cases h' : rangesEq b a
    · rfl
    · rw [rangesEq_iff] at h'; subst h'; rw [(rangesEq_iff b b).mpr rfl] at h; cases h
  · rw [rangesEq_iff] at h; subst h; exact ((rangesEq_iff _ _).mpr rfl).symm

end Pcore.ValueEq
