import Pcore.Proofs.LatMono
set_option linter.unusedSimpArgs false
set_option linter.unusedVariables false
/-! C03: transitivity of `asg` on the fragment `Ty.TF` (Tuples included: stage 2). -/
namespace Pcore.Lat
variable (cfg : Cfg) (sfh : Bool)

theorem Ty.TF.noAliasR : ∀ (n : Nat) (t : Ty), t.w ≤ n → t.TF → t.NoAliasR := by
  intro n
  induction n with
  | zero => intro t h; have := Ty.w_pos t; omega
  | succ n ih =>
    intro t hw h
    cases t <;> unfold Ty.NoAliasR <;> (try trivial)
    · unfold Ty.TF at h; exact h
    · unfold Ty.TF at h; exact h
    · rename_i ts
      unfold Ty.TF at h; simp only [Ty.w] at hw
      exact fun t' hm => ih t' (by have := Ty.w_lt_wl hm; omega) (h t' hm)
    · unfold Ty.TF at h; simp only [Ty.w] at hw; exact ih _ (by omega) h
    · unfold Ty.TF at h; simp only [Ty.w] at hw; exact ih _ (by omega) h

structure THyp (a b c : Ty) : Prop where
  fa : a.TF
  fb : b.TF
  fc : c.TF
  wb : Ty.WF cfg b
  wc : Ty.WF cfg c

def Trans (n : Nat) : Prop :=
  ∀ a b c, a.w + b.w + c.w ≤ n → THyp cfg a b c → asg cfg sfh a b = true → asg cfg sfh b c = true → asg cfg sfh a c = true

/-- same shared singleton: interchangeable on either side -/
theorem sameNullary_eq {a b : Ty} (h : sameNullary a b = true) : a = b := by
  cases a <;> cases b <;> simp [sameNullary] at h <;> try rfl
  all_goals (rename_i p q; cases p <;> cases q <;> simp at h; rfl)

/-- the string family is closed under the receiver rules -/
theorem family_closed {b c : Ty} (hb : isStringFamily b = true) (h : asgRecv cfg sfh b c = true) : isStringFamily c = true := by
  cases b <;> simp [isStringFamily] at hb
  · unfold asgRecv at h; exact h
  · unfold asgRecv at h; cases c <;> simp at h <;> rfl
  · unfold asgRecv at h; cases c <;> simp at h <;> rfl
  · unfold asgRecv at h
    split at h
    · exact h
    · cases c <;> simp at h <;> rfl
  · unfold asgRecv at h; cases c <;> simp at h <;> rfl

theorem recv_to_asg (a c : Ty) (hc : c.plainR = true) (h : asgRecv cfg sfh a c = true) : asg cfg sfh a c = true := by
  rw [asg_plain_r cfg sfh a c hc, h]; simp

/-- leaf receivers: no recursion needed -/
theorem tr_leaf (hl : ∀ s, (cfg.lower s).length = s.length) (a b c : Ty) (hc : c.plainR = true) (wb : Ty.WF cfg b)
    (hleaf : match a with
      | .undef | .dflt | .numeric | .str | .bin | .int _ | .float _ _ | .bool _ | .tspan _ | .tstamp _ | .strSz _ | .strVal _ | .enum _ _
      | .pattern _ | .regexp _ | .runtime _ _ _ | .object _ => True
      | _ => False)
    (h1 : asgRecv cfg sfh a b = true) (h2 : asgRecv cfg sfh b c = true) : asgRecv cfg sfh a c = true := by
  cases a <;> simp only [] at hleaf <;> (first | contradiction | skip)
  · -- undef
    unfold asgRecv at h1; cases b <;> simp at h1
    exact h2
  · -- dflt
    unfold asgRecv at h1; cases b <;> simp at h1
    exact h2
  · -- numeric
    unfold asgRecv at h1; cases b <;> simp at h1
    · unfold asgRecv at h2 ⊢; cases c <;> simp at h2 ⊢
    · unfold asgRecv at h2 ⊢; cases c <;> simp at h2 ⊢
  · -- str
    unfold asgRecv at h1
    have := family_closed cfg sfh h1 h2
    unfold asgRecv; exact this
  · -- bin
    unfold asgRecv at h1; cases b <;> simp at h1
    exact h2
  · -- int
    unfold asgRecv at h1; cases b <;> simp at h1
    unfold asgRecv at h2 ⊢; cases c <;> simp at h2 ⊢
    exact Rng.sub_trans h1 h2
  · -- float
    unfold asgRecv at h1; cases b <;> simp at h1
    unfold asgRecv at h2 ⊢; cases c <;> simp at h2 ⊢
    exact ⟨Int.le_trans h1.1 h2.1, Int.le_trans h2.2 h1.2⟩
  · -- bool
    unfold asgRecv at h1; cases b <;> simp at h1
    unfold asgRecv at h2 ⊢; cases c <;> simp at h2 ⊢
    rcases h1 with h1 | h1
    · left; exact h1
    · subst h1; exact h2
  · -- tspan
    unfold asgRecv at h1; cases b <;> simp at h1
    unfold asgRecv at h2 ⊢; cases c <;> simp at h2 ⊢
    exact Rng.sub_trans h1 h2
  · -- tstamp
    unfold asgRecv at h1; cases b <;> simp at h1
    unfold asgRecv at h2 ⊢; cases c <;> simp at h2 ⊢
    exact Rng.sub_trans h1 h2
  · -- strSz
    rename_i r
    unfold asgRecv at h1; cases b <;> simp only [] at h1 <;> (first | contradiction | skip)
    · -- b strSz
      unfold asgRecv at h2 ⊢; cases c <;> simp only [] at h2 ⊢ <;> (first | contradiction | skip)
      · exact Rng.sub_trans h1 h2
      · exact Rng.sub_contains2 h1 h2
      · simp only [Bool.and_eq_true, List.all_eq_true] at h2 ⊢
        exact ⟨h2.1, fun s hs => Rng.sub_contains2 h1 (h2.2 s hs)⟩
    · -- b strVal
      unfold asgRecv at h2 ⊢; cases c <;> simp at h2 ⊢
      subst h2; exact h1
    · -- b enum
      rename_i vs ci
      unfold Ty.WF at wb
      simp only [Bool.and_eq_true, Bool.not_eq_true', List.all_eq_true] at h1
      have hne : vs.isEmpty = false := h1.1
      unfold asgRecv at h2
      simp only [hne, Bool.false_eq_true, if_false] at h2
      unfold asgRecv
      cases c <;> simp only [] at h2 ⊢ <;> (first | contradiction | skip)
      · -- c strVal
        rename_i s
        simp only [enumInst, hne, Bool.false_or, List.contains_iff_mem, List.elem_eq_mem, decide_eq_true_eq] at h2
        have := h1.2 _ h2
        cases ci <;> simp [hl] at this <;> exact this
      · -- c enum
        rename_i vs' ci'
        simp only [Bool.and_eq_true, Bool.not_eq_true', List.all_eq_true] at h2 ⊢
        refine ⟨h2.1.1, fun s hs => ?_⟩
        have h3 := h2.2 s hs
        simp only [enumInst, hne, Bool.false_or, List.contains_iff_mem, List.elem_eq_mem, decide_eq_true_eq] at h3
        have := h1.2 _ h3
        cases ci <;> simp [hl] at this <;> exact this
  · -- strVal
    unfold asgRecv at h1; cases b <;> simp at h1
    subst h1; exact h2
  · -- enum
    rename_i vs ci
    unfold asgRecv at h1 ⊢
    by_cases he : vs.isEmpty = true
    · simp only [he, if_true] at h1 ⊢
      exact family_closed cfg sfh h1 h2
    · simp only [he, Bool.false_eq_true, if_false] at h1 ⊢
      cases b <;> simp only [] at h1 <;> (first | contradiction | skip)
      · -- b strVal
        unfold asgRecv at h2; cases c <;> simp at h2
        subst h2; exact h1
      · -- b enum
        rename_i vs' ci'
        unfold Ty.WF at wb
        simp only [Bool.and_eq_true, Bool.not_eq_true', Bool.or_eq_true, List.all_eq_true] at h1
        have hne' : vs'.isEmpty = false := h1.1.1
        unfold asgRecv at h2
        simp only [hne', Bool.false_eq_true, if_false] at h2
        -- a value accepted by the middle Enum is accepted by the left one
        have key : ∀ s, enumInst cfg vs' ci' s = true → enumInst cfg vs ci s = true := by
          intro s hs
          simp only [enumInst, hne', Bool.false_or, List.contains_iff_mem, List.elem_eq_mem, decide_eq_true_eq] at hs
          have h3 := h1.2 _ hs
          cases ci' with
          | false => simpa using h3
          | true =>
            have hci : ci = true := by rcases h1.1.2 with h | h <;> simp_all
            subst hci
            simp at hs
            have hfix := wb rfl _ hs
            simp only [enumInst, Bool.or_eq_true, if_true] at h3 ⊢
            rw [hfix] at h3; exact h3
        cases c <;> simp only [] at h2 ⊢ <;> (first | contradiction | skip)
        · exact key _ h2
        · rename_i vs'' ci''
          simp only [Bool.and_eq_true, Bool.not_eq_true', Bool.or_eq_true, List.all_eq_true] at h2 ⊢
          refine ⟨⟨h2.1.1, ?_⟩, fun s hs => key s (h2.2 s hs)⟩
          rcases h1.1.2 with h | h
          · left; exact h
          · rcases h2.1.2 with h' | h'
            · rw [h'] at h; cases h
            · right; exact h'
  · -- pattern
    rename_i rs
    unfold asgRecv at h1 ⊢
    by_cases he : rs.isEmpty = true
    · have hf := family_closed cfg sfh (b := b) (by cases b <;> simp at h1 <;> rfl) h2
      cases c <;> simp [isStringFamily] at hf <;> simp [he]
    · have he' : rs.isEmpty = false := by simpa using he
      cases b <;> simp only [he', Bool.false_or, Bool.false_eq_true] at h1 <;> (first | contradiction | skip)
      · -- b strVal
        unfold asgRecv at h2; cases c <;> simp at h2
        subst h2; simp [he', h1]
      · -- b enum
        rename_i vs ci
        simp only [Bool.and_eq_true, Bool.not_eq_true', List.all_eq_true] at h1
        have hne : vs.isEmpty = false := h1.1.1
        have hci : ci = false := h1.1.2
        subst hci
        unfold asgRecv at h2
        simp only [hne, Bool.false_eq_true, if_false] at h2
        cases c <;> simp only [] at h2 ⊢ <;> (first | contradiction | skip)
        · simp only [enumInst, hne, Bool.false_or, List.contains_iff_mem, List.elem_eq_mem, decide_eq_true_eq, if_false, Bool.false_eq_true] at h2
          simp [he', h1.2 _ h2]
        · rename_i vs' ci'
          simp only [Bool.and_eq_true, Bool.not_eq_true', Bool.or_eq_true, List.all_eq_true, Bool.false_eq_true, false_or] at h2
          simp only [he', Bool.false_or, Bool.and_eq_true, Bool.not_eq_true', List.all_eq_true]
          refine ⟨⟨h2.1.1, h2.1.2⟩, fun s hs => ?_⟩
          have := h2.2 s hs
          simp only [enumInst, hne, Bool.false_or, List.contains_iff_mem, List.elem_eq_mem, decide_eq_true_eq, if_false, Bool.false_eq_true] at this
          exact h1.2 _ this
      · -- b pattern
        rename_i rs'
        simp only [Bool.and_eq_true, Bool.not_eq_true'] at h1
        have hne' : rs'.isEmpty = false := h1.1
        unfold asgRecv at h2
        cases c <;> simp only [hne', Bool.false_or, Bool.false_eq_true] at h2 ⊢ <;> (first | contradiction | skip)
        · -- c strVal
          simp only [he', Bool.false_or]
          simp only [rxAny, List.any_eq_true] at h2 ⊢
          obtain ⟨r, hr, hm⟩ := h2
          simp [subsetStr] at h1
          exact ⟨r, h1.2 r hr, hm⟩
        · -- c enum
          rename_i vs ci
          simp only [he', Bool.false_or, Bool.and_eq_true, Bool.not_eq_true', List.all_eq_true] at h2 ⊢
          refine ⟨h2.1, fun s hs => ?_⟩
          have := h2.2 s hs
          simp only [rxAny, List.any_eq_true] at this ⊢
          obtain ⟨r, hr, hm⟩ := this
          simp [subsetStr] at h1
          exact ⟨r, h1.2 r hr, hm⟩
        · -- c pattern
          rename_i rs''
          simp only [he', Bool.false_or, Bool.and_eq_true, Bool.not_eq_true'] at h2 ⊢
          refine ⟨h2.1, ?_⟩
          simp [subsetStr] at h1 h2 ⊢
          exact fun x hx => h1.2 x (h2.2 x hx)
  · -- regexp
    unfold asgRecv at h1; cases b <;> simp at h1
    unfold asgRecv at h2 ⊢; cases c <;> simp at h2 ⊢
    rcases h1 with h1 | h1
    · left; exact h1
    · subst h1; exact h2
  · -- runtime (the rule is `rtAcc`, transitive by `rtAcc_trans`)
    rename_i rt nm pt
    cases b <;> (try (rw [recv_runtime_other cfg sfh rt nm pt _ trivial] at h1; cases h1))
    rename_i rt' nm' pt'
    cases c <;> (try (rw [recv_runtime_other cfg sfh rt' nm' pt' _ trivial] at h2; cases h2))
    rename_i rt'' nm'' pt''
    rw [recv_runtime_eq] at h1 h2 ⊢
    exact rtAcc_trans h1 h2
  · -- object
    rename_i p
    unfold asgRecv at h1; cases b <;> simp only [] at h1 <;> (first | contradiction | skip)
    rename_i q
    unfold asgRecv at h2 ⊢; cases c <;> simp only [] at h2 ⊢ <;> (first | contradiction | skip)
    rename_i x
    cases p with
    | none => simp
    | some pp =>
      cases q with
      | none => simp at h1
      | some qq =>
        cases x with
        | none => simp at h2
        | some xx => simp at h1 h2 ⊢; exact isPrefix_trans _ _ _ h1 h2

theorem tf_leaf (t : Ty) (h : match t with
    | .undef | .dflt | .numeric | .str | .bin | .int _ | .float _ _ | .bool _ | .tspan _ | .tstamp _ | .strSz _ | .strVal _ | .enum _ _
    | .pattern _ | .regexp _ | .runtime _ _ _ | .object _ | .scalar | .scalarData | .any | .coll _ => True
    | _ => False) : t.TF := by
  cases t <;> simp only [] at h <;> (first | contradiction | (unfold Ty.TF; trivial))

theorem wf_leaf (t : Ty) (h : match t with
    | .undef | .dflt | .numeric | .str | .bin | .int _ | .float _ _ | .bool _ | .tspan _ | .tstamp _ | .strSz _ | .strVal _
    | .pattern _ | .regexp _ | .runtime _ _ _ | .object _ | .scalar | .scalarData | .any | .coll _ => True
    | _ => False) : Ty.WF cfg t := by
  cases t <;> simp only [] at h <;> (first | contradiction | (unfold Ty.WF; trivial))

theorem tr_scalar (n : Nat) (ih : Trans cfg sfh n) (b c : Ty) (hw : Ty.scalar.w + b.w + c.w ≤ n + 1)
    (H : THyp cfg .scalar b c) (hc : c.plainR = true)
    (h1 : asgRecv cfg sfh .scalar b = true) (h2 : asg cfg sfh b c = true) : asg cfg sfh .scalar c = true := by
  simp only [Ty.w] at hw
  apply recv_to_asg cfg sfh _ c hc
  have key : (asg cfg sfh .str b || asg cfg sfh .numeric b || asg cfg sfh (.bool none) b || asg cfg sfh (.regexp "") b ||
      asg cfg sfh (.tspan Rng.all) b || asg cfg sfh (.tstamp tstampAll) b) = true → asgRecv cfg sfh .scalar c = true := by
    intro h
    simp only [Bool.or_eq_true] at h
    have fin : (asg cfg sfh .str c || asg cfg sfh .numeric c || asg cfg sfh (.bool none) c || asg cfg sfh (.regexp "") c ||
        asg cfg sfh (.tspan Rng.all) c || asg cfg sfh (.tstamp tstampAll) c) = true → asgRecv cfg sfh .scalar c = true := by
      intro h'; unfold asgRecv; cases c <;> simp_all
    apply fin
    simp only [Bool.or_eq_true]
    rcases h with ((((h | h) | h) | h) | h) | h
    · left; left; left; left; left
      exact ih .str b c (by simp [Ty.w]; omega) ⟨tf_leaf _ trivial, H.fb, H.fc, H.wb, H.wc⟩ h h2
    · left; left; left; left; right
      exact ih .numeric b c (by simp [Ty.w]; omega) ⟨tf_leaf _ trivial, H.fb, H.fc, H.wb, H.wc⟩ h h2
    · left; left; left; right
      exact ih (.bool none) b c (by simp [Ty.w]; omega) ⟨tf_leaf _ trivial, H.fb, H.fc, H.wb, H.wc⟩ h h2
    · left; left; right
      exact ih (.regexp "") b c (by simp [Ty.w]; omega) ⟨tf_leaf _ trivial, H.fb, H.fc, H.wb, H.wc⟩ h h2
    · left; right
      exact ih (.tspan Rng.all) b c (by simp [Ty.w]; omega) ⟨tf_leaf _ trivial, H.fb, H.fc, H.wb, H.wc⟩ h h2
    · right
      exact ih (.tstamp tstampAll) b c (by simp [Ty.w]; omega) ⟨tf_leaf _ trivial, H.fb, H.fc, H.wb, H.wc⟩ h h2
  unfold asgRecv at h1
  cases b with
  | scalar =>
    -- Scalar ⊒ c as given
    rw [asg_plain_r cfg sfh _ c hc] at h2
    simp only [Bool.or_eq_true, Ty.isAny, Bool.false_eq_true, false_or] at h2
    rcases h2 with h2 | h2
    · have := sameNullary_eq h2; subst this; unfold asgRecv; rfl
    · exact h2
  | scalarData =>
    rw [asg_plain_r cfg sfh _ c hc] at h2
    simp only [Bool.or_eq_true, Ty.isAny, Bool.false_eq_true, false_or] at h2
    rcases h2 with h2 | h2
    · have := sameNullary_eq h2; subst this; unfold asgRecv; rfl
    · -- ScalarData's rule on c
      unfold asgRecv at h2
      have : (asg cfg sfh .str c || asg cfg sfh .numeric c || asg cfg sfh (.bool none) c || asg cfg sfh (.regexp "") c ||
          asg cfg sfh (.tspan Rng.all) c || asg cfg sfh (.tstamp tstampAll) c) = true ∨ c = .scalarData := by
        cases c with
        | scalarData => right; rfl
        | _ =>
          left
          simp only [Bool.or_eq_true] at h2 ⊢
          rcases h2 with ((h2 | h2) | h2) | h2
          · left; left; left; left; left; exact h2
          · left; left; left; left; right
            exact ih .numeric (.int Rng.all) _ (by simp [Ty.w] at hw ⊢; omega) ⟨tf_leaf _ trivial, tf_leaf _ trivial, H.fc, wf_leaf cfg _ trivial, H.wc⟩
              (by rw [asg_plain_r cfg sfh _ _ rfl]; simp [asgRecv]) h2
          · left; left; left; right; exact h2
          · left; left; left; left; right
            exact ih .numeric floatAll _ (by simp [Ty.w, floatAll] at hw ⊢; omega) ⟨tf_leaf _ trivial, by unfold floatAll; exact tf_leaf _ trivial, H.fc, by unfold floatAll; exact wf_leaf cfg _ trivial, H.wc⟩
              (by rw [asg_plain_r cfg sfh _ _ rfl]; simp [asgRecv, floatAll]) h2
      rcases this with h | h
      · unfold asgRecv; cases c <;> simp_all
      · subst h; unfold asgRecv; rfl
  | _ => exact key h1

theorem tr_scalarData (n : Nat) (ih : Trans cfg sfh n) (b c : Ty) (hw : Ty.scalarData.w + b.w + c.w ≤ n + 1)
    (H : THyp cfg .scalarData b c) (hc : c.plainR = true)
    (h1 : asgRecv cfg sfh .scalarData b = true) (h2 : asg cfg sfh b c = true) : asg cfg sfh .scalarData c = true := by
  simp only [Ty.w] at hw
  apply recv_to_asg cfg sfh _ c hc
  have key : (asg cfg sfh .str b || asg cfg sfh (.int Rng.all) b || asg cfg sfh (.bool none) b || asg cfg sfh floatAll b) = true →
      asgRecv cfg sfh .scalarData c = true := by
    intro h
    simp only [Bool.or_eq_true] at h
    have fin : (asg cfg sfh .str c || asg cfg sfh (.int Rng.all) c || asg cfg sfh (.bool none) c || asg cfg sfh floatAll c) = true →
        asgRecv cfg sfh .scalarData c = true := by
      intro h'; unfold asgRecv; cases c <;> simp_all
    apply fin
    simp only [Bool.or_eq_true]
    rcases h with ((h | h) | h) | h
    · left; left; left
      exact ih .str b c (by simp [Ty.w]; omega) ⟨tf_leaf _ trivial, H.fb, H.fc, H.wb, H.wc⟩ h h2
    · left; left; right
      exact ih (.int Rng.all) b c (by simp [Ty.w]; omega) ⟨tf_leaf _ trivial, H.fb, H.fc, H.wb, H.wc⟩ h h2
    · left; right
      exact ih (.bool none) b c (by simp [Ty.w]; omega) ⟨tf_leaf _ trivial, H.fb, H.fc, H.wb, H.wc⟩ h h2
    · right
      exact ih floatAll b c (by simp [Ty.w, floatAll]; omega) ⟨by unfold floatAll; exact tf_leaf _ trivial, H.fb, H.fc, H.wb, H.wc⟩ h h2
  unfold asgRecv at h1
  cases b with
  | scalarData =>
    rw [asg_plain_r cfg sfh _ c hc] at h2
    simp only [Bool.or_eq_true, Ty.isAny, Bool.false_eq_true, false_or] at h2
    rcases h2 with h2 | h2
    · have := sameNullary_eq h2; subst this; unfold asgRecv; rfl
    · exact h2
  | _ => exact key h1

/-! ### the positional types (Array, Tuple): one normal form for the four receiver rules -/
def posTypes : Ty → List Ty
  | .array e _ => [e]
  | .tuple ts _ => if ts.isEmpty then [.any] else ts
  | _ => []
def posSize : Ty → Rng
  | .array _ r => r
  | .tuple ts g => tupleSize ts g
  | _ => ⟨0, 0⟩
def Ty.isPos : Ty → Bool
  | .array _ _ | .tuple _ _ => true
  | _ => false

theorem posTypes_ne (t : Ty) (h : t.isPos = true) : posTypes t ≠ [] := by
  cases t <;> simp [Ty.isPos] at h <;> simp [posTypes]
  rename_i ts g
  split <;> simp_all

theorem tupZip_nonpos (as bs : List Ty) (k : Int) (hk : k ≤ 0) : tupZip cfg sfh as bs k = true := by
  unfold tupZip; simp [hk]

theorem tupZip_any_l (bs : List Ty) (k : Int) (hbs : bs ≠ []) : tupZip cfg sfh [.any] bs k = true := by
  rw [tupZipL_iff cfg sfh .any bs k hbs]
  intro j t _ _; exact asg_any_l cfg sfh t

theorem tupZip_single (a b : Ty) (k : Int) : tupZip cfg sfh [a] [b] k = (decide (k ≤ 0) || asg cfg sfh a b) := by
  unfold tupZip
  by_cases hk : k ≤ 0 <;> simp [hk]

/-- Array / Tuple against Array / Tuple: sizes, then the position loop over the normal forms -/
theorem recv_pos (a b : Ty) (ha : a.isPos = true) (hb : b.isPos = true) :
    asgRecv cfg sfh a b = ((posSize a).sub (posSize b) && tupZip cfg sfh (posTypes a) (posTypes b) (posSize b).hi) := by
  cases a <;> simp [Ty.isPos] at ha <;> cases b <;> simp [Ty.isPos] at hb
  · rename_i e r e' r'
    unfold asgRecv; simp only [posSize, posTypes, tupZip_single]
  · rename_i e r ts' g'
    unfold asgRecv; simp only [posSize, posTypes]
    congr 1
    by_cases hz : (tupleSize ts' g').hi ≤ 0
    · simp [hz, tupZip_nonpos]
    · by_cases hts : ts'.isEmpty = true
      · simp [hz, hts, tupZip_single]
      · simp [hz, hts]
  · rename_i ts g e' r'
    unfold asgRecv; simp only [posSize, posTypes]
    congr 1
    by_cases hts : ts.isEmpty = true
    · simp [hts, tupZip_any_l]
    · simp only [hts, Bool.false_or, if_false]
      by_cases hz : r'.hi = 0
      · simp [hz, tupZip_nonpos]
      · simp [hz]
  · rename_i ts g ts' g'
    unfold asgRecv; simp only [posSize, posTypes]
    congr 1
    by_cases hts : ts.isEmpty = true
    · have hne : (if ts'.isEmpty = true then [Ty.any] else ts') ≠ [] := by split <;> simp_all
      simp only [hts, if_true, Bool.true_or]
      exact (tupZip_any_l cfg sfh _ _ hne).symm
    · by_cases hts' : ts'.isEmpty = true <;> simp [hts, hts']

/-- the position loop is transitive when the elements are (the second bound is the smaller one) -/
theorem tupZip_trans (as bs cs : List Ty) (k1 k2 : Int) (hk : k2 ≤ k1) (has : as ≠ []) (hbs : bs ≠ []) (hcs : cs ≠ [])
    (el : ∀ a ∈ as, ∀ b ∈ bs, ∀ c ∈ cs, asg cfg sfh a b = true → asg cfg sfh b c = true → asg cfg sfh a c = true)
    (h1 : tupZip cfg sfh as bs k1 = true) (h2 : tupZip cfg sfh bs cs k2 = true) : tupZip cfg sfh as cs k2 = true := by
  rw [tupZip_iff cfg sfh as bs k1 has hbs] at h1
  rw [tupZip_iff cfg sfh bs cs k2 hbs hcs] at h2
  rw [tupZip_iff cfg sfh as cs k2 has hcs]
  intro i a c hi hmax ha hc
  have la : 0 < as.length := List.length_pos_iff.2 has
  have lb : 0 < bs.length := List.length_pos_iff.2 hbs
  have lc : 0 < cs.length := List.length_pos_iff.2 hcs
  have hbl : min i (bs.length - 1) < bs.length := by omega
  have hb := List.getElem?_eq_getElem hbl
  have hbm : bs[min i (bs.length - 1)] ∈ bs := List.getElem_mem hbl
  have ham : a ∈ as := List.mem_of_getElem? ha
  have hcm : c ∈ cs := List.mem_of_getElem? hc
  apply el a ham _ hbm c hcm
  · -- a against the b of position i
    by_cases hm : i < max as.length bs.length
    · exact h1 i a _ (by omega) hm ha hb
    · have e1 : min (max as.length bs.length - 1) (as.length - 1) = min i (as.length - 1) := by omega
      have e2 : min (max as.length bs.length - 1) (bs.length - 1) = min i (bs.length - 1) := by omega
      apply h1 (max as.length bs.length - 1) a _ (by omega) (by omega)
      · rw [e1]; exact ha
      · rw [e2]; exact hb
  · by_cases hm : i < max bs.length cs.length
    · exact h2 i _ c hi hm hb hc
    · have e1 : min (max bs.length cs.length - 1) (bs.length - 1) = min i (bs.length - 1) := by omega
      have e2 : min (max bs.length cs.length - 1) (cs.length - 1) = min i (cs.length - 1) := by omega
      apply h2 (max bs.length cs.length - 1) _ c (by omega) (by omega)
      · rw [e1]; exact hb
      · rw [e2]; exact hc

theorem pos_elem (x : Ty) (hx : x.isPos = true) (t : Ty) (ht : t ∈ posTypes x) :
    t.w < x.w ∧ (x.TF → t.TF) ∧ (Ty.WF cfg x → Ty.WF cfg t) := by
  cases x <;> simp [Ty.isPos] at hx
  · rename_i e r
    simp only [posTypes, List.mem_singleton] at ht; subst ht
    refine ⟨by simp [Ty.w], fun h => by unfold Ty.TF at h; exact h, fun h => by unfold Ty.WF at h; exact h⟩
  · rename_i ts g
    simp only [posTypes] at ht
    by_cases hts : ts.isEmpty = true
    · simp only [hts, if_true, List.mem_singleton] at ht; subst ht
      refine ⟨by simp only [Ty.w]; omega, fun _ => by unfold Ty.TF; trivial, fun _ => by unfold Ty.WF; trivial⟩
    · have ht' : t ∈ ts := by simpa [hts] using ht
      refine ⟨by have := Ty.w_lt_wl ht'; simp only [Ty.w]; omega, fun h => by unfold Ty.TF at h; exact h t ht',
        fun h => by unfold Ty.WF at h; exact h t ht'⟩

/-- transitivity among the positional types, elements by the induction hypothesis -/
theorem tr_pos (n : Nat) (ih : Trans cfg sfh n) (a b c : Ty) (pa : a.isPos = true) (pb : b.isPos = true) (pc : c.isPos = true)
    (hw : a.w + b.w + c.w ≤ n + 1) (H : THyp cfg a b c)
    (h1 : asgRecv cfg sfh a b = true) (h2 : asgRecv cfg sfh b c = true) : asgRecv cfg sfh a c = true := by
  rw [recv_pos cfg sfh a b pa pb, Bool.and_eq_true] at h1
  rw [recv_pos cfg sfh b c pb pc, Bool.and_eq_true] at h2
  rw [recv_pos cfg sfh a c pa pc, Bool.and_eq_true]
  refine ⟨Rng.sub_trans h1.1 h2.1, ?_⟩
  have hk : (posSize c).hi ≤ (posSize b).hi := by
    have := h2.1; simp [Rng.sub] at this; omega
  apply tupZip_trans cfg sfh _ _ _ _ _ hk (posTypes_ne a pa) (posTypes_ne b pb) (posTypes_ne c pc) ?_ h1.2 h2.2
  intro a' ha' b' hb' c' hc'
  obtain ⟨wa', fa', _⟩ := pos_elem cfg a pa a' ha'
  obtain ⟨wb', fb', wfb'⟩ := pos_elem cfg b pb b' hb'
  obtain ⟨wc', fc', wfc'⟩ := pos_elem cfg c pc c' hc'
  exact ih a' b' c' (by omega) ⟨fa' H.fa, fb' H.fb, fc' H.fc, wfb' H.wb, wfc' H.wc⟩

theorem tr_coll (r : Rng) (b c : Ty) (fb : b.TF) (fc : c.TF)
    (h1 : asgRecv cfg sfh (.coll r) b = true) (h2 : asgRecv cfg sfh b c = true) : asgRecv cfg sfh (.coll r) c = true := by
  unfold asgRecv at h1
  cases b <;> simp only [] at h1 <;> (first | contradiction | skip)
  · unfold asgRecv at h2 ⊢; cases c <;> simp only [] at h2 ⊢ <;> (first | contradiction | skip)
    all_goals exact Rng.sub_trans h1 h2
  · unfold asgRecv at h2 ⊢; cases c <;> simp only [] at h2 ⊢ <;> (first | contradiction | skip)
    · simp only [Bool.and_eq_true] at h2; exact Rng.sub_trans h1 h2.1
    · simp only [Bool.and_eq_true] at h2; exact Rng.sub_trans h1 h2.1
  · unfold asgRecv at h2 ⊢; cases c <;> simp only [] at h2 ⊢ <;> (first | contradiction | skip)
    · rw [Bool.and_eq_true] at h2; exact Rng.sub_trans h1 h2.1
    · unfold Ty.TF at fc; exact absurd fc id
  · unfold asgRecv at h2 ⊢; cases c <;> simp only [] at h2 ⊢ <;> (first | contradiction | skip)
    · simp only [Bool.and_eq_true] at h2; exact Rng.sub_trans h1 h2.1
    · simp only [Bool.and_eq_true] at h2; exact Rng.sub_trans h1 h2.1
  · unfold Ty.TF at fb; exact absurd fb id

/-- what a positional receiver accepts (without decomposition) is positional -/
theorem pos_closed (b c : Ty) (pb : b.isPos = true) (h : asgRecv cfg sfh b c = true) : c.isPos = true := by
  cases b <;> simp [Ty.isPos] at pb
  · unfold asgRecv at h; cases c <;> simp only [] at h <;> (first | contradiction | rfl)
  · unfold asgRecv at h; cases c <;> simp only [] at h <;> (first | contradiction | rfl)

theorem tr_array (n : Nat) (ih : Trans cfg sfh n) (e : Ty) (r : Rng) (b c : Ty) (hw : (Ty.array e r).w + b.w + c.w ≤ n + 1)
    (H : THyp cfg (.array e r) b c)
    (h1 : asgRecv cfg sfh (.array e r) b = true) (h2 : asgRecv cfg sfh b c = true) : asgRecv cfg sfh (.array e r) c = true := by
  have pb : b.isPos = true := pos_closed cfg sfh _ b rfl h1
  exact tr_pos cfg sfh n ih _ b c rfl pb (pos_closed cfg sfh b c pb h2) hw H h1 h2

theorem tr_tuple (n : Nat) (ih : Trans cfg sfh n) (ts : List Ty) (g : Option Rng) (b c : Ty) (hw : (Ty.tuple ts g).w + b.w + c.w ≤ n + 1)
    (H : THyp cfg (.tuple ts g) b c)
    (h1 : asgRecv cfg sfh (.tuple ts g) b = true) (h2 : asgRecv cfg sfh b c = true) : asgRecv cfg sfh (.tuple ts g) c = true := by
  have pb : b.isPos = true := pos_closed cfg sfh _ b rfl h1
  exact tr_pos cfg sfh n ih _ b c rfl pb (pos_closed cfg sfh b c pb h2) hw H h1 h2

theorem tr_hash (n : Nat) (ih : Trans cfg sfh n) (k v : Ty) (r : Rng) (b c : Ty) (hw : (Ty.hash k v r).w + b.w + c.w ≤ n + 1)
    (H : THyp cfg (.hash k v r) b c)
    (h1 : asgRecv cfg sfh (.hash k v r) b = true) (h2 : asgRecv cfg sfh b c = true) : asgRecv cfg sfh (.hash k v r) c = true := by
  have fa := H.fa; unfold Ty.TF at fa
  unfold asgRecv at h1
  cases b <;> simp only [] at h1 <;> (first | contradiction | skip)
  · rename_i k' v' r'
    have fb := H.fb; unfold Ty.TF at fb
    have wb := H.wb; unfold Ty.WF at wb
    unfold asgRecv at h2 ⊢; cases c <;> simp only [] at h2 ⊢ <;> (first | contradiction | skip)
    · rename_i k'' v'' r''
      have fc := H.fc; unfold Ty.TF at fc
      have wc := H.wc; unfold Ty.WF at wc
      simp only [Ty.w] at hw
      rw [Bool.and_eq_true] at h1 h2 ⊢
      refine ⟨Rng.sub_trans h1.1 h2.1, ?_⟩
      by_cases hz : r''.hi ≤ 0
      · simp [hz]
      · have hz' : ¬ r'.hi ≤ 0 := by
          have := h2.1; simp [Rng.sub] at this; omega
        have h12 := h1.2; have h22 := h2.2
        simp only [Bool.or_eq_true, decide_eq_true_eq, Bool.and_eq_true] at h12 h22 ⊢
        right
        have hA := h12.resolve_left hz'
        have hB := h22.resolve_left hz
        exact ⟨ih k k' k'' (by omega) ⟨fa.1, fb.1, fc.1, wb.1, wc.1⟩ hA.1 hB.1,
          ih v v' v'' (by omega) ⟨fa.2, fb.2, fc.2, wb.2, wc.2⟩ hA.2 hB.2⟩
    · have fc := H.fc; unfold Ty.TF at fc; exact absurd fc id
  · have fb := H.fb; unfold Ty.TF at fb; exact absurd fb id

theorem tr_typ (n : Nat) (ih : Trans cfg sfh n) (x : Ty) (b c : Ty) (hw : (Ty.typ x).w + b.w + c.w ≤ n + 1)
    (H : THyp cfg (.typ x) b c)
    (h1 : asgRecv cfg sfh (.typ x) b = true) (h2 : asgRecv cfg sfh b c = true) : asgRecv cfg sfh (.typ x) c = true := by
  have fa := H.fa; unfold Ty.TF at fa
  unfold asgRecv at h1
  cases b <;> simp only [] at h1 <;> (first | contradiction | skip)
  rename_i y
  have fb := H.fb; unfold Ty.TF at fb
  have wb := H.wb; unfold Ty.WF at wb
  unfold asgRecv at h2 ⊢; cases c <;> simp only [] at h2 ⊢ <;> (first | contradiction | skip)
  rename_i z
  have fc := H.fc; unfold Ty.TF at fc
  have wc := H.wc; unfold Ty.WF at wc
  simp only [Ty.w] at hw
  exact ih x y z (by omega) ⟨fa, fb, fc, wb, wc⟩ h1 h2

theorem tr_sensitive (n : Nat) (ih : Trans cfg sfh n) (x : Ty) (b c : Ty) (hw : (Ty.sensitive x).w + b.w + c.w ≤ n + 1)
    (H : THyp cfg (.sensitive x) b c)
    (h1 : asgRecv cfg sfh (.sensitive x) b = true) (h2 : asgRecv cfg sfh b c = true) : asgRecv cfg sfh (.sensitive x) c = true := by
  have fa := H.fa; unfold Ty.TF at fa
  unfold asgRecv at h1
  cases b <;> simp only [] at h1 <;> (first | contradiction | skip)
  rename_i y
  have fb := H.fb; unfold Ty.TF at fb
  have wb := H.wb; unfold Ty.WF at wb
  unfold asgRecv at h2 ⊢; cases c <;> simp only [] at h2 ⊢ <;> (first | contradiction | skip)
  rename_i z
  have fc := H.fc; unfold Ty.TF at fc
  have wc := H.wc; unfold Ty.WF at wc
  simp only [Ty.w] at hw
  exact ih x y z (by omega) ⟨fa, fb, fc, wb, wc⟩ h1 h2

theorem tr_iterator (n : Nat) (ih : Trans cfg sfh n) (x : Ty) (b c : Ty) (hw : (Ty.iterator x).w + b.w + c.w ≤ n + 1)
    (H : THyp cfg (.iterator x) b c)
    (h1 : asgRecv cfg sfh (.iterator x) b = true) (h2 : asgRecv cfg sfh b c = true) : asgRecv cfg sfh (.iterator x) c = true := by
  have fa := H.fa; unfold Ty.TF at fa
  unfold asgRecv at h1
  cases b <;> simp only [] at h1 <;> (first | contradiction | skip)
  rename_i y
  have fb := H.fb; unfold Ty.TF at fb
  have wb := H.wb; unfold Ty.WF at wb
  unfold asgRecv at h2 ⊢; cases c <;> simp only [] at h2 ⊢ <;> (first | contradiction | skip)
  rename_i z
  have fc := H.fc; unfold Ty.TF at fc
  have wc := H.wc; unfold Ty.WF at wc
  simp only [Ty.w] at hw
  exact ih x y z (by omega) ⟨fa, fb, fc, wb, wc⟩ h1 h2

end Pcore.Lat
