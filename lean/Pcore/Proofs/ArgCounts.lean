import Pcore.Model.Resolve
/-!
Second tie of the resolver model (C06), arity: the argument counts each positional creator DECLARES to accept (the literal in
its `illegalArgumentCount(label, counts, n)` call, regenerated into `Pcore/Generated/ArgCounts.lean` by
`extract/argcounts.go`) against the count from which the model reports ILLEGAL_ARGUMENT_COUNT.
-/
namespace Pcore.Syntax

/-- the label under which the creator of a kind reports a wrong argument count (`none`: it never does — Enum, Pattern, Variant,
    Tuple, Callable take any number of arguments) -/
def countLabel : TKind → Option String
  | .integer => some "Integer[]"
  | .float => some "Float"
  | .string => some "String[]"
  | .boolean => some "Boolean[]"
  | .regexp => some "Regexp[]"
  | .array => some "Array[]"
  | .hash => some "Hash[]"
  | .collection => some "Collection[]"
  | .struct => some "Struct"
  | .runtime => some "Runtime[]"
  | .typeRef => some "TypeReference[]"
  | .wrap .optional => some "Optional[]"
  | .wrap .notUndef => some "NotUndef[]"
  | .wrap .type_ => some "Type[]"
  | .wrap .sensitive => some "Sensitive[]"
  | .wrap .iterable => some "Iterable[]"
  | .wrap .iterator => some "Iterator[]"
  | _ => none

/-- the largest argument count the MODEL's creator does not refuse for its count alone -/
def modelMax : TKind → Option Nat
  | .integer => some 2
  | .float => some 2
  | .string => some 2
  | .boolean => some 1
  | .regexp => some 1
  | .array => some 3
  | .hash => some 4           -- the code accepts key, value, min, max although its message says "0, 2, or 3"
  | .collection => some 2
  | .struct => some 1
  | .runtime => some 3
  | .typeRef => some 1
  | .wrap _ => some 1
  | _ => none

/-- the largest count a declaration like `0 - 2`, `0 or 1`, `0, 2, or 3`, `1` names: its last digit -/
def declaredMax (s : String) : Option Nat :=
  match s.toList.reverse.find? Char.isDigit with
  | some c => some (c.toNat - '0'.toNat)
  | none => none

/-- side condition on the regenerated table: every kind whose creator can refuse a count has a row under its label, and the
    declared maximum is the model's (Hash: the declaration says 3, the code — and the model — take 4) -/
def argCountsOK (tbl : List (String × String × String)) : Bool :=
  allKinds.all fun k =>
    match countLabel k, modelMax k with
    | some l, some n => tbl.any fun r => r.2.1 == l && declaredMax r.2.2 == some (if k == .hash then 3 else n)
    | none, none => true
    | _, _ => false

/-- above the model's maximum every creator refuses: by count, or — Integer and Float look at their first argument before they
    count — by the kind of the first argument -/
theorem over_max_refused (env : Env) (k : TKind) (n : Nat) (args : List Arg) (hk : modelMax k = some n) (hl : n < args.length) :
    createKR env k args = .reported .argCount ∨ createKR env k args = .reported .argType := by
  cases k with
  | integer =>
    simp only [modelMax, Option.some.injEq] at hk; subst hk
    match args, hl with
    | a :: b :: c :: rest, _ => by_cases h : a.isIntOrD = true <;> simp [createKR, createK, diagK, h]
  | float =>
    simp only [modelMax, Option.some.injEq] at hk; subst hk
    match args, hl with
    | a :: b :: c :: rest, _ => by_cases h : a.isFloatOrD = true <;> simp [createKR, createK, diagK, h]
  | string =>
    simp only [modelMax, Option.some.injEq] at hk; subst hk
    match args, hl with
    | a :: b :: c :: rest, _ => simp [createKR, createK, diagK]
  | boolean =>
    simp only [modelMax, Option.some.injEq] at hk; subst hk
    match args, hl with
    | a :: b :: rest, _ => simp [createKR, createK, diagK]
  | regexp =>
    simp only [modelMax, Option.some.injEq] at hk; subst hk
    match args, hl with
    | a :: b :: rest, _ => simp [createKR, createK, diagK]
  | collection =>
    simp only [modelMax, Option.some.injEq] at hk; subst hk
    match args, hl with
    | a :: b :: c :: rest, _ => simp [createKR, createK, diagK]
  | typeRef =>
    simp only [modelMax, Option.some.injEq] at hk; subst hk
    match args, hl with
    | a :: b :: rest, _ => simp [createKR, createK, typeRefCreate, diagK]
  | runtime =>
    simp only [modelMax, Option.some.injEq] at hk; subst hk
    match args, hl with
    | a :: b :: c :: d :: rest, _ => simp [createKR, createK, runtimeCreate, diagK]
  | wrap w =>
    simp only [modelMax, Option.some.injEq] at hk; subst hk
    match args, hl with
    | a :: b :: rest, _ => simp [createKR, createK, wrapOf, diagK]
  | hash =>
    simp only [modelMax, Option.some.injEq] at hk; subst hk
    match args, hl with
    | a :: b :: c :: d :: e :: rest, _ => simp [createKR, createK, diagK]
  | array =>
    simp only [modelMax, Option.some.injEq] at hk; subst hk
    match args, hl with
    | a :: b :: c :: d :: rest, _ =>
      cases a with
      | ty t => simp [createKR, createK, diagK]
      | _ => simp [createKR, createK, diagK]
  | struct =>
    simp only [modelMax, Option.some.injEq] at hk; subst hk
    match args, hl with
    | a :: b :: rest, _ => simp [createKR, createK, structArgs, diagK, diagK.structCode]
  | enum => simp [modelMax] at hk
  | pattern => simp [modelMax] at hk
  | variant => simp [modelMax] at hk
  | tuple => simp [modelMax] at hk
  | callable => simp [modelMax] at hk

end Pcore.Syntax
