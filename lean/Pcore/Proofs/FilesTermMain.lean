import Pcore.Proofs.FilesTerm
/-!
C15, termination of the model, the induction (see `FilesTerm.lean` for the calculus and the potential).
-/
namespace Pcore.Files

theorem members_le_of_mem {t : Tree} {f : Path × Body} (hf : f ∈ t) {k : Kind} {nm : Name} {ts : List String}
    (hb : f.2 = .typ k nm ts) : ts.length ≤ maxMembers t := by
  induction t with
  | nil => cases hf
  | cons x r ih =>
    rcases List.mem_cons.mp hf with rfl | h
    · obtain ⟨p, b⟩ := f
      simp only at hb
      subst hb
      simp only [maxMembers]
      omega
    · have := ih h
      obtain ⟨p, b⟩ := x
      cases b <;> simp only [maxMembers] <;> omega

theorem bodyAt_members {t : Tree} {p : Path} {k : Kind} {nm : Name} {ts : List String}
    (h : bodyAt t p = some (.typ k nm ts)) : ts.length ≤ maxMembers t := by
  unfold bodyAt at h
  cases hf : t.find? (fun f => f.1 = p) with
  | none => rw [hf] at h; cases h
  | some f =>
    rw [hf] at h
    simp only [Option.some.injEq] at h
    exact members_le_of_mem (List.mem_of_find?_eq_some hf) h

theorem mem_instPairs_of_idx {cfg : Cfg} {l : Lid} {k : Key} (hl : l ∈ loaders cfg) (h : idx cfg l k ≠ []) :
    (l, k) ∈ instPairs cfg := by
  unfold instPairs
  rw [List.mem_flatMap]
  refine ⟨l, hl, ?_⟩
  rw [List.mem_map]
  refine ⟨k, ?_, rfl⟩
  rw [List.mem_append]
  left
  unfold idxKeys
  rw [List.mem_eraseDups, List.mem_flatMap]
  unfold idx at h
  obtain ⟨p, hp⟩ := List.exists_mem_of_ne_nil _ h
  rw [List.mem_map] at hp
  obtain ⟨f, hf, _⟩ := hp
  rw [List.mem_filter] at hf
  exact ⟨f, hf.1, by simpa using hf.2⟩

theorem mem_instPairs_mod {cfg : Cfg} {l : Lid} (hl : l ∈ loaders cfg) : (l, [l.moduleName]) ∈ instPairs cfg := by
  unfold instPairs
  rw [List.mem_flatMap]
  refine ⟨l, hl, ?_⟩
  rw [List.mem_map]
  exact ⟨[l.moduleName], by simp, rfl⟩

theorem g_mem_loaders (cfg : Cfg) : Lid.g ∈ loaders cfg := by simp [loaders]
theorem via_mem_loaders (cfg : Cfg) : cfg.via ∈ loaders cfg := by simp [loaders]
theorem m_mem_loaders {cfg : Cfg} {m : String} (h : m ∈ cfg.mods) : Lid.m m ∈ loaders cfg := by
  simp only [loaders, List.mem_cons, List.mem_map]
  exact Or.inr (Or.inr ⟨m, h, rfl⟩)

theorem keyOf_length' (n : Name) : (keyOf n).length = n.length := by simp [keyOf]

section
variable (cfg : Cfg) (N : Nat)

-- `stepC`, `LEn`, `maxMembers`, `fuelBound`, `seqBound`: `Pcore/Model/FilesFuel.lean`
/-- fuel `instantiate` needs at potential `W` -/
def INn (W : Nat) : Nat := W * stepC cfg N + maxMembers cfg.tree + 4
def fbSlack : Lid → Nat
  | .m _ => 0
  | _ => 1

theorem LEn_succ (W : Nat) : LEn cfg N (W + 1) = LEn cfg N W + stepC cfg N := by
  unfold LEn; rw [Nat.succ_mul]

theorem LEn_pos (W : Nat) : stepC cfg N ≤ LEn cfg N W := by
  unfold LEn
  exact Nat.le_mul_of_pos_left _ (Nat.succ_pos W)

theorem INn_eq (W : Nat) : INn cfg N (W + 1) = LEn cfg N W + maxMembers cfg.tree + 4 := rfl

/-- the level constant pays for the routing, the parent search and the member loop -/
theorem key_arith (W L : Nat) (hL : L ≤ N) :
    INn cfg N W + 3 * L + 2 + cfg.mods.length + 7 ≤ LEn cfg N W := by
  have h : LEn cfg N W = W * stepC cfg N + stepC cfg N := by unfold LEn; rw [Nat.succ_mul]
  rw [h]
  unfold INn stepC
  omega

structure AllT (n : Nat) : Prop where
  loadEntry : ∀ l name W s, l ∈ loaders cfg → pot cfg s ≤ W → name.length + W ≤ N → LEn cfg N W ≤ n →
    SpecT (loadEntry n cfg l name) s
  fbLoadEntry : ∀ l name W s, l ∈ loaders cfg → pot cfg s ≤ W → name.length + W ≤ N →
    LEn cfg N W ≤ n + cfg.mods.length + 5 + fbSlack l → SpecT (fbLoadEntry n cfg l name) s
  find : ∀ l name W s, l ∈ loaders cfg → pot cfg s ≤ W → name.length + W ≤ N →
    INn cfg N W + 3 * name.length + 2 ≤ n → SpecT (find n cfg l name) s
  findTail : ∀ l name W s, l ∈ loaders cfg → pot cfg s ≤ W → name.length + W ≤ N →
    INn cfg N W + 3 * name.length + 1 ≤ n → SpecT (findTail n cfg l name) s
  parentSearch : ∀ l name ts W s, l ∈ loaders cfg → pot cfg s ≤ W → ts.length + W ≤ N →
    INn cfg N W + 3 * ts.length + 3 ≤ n → SpecT (parentSearch n cfg l name ts) s
  instantiate : ∀ l name origins W s, l ∈ loaders cfg → (l, keyOf name) ∈ instPairs cfg → pot cfg s ≤ W →
    name.length + W ≤ N → INn cfg N W ≤ n → SpecT (instantiate n cfg l name origins) s
  instantiator : ∀ name origins W s, pot cfg s ≤ W → name.length + 1 + W ≤ N →
    LEn cfg N W + maxMembers cfg.tree + 3 ≤ n → SpecT (instantiator n cfg name origins) s
  addTypes : ∀ d ts W s, pot cfg s ≤ W → d.name.length + 1 + W ≤ N → LEn cfg N W + ts.length + 2 ≤ n →
    SpecT (addTypes n cfg d ts) s
  resolveTS : ∀ nm ts i W s, pot cfg s ≤ W → nm.length + 1 + W ≤ N → LEn cfg N W + ts.length + 1 ≤ n →
    SpecT (resolveTS n cfg nm ts i) s
  dLoadEntry : ∀ name W s, pot cfg s ≤ W → name.length + W ≤ N → LEn cfg N W ≤ n + 1 → SpecT (dLoadEntry n cfg name) s
  dFind : ∀ name W s, pot cfg s ≤ W → name.length + W ≤ N → LEn cfg N W ≤ n + 2 → SpecT (dFind n cfg name) s
  dMembers : ∀ name W s, pot cfg s ≤ W → name.length + W ≤ N → LEn cfg N W ≤ n + 3 → SpecT (dMembers n cfg name) s
  dLoop : ∀ mods name W s, (∀ m ∈ mods, m ∈ cfg.mods) → pot cfg s ≤ W → name.length + W ≤ N →
    LEn cfg N W + mods.length ≤ n + cfg.mods.length + 4 → SpecT (dLoop n cfg mods name) s

variable {cfg N}

/-- the goal shape inside a function body: from the current state `s` (reached from the function's initial state `s0`
    without removing anything) the rest of the body does not diverge and removes nothing -/
abbrev Goal {α : Type} (s0 : St) (x : M α) (s : St) : Prop := tpv x (fun _ s' => Mono s0 s') (Mono s0) s

/-- a call in the middle of a body -/
theorem tpv_call {α : Type} {x : M α} {s0 s : St} {K : α → St → Prop} (hm : Mono s0 s) (hx : SpecT x s)
    (hk : ∀ a s', Mono s0 s' → K a s') : tpv x K (Mono s0) s :=
  tpv_mono hx (fun a s' h => hk a s' (hm.trans h)) (fun _ h => hm.trans h)

/-- a call in tail position -/
theorem tpv_tail {α : Type} {x : M α} {s0 s : St} (hm : Mono s0 s) (hx : SpecT x s) : Goal s0 x s :=
  tpv_mono hx (fun _ _ h => hm.trans h) (fun _ h => hm.trans h)

theorem tpv_of_ok {α : Type} {x : M α} {s s1 : St} {a : α} {Q : α → St → Prop} {E : St → Prop}
    (h : x s = .ok a s1) : tpv x Q E s ↔ Q a s1 := by
  unfold tpv; rw [h]

theorem goal_reported {α : Type} (s0 : St) (code : String) (f : Option Path) (ln : Nat) (s : St) (hm : Mono s0 s) :
    Goal s0 (raise (.reported code f ln) : M α) s := ⟨(by intro h; cases h), hm⟩

theorem pot_le {s0 s : St} {W : Nat} (hm : Mono s0 s) (hp : pot cfg s0 ≤ W) : pot cfg s ≤ W :=
  Nat.le_trans (pot_mono cfg hm) hp

/-- `setEntry` in the middle of a body -/
theorem tpv_setEntry_call {s0 s : St} (l : Lid) (k : Key) (e : Entry) {K : Entry → St → Prop} (hm : Mono s0 s)
    (hk : ∀ a s', Mono s0 s' → K a s') : tpv (setEntry l k e) K (Mono s0) s :=
  tpv_call hm (specT_setEntry l k e s) hk

theorem tstep_loadEntry {n : Nat} (ih : AllT cfg N n) (l : Lid) (name : Name) (W : Nat) (s : St) (hl : l ∈ loaders cfg)
    (hp : pot cfg s ≤ W) (hN : name.length + W ≤ N) (hn : LEn cfg N W ≤ n + 1) :
    SpecT (loadEntry (n+1) cfg l name) s := by
  cases l with
  | d => simp only [loadEntry]; exact ih.dLoadEntry name W s hp hN hn
  | g => simp only [loadEntry]; exact ih.fbLoadEntry .g name W s hl hp hN (by omega)
  | m mod => simp only [loadEntry]; exact ih.fbLoadEntry (.m mod) name W s hl hp hN (by omega)

theorem tstep_parentSearch {n : Nat} (ih : AllT cfg N n) (l : Lid) (name ts : Name) (W : Nat) (s : St)
    (hl : l ∈ loaders cfg) (hp : pot cfg s ≤ W) (hN : ts.length + W ≤ N)
    (hn : INn cfg N W + 3 * ts.length + 3 ≤ n + 1) : SpecT (parentSearch (n+1) cfg l name ts) s := by
  cases ts with
  | nil => simp only [parentSearch]; exact Mono.refl s
  | cons t rest =>
    have hdl : (t :: rest).dropLast.length = rest.length := by simp
    simp only [List.length_cons] at hN hn
    have hrest : ∀ s', Mono s s' → Goal s (parentSearch n cfg l name (t :: rest).dropLast) s' := by
      intro s' hm
      exact tpv_tail hm (ih.parentSearch l name _ W s' hl (pot_le hm hp) (by rw [hdl]; omega) (by rw [hdl]; omega))
    show Goal s _ s
    simp only [parentSearch, Goal, tpv_bind, tpv_getSt]
    cases s.get l (keyOf (t :: rest)) with
    | some v => exact hrest s (Mono.refl s)
    | none =>
      simp only [tpv_bind]
      refine tpv_call (Mono.refl s) (ih.find l (t :: rest) W s hl hp (by simp only [List.length_cons]; omega)
        (by simp only [List.length_cons]; omega)) ?_
      intro _ s1 hm1
      simp only [tpv_getSt]
      cases s1.get l (keyOf name) with
      | some te => exact hm1
      | none => exact hrest s1 hm1

theorem tstep_findTail {n : Nat} (ih : AllT cfg N n) (l : Lid) (name : Name) (W : Nat) (s : St)
    (hl : l ∈ loaders cfg) (hp : pot cfg s ≤ W) (hN : name.length + W ≤ N)
    (hn : INn cfg N W + 3 * name.length + 1 ≤ n + 1) : SpecT (findTail (n+1) cfg l name) s := by
  simp only [findTail]
  cases hi : idx cfg l (keyOf name) with
  | cons o os =>
    simp only []
    exact ih.instantiate l name (o :: os) W s hl (mem_instPairs_of_idx hl (by rw [hi]; simp)) hp hN (by omega)
  | nil =>
    simp only []
    by_cases hq : qualified name = true
    · rw [if_pos hq]
      have hlen : name.length ≥ 2 := by simpa [qualified] using hq
      exact ih.parentSearch l name name.dropLast W s hl hp (by rw [List.length_dropLast]; omega)
        (by rw [List.length_dropLast]; omega)
    · rw [if_neg hq]; exact Mono.refl s

theorem unqualified_key {name : Name} {ps : Key} {mod : String} (hq : ¬ qualified name = true)
    (hp : partsOf name = some ps) (hh : ¬ (some mod ≠ ps.head?)) : keyOf name = [mod] := by
  have hps : ps = keyOf name := by
    unfold partsOf at hp
    by_cases hv : (keyOf name).all validPart = true
    · simp only [hv, if_true] at hp; exact (Option.some.inj hp).symm
    · simp only [hv] at hp; cases hp
  have hh' : ps.head? = some mod := by
    by_cases h : some mod = ps.head?
    · exact h.symm
    · exact absurd h hh
  rw [hps] at hh'
  cases name with
  | nil => simp [keyOf] at hh'
  | cons a r =>
    cases r with
    | nil => simp [keyOf] at hh' ⊢; exact hh'
    | cons b r' => simp [qualified] at hq

theorem tstep_find (hg : cfg.guardInit = true) {n : Nat} (ih : AllT cfg N n) (l : Lid) (name : Name) (W : Nat) (s : St)
    (hl : l ∈ loaders cfg) (hp : pot cfg s ≤ W) (hN : name.length + W ≤ N)
    (hn : INn cfg N W + 3 * name.length + 2 ≤ n + 1) : SpecT (find (n+1) cfg l name) s := by
  have htail : SpecT (findTail n cfg l name) s := ih.findTail l name W s hl hp hN (by omega)
  show Goal s _ s
  simp only [find]
  by_cases hq : qualified name = true
  · rw [if_pos hq]
    by_cases hm : l.moduleName ≠ ""
    · rw [if_pos hm]
      simp only [Goal, tpv_bind, tpv_partsM]
      cases hparts : partsOf name with
      | none => exact Mono.refl s
      | some ps =>
        simp only []
        by_cases hh : some l.moduleName ≠ ps.head?
        · rw [if_pos hh]; exact Mono.refl s
        · rw [if_neg hh]; exact htail
    · rw [if_neg hm]; exact htail
  · rw [if_neg hq]
    by_cases hgm : (!isGlobalMod l.moduleName) = true
    · rw [if_pos hgm]
      simp only [Goal, tpv_bind, tpv_partsM]
      cases hparts : partsOf name with
      | none => exact Mono.refl s
      | some ps =>
        simp only []
        by_cases hh : some l.moduleName ≠ ps.head?
        · rw [if_pos hh]; exact Mono.refl s
        · rw [if_neg hh]
          cases idx cfg l ["init_typeset"] with
          | nil => exact Mono.refl s
          | cons o os =>
            simp only [hg, if_true, tpv_bind]
            have hkey := unqualified_key hq hparts hh
            have hmem : (l, keyOf name) ∈ instPairs cfg := by rw [hkey]; exact mem_instPairs_mod hl
            refine tpv_call (Mono.refl s) (ih.instantiate l name (o :: os) W s hl hmem hp hN (by omega)) ?_
            intro e s1 hm1
            match e with
            | some (some d) =>
              simp only []
              by_cases hk : d.kind = .typeset
              · rw [if_pos hk]; exact hm1
              · rw [if_neg hk]; exact goal_reported s _ _ _ s1 hm1
            | some none => exact hm1
            | none => exact hm1
    · rw [if_neg hgm]; exact htail

theorem tstep_fbLoadEntry {n : Nat} (ih : AllT cfg N n) (l : Lid) (name : Name) (W : Nat) (s : St)
    (hl : l ∈ loaders cfg) (hp : pot cfg s ≤ W) (hN : name.length + W ≤ N)
    (hn : LEn cfg N W ≤ n + 1 + cfg.mods.length + 5 + fbSlack l) : SpecT (fbLoadEntry (n+1) cfg l name) s := by
  have hkey := key_arith cfg N W name.length (by omega)
  have hfind : ∀ s', Mono s s' → SpecT (find n cfg l name) s' := by
    intro s' hm
    refine ih.find l name W s' hl (pot_le hm hp) hN ?_
    have : fbSlack l ≤ 1 := by cases l <;> simp [fbSlack]
    omega
  show Goal s _ s
  simp only [fbLoadEntry, Goal, tpv_bind]
  have hparent : tpv (match l with
      | .m _ => if cfg.flat then pure (sysLoad name) else fbLoadEntry n cfg .g name
      | _ => pure (sysLoad name)) (fun _ s' => Mono s s') (Mono s) s := by
    cases l with
    | m mod =>
      simp only []
      by_cases hf : cfg.flat = true
      · rw [if_pos hf]; exact Mono.refl s
      · rw [if_neg hf]
        refine ih.fbLoadEntry .g name W s (g_mem_loaders cfg) hp hN ?_
        simp only [fbSlack] at hn ⊢
        omega
    | g => exact Mono.refl s
    | d => exact Mono.refl s
  refine tpv_mono hparent ?_ (fun _ h => h)
  intro pe s1 hm1
  simp only [tpv_getSt]
  have hrest : ∀ entry : Option Entry,
      tpv (match entry with
          | some e => pure (some e)
          | none => do
            let r ← find n cfg l name
            match r with
              | some e => pure (some e)
              | none => do
                let e ← setEntry l (keyOf name) none
                pure (some e))
        (fun _ s' => Mono s s') (Mono s) s1 := by
    intro entry
    cases entry with
    | some e => exact hm1
    | none =>
      simp only [tpv_bind]
      refine tpv_call hm1 (hfind s1 hm1) ?_
      intro r s2 hm2
      cases r with
      | some e => exact hm2
      | none =>
        simp only [tpv_bind]
        exact tpv_setEntry_call l (keyOf name) none hm2 (fun _ _ h => h)
  match pe with
  | some (some d) => exact hrest (some (some d))
  | some none => exact hrest (s1.get l (keyOf name))
  | none => exact hrest (s1.get l (keyOf name))

theorem tstep_instantiate {n : Nat} (ih : AllT cfg N n) (l : Lid) (name : Name) (origins : List Path) (W : Nat) (s : St)
    (hmem : (l, keyOf name) ∈ instPairs cfg) (hp : pot cfg s ≤ W) (hN : name.length + W ≤ N)
    (hn : INn cfg N W ≤ n + 1) : SpecT (instantiate (n+1) cfg l name origins) s := by
  show Goal s _ s
  simp only [instantiate, Goal, tpv_bind, tpv_getSt]
  cases hget : s.get l (keyOf name) with
  | some v => exact Mono.refl s
  | none =>
    simp only [tpv_bind]
    have hset : setEntry l (keyOf name) none s = .ok none (s.put l (keyOf name) none) := by
      simp only [setEntry, hget]
    have hlt := pot_put_lt cfg s l (keyOf name) none hmem hget
    have hm1 : Mono s (s.put l (keyOf name) none) := mono_put s l (keyOf name) none
    obtain ⟨W', rfl⟩ : ∃ W', W = W' + 1 := ⟨W - 1, by omega⟩
    rw [INn_eq] at hn
    rw [tpv_of_ok hset]
    refine tpv_call hm1 (ih.instantiator name origins W' _ (by omega) (by omega) (by omega)) ?_
    intro _ s2 hm2
    simp only [tpv_getSt, tpv_pure]
    exact hm2

theorem tstep_instantiator {n : Nat} (ih : AllT cfg N n) (name : Name) (origins : List Path) (W : Nat) (s : St)
    (hp : pot cfg s ≤ W) (hN : name.length + 1 + W ≤ N)
    (hn : LEn cfg N W + maxMembers cfg.tree + 3 ≤ n + 1) : SpecT (instantiator (n+1) cfg name origins) s := by
  cases origins with
  | nil => simp only [instantiator]; exact Mono.refl s
  | cons p rest =>
    show Goal s _ s
    simp only [instantiator, Goal, tpv_bind, tpv_modifySt]
    have hm1 : Mono s (s.addRead p) := mono_addRead s p
    cases hb : bodyAt cfg.tree p with
    | none => exact goal_reported s _ _ _ _ hm1
    | some b =>
      cases b with
      | unreadable => exact goal_reported s _ _ _ _ hm1
      | malformed ln => exact goal_reported s _ _ _ _ hm1
      | nodef => exact goal_reported s _ _ _ _ hm1
      | bare =>
        simp only []
        exact tpv_tail hm1 (ih.addTypes ⟨.alias, name⟩ [] W _ (pot_le hm1 hp) hN (by simp only [List.length_nil]; omega))
      | typ k nm ts =>
        simp only []
        by_cases hk : keyOf nm ≠ keyOf name
        · rw [if_pos hk]; exact goal_reported s _ _ _ _ hm1
        · rw [if_neg hk]
          have hkeq : keyOf nm = keyOf name := by
            by_cases h : keyOf nm = keyOf name
            · exact h
            · exact absurd h hk
          have hlen : nm.length = name.length := by rw [← keyOf_length' nm, ← keyOf_length' name, hkeq]
          have hts := bodyAt_members hb
          exact tpv_tail hm1 (ih.addTypes ⟨k, nm⟩ ts W _ (pot_le hm1 hp) (by simp only []; omega) (by omega))

theorem tstep_addTypes {n : Nat} (ih : AllT cfg N n) (d : Def) (ts : List String) (W : Nat) (s : St)
    (hp : pot cfg s ≤ W) (hN : d.name.length + 1 + W ≤ N)
    (hn : LEn cfg N W + ts.length + 2 ≤ n + 1) : SpecT (addTypes (n+1) cfg d ts) s := by
  show Goal s _ s
  simp only [addTypes]
  by_cases hk : d.kind = .typeset
  · rw [if_pos hk]
    simp only [Goal, tpv_bind]
    refine tpv_call (Mono.refl s) (ih.resolveTS d.name ts 0 W s hp hN (by omega)) ?_
    intro _ s1 hm1
    refine tpv_setEntry_call cfg.via (keyOf d.name) (some d) hm1 ?_
    intro _ s2 hm2
    exact hm2
  · rw [if_neg hk]
    simp only [Goal, tpv_bind]
    refine tpv_setEntry_call cfg.via (keyOf d.name) (some d) (Mono.refl s) ?_
    intro _ s2 hm2
    exact hm2

theorem tstep_resolveTS {n : Nat} (ih : AllT cfg N n) (nm : Name) (ts : List String) (i : Nat) (W : Nat) (s : St)
    (hp : pot cfg s ≤ W) (hN : nm.length + 1 + W ≤ N)
    (hn : LEn cfg N W + ts.length + 1 ≤ n + 1) : SpecT (resolveTS (n+1) cfg nm ts i) s := by
  cases ts with
  | nil => simp only [resolveTS]; exact Mono.refl s
  | cons t rest =>
    simp only [List.length_cons] at hn
    show Goal s _ s
    simp only [resolveTS, Goal, tpv_bind]
    refine tpv_call (Mono.refl s) (ih.loadEntry cfg.via (nm ++ [t]) W s (via_mem_loaders cfg) hp
      (by simp only [List.length_append, List.length_cons, List.length_nil]; omega) (by omega)) ?_
    intro le s1 hm1
    have hrest : ∀ s', Mono s s' → Goal s (resolveTS n cfg nm rest (i + 1)) s' := by
      intro s' hm
      exact tpv_tail hm (ih.resolveTS nm rest (i+1) W s' (pot_le hm hp) hN (by omega))
    match le with
    | some (some d) => exact hrest s1 hm1
    | some none =>
      dsimp only
      simp only [tpv_bind]
      refine tpv_setEntry_call cfg.via _ _ hm1 ?_
      intro _ s2 hm2
      exact hrest s2 hm2
    | none =>
      dsimp only
      simp only [tpv_bind]
      refine tpv_setEntry_call cfg.via _ _ hm1 ?_
      intro _ s2 hm2
      exact hrest s2 hm2

theorem tstep_dLoop {n : Nat} (ih : AllT cfg N n) (mods : List String) (name : Name) (W : Nat) (s : St)
    (hsub : ∀ m ∈ mods, m ∈ cfg.mods) (hp : pot cfg s ≤ W) (hN : name.length + W ≤ N)
    (hn : LEn cfg N W + mods.length ≤ n + 1 + cfg.mods.length + 4) : SpecT (dLoop (n+1) cfg mods name) s := by
  cases mods with
  | nil => simp only [dLoop]; show Goal s _ s; simp only [Goal, tpv_bind, tpv_getSt, tpv_pure]; exact Mono.refl s
  | cons m rest =>
    simp only [List.length_cons] at hn
    show Goal s _ s
    simp only [dLoop, Goal, tpv_bind]
    refine tpv_call (Mono.refl s) (ih.fbLoadEntry (.m m) name W s (m_mem_loaders (hsub m List.mem_cons_self)) hp hN
      (by simp only [fbSlack]; omega)) ?_
    intro e s1 hm1
    have hrest : Goal s (dLoop n cfg rest name) s1 :=
      tpv_tail hm1 (ih.dLoop rest name W s1 (fun x hx => hsub x (List.mem_cons_of_mem _ hx)) (pot_le hm1 hp) hN (by omega))
    match e with
    | some (some d) => exact hm1
    | some none => exact hrest
    | none => exact hrest

theorem tstep_dMembers {n : Nat} (ih : AllT cfg N n) (name : Name) (W : Nat) (s : St)
    (hp : pot cfg s ≤ W) (hN : name.length + W ≤ N) (hn : LEn cfg N W ≤ n + 1 + 3) :
    SpecT (dMembers (n+1) cfg name) s := by
  have hloop : ∀ s', Mono s s' → Goal s (dLoop n cfg cfg.mods name) s' := by
    intro s' hm
    exact tpv_tail hm (ih.dLoop cfg.mods name W s' (fun _ h => h) (pot_le hm hp) hN (by omega))
  show Goal s _ s
  simp only [dMembers]
  by_cases hf : cfg.flat = true
  · rw [if_pos hf]
    simp only [Goal, tpv_bind]
    refine tpv_call (Mono.refl s) (ih.fbLoadEntry .g name W s (g_mem_loaders cfg) hp hN (by simp only [fbSlack]; omega)) ?_
    intro e s1 hm1
    match e with
    | some (some d) => exact hm1
    | some none => exact hloop s1 hm1
    | none => exact hloop s1 hm1
  · rw [if_neg hf]; exact hloop s (Mono.refl s)

theorem tstep_dFind {n : Nat} (ih : AllT cfg N n) (name : Name) (W : Nat) (s : St)
    (hp : pot cfg s ≤ W) (hN : name.length + W ≤ N) (hn : LEn cfg N W ≤ n + 1 + 2) :
    SpecT (dFind (n+1) cfg name) s := by
  have hmem : SpecT (dMembers n cfg name) s := ih.dMembers name W s hp hN (by omega)
  show Goal s _ s
  simp only [dFind]
  by_cases hc : (!cfg.mods.isEmpty && qualified name) = true
  · rw [if_pos hc]
    simp only [Goal, tpv_bind, tpv_partsM]
    cases hparts : partsOf name with
    | none => exact Mono.refl s
    | some ps =>
      simp only []
      cases hh : ps.head? with
      | none => exact hmem
      | some h =>
        simp only []
        by_cases hm : cfg.mods.contains h = true
        · rw [if_pos hm]
          have hin : h ∈ cfg.mods := by simpa using hm
          exact ih.fbLoadEntry (.m h) name W s (m_mem_loaders hin) hp hN (by simp only [fbSlack]; omega)
        · rw [if_neg hm]; exact hmem
  · rw [if_neg hc]; exact hmem

theorem tstep_dLoadEntry {n : Nat} (ih : AllT cfg N n) (name : Name) (W : Nat) (s : St)
    (hp : pot cfg s ≤ W) (hN : name.length + W ≤ N) (hn : LEn cfg N W ≤ n + 1 + 1) :
    SpecT (dLoadEntry (n+1) cfg name) s := by
  show Goal s _ s
  simp only [dLoadEntry, Goal, tpv_bind, tpv_getSt]
  have hbody : ∀ own : Option Entry,
      tpv (do
        let r ← dFind n cfg name
        let st ← getSt
        match r, st.get .d (keyOf name) with
        | some (some d), some (some d') =>
          if d = d' then pure (some (some d))
          else do
            let e ← setEntry .d (keyOf name) (some d)
            pure (some e)
        | some (some d), _ => do
          let e ← setEntry .d (keyOf name) (some d)
          pure (some e)
        | _, _ =>
          match own with
          | none => do
            let e ← setEntry .d (keyOf name) none
            pure (some e)
          | some o => pure (some o)) (fun _ s' => Mono s s') (Mono s) s := by
    intro own
    simp only [tpv_bind]
    refine tpv_call (Mono.refl s) (ih.dFind name W s hp hN (by omega)) ?_
    intro r s1 hm1
    simp only [tpv_getSt]
    have hset : ∀ e : Entry, tpv (do
        let e' ← setEntry .d (keyOf name) e
        pure (some e')) (fun _ s' => Mono s s') (Mono s) s1 := by
      intro e
      simp only [tpv_bind]
      exact tpv_setEntry_call .d (keyOf name) e hm1 (fun _ _ h => h)
    have hgen : tpv (match own with
        | none => do
          let e ← setEntry .d (keyOf name) none
          pure (some e)
        | some o => pure (some o)) (fun _ s' => Mono s s') (Mono s) s1 := by
      cases own with
      | none => exact hset none
      | some o => exact hm1
    match r, s1.get .d (keyOf name) with
    | some (some d), some (some d') =>
      simp only []
      by_cases hdd : d = d'
      · rw [if_pos hdd]; exact hm1
      · rw [if_neg hdd]; exact hset _
    | some (some d), some none => exact hset _
    | some (some d), none => exact hset _
    | some none, _ => exact hgen
    | none, _ => exact hgen
  match s.get .d (keyOf name) with
  | some (some d) => exact Mono.refl s
  | some none => exact hbody (some none)
  | none => exact hbody none

theorem allT (hg : cfg.guardInit = true) : ∀ n, AllT cfg N n
  | 0 => by
    have hC : cfg.mods.length + 14 ≤ stepC cfg N := by unfold stepC; omega
    constructor
    · intro l name W s _ _ _ hn; have := LEn_pos cfg N W; omega
    · intro l name W s _ _ _ hn
      have := LEn_pos cfg N W
      have : fbSlack l ≤ 1 := by cases l <;> simp [fbSlack]
      omega
    · intro l name W s _ _ _ hn; omega
    · intro l name W s _ _ _ hn; omega
    · intro l name ts W s _ _ _ hn; omega
    · intro l name origins W s _ _ _ _ hn; unfold INn at hn; omega
    · intro name origins W s _ _ hn; omega
    · intro d ts W s _ _ hn; omega
    · intro nm ts i W s _ _ hn; omega
    · intro name W s _ _ hn; have := LEn_pos cfg N W; omega
    · intro name W s _ _ hn; have := LEn_pos cfg N W; omega
    · intro name W s _ _ hn; have := LEn_pos cfg N W; omega
    · intro mods name W s _ _ _ hn; have := LEn_pos cfg N W; omega
  | n+1 =>
    have ih := allT hg n
    { loadEntry := fun l name W s hl hp hN hn => tstep_loadEntry ih l name W s hl hp hN hn
      fbLoadEntry := fun l name W s hl hp hN hn => tstep_fbLoadEntry ih l name W s hl hp hN (by omega)
      find := fun l name W s hl hp hN hn => tstep_find hg ih l name W s hl hp hN hn
      findTail := fun l name W s hl hp hN hn => tstep_findTail ih l name W s hl hp hN hn
      parentSearch := fun l name ts W s hl hp hN hn => tstep_parentSearch ih l name ts W s hl hp hN hn
      instantiate := fun l name origins W s _ hmem hp hN hn => tstep_instantiate ih l name origins W s hmem hp hN hn
      instantiator := fun name origins W s hp hN hn => tstep_instantiator ih name origins W s hp hN hn
      addTypes := fun d ts W s hp hN hn => tstep_addTypes ih d ts W s hp hN hn
      resolveTS := fun nm ts i W s hp hN hn => tstep_resolveTS ih nm ts i W s hp hN hn
      dLoadEntry := fun name W s hp hN hn => tstep_dLoadEntry ih name W s hp hN (by omega)
      dFind := fun name W s hp hN hn => tstep_dFind ih name W s hp hN (by omega)
      dMembers := fun name W s hp hN hn => tstep_dMembers ih name W s hp hN (by omega)
      dLoop := fun mods name W s hsub hp hN hn => tstep_dLoop ih mods name W s hsub hp hN (by omega) }

end

/-- termination, general form: any upper bound `W` of the potential and any `N ≥ length + W` will do -/
theorem load_terminates_gen (cfg : Cfg) (hg : cfg.guardInit = true) (s : St) (name : Name) (N W fuel : Nat)
    (hp : pot cfg s ≤ W) (hN : name.length + W ≤ N) (hf : LEn cfg N W ≤ fuel) :
    (loadS fuel cfg s name).1 ≠ .failed .diverges ∧ Mono s (loadS fuel cfg s name).2 := by
  have hle := (allT (N := N) hg fuel).loadEntry cfg.via name W s (via_mem_loaders cfg) hp hN hf
  have hload : tpv (load fuel cfg name) (fun o s' => Mono s s' ∧ ∀ e, o ≠ .failed e) (Mono s) s := by
    simp only [load, tpv_bind]
    refine tpv_call (Mono.refl s) hle ?_
    intro e s1 hm1
    match e with
    | none =>
      simp only [tpv_bind]
      refine tpv_setEntry_call cfg.via (keyOf name) none hm1 ?_
      intro _ s2 hm2
      exact ⟨hm2, fun e h => by cases h⟩
    | some none => exact ⟨hm1, fun e h => by cases h⟩
    | some (some d) => exact ⟨hm1, fun e h => by cases h⟩
  unfold tpv at hload
  unfold loadS
  cases hx : load fuel cfg name s with
  | ok o s' =>
    rw [hx] at hload
    exact ⟨hload.2 _, hload.1⟩
  | fail e s' =>
    rw [hx] at hload
    refine ⟨?_, hload.2⟩
    intro h
    injection h with h
    exact hload.1 h

/-- termination: with enough fuel a lookup never answers `diverges`, and it removes nothing from the caches -/
theorem load_terminates (cfg : Cfg) (hg : cfg.guardInit = true) (s : St) (name : Name) (fuel : Nat)
    (hf : fuelBound cfg s name ≤ fuel) :
    (loadS fuel cfg s name).1 ≠ .failed .diverges ∧ Mono s (loadS fuel cfg s name).2 :=
  load_terminates_gen cfg hg s name _ _ fuel (Nat.le_refl _) (Nat.le_refl _) hf

theorem runLoads_terminates_gen (cfg : Cfg) (hg : cfg.guardInit = true) (N W fuel : Nat) (hf : LEn cfg N W ≤ fuel) :
    ∀ (names : List Name) (s : St), pot cfg s ≤ W → maxLen names + W ≤ N →
      ∀ o ∈ (runLoads fuel cfg s names).1, o ≠ .failed .diverges
  | [], _, _, _ => by intro o ho; simp [runLoads] at ho
  | n :: ns, s, hp, hN => by
    simp only [maxLen] at hN
    have h1 := load_terminates_gen cfg hg s n N W fuel hp (by omega) hf
    have h2 := runLoads_terminates_gen cfg hg N W fuel hf ns (loadS fuel cfg s n).2 (Nat.le_trans (pot_mono cfg h1.2) hp)
      (by omega)
    intro o ho
    simp only [runLoads, List.mem_cons] at ho
    rcases ho with rfl | ho
    · exact h1.1
    · exact h2 o ho

theorem runLoads_terminates (cfg : Cfg) (hg : cfg.guardInit = true) (names : List Name) (s : St) (fuel : Nat)
    (hf : seqBound cfg s names ≤ fuel) : ∀ o ∈ (runLoads fuel cfg s names).1, o ≠ .failed .diverges :=
  runLoads_terminates_gen cfg hg _ _ fuel hf names s (Nat.le_refl _) (Nat.le_refl _)

end Pcore.Files
