import Pcore.Model.Lex
/-!
Helper lemmas about the lexer model: whatever a lexer function leaves unconsumed is a suffix of its input
(`*_suffix`), hence `nextToken` makes progress unless it answers the end token (`nextToken_progress`).
-/
namespace Pcore.Syntax

/-- what a lexer result leaves unconsumed -/
def LexRes.rest : LexRes → List Sym
  | .tok _ r _ => r
  | .err r _ => r

@[simp] theorem LexRes.rest_tok (t r b) : (LexRes.tok t r b).rest = r := rfl
@[simp] theorem LexRes.rest_err (r b) : (LexRes.err r b).rest = r := rfl

/-- one step of every suffix proof: use the induction hypothesis on the tail, or close a leaf, or split a branch -/
macro "lex_suffix_step" ih:ident : tactic =>
  `(tactic| repeat' first
      | exact ($ih _ _).trans (List.suffix_cons _ _)
      | exact ($ih _).trans (List.suffix_cons _ _)
      | (simp [intTok, floatTok, mk]; done)
      | split)

theorem lexStr_suffix (q : Char) (m : SMode) (acc : Str) (l : List Sym) :
    (lexStr q m acc l).rest <:+ l := by
  induction l generalizing m acc with
  | nil => simp [lexStr]
  | cons s tl ih =>
    unfold lexStr
    split
    · simp
    · cases m <;> simp only <;> lex_suffix_step ih

theorem lexRx_suffix (m : RMode) (acc : Str) (l : List Sym) : (lexRx m acc l).rest <:+ l := by
  induction l generalizing m acc with
  | nil => simp [lexRx]
  | cons s tl ih =>
    unfold lexRx
    split
    · simp
    · cases m <;> simp only <;> lex_suffix_step ih

theorem lexNum_suffix (il : Char → Bool) (m : NMode) (acc : Str) (l : List Sym) :
    (lexNum il m acc l).rest <:+ l := by
  induction l generalizing m acc with
  | nil => cases m <;> simp [lexNum, intTok, floatTok]
  | cons s tl ih =>
    cases m <;> simp only [lexNum] <;> lex_suffix_step ih

theorem lexIdent_suffix (u : Bool) (m : IMode) (acc : Str) (l : List Sym) :
    (lexIdent u m acc l).rest <:+ l := by
  induction l generalizing m acc with
  | nil => cases m <;> simp [lexIdent]
  | cons s tl ih =>
    cases m <;> simp only [lexIdent] <;> lex_suffix_step ih

theorem punctTok_rest (c : Char) (tl : List Sym) (r : LexRes) (h : punctTok c tl = some r) : r.rest = tl := by
  unfold punctTok at h
  repeat' first
    | (simp [mk] at h; subst h; rfl)
    | (simp at h; done)
    | split at h

theorem eqTok_suffix (tl : List Sym) : (eqTok tl).rest <:+ tl := by
  unfold eqTok
  split
  · simp [mk]
  · split
    · simp [mk]
    · simp [mk]

theorem signTok_suffix (il : Char → Bool) (c : Char) (tl : List Sym) : (signTok il c tl).rest <:+ tl := by
  unfold signTok
  split
  · simp
  · split
    · simp
    · split
      · exact (lexNum_suffix _ _ _ _).trans (List.suffix_cons _ _)
      · simp

theorem startTok_suffix (il : Char → Bool) (c : Char) (tl : List Sym) : (startTok il c tl).rest <:+ tl := by
  unfold startTok
  split
  · exact lexStr_suffix _ _ _ _
  · split
    · exact lexRx_suffix _ _ _
    · split
      · rename_i r h; rw [punctTok_rest c tl r h]; exact List.suffix_refl _
      · repeat' first
          | exact eqTok_suffix _
          | exact signTok_suffix _ _ _
          | exact lexNum_suffix _ _ _ _
          | exact lexIdent_suffix _ _ _ _
          | (simp; done)
          | split

theorem nextTok_suffix (il : Char → Bool) (ic : Bool) (l : List Sym) : (nextTok il ic l).rest <:+ l := by
  induction l generalizing ic with
  | nil => simp [nextTok]
  | cons s tl ih =>
    unfold nextTok
    split
    · simp
    · repeat' first
        | exact (ih _).trans (List.suffix_cons _ _)
        | exact (startTok_suffix _ _ _).trans (List.suffix_cons _ _)
        | (simp; done)
        | split

/-- a token other than `end` is only ever produced after consuming at least one symbol -/
theorem nextTok_progress (il : Char → Bool) (ic : Bool) (l : List Sym) (t : Tok) (r : List Sym) (b : Bool)
    (h : nextTok il ic l = .tok t r b) : r.length < l.length ∨ (t.k = .eoi ∧ l = [] ∧ r = []) := by
  cases l with
  | nil => simp [nextTok] at h; right; simp [← h.1, h.2.1]
  | cons s tl =>
    left
    -- every branch of `nextTok (s :: tl)` that answers a token continues on `tl`
    have key : (nextTok il ic (s :: tl)).rest <:+ tl ∨ ∀ t r b, nextTok il ic (s :: tl) ≠ .tok t r b := by
      unfold nextTok
      split
      · right; simp
      · left
        repeat' first
          | exact nextTok_suffix _ _ _
          | exact startTok_suffix _ _ _
          | (simp; done)
          | split
    rcases key with hs | hne
    · rw [h] at hs
      have := hs.length_le
      simp at this ⊢
      omega
    · exact absurd h (hne t r b)

end Pcore.Syntax
