import Pcore.Proofs.FilesGlobal
/-!
C15, error lookups bind nothing: the instantiator of a defective file (misnamed, malformed, without a definition,
unreadable) raises before `AddTypes` — the loader state changes by the read and by the placeholder of the REQUESTED name
only; the name a misnamed file declares is not bound anywhere.
-/
namespace Pcore.Files

/-- the file does not define the requested name: misnamed, malformed, without a definition, or unreadable -/
def Defective (b : Body) (name : Name) : Prop :=
  match b with
  | .typ _ nm _ => keyOf nm ≠ keyOf name
  | .bare => False
  | _ => True

/-- the error a defective first origin is reported with -/
def defectErr (p : Path) : Body → Err
  | .typ _ _ _ => .reported "PCORE_WRONG_DEFINITION" (some p) 0
  | .malformed ln => .reported "PARSE_ERROR" (some p) ln
  | .nodef => .reported "PCORE_NO_DEFINITION" (some p) 0
  | _ => .reported "PCORE_UNABLE_TO_READ_FILE" (some p) 0

/-- the instantiator of a defective file changes nothing but the read log: no loader gets a binding — in particular not
    for the name a misnamed file declares -/
theorem instantiator_defective (cfg : Cfg) (n : Nat) (name : Name) (p : Path) (ps : List Path) (s : St) (b : Body)
    (hb : bodyAt cfg.tree p = some b) (hd : Defective b name) :
    instantiator (n+1) cfg name (p :: ps) s = .fail (defectErr p b) (s.addRead p) := by
  simp only [instantiator, bind, modifySt, hb]
  cases b with
  | unreadable => rfl
  | malformed ln => rfl
  | nodef => rfl
  | bare => exact absurd hd (by simp [Defective])
  | typ k nm ts =>
    have hk : keyOf nm ≠ keyOf name := hd
    simp [hk, raise, defectErr]

theorem instantiate_defective (cfg : Cfg) (n : Nat) (l : Lid) (name : Name) (p : Path) (ps : List Path) (s : St) (b : Body)
    (hb : bodyAt cfg.tree p = some b) (hd : Defective b name) (hget : s.get l (keyOf name) = none) :
    instantiate (n+2) cfg l name (p :: ps) s = .fail (defectErr p b) ((s.put l (keyOf name) none).addRead p) := by
  simp only [instantiate, bind, getSt, hget, setEntry, instantiator_defective cfg n name p ps _ b hb hd]

theorem global_defective_state (cfg : Cfg) (hv : cfg.via = .g) (name : Name) (s : St) (n : Nat) (p : Path) (ps : List Path)
    (b : Body) (hsys : sysLoad name = none) (hget : s.get .g (keyOf name) = none)
    (hi : idx cfg .g (keyOf name) = p :: ps) (hb : bodyAt cfg.tree p = some b) (hd : Defective b name) :
    loadS (n+7) cfg s name = (.failed (defectErr p b), (s.put .g (keyOf name) none).addRead p) := by
  obtain ⟨mods, tree, via, gi, fl⟩ := cfg
  simp only at hv
  subst hv
  unfold loadS load
  simp only [loadEntry, fbLoadEntry, find_g, findTail, bind, pure, getSt, hsys, hget, hi,
    instantiate_defective _ (n+1) .g name p ps s b hb hd hget]


end Pcore.Files
