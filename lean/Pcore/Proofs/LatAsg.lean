import Pcore.Proofs.LatWF
set_option linter.unusedSimpArgs false
/-! Characterisations of the list helpers of `asg` (used by C01, C03, C04, C19). -/
namespace Pcore.Lat
variable (cfg : Cfg) (sfh : Bool)

theorem asgAllR_iff (a : Ty) (bs : List Ty) :
    asgAllR cfg sfh a bs = true ↔ ∀ b ∈ bs, asg cfg sfh a b = true := by
  induction bs with
  | nil => unfold asgAllR; simp
  | cons b bs ih => unfold asgAllR; simp [ih]

theorem asgAllL_iff (as : List Ty) (b : Ty) :
    asgAllL cfg sfh as b = true ↔ ∀ a ∈ as, asg cfg sfh a b = true := by
  induction as with
  | nil => unfold asgAllL; simp
  | cons a as ih => unfold asgAllL; simp [ih]

theorem asgAnyL_iff (as : List Ty) (b : Ty) :
    asgAnyL cfg sfh as b = true ↔ ∃ a ∈ as, asg cfg sfh a b = true := by
  induction as with
  | nil => unfold asgAnyL; simp
  | cons a as ih => unfold asgAnyL; simp [ih]

theorem asgMembers_iff (k v : Ty) (ms : List Member) :
    asgMembers cfg sfh k v ms = true ↔
      ∀ m ∈ ms, asg cfg sfh k (.strVal m.1) = true ∧ asg cfg sfh v m.2.2 = true := by
  induction ms with
  | nil => unfold asgMembers; simp
  | cons m ms ih => obtain ⟨n, o, t⟩ := m; unfold asgMembers; simp [ih, and_assoc]

theorem structReq_iff (ms : List Member) (v' : Ty) :
    structReq cfg sfh ms v' = true ↔ ∀ m ∈ ms, m.2.1 = false → asg cfg sfh m.2.2 v' = true := by
  induction ms with
  | nil => unfold structReq; simp
  | cons m ms ih =>
    obtain ⟨n, o, t⟩ := m; unfold structReq
    cases o <;> simp [ih]

/-- the position loop of Tuple ⊒ Tuple, stated by positions: every position `i` below the bound `k` and below
    `max |as| |bs|` is compared, both sides repeating their last type -/
theorem tupZip_iff_aux : ∀ (n : Nat) (as bs : List Ty) (k : Int), as.length + bs.length ≤ n → as ≠ [] → bs ≠ [] →
    (tupZip cfg sfh as bs k = true ↔
      ∀ (i : Nat) (a b : Ty), (i : Int) < k → i < max as.length bs.length →
        as[min i (as.length - 1)]? = some a → bs[min i (bs.length - 1)]? = some b → asg cfg sfh a b = true) := by
  intro n
  induction n with
  | zero => intro as bs k h has; cases as with | nil => exact absurd rfl has | cons _ _ => simp at h
  | succ n ih =>
    intro as bs k hlen has hbs
    cases as with
    | nil => exact absurd rfl has
    | cons a0 as =>
    cases bs with
    | nil => exact absurd rfl hbs
    | cons b0 bs =>
      unfold tupZip
      by_cases hk : k ≤ 0
      · simp only [hk, if_true, true_iff]
        intro i a b hi; omega
      · simp only [hk, if_false]
        have hk' : 0 < k := by omega
        cases as with
        | nil =>
          cases bs with
          | nil =>
            simp only []
            constructor
            · intro h i a b _ hi ha hb
              simp at hi; subst hi; simp at ha hb; subst ha; subst hb; exact h
            · intro h; exact h 0 a0 b0 (by omega) (by simp) (by simp) (by simp)
          | cons b1 bs' =>
            simp only [Bool.and_eq_true]
            rw [ih [a0] (b1 :: bs') (k - 1) (by simp at hlen ⊢; omega) (by simp) (by simp)]
            constructor
            · rintro ⟨h0, h⟩ i a b hi hlt ha hb
              cases i with
              | zero => simp at ha hb; subst ha; subst hb; exact h0
              | succ j =>
                simp at ha; subst ha
                apply h j a0 b (by omega) (by simp at hlt ⊢; omega) (by simp)
                have : min (j + 1) ((b0 :: b1 :: bs').length - 1) = min j ((b1 :: bs').length - 1) + 1 := by simp
                rw [this] at hb; simpa using hb
            · intro h
              refine ⟨h 0 a0 b0 (by omega) (by simp) (by simp) (by simp), ?_⟩
              intro i a b hi hlt ha hb
              simp at ha; subst ha
              apply h (i + 1) a0 b (by push_cast; omega) (by simp at hlt ⊢; omega) (by simp)
              have : min (i + 1) ((b0 :: b1 :: bs').length - 1) = min i ((b1 :: bs').length - 1) + 1 := by simp
              rw [this]; simpa using hb
        | cons a1 as' =>
          cases bs with
          | nil =>
            simp only [Bool.and_eq_true]
            rw [ih (a1 :: as') [b0] (k - 1) (by simp at hlen ⊢; omega) (by simp) (by simp)]
            constructor
            · rintro ⟨h0, h⟩ i a b hi hlt ha hb
              cases i with
              | zero => simp at ha hb; subst ha; subst hb; exact h0
              | succ j =>
                simp at hb; subst hb
                apply h j a b0 (by omega) (by simp at hlt ⊢; omega) _ (by simp)
                have : min (j + 1) ((a0 :: a1 :: as').length - 1) = min j ((a1 :: as').length - 1) + 1 := by simp
                rw [this] at ha; simpa using ha
            · intro h
              refine ⟨h 0 a0 b0 (by omega) (by simp) (by simp) (by simp), ?_⟩
              intro i a b hi hlt ha hb
              simp at hb; subst hb
              apply h (i + 1) a b0 (by push_cast; omega) (by simp at hlt ⊢; omega) _ (by simp)
              have : min (i + 1) ((a0 :: a1 :: as').length - 1) = min i ((a1 :: as').length - 1) + 1 := by simp
              rw [this]; simpa using ha
          | cons b1 bs' =>
            simp only [Bool.and_eq_true]
            rw [ih (a1 :: as') (b1 :: bs') (k - 1) (by simp at hlen ⊢; omega) (by simp) (by simp)]
            constructor
            · rintro ⟨h0, h⟩ i a b hi hlt ha hb
              cases i with
              | zero => simp at ha hb; subst ha; subst hb; exact h0
              | succ j =>
                apply h j a b (by omega) (by simp at hlt ⊢; omega)
                · have : min (j + 1) ((a0 :: a1 :: as').length - 1) = min j ((a1 :: as').length - 1) + 1 := by simp
                  rw [this] at ha; simpa using ha
                · have : min (j + 1) ((b0 :: b1 :: bs').length - 1) = min j ((b1 :: bs').length - 1) + 1 := by simp
                  rw [this] at hb; simpa using hb
            · intro h
              refine ⟨h 0 a0 b0 (by omega) (by simp) (by simp) (by simp), ?_⟩
              intro i a b hi hlt ha hb
              apply h (i + 1) a b (by push_cast; omega) (by simp at hlt ⊢; omega)
              · have : min (i + 1) ((a0 :: a1 :: as').length - 1) = min i ((a1 :: as').length - 1) + 1 := by simp
                rw [this]; simpa using ha
              · have : min (i + 1) ((b0 :: b1 :: bs').length - 1) = min i ((b1 :: bs').length - 1) + 1 := by simp
                rw [this]; simpa using hb

theorem tupZip_iff (as bs : List Ty) (k : Int) (has : as ≠ []) (hbs : bs ≠ []) :
    tupZip cfg sfh as bs k = true ↔
      ∀ (i : Nat) (a b : Ty), (i : Int) < k → i < max as.length bs.length →
        as[min i (as.length - 1)]? = some a → bs[min i (bs.length - 1)]? = some b → asg cfg sfh a b = true :=
  tupZip_iff_aux cfg sfh _ as bs k (Nat.le_refl _) has hbs

/-- `tupleAssignableTo` after the repair: the declared types at positions an instance can have -/
theorem tupZipL_iff (e : Ty) (ts : List Ty) (k : Int) (hne : ts ≠ []) :
    tupZip cfg sfh [e] ts k = true ↔ ∀ (j : Nat) (t : Ty), (j : Int) < k → ts[j]? = some t → asg cfg sfh e t = true := by
  rw [tupZip_iff cfg sfh [e] ts k (by simp) hne]
  have hpos : 0 < ts.length := List.length_pos_iff.2 hne
  constructor
  · intro H j t hj hget
    have hjl : j < ts.length := by
      rcases Nat.lt_or_ge j ts.length with h | h
      · exact h
      · rw [List.getElem?_eq_none h] at hget; cases hget
    refine H j e t hj ?_ ?_ ?_
    · simp only [List.length_singleton]; omega
    · have : min j ([e].length - 1) = 0 := by simp
      rw [this]; rfl
    · have : min j (ts.length - 1) = j := by omega
      rw [this]; exact hget
  · intro H i a b hi hmax ha hb
    have h0 : min i ([e].length - 1) = 0 := by simp
    rw [h0] at ha
    have hae : a = e := by simp at ha; exact ha.symm
    subst hae
    simp only [List.length_singleton] at hmax
    have hil : i < ts.length := by omega
    have : min i (ts.length - 1) = i := by omega
    rw [this] at hb
    exact H i b hi hb

/-- `TupleType.IsAssignable(Array)` after the repair: the declared types at positions the array can fill -/
theorem tupZipR_iff (ts : List Ty) (e : Ty) (k : Int) (hne : ts ≠ []) :
    tupZip cfg sfh ts [e] k = true ↔ ∀ (j : Nat) (t : Ty), (j : Int) < k → ts[j]? = some t → asg cfg sfh t e = true := by
  rw [tupZip_iff cfg sfh ts [e] k hne (by simp)]
  have hpos : 0 < ts.length := List.length_pos_iff.2 hne
  constructor
  · intro H j t hj hget
    have hjl : j < ts.length := by
      rcases Nat.lt_or_ge j ts.length with h | h
      · exact h
      · rw [List.getElem?_eq_none h] at hget; cases hget
    refine H j t e hj ?_ ?_ ?_
    · simp only [List.length_singleton]; omega
    · have : min j (ts.length - 1) = j := by omega
      rw [this]; exact hget
    · have : min j ([e].length - 1) = 0 := by simp
      rw [this]; rfl
  · intro H i a b hi hmax ha hb
    have h0 : min i ([e].length - 1) = 0 := by simp
    rw [h0] at hb
    have hbe : b = e := by simp at hb; exact hb.symm
    subst hbe
    simp only [List.length_singleton] at hmax
    have hil : i < ts.length := by omega
    have : min i (ts.length - 1) = i := by omega
    rw [this] at ha
    exact H i a hi ha

end Pcore.Lat
