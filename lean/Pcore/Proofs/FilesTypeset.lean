import Pcore.Proofs.FilesAncestor
/-!
C15, type sets, for a TOP-LEVEL file loader `l` that is the context's loader (the global loader; a module's loader in the
flat topology): `instantiate` of a type-set file resolves every member — each is first looked up through the defining
loader (a complete miss: `find_miss`, one placeholder), then defined over that placeholder — and finally defines the type
set itself over the placeholder of the requested name.  Exact result and exact state, for any number of members and any
depth of name.  On top of it: the lookup of a type set (index route and the module's `init_typeset` route), member
resolution afterwards (answered from the cache, nothing read), and the parent search that FINDS a type set (the member is
requested first).
-/
namespace Pcore.Files

theorem putEnt_putEnt (l : Lid) (k : Key) (e v : Entry) (xs : List ((Lid × Key) × Entry)) :
    putEnt l k v (putEnt l k e xs) = putEnt l k v xs := by
  induction xs with
  | nil => simp [putEnt]
  | cons x xs ih =>
    by_cases hx : x.1 = (l, k)
    · simp [putEnt, hx]
    · simp [putEnt, hx, ih]

theorem put_put (s : St) (l : Lid) (k : Key) (e v : Entry) : (s.put l k e).put l k v = s.put l k v := by
  simp [St.put, putEnt_putEnt]

/-- `l`'s parent is the system loader -/
def TopLevel (cfg : Cfg) (l : Lid) : Prop := l = .g ∨ (∃ mod, l = .m mod) ∧ cfg.flat = true

theorem loadEntry_top (cfg : Cfg) (l : Lid) (hl : TopLevel cfg l) (n : Nat) (name : Name) :
    loadEntry (n+1) cfg l name = fbLoadEntry n cfg l name := by
  rcases hl with hl | ⟨⟨mod, hl⟩, _⟩ <;> subst hl <;> simp only [loadEntry]

/-- `LoadEntry` of a top-level loader that misses completely: one placeholder -/
theorem fbLoadEntry_top_miss (cfg : Cfg) (l : Lid) (hl : TopLevel cfg l) (s : St) (name : Name) (hne : name ≠ [])
    (hsys : sysLoad name = none) (hq : QuietAnc cfg l s name) (hi : idx cfg l (keyOf name) = []) (fuel : Nat)
    (hf : 3 * name.length ≤ fuel) :
    fbLoadEntry (fuel+1) cfg l name s = .ok (some none) (s.put l (keyOf name) none) := by
  have hfm := find_miss cfg l s name hne hq hi fuel hf
  rcases hl with hl | ⟨⟨mod, hl⟩, hf'⟩
  · subst hl
    simp only [fbLoadEntry, bind, pure, getSt, hsys, hq.fresh, hfm]
    simp [setEntry, hq.fresh]
  · subst hl
    simp only [fbLoadEntry, bind, pure, getSt, hsys, hq.fresh, hfm, hf', if_true]
    simp [setEntry, hq.fresh]

/-- the state after the members `ts` (positions from `i`) of the type set `nm` have been defined in loader `l` -/
def defineMembers (l : Lid) (nm : Name) : List String → Nat → St → St
  | [], _, σ => σ
  | t :: rest, i, σ => defineMembers l nm rest (i+1) (σ.put l (keyOf (nm ++ [t])) (some ⟨kindAt i, nm ++ [t]⟩))

theorem keyOf_append (a b : Name) : keyOf (a ++ b) = keyOf a ++ keyOf b := by simp [keyOf]

theorem memberKey_ne {nm : Name} {t u : String} (h : lowerS t ≠ lowerS u) : keyOf (nm ++ [t]) ≠ keyOf (nm ++ [u]) := by
  rw [keyOf_append, keyOf_append]
  intro hk
  have := List.append_cancel_left hk
  simp [keyOf] at this
  exact h this

theorem defineMembers_reads (l : Lid) (nm : Name) : ∀ (ts : List String) (i : Nat) (σ : St),
    (defineMembers l nm ts i σ).reads = σ.reads
  | [], _, _ => rfl
  | t :: rest, i, σ => by simp only [defineMembers]; rw [defineMembers_reads l nm rest]; rfl

/-- a key that is no member key is untouched -/
theorem defineMembers_get_other (l : Lid) (nm : Name) (l' : Lid) (k : Key) : ∀ (ts : List String) (i : Nat) (σ : St),
    (∀ t ∈ ts, (l', k) ≠ (l, keyOf (nm ++ [t]))) → (defineMembers l nm ts i σ).get l' k = σ.get l' k
  | [], _, _, _ => rfl
  | t :: rest, i, σ, h => by
    simp only [defineMembers]
    rw [defineMembers_get_other l nm l' k rest (i+1) _ (fun u hu => h u (List.mem_cons_of_mem _ hu)), get_put,
      if_neg (h t (List.mem_cons_self))]

/-- the member at position `j` is defined with the kind its position dictates, under its own name -/
theorem defineMembers_get_member (l : Lid) (nm : Name) : ∀ (ts : List String) (i : Nat) (σ : St) (j : Nat) (t : String),
    (ts.map lowerS).Nodup → ts[j]? = some t →
    (defineMembers l nm ts i σ).get l (keyOf (nm ++ [t])) = some (some ⟨kindAt (i + j), nm ++ [t]⟩)
  | [], _, _, j, t, _, h => by simp at h
  | u :: rest, i, σ, 0, t, hnd, h => by
    simp only [List.getElem?_cons_zero, Option.some.injEq] at h
    subst h
    simp only [defineMembers]
    rw [defineMembers_get_other l nm l _ rest (i+1)]
    · rw [get_put, if_pos rfl]; rfl
    · intro v hv heq
      injection heq with _ hk
      simp only [List.map_cons, List.nodup_cons, List.mem_map, not_exists, not_and] at hnd
      exact memberKey_ne (fun h' => hnd.1 v hv h'.symm) hk
  | u :: rest, i, σ, j+1, t, hnd, h => by
    simp only [List.getElem?_cons_succ] at h
    simp only [defineMembers]
    simp only [List.map_cons, List.nodup_cons] at hnd
    rw [defineMembers_get_member l nm rest (i+1) _ j t hnd.2 h]
    have : i + 1 + j = i + (j + 1) := by omega
    rw [this]

section
variable (cfg : Cfg) (l : Lid) (nm : Name)

/-- what the resolution of the members needs, as a predicate on the running state `σ`: the type set's own key holds the
    placeholder, nothing that was cached is lost, the members still to come are fresh -/
structure MemInv (s1 σ : St) (ts : List String) : Prop where
  holder : σ.get l (keyOf nm) = some none
  mono : ∀ k, s1.get l k ≠ none → σ.get l k ≠ none
  fresh : ∀ t ∈ ts, σ.get l (keyOf (nm ++ [t])) = none

/-- static hypotheses on a type set `nm` with members `ts` in loader `l`, stated on the state `s1` in which the member
    resolution starts: members are no core types, have no files of their own, are addressable; the proper prefixes of the
    type set's name are cached or without origin; the `init_typeset` route is closed for the members -/
structure MemHyp (s1 : St) (ts : List String) : Prop where
  nonempty : nm ≠ []
  nodup : (ts.map lowerS).Nodup
  noStatic : ∀ t ∈ ts, sysLoad (nm ++ [t]) = none
  noOrigin : ∀ t ∈ ts, idx cfg l (keyOf (nm ++ [t])) = []
  valid : l.moduleName = "" ∨ ∀ t ∈ ts, (partsOf (nm ++ [t])).isSome
  init : isGlobalMod l.moduleName = true ∨ idx cfg l ["init_typeset"] = [] ∨ s1.get l (keyOf (nm.take 1)) ≠ none
  ancestors : ∀ x, x ≠ [] → x <+: nm → x ≠ nm → s1.get l (keyOf x) ≠ none ∨ idx cfg l (keyOf x) = []
end

theorem prefix_of_append_singleton {x nm : Name} {t : String} (hp : x <+: nm ++ [t]) (hneq : x ≠ nm ++ [t]) : x <+: nm := by
  have := proper_prefix_dropLast hp hneq
  simpa using this

/-- a member still to come is quiet in the running state -/
theorem member_quiet {cfg : Cfg} {l : Lid} {nm : Name} {s1 σ : St} {ts : List String} {t : String}
    (hh : MemHyp cfg l nm s1 (t :: ts)) (hi : MemInv l nm s1 σ (t :: ts)) : QuietAnc cfg l σ (nm ++ [t]) := by
  refine ⟨hi.fresh t List.mem_cons_self, ?_, ?_, ?_⟩
  · rcases hh.valid with h | h
    · exact Or.inl h
    · exact Or.inr (h t List.mem_cons_self)
  · have htake : (nm ++ [t]).take 1 = nm.take 1 := by
      cases hnm : nm with
      | nil => exact absurd hnm hh.nonempty
      | cons a r => rfl
    rw [htake]
    rcases hh.init with h | h | h
    · exact Or.inl h
    · exact Or.inr (Or.inl h)
    · exact Or.inr (Or.inr (hi.mono _ h))
  · intro x hx hp hneq
    have hp' := prefix_of_append_singleton hp hneq
    by_cases heq : x = nm
    · left; rw [heq, hi.holder]; intro h; cases h
    · rcases hh.ancestors x hx hp' heq with h | h
      · exact Or.inl (hi.mono _ h)
      · exact Or.inr h

/-- `resolveTypeSet` over fresh members: each member costs one complete miss (a placeholder) and one definition over it -/
theorem resolveTS_fresh (cfg : Cfg) (l : Lid) (hv : cfg.via = l) (hl : TopLevel cfg l) (nm : Name) (s1 : St) :
    ∀ (ts : List String) (i : Nat) (σ : St) (k : Nat), 3 * (nm.length + 1) + ts.length ≤ k →
      MemHyp cfg l nm s1 ts → MemInv l nm s1 σ ts →
      resolveTS (k+3) cfg nm ts i σ = .ok () (defineMembers l nm ts i σ) ∧
      MemInv l nm s1 (defineMembers l nm ts i σ) []
  | [], i, σ, k, _, _, hi => by
    refine ⟨by simp only [resolveTS, defineMembers]; rfl, ?_⟩
    simp only [defineMembers]
    exact ⟨hi.holder, hi.mono, fun t ht => by cases ht⟩
  | t :: rest, i, σ, k, hk, hh, hi => by
    obtain ⟨k', rfl⟩ : ∃ k', k = k' + 1 := ⟨k - 1, by simp only [List.length_cons] at hk; omega⟩
    simp only [List.length_cons] at hk
    have htn : nm ++ [t] ≠ [] := by simp
    have hq := member_quiet hh hi
    have hlen : (nm ++ [t]).length = nm.length + 1 := by simp
    have hload : loadEntry (k'+1+2) cfg l (nm ++ [t]) σ = .ok (some none) (σ.put l (keyOf (nm ++ [t])) none) := by
      rw [loadEntry_top cfg l hl]
      exact fbLoadEntry_top_miss cfg l hl σ (nm ++ [t]) htn (hh.noStatic t List.mem_cons_self) hq
        (hh.noOrigin t List.mem_cons_self) (k'+1) (by rw [hlen]; omega)
    -- the state after this member
    have hne_holder : (l, keyOf nm) ≠ (l, keyOf (nm ++ [t])) := by
      intro h; injection h with _ h2
      exact keyOf_ne_of_length (by rw [hlen]; omega) h2
    have hh' : MemHyp cfg l nm s1 rest :=
      ⟨hh.nonempty, (List.nodup_cons.mp (by simpa using hh.nodup)).2,
        fun u hu => hh.noStatic u (List.mem_cons_of_mem _ hu), fun u hu => hh.noOrigin u (List.mem_cons_of_mem _ hu),
        hh.valid.imp id (fun h u hu => h u (List.mem_cons_of_mem _ hu)), hh.init, hh.ancestors⟩
    have hi' : MemInv l nm s1 (σ.put l (keyOf (nm ++ [t])) (some ⟨kindAt i, nm ++ [t]⟩)) rest := by
      refine ⟨?_, ?_, ?_⟩
      · rw [get_put, if_neg hne_holder]; exact hi.holder
      · intro k0 h0
        rw [get_put]
        by_cases hk0 : (l, k0) = (l, keyOf (nm ++ [t]))
        · rw [if_pos hk0]; intro h; cases h
        · rw [if_neg hk0]; exact hi.mono k0 h0
      · intro u hu
        have hnd := List.nodup_cons.mp (by simpa using hh.nodup : (lowerS t :: rest.map lowerS).Nodup)
        have hne_u : (l, keyOf (nm ++ [u])) ≠ (l, keyOf (nm ++ [t])) := by
          intro h; injection h with _ h2
          refine memberKey_ne ?_ h2
          intro hlu
          exact hnd.1 (by rw [← hlu]; exact List.mem_map_of_mem hu)
        rw [get_put, if_neg hne_u]
        exact hi.fresh u (List.mem_cons_of_mem _ hu)
    have ih := resolveTS_fresh cfg l hv hl nm s1 rest (i+1) _ k' (by omega) hh' hi'
    refine ⟨?_, by simp only [defineMembers]; exact ih.2⟩
    simp only [defineMembers]
    rw [← ih.1]
    obtain ⟨mods, tree, via, gi, fl⟩ := cfg
    simp only at hv
    subst hv
    simp only [resolveTS, bind, hload]
    simp only [setEntry, get_put, if_true, put_put]

/-- `instantiate` of a type-set file by a top-level loader that is the context's loader -/
theorem instantiate_typeset (cfg : Cfg) (l : Lid) (hv : cfg.via = l) (hl : TopLevel cfg l) (name nm : Name)
    (ts : List String) (p : Path) (ps : List Path) (s : St) (k : Nat)
    (hk : 3 * (nm.length + 1) + ts.length ≤ k)
    (hb : bodyAt cfg.tree p = some (.typ .typeset nm ts)) (hkey : keyOf nm = keyOf name)
    (hget : s.get l (keyOf name) = none)
    (hh : MemHyp cfg l nm ((s.put l (keyOf name) none).addRead p) ts)
    (hfresh : ∀ t ∈ ts, s.get l (keyOf (nm ++ [t])) = none) :
    instantiate (k+6) cfg l name (p :: ps) s =
      .ok (some (some ⟨.typeset, nm⟩))
        ((defineMembers l nm ts 0 ((s.put l (keyOf name) none).addRead p)).put l (keyOf name) (some ⟨.typeset, nm⟩)) := by
  have hi : MemInv l nm ((s.put l (keyOf name) none).addRead p) ((s.put l (keyOf name) none).addRead p) ts := by
    refine ⟨?_, fun _ h => h, ?_⟩
    · rw [hkey, get_addRead, get_put, if_pos rfl]
    · intro t ht
      have hne' : (l, keyOf (nm ++ [t])) ≠ (l, keyOf name) := by
        intro h; injection h with _ h2
        rw [← hkey] at h2
        exact keyOf_ne_of_length (by simp) h2
      rw [get_addRead, get_put, if_neg hne']
      exact hfresh t ht
  obtain ⟨hres, hinv⟩ := resolveTS_fresh cfg l hv hl nm _ ts 0 _ k hk hh hi
  have hholder := hinv.holder
  rw [hkey] at hholder
  obtain ⟨mods, tree, via, gi, fl⟩ := cfg
  simp only at hv
  subst hv
  simp only at hb
  simp only [instantiate, bind, pure, getSt, hget, setEntry, instantiator, modifySt, hb, hkey, ne_eq, not_true_eq_false,
    if_false, addTypes, if_true, hres]
  simp only [hholder, get_put, if_true]

/-- `MemHyp`, decidably (for closed examples) -/
def memHypB (cfg : Cfg) (l : Lid) (nm : Name) (s1 : St) (ts : List String) : Bool :=
  !nm.isEmpty && decide ((ts.map lowerS).Nodup) &&
  ts.all (fun t => (sysLoad (nm ++ [t])).isNone && (idx cfg l (keyOf (nm ++ [t]))).isEmpty) &&
  (l.moduleName = "" || ts.all fun t => (partsOf (nm ++ [t])).isSome) &&
  (isGlobalMod l.moduleName || (idx cfg l ["init_typeset"]).isEmpty || (s1.get l (keyOf (nm.take 1))).isSome) &&
  (List.range nm.length).all fun i =>
    i = 0 || (s1.get l (keyOf (nm.take i))).isSome || (idx cfg l (keyOf (nm.take i))).isEmpty

theorem memHyp_of_check {cfg : Cfg} {l : Lid} {nm : Name} {s1 : St} {ts : List String}
    (h : memHypB cfg l nm s1 ts = true) : MemHyp cfg l nm s1 ts := by
  unfold memHypB at h
  simp only [Bool.and_eq_true, Bool.or_eq_true, decide_eq_true_eq, List.all_eq_true, List.mem_range,
    Option.isNone_iff_eq_none, List.isEmpty_iff, Bool.not_eq_true'] at h
  obtain ⟨⟨⟨⟨⟨h0, h1⟩, h2⟩, h3⟩, h4⟩, h5⟩ := h
  refine ⟨?_, h1, fun t ht => (h2 t ht).1, fun t ht => (h2 t ht).2, h3, ?_, ?_⟩
  · intro hn; rw [hn] at h0; simp at h0
  · rcases h4 with (h | h) | h
    · exact Or.inl h
    · exact Or.inr (Or.inl h)
    · refine Or.inr (Or.inr ?_)
      intro hn; rw [hn] at h; cases h
  · intro x hne hp hneq
    have hlt := length_lt_of_proper_prefix hp hneq
    have htake : x = nm.take x.length := List.prefix_iff_eq_take.mp hp
    rcases h5 x.length hlt with (h | h) | h
    · exact absurd (List.eq_nil_of_length_eq_zero h) hne
    · left
      rw [← htake] at h
      intro hn; rw [hn] at h; cases h
    · right
      rw [← htake] at h; exact h

/-- the state a type-set load leaves behind: placeholder, read, the members, the type set over the placeholder -/
def typesetState (l : Lid) (name nm : Name) (ts : List String) (p : Path) (s : St) : St :=
  (defineMembers l nm ts 0 ((s.put l (keyOf name) none).addRead p)).put l (keyOf name) (some ⟨.typeset, nm⟩)

theorem typesetState_reads (l : Lid) (name nm : Name) (ts : List String) (p : Path) (s : St) :
    (typesetState l name nm ts p s).reads = s.reads ++ [p] := by
  unfold typesetState
  rw [reads_put, defineMembers_reads]
  rfl

/-- afterwards every member is cached with the kind its position dictates -/
theorem typesetState_member (l : Lid) (name nm : Name) (ts : List String) (p : Path) (s : St)
    (hkey : keyOf nm = keyOf name) (hnd : (ts.map lowerS).Nodup) (j : Nat) (t : String) (ht : ts[j]? = some t) :
    (typesetState l name nm ts p s).get l (keyOf (nm ++ [t])) = some (some ⟨kindAt j, nm ++ [t]⟩) := by
  unfold typesetState
  have hne' : (l, keyOf (nm ++ [t])) ≠ (l, keyOf name) := by
    intro h; injection h with _ h2
    rw [← hkey] at h2
    exact keyOf_ne_of_length (by simp) h2
  rw [get_put, if_neg hne', defineMembers_get_member l nm ts 0 _ j t hnd ht, Nat.zero_add]

/-- the lookup of a type set through a top-level loader, index route: found, the file is the only read, every member is
    defined on the way -/
theorem typeset_toplevel (cfg : Cfg) (l : Lid) (hv : cfg.via = l) (hl : TopLevel cfg l) (name nm : Name)
    (ts : List String) (p : Path) (ps : List Path) (s : St) (k : Nat)
    (hk : 3 * (nm.length + 1) + ts.length ≤ k)
    (hsys : sysLoad name = none) (hroute : Routed l name) (hi : idx cfg l (keyOf name) = p :: ps)
    (hb : bodyAt cfg.tree p = some (.typ .typeset nm ts)) (hkey : keyOf nm = keyOf name)
    (hget : s.get l (keyOf name) = none)
    (hh : MemHyp cfg l nm ((s.put l (keyOf name) none).addRead p) ts)
    (hfresh : ∀ t ∈ ts, s.get l (keyOf (nm ++ [t])) = none) :
    loadS (k+10) cfg s name = (.found ⟨.typeset, nm⟩, typesetState l name nm ts p s) := by
  have hinst := instantiate_typeset cfg l hv hl name nm ts p ps s k hk hb hkey hget hh hfresh
  have hfb : fbLoadEntry (k+9) cfg l name s = .ok (some (some ⟨.typeset, nm⟩)) (typesetState l name nm ts p s) := by
    rcases hl with hl | ⟨⟨mod, hl⟩, hf⟩
    · subst hl
      simp only [fbLoadEntry, bind, pure, getSt, hsys, hget, find_routed _ _ _ _ hroute, findTail, hi, hinst]
      rfl
    · subst hl
      simp only [fbLoadEntry, bind, pure, getSt, hsys, hget, find_routed _ _ _ _ hroute, findTail, hi, hinst, hf, if_true]
      rfl
  unfold loadS load
  rw [loadEntry_top cfg cfg.via (hv ▸ hl), hv]
  simp only [bind, hfb]
  rfl

/-- the lookup of a module's own name through its (top-level) loader: the `init_typeset` route -/
theorem init_typeset_toplevel (cfg : Cfg) (mod : String) (hv : cfg.via = .m mod) (hflat : cfg.flat = true)
    (hguard : cfg.guardInit = true) (hm : isGlobalMod mod = false) (a : String) (nm : Name)
    (ts : List String) (o : Path) (os : List Path) (s : St) (k : Nat)
    (hk : 3 * (nm.length + 1) + ts.length ≤ k)
    (hsys : sysLoad [a] = none) (hparts : partsOf [a] = some [mod]) (hi : idx cfg (.m mod) ["init_typeset"] = o :: os)
    (hb : bodyAt cfg.tree o = some (.typ .typeset nm ts)) (hkey : keyOf nm = keyOf [a])
    (hget : s.get (.m mod) (keyOf [a]) = none)
    (hh : MemHyp cfg (.m mod) nm ((s.put (.m mod) (keyOf [a]) none).addRead o) ts)
    (hfresh : ∀ t ∈ ts, s.get (.m mod) (keyOf (nm ++ [t])) = none) :
    loadS (k+9) cfg s [a] = (.found ⟨.typeset, nm⟩, typesetState (.m mod) [a] nm ts o s) := by
  have hl : TopLevel cfg (.m mod) := Or.inr ⟨⟨mod, rfl⟩, hflat⟩
  have hinst := instantiate_typeset cfg (.m mod) hv hl [a] nm ts o os s k hk hb hkey hget hh hfresh
  have hq1 : qualified [a] = false := rfl
  have hfind : find (k+7) cfg (.m mod) [a] s =
      .ok (some (some ⟨.typeset, nm⟩)) (typesetState (.m mod) [a] nm ts o s) := by
    have hhead : ¬ (some (Lid.m mod).moduleName ≠ ([mod] : Key).head?) := fun h => h rfl
    simp only [find, hq1, bind, pure, partsM, hparts, hi, hguard, Bool.false_eq_true, if_false]
    rw [if_pos (by simp [Lid.moduleName, hm])]
    simp only [if_neg hhead, hinst, if_true]
    rfl
  unfold loadS load
  rw [loadEntry_top cfg cfg.via (hv ▸ hl), hv]
  simp only [fbLoadEntry, bind, pure, getSt, hsys, hget, hflat, if_true, hfind]

/-- a member requested BEFORE its type set: no file for the member, the parent search finds the type-set file of the
    parent name, loading it defines the member, which is answered at once -/
theorem member_via_parent (cfg : Cfg) (l : Lid) (hv : cfg.via = l) (hl : TopLevel cfg l) (child nm : Name)
    (ts : List String) (p : Path) (ps : List Path) (s : St) (k : Nat)
    (hk : 3 * (nm.length + 1) + ts.length ≤ k)
    (hqual : qualified child = true)
    (hsys : sysLoad child = none) (hroute : Routed l child) (hic : idx cfg l (keyOf child) = [])
    (hgetc : s.get l (keyOf child) = none)
    (hroutep : Routed l child.dropLast) (hi : idx cfg l (keyOf child.dropLast) = p :: ps)
    (hb : bodyAt cfg.tree p = some (.typ .typeset nm ts)) (hkey : keyOf nm = keyOf child.dropLast)
    (hget : s.get l (keyOf child.dropLast) = none)
    (hh : MemHyp cfg l nm ((s.put l (keyOf child.dropLast) none).addRead p) ts)
    (hfresh : ∀ t ∈ ts, s.get l (keyOf (nm ++ [t])) = none)
    (j : Nat) (t : String) (ht : ts[j]? = some t) (hmem : keyOf (nm ++ [t]) = keyOf child) :
    loadS (k+13) cfg s child = (.found ⟨kindAt j, nm ++ [t]⟩, typesetState l child.dropLast nm ts p s) := by
  have hinst := instantiate_typeset cfg l hv hl child.dropLast nm ts p ps s k hk hb hkey hget hh hfresh
  have hmemget := typesetState_member l child.dropLast nm ts p s hkey hh.nodup j t ht
  rw [hmem] at hmemget
  have hlen : child.length ≥ 2 := by simpa [qualified] using hqual
  have hpne : child.dropLast ≠ [] := by
    intro h
    have := congrArg List.length h
    rw [List.length_dropLast] at this
    simp at this; omega
  have hps : parentSearch (k+9) cfg l child child.dropLast s =
      .ok (some (some ⟨kindAt j, nm ++ [t]⟩)) (typesetState l child.dropLast nm ts p s) := by
    rw [parentSearch_ne _ _ _ _ _ hpne]
    simp only [bind, getSt, hget, find_routed _ _ _ _ hroutep, findTail, hi, hinst]
    show (match (typesetState l child.dropLast nm ts p s).get l (keyOf child) with
      | some te => pure (some te)
      | none => parentSearch (k+8) cfg l child child.dropLast.dropLast) _ = _
    rw [hmemget]
    rfl
  have hfb : fbLoadEntry (k+12) cfg l child s =
      .ok (some (some ⟨kindAt j, nm ++ [t]⟩)) (typesetState l child.dropLast nm ts p s) := by
    rcases hl with hl | ⟨⟨mod, hl⟩, hf⟩
    · subst hl
      simp only [fbLoadEntry, bind, pure, getSt, hsys, hgetc, find_routed _ _ _ _ hroute, findTail, hic, hqual, if_true, hps]
    · subst hl
      simp only [fbLoadEntry, bind, pure, getSt, hsys, hgetc, find_routed _ _ _ _ hroute, findTail, hic, hqual, if_true, hps,
        hf]
  unfold loadS load
  rw [loadEntry_top cfg cfg.via (hv ▸ hl), hv]
  simp only [bind, hfb]
  rfl

/-- a name the top-level loader holds a definition for is answered from the cache: nothing is read, nothing changes -/
theorem toplevel_cached (cfg : Cfg) (l : Lid) (hv : cfg.via = l) (hl : TopLevel cfg l) (name : Name) (s : St) (d : Def)
    (n : Nat) (hsys : sysLoad name = none) (hget : s.get l (keyOf name) = some (some d)) :
    loadS (n+2) cfg s name = (.found d, s) := by
  have hfb : fbLoadEntry (n+1) cfg l name s = .ok (some (some d)) s := by
    rcases hl with hl | ⟨⟨mod, hl⟩, hf⟩
    · subst hl
      simp only [fbLoadEntry, bind, pure, getSt, hsys, hget]
    · subst hl
      simp only [fbLoadEntry, bind, pure, getSt, hsys, hget, hf, if_true]
  unfold loadS load
  rw [loadEntry_top cfg cfg.via (hv ▸ hl), hv]
  simp only [bind, hfb]
  rfl

end Pcore.Files
