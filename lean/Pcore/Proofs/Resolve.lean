import Pcore.Model.Resolve
/-!
Helper lemmas for the resolver half of C06: the statement-level model of `newEnumType3` never reaches an index / slice
fault and computes what the creator model of C05 (`enumArgs` / `newEnum`) computes; the evaluation `evalR` never faults; its
accepting half is `resolve`.
-/
namespace Pcore.Syntax

/-! ### `enumLoop` -/

/-- invariant of the loop: as long as arguments remain, the slice still has its full length `top` (it is cut only by the
    flag, which must be the last argument) -/
theorem enumLoop_no_fault (top : Nat) : ∀ (l : List Arg) (idx : Nat) (enums : List Str) (ci : Bool),
    idx + l.length = top → (l ≠ [] → enums.length = top) → ∀ k, enumLoop top l idx enums ci ≠ .fault k
  | [], _, _, _, _, _, k => by simp [enumLoop]
  | arg :: rest, idx, enums, ci, h1, h2, k => by
    have hlen : enums.length = top := h2 (by simp)
    simp only [List.length_cons] at h1
    cases arg with
    | str s =>
      have hlt : idx < enums.length := by omega
      simp only [enumLoop, hlt, if_true]
      exact enumLoop_no_fault top rest (idx + 1) _ ci (by omega) (fun _ => by simp [hlen]) k
    | bool b =>
      simp only [enumLoop]
      split
      · rename_i hlast
        have hrest : rest = [] := by
          cases rest with
          | nil => rfl
          | cons a as => simp at h1; omega
        have hle : idx ≤ top := by omega
        simp only [hle, if_true]
        subst hrest
        simp [enumLoop]
      · simp
    | _ => simp [enumLoop]

/-- what the loop computes: the strings in order, the flag if the last argument is a Boolean — i.e. `enumFlat` -/
theorem enumLoop_spec (top : Nat) : ∀ (l : List Arg) (pre : List Str) (fill : List Str),
    pre.length + l.length = top → fill.length = l.length → l ≠ [] →
    enumLoop top l pre.length (pre ++ fill) false =
      match enumFlat l with
      | some (vs, f) => .ok (pre ++ vs, f)
      | none => .reported .argType
  | [], _, _, _, _, h => absurd rfl h
  | arg :: rest, pre, fill, h1, h2, _ => by
    simp only [List.length_cons] at h1 h2
    obtain ⟨f0, fill', rfl⟩ : ∃ f0 fill', fill = f0 :: fill' := by
      cases fill with
      | nil => simp at h2
      | cons a b => exact ⟨a, b, rfl⟩
    simp only [List.length_cons, Nat.add_right_cancel_iff] at h2
    cases arg with
    | str s =>
      have hlt : pre.length < (pre ++ f0 :: fill').length := by simp
      have hset : (pre ++ f0 :: fill').set pre.length s = (pre ++ [s]) ++ fill' := by
        simp [List.set_append]
      simp only [enumLoop, hlt, if_true, hset]
      cases rest with
      | nil =>
        have : fill' = [] := by cases fill' <;> simp_all
        subst this
        simp [enumLoop, enumFlat]
      | cons r rs =>
        have ih := enumLoop_spec top (r :: rs) (pre ++ [s]) fill' (by simp at h1 ⊢; omega) h2 (by simp)
        simp only [List.length_append, List.length_cons, List.length_nil] at ih
        rw [ih]
        simp only [enumFlat]
        cases enumFlat (r :: rs) with
        | none => rfl
        | some p => simp
    | bool b =>
      simp only [enumLoop]
      cases rest with
      | nil =>
        have hlast : pre.length + 1 = top := by simpa using h1
        have hle : pre.length ≤ top := by omega
        simp [hlast, hle, enumLoop, enumFlat]
      | cons r rs =>
        have hn : ¬ pre.length + 1 = top := by simp at h1; omega
        simp [hn, enumFlat]
    | ty t => simp [enumLoop, enumFlat]
    | int i => simp [enumLoop, enumFlat]
    | float f => simp [enumLoop, enumFlat]
    | dflt => simp [enumLoop, enumFlat]
    | rx r => simp [enumLoop, enumFlat]
    | arr a => simp [enumLoop, enumFlat]
    | hash h => simp [enumLoop, enumFlat]
    | undef => simp [enumLoop, enumFlat]

theorem enumLow_run_spec (l : List Arg) (h : l ≠ []) :
    enumLow.run l =
      match enumFlat l with
      | some (vs, f) => enumLow.fin vs f
      | none => .reported .argType := by
  unfold enumLow.run
  have := enumLoop_spec l.length l [] (List.replicate l.length []) (by simp) (by simp) h
  simp only [List.length_nil, List.nil_append] at this
  rw [this]
  cases enumFlat l with
  | none => rfl
  | some p => rfl

/-! ### `enumLow` -/

theorem argDepth_arr_lt {as : List Arg} {f : Nat} (h : argDepth (.arr [.arr as]) < f + 1) : argDepth (.arr as) < f := by
  simp only [argDepth, argDepth.argsDepth] at h
  simp only [argDepth]
  omega

theorem enumLow_no_fault : ∀ (fuel : Nat) (args : List Arg), argDepth (.arr args) < fuel → ∀ k, enumLow fuel args ≠ .fault k
  | 0, _, h, _ => by omega
  | f + 1, args, h, k => by
    have hrun : ∀ l : List Arg, enumLow.run l ≠ .fault k := by
      intro l
      unfold enumLow.run
      cases hl : enumLoop l.length l 0 (List.replicate l.length []) false with
      | ok r =>
        simp only [RRes.bind, enumLow.fin]
        cases newEnum r.1 r.2 <;> simp
      | reported c => simp [RRes.bind]
      | outside => simp [RRes.bind]
      | fault k' =>
        exact absurd hl (enumLoop_no_fault l.length l 0 _ false (by simp) (fun _ => by simp) k')
    have hfin : ∀ vs ci, enumLow.fin vs ci ≠ .fault k := by
      intro vs ci; unfold enumLow.fin; cases newEnum vs ci <;> simp
    unfold enumLow
    split
    · simp
    · exact hfin _ _
    · rename_i as
      exact enumLow_no_fault f as (argDepth_arr_lt h) k
    · simp
    · dsimp only
      split
      · simp
      · exact hrun _
    · exact hrun _

/-- the statement-level model computes what the creator model of C05 computes (with the refusal classified) -/
theorem enumLow_spec : ∀ (fuel : Nat) (args : List Arg), argDepth (.arr args) < fuel →
    enumLow fuel args =
      match enumArgs fuel args with
      | some (vs, f) => enumLow.fin vs f
      | none => .reported .argType
  | 0, _, h => by omega
  | f + 1, args, h => by
    cases args with
    | nil => simp [enumLow, enumArgs, enumLow.fin, newEnum]
    | cons a as =>
      cases as with
      | nil =>
        cases a with
        | str s => simp [enumLow, enumArgs]
        | arr x =>
          simp only [enumLow, enumArgs]
          exact enumLow_spec f x (argDepth_arr_lt h)
        | _ => simp [enumLow, enumArgs]
      | cons b bs =>
        cases a with
        | arr x =>
          simp only [enumLow, enumArgs]
          have hl : x ++ b :: bs ≠ [] := by simp
          have hemp : (x ++ b :: bs).isEmpty = false := by simp
          simp only [hemp, Bool.false_eq_true, if_false]
          exact enumLow_run_spec _ hl
        | str s => simp only [enumLow, enumArgs]; exact enumLow_run_spec _ (by simp)
        | ty t => simp only [enumLow, enumArgs]; exact enumLow_run_spec _ (by simp)
        | int i => simp only [enumLow, enumArgs]; exact enumLow_run_spec _ (by simp)
        | float x => simp only [enumLow, enumArgs]; exact enumLow_run_spec _ (by simp)
        | dflt => simp only [enumLow, enumArgs]; exact enumLow_run_spec _ (by simp)
        | rx r => simp only [enumLow, enumArgs]; exact enumLow_run_spec _ (by simp)
        | bool x => simp only [enumLow, enumArgs]; exact enumLow_run_spec _ (by simp)
        | hash x => simp only [enumLow, enumArgs]; exact enumLow_run_spec _ (by simp)
        | undef => simp only [enumLow, enumArgs]; exact enumLow_run_spec _ (by simp)

/-! ### no fault anywhere in the evaluation -/

theorem createKR_no_fault (env : Env) (kd : TKind) (args : List Arg) (k : RFault) : createKR env kd args ≠ .fault k := by
  unfold createKR
  cases kd with
  | enum => exact enumLow_no_fault _ args (by omega) k
  | _ => simp only []; split <;> simp

theorem createR_no_fault (env : Env) (n : Str) (args : List Arg) (k : RFault) : createR env n args ≠ .fault k := by
  unfold createR
  simp only
  split
  · exact createKR_no_fault env _ args k
  · split
    · split <;> simp
    · split
      · exact createKR_no_fault env _ args k
      · simp

theorem RRes.map_ne_fault {α β : Type} (f : α → β) (x : RRes α) (k : RFault) (h : x ≠ .fault k) : x.map f ≠ .fault k := by
  cases x <;> simp_all [RRes.map]

theorem RRes.bind_ne_fault {α β : Type} (x : RRes α) (f : α → RRes β) (k : RFault) (h : x ≠ .fault k)
    (hf : ∀ a, f a ≠ .fault k) : x.bind f ≠ .fault k := by
  cases x <;> simp_all [RRes.bind]

theorem nameR_no_fault (env : Env) (n : Str) (k : RFault) : nameR env n ≠ .fault k := by
  unfold nameR; split <;> simp

mutual
theorem evalR_no_fault (env : Env) (k : RFault) : (e : Expr) → evalR env e ≠ .fault k
  | .dtype n none => by simp only [evalR]; exact nameR_no_fault env n k
  | .dtype n (some ps) => by
    simp only [evalR]
    exact RRes.bind_ne_fault _ _ k (evalArgsR_no_fault env k ps) (fun a => createR_no_fault env n a k)
  | .undef => by simp [evalR]
  | .dflt => by simp [evalR]
  | .bool _ => by simp [evalR]
  | .int _ => by simp [evalR]
  | .float _ => by simp [evalR]
  | .str _ => by simp [evalR]
  | .regexp _ => by simp [evalR]
  | .arr _ => by simp [evalR]
  | .hash _ => by simp [evalR]
  | .entry _ _ => by simp [evalR]
  | .call _ _ => by simp [evalR]
  | .named _ _ => by simp [evalR]
theorem evalArgR_no_fault (env : Env) (k : RFault) : (e : Expr) → evalArgR env e ≠ .fault k
  | .dtype n none => by
    simp only [evalArgR]
    exact RRes.map_ne_fault _ _ k (nameR_no_fault env n k)
  | .dtype n (some ps) => by
    simp only [evalArgR]
    exact RRes.map_ne_fault _ _ k
      (RRes.bind_ne_fault _ _ k (evalArgsR_no_fault env k ps) (fun a => createR_no_fault env n a k))
  | .arr es => by
    simp only [evalArgR]
    exact RRes.map_ne_fault _ _ k (evalArgsR_no_fault env k es)
  | .hash es => by
    simp only [evalArgR]
    exact RRes.map_ne_fault _ _ k (evalEntriesR_no_fault env k es)
  | .undef => by simp [evalArgR]
  | .dflt => by simp [evalArgR]
  | .bool _ => by simp [evalArgR]
  | .int _ => by simp [evalArgR]
  | .float _ => by simp [evalArgR]
  | .str _ => by simp [evalArgR]
  | .regexp _ => by simp [evalArgR]
  | .entry _ _ => by simp [evalArgR]
  | .call _ _ => by simp [evalArgR]
  | .named _ _ => by simp [evalArgR]
theorem evalArgsR_no_fault (env : Env) (k : RFault) : (es : List Expr) → evalArgsR env es ≠ .fault k
  | [] => by simp [evalArgsR]
  | e :: es => by
    simp only [evalArgsR]
    exact RRes.bind_ne_fault _ _ k (evalArgR_no_fault env k e)
      (fun a => RRes.map_ne_fault _ _ k (evalArgsR_no_fault env k es))
theorem evalEntriesR_no_fault (env : Env) (k : RFault) : (es : List (Expr × Expr)) → evalEntriesR env es ≠ .fault k
  | [] => by simp [evalEntriesR]
  | (a, b) :: es => by
    simp only [evalEntriesR]
    exact RRes.bind_ne_fault _ _ k (evalArgR_no_fault env k a) (fun _ =>
      RRes.bind_ne_fault _ _ k (evalArgR_no_fault env k b) (fun _ =>
        RRes.map_ne_fault _ _ k (evalEntriesR_no_fault env k es)))
end

end Pcore.Syntax

namespace Pcore.Syntax

/-! ### the accepting half of `evalR` is `resolve` (the creator model of C05) -/

theorem fin_ok (vs : List Str) (ci : Bool) (t : Ty) : enumLow.fin vs ci = .ok t ↔ newEnum vs ci = some t := by
  unfold enumLow.fin
  cases newEnum vs ci <;> simp

theorem createKR_ok (env : Env) (kd : TKind) (args : List Arg) (t : Ty) :
    createKR env kd args = .ok t ↔ createK env kd args = some t := by
  cases kd with
  | enum =>
    simp only [createKR, createK]
    rw [enumLow_spec _ args (by omega)]
    cases enumArgs (argDepth (.arr args) + 1) args with
    | none => simp
    | some p => obtain ⟨vs, f⟩ := p; simp [fin_ok]
  | _ =>
    simp only [createKR]
    split <;> simp_all

theorem createR_ok (env : Env) (n : Str) (args : List Arg) (t : Ty) :
    createR env n args = .ok t ↔ create env n args = some t := by
  unfold createR create
  simp only
  cases kindOf (canonName n) with
  | some kd => exact createKR_ok env kd args t
  | none =>
    simp only
    by_cases hp : plainNames.contains (canonName n) = true
    · simp only [hp, if_true]
      split <;> simp
    · simp only [hp, Bool.false_eq_true, if_false, Bool.not_false, true_and]
      split
      · rw [createKR_ok]; simp [createK]
      · simp

theorem RRes.map_ok {α β : Type} (f : α → β) (x : RRes α) (b : β) : x.map f = .ok b ↔ ∃ a, x = .ok a ∧ f a = b := by
  cases x <;> simp [RRes.map]

theorem RRes.bind_ok {α β : Type} (x : RRes α) (f : α → RRes β) (b : β) :
    x.bind f = .ok b ↔ ∃ a, x = .ok a ∧ f a = .ok b := by
  cases x <;> simp [RRes.bind]

mutual
theorem evalR_ok (env : Env) : (e : Expr) → (t : Ty) → (evalR env e = .ok t ↔ resolve env e = some t)
  | .dtype n none, t => by
    simp only [evalR, resolve, nameR]
    cases resolveName env n <;> simp
  | .dtype n (some ps), t => by
    simp only [evalR, resolve, RRes.bind_ok, Option.bind_eq_some_iff]
    constructor
    · rintro ⟨a, h1, h2⟩
      exact ⟨a, (evalArgsR_ok env ps a).1 h1, (createR_ok env n a t).1 h2⟩
    · rintro ⟨a, h1, h2⟩
      exact ⟨a, (evalArgsR_ok env ps a).2 h1, (createR_ok env n a t).2 h2⟩
  | .undef, _ => by simp [evalR, resolve]
  | .dflt, _ => by simp [evalR, resolve]
  | .bool _, _ => by simp [evalR, resolve]
  | .int _, _ => by simp [evalR, resolve]
  | .float _, _ => by simp [evalR, resolve]
  | .str _, _ => by simp [evalR, resolve]
  | .regexp _, _ => by simp [evalR, resolve]
  | .arr _, _ => by simp [evalR, resolve]
  | .hash _, _ => by simp [evalR, resolve]
  | .entry _ _, _ => by simp [evalR, resolve]
  | .call _ _, _ => by simp [evalR, resolve]
  | .named _ _, _ => by simp [evalR, resolve]
theorem evalArgR_ok (env : Env) : (e : Expr) → (a : Arg) → (evalArgR env e = .ok a ↔ resolveArg env e = some a)
  | .dtype n none, a => by
    simp only [evalArgR, resolveArg, resolve, nameR, RRes.map_ok, Option.map_eq_some_iff]
    cases resolveName env n <;> simp
  | .dtype n (some ps), a => by
    simp only [evalArgR, resolveArg, resolve, RRes.map_ok, RRes.bind_ok, Option.map_eq_some_iff, Option.bind_eq_some_iff]
    constructor
    · rintro ⟨t, ⟨x, h1, h2⟩, h3⟩
      exact ⟨t, ⟨x, (evalArgsR_ok env ps x).1 h1, (createR_ok env n x t).1 h2⟩, h3⟩
    · rintro ⟨t, ⟨x, h1, h2⟩, h3⟩
      exact ⟨t, ⟨x, (evalArgsR_ok env ps x).2 h1, (createR_ok env n x t).2 h2⟩, h3⟩
  | .arr es, a => by
    simp only [evalArgR, resolveArg, RRes.map_ok, Option.map_eq_some_iff]
    constructor
    · rintro ⟨t, h1, h2⟩; exact ⟨t, (evalArgsR_ok env es t).1 h1, h2⟩
    · rintro ⟨t, h1, h2⟩; exact ⟨t, (evalArgsR_ok env es t).2 h1, h2⟩
  | .hash es, a => by
    simp only [evalArgR, resolveArg, RRes.map_ok, Option.map_eq_some_iff]
    constructor
    · rintro ⟨t, h1, h2⟩; exact ⟨t, (evalEntriesR_ok env es t).1 h1, h2⟩
    · rintro ⟨t, h1, h2⟩; exact ⟨t, (evalEntriesR_ok env es t).2 h1, h2⟩
  | .undef, _ => by simp [evalArgR, resolveArg]
  | .dflt, _ => by simp [evalArgR, resolveArg]
  | .bool _, _ => by simp [evalArgR, resolveArg]
  | .int _, _ => by simp [evalArgR, resolveArg]
  | .float _, _ => by simp [evalArgR, resolveArg]
  | .str _, _ => by simp [evalArgR, resolveArg]
  | .regexp _, _ => by simp [evalArgR, resolveArg]
  | .entry _ _, _ => by simp [evalArgR, resolveArg]
  | .call _ _, _ => by simp [evalArgR, resolveArg]
  | .named _ _, _ => by simp [evalArgR, resolveArg]
theorem evalArgsR_ok (env : Env) : (es : List Expr) → (as : List Arg) → (evalArgsR env es = .ok as ↔ resolveArgs env es = some as)
  | [], as => by simp [evalArgsR, resolveArgs]
  | e :: es, as => by
    simp only [evalArgsR, resolveArgs, RRes.bind_ok, RRes.map_ok, Option.bind_eq_some_iff, Option.map_eq_some_iff]
    constructor
    · rintro ⟨a, h1, r, h2, h3⟩
      exact ⟨a, (evalArgR_ok env e a).1 h1, r, (evalArgsR_ok env es r).1 h2, h3⟩
    · rintro ⟨a, h1, r, h2, h3⟩
      exact ⟨a, (evalArgR_ok env e a).2 h1, r, (evalArgsR_ok env es r).2 h2, h3⟩
theorem evalEntriesR_ok (env : Env) : (es : List (Expr × Expr)) → (as : List (Arg × Arg)) →
    (evalEntriesR env es = .ok as ↔ resolveEntries env es = some as)
  | [], as => by simp [evalEntriesR, resolveEntries]
  | (k, v) :: es, as => by
    simp only [evalEntriesR, resolveEntries, RRes.bind_ok, RRes.map_ok, Option.bind_eq_some_iff, Option.map_eq_some_iff]
    constructor
    · rintro ⟨a, h1, b, h2, r, h3, h4⟩
      exact ⟨a, (evalArgR_ok env k a).1 h1, b, (evalArgR_ok env v b).1 h2, r, (evalEntriesR_ok env es r).1 h3, h4⟩
    · rintro ⟨a, h1, b, h2, r, h3, h4⟩
      exact ⟨a, (evalArgR_ok env k a).2 h1, b, (evalArgR_ok env v b).2 h2, r, (evalEntriesR_ok env es r).2 h3, h4⟩
end

end Pcore.Syntax
