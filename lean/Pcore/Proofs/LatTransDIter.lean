import Pcore.Proofs.LatTransD
set_option linter.unusedSimpArgs false
set_option linter.unusedVariables false
/-! C03, transitivity stage 4: `Iterable[x]` as the receiver, under the lexicographic induction (the left type gets lighter in every step). -/
namespace Pcore.Lat
variable (cfg : Cfg) (sfh : Bool)

theorem td_entry {k v : Ty} (hk : k.TD sfh) (hv : v.TD sfh) : (Ty.tuple [k, v] none).TD sfh := by
  unfold Ty.TD
  refine ⟨by simp [I64.max], ?_⟩
  intro t ht
  simp only [List.mem_cons, List.mem_singleton, List.not_mem_nil, or_false] at ht
  rcases ht with rfl | rfl <;> assumption

/-- `Iterable[x] ⊒ b ⊒ c` for plain `b`, `c` -/
theorem trD_iterable (n : Nat) (ihA : TransA cfg sfh n) (x : Ty) (b c : Ty) (hw : (Ty.iterable x).w ≤ n + 1)
    (H : DHyp cfg sfh (.iterable x) b c)
    (h1 : asgRecv cfg sfh (.iterable x) b = true) (h2 : asgRecv cfg sfh b c = true) : asgRecv cfg sfh (.iterable x) c = true := by
  have fa := H.fa; unfold Ty.TD at fa
  simp only [Ty.w] at hw
  by_cases pb : b.isPos = true
  · -- positional middle type: the loop `[x]` against b's types, then b's against c's
    have pc := pos_closed cfg sfh b c pb h2
    rw [recv_iter_pos cfg sfh x b pb] at h1
    rw [recv_pos cfg sfh b c pb pc, Bool.and_eq_true] at h2
    rw [recv_iter_pos cfg sfh x c pc]
    have hk : (posSize c).hi ≤ (posSize b).hi := by
      have := h2.1; simp [Rng.sub] at this; omega
    apply tupZip_trans cfg sfh _ _ _ _ _ hk (by simp) (posTypes_ne b pb) (posTypes_ne c pc) ?_ h1 h2.2
    intro a' ha' b' hb' c' hc'
    simp only [List.mem_singleton] at ha'; subst ha'
    obtain ⟨wb', fb', wfb'⟩ := posD_elem cfg sfh b pb b' hb'
    obtain ⟨wc', fc', wfc'⟩ := posD_elem cfg sfh c pc c' hc'
    exact ihA a' b' c' (by omega) ⟨fa, fb' H.fb, fc' H.fc, wfb' H.wb, wfc' H.wc⟩
  by_cases sb : isStringFamily b = true
  · have sc := family_closed cfg sfh sb h2
    rw [recv_iter_family cfg sfh x b sb] at h1
    rw [recv_iter_family cfg sfh x c sc]; exact h1
  cases b with
  | array _ _ => simp [Ty.isPos] at pb
  | tuple _ _ => simp [Ty.isPos] at pb
  | str => simp [isStringFamily] at sb
  | strSz _ => simp [isStringFamily] at sb
  | strVal _ => simp [isStringFamily] at sb
  | enum _ _ => simp [isStringFamily] at sb
  | pattern _ => simp [isStringFamily] at sb
  | bin =>
    unfold asgRecv at h2; cases c <;> simp only [] at h2 <;> (first | contradiction | skip)
    exact h1
  | hash k' v' r' =>
    have fb := H.fb; unfold Ty.TD at fb
    have wb := H.wb; unfold Ty.WF at wb
    unfold asgRecv at h1
    simp only [Bool.or_eq_true, decide_eq_true_eq] at h1
    unfold asgRecv at h2; cases c <;> simp only [] at h2 <;> (first | contradiction | skip)
    · rename_i k'' v'' r''
      have fc := H.fc; unfold Ty.TD at fc
      have wc := H.wc; unfold Ty.WF at wc
      rw [Bool.and_eq_true] at h2
      unfold asgRecv
      simp only [Bool.or_eq_true, decide_eq_true_eq]
      by_cases hz : r''.hi ≤ 0
      · left; exact hz
      · right
        have hz' : ¬ r'.hi ≤ 0 := by
          have := h2.1; simp [Rng.sub] at this; omega
        have hB := h2.2
        simp only [Bool.or_eq_true, decide_eq_true_eq] at hB
        have hB' := hB.resolve_left hz
        have hA := h1.resolve_left hz'
        apply ihA x (.tuple [k', v'] none) (.tuple [k'', v''] none) (by omega)
          ⟨fa, td_entry sfh fb.1 fb.2, td_entry sfh fc.1 fc.2, wf_entry cfg wb.1 wb.2, wf_entry cfg wc.1 wc.2⟩ hA
        rw [entry_asg]; exact hB'
    · rename_i ms''
      have fc := H.fc; unfold Ty.TD at fc
      have wc := H.wc; unfold Ty.WF at wc
      rw [Bool.and_eq_true] at h2
      unfold asgRecv
      rw [iterMembers_iff]
      intro m'' hm''
      have hz : ¬ (structSize ms'').hi ≤ 0 := struct_size_hi_pos hm''
      have hz' : ¬ r'.hi ≤ 0 := by
        have := h2.1; simp [Rng.sub] at this; omega
      have hA := h1.resolve_left hz'
      have hB := (asgMembers_iff cfg sfh k' v' ms'').1 h2.2 m'' hm''
      have := Ty.wm_ge hm''
      apply ihA x (.tuple [k', v'] none) (.tuple [.strVal m''.1, m''.2.2] none) (by omega)
        ⟨fa, td_entry sfh fb.1 fb.2, td_entry sfh (td_leaf sfh _ trivial) (fc.2.2 m'' hm''), wf_entry cfg wb.1 wb.2,
         wf_entry cfg (wf_leaf cfg _ trivial) (wc.2 m'' hm'')⟩ hA
      rw [entry_asg, hB.1, hB.2]; rfl
  | struct ms' =>
    have fb := H.fb; unfold Ty.TD at fb
    have wb := H.wb; unfold Ty.WF at wb
    obtain ⟨ms'', rfl⟩ := struct_closed cfg sfh ms' c fb.1 h2
    have fc := H.fc; unfold Ty.TD at fc
    have wc := H.wc; unfold Ty.WF at wc
    obtain ⟨b1, b2⟩ := (struct_recv_iff cfg sfh ms' ms'' fb.2.1 fc.2.1).1 h2
    unfold asgRecv at h1 ⊢
    rw [iterMembers_iff] at h1 ⊢
    intro m'' hm''
    obtain ⟨m', hm', hk'⟩ := b2 m'' hm''
    have hB := (b1 m' hm').1 m'' hm'' hk'.symm
    have := Ty.wm_ge hm'; have := Ty.wm_ge hm''
    apply ihA x (.tuple [.strVal m'.1, m'.2.2] none) (.tuple [.strVal m''.1, m''.2.2] none)
      (by omega)
      ⟨fa, td_entry sfh (td_leaf sfh _ trivial) (fb.2.2 m' hm'), td_entry sfh (td_leaf sfh _ trivial) (fc.2.2 m'' hm''),
       wf_entry cfg (wf_leaf cfg _ trivial) (wb.2 m' hm'), wf_entry cfg (wf_leaf cfg _ trivial) (wc.2 m'' hm'')⟩ (h1 m' hm')
    rw [entry_asg, hB.2, hk']
    rw [asg_plain_r cfg sfh _ _ rfl]; simp [asgRecv]
  | iterable y =>
    have fb := H.fb; unfold Ty.TD at fb
    have wb := H.wb; unfold Ty.WF at wb
    have hxy : asg cfg sfh x y = true := by unfold asgRecv at h1; exact h1
    by_cases pc : c.isPos = true
    · rw [recv_iter_pos cfg sfh y c pc, tupZipL_iff cfg sfh y _ _ (posTypes_ne c pc)] at h2
      rw [recv_iter_pos cfg sfh x c pc, tupZipL_iff cfg sfh x _ _ (posTypes_ne c pc)]
      intro j t hj ht
      obtain ⟨wc', fc', wfc'⟩ := posD_elem cfg sfh c pc t (List.mem_of_getElem? ht)
      exact ihA x y t (by omega) ⟨fa, fb, fc' H.fc, wb, wfc' H.wc⟩ hxy (h2 j t hj ht)
    by_cases sc : isStringFamily c = true
    · rw [recv_iter_family cfg sfh y c sc] at h2
      rw [recv_iter_family cfg sfh x c sc]
      exact ihA x y _ (by omega) ⟨fa, fb, td_leaf sfh _ trivial, wb, wf_leaf cfg _ trivial⟩ hxy h2
    cases c with
    | array _ _ => simp [Ty.isPos] at pc
    | tuple _ _ => simp [Ty.isPos] at pc
    | str => simp [isStringFamily] at sc
    | strSz _ => simp [isStringFamily] at sc
    | strVal _ => simp [isStringFamily] at sc
    | enum _ _ => simp [isStringFamily] at sc
    | pattern _ => simp [isStringFamily] at sc
    | bin =>
      unfold asgRecv at h2 ⊢
      exact ihA x y _ (by omega) ⟨fa, fb, td_leaf sfh _ trivial, wb, wf_leaf cfg _ trivial⟩ hxy h2
    | hash k'' v'' r'' =>
      have fc := H.fc; unfold Ty.TD at fc
      have wc := H.wc; unfold Ty.WF at wc
      unfold asgRecv at h2 ⊢
      simp only [Bool.or_eq_true, decide_eq_true_eq] at h2 ⊢
      rcases h2 with h2 | h2
      · left; exact h2
      · right
        exact ihA x y _ (by omega) ⟨fa, fb, td_entry sfh fc.1 fc.2, wb, wf_entry cfg wc.1 wc.2⟩ hxy h2
    | struct ms'' =>
      have fc := H.fc; unfold Ty.TD at fc
      have wc := H.wc; unfold Ty.WF at wc
      unfold asgRecv at h2 ⊢
      rw [iterMembers_iff] at h2 ⊢
      intro m'' hm''
      have := Ty.wm_ge hm''
      exact ihA x y _ (by omega)
        ⟨fa, fb, td_entry sfh (td_leaf sfh _ trivial) (fc.2.2 m'' hm''), wb, wf_entry cfg (wf_leaf cfg _ trivial) (wc.2 m'' hm'')⟩
        hxy (h2 m'' hm'')
    | iterable z =>
      have fc := H.fc; unfold Ty.TD at fc
      have wc := H.wc; unfold Ty.WF at wc
      unfold asgRecv at h2 ⊢
      exact ihA x y z (by omega) ⟨fa, fb, fc, wb, wc⟩ hxy h2
    | _ => unfold asgRecv at h2; simp only [] at h2; contradiction
  | _ => unfold asgRecv at h1; simp only [] at h1; contradiction

end Pcore.Lat
