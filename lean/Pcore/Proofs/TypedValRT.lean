import Pcore.Proofs.TypeRT
import Pcore.Model.TypedVal
/-!
C05 for literal values that HOLD types (and nested containers of them): the program-format text parses, and resolving the
type expressions in the parse result (`types.ResolveDeferred`) gives the value back.
-/
namespace Pcore.Syntax

mutual
/-- well-formed values holding types: Int64 integers; floats under the float parameter (the text is the formatter
    oracle's, it lexes as one float token, the reader oracle maps it back); representable, compiling regexps; types of the
    fragment in normal form (`WFTy`); containers of such, to any depth, types also as hash keys -/
def WFV (env : Env) : TVal → Prop
  | .int i => -(int64Bound : Int) ≤ i ∧ i < (int64Bound : Int)
  | .float b t => t = env.ff b ∧ Lit env (.float b t)
  | .regexp s => rxRep false s = true ∧ env.rxOK s = true
  | .arr vs => WFVs env vs
  | .hash es => WFVEs env es
  | .ty t => WFTy env t
  | _ => True
def WFVs (env : Env) : List TVal → Prop
  | [] => True
  | v :: vs => WFV env v ∧ WFVs env vs
def WFVEs (env : Env) : List (TVal × TVal) → Prop
  | [] => True
  | (k, v) :: es => WFV env k ∧ WFV env v ∧ WFVEs env es
end

mutual
theorem lit_toVal (env : Env) : (v : TVal) → WFV env v → Lit env v.toVal
  | .undef, _ => trivial
  | .dflt, _ => trivial
  | .bool _, _ => trivial
  | .int _, h => h
  | .float _ _, h => h.2
  | .str _, _ => trivial
  | .regexp _, h => h
  | .arr vs, h => by simp only [TVal.toVal, Lit]; exact litL_toVals env vs h
  | .hash es, h => by simp only [TVal.toVal, Lit]; exact litE_toEntries env es h
  | .ty t, h => by simp only [TVal.toVal]; exact lit_tyExpr env t h
theorem litL_toVals (env : Env) : (vs : List TVal) → WFVs env vs → LitL env (TVal.toVals vs)
  | [], _ => trivial
  | v :: vs, h => ⟨lit_toVal env v h.1, litL_toVals env vs h.2⟩
theorem litE_toEntries (env : Env) : (es : List (TVal × TVal)) → WFVEs env es → LitE env (TVal.toEntries es)
  | [], _ => trivial
  | (k, v) :: es, h => ⟨lit_toVal env k h.1, lit_toVal env v h.2.1, litE_toEntries env es h.2.2⟩
end

theorem resolveV_dtype (env : Env) (n : Str) (ps : Option (List Expr)) :
    resolveV env (.dtype n ps) = (resolve env (.dtype n ps)).map .ty := by
  cases ps <;> simp [resolveV, resolve]

mutual
theorem resolveV_toVal (env : Env) : (v : TVal) → WFV env v → resolveV env (exprOf v.toVal) = some v
  | .undef, _ => by simp [TVal.toVal, exprOf, resolveV]
  | .dflt, _ => by simp [TVal.toVal, exprOf, resolveV]
  | .bool _, _ => by simp [TVal.toVal, exprOf, resolveV]
  | .int _, _ => by simp [TVal.toVal, exprOf, resolveV]
  | .float b t, h => by simp [TVal.toVal, exprOf, resolveV, h.1]
  | .str _, _ => by simp [TVal.toVal, exprOf, resolveV]
  | .regexp _, _ => by simp [TVal.toVal, exprOf, resolveV]
  | .arr vs, h => by simp [TVal.toVal, exprOf, resolveV, resolveVs_toVals env vs h]
  | .hash es, h => by simp [TVal.toVal, exprOf, resolveV, resolveVEs_toEntries env es h]
  | .ty t, h => by
    simp only [TVal.toVal]
    obtain ⟨n, ps, hd⟩ := exprOf_tyExpr_dtype t
    have := resolve_tyExpr env t h
    rw [hd] at this ⊢
    rw [resolveV_dtype, this]; rfl
theorem resolveVs_toVals (env : Env) : (vs : List TVal) → WFVs env vs → resolveVs env (exprsOf (TVal.toVals vs)) = some vs
  | [], _ => by simp [TVal.toVals, exprsOf, resolveVs]
  | v :: vs, h => by
    simp [TVal.toVals, exprsOf, resolveVs, resolveV_toVal env v h.1, resolveVs_toVals env vs h.2]
theorem resolveVEs_toEntries (env : Env) : (es : List (TVal × TVal)) → WFVEs env es →
    resolveVEs env (entriesOf (TVal.toEntries es)) = some es
  | [], _ => by simp [TVal.toEntries, entriesOf, resolveVEs]
  | (k, v) :: es, h => by
    simp [TVal.toEntries, entriesOf, resolveVEs, resolveV_toVal env k h.1, resolveV_toVal env v h.2.1,
      resolveVEs_toEntries env es h.2.2]
end

/-- **values holding types**: the program-format text parses and resolves back to the value -/
theorem typed_value_rt (env : Env) (v : TVal) (h : WFV env v) : parseTVal env (syms (printTVal v)) = some v := by
  unfold parseTVal printTVal
  rw [value_rt env v.toVal (lit_toVal env v h)]
  exact resolveV_toVal env v h

end Pcore.Syntax
