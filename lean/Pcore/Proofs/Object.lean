import Pcore.Model.Object
/-! Helper lemmas for C17 (object types).  Core Lean only. -/
namespace Pcore.Object

/-- the attribute values an object denotes: the stored values, then the implicit value of every omitted position -/
def den (attrs : List Attr) (vs : List Val) : List Val := vs ++ (attrs.drop vs.length).map Attr.implicitT

theorem implicit_of_optional {a : Attr} (h : a.optional = true) : a.implicit = .ok a.implicitT := by
  unfold Attr.implicit Attr.implicitT
  unfold Attr.optional Attr.hasValue at h
  by_cases hk : a.kind = .givenOrDerived
  · simp [hk]
  · cases hv : a.value with
    | none => simp [hk, hv] at h
    | some v => simp [hk]

theorem fillOne_of_optional {a : Attr} (h : a.optional = true) : fillOne a = .ok a.implicitT := by
  unfold fillOne Attr.implicitT
  unfold Attr.optional Attr.hasValue at h
  by_cases hk : a.kind = .givenOrDerived
  · simp [hk]
  · cases hv : a.value with
    | none => simp [hk, hv] at h
    | some v => simp [hk]

/-! ### nameToPos -/

theorem nameToPos_lt {attrs : List Attr} {n : String} {i : Nat} (h : nameToPos attrs n = some i) : i < attrs.length := by
  induction attrs generalizing i with
  | nil => simp [nameToPos] at h
  | cons a as ih =>
    unfold nameToPos at h
    cases hr : nameToPos as n with
    | some j =>
      simp [hr] at h
      have := ih hr
      simp; omega
    | none =>
      simp [hr] at h
      simp; omega

theorem nameToPos_get {attrs : List Attr} {n : String} {i : Nat} (h : nameToPos attrs n = some i) :
    ∃ a, attrs[i]? = some a ∧ a.name = n := by
  induction attrs generalizing i with
  | nil => simp [nameToPos] at h
  | cons a as ih =>
    unfold nameToPos at h
    cases hr : nameToPos as n with
    | some j =>
      simp [hr] at h
      obtain ⟨b, hb, hn⟩ := ih hr
      exact ⟨b, by subst h; simpa using hb, hn⟩
    | none =>
      simp [hr] at h
      obtain ⟨hn, hi⟩ := h
      subst hi
      exact ⟨a, by simp, hn⟩

theorem nameToPos_none {attrs : List Attr} {n : String} : nameToPos attrs n = none ↔ ∀ a ∈ attrs, a.name ≠ n := by
  induction attrs with
  | nil => simp [nameToPos]
  | cons a as ih =>
    unfold nameToPos
    cases hr : nameToPos as n with
    | some j =>
      simp
      obtain ⟨b, hb, hn⟩ := nameToPos_get hr
      intro _
      exact ⟨b, List.mem_of_getElem? hb, hn⟩
    | none =>
      have := ih.mp hr
      simp
      intro _
      exact this

theorem nameToPos_of_nodup {attrs : List Attr} (hnd : (attrs.map (·.name)).Nodup) {i : Nat} {a : Attr}
    (h : attrs[i]? = some a) : nameToPos attrs a.name = some i := by
  induction attrs generalizing i with
  | nil => simp at h
  | cons b bs ih =>
    simp only [List.map_cons, List.nodup_cons] at hnd
    unfold nameToPos
    cases i with
    | zero =>
      simp at h
      subst h
      have : nameToPos bs b.name = none := by
        rw [nameToPos_none]
        intro c hc hcn
        exact hnd.1 (by rw [← hcn]; exact List.mem_map_of_mem hc)
      simp [this]
    | succ j =>
      simp at h
      have := ih hnd.2 h
      simp [this]

/-! ### den / valueAt -/

theorem den_length {attrs : List Attr} {vs : List Val} (h : vs.length ≤ attrs.length) :
    (den attrs vs).length = attrs.length := by
  simp [den]; omega

theorem den_lt {attrs : List Attr} {vs : List Val} {i : Nat} (h : i < vs.length) : (den attrs vs)[i]? = vs[i]? := by
  simp [den, List.getElem?_append_left h]

theorem den_ge {attrs : List Attr} {vs : List Val} {i : Nat} (h : vs.length ≤ i) :
    (den attrs vs)[i]? = (attrs[i]?).map Attr.implicitT := by
  simp [den, List.getElem?_append_right h]
  congr 2
  omega

/-- every position from `k` on is optional -/
def TailOpt (attrs : List Attr) (k : Nat) : Prop := ∀ i a, attrs[i]? = some a → k ≤ i → a.optional = true

theorem valueAt_den {attrs : List Attr} {vs : List Val} {k i : Nat} (ht : TailOpt attrs k) (hk : k ≤ vs.length)
    (hi : i < attrs.length) : ∃ v, valueAt attrs vs i = .ok v ∧ (den attrs vs)[i]? = some v := by
  unfold valueAt
  by_cases hlt : i < vs.length
  · have : vs[i]? = some vs[i] := List.getElem?_eq_getElem hlt
    refine ⟨vs[i], by simp [this], by rw [den_lt hlt]; exact this⟩
  · have hge : vs.length ≤ i := by omega
    have hn : vs[i]? = none := List.getElem?_eq_none hge
    have ha : attrs[i]? = some attrs[i] := List.getElem?_eq_getElem hi
    have hopt := ht i attrs[i] ha (by omega)
    refine ⟨attrs[i].implicitT, by simp [hn, ha, implicit_of_optional hopt], by rw [den_ge hge, ha]; rfl⟩

/-! ### get -/

@[simp] theorem attrInfo_attrs (t : OType) : (attrInfo t).attrs = posAttrs t := rfl
@[simp] theorem attrInfo_required (t : OType) : (attrInfo t).required = requiredCount t := rfl

theorem get_pos {t : OType} {vs : List Val} {k i : Nat} {a : Attr} (hnd : ((posAttrs t).map (·.name)).Nodup)
    (ht : TailOpt (posAttrs t) k) (hk : k ≤ vs.length) (ha : (posAttrs t)[i]? = some a) :
    get { typ := t, values := vs } a.name = .ok ((den (posAttrs t) vs)[i]?) := by
  have hi : i < (posAttrs t).length := by
    rcases Nat.lt_or_ge i (posAttrs t).length with h | h
    · exact h
    · rw [List.getElem?_eq_none h] at ha; cases ha
  obtain ⟨v, hv, hd⟩ := valueAt_den (vs := vs) ht hk hi
  unfold get
  simp only [attrInfo_attrs, nameToPos_of_nodup hnd ha, hv, hd]

/-! ### equals -/

theorem allOk_eq {f : Nat → Except Code Bool} {g : Nat → Bool} {l : List Nat} (h : ∀ i ∈ l, f i = .ok (g i)) :
    allOk f l = .ok (l.all g) := by
  induction l with
  | nil => rfl
  | cons i is ih =>
    have hi := h i (by simp)
    have ih' := ih (fun j hj => h j (by simp [hj]))
    unfold allOk
    rw [hi]
    cases hg : g i <;> simp [ih', hg]

theorem tyEq_refl (t : OType) : tyEq t t = true := by simp [tyEq]

theorem eqPositions_lt {t : OType} {i : Nat} (h : i ∈ eqPositions t) : i < (posAttrs t).length := by
  unfold eqPositions attrInfo at h
  by_cases hd : equalityDeclared t = true
  · simp [hd] at h
    obtain ⟨n, _, hn⟩ := h
    exact nameToPos_lt hn
  · simp [hd] at h
    exact h

theorem cmpValues_ok (v v' : Val) : cmpValues (.ok v) (.ok v') = .ok (v == v') := rfl

/-- `Equals` when the types are Equal (`sameType = true`): position by position on the denoted values -/
theorem equalsWith_den {t t' : OType} {vs vs' : List Val} {k : Nat} (ht : TailOpt (posAttrs t) k)
    (hk : k ≤ vs.length) (hk' : k ≤ vs'.length) :
    equalsWith true { typ := t, values := vs } { typ := t', values := vs' } =
      .ok ((eqPositions t).all (fun i => (den (posAttrs t) vs)[i]? == (den (posAttrs t) vs')[i]?)) := by
  unfold equalsWith
  simp only [if_true]
  apply allOk_eq
  intro i hi
  have hlt := eqPositions_lt hi
  obtain ⟨v, hv, hd⟩ := valueAt_den (vs := vs) ht hk hlt
  obtain ⟨v', hv', hd'⟩ := valueAt_den (vs := vs') ht hk' hlt
  simp only [hv, hv', hd, hd', cmpValues_ok]
  simp

theorem equals_den {t : OType} {vs vs' : List Val} {k : Nat} (ht : TailOpt (posAttrs t) k)
    (hk : k ≤ vs.length) (hk' : k ≤ vs'.length) :
    equals { typ := t, values := vs } { typ := t, values := vs' } =
      .ok ((eqPositions t).all (fun i => (den (posAttrs t) vs)[i]? == (den (posAttrs t) vs')[i]?)) := by
  unfold equals equalsWith
  simp only [tyEq_refl, if_true]
  apply allOk_eq
  intro i hi
  have hlt := eqPositions_lt hi
  obtain ⟨v, hv, hd⟩ := valueAt_den (vs := vs) ht hk hlt
  obtain ⟨v', hv', hd'⟩ := valueAt_den (vs := vs') ht hk' hlt
  simp only [hv, hv', hd, hd', cmpValues_ok]
  simp

/-- what `Equals` computes for one compared position of the receiver when the types differ -/
def crossStep (t t' : OType) (vs vs' : List Val) (i : Nat) : Bool :=
  match (posAttrs t)[i]? with
  | none => false
  | some a =>
    match nameToPos (posAttrs t') a.name with
    | none => false
    | some j => (eqPositions t').contains j && ((den (posAttrs t) vs)[i]? == (den (posAttrs t') vs')[j]?)

theorem crossCmp_eq {t t' : OType} {vs vs' : List Val} {k k' : Nat}
    (ht : TailOpt (posAttrs t) k) (ht' : TailOpt (posAttrs t') k') (hk : k ≤ vs.length) (hk' : k' ≤ vs'.length)
    {i : Nat} (hlt : i < (posAttrs t).length) :
    crossCmp (posAttrs t) (posAttrs t') (eqPositions t') vs vs' i = .ok (crossStep t t' vs vs' i) := by
  have ha : (posAttrs t)[i]? = some (posAttrs t)[i] := List.getElem?_eq_getElem hlt
  unfold crossCmp crossStep
  simp only [ha]
  cases hj : nameToPos (posAttrs t') (posAttrs t)[i].name with
  | none => rfl
  | some j =>
    simp only
    by_cases hc : (eqPositions t').contains j = true
    · obtain ⟨v, hv, hd⟩ := valueAt_den (vs := vs) ht hk hlt
      obtain ⟨v', hv', hd'⟩ := valueAt_den (vs := vs') ht' hk' (nameToPos_lt hj)
      simp only [hc, if_true, hv, hv', hd, hd', cmpValues_ok, Bool.true_and]
      simp
    · simp only [hc, Bool.false_eq_true, if_false, Bool.false_and]

/-- `Equals` when the types are not Equal (`sameType = false`) -/
theorem equalsWith_cross {t t' : OType} {vs vs' : List Val} {k k' : Nat}
    (ht : TailOpt (posAttrs t) k) (ht' : TailOpt (posAttrs t') k') (hk : k ≤ vs.length) (hk' : k' ≤ vs'.length) :
    equalsWith false { typ := t, values := vs } { typ := t', values := vs' } =
      .ok (!(includesType t || includesType t') && (eqPositions t).length == (eqPositions t').length &&
        (eqPositions t).all (crossStep t t' vs vs')) := by
  unfold equalsWith
  simp only [Bool.false_eq_true, if_false]
  by_cases hi : (includesType t || includesType t') = true
  · simp [hi]
  · simp only [hi, Bool.false_eq_true, if_false]
    by_cases hl : (eqPositions t).length = (eqPositions t').length
    · simp only [hl, bne_self_eq_false, Bool.false_eq_true, if_false]
      rw [allOk_eq (g := crossStep t t' vs vs') (fun i hmem => crossCmp_eq ht ht' hk hk' (eqPositions_lt hmem))]
      simp
    · simp [hl]

theorem equals_cross {t t' : OType} {vs vs' : List Val} {k k' : Nat} (hne : tyEq t t' = false)
    (ht : TailOpt (posAttrs t) k) (ht' : TailOpt (posAttrs t') k') (hk : k ≤ vs.length) (hk' : k' ≤ vs'.length) :
    equals { typ := t, values := vs } { typ := t', values := vs' } =
      .ok (!(includesType t || includesType t') && (eqPositions t).length == (eqPositions t').length &&
        (eqPositions t).all (crossStep t t' vs vs')) := by
  unfold equals equalsWith
  simp only [hne, Bool.false_eq_true, if_false]
  by_cases hi : (includesType t || includesType t') = true
  · simp [hi]
  · simp only [hi, Bool.false_eq_true, if_false]
    by_cases hl : (eqPositions t).length = (eqPositions t').length
    · simp only [hl, bne_self_eq_false, Bool.false_eq_true, if_false]
      rw [allOk_eq (g := crossStep t t' vs vs') (fun i hmem => crossCmp_eq ht ht' hk hk' (eqPositions_lt hmem))]
      simp
    · simp [hl]

/-! ### trim -/

@[simp] theorem den_cons (a : Attr) (as : List Attr) (v : Val) (vs : List Val) :
    den (a :: as) (v :: vs) = v :: den as vs := by simp [den]

@[simp] theorem den_nil_cons (a : Attr) (as : List Attr) : den (a :: as) [] = a.implicitT :: den as [] := by simp [den]

theorem den_full {attrs : List Attr} {vs : List Val} (h : attrs.length ≤ vs.length) : den attrs vs = vs := by
  simp [den, List.drop_eq_nil_of_le h]

/-- a given_or_derived attribute never has a declared value (attribute.initialize rejects it) -/
def GodUndef (attrs : List Attr) : Prop := ∀ a ∈ attrs, a.kind = .givenOrDerived → ∀ v, a.value = some v → v = .undef

theorem implicitT_of_isDefault {a : Attr} {v : Val} (hg : a.kind = .givenOrDerived → ∀ v, a.value = some v → v = .undef)
    (h : a.isDefault v = true) : a.implicitT = v := by
  unfold Attr.isDefault at h
  have hv : a.value = some v := by simpa using h
  unfold Attr.implicitT
  by_cases hk : a.kind = .givenOrDerived
  · simp [hk, hg hk v hv]
  · simp [hk, hv]

theorem den_trim {attrs : List Attr} (hg : GodUndef attrs) (req : Nat) (va : List Val) :
    den attrs (trim req attrs va) = den attrs va := by
  induction va generalizing req attrs with
  | nil => cases attrs <;> simp [trim]
  | cons v vs ih =>
    cases attrs with
    | nil => simp [trim]
    | cons a as =>
      have hg' : GodUndef as := fun b hb => hg b (by simp [hb])
      have ih' := ih hg' (req - 1)
      unfold trim
      cases hr : trim (req - 1) as vs with
      | nil =>
        rw [hr] at ih'
        by_cases hc : (req == 0 && a.isDefault v) = true
        · simp only [hc, if_true, den_nil_cons, den_cons]
          have hd : a.isDefault v = true := by simp at hc; exact hc.2
          rw [implicitT_of_isDefault (hg a (by simp)) hd, ih']
        · simp only [hc, den_cons]
          rw [← ih']; simp
      | cons x xs =>
        simp only [den_cons]
        rw [hr] at ih'
        rw [ih']

theorem trim_length_le (req : Nat) (attrs : List Attr) (va : List Val) : (trim req attrs va).length ≤ va.length := by
  induction va generalizing req attrs with
  | nil => cases attrs <;> simp [trim]
  | cons v vs ih =>
    cases attrs with
    | nil => simp [trim]
    | cons a as =>
      have ih' := ih (req - 1) as
      unfold trim
      cases hr : trim (req - 1) as vs with
      | nil => by_cases hc : (req == 0 && a.isDefault v) = true <;> simp [hc]
      | cons x xs => rw [hr] at ih'; simp at ih' ⊢; omega

theorem trim_length_ge (req : Nat) (attrs : List Attr) (va : List Val) (h : req ≤ va.length) :
    req ≤ (trim req attrs va).length := by
  induction va generalizing req attrs with
  | nil => simp at h; subst h; simp
  | cons v vs ih =>
    cases attrs with
    | nil => simpa [trim] using h
    | cons a as =>
      have ih' := ih (req - 1) as (by simp at h; omega)
      unfold trim
      cases hr : trim (req - 1) as vs with
      | nil =>
        rw [hr] at ih'
        by_cases hc : (req == 0 && a.isDefault v) = true
        · simp [hc]; simp at hc; exact hc.1
        · simp [hc]; simp at ih'; omega
      | cons x xs => rw [hr] at ih'; simp at ih' ⊢; omega

/-! ### fillAll / toHash -/

theorem fillAll_eq {es : List (String × Val)} {attrs : List Attr}
    (h : ∀ a ∈ attrs, a.optional = true ∨ (es.lookup a.name).isSome = true) :
    fillAll es attrs = .ok (attrs.map (fun a => (es.lookup a.name).getD a.implicitT)) := by
  induction attrs with
  | nil => rfl
  | cons a as ih =>
    have ih' := ih (fun b hb => h b (by simp [hb]))
    unfold fillAll
    rw [ih']
    cases hl : List.lookup a.name es with
    | some v => simp [hl]
    | none =>
      have := h a (by simp)
      rw [hl] at this
      simp at this
      simp [fillOne_of_optional this, hl]

/-- the hash a positional argument list stands for -/
def toHash : List Attr → List Val → List (String × Val)
  | a :: as, v :: vs => (a.name, v) :: toHash as vs
  | _, _ => []

theorem lookup_toHash {attrs : List Attr} (hnd : (attrs.map (·.name)).Nodup) {vs : List Val} {i : Nat} {a : Attr}
    (ha : attrs[i]? = some a) : (toHash attrs vs).lookup a.name = vs[i]? := by
  induction attrs generalizing vs i with
  | nil => simp at ha
  | cons b bs ih =>
    simp only [List.map_cons, List.nodup_cons] at hnd
    cases vs with
    | nil => simp [toHash]
    | cons v vs =>
      cases i with
      | zero =>
        simp at ha; subst ha
        simp [toHash]
      | succ j =>
        simp at ha
        have hne : (a.name == b.name) = false := by
          have : a.name ≠ b.name := by
            intro he
            exact hnd.1 (by rw [← he]; exact List.mem_map_of_mem (List.mem_of_getElem? ha))
          simpa using this
        simp [toHash, List.lookup, hne, ih hnd.2 ha]

theorem find_of_nodup {attrs : List Attr} (hnd : (attrs.map (·.name)).Nodup) {i : Nat} {a : Attr}
    (ha : attrs[i]? = some a) : attrs.find? (fun b => b.name == a.name) = some a := by
  induction attrs generalizing i with
  | nil => simp at ha
  | cons b bs ih =>
    simp only [List.map_cons, List.nodup_cons] at hnd
    cases i with
    | zero => simp at ha; subst ha; simp
    | succ j =>
      simp at ha
      have hne : (b.name == a.name) = false := by
        have : b.name ≠ a.name := by
          intro he
          exact hnd.1 (by rw [he]; exact List.mem_map_of_mem (List.mem_of_getElem? ha))
        simpa using this
      simp [List.find?, hne, ih hnd.2 ha]

theorem mem_toHash {attrs : List Attr} {vs : List Val} {e : String × Val} (h : e ∈ toHash attrs vs) :
    ∃ (i : Nat) (a : Attr), attrs[i]? = some a ∧ vs[i]? = some e.2 ∧ e.1 = a.name := by
  induction attrs generalizing vs with
  | nil => simp [toHash] at h
  | cons b bs ih =>
    cases vs with
    | nil => simp [toHash] at h
    | cons v vs =>
      simp [toHash] at h
      rcases h with h | h
      · exact ⟨0, b, by simp, by simp [h], by simp [h]⟩
      · obtain ⟨i, a, h1, h2, h3⟩ := ih h
        exact ⟨i + 1, a, by simp [h1], by simp [h2], h3⟩

theorem allInst_get {attrs : List Attr} {vs : List Val} (h : allInst attrs vs = true) {i : Nat} {a : Attr} {v : Val}
    (ha : attrs[i]? = some a) (hv : vs[i]? = some v) : inst a.ty v = true := by
  induction attrs generalizing vs i with
  | nil => simp at ha
  | cons b bs ih =>
    cases vs with
    | nil => simp at hv
    | cons w ws =>
      simp [allInst] at h
      cases i with
      | zero => simp at ha hv; subst ha; subst hv; exact h.1
      | succ j => simp at ha hv; exact ih h.2 ha hv

theorem allElems_mono {p q : Val → Bool} (h : ∀ v, p v = true → q v = true) :
    ∀ v, allElems p v = true → allElems q v = true := by
  intro v
  induction v with
  | acons x t _ iht =>
    intro hv
    simp only [allElems, Bool.and_eq_true] at hv ⊢
    exact ⟨h x hv.1, iht hv.2⟩
  | anil => intro _; rfl
  | _ => intro hv; simp [allElems] at hv

/-- the type the named constructor's init Struct gives an attribute (`typeAndInit`) accepts whatever the attribute's own
    type accepts (and, for `NotUndef[T]`, undef besides) -/
theorem inst_tyInit (t : Ty) : ∀ v, inst t v = true → inst (tyInit t) v = true := by
  induction t with
  | opt t ih =>
    intro v h
    simp only [tyInit, inst, Bool.or_eq_true] at h ⊢
    rcases h with h | h
    · exact Or.inl h
    · exact Or.inr (ih v h)
  | notUndef t ih =>
    intro v h
    simp only [tyInit, inst, Bool.and_eq_true, Bool.or_eq_true] at h ⊢
    exact Or.inr (ih v h.2)
  | variant a b iha ihb =>
    intro v h
    simp only [tyInit, inst, Bool.or_eq_true] at h ⊢
    rcases h with h | h
    · exact Or.inl (iha v h)
    · exact Or.inr (ihb v h)
  | array t ih =>
    intro v h
    simp only [tyInit, inst] at h ⊢
    exact allElems_mono ih v h
  | _ => intro v h; exact h

theorem allInst_length {attrs : List Attr} {vs : List Val} (h : allInst attrs vs = true) : vs.length ≤ attrs.length := by
  induction attrs generalizing vs with
  | nil => cases vs <;> simp [allInst] at h ⊢
  | cons b bs ih =>
    cases vs with
    | nil => simp
    | cons w ws => simp [allInst] at h; have := ih h.2; simp; omega

theorem den_get {attrs : List Attr} {vs : List Val} {i : Nat} {a : Attr} (ha : attrs[i]? = some a) :
    (den attrs vs)[i]? = some ((vs[i]?).getD a.implicitT) := by
  by_cases hlt : i < vs.length
  · rw [den_lt hlt, List.getElem?_eq_getElem hlt]; rfl
  · have hge : vs.length ≤ i := by omega
    rw [den_ge hge, ha, List.getElem?_eq_none hge]; rfl

theorem getElem?_lt_of_some {α} {l : List α} {i : Nat} {a : α} (h : l[i]? = some a) : i < l.length := by
  rcases Nat.lt_or_ge i l.length with h' | h'
  · exact h'
  · rw [List.getElem?_eq_none h'] at h; cases h

theorem map_toHash_eq_den {attrs : List Attr} (hnd : (attrs.map (·.name)).Nodup) {vs : List Val}
    (hl : vs.length ≤ attrs.length) :
    attrs.map (fun a => ((toHash attrs vs).lookup a.name).getD a.implicitT) = den attrs vs := by
  apply List.ext_getElem?
  intro i
  cases ha : attrs[i]? with
  | none =>
    have : attrs.length ≤ i := by
      rcases Nat.lt_or_ge i attrs.length with h' | h'
      · rw [List.getElem?_eq_getElem h'] at ha; cases ha
      · exact h'
    rw [List.getElem?_eq_none (by simpa using this), List.getElem?_eq_none (by rw [den_length hl]; exact this)]
  | some a =>
    rw [den_get ha, List.getElem?_map, ha]
    simp only [Option.map_some]
    rw [lookup_toHash hnd ha]

/-! ### makeValueHash -/

/-- makeValueHash leaves this value out -/
def skips (a : Attr) (v : Val) : Bool := (a.hasValue && a.value == some v) || (a.kind == .givenOrDerived && v == .undef)

theorem mvh_cons (a : Attr) (as : List Attr) (v : Val) (vs : List Val) :
    makeValueHash (a :: as) (v :: vs) = if skips a v then makeValueHash as vs else (a.name, v) :: makeValueHash as vs := by
  simp [makeValueHash, skips]

theorem mem_mvh {attrs : List Attr} {vs : List Val} {e : String × Val} (h : e ∈ makeValueHash attrs vs) :
    ∃ (i : Nat) (a : Attr), attrs[i]? = some a ∧ vs[i]? = some e.2 ∧ e.1 = a.name := by
  induction attrs generalizing vs with
  | nil => simp [makeValueHash] at h
  | cons b bs ih =>
    cases vs with
    | nil => simp [makeValueHash] at h
    | cons v vs =>
      rw [mvh_cons] at h
      by_cases hs : skips b v = true
      · simp [hs] at h
        obtain ⟨i, a, h1, h2, h3⟩ := ih h
        exact ⟨i + 1, a, by simp [h1], by simp [h2], h3⟩
      · simp [hs] at h
        rcases h with h | h
        · exact ⟨0, b, by simp, by simp [h], by simp [h]⟩
        · obtain ⟨i, a, h1, h2, h3⟩ := ih h
          exact ⟨i + 1, a, by simp [h1], by simp [h2], h3⟩

theorem lookup_mvh_none {attrs : List Attr} {vs : List Val} {n : String} (h : ∀ a ∈ attrs, a.name ≠ n) :
    (makeValueHash attrs vs).lookup n = none := by
  cases hl : List.lookup n (makeValueHash attrs vs) with
  | none => rfl
  | some v =>
    exfalso
    have hm : (n, v) ∈ makeValueHash attrs vs := by
      clear h
      generalize makeValueHash attrs vs = es at hl
      induction es with
      | nil => simp at hl
      | cons e es ih =>
        obtain ⟨k, w⟩ := e
        simp only [List.lookup_cons] at hl
        by_cases hk : (n == k) = true
        · simp [hk] at hl; subst hl; have : n = k := by simpa using hk
          subst this; simp
        · simp [hk] at hl; simp [ih hl]
    obtain ⟨i, a, h1, _, h3⟩ := mem_mvh hm
    exact h a (List.mem_of_getElem? h1) h3.symm

theorem lookup_mvh {attrs : List Attr} (hnd : (attrs.map (·.name)).Nodup) {vs : List Val} {i : Nat} {a : Attr}
    (ha : attrs[i]? = some a) :
    (makeValueHash attrs vs).lookup a.name = (vs[i]?).bind (fun v => if skips a v then none else some v) := by
  induction attrs generalizing vs i with
  | nil => simp at ha
  | cons b bs ih =>
    simp only [List.map_cons, List.nodup_cons] at hnd
    cases vs with
    | nil => simp [makeValueHash]
    | cons v vs =>
      rw [mvh_cons]
      cases i with
      | zero =>
        simp at ha; subst ha
        have hnone : (makeValueHash bs vs).lookup b.name = none :=
          lookup_mvh_none (fun c hc hcn => hnd.1 (by rw [← hcn]; exact List.mem_map_of_mem hc))
        by_cases hs : skips b v = true
        · simp [hs, hnone]
        · simp [hs]
      | succ j =>
        simp at ha
        have hne : (a.name == b.name) = false := by
          have : a.name ≠ b.name := by
            intro he
            exact hnd.1 (by rw [← he]; exact List.mem_map_of_mem (List.mem_of_getElem? ha))
          simpa using this
        by_cases hs : skips b v = true
        · simp [hs, ih hnd.2 ha]
        · simp [hs, List.lookup, hne, ih hnd.2 ha]

theorem implicitT_of_skips {a : Attr} {v : Val} (hg : a.kind = .givenOrDerived → ∀ v, a.value = some v → v = .undef)
    (h : skips a v = true) : a.implicitT = v := by
  unfold skips at h
  simp only [Bool.or_eq_true, Bool.and_eq_true] at h
  rcases h with ⟨_, h⟩ | ⟨hk, hv⟩
  · exact implicitT_of_isDefault hg (by unfold Attr.isDefault; exact h)
  · have hk' : a.kind = .givenOrDerived := by simpa using hk
    have hv' : v = .undef := by simpa using hv
    simp [Attr.implicitT, hk', hv']

theorem map_mvh_eq_den {attrs : List Attr} (hnd : (attrs.map (·.name)).Nodup) (hg : GodUndef attrs) {vs : List Val}
    (hl : vs.length ≤ attrs.length) :
    attrs.map (fun a => ((makeValueHash attrs vs).lookup a.name).getD a.implicitT) = den attrs vs := by
  apply List.ext_getElem?
  intro i
  cases ha : attrs[i]? with
  | none =>
    have : attrs.length ≤ i := by
      rcases Nat.lt_or_ge i attrs.length with h' | h'
      · rw [List.getElem?_eq_getElem h'] at ha; cases ha
      · exact h'
    rw [List.getElem?_eq_none (by simpa using this), List.getElem?_eq_none (by rw [den_length hl]; exact this)]
  | some a =>
    rw [den_get ha, List.getElem?_map, ha]
    simp only [Option.map_some]
    rw [lookup_mvh hnd ha]
    cases hv : vs[i]? with
    | none => simp
    | some v =>
      by_cases hs : skips a v = true
      · simp [hs, implicitT_of_skips (hg a (List.mem_of_getElem? ha)) hs]
      · simp [hs]

/-! ### well-formed layouts -/

/-- what every accepted definition of the universe satisfies (see `wf_of_noSerialization`) -/
structure WF (t : OType) : Prop where
  nodup : ((posAttrs t).map (·.name)).Nodup
  tailOpt : TailOpt (posAttrs t) (requiredCount t)
  god : GodUndef (posAttrs t)

/-! ### dedup -/

theorem mem_dedup {l : List String} {n : String} : n ∈ dedup l ↔ n ∈ l := by
  induction l with
  | nil => simp [dedup]
  | cons x xs ih =>
    simp only [dedup, List.mem_cons, List.mem_filter, ih]
    constructor
    · rintro (h | ⟨h, _⟩)
      · exact Or.inl h
      · exact Or.inr h
    · rintro (h | h)
      · exact Or.inl h
      · by_cases hx : n = x
        · exact Or.inl hx
        · exact Or.inr ⟨h, by simpa using hx⟩

theorem dedup_nodup (l : List String) : (dedup l).Nodup := by
  induction l with
  | nil => simp [dedup]
  | cons x xs ih =>
    simp only [dedup, List.nodup_cons, List.mem_filter]
    exact ⟨by simp, ih.filter _⟩

/-- names of the attributes `Equals` compares: the declared equality attributes (each once) that have a position, or every
    positional attribute when no equality is declared anywhere in the chain -/
def eqAttrNames (t : OType) : List String :=
  if equalityDeclared t then (dedup (equalityAttributes t)).filter (fun n => (nameToPos (posAttrs t) n).isSome)
  else (posAttrs t).map (·.name)

theorem mem_eqPositions {t : OType} (hnd : ((posAttrs t).map (·.name)).Nodup) {i : Nat} :
    i ∈ eqPositions t ↔ ∃ n ∈ eqAttrNames t, nameToPos (posAttrs t) n = some i := by
  unfold eqPositions eqAttrNames attrInfo
  by_cases hd : equalityDeclared t = true
  · simp only [hd, if_true, List.mem_filterMap, List.mem_filter]
    constructor
    · rintro ⟨n, hn, hi⟩; exact ⟨n, ⟨hn, by simp [hi]⟩, hi⟩
    · rintro ⟨n, ⟨hn, _⟩, hi⟩; exact ⟨n, hn, hi⟩
  · simp only [hd, Bool.false_eq_true, if_false, List.mem_range, List.mem_map]
    constructor
    · intro hi
      have ha : (posAttrs t)[i]? = some (posAttrs t)[i] := List.getElem?_eq_getElem hi
      exact ⟨(posAttrs t)[i].name, ⟨_, List.mem_of_getElem? ha, rfl⟩, nameToPos_of_nodup hnd ha⟩
    · rintro ⟨n, _, hi⟩; exact nameToPos_lt hi

theorem eqAttrNames_pos {t : OType} (hnd : ((posAttrs t).map (·.name)).Nodup) {n : String} (h : n ∈ eqAttrNames t) :
    ∃ i, nameToPos (posAttrs t) n = some i := by
  unfold eqAttrNames at h
  by_cases hd : equalityDeclared t = true
  · simp only [hd, if_true, List.mem_filter] at h
    exact Option.isSome_iff_exists.mp h.2
  · simp only [hd, Bool.false_eq_true, if_false, List.mem_map] at h
    obtain ⟨a, ha, rfl⟩ := h
    obtain ⟨i, hi⟩ := List.getElem?_of_mem ha
    exact ⟨i, nameToPos_of_nodup hnd hi⟩

theorem length_filterMap_eq_filter {α β} (f : α → Option β) (l : List α) :
    (l.filterMap f).length = (l.filter (fun x => (f x).isSome)).length := by
  induction l with
  | nil => rfl
  | cons x xs ih =>
    cases hx : f x with
    | none => simp [List.filterMap_cons, hx, ih]
    | some y => simp [List.filterMap_cons, hx, ih]

theorem eqPositions_length (t : OType) : (eqPositions t).length = (eqAttrNames t).length := by
  unfold eqPositions eqAttrNames attrInfo
  by_cases hd : equalityDeclared t = true
  · simp only [hd, if_true]
    exact length_filterMap_eq_filter _ _
  · simp [hd]

/-- the names `Equals` compares are pairwise different -/
theorem eqAttrNames_nodup {t : OType} (hnd : ((posAttrs t).map (·.name)).Nodup) : (eqAttrNames t).Nodup := by
  unfold eqAttrNames
  by_cases hd : equalityDeclared t = true
  · simp only [hd, if_true]; exact (dedup_nodup _).filter _
  · simp only [hd, Bool.false_eq_true, if_false]; exact hnd

/-! ### makeValueHash and the trimmed / denoted values -/

theorem mvh_nil (attrs : List Attr) : makeValueHash attrs [] = [] := by cases attrs <;> rfl

theorem skips_of_isDefault {a : Attr} {v : Val} (h : a.isDefault v = true) : skips a v = true := by
  unfold Attr.isDefault at h
  have hv : a.value = some v := by simpa using h
  simp [skips, Attr.hasValue, hv]

/-- the values `PositionalFromHash` trims are values `makeValueHash` leaves out anyway -/
theorem mvh_trim (req : Nat) (attrs : List Attr) (va : List Val) :
    makeValueHash attrs (trim req attrs va) = makeValueHash attrs va := by
  induction va generalizing req attrs with
  | nil => cases attrs <;> simp [trim]
  | cons v vs ih =>
    cases attrs with
    | nil => simp [trim]
    | cons a as =>
      have ih' := ih (req - 1) as
      unfold trim
      cases hr : trim (req - 1) as vs with
      | nil =>
        rw [hr, mvh_nil] at ih'
        by_cases hc : (req == 0 && a.isDefault v) = true
        · have hd : a.isDefault v = true := by simp at hc; exact hc.2
          simp only [hc, if_true, mvh_nil, mvh_cons, skips_of_isDefault hd, ← ih']
        · simp only [hc, mvh_cons, ← ih']
          simp [mvh_cons, mvh_nil]
      | cons x xs =>
        rw [hr] at ih'
        simp only [mvh_cons, ih']

/-- the implicit values of the positions that were not given are values `makeValueHash` leaves out -/
theorem mvh_den {attrs : List Attr} {vs : List Val}
    (h : ∀ i a, attrs[i]? = some a → vs.length ≤ i → a.optional = true) :
    makeValueHash attrs (den attrs vs) = makeValueHash attrs vs := by
  induction attrs generalizing vs with
  | nil => simp [den]
  | cons a as ih =>
    cases vs with
    | nil =>
      have hopt : a.optional = true := h 0 a rfl (by simp)
      have hs : skips a a.implicitT = true := by
        unfold Attr.optional Attr.hasValue at hopt
        unfold skips Attr.implicitT Attr.hasValue
        by_cases hk : a.kind = .givenOrDerived
        · simp [hk]
        · simp only [hk, beq_iff_eq, Bool.false_or, Bool.or_eq_true] at hopt
          obtain ⟨x, hx⟩ := Option.isSome_iff_exists.mp (by simpa [hk] using hopt)
          simp [hk, hx]
      simp only [den_nil_cons, mvh_cons, hs, if_true, mvh_nil]
      have := ih (vs := []) (fun i b hb _ => h (i + 1) b (by simpa using hb) (by simp))
      rw [mvh_nil] at this
      exact this
    | cons v vs' =>
      simp only [den_cons, mvh_cons]
      have := ih (vs := vs') (fun i b hb hle => h (i + 1) b (by simpa using hb) (by simp at hle ⊢; omega))
      rw [this]

end Pcore.Object
