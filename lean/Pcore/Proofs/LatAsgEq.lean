import Pcore.Proofs.LatAsg
set_option linter.unusedSimpArgs false
/-! Equation lemmas for `asg` (the right-hand decomposition of `GuardedIsAssignable`). -/
namespace Pcore.Lat
variable (cfg : Cfg) (sfh : Bool)

/-- right-hand sides that `GuardedIsAssignable` does not decompose -/
def Ty.plainR : Ty → Bool
  | .unit | .notUndef _ | .optional _ | .data | .richData | .variant _ => false
  | _ => true

theorem asg_any_l (b : Ty) : asg cfg sfh .any b = true := by unfold asg; rfl

theorem asg_unit_r (a : Ty) : asg cfg sfh a .unit = true := by
  unfold asg; cases a <;> simp [sameNullary]

theorem asg_optional_r (a ot : Ty) :
    asg cfg sfh a (.optional ot) = (a.isAny || (asg cfg sfh a .undef && asg cfg sfh a ot)) := by
  conv => lhs; unfold asg
  cases a <;> simp [sameNullary, Ty.isAny]

theorem asg_variant_r (a : Ty) (bs : List Ty) :
    asg cfg sfh a (.variant bs) = (a.isAny || asgAllR cfg sfh a bs) := by
  conv => lhs; unfold asg
  cases a <;> simp [sameNullary, Ty.isAny]

theorem asg_notUndef_r (a nt : Ty) :
    asg cfg sfh a (.notUndef nt) =
      (a.isAny || (if !asg cfg sfh nt .undef then asg cfg sfh a nt else asgRecv cfg sfh a (.notUndef nt))) := by
  conv => lhs; unfold asg
  cases a <;> simp [sameNullary, Ty.isAny]

theorem asg_plain_r (a b : Ty) (hb : b.plainR = true) :
    asg cfg sfh a b = (a.isAny || sameNullary a b || asgRecv cfg sfh a b) := by
  conv => lhs; unfold asg
  cases a <;> cases b <;> simp [sameNullary, Ty.isAny, Ty.plainR] at hb ⊢
  rename_i p q
  cases p <;> cases q <;> simp

end Pcore.Lat
