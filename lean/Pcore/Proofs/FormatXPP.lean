import Pcore.Proofs.FormatXAlt
/-!
# The extended model is a directly written pretty-printer, end to end

`refPPX`: every value kind, any key system — nesting level `L`, "the enclosing format indents" `inh` and "not the first thing on its
level" `nested` as plain parameters instead of `Indentation` objects (Indenting / Increase / Subsequent / IsFirst / Breaks,
`formatContext.Subsequent`); the layouts `ppArray` / `ppHash` / `ppObj` of Proofs/FormatAlt.lean / FormatXAlt.lean instead of the
assemblers with their element-loop state.  `fmtX_pp`: the model of `ToString` computes exactly that, for values of any depth and any
mixture of alt and non-alt formats — the hash-as-array (`%a`) form, the parameter lists of Types and the init hashes of object types
included.
-/
namespace Pcore.Format

/-- `ctx.Subsequent()` on (level, indenting, nested): a context that would break the line becomes "first" -/
def subNested (L : Nat) (inh nested : Bool) : Bool := nested && !(inh && decide (L > 0))

theorem ctxSubsequent_eq (L : Nat) (inh nested : Bool) :
    (⟨!nested, inh, L⟩ : Ind).ctxSubsequent = ⟨!(subNested L inh nested), inh, L⟩ := by
  unfold Ind.ctxSubsequent Ind.breaks subNested
  cases nested <;> cases inh <;> by_cases h : L > 0 <;> simp [h]

theorem increase_eq (a b : Bool) (L : Nat) (alt : Bool) : (⟨a, b, L⟩ : Ind).increase alt = ⟨!false, alt, L + 1⟩ := by
  simp [Ind.increase]

mutual
/-- the pretty-printer of every kind -/
def refPPX {κ : Type} (ks : KeySys κ) (io : FloatIO) (m : GMap κ) (L : Nat) (inh nested : Bool) : XVal → Res
  | .undef => fmtUndef (getG ks m .undef).f
  | .dflt => fmtDefault (getG ks m .dflt).f
  | .bool b => fmtBool io (getG ks m (.bool b)).f b
  | .int i => fmtInt io (getG ks m (.int i)).f i
  | .float bits => fmtFloat io (getG ks m (.float bits)).f bits
  | .str s => fmtStr (getG ks m (.str s)).f s
  | .regexp src => fmtRegexp (getG ks m (.regexp src)).f src
  | .binary bs u => fmtBinary (getG ks m (.binary bs u)).f bs u
  | .semver t => fmtSemVer (getG ks m (.semver t)).f t
  | .semverRange t n => fmtSemVerRange (getG ks m (.semverRange t n)).f t n
  | .uri t => fmtUri (getG ks m (.uri t)).f t
  | .tspan ns => fmtTspan ns
  | .tstamp t => fmtTstamp t
  | .sensitive _ => fmtSensitive
  | .typ name params =>
    let t := getG ks m (.typ name params)
    if !isTypeLetter t.f.letter then .reported .unsupported
    else typeFinish t.f name
      (match params with
       | [] => .text []
       | p :: ps =>
         -- the parameter list: an Array at the same level; it starts a new line only if the Type itself would not have
         let ta := getG ks m (.array (p :: ps))
         if !isArrayLetter ta.f.letter then .reported .unsupported
         else match refPPXElems ks io m (cfOfG ks ta) (L + 1) ta.f.alt (p :: ps) with
           | .ok parts => .text (ppArray ta.f L inh (subNested L inh nested) parts)
           | .err e => e)
  | .talias name resolved =>
    let t := getG ks m (.talias name resolved)
    if name = "UnresolvedAlias".toList then .text "TypeAlias".toList
    else if !(t.f.alt && t.f.letter = 'b') then .text name
    else (refPPX ks io m L inh nested resolved).bind fun s => .text (name ++ " = ".toList ++ s)
  | .otype name ih =>
    let t := getG ks m (.otype name ih)
    if !isTypeLetter t.f.letter then .reported .unsupported
    else
      let body : Res :=
        if !name.isEmpty then .text name
        else
          (refPPXOEntries ks io m (cfOfG ks t) t.f L true ih).bind fun s =>
            .text ("Object[{".toList ++ s ++ (if t.f.alt then newLine L else []) ++ "}]".toList)
      typeFinish t.f [] body
  | .otypeX isDefault ih =>
    let t := getG ks m (.otypeX isDefault ih)
    if !isTypeLetter t.f.letter then .reported .unsupported
    else
      let body : Res :=
        if isDefault then .text "Object".toList
        else
          (refPPXOEntries ks io m (cfOfG ks t) t.f L true ih).bind fun s =>
            .text ("Object[{".toList ++ s ++ (if t.f.alt then newLine L else []) ++ "}]".toList)
      typeFinish t.f [] body
  | .obj name es =>
    if name.isEmpty then
      -- an instance of an anonymous type: the line break of the context, then the init hash as a Hash (which breaks the line again)
      let t := getG ks m (.hash es)
      let lead : Str := if inh && decide (L > 0) && nested then newLine L else []
      if t.f.letter = 'a' then
        let ta := getG ks m (.array (es.map XEntry.arr))
        if !isArrayLetter ta.f.letter then .reported .unsupported
        else match refPPXEntryArrs ks io (cfOfG ks ta) (L + 1) ta.f.alt es with
          | .ok parts => .text (lead ++ ppArray ta.f L inh nested parts)
          | .err e => e
      else if !isHashLetter t.f.letter then .reported .unsupported
      else match refPPXPairs ks io m (cfOfG ks t) (L + 1) t.f.alt es with
        | .ok parts => .text (lead ++ ppHash t.f L inh nested parts)
        | .err e => e
    else
    let t := getG ks m (.obj name es)
    if t.f.letter = 'a' then
      -- the init hash as the array of its entries: the name, then an Array that brings its own line break
      let ta := getG ks m (.array (es.map XEntry.arr))
      if !isArrayLetter ta.f.letter then .reported .unsupported
      else match refPPXEntryArrs ks io (cfOfG ks ta) (L + 1) ta.f.alt es with
        | .ok parts => .text ((if inh && decide (L > 0) && nested then newLine L else []) ++ name ++ ppArray ta.f L inh nested parts)
        | .err e => e
    else if !isHashLetter t.f.letter then .reported .unsupported
    else match refPPXPairs ks io m (cfOfG ks t) (L + 1) t.f.alt es with
      | .ok parts => .text (ppObj t.f L inh nested name parts)
      | .err e => e
  | .array vs =>
    let t := getG ks m (.array vs)
    if !isArrayLetter t.f.letter then .reported .unsupported
    else match refPPXElems ks io m (cfOfG ks t) (L + 1) t.f.alt vs with
      | .ok parts => .text (ppArray t.f L inh nested parts)
      | .err e => e
  | .hash es =>
    let t := getG ks m (.hash es)
    if t.f.letter = 'a' then
      let ta := getG ks m (.array (es.map XEntry.arr))
      if !isArrayLetter ta.f.letter then .reported .unsupported
      else match refPPXEntryArrs ks io (cfOfG ks ta) (L + 1) ta.f.alt es with
        | .ok parts => .text (ppArray ta.f L inh nested parts)
        | .err e => e
    else if !isHashLetter t.f.letter then .reported .unsupported
    else match refPPXPairs ks io m (cfOfG ks t) (L + 1) t.f.alt es with
      | .ok parts => .text (ppHash t.f L inh nested parts)
      | .err e => e

/-- the elements of an array at level `L`: never the first thing on their level -/
def refPPXElems {κ : Type} (ks : KeySys κ) (io : FloatIO) (m cf : GMap κ) (L : Nat) (inh : Bool) : List XVal → ResL (Str × Bool)
  | [] => .ok []
  | v :: vs => ResL.cons (refPPX ks io (if v.isContainer then m else cf) L inh true v) (fun s => (s, v.isContainer))
      (fun _ => refPPXElems ks io m cf L inh vs)

/-- the keys and values of a hash at level `L`: each the first thing after its indentation -/
def refPPXPairs {κ : Type} (ks : KeySys κ) (io : FloatIO) (m cf : GMap κ) (L : Nat) (inh : Bool) : List XEntry → ResL (Str × Str)
  | [] => .ok []
  | .mk k v :: es =>
    match refPPX ks io (if k.isContainer then m else cf) L inh false k with
    | .text sk => ResL.cons (refPPX ks io (if v.isContainer then m else cf) L inh false v) (fun sv => (sk, sv))
        (fun _ => refPPXPairs ks io m cf L inh es)
    | e => .err e

/-- the entries of a hash formatted with `a`, at level `L`: each entry the array `[k, v]` whose elements are at level `L + 1` -/
def refPPXEntryArrs {κ : Type} (ks : KeySys κ) (io : FloatIO) (m : GMap κ) (L : Nat) (inh : Bool) : List XEntry → ResL (Str × Bool)
  | [] => .ok []
  | .mk k v :: es =>
    let t := getG ks m (.array [k, v])
    let r : Res :=
      if !isArrayLetter t.f.letter then .reported .unsupported
      else
        match refPPX ks io (if k.isContainer then m else cfOfG ks t) (L + 1) t.f.alt true k with
        | .text sk =>
          (match refPPX ks io (if v.isContainer then m else cfOfG ks t) (L + 1) t.f.alt true v with
           | .text sv => .text (ppArray t.f L inh true [(sk, k.isContainer), (sv, v.isContainer)])
           | e => e)
        | e => e
    ResL.cons r (fun s => (s, false)) (fun _ => refPPXEntryArrs ks io m L inh es)

/-- the entries of the init hash of an anonymous object type written at level `L`: values at level `L + 1`, members at `L + 2` -/
def refPPXOEntries {κ : Type} (ks : KeySys κ) (io : FloatIO) (m cf : GMap κ) (f : Fmt) (L : Nat) (first : Bool) : List OEntry → Res
  | [] => .text []
  | .plain key v :: rest =>
    (refPPX ks io (if v.isContainer then m else cf) (L + 1) f.alt false v).bind fun sv =>
      (refPPXOEntries ks io m cf f L false rest).bind fun sr =>
        .text (otypeLead f first (spaces (2 * (L + 1))) ++ key ++ " => ".toList ++ sv ++ sr)
  | .members key ms :: rest =>
    (refPPXMembers ks io m f L true ms).bind fun s =>
      (refPPXOEntries ks io m cf f L false rest).bind fun sr =>
        .text (otypeLead f first (spaces (2 * (L + 1))) ++ key ++ " => ".toList ++
          (['{'] ++ s ++ (if f.alt then newLine (L + 1) else []) ++ ['}']) ++ sr)

def refPPXMembers {κ : Type} (ks : KeySys κ) (io : FloatIO) (m : GMap κ) (f : Fmt) (L : Nat) (first : Bool) : List XEntry → Res
  | [] => .text []
  | .mk k v :: rest =>
    let name : Str := match k with | .str s => s | _ => []
    (refPPX ks io m (L + 2) f.alt false v).bind fun sv =>
      (refPPXMembers ks io m f L false rest).bind fun sr =>
        .text (otypeLead f first (spaces (2 * (L + 2))) ++ puppetQuote name ++ " => ".toList ++ sv ++ sr)
end

theorem arrayOf_pp (f : Fmt) (L : Nat) (inh nested : Bool) (r : ResL (Str × Bool)) :
    arrayOf f ⟨!nested, inh, L⟩ r = (match r with | .ok parts => .text (ppArray f L inh nested parts) | .err e => e) := by
  cases r with
  | ok parts => simp only [arrayOf, arrayAssemble_pp]
  | err e => rfl

theorem hashOf_false_pp (f : Fmt) (L : Nat) (inh nested : Bool) (r : ResL (Str × Str)) :
    hashOf f ⟨!nested, inh, L⟩ false r = (match r with | .ok parts => .text (ppHash f L inh nested parts) | .err e => e) := by
  cases r with
  | ok parts => simp only [hashOf, hashAssembleD_false, hashAssemble_pp]
  | err e => rfl

theorem fmtPairsX_errOK {κ : Type} (ks : KeySys κ) (io : FloatIO) (m cf : GMap κ) (ci : Ind) : ∀ es, ErrOK (fmtPairsX ks io m cf ci es)
  | [] => by intro e he; simp [fmtPairsX] at he
  | .mk k v :: es => by
    simp only [fmtPairsX]
    split
    · exact errOK_cons _ _ _ (fmtPairsX_errOK ks io m cf ci es)
    · rename_i e hne
      intro e' he' s
      cases he'
      intro h; exact hne s h

theorem fmtEntryArrsX_errOK {κ : Type} (ks : KeySys κ) (io : FloatIO) (m : GMap κ) (ind : Ind) : ∀ es, ErrOK (fmtEntryArrsX ks io m ind es)
  | [] => by intro e he; simp [fmtEntryArrsX] at he
  | .mk k v :: es => by simp only [fmtEntryArrsX]; exact errOK_cons _ _ _ (fmtEntryArrsX_errOK ks io m ind es)

theorem obj_pp (f : Fmt) (L : Nat) (inh nested : Bool) (name : Str) (r : ResL (Str × Str)) (hr : ErrOK r) :
    (hashOf f ⟨!nested, inh, L⟩ true r).bind (fun s => .text ((if (⟨!nested, inh, L⟩ : Ind).breaks then '\n' :: (⟨!nested, inh, L⟩ : Ind).padding else []) ++ name ++ s)) =
      (match r with | .ok parts => .text (ppObj f L inh nested name parts) | .err e => e) := by
  cases r with
  | ok parts =>
    simp only [hashOf, Res.bind, hashAssembleD_paren_pp, ppObj, Ind.breaks, Ind.padding, newLine, Bool.not_not]
  | err e =>
    cases e with
    | text s => exact absurd rfl (hr _ rfl s)
    | reported c => simp [hashOf, Res.bind]
    | fault k => simp [hashOf, Res.bind]

theorem obj_arr_pp (f : Fmt) (L : Nat) (inh nested : Bool) (name : Str) (r : ResL (Str × Bool)) (hr : ErrOK r) :
    (arrayOf f ⟨!nested, inh, L⟩ r).bind (fun s => .text ((if (⟨!nested, inh, L⟩ : Ind).breaks then '\n' :: (⟨!nested, inh, L⟩ : Ind).padding else []) ++ name ++ s)) =
      (match r with
       | .ok parts => .text ((if inh && decide (L > 0) && nested then newLine L else []) ++ name ++ ppArray f L inh nested parts)
       | .err e => e) := by
  cases r with
  | ok parts =>
    simp only [arrayOf, Res.bind, arrayAssemble_pp, Ind.breaks, Ind.padding, newLine, Bool.not_not]
  | err e =>
    cases e with
    | text s => exact absurd rfl (hr _ rfl s)
    | reported c => simp [arrayOf, Res.bind]
    | fault k => simp [arrayOf, Res.bind]

theorem bind_congr (r : Res) (g1 g2 : Str → Res) (h : ∀ s, g1 s = g2 s) : r.bind g1 = r.bind g2 := by
  cases r <;> simp [Res.bind, h]

mutual
/-- **the extended model IS the pretty-printer**, every kind, any key system, any depth, any mixture of alt and non-alt formats -/
theorem fmtX_pp {κ : Type} (ks : KeySys κ) (io : FloatIO) : ∀ (v : XVal) (m : GMap κ) (L : Nat) (inh nested : Bool),
    fmtX ks io m ⟨!nested, inh, L⟩ v = refPPX ks io m L inh nested v
  | .undef, _, _, _, _ => rfl
  | .dflt, _, _, _, _ => rfl
  | .bool _, _, _, _, _ => rfl
  | .int _, _, _, _, _ => rfl
  | .float _, _, _, _, _ => rfl
  | .str _, _, _, _, _ => rfl
  | .regexp _, _, _, _, _ => rfl
  | .binary _ _, _, _, _, _ => rfl
  | .semver _, _, _, _, _ => rfl
  | .semverRange _ _, _, _, _, _ => rfl
  | .uri _, _, _, _, _ => rfl
  | .tspan _, _, _, _, _ => rfl
  | .tstamp _, _, _, _, _ => rfl
  | .sensitive _, _, _, _, _ => rfl
  | .typ name [], m, L, inh, nested => by simp only [fmtX, refPPX]
  | .typ name (p :: ps), m, L, inh, nested => by
    have ih := fmtElemsX_pp ks io (p :: ps) m (cfOfG ks (getG ks m (.array (p :: ps)))) (L + 1) (getG ks m (.array (p :: ps))).f.alt
    simp only [fmtX, refPPX, ctxSubsequent_eq, arrayChildInd_eq, arrayOf_pp, ih]
  | .talias name r, m, L, inh, nested => by
    simp only [fmtX, refPPX, fmtX_pp ks io r m L inh nested]
  | .otype name ih, m, L, inh, nested => by
    have h1 := otypeEntries_pp ks io ih m (cfOfG ks (getG ks m (.otype name ih))) (getG ks m (.otype name ih)).f L true
    rw [fmtX, refPPX]
    simp only [increase_eq, h1]
    rfl
  | .otypeX d ih, m, L, inh, nested => by
    have h1 := otypeEntries_pp ks io ih m (cfOfG ks (getG ks m (.otypeX d ih))) (getG ks m (.otypeX d ih)).f L true
    rw [fmtX, refPPX]
    simp only [increase_eq, h1]
    rfl
  | .obj name es, m, L, inh, nested => by
    have h1 := fmtPairsX_pp ks io es m (cfOfG ks (getG ks m (.obj name es))) (L + 1) (getG ks m (.obj name es)).f.alt
    have h1h := fmtPairsX_pp ks io es m (cfOfG ks (getG ks m (.hash es))) (L + 1) (getG ks m (.hash es)).f.alt
    have h2 := fmtEntryArrsX_pp ks io es (cfOfG ks (getG ks m (.array (es.map XEntry.arr)))) (L + 1)
      (getG ks m (.array (es.map XEntry.arr))).f.alt
    have hokA : ErrOK (refPPXEntryArrs ks io (cfOfG ks (getG ks m (.array (es.map XEntry.arr)))) (L + 1)
        (getG ks m (.array (es.map XEntry.arr))).f.alt es) := by rw [← h2]; exact fmtEntryArrsX_errOK ks io _ _ es
    simp only [fmtX, refPPX]
    split
    · -- anonymous
      rename_i hemp
      have hnm : name = [] := by cases name <;> simp at hemp ⊢
      subst hnm
      split
      · split
        · simp [Res.bind]
        · rw [arrayChildInd_eq, h2]
          cases hr : refPPXEntryArrs ks io (cfOfG ks (getG ks m (.array (es.map XEntry.arr)))) (L + 1)
              (getG ks m (.array (es.map XEntry.arr))).f.alt es with
          | ok parts => simp only [arrayOf, Res.bind, arrayAssemble_pp, Ind.breaks, Ind.padding, newLine, Bool.not_not, List.append_nil, List.nil_append]
          | err e =>
            cases e with
            | text s => exact absurd rfl (hokA _ hr s)
            | reported c => simp [arrayOf, Res.bind]
            | fault k => simp [arrayOf, Res.bind]
      · split
        · simp [Res.bind]
        · rw [hashChildInd_eq, h1h]
          have hok : ErrOK (refPPXPairs ks io m (cfOfG ks (getG ks m (.hash es))) (L + 1) (getG ks m (.hash es)).f.alt es) := by
            rw [← h1h]; exact fmtPairsX_errOK ks io m _ _ es
          cases hr : refPPXPairs ks io m (cfOfG ks (getG ks m (.hash es))) (L + 1) (getG ks m (.hash es)).f.alt es with
          | ok parts =>
            simp only [hashOf, Res.bind, hashAssembleD_false, hashAssemble_pp, Ind.breaks, Ind.padding, newLine, Bool.not_not, List.append_nil, List.nil_append]
          | err e =>
            cases e with
            | text s => exact absurd rfl (hok _ hr s)
            | reported c => simp [hashOf, Res.bind]
            | fault k => simp [hashOf, Res.bind]
    · split
      · split
        · simp [Res.bind]
        · rw [arrayChildInd_eq, h2]
          cases hr : refPPXEntryArrs ks io (cfOfG ks (getG ks m (.array (es.map XEntry.arr)))) (L + 1)
              (getG ks m (.array (es.map XEntry.arr))).f.alt es with
          | ok parts => simp only [arrayOf, Res.bind, arrayAssemble_pp, Ind.breaks, Ind.padding, newLine, Bool.not_not]
          | err e =>
            cases e with
            | text s => exact absurd rfl (hokA _ hr s)
            | reported c => simp [arrayOf, Res.bind]
            | fault k => simp [arrayOf, Res.bind]
      · split
        · simp [Res.bind]
        · rw [hashChildInd_eq, h1]
          have hok : ErrOK (refPPXPairs ks io m (cfOfG ks (getG ks m (.obj name es))) (L + 1) (getG ks m (.obj name es)).f.alt es) := by
            rw [← h1]; exact fmtPairsX_errOK ks io m _ _ es
          cases hr : refPPXPairs ks io m (cfOfG ks (getG ks m (.obj name es))) (L + 1) (getG ks m (.obj name es)).f.alt es with
          | ok parts => simp only [hashOf, Res.bind, hashAssembleD_paren_pp, ppObj, Ind.breaks, Ind.padding, newLine, Bool.not_not]
          | err e =>
            cases e with
            | text s => exact absurd rfl (hok _ hr s)
            | reported c => simp [hashOf, Res.bind]
            | fault k => simp [hashOf, Res.bind]
  | .array vs, m, L, inh, nested => by
    have ih := fmtElemsX_pp ks io vs m (cfOfG ks (getG ks m (.array vs))) (L + 1) (getG ks m (.array vs)).f.alt
    simp only [fmtX, refPPX, arrayChildInd_eq, arrayOf_pp, ih]
  | .hash es, m, L, inh, nested => by
    have h1 := fmtPairsX_pp ks io es m (cfOfG ks (getG ks m (.hash es))) (L + 1) (getG ks m (.hash es)).f.alt
    have h2 := fmtEntryArrsX_pp ks io es (cfOfG ks (getG ks m (.array (es.map XEntry.arr)))) (L + 1)
      (getG ks m (.array (es.map XEntry.arr))).f.alt
    simp only [fmtX, refPPX, arrayChildInd_eq, hashChildInd_eq, arrayOf_pp, hashOf_false_pp, h1, h2]

theorem fmtElemsX_pp {κ : Type} (ks : KeySys κ) (io : FloatIO) : ∀ (vs : List XVal) (m cf : GMap κ) (L : Nat) (inh : Bool),
    fmtElemsX ks io m cf ⟨!true, inh, L⟩ vs = refPPXElems ks io m cf L inh vs
  | [], _, _, _, _ => by simp [fmtElemsX, refPPXElems]
  | v :: vs, m, cf, L, inh => by
    simp only [fmtElemsX, refPPXElems, fmtX_pp ks io v _ L inh true]
    exact cons_congr _ _ _ _ (fmtElemsX_pp ks io vs m cf L inh)

theorem fmtPairsX_pp {κ : Type} (ks : KeySys κ) (io : FloatIO) : ∀ (es : List XEntry) (m cf : GMap κ) (L : Nat) (inh : Bool),
    fmtPairsX ks io m cf ⟨!false, inh, L⟩ es = refPPXPairs ks io m cf L inh es
  | [], _, _, _, _ => by simp [fmtPairsX, refPPXPairs]
  | .mk k v :: es, m, cf, L, inh => by
    simp only [fmtPairsX, refPPXPairs, fmtX_pp ks io k _ L inh false, fmtX_pp ks io v _ L inh false, fmtPairsX_pp ks io es m cf L inh]
    cases refPPX ks io (if k.isContainer = true then m else cf) L inh false k <;> rfl

theorem fmtEntryArrsX_pp {κ : Type} (ks : KeySys κ) (io : FloatIO) : ∀ (es : List XEntry) (m : GMap κ) (L : Nat) (inh : Bool),
    fmtEntryArrsX ks io m ⟨!true, inh, L⟩ es = refPPXEntryArrs ks io m L inh es
  | [], _, _, _ => by simp [fmtEntryArrsX, refPPXEntryArrs]
  | .mk k v :: es, m, L, inh => by
    simp only [fmtEntryArrsX, refPPXEntryArrs, arrayChildInd_eq, fmtX_pp ks io k _ (L + 1) _ true, fmtX_pp ks io v _ (L + 1) _ true,
      arrayAssemble_pp]
    exact cons_congr _ _ _ _ (fmtEntryArrsX_pp ks io es m L inh)

theorem otypeEntries_pp {κ : Type} (ks : KeySys κ) (io : FloatIO) : ∀ (es : List OEntry) (m cf : GMap κ) (f : Fmt) (L : Nat) (first : Bool),
    otypeEntries ks io m cf f ⟨!false, f.alt, L + 1⟩ ⟨!false, f.alt, L + 1 + 1⟩ first es = refPPXOEntries ks io m cf f L first es
  | [], _, _, _, _, _ => by simp [otypeEntries, refPPXOEntries]
  | .plain key v :: rest, m, cf, f, L, first => by
    simp only [otypeEntries, refPPXOEntries, fmtX_pp ks io v _ (L + 1) f.alt false, otypeEntries_pp ks io rest m cf f L false, Ind.padding]
  | .members key ms :: rest, m, cf, f, L, first => by
    simp only [otypeEntries, refPPXOEntries, otypeMembers_pp ks io ms m f L true, otypeEntries_pp ks io rest m cf f L false,
      Ind.padding, newLine]

theorem otypeMembers_pp {κ : Type} (ks : KeySys κ) (io : FloatIO) : ∀ (es : List XEntry) (m : GMap κ) (f : Fmt) (L : Nat) (first : Bool),
    otypeMembers ks io m f ⟨!false, f.alt, L + 1 + 1⟩ first es = refPPXMembers ks io m f L first es
  | [], _, _, _, _ => by simp [otypeMembers, refPPXMembers]
  | .mk k v :: rest, m, f, L, first => by
    simp only [otypeMembers, refPPXMembers, fmtX_pp ks io v m (L + 2) f.alt false, otypeMembers_pp ks io rest m f L false, Ind.padding]
    rfl
end


end Pcore.Format
