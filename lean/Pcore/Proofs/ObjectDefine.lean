import Pcore.Proofs.Object
/-! C17: what `define` (objectType.InitFromHash) establishes — the layout invariant `WF` of every accepted definition. -/
namespace Pcore.Object

/-- a given_or_derived attribute has no declared value (its implicit one is `undef`) -/
def AttrGod (a : Attr) : Prop := a.kind = .givenOrDerived → ∀ v, a.value = some v → v = .undef

theorem mkAttr_core {d : AttrDecl} {a : Attr} (h : mkAttr d = .ok a) :
    mkAttrCore d = .ok a ∧ ¬(d.kind = .constant ∧ d.final = some false) := by
  unfold mkAttr at h
  split at h
  · cases h
  · rename_i hc
    exact ⟨h, by simpa using hc⟩

theorem mkAttrCore_name {d : AttrDecl} {a : Attr} (h : mkAttrCore d = .ok a) : a.name = d.name := by
  unfold mkAttrCore at h
  cases hd : d.dflt with
  | some v =>
    simp only [hd] at h
    split at h
    · cases h
    · split at h
      · cases h; rfl
      · cases h
  | none =>
    simp only [hd] at h
    split at h
    · cases h
    · cases h; rfl

theorem mkAttr_name {d : AttrDecl} {a : Attr} (h : mkAttr d = .ok a) : a.name = d.name :=
  mkAttrCore_name (mkAttr_core h).1

theorem mkAttrCore_fields {d : AttrDecl} {a : Attr} (h : mkAttrCore d = .ok a) :
    a.kind = d.kind ∧ a.override = d.override ∧ a.final = d.isFinal := by
  unfold mkAttrCore at h
  cases hd : d.dflt with
  | some v =>
    simp only [hd] at h
    split at h
    · cases h
    · split at h
      · cases h; exact ⟨rfl, rfl, rfl⟩
      · cases h
  | none =>
    simp only [hd] at h
    split at h
    · cases h
    · cases h; exact ⟨rfl, rfl, rfl⟩

theorem mkAttr_kind_override {d : AttrDecl} {a : Attr} (h : mkAttr d = .ok a) : a.kind = d.kind ∧ a.override = d.override :=
  ⟨(mkAttrCore_fields (mkAttr_core h).1).1, (mkAttrCore_fields (mkAttr_core h).1).2.1⟩

theorem mkAttrCore_god {d : AttrDecl} {a : Attr} (h : mkAttrCore d = .ok a) : AttrGod a := by
  unfold mkAttrCore at h
  cases hd : d.dflt with
  | some v =>
    simp only [hd] at h
    split at h
    · cases h
    · rename_i hk
      split at h
      · cases h
        intro hg
        simp only at hg
        simp [hg] at hk
      · cases h
  | none =>
    simp only [hd] at h
    split at h
    · cases h
    · cases h
      intro _ v hv
      simp only at hv
      split at hv
      · cases hv; rfl
      · cases hv

theorem mkAttr_god {d : AttrDecl} {a : Attr} (h : mkAttr d = .ok a) : AttrGod a := mkAttrCore_god (mkAttr_core h).1

/-! ### findAttr / eachAttribute -/

theorem find_some_mem {l : List Attr} {n : String} {a : Attr} (h : l.find? (fun a => a.name == n) = some a) :
    a ∈ l ∧ a.name = n := by
  have h1 := List.mem_of_find?_eq_some h
  have h2 := List.find?_some h
  exact ⟨h1, by simpa using h2⟩

/-- the overriding attribute, if any, else the inherited one -/
def repl (own : List Attr) (a : Attr) : Attr := (own.find? (fun b => b.name == a.name)).getD a

theorem repl_name (own : List Attr) (a : Attr) : (repl own a).name = a.name := by
  unfold repl
  cases hf : own.find? (fun b => b.name == a.name) with
  | none => rfl
  | some b => exact (find_some_mem hf).2

theorem eachAttribute_cons (l : Level) (p : OType) :
    eachAttribute (l :: p) = (eachAttribute p).map (repl l.attrs) ++
      l.attrs.filter (fun b => !(eachAttribute p).any (fun a => a.name == b.name)) := rfl

theorem findAttr_some {p : OType} {n : String} {a : Attr} (h : findAttr p n = some a) :
    a ∈ eachAttribute p ∧ a.name = n := by
  induction p with
  | nil => simp [findAttr] at h
  | cons l q ih =>
    unfold findAttr at h
    rw [eachAttribute_cons]
    cases hf : l.attrs.find? (fun a => a.name == n) with
    | some b =>
      simp only [hf] at h
      cases h
      obtain ⟨h1, h2⟩ := find_some_mem hf
      refine ⟨?_, h2⟩
      rw [List.mem_append]
      by_cases hex : ∃ x ∈ eachAttribute q, x.name = a.name
      · left
        obtain ⟨x, hx, hxn⟩ := hex
        rw [List.mem_map]
        refine ⟨x, hx, ?_⟩
        unfold repl
        rw [hxn, h2, hf]; rfl
      · right
        rw [List.mem_filter]
        refine ⟨h1, ?_⟩
        simp only [Bool.not_eq_true', List.any_eq_false, beq_iff_eq]
        intro x hx hxn
        exact hex ⟨x, hx, hxn⟩
    | none =>
      simp only [hf] at h
      obtain ⟨h1, h2⟩ := ih h
      refine ⟨?_, h2⟩
      rw [List.mem_append]
      left
      rw [List.mem_map]
      refine ⟨a, h1, ?_⟩
      unfold repl
      rw [h2, hf]; rfl

theorem findAttr_none {p : OType} {n : String} (h : findAttr p n = none) : ∀ a ∈ eachAttribute p, a.name ≠ n := by
  induction p with
  | nil => simp [eachAttribute]
  | cons l q ih =>
    unfold findAttr at h
    cases hf : l.attrs.find? (fun a => a.name == n) with
    | some b => simp [hf] at h
    | none =>
      simp only [hf] at h
      intro a ha
      rw [eachAttribute_cons, List.mem_append] at ha
      rcases ha with ha | ha
      · rw [List.mem_map] at ha
        obtain ⟨x, hx, rfl⟩ := ha
        rw [repl_name]
        exact ih h x hx
      · rw [List.mem_filter] at ha
        have := List.find?_eq_none.mp hf a ha.1
        simpa using this

theorem findAttr_cons (l : Level) (p : OType) (n : String) : findAttr (l :: p) n = lookupMember l.attrs p n := by
  simp [findAttr, lookupMember]

/-! ### defineAttrs -/

theorem defineAttrs_ok {parent : OType} {ds : List AttrDecl} {as : List Attr} (h : defineAttrs parent ds = .ok as) :
    as.map (·.name) = ds.map (·.name) ∧ (∀ a ∈ as, AttrGod a) := by
  induction ds generalizing as with
  | nil => simp [defineAttrs] at h; subst h; simp
  | cons d ds ih =>
    unfold defineAttrs at h
    cases hm : mkAttr d with
    | error c => simp [hm] at h
    | ok a =>
      simp only [hm] at h
      cases ho : assertOverride parent a with
      | error c => simp [ho] at h
      | ok u =>
        simp only [ho] at h
        cases hr : defineAttrs parent ds with
        | error c => simp [hr] at h
        | ok as' =>
          simp only [hr] at h
          cases h
          obtain ⟨h1, h2⟩ := ih hr
          refine ⟨by simp [h1, mkAttr_name hm], ?_⟩
          intro b hb
          simp at hb
          rcases hb with hb | hb
          · subst hb; exact mkAttr_god hm
          · exact h2 b hb

/-! ### the equality / serialization loops with functions in sight -/

theorem takeWhile_self_of_length {α} {p : α → Bool} {l : List α} (h : ¬ (l.takeWhile p).length < l.length) :
    l.takeWhile p = l :=
  (List.takeWhile_prefix p).eq_of_length (by have := (List.takeWhile_prefix p (l := l)).length_le; omega)

theorem takeWhile_eq_self {α} {p : α → Bool} {l : List α} : l.takeWhile p = l ↔ ∀ x ∈ l, p x = true := by
  induction l with
  | nil => simp
  | cons a as ih =>
    by_cases hp : p a = true
    · simp [List.takeWhile_cons, hp, ih]
    · simp [List.takeWhile_cons, hp]

theorem checkEqualityF_ok {own : List Attr} {ownF : List FnDecl} {parent : OType} {l : List String}
    (h : checkEqualityF own ownF parent l = .ok ()) :
    (∀ n ∈ l, isFnName own ownF parent n = false) ∧ checkEquality own parent l = .ok () := by
  unfold checkEqualityF at h
  simp only at h
  cases hc : checkEquality own parent (l.takeWhile (fun n => !isFnName own ownF parent n)) with
  | error c => simp [hc] at h
  | ok u =>
    simp only [hc] at h
    split at h
    · cases h
    · rename_i hlen
      have hself := takeWhile_self_of_length hlen
      rw [hself] at hc
      refine ⟨?_, hc⟩
      intro n hn
      have := takeWhile_eq_self.mp hself n hn
      simpa using this

theorem checkEqualityF_of {own : List Attr} {ownF : List FnDecl} {parent : OType} {l : List String}
    (h : ∀ n ∈ l, isFnName own ownF parent n = false) :
    checkEqualityF own ownF parent l = checkEquality own parent l := by
  have hself : l.takeWhile (fun n => !isFnName own ownF parent n) = l :=
    takeWhile_eq_self.mpr (fun n hn => by simp [h n hn])
  unfold checkEqualityF
  simp only [hself, Nat.lt_irrefl, if_false]
  cases checkEquality own parent l <;> rfl

theorem checkSerializationF_ok {own : List Attr} {ownF : List FnDecl} {parent : OType} {l : List String}
    (h : checkSerializationF own ownF parent l = .ok ()) :
    (∀ n ∈ l, isFnName own ownF parent n = false) ∧ checkSerialization own parent false [] l = .ok () := by
  unfold checkSerializationF at h
  simp only at h
  cases hc : checkSerialization own parent false [] (l.takeWhile (fun n => !isFnName own ownF parent n)) with
  | error c => simp [hc] at h
  | ok u =>
    simp only [hc] at h
    split at h
    · cases h
    · rename_i hlen
      have hself := takeWhile_self_of_length hlen
      rw [hself] at hc
      refine ⟨?_, hc⟩
      intro n hn
      have := takeWhile_eq_self.mp hself n hn
      simpa using this

theorem checkSerializationF_of {own : List Attr} {ownF : List FnDecl} {parent : OType} {l : List String}
    (h : ∀ n ∈ l, isFnName own ownF parent n = false) :
    checkSerializationF own ownF parent l = checkSerialization own parent false [] l := by
  have hself : l.takeWhile (fun n => !isFnName own ownF parent n) = l :=
    takeWhile_eq_self.mpr (fun n hn => by simp [h n hn])
  unfold checkSerializationF
  simp only [hself, Nat.lt_irrefl, if_false]
  cases checkSerialization own parent false [] l <;> rfl

/-! ### types as `define` leaves them -/

structure TypeOK (t : OType) : Prop where
  nodup : ((eachAttribute t).map (·.name)).Nodup
  god : ∀ a ∈ eachAttribute t, AttrGod a

theorem typeOK_nil : TypeOK [] := ⟨by simp [eachAttribute], by simp [eachAttribute]⟩

theorem define_ok {env : List OType} {d : Def} {t : OType} (h : define env d = .ok t) :
    d.constants.any (fun c => d.attrs.any (fun a => a.name == c.1)) = false ∧
    ∃ attrs, defineAttrs (parentOf env d) (d.decls (parentOf env d)) = .ok attrs ∧
      checkSerialization attrs (parentOf env d) false [] (d.serialization.getD []) = .ok () ∧
      t = { id := env.length, attrs := attrs, equality := d.equality.toList?,
            includeType := d.includeType.getD true, serialization := d.serialization, params := d.params,
            funcs := d.funcs } ::
          parentOf env d := by
  unfold define at h
  generalize parentOf env d = parent at h ⊢
  simp only at h
  split at h
  · cases h
  split at h
  · cases h
  · rename_i hboth
    refine ⟨Bool.eq_false_iff.mpr hboth, ?_⟩
    cases ha : defineAttrs parent (d.decls parent) with
    | error c => simp [ha] at h
    | ok attrs =>
      simp only [ha] at h
      cases hfn : defineFuncs parent (d.attrs.map (·.name)) d.funcs with
      | error c => simp [hfn] at h
      | ok u0 =>
      simp only [hfn] at h
      cases he : checkEqualityF attrs d.funcs parent (d.equality.toList?.getD []) with
      | error c => simp [he] at h
      | ok u =>
        simp only [he] at h
        cases hs : checkSerializationF attrs d.funcs parent (d.serialization.getD []) with
        | error c => simp [hs] at h
        | ok u' =>
          simp only [hs] at h
          cases h
          exact ⟨attrs, rfl, (checkSerializationF_ok hs).2, rfl⟩

/-- the names of the attribute specifications are distinct: `attributes` and `constants` are hash literals (distinct keys
    each) and a name in both is refused (BOTH_CONSTANT_AND_ATTRIBUTE) -/
theorem decls_nodup {d : Def} {parent : OType} (ha : (d.attrs.map (·.name)).Nodup)
    (hc : (d.constants.map (·.1)).Nodup)
    (hboth : d.constants.any (fun c => d.attrs.any (fun a => a.name == c.1)) = false) :
    ((d.decls parent).map (·.name)).Nodup := by
  unfold Def.decls
  rw [List.map_append, List.map_map, List.nodup_append]
  have hnames : ((fun x => x.name) ∘ constDecl parent) = fun c => c.1 := by funext c; rfl
  rw [hnames]
  refine ⟨ha, hc, ?_⟩
  intro x hx y hy hxy
  simp only [List.mem_map] at hx hy
  obtain ⟨a, ha', rfl⟩ := hx
  obtain ⟨c, hc', rfl⟩ := hy
  have h1 := (List.any_eq_false.mp hboth) c hc'
  have h2 : d.attrs.any (fun a => a.name == c.1) = false := by simpa using h1
  have h3 := (List.any_eq_false.mp h2) a ha'
  simp at h3
  exact h3 hxy

theorem typeOK_cons {l : Level} {p : OType} (hp : TypeOK p) (hnd : (l.attrs.map (·.name)).Nodup)
    (hg : ∀ a ∈ l.attrs, AttrGod a) : TypeOK (l :: p) := by
  constructor
  · rw [eachAttribute_cons, List.map_append, List.map_map]
    have hnames : (fun x => x.name) ∘ repl l.attrs = fun x => x.name := by
      funext a; exact repl_name l.attrs a
    rw [hnames, List.nodup_append]
    refine ⟨hp.nodup, (List.filter_sublist.map _).nodup hnd, ?_⟩
    intro x hx y hy hxy
    simp only [List.mem_map, List.mem_filter] at hx hy
    obtain ⟨a, ha, rfl⟩ := hx
    obtain ⟨b, ⟨_, hb⟩, rfl⟩ := hy
    simp only [Bool.not_eq_true', List.any_eq_false, beq_iff_eq] at hb
    exact hb a ha hxy
  · intro a ha
    rw [eachAttribute_cons, List.mem_append] at ha
    rcases ha with ha | ha
    · rw [List.mem_map] at ha
      obtain ⟨x, hx, rfl⟩ := ha
      unfold repl
      cases hf : l.attrs.find? (fun b => b.name == x.name) with
      | none => exact hp.god x hx
      | some b => exact hg b (find_some_mem hf).1
    · rw [List.mem_filter] at ha
      exact hg a ha.1

/-! ### the layout invariant -/

/-- required attributes first, then optional ones -/
def Split (l : List Attr) : Prop :=
  ∃ rq op, l = rq ++ op ∧ (∀ a ∈ rq, a.optional = false) ∧ (∀ a ∈ op, a.optional = true)

theorem tailOpt_of_split {l : List Attr} (h : Split l) : TailOpt l ((l.filter (fun a => !a.optional)).length) := by
  obtain ⟨rq, op, rfl, hr, ho⟩ := h
  have h1 : rq.filter (fun a => !a.optional) = rq := by
    rw [List.filter_eq_self]; intro a ha; simp [hr a ha]
  have h2 : op.filter (fun a => !a.optional) = [] := by
    rw [List.filter_eq_nil_iff]; intro a ha; simp [ho a ha]
  rw [List.filter_append, h1, h2, List.append_nil]
  intro i a hi hge
  rw [List.getElem?_append_right hge] at hi
  exact ho a (List.mem_of_getElem? hi)

theorem checkSerialization_split {own : List Attr} {parent : OType} {b : Bool} {seen ser : List String}
    (h : checkSerialization own parent b seen ser = .ok ()) :
    (b = true → ∀ a ∈ ser.filterMap (lookupMember own parent), a.optional = true) ∧
      Split (ser.filterMap (lookupMember own parent)) ∧ ser.Nodup ∧ ∀ n ∈ ser, n ∉ seen := by
  induction ser generalizing b seen with
  | nil => exact ⟨by simp, ⟨[], [], by simp, by simp, by simp⟩, by simp, by simp⟩
  | cons n ns ih =>
    unfold checkSerialization at h
    cases hl : lookupMember own parent n with
    | none => simp [hl] at h
    | some a =>
      simp only [hl] at h
      split at h
      · cases h
      · split at h
        · cases h
        · rename_i hrao
          split at h
          · cases h
          · rename_i hseen
            obtain ⟨hall, hsplit, hnd, hdisj⟩ := ih h
            have hn_ns : n ∉ ns := fun hmem => hdisj n hmem (by simp)
            have hnotseen : n ∉ seen := by simpa using hseen
            have hnd' : (n :: ns).Nodup := List.nodup_cons.mpr ⟨hn_ns, hnd⟩
            have hdisj' : ∀ m ∈ n :: ns, m ∉ seen := by
              intro m hm
              simp only [List.mem_cons] at hm
              rcases hm with rfl | hm
              · exact hnotseen
              · intro hms; exact hdisj m hm (by simp [hms])
            by_cases hopt : a.optional = true
            · have hall' := hall (by simp [hopt])
              have hmem : ∀ x ∈ (n :: ns).filterMap (lookupMember own parent), x.optional = true := by
                intro x hx
                simp only [List.filterMap_cons, hl, List.mem_cons] at hx
                rcases hx with hx | hx
                · subst hx; exact hopt
                · exact hall' x hx
              exact ⟨fun _ => hmem, ⟨[], _, by simp, by simp, hmem⟩, hnd', hdisj'⟩
            · have hb : b = false := by
                cases b with
                | false => rfl
                | true => simp [hopt] at hrao
              obtain ⟨rq, op, heq, hr, ho⟩ := hsplit
              have hbt : b = true → ∀ x ∈ (n :: ns).filterMap (lookupMember own parent), x.optional = true := by
                intro hb'; rw [hb] at hb'; cases hb'
              refine ⟨hbt, ⟨a :: rq, op, ?_, ?_, ho⟩, hnd', hdisj'⟩
              · simp only [List.filterMap_cons, hl, heq, List.cons_append]
              · intro x hx
                simp only [List.mem_cons] at hx
                rcases hx with hx | hx
                · subst hx; simpa using hopt
                · exact hr x hx

theorem nodup_map_inj {l : List Attr} (h : (l.map (·.name)).Nodup) {a b : Attr} (ha : a ∈ l) (hb : b ∈ l)
    (hab : a.name = b.name) : a = b := by
  induction l with
  | nil => simp at ha
  | cons c cs ih =>
    simp only [List.map_cons, List.nodup_cons, List.mem_map, not_exists, not_and] at h
    simp only [List.mem_cons] at ha hb
    rcases ha with ha | ha <;> rcases hb with hb | hb
    · rw [ha, hb]
    · subst ha; exact absurd hab.symm (h.1 b hb)
    · subst hb; exact absurd hab (h.1 a ha)
    · exact ih h.2 ha hb

theorem names_filterMap_lookup (own : List Attr) (p : OType) (ser : List String) :
    (ser.filterMap (lookupMember own p)).map (·.name) = ser.filter (fun n => (lookupMember own p n).isSome) := by
  induction ser with
  | nil => rfl
  | cons n ns ih =>
    cases hl : lookupMember own p n with
    | none => simp [List.filterMap_cons, hl, ih]
    | some a =>
      have hn : a.name = n := by
        have : findAttr ({ id := 0, attrs := own, equality := none, includeType := true, serialization := none } :: p) n = some a := by
          rw [findAttr_cons]; exact hl
        exact (findAttr_some this).2
      simp [List.filterMap_cons, hl, ih, hn]

theorem nodup_map_filter {l : List Attr} (p : Attr → Bool) (h : (l.map (·.name)).Nodup) :
    ((l.filter p).map (·.name)).Nodup :=
  (List.filter_sublist.map _).nodup h

theorem posAttrs_mem_each {t : OType} {a : Attr} (h : a ∈ posAttrs t) : a ∈ eachAttribute t := by
  cases t with
  | nil => simp [posAttrs] at h
  | cons l p =>
    unfold posAttrs at h
    cases hs : l.serialization with
    | none =>
      simp only [hs, List.mem_append, List.mem_filter] at h
      rcases h with h | h <;> exact h.1.1
    | some ser =>
      simp only [hs, List.mem_filterMap] at h
      obtain ⟨n, _, hn⟩ := h
      exact (findAttr_some hn).1

/-- every type without a `serialization` list whose attribute names are distinct satisfies the layout invariant -/
theorem wf_noSerialization {l : Level} {p : OType} (hok : TypeOK (l :: p)) (hs : l.serialization = none) : WF (l :: p) := by
  have hpos : posAttrs (l :: p) =
      ((eachAttribute (l :: p)).filter Attr.settable).filter (fun a => !a.optional) ++
      ((eachAttribute (l :: p)).filter Attr.settable).filter (fun a => a.optional) := by
    simp [posAttrs, hs]
  refine ⟨?_, ?_, ?_⟩
  · rw [hpos, List.map_append, List.nodup_append]
    have hset := nodup_map_filter Attr.settable hok.nodup
    refine ⟨nodup_map_filter _ hset, nodup_map_filter _ hset, ?_⟩
    intro x hx y hy hxy
    simp only [List.mem_map, List.mem_filter] at hx hy
    obtain ⟨a, ⟨⟨ha, _⟩, hao⟩, rfl⟩ := hx
    obtain ⟨b, ⟨⟨hb, _⟩, hbo⟩, rfl⟩ := hy
    have : a = b := nodup_map_inj hok.nodup ha hb hxy
    subst this
    simp [hbo] at hao
  · unfold requiredCount
    apply tailOpt_of_split
    rw [hpos]
    exact ⟨_, _, rfl, by intro a ha; simp only [List.mem_filter] at ha; simpa using ha.2,
      by intro a ha; simp only [List.mem_filter] at ha; exact ha.2⟩
  · intro a ha
    exact hok.god a (posAttrs_mem_each ha)

/-- a type with a `serialization` list that passed `checkSerialization` (which also refuses a repeated name) -/
theorem wf_serialization {l : Level} {p : OType} {ser : List String} (hok : TypeOK (l :: p))
    (hs : l.serialization = some ser)
    (hc : checkSerialization l.attrs p false [] ser = .ok ()) : WF (l :: p) := by
  have hpos : posAttrs (l :: p) = ser.filterMap (lookupMember l.attrs p) := by
    simp only [posAttrs, hs]
    congr 1
  obtain ⟨_, hsplit, hnd, _⟩ := checkSerialization_split hc
  refine ⟨?_, ?_, ?_⟩
  · rw [hpos]
    have := names_filterMap_lookup l.attrs p ser
    rw [this]
    exact hnd.filter _
  · unfold requiredCount
    apply tailOpt_of_split
    rw [hpos]
    exact hsplit
  · intro a ha
    exact hok.god a (posAttrs_mem_each ha)

/-- every definition accepted by `define` over an environment of accepted definitions satisfies the layout invariant
    (own attribute names distinct: a hash literal — what the universe of the driver guarantees) -/
theorem define_wf {env : List OType} {d : Def} {t : OType} (henv : ∀ t' ∈ env, TypeOK t')
    (hnd : (d.attrs.map (·.name)).Nodup) (hcn : (d.constants.map (·.1)).Nodup) (h : define env d = .ok t) :
    TypeOK t ∧ WF t := by
  obtain ⟨hboth, attrs, hattrs, hcs, ht⟩ := define_ok h
  have hparent : TypeOK (parentOf env d) := by
    unfold parentOf
    cases hp : d.parent with
    | none => exact typeOK_nil
    | some j =>
      simp only
      cases hj : env[j]? with
      | none => simp; exact typeOK_nil
      | some t' => simp; exact henv t' (List.mem_of_getElem? hj)
  obtain ⟨h1, h2⟩ := defineAttrs_ok hattrs
  subst ht
  have hok := typeOK_cons
    (l := ⟨env.length, attrs, d.equality.toList?, d.includeType.getD true, d.serialization, d.params, d.funcs⟩)
    hparent (by rw [h1]; exact decls_nodup hnd hcn hboth) h2
  refine ⟨hok, ?_⟩
  rcases Option.eq_none_or_eq_some d.serialization with hs | ⟨ser, hs⟩
  · exact wf_noSerialization hok hs
  · exact wf_serialization hok hs (by simpa [hs] using hcs)

/-! ### accepted definitions: `define` succeeds on every well-formed definition -/

/-- a declared attribute that is well-formed on its own (attribute.initialize raises nothing) -/
def AttrDeclOK (d : AttrDecl) : Prop :=
  ¬(d.kind = .constant ∧ d.final = some false) ∧
  match d.dflt with
  | some v => d.kind ≠ .derived ∧ d.kind ≠ .givenOrDerived ∧ inst d.ty v = true
  | none => d.kind ≠ .constant

theorem mkAttr_succeeds {d : AttrDecl} (h : AttrDeclOK d) : ∃ a, mkAttr d = .ok a := by
  obtain ⟨hfin, h⟩ := h
  have hc : (d.kind == Kind.constant && d.final == some false) = false := by simpa using hfin
  unfold mkAttr
  simp only [hc, Bool.false_eq_true, if_false]
  unfold mkAttrCore
  cases hd : d.dflt with
  | some v =>
    simp only [hd] at h ⊢
    obtain ⟨h1, h2, h3⟩ := h
    simp [h1, h2, h3]
  | none =>
    simp only [hd] at h ⊢
    simp [h]

/-- the declared attribute may stand where it stands: a fresh name without `override`, or a proper override (a final
    member — every constant is final — is overridden only constant by constant; the type may only narrow) -/
def OverrideOK (parent : OType) (d : AttrDecl) : Prop :=
  fnShadow parent d.name = false ∧
  match findAttr parent d.name with
  | none => d.override = false
  | some pa => d.override = true ∧ (pa.final = true → pa.kind = .constant ∧ d.kind = .constant) ∧
      ∀ a, mkAttr d = .ok a → asg pa.ty a.ty = true

theorem assertOverride_succeeds {parent : OType} {d : AttrDecl} {a : Attr} (h : OverrideOK parent d)
    (ha : mkAttr d = .ok a) : assertOverride parent a = .ok () := by
  obtain ⟨hk, ho⟩ := mkAttr_kind_override ha
  unfold OverrideOK at h
  obtain ⟨hsh, h⟩ := h
  unfold assertOverride
  rw [mkAttr_name ha]
  simp only [hsh, Bool.false_eq_true, if_false]
  cases hf : findAttr parent d.name with
  | none =>
    simp only [hf] at h
    simp [ho, h]
  | some pa =>
    simp only [hf] at h
    obtain ⟨h1, h2, h3⟩ := h
    have hfin : (pa.final && !(pa.kind == Kind.constant && a.kind == Kind.constant)) = false := by
      by_cases hc : pa.final = true
      · obtain ⟨hp, hdk⟩ := h2 hc
        simp [hk, hp, hdk]
      · simp [hc]
    simp only [hfin, ho, h1, h3 a ha, Bool.false_eq_true, if_false, Bool.not_true]

theorem defineAttrs_succeeds {parent : OType} {ds : List AttrDecl} (hok : ∀ d ∈ ds, AttrDeclOK d)
    (hov : ∀ d ∈ ds, OverrideOK parent d) : ∃ as, defineAttrs parent ds = .ok as := by
  induction ds with
  | nil => exact ⟨[], rfl⟩
  | cons d ds ih =>
    obtain ⟨a, ha⟩ := mkAttr_succeeds (hok d (by simp))
    obtain ⟨as, has⟩ := ih (fun x hx => hok x (by simp [hx])) (fun x hx => hov x (by simp [hx]))
    have hov' := assertOverride_succeeds (hov d (by simp)) ha
    exact ⟨a :: as, by unfold defineAttrs; simp [ha, hov', has]⟩

theorem checkEquality_succeeds {own : List Attr} {parent : OType} {l : List String}
    (h : ∀ n ∈ l, ∃ a, lookupMember own parent n = some a ∧ a.kind ≠ .constant ∧ n ∉ equalityAttributes parent) :
    checkEquality own parent l = .ok () := by
  induction l with
  | nil => rfl
  | cons n ns ih =>
    obtain ⟨a, hl, hk, hn⟩ := h n (by simp)
    unfold checkEquality
    simp only [hl]
    simp [hk, hn]
    exact ih (fun m hm => h m (by simp [hm]))

/-- required never after optional -/
def SerSorted (own : List Attr) (parent : OType) (ser : List String) : Prop :=
  ser.Pairwise (fun n m => ∀ a b, lookupMember own parent n = some a → lookupMember own parent m = some b →
    a.optional = true → b.optional = true)

theorem checkSerialization_succeeds {own : List Attr} {parent : OType} {b : Bool} {seen ser : List String}
    (hmem : ∀ n ∈ ser, ∃ a, lookupMember own parent n = some a ∧ a.settable = true)
    (hb : b = true → ∀ n ∈ ser, ∀ a, lookupMember own parent n = some a → a.optional = true)
    (hs : SerSorted own parent ser) (hnd : ser.Nodup) (hdisj : ∀ n ∈ ser, n ∉ seen) :
    checkSerialization own parent b seen ser = .ok () := by
  induction ser generalizing b seen with
  | nil => rfl
  | cons n ns ih =>
    obtain ⟨a, hl, hset⟩ := hmem n (by simp)
    unfold SerSorted at hs
    rw [List.pairwise_cons] at hs
    rw [List.nodup_cons] at hnd
    unfold checkSerialization
    simp only [hl]
    have hkind : (a.kind == Kind.constant || a.kind == Kind.derived) = false := by
      unfold Attr.settable at hset
      simpa using hset
    have hrao : (!a.optional && b) = false := by
      by_cases hopt : a.optional = true
      · simp [hopt]
      · cases b with
        | false => simp
        | true => exact absurd (hb rfl n (by simp) a hl) hopt
    have hseen : seen.contains n = false := by simpa using hdisj n (by simp)
    simp only [hkind, hrao, hseen, Bool.false_eq_true, if_false]
    apply ih (fun m hm => hmem m (by simp [hm])) _ hs.2 hnd.2
    · intro m hm hms
      simp only [List.mem_cons] at hms
      rcases hms with rfl | hms
      · exact hnd.1 hm
      · exact hdisj m (by simp [hm]) hms
    · intro hb' m hm c hc
      simp only [Bool.or_eq_true] at hb'
      rcases hb' with hb' | hb'
      · exact hb hb' m (by simp [hm]) c hc
      · exact hs.1 m hm a c hl hc hb'

end Pcore.Object
