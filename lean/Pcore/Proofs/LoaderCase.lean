import Pcore.Model.UnicodeCase
import Pcore.Generated.UnicodeCase
/-!
Go's `unicode.ToLower` is idempotent — proved for ANY case-range table that satisfies the decidable condition `LowerOK`
(the lower-case image of every range consists of valid code points that lower-casing leaves alone) and instantiated on the
table regenerated from `$GOROOT/src/unicode/tables.go` by `decide`.  Used by C12 (`lower (canon n) = canon n`: the map key of
a typed name is a fixed point of the folding, so names differing only in letter case denote one entry).
-/
namespace Pcore.UnicodeCase

def inRange (r : Nat) (cr : CaseRange) : Bool := cr.lo ≤ r && r ≤ cr.hi

/-- `unicode.ToLower` on code points -/
def lowerNat (tbl : List CaseRange) (r : Nat) : Nat :=
  if r ≤ 127 then (if 65 ≤ r ∧ r ≤ 90 then r + 32 else r) else toCase tbl true r

/-- what `to(LowerCase, r, …)` computes once the range is found -/
def imgLower (cr : CaseRange) (r : Nat) : Nat :=
  if cr.low > 1114111 then cr.lo + ((r - cr.lo) / 2 * 2 + 1) else (Int.ofNat r + cr.low).toNat

/-- an interval that holds the lower-case image of the whole range (checked point by point below, never assumed) -/
def imgLo (cr : CaseRange) : Nat := if cr.low > 1114111 then cr.lo else (Int.ofNat cr.lo + cr.low).toNat
def imgHi (cr : CaseRange) : Nat := if cr.low > 1114111 then cr.hi + 1 else (Int.ofNat cr.hi + cr.low).toNat

def pointOK (near : List CaseRange) (lo hi x : Nat) : Bool :=
  decide (lo ≤ x) && decide (x ≤ hi) && decide (x.isValidChar) && lowerNat near x == x

/-- the ranges that can hold a point of the image interval -/
def nearOf (tbl : List CaseRange) (cr : CaseRange) : List CaseRange :=
  tbl.filter fun c => decide (c.lo ≤ imgHi cr) && decide (imgLo cr ≤ c.hi)

def rangeOK (tbl : List CaseRange) (cr : CaseRange) : Bool :=
  (List.range (cr.hi + 1 - cr.lo)).all fun i => pointOK (nearOf tbl cr) (imgLo cr) (imgHi cr) (imgLower cr (cr.lo + i))

/-- the side condition on the table -/
def LowerOK (tbl : List CaseRange) : Bool := tbl.all (rangeOK tbl)

theorem toCase_lower (tbl : List CaseRange) (r : Nat) :
    toCase tbl true r = match tbl.find? (fun cr => cr.lo ≤ r && r ≤ cr.hi) with
      | none => r
      | some cr => imgLower cr r := by
  unfold toCase imgLower
  cases tbl.find? (fun cr => decide (cr.lo ≤ r) && decide (r ≤ cr.hi)) with
  | none => rfl
  | some cr => simp

theorem find?_filter_of_imp {α : Type} (l : List α) (p q : α → Bool) (h : ∀ a, q a = true → p a = true) :
    (l.filter p).find? q = l.find? q := by
  induction l with
  | nil => rfl
  | cons a t ih =>
    by_cases hp : p a = true
    · rw [List.filter_cons_of_pos hp, List.find?_cons, List.find?_cons, ih]
    · have hq : q a = false := by
        cases hqa : q a with
        | false => rfl
        | true => exact absurd (h a hqa) hp
      rw [List.filter_cons_of_neg hp, List.find?_cons, hq, ih]

/-- a point of the image interval is looked up in the near ranges exactly as in the whole table -/
theorem lowerNat_near (tbl : List CaseRange) (cr : CaseRange) (x : Nat) (h1 : imgLo cr ≤ x) (h2 : x ≤ imgHi cr) :
    lowerNat (nearOf tbl cr) x = lowerNat tbl x := by
  unfold lowerNat
  split
  · rfl
  · rw [toCase_lower, toCase_lower]
    unfold nearOf
    rw [find?_filter_of_imp]
    intro a ha
    simp only [Bool.and_eq_true, decide_eq_true_eq] at ha ⊢
    omega

theorem lowerNat_ascii (tbl : List CaseRange) (r : Nat) (h : r ≤ 127) :
    (lowerNat tbl r).isValidChar ∧ lowerNat tbl (lowerNat tbl r) = lowerNat tbl r := by
  unfold lowerNat
  simp only [h, if_true]
  by_cases hu : 65 ≤ r ∧ r ≤ 90
  · simp only [hu, and_self, if_true]
    have h1 : r + 32 ≤ 127 := by omega
    have h2 : ¬ (65 ≤ r + 32 ∧ r + 32 ≤ 90) := by omega
    simp only [h1, if_true, h2, if_false, and_true]
    left; omega
  · simp only [hu, if_false, h, if_true, and_true]
    left; omega

/-- lower-casing lands on valid code points that lower-casing leaves alone -/
theorem lowerNat_fixed (tbl : List CaseRange) (hok : LowerOK tbl = true) (r : Nat) (hv : r.isValidChar) :
    (lowerNat tbl r).isValidChar ∧ lowerNat tbl (lowerNat tbl r) = lowerNat tbl r := by
  by_cases hr : r ≤ 127
  · exact lowerNat_ascii tbl r hr
  · have hl : lowerNat tbl r = toCase tbl true r := by unfold lowerNat; simp [hr]
    rw [hl, toCase_lower]
    cases hf : tbl.find? (fun cr => decide (cr.lo ≤ r) && decide (r ≤ cr.hi)) with
    | none =>
      simp only
      refine ⟨hv, ?_⟩
      rw [hl, toCase_lower, hf]
    | some cr =>
      simp only
      have hmem := List.mem_of_find?_eq_some hf
      have hin := List.find?_some hf
      simp only [Bool.and_eq_true, decide_eq_true_eq] at hin
      have hrange := List.all_eq_true.mp hok cr hmem
      unfold rangeOK at hrange
      have hi := List.all_eq_true.mp hrange (r - cr.lo) (by simp only [List.mem_range]; omega)
      have hre : cr.lo + (r - cr.lo) = r := by omega
      rw [hre] at hi
      unfold pointOK at hi
      simp only [Bool.and_eq_true, decide_eq_true_eq, beq_iff_eq] at hi
      obtain ⟨⟨⟨h1, h2⟩, h3⟩, h4⟩ := hi
      rw [lowerNat_near tbl cr _ h1 h2] at h4
      exact ⟨h3, h4⟩

theorem toNat_ofNat_valid (n : Nat) (hv : n.isValidChar) : (Char.ofNat n).toNat = n := by
  unfold Char.ofNat
  rw [dif_pos hv]
  unfold Char.ofNatAux Char.toNat
  simp [UInt32.toNat_ofNatLT]

theorem toLower_eq (tbl : List CaseRange) (c : Char) : toLower tbl c = Char.ofNat (lowerNat tbl c.toNat) := by
  unfold toLower lowerNat
  by_cases h : c.toNat ≤ 127
  · simp only [h, if_true]
    have hA : 'A'.toNat = 65 := rfl
    have hZ : 'Z'.toNat = 90 := rfl
    rw [hA, hZ]
    by_cases hu : 65 ≤ c.toNat ∧ c.toNat ≤ 90
    · simp only [hu, and_self, if_true]
    · simp only [hu, if_false, Char.ofNat_toNat]
  · simp only [h, if_false]

/-- `unicode.ToLower (unicode.ToLower c) = unicode.ToLower c` -/
theorem toLower_idem (tbl : List CaseRange) (hok : LowerOK tbl = true) (c : Char) :
    toLower tbl (toLower tbl c) = toLower tbl c := by
  obtain ⟨hv, hf⟩ := lowerNat_fixed tbl hok c.toNat c.valid
  rw [toLower_eq tbl c, toLower_eq, toNat_ofNat_valid _ hv, hf]

end Pcore.UnicodeCase

namespace Pcore.Generated
open Pcore.UnicodeCase

set_option maxRecDepth 100000 in
/-- the side condition holds of the table Go ships (regenerated on every check run) -/
theorem caseRanges_lowerOK : LowerOK caseRanges = true := by decide +kernel

end Pcore.Generated
