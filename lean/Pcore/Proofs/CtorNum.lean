import Pcore.Proofs.DispatchCtors
import Pcore.Model.CtorNum
/-!
The Float and Numeric constructors (Model/CtorNum.lean): what the bodies return, that no fault arm is reachable, and that
the named-argument form is the positional form.  Core Lean only.  `pf` (strconv.ParseFloat) is arbitrary throughout.
-/
namespace Pcore.Dispatch.F64

theorem infKey_pos : 0 < infKey := by unfold infKey; exact Int.natCast_pos.mpr (Nat.pow_pos (by decide))

/-- the magnitude part of `key` -/
def keyMag (b : Nat) : Int := if expOf b = 2047 then infKey else (mag b : Int)

theorem keyMag_nonneg (b : Nat) : 0 ≤ keyMag b := by
  unfold keyMag
  split
  · exact Int.le_of_lt infKey_pos
  · exact Int.natCast_nonneg _

theorem key_eq (b : Nat) : key b = if isNaN b then none else some (if negOf b then -keyMag b else keyMag b) := rfl

theorem sign_clear (b : Nat) (hb : b < 18446744073709551616) :
    (b - 9223372036854775808) / 9223372036854775808 % 2 = 0 := by
  have : b - 9223372036854775808 < 9223372036854775808 := by omega
  rw [Nat.div_eq_of_lt this]

theorem negOf_clear (b : Nat) (hb : b < 2 ^ 64) : negOf (b - 2 ^ 63) = false := by
  have hn := sign_clear b (by simpa using hb)
  simp [negOf, hn]

theorem ltZero_of_pos (c : Nat) (h : negOf c = false) : ltZero c = false := by
  unfold ltZero
  rw [key_eq, h]
  have := keyMag_nonneg c
  by_cases hn : isNaN c = true
  · simp [hn]
  · simp [hn]; omega

/-- `floatValue.Abs` of a double (64 bits) is never `< 0` -/
theorem abs_not_neg (b : Nat) (hb : b < 2 ^ 64) : ltZero (abs b) = false := by
  unfold abs
  by_cases h : ltZero b = true
  · simp only [h, if_true]
    exact ltZero_of_pos _ (negOf_clear b hb)
  · simp only [h]
    simpa using h

end Pcore.Dispatch.F64

namespace Pcore.Dispatch.Alpha

/-! a canonical text of values and outcomes, so that closed examples over the float reader (well-founded recursion, big
    powers of two) can be checked by `decide +kernel` on a `String` equation -/
mutual
def Val.text : Val → String
  | .int n => s!"(i {n})"
  | .str s => "(s " ++ s ++ ")"
  | .bool b => if b then "(b t)" else "(b f)"
  | .float b => s!"(f {b})"
  | .binary bs => s!"(bin {bs.map (·.toNat)})"
  | .timespan n => s!"(ts {n})"
  | .undef => "(u)"
  | .default => "(d)"
  | .arr vs => "(a" ++ Val.textL vs ++ ")"
  | .hash es => "(h" ++ Val.textE es ++ ")"
def Val.textL : List Val → String
  | [] => ""
  | v :: vs => " " ++ v.text ++ Val.textL vs
def Val.textE : List (Val × Val) → String
  | [] => ""
  | (k, v) :: es => " (" ++ k.text ++ " " ++ v.text ++ ")" ++ Val.textE es
end

def outText : Option (NewOutcome Val) → String
  | none => "unmodelled"
  | some (.value v) => "value " ++ v.text
  | some (.reported c) => "reported " ++ c
  | some .fault => "fault"

def resText : CtorResult Val → String
  | .value v => "value " ++ v.text
  | .reported c => "reported " ++ c
  | .fault => "fault"

section
variable (pf : List Char → Option Nat)

/-- a number: an integer or a float of the alphabet -/
def isNumber : Val → Bool
  | .int _ => true
  | .float _ => true
  | _ => false

def isFloat : Val → Bool
  | .float _ => true
  | _ => false

/-- `fromConvertible` answers a number or the reported argument error — for ANY value, convertible or not -/
theorem fromConvertible_cases (c : Val) (allowInt : Bool) :
    (∃ v, fromConvertible pf c allowInt = .value v ∧ isNumber v = true ∧ (allowInt = false → isFloat v = true)) ∨
    fromConvertible pf c allowInt = .reported "ILLEGAL_ARGUMENTS" := by
  cases c with
  | int n => left; cases allowInt <;> simp [fromConvertible, isNumber, isFloat]
  | bool b => left; cases allowInt <;> simp [fromConvertible, isNumber, isFloat]
  | float b => left; simp [fromConvertible, isNumber, isFloat]
  | str s =>
    simp only [fromConvertible]
    cases allowInt with
    | false =>
      simp only [Bool.false_eq_true, if_false]
      cases pf s.toList with
      | some f => left; simp [isNumber, isFloat]
      | none => right; rfl
    | true =>
      simp only [if_true]
      cases Pcore.Syntax.parseInt s.toList with
      | some i => left; simp [isNumber]
      | none =>
        cases pf s.toList with
        | some f => left; simp [isNumber]
        | none =>
          cases binFallback s.toList with
          | some i => left; simp [isNumber]
          | none => right; rfl
  | binary bs => right; rfl
  | timespan n => left; simp [fromConvertible, isNumber, isFloat]
  | undef => right; rfl
  | default => right; rfl
  | arr vs => right; rfl
  | hash es => right; rfl

/-- the body: with no `abs` argument or a boolean one it answers a number (a float when integers are not tried) or the
    reported error; no type assertion fails -/
theorem numberBody_cases (from_ : Val) (abs : Option Val) (tryInt : Bool)
    (ha : abs = none ∨ ∃ b, abs = some (.bool b)) :
    (∃ v, numberBody pf from_ abs tryInt = .value v ∧ isNumber v = true ∧ (tryInt = false → isFloat v = true)) ∨
    numberBody pf from_ abs tryInt = .reported "ILLEGAL_ARGUMENTS" := by
  unfold numberBody
  rcases fromConvertible_cases pf from_ tryInt with ⟨v, hv, hn, hf⟩ | h
  · left
    rw [hv]
    rcases ha with rfl | ⟨b, rfl⟩
    · exact ⟨v, rfl, hn, hf⟩
    · cases b with
      | false => exact ⟨v, rfl, hn, hf⟩
      | true =>
        cases v <;> simp [isNumber] at hn
        · rename_i n
          refine ⟨.int (absInt true n), by simp [asBool], rfl, ?_⟩
          intro ht; have := hf ht; simp [isFloat] at this
        · rename_i f
          exact ⟨.float (F64.abs f), by simp [asBool], rfl, fun _ => rfl⟩
  · right; rw [h]

theorem numberBody_no_fault (from_ : Val) (abs : Option Val) (tryInt : Bool)
    (ha : abs = none ∨ ∃ b, abs = some (.bool b)) : numberBody pf from_ abs tryInt ≠ .fault := by
  rcases numberBody_cases pf from_ abs tryInt ha with ⟨v, hv, _⟩ | h
  · rw [hv]; simp
  · rw [h]; simp

/-- what the positional dispatch `(Convertible, Optional Boolean)` guarantees its body -/
theorem positional_args (args : List Val)
    (hacc : CreatorAccepts inst binst ({ ops := [.param convertibleF, .optional .bool], kind := .fn } : Creator Ty BTy) args
      (none : Option Blk)) :
    ∃ a0 rest, args = a0 :: rest ∧ (rest.head? = none ∨ ∃ b, rest.head? = some (.bool b)) := by
  obtain ⟨⟨hreq, _, hargs⟩, _⟩ := hacc
  simp only [paramsOf, List.filterMap, BOp.param?] at hreq hargs
  have h0 := hreq 0 (.req, convertibleF) (by simp) rfl
  match args, h0 with
  | a0 :: rest, _ =>
    refine ⟨a0, rest, rfl, ?_⟩
    match rest with
    | [] => exact Or.inl rfl
    | a1 :: more =>
      obtain ⟨p1, hp1, hi1⟩ := hargs 1 a1 (by simp)
      simp at hp1; subst hp1
      cases a1 <;> simp [inst] at hi1
      exact Or.inr ⟨_, rfl⟩

/-- what the `NamedArgs` dispatch guarantees its body -/
theorem named_args (args : List Val)
    (hacc : CreatorAccepts inst binst ({ ops := [.param namedArgsF], kind := .fn } : Creator Ty BTy) args (none : Option Blk)) :
    ∃ es rest, args = .hash es :: rest ∧ (lookupKey "abs" es = none ∨ ∃ b, lookupKey "abs" es = some (.bool b)) := by
  obtain ⟨⟨hreq, _, hargs⟩, _⟩ := hacc
  simp only [paramsOf, List.filterMap, BOp.param?] at hreq hargs
  have h0 := hreq 0 (.req, namedArgsF) (by simp) rfl
  match args, h0 with
  | a0 :: rest, _ =>
    obtain ⟨p0, hp0, hi0⟩ := hargs 0 a0 (by simp)
    simp at hp0; subst hp0
    obtain ⟨es, rfl, -, hm⟩ := inst_struct _ (by decide) a0 hi0
    exact ⟨es, rest, rfl, named_abs hm (by simp)⟩

/-- a call of the Float (`tryInt = false`) or Numeric (`tryInt = true`) constructor: the argument error of the dispatch or of
    the conversion, or a number — a float for the Float constructor -/
theorem float_ctor_cases (args : List Val) :
    (∃ v, ctorCall (floatCtor pf) args = .value v ∧ isFloat v = true) ∨
    ctorCall (floatCtor pf) args = .reported "ILLEGAL_ARGUMENTS" := by
  rcases ctorCall_cases (floatCtor pf) args ⟨_, rfl⟩ with h | ⟨i, cr, hcr, hacc, hcall⟩
  · exact Or.inr h
  · rw [hcall]
    match i, hcr with
    | 0, hcr =>
      simp [floatCtor] at hcr; subst hcr
      obtain ⟨a0, rest, rfl, ha⟩ := positional_args args hacc
      simp only [floatCtor, numberPositional]
      rcases numberBody_cases pf a0 rest.head? false ha with ⟨v, hv, _, hf⟩ | h
      · exact Or.inl ⟨v, hv, hf rfl⟩
      · exact Or.inr h
    | 1, hcr =>
      simp [floatCtor] at hcr; subst hcr
      obtain ⟨es, rest, rfl, ha⟩ := named_args args hacc
      simp only [floatCtor, numberNamed]
      rcases numberBody_cases pf _ (lookupKey "abs" es) false ha with ⟨v, hv, _, hf⟩ | h
      · exact Or.inl ⟨v, hv, hf rfl⟩
      · exact Or.inr h
    | n + 2, hcr => simp [floatCtor] at hcr

theorem numeric_ctor_cases (args : List Val) :
    (∃ v, ctorCall (numericCtor pf) args = .value v ∧ isNumber v = true) ∨
    ctorCall (numericCtor pf) args = .reported "ILLEGAL_ARGUMENTS" := by
  rcases ctorCall_cases (numericCtor pf) args ⟨_, rfl⟩ with h | ⟨i, cr, hcr, hacc, hcall⟩
  · exact Or.inr h
  · rw [hcall]
    match i, hcr with
    | 0, hcr =>
      simp [numericCtor] at hcr; subst hcr
      obtain ⟨es, rest, rfl, ha⟩ := named_args args hacc
      simp only [numericCtor, numberNamed]
      rcases numberBody_cases pf _ (lookupKey "abs" es) true ha with ⟨v, hv, hn, _⟩ | h
      · exact Or.inl ⟨v, hv, hn⟩
      · exact Or.inr h
    | 1, hcr =>
      simp [numericCtor] at hcr; subst hcr
      obtain ⟨a0, rest, rfl, ha⟩ := positional_args args hacc
      simp only [numericCtor, numberPositional]
      rcases numberBody_cases pf a0 rest.head? true ha with ⟨v, hv, hn, _⟩ | h
      · exact Or.inl ⟨v, hv, hn⟩
      · exact Or.inr h
    | n + 2, hcr => simp [numericCtor] at hcr

theorem float_no_fault (args : List Val) : ctorCall (floatCtor pf) args ≠ .fault := by
  rcases float_ctor_cases pf args with ⟨v, hv, _⟩ | h
  · rw [hv]; simp
  · rw [h]; simp

theorem numeric_no_fault (args : List Val) : ctorCall (numericCtor pf) args ≠ .fault := by
  rcases numeric_ctor_cases pf args with ⟨v, hv, _⟩ | h
  · rw [hv]; simp
  · rw [h]; simp

/-! ### the named-argument form is the positional form -/

theorem inst_named2 (x a : Val) :
    inst namedArgsF (.hash [(.str "from", x), (.str "abs", a)]) = (inst convertibleF x && inst .bool a) := by
  cases a <;> cases h : inst convertibleF x <;> simp [namedArgsF, inst, instMembers, lookupKey, h]

theorem inst_named1 (x : Val) : inst namedArgsF (.hash [(.str "from", x)]) = inst convertibleF x := by
  cases h : inst convertibleF x <;> simp [namedArgsF, inst, instMembers, lookupKey, h]

theorem convertibleF_hash (es : List (Val × Val)) : inst convertibleF (.hash es) = false := by
  simp [convertibleF, anyTimespan, inst, instAny]

theorem namedArgsF_not_hash (x : Val) (hx : ∀ es, x ≠ .hash es) : inst namedArgsF x = false := by
  cases x <;> simp [namedArgsF, inst]
  exact absurd rfl (hx _)

theorem run_float_named (es : List (Val × Val)) :
    run inst binst (floatCtor pf).creators [.hash es] (none : Option Blk) =
      .called (if inst namedArgsF (.hash es) then .ran 1 else .reported) := by
  simp [run, floatCtor, buildAll, buildOne, steps, step, finish, Builder.init, resolveAll, createDispatch, leMax, ltMax, succMax,
    call, callFrom, callableWith, blockOK, tupleInst, sizeOK, instLoop, convertibleF_hash]

theorem run_float_pos2 (x a : Val) :
    run inst binst (floatCtor pf).creators [x, a] (none : Option Blk) =
      .called (if inst convertibleF x && inst .bool a then .ran 0 else .reported) := by
  simp [run, floatCtor, buildAll, buildOne, steps, step, finish, Builder.init, resolveAll, createDispatch, leMax, ltMax, succMax,
    call, callFrom, callableWith, blockOK, tupleInst, sizeOK, instLoop]

theorem run_float_pos1 (x : Val) (hx : ∀ es, x ≠ .hash es) :
    run inst binst (floatCtor pf).creators [x] (none : Option Blk) =
      .called (if inst convertibleF x then .ran 0 else .reported) := by
  simp [run, floatCtor, buildAll, buildOne, steps, step, finish, Builder.init, resolveAll, createDispatch, leMax, ltMax, succMax,
    call, callFrom, callableWith, blockOK, tupleInst, sizeOK, instLoop, namedArgsF_not_hash x hx]

theorem run_numeric_named (es : List (Val × Val)) :
    run inst binst (numericCtor pf).creators [.hash es] (none : Option Blk) =
      .called (if inst namedArgsF (.hash es) then .ran 0 else .reported) := by
  simp [run, numericCtor, buildAll, buildOne, steps, step, finish, Builder.init, resolveAll, createDispatch, leMax, ltMax, succMax,
    call, callFrom, callableWith, blockOK, tupleInst, sizeOK, instLoop, convertibleF_hash]

theorem run_numeric_pos2 (x a : Val) :
    run inst binst (numericCtor pf).creators [x, a] (none : Option Blk) =
      .called (if inst convertibleF x && inst .bool a then .ran 1 else .reported) := by
  simp [run, numericCtor, buildAll, buildOne, steps, step, finish, Builder.init, resolveAll, createDispatch, leMax, ltMax, succMax,
    call, callFrom, callableWith, blockOK, tupleInst, sizeOK, instLoop]

theorem run_numeric_pos1 (x : Val) (hx : ∀ es, x ≠ .hash es) :
    run inst binst (numericCtor pf).creators [x] (none : Option Blk) =
      .called (if inst convertibleF x then .ran 1 else .reported) := by
  simp [run, numericCtor, buildAll, buildOne, steps, step, finish, Builder.init, resolveAll, createDispatch, leMax, ltMax, succMax,
    call, callFrom, callableWith, blockOK, tupleInst, sizeOK, instLoop, namedArgsF_not_hash x hx]

/-- `Float.new({from => x, abs => a})` is `Float.new(x, a)` — for ANY two values (both are the argument error when `x` is not
    convertible or `a` is not a boolean) -/
theorem float_named_eq_positional2 (x a : Val) :
    ctorCall (floatCtor pf) [.hash [(.str "from", x), (.str "abs", a)]] = ctorCall (floatCtor pf) [x, a] := by
  unfold ctorCall
  rw [run_float_named, run_float_pos2, inst_named2]
  cases inst convertibleF x && inst .bool a <;> simp [floatCtor, numberNamed, numberPositional, lookupKey]

/-- `Float.new({from => x})` is `Float.new(x)` for every `x` that is not itself a hash (a hash argument is read as the
    named-argument form) -/
theorem float_named_eq_positional1 (x : Val) (hx : ∀ es, x ≠ .hash es) :
    ctorCall (floatCtor pf) [.hash [(.str "from", x)]] = ctorCall (floatCtor pf) [x] := by
  unfold ctorCall
  rw [run_float_named, run_float_pos1 pf x hx, inst_named1]
  cases inst convertibleF x <;> simp [floatCtor, numberNamed, numberPositional, lookupKey]

theorem numeric_named_eq_positional2 (x a : Val) :
    ctorCall (numericCtor pf) [.hash [(.str "from", x), (.str "abs", a)]] = ctorCall (numericCtor pf) [x, a] := by
  unfold ctorCall
  rw [run_numeric_named, run_numeric_pos2, inst_named2]
  cases inst convertibleF x && inst .bool a <;> simp [numericCtor, numberNamed, numberPositional, lookupKey]

theorem numeric_named_eq_positional1 (x : Val) (hx : ∀ es, x ≠ .hash es) :
    ctorCall (numericCtor pf) [.hash [(.str "from", x)]] = ctorCall (numericCtor pf) [x] := by
  unfold ctorCall
  rw [run_numeric_named, run_numeric_pos1 pf x hx, inst_named1]
  cases inst convertibleF x <;> simp [numericCtor, numberNamed, numberPositional, lookupKey]

/-! ### `abs` -/

/-- the value `abs` leaves behind is not negative — except the minimum integer, whose negation wraps; a NaN stays a NaN -/
def NonNegative : Val → Prop
  | .int n => 0 ≤ n ∨ n = minInt
  | .float b => F64.ltZero b = false
  | _ => False

/-- what a call with `abs = true` leaves behind: a non-negative integer (or the minimum integer, whose negation wraps), or
    `floatValue.Abs` of a float (which is never `< 0`: `F64.abs_not_neg`) -/
def AbsResult : Val → Prop
  | .int n => 0 ≤ n ∨ n = minInt
  | .float b => ∃ b0, b = F64.abs b0
  | _ => False

theorem absInt_nonneg (n : Int) : 0 ≤ absInt true n ∨ absInt true n = minInt := by
  unfold absInt
  by_cases h1 : n < 0
  · by_cases h2 : n = minInt
    · right; simp [h2]
    · left; simp [h1, h2]; omega
  · left; simp [h1]; omega

theorem numberBody_abs (from_ : Val) (tryInt : Bool) (v : Val)
    (h : numberBody pf from_ (some (.bool true)) tryInt = .value v) : AbsResult v := by
  unfold numberBody at h
  rcases fromConvertible_cases pf from_ tryInt with ⟨w, hw, hn, _⟩ | hr
  · rw [hw] at h
    cases w <;> simp [isNumber] at hn <;> simp [asBool] at h <;> subst h
    · exact absInt_nonneg _
    · exact ⟨_, rfl⟩
  · rw [hr] at h; cases h

end

end Pcore.Dispatch.Alpha
