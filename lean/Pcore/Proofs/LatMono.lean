import Pcore.Proofs.LatRefl
set_option linter.unusedSimpArgs false
set_option linter.unusedVariables false
/-! Monotonicity per covariant hole and widening of ranges (C03). -/
namespace Pcore.Lat
variable (cfg : Cfg) (sfh : Bool)

theorem Rng.sub_trans {r r' r'' : Rng} (h : r'.sub r = true) (h' : r.sub r'' = true) : r'.sub r'' = true := by
  simp [Rng.sub] at *; omega

theorem Rng.sub_contains2 {r r' : Rng} {i : Int} (h : r.sub r' = true) (h' : r'.contains i = true) : r.contains i = true := by
  simp [Rng.sub, Rng.contains] at *; omega

theorem mono_array (a b : Ty) (r : Rng) (h : asg cfg sfh a b = true) : asg cfg sfh (.array a r) (.array b r) = true := by
  rw [asg_plain_r cfg sfh _ _ rfl]; simp only [Bool.or_eq_true]; right
  unfold asgRecv; simp [Rng.sub_refl, h]

theorem mono_hash_key (k k' v : Ty) (r : Rng) (hv : asg cfg sfh v v = true) (h : asg cfg sfh k k' = true) :
    asg cfg sfh (.hash k v r) (.hash k' v r) = true := by
  rw [asg_plain_r cfg sfh _ _ rfl]; simp only [Bool.or_eq_true]; right
  unfold asgRecv; simp [Rng.sub_refl, h, hv]

theorem mono_hash_value (k v v' : Ty) (r : Rng) (hk : asg cfg sfh k k = true) (h : asg cfg sfh v v' = true) :
    asg cfg sfh (.hash k v r) (.hash k v' r) = true := by
  rw [asg_plain_r cfg sfh _ _ rfl]; simp only [Bool.or_eq_true]; right
  unfold asgRecv; simp [Rng.sub_refl, h, hk]

theorem mono_typ (a b : Ty) (h : asg cfg sfh a b = true) : asg cfg sfh (.typ a) (.typ b) = true := by
  rw [asg_plain_r cfg sfh _ _ rfl]; simp only [Bool.or_eq_true]; right
  unfold asgRecv; simp [h]

theorem mono_sensitive (a b : Ty) (h : asg cfg sfh a b = true) : asg cfg sfh (.sensitive a) (.sensitive b) = true := by
  rw [asg_plain_r cfg sfh _ _ rfl]; simp only [Bool.or_eq_true]; right
  unfold asgRecv; simp [h]

theorem mono_iterator (a b : Ty) (h : asg cfg sfh a b = true) : asg cfg sfh (.iterator a) (.iterator b) = true := by
  rw [asg_plain_r cfg sfh _ _ rfl]; simp only [Bool.or_eq_true]; right
  unfold asgRecv; simp [h]

theorem mono_iterable (a b : Ty) (h : asg cfg sfh a b = true) : asg cfg sfh (.iterable a) (.iterable b) = true := by
  rw [asg_plain_r cfg sfh _ _ rfl]; simp only [Bool.or_eq_true]; right
  unfold asgRecv; simp [h]

theorem asg_optional_undef (a : Ty) : asg cfg sfh (.optional a) .undef = true := by
  rw [asg_plain_r cfg sfh _ .undef rfl]
  simp only [Bool.or_eq_true]; right
  unfold asgRecv; simp [asg_undef_undef]

theorem mono_optional (a b : Ty) (hb : b.NoAliasR) (h : asg cfg sfh a b = true) :
    asg cfg sfh (.optional a) (.optional b) = true := by
  rw [asg_optional_r]
  simp only [Bool.or_eq_true, Bool.and_eq_true]; right
  exact ⟨asg_optional_undef cfg sfh a, weaken_optional cfg sfh a b hb h⟩

theorem mono_notUndef (a b : Ty) (h : asg cfg sfh a b = true) : asg cfg sfh (.notUndef a) (.notUndef b) = true := by
  rw [asg_notUndef_r]
  simp only [Bool.or_eq_true]; right
  by_cases hc : asg cfg sfh b .undef = true
  · simp only [hc, Bool.not_true, Bool.false_eq_true, if_false]
    unfold asgRecv; simp [h]
  · have hc' : asg cfg sfh b .undef = false := by cases hh : asg cfg sfh b .undef <;> simp_all
    simp only [hc', Bool.not_false, if_true]
    exact nu_accepts cfg sfh a b.w b (Nat.le_refl _) hc' h

/-- replacing one member of a Variant by a type it accepts -/
theorem mono_variant (pre post : List Ty) (a b : Ty) (hb : b.NoAliasR)
    (hsib : ∀ t ∈ pre ++ post, t.NoAliasR ∧ asg cfg sfh t t = true) (h : asg cfg sfh a b = true) :
    asg cfg sfh (.variant (pre ++ a :: post)) (.variant (pre ++ b :: post)) = true := by
  rw [asg_variant_r]
  simp only [Bool.or_eq_true]; right
  rw [asgAllR_iff]
  intro t hm
  simp only [List.mem_append, List.mem_cons] at hm
  rcases hm with hm | rfl | hm
  · exact weaken_variant cfg sfh t _ (by simp [hm]) t (hsib t (by simp [hm])).1 (hsib t (by simp [hm])).2
  · exact weaken_variant cfg sfh a _ (by simp) t hb h
  · exact weaken_variant cfg sfh t _ (by simp [hm]) t (hsib t (by simp [hm])).1 (hsib t (by simp [hm])).2

/-! ### widening: a wider range in the receiver never turns acceptance into rejection -/
theorem widen_int (r r' : Rng) (hr : r'.sub r = true) (b : Ty) (hb : b.NoAliasR) (h : asg cfg sfh (.int r) b = true) :
    asg cfg sfh (.int r') b = true := by
  apply left_weaken cfg sfh (.int r) (.int r') _ b.w b (Nat.le_refl _) hb h
  intro b hp h
  rcases hp with hp | ⟨nt, rfl, hnt⟩
  · rw [asg_plain_r cfg sfh _ b hp] at h ⊢
    simp only [Ty.isAny, Bool.false_or, Bool.or_eq_true] at h ⊢
    rcases h with h | h
    · cases b <;> simp [sameNullary] at h
    · right; unfold asgRecv at h ⊢
      cases b <;> simp at h ⊢
      exact Rng.sub_trans hr h
  · rw [asg_notUndef_r, hnt] at h ⊢
    simp [Ty.isAny] at h ⊢
    unfold asgRecv at h; simp at h

theorem widen_tspan (r r' : Rng) (hr : r'.sub r = true) (b : Ty) (hb : b.NoAliasR) (h : asg cfg sfh (.tspan r) b = true) :
    asg cfg sfh (.tspan r') b = true := by
  apply left_weaken cfg sfh (.tspan r) (.tspan r') _ b.w b (Nat.le_refl _) hb h
  intro b hp h
  rcases hp with hp | ⟨nt, rfl, hnt⟩
  · rw [asg_plain_r cfg sfh _ b hp] at h ⊢
    simp only [Ty.isAny, Bool.false_or, Bool.or_eq_true] at h ⊢
    rcases h with h | h
    · cases b <;> simp [sameNullary] at h
    · right; unfold asgRecv at h ⊢
      cases b <;> simp at h ⊢
      exact Rng.sub_trans hr h
  · rw [asg_notUndef_r, hnt] at h ⊢
    simp [Ty.isAny] at h ⊢
    unfold asgRecv at h; simp at h

theorem widen_float (lo hi lo' hi' : Fl) (hlo : lo' ≤ lo) (hhi : hi ≤ hi') (b : Ty) (hb : b.NoAliasR)
    (h : asg cfg sfh (.float lo hi) b = true) : asg cfg sfh (.float lo' hi') b = true := by
  apply left_weaken cfg sfh (.float lo hi) (.float lo' hi') _ b.w b (Nat.le_refl _) hb h
  intro b hp h
  rcases hp with hp | ⟨nt, rfl, hnt⟩
  · rw [asg_plain_r cfg sfh _ b hp] at h ⊢
    simp only [Ty.isAny, Bool.false_or, Bool.or_eq_true] at h ⊢
    rcases h with h | h
    · cases b <;> simp [sameNullary] at h
    · right; unfold asgRecv at h ⊢
      cases b <;> simp at h ⊢
      exact ⟨Int.le_trans (Fl.effLo_mono hlo) h.1, Int.le_trans h.2 (Fl.effHi_mono hhi)⟩
  · rw [asg_notUndef_r, hnt] at h ⊢
    simp [Ty.isAny] at h ⊢
    unfold asgRecv at h; simp at h

theorem widen_coll (r r' : Rng) (hr : r'.sub r = true) (b : Ty) (hb : b.NoAliasR) (h : asg cfg sfh (.coll r) b = true) :
    asg cfg sfh (.coll r') b = true := by
  apply left_weaken cfg sfh (.coll r) (.coll r') _ b.w b (Nat.le_refl _) hb h
  intro b hp h
  rcases hp with hp | ⟨nt, rfl, hnt⟩
  · rw [asg_plain_r cfg sfh _ b hp] at h ⊢
    simp only [Ty.isAny, Bool.false_or, Bool.or_eq_true] at h ⊢
    rcases h with h | h
    · cases b <;> simp [sameNullary] at h
    · right; unfold asgRecv at h ⊢
      cases b <;> simp at h ⊢ <;> exact Rng.sub_trans hr h
  · rw [asg_notUndef_r, hnt] at h ⊢
    simp [Ty.isAny] at h ⊢
    unfold asgRecv at h; simp at h

theorem widen_array (e : Ty) (r r' : Rng) (hr : r'.sub r = true) (b : Ty) (hb : b.NoAliasR)
    (h : asg cfg sfh (.array e r) b = true) : asg cfg sfh (.array e r') b = true := by
  apply left_weaken cfg sfh (.array e r) (.array e r') _ b.w b (Nat.le_refl _) hb h
  intro b hp h
  rcases hp with hp | ⟨nt, rfl, hnt⟩
  · rw [asg_plain_r cfg sfh _ b hp] at h ⊢
    simp only [Ty.isAny, Bool.false_or, Bool.or_eq_true] at h ⊢
    rcases h with h | h
    · cases b <;> simp [sameNullary] at h
    · right; unfold asgRecv at h ⊢
      cases b <;> simp only [] at h ⊢ <;> (first | contradiction | skip)
      · simp only [Bool.and_eq_true] at h ⊢; exact ⟨Rng.sub_trans hr h.1, h.2⟩
      · simp only [Bool.and_eq_true] at h ⊢; exact ⟨Rng.sub_trans hr h.1, h.2⟩
  · rw [asg_notUndef_r, hnt] at h ⊢
    simp [Ty.isAny] at h ⊢
    unfold asgRecv at h; simp at h

theorem widen_hash (k v : Ty) (r r' : Rng) (hr : r'.sub r = true) (b : Ty) (hb : b.NoAliasR)
    (h : asg cfg sfh (.hash k v r) b = true) : asg cfg sfh (.hash k v r') b = true := by
  apply left_weaken cfg sfh (.hash k v r) (.hash k v r') _ b.w b (Nat.le_refl _) hb h
  intro b hp h
  rcases hp with hp | ⟨nt, rfl, hnt⟩
  · rw [asg_plain_r cfg sfh _ b hp] at h ⊢
    simp only [Ty.isAny, Bool.false_or, Bool.or_eq_true] at h ⊢
    rcases h with h | h
    · cases b <;> simp [sameNullary] at h
    · right; unfold asgRecv at h ⊢
      cases b <;> simp only [] at h ⊢ <;> (first | contradiction | skip)
      · rw [Bool.and_eq_true] at h ⊢; exact ⟨Rng.sub_trans hr h.1, h.2⟩
      · rw [Bool.and_eq_true] at h ⊢; exact ⟨Rng.sub_trans hr h.1, h.2⟩
  · rw [asg_notUndef_r, hnt] at h ⊢
    simp [Ty.isAny] at h ⊢
    unfold asgRecv at h; simp at h

theorem widen_strSz (r r' : Rng) (hr : r'.sub r = true) (b : Ty) (hb : b.NoAliasR) (h : asg cfg sfh (.strSz r) b = true) :
    asg cfg sfh (.strSz r') b = true := by
  apply left_weaken cfg sfh (.strSz r) (.strSz r') _ b.w b (Nat.le_refl _) hb h
  intro b hp h
  rcases hp with hp | ⟨nt, rfl, hnt⟩
  · rw [asg_plain_r cfg sfh _ b hp] at h ⊢
    simp only [Ty.isAny, Bool.false_or, Bool.or_eq_true] at h ⊢
    rcases h with h | h
    · cases b <;> simp [sameNullary] at h
    · right; unfold asgRecv at h ⊢
      cases b <;> simp only [] at h ⊢ <;> (first | contradiction | skip)
      · exact Rng.sub_trans hr h
      · exact Rng.sub_contains2 hr h
      · simp only [Bool.and_eq_true, List.all_eq_true] at h ⊢
        exact ⟨h.1, fun s hs => Rng.sub_contains2 hr (h.2 s hs)⟩
  · rw [asg_notUndef_r, hnt] at h ⊢
    simp [Ty.isAny] at h ⊢
    unfold asgRecv at h; simp at h

theorem get_replace {α : Type} (pre post : List α) (x y : α) : ∀ (j : Nat) (t u : α),
    (pre ++ x :: post)[j]? = some t → (pre ++ y :: post)[j]? = some u →
    (t = x ∧ u = y) ∨ (t = u ∧ t ∈ pre ++ post) := by
  induction pre with
  | nil =>
    intro j t u ht hu
    cases j with
    | zero => simp at ht hu; left; exact ⟨ht.symm, hu.symm⟩
    | succ k =>
      simp at ht hu
      right; rw [ht] at hu; cases hu
      exact ⟨rfl, by simpa using List.mem_of_getElem? ht⟩
  | cons p pre ih =>
    intro j t u ht hu
    cases j with
    | zero => simp at ht hu; right; rw [← ht, ← hu]; exact ⟨rfl, by simp⟩
    | succ k =>
      simp at ht hu
      rcases ih k t u ht hu with h | h
      · left; exact h
      · right; exact ⟨h.1, by simp at h ⊢; rcases h.2 with h2 | h2 <;> simp [h2]⟩

/-- replacing one slot of a Tuple by a type it accepts (siblings reflexive, size unchanged) -/
theorem mono_tuple (pre post : List Ty) (a b : Ty) (g : Option Rng)
    (hsib : ∀ t ∈ pre ++ post, asg cfg sfh t t = true) (h : asg cfg sfh a b = true) :
    asg cfg sfh (.tuple (pre ++ a :: post) g) (.tuple (pre ++ b :: post) g) = true := by
  rw [asg_plain_r cfg sfh _ _ rfl]; simp only [Bool.or_eq_true]; right
  unfold asgRecv
  have hlen : (pre ++ a :: post).length = (pre ++ b :: post).length := by simp
  have hsz : tupleSize (pre ++ a :: post) g = tupleSize (pre ++ b :: post) g := by
    cases g <;> simp [tupleSize]
  simp only [hsz, Rng.sub_refl, Bool.true_and, Bool.or_eq_true]
  right
  have hne : ¬ ((pre ++ b :: post).isEmpty = true) := by simp
  rw [if_neg hne, tupZip_iff cfg sfh _ _ _ (by simp) (by simp)]
  intro i t u _ _ ht hu
  rw [hlen] at ht
  rcases get_replace pre post a b _ t u ht hu with ⟨rfl, rfl⟩ | ⟨rfl, hm⟩
  · exact h
  · exact hsib t hm

/-- widening the size of a Tuple in the receiver -/
theorem widen_tuple (ts : List Ty) (r r' : Rng) (hr : r'.sub r = true) (b : Ty) (hb : b.NoAliasR)
    (h : asg cfg sfh (.tuple ts (some r)) b = true) : asg cfg sfh (.tuple ts (some r')) b = true := by
  apply left_weaken cfg sfh (.tuple ts (some r)) (.tuple ts (some r')) _ b.w b (Nat.le_refl _) hb h
  intro b hp h
  rcases hp with hp | ⟨nt, rfl, hnt⟩
  · rw [asg_plain_r cfg sfh _ b hp] at h ⊢
    simp only [Ty.isAny, Bool.false_or, Bool.or_eq_true] at h ⊢
    rcases h with h | h
    · cases b <;> simp [sameNullary] at h
    · right; unfold asgRecv at h ⊢
      cases b <;> simp only [] at h ⊢ <;> (first | contradiction | skip)
      · rw [Bool.and_eq_true] at h ⊢
        simp only [tupleSize] at h ⊢
        exact ⟨Rng.sub_trans hr h.1, h.2⟩
      · rw [Bool.and_eq_true] at h ⊢
        simp only [tupleSize] at h ⊢
        exact ⟨Rng.sub_trans hr h.1, h.2⟩
  · rw [asg_notUndef_r, hnt] at h ⊢
    simp [Ty.isAny] at h ⊢
    unfold asgRecv at h; simp at h

/-- replacing the value type of one Struct member by a type it accepts (names pairwise different, siblings reflexive) -/
theorem mono_struct (pre post : List Member) (n : String) (o : Bool) (t t' : Ty)
    (hnd : NamesNodup (pre ++ (n, o, t) :: post))
    (hsib : ∀ m ∈ pre ++ post, asg cfg sfh m.2.2 m.2.2 = true) (h : asg cfg sfh t t' = true) :
    asg cfg sfh (.struct (pre ++ (n, o, t) :: post)) (.struct (pre ++ (n, o, t') :: post)) = true := by
  rw [asg_plain_r cfg sfh _ _ rfl]; simp only [Bool.or_eq_true]; right
  unfold asgRecv
  simp only [beq_iff_eq]
  have hnames : (pre ++ (n, o, t') :: post).map (·.1) = (pre ++ (n, o, t) :: post).map (·.1) := by simp
  have hnd' : NamesNodup (pre ++ (n, o, t') :: post) := by unfold NamesNodup; rw [hnames]; exact hnd
  rw [distinctCount_nodup _ hnd', structAll_iff cfg sfh _ _ hnd']
  constructor
  · intro m hm
    rw [SMemberOK]
    simp only [List.mem_append, List.mem_cons] at hm
    rcases hm with hm | rfl | hm
    · rw [structMember_mem cfg sfh m.1 m.2.1 m.2.2 _ hnd' m (by simp [hm]) rfl]
      simp [hsib m (by simp [hm])]
    · rw [structMember_mem cfg sfh n o t _ hnd' (n, o, t') (by simp) rfl]
      simp [h]
    · rw [structMember_mem cfg sfh m.1 m.2.1 m.2.2 _ hnd' m (by simp [hm]) rfl]
      simp [hsib m (by simp [hm])]
  · rw [sFound_eq _ _ hnd, List.length_map]
    symm
    apply List.countP_eq_length.2
    intro m' hm'
    simp only [nameIn, List.any_eq_true]
    simp only [List.mem_append, List.mem_cons] at hm'
    rcases hm' with hm' | rfl | hm'
    · exact ⟨m', by simp [hm'], (nameIs_iff _ _).2 rfl⟩
    · exact ⟨(n, o, t), by simp, (nameIs_iff _ _).2 rfl⟩
    · exact ⟨m', by simp [hm'], (nameIs_iff _ _).2 rfl⟩

end Pcore.Lat
