import Pcore.Proofs.FormatContainer
/-! A reference renderer for containers, written directly (delimiter ++ intercalate separator (elements) ++ delimiter,
    recursively), and the proof that the model's `fmtVal` — the state machine of `ToString2` with its indentation
    bookkeeping — computes exactly that for values of any depth in non-alt mode. -/
namespace Pcore.Format

mutual
/-- the reference: scalars by their kind's format, arrays and hashes by the documented law, recursively -/
def refVal (io : FloatIO) (m : FMap) : Val → Res
  | .array vs =>
    let f := (getFormat m .arr).f
    if !isArrayLetter f.letter then .reported .unsupported
    else match refElems io m (cfOf (getFormat m .arr)) vs with
      | .ok texts => .text ((delimPair f.ldelim '[').1 ++ (f.sep.getD [','] ++ [' ']).intercalate texts ++ (delimPair f.ldelim '[').2)
      | .err e => e
  | .hash es =>
    let f := (getFormat m .hash).f
    if !isHashLetter f.letter then .reported .unsupported
    else match refPairs io m (cfOf (getFormat m .hash)) es with
      | .ok texts => .text ((delimPair f.ldelim '{').1 ++
          (f.sep.getD [','] ++ [' ']).intercalate (texts.map (fun p => p.1 ++ f.sep2.getD " => ".toList ++ p.2)) ++
          (delimPair f.ldelim '{').2)
      | .err e => e
  | .undef => fmtUndef (getFormat m .undef).f
  | .dflt => fmtDefault (getFormat m .dflt).f
  | .bool b => fmtBool io (getFormat m .bool).f b
  | .int i => fmtInt io (getFormat m .int).f i
  | .float bits => fmtFloat io (getFormat m .float).f bits
  | .str s => fmtStr (getFormat m .str).f s
  | .regexp src => fmtRegexp (getFormat m .regexp).f src
  | .binary bs u => fmtBinary (getFormat m .bin).f bs u
/-- the elements: a container element keeps the map, any other element is formatted by the container formats -/
def refElems (io : FloatIO) (m cf : FMap) : List Val → ResL Str
  | [] => .ok []
  | v :: vs => ResL.cons (refVal io (if v.isContainer then m else cf) v) id (fun _ => refElems io m cf vs)
def refPairs (io : FloatIO) (m cf : FMap) : List Entry → ResL (Str × Str)
  | [] => .ok []
  | .mk k v :: es =>
    match refVal io (if k.isContainer then m else cf) k with
    | .text sk => ResL.cons (refVal io (if v.isContainer then m else cf) v) (fun sv => (sk, sv)) (fun _ => refPairs io m cf es)
    | e => .err e
end

/-- the container formats of the map are non-alt and the Hash format is not `a` (hash-as-array changes the map) -/
def PlainContainers (m : FMap) : Prop :=
  (getFormat m .arr).f.alt = false ∧ (getFormat m .hash).f.alt = false ∧ (getFormat m .hash).f.letter ≠ 'a'

instance (m : FMap) : Decidable (PlainContainers m) := by unfold PlainContainers; infer_instance

theorem arrayChildInd_indenting (f : Fmt) (ind : Ind) (hf : f.alt = false) (hi : ind.indenting = false) :
    (arrayChildInd f ind).indenting = false := by
  simp [arrayChildInd, Ind.increase, Ind.subsequent, Ind.withIndenting, hf]

theorem hashChildInd_indenting (f : Fmt) (ind : Ind) (hf : f.alt = false) (hi : ind.indenting = false) :
    (hashChildInd f ind).indenting = false := by
  simp [hashChildInd, Ind.increase, Ind.withIndenting, hf]

theorem map_fst_cons (r : Res) (rest1 : Unit → ResL (Str × Bool)) (rest2 : Unit → ResL Str) (b : Bool)
    (h : ∀ ps, rest1 () = .ok ps → rest2 () = .ok (ps.map (·.1))) (he : ∀ e, rest1 () = .err e → rest2 () = .err e) :
    (∀ ps, ResL.cons r (fun s => (s, b)) rest1 = .ok ps → ResL.cons r id rest2 = .ok (ps.map (·.1))) ∧
    (∀ e, ResL.cons r (fun s => (s, b)) rest1 = .err e → ResL.cons r id rest2 = .err e) := by
  cases r with
  | text s =>
    simp only [ResL.cons]
    cases hr : rest1 () with
    | ok xs => rw [h xs hr]; constructor <;> intro _ hh <;> cases hh <;> simp
    | err e => rw [he e hr]; constructor <;> intro _ hh <;> cases hh <;> rfl
  | reported c => simp [ResL.cons]
  | fault k => simp [ResL.cons]

theorem fmtVal_ref_scalar (io : FloatIO) (m : FMap) (ind : Ind) (v : Val) (hv : v.isContainer = false) :
    fmtVal io m ind v = refVal io m v := by
  cases v <;> first | rfl | (simp [Val.isContainer] at hv)

mutual
/-- **containers, recursively**: for values of any depth, under any per-type format map whose container formats are
    non-alt, the model's rendering is the reference rendering -/
theorem fmtVal_ref (io : FloatIO) : ∀ (v : Val) (m : FMap) (ind : Ind), ind.indenting = false → PlainContainers m →
    fmtVal io m ind v = refVal io m v
  | .undef, m, ind, _, _ => rfl
  | .dflt, m, ind, _, _ => rfl
  | .bool _, m, ind, _, _ => rfl
  | .int _, m, ind, _, _ => rfl
  | .float _, m, ind, _, _ => rfl
  | .str _, m, ind, _, _ => rfl
  | .regexp _, m, ind, _, _ => rfl
  | .binary _ _, m, ind, _, _ => rfl
  | .array vs, m, ind, hi, hp => by
    have ih := fmtElems_ref io vs m (cfOf (getFormat m .arr)) (arrayChildInd (getFormat m .arr).f ind)
      (arrayChildInd_indenting _ ind hp.1 hi) hp
    simp only [fmtVal, refVal]
    split
    · rfl
    · cases hr : fmtElems io m (cfOf (getFormat m .arr)) (arrayChildInd (getFormat m .arr).f ind) vs with
      | ok parts =>
        rw [ih.1 parts hr]
        simp only
        rw [arrayAssemble_nonalt _ _ _ hp.1 hi]
      | err e => rw [ih.2 e hr]
  | .hash es, m, ind, hi, hp => by
    have ih := fmtPairs_ref io es m (cfOf (getFormat m .hash)) (hashChildInd (getFormat m .hash).f ind)
      (hashChildInd_indenting _ ind hp.2.1 hi) hp
    simp only [fmtVal, refVal, if_neg hp.2.2]
    split
    · rfl
    · rw [ih]
      cases refPairs io m (cfOf (getFormat m .hash)) es with
      | ok parts => simp only; rw [hashAssemble_nonalt _ _ _ hp.2.1 hi]
      | err e => rfl

theorem fmtElems_ref (io : FloatIO) : ∀ (vs : List Val) (m cf : FMap) (ci : Ind), ci.indenting = false → PlainContainers m →
    (∀ ps, fmtElems io m cf ci vs = .ok ps → refElems io m cf vs = .ok (ps.map (·.1))) ∧
    (∀ e, fmtElems io m cf ci vs = .err e → refElems io m cf vs = .err e)
  | [], m, cf, ci, _, _ => by
    constructor
    · intro ps h; simp [fmtElems] at h; subst h; simp [refElems]
    · intro e h; simp [fmtElems] at h
  | v :: vs, m, cf, ci, hi, hp => by
    have ih := fmtElems_ref io vs m cf ci hi hp
    have hv : fmtVal io (if v.isContainer then m else cf) ci v = refVal io (if v.isContainer then m else cf) v := by
      by_cases hc : v.isContainer = true
      · simp only [hc, if_true]; exact fmtVal_ref io v m ci hi hp
      · simp only [hc]; exact fmtVal_ref_scalar io cf ci v (by simpa using hc)
    simp only [fmtElems, refElems, hv]
    exact map_fst_cons _ _ _ _ ih.1 ih.2

theorem fmtPairs_ref (io : FloatIO) : ∀ (es : List Entry) (m cf : FMap) (ci : Ind), ci.indenting = false → PlainContainers m →
    fmtPairs io m cf ci es = refPairs io m cf es
  | [], m, cf, ci, _, _ => by simp [fmtPairs, refPairs]
  | .mk k v :: es, m, cf, ci, hi, hp => by
    have ih := fmtPairs_ref io es m cf ci hi hp
    have hk : fmtVal io (if k.isContainer then m else cf) ci k = refVal io (if k.isContainer then m else cf) k := by
      by_cases hc : k.isContainer = true
      · simp only [hc, if_true]; exact fmtVal_ref io k m ci hi hp
      · simp only [hc]; exact fmtVal_ref_scalar io cf ci k (by simpa using hc)
    have hv : fmtVal io (if v.isContainer then m else cf) ci v = refVal io (if v.isContainer then m else cf) v := by
      by_cases hc : v.isContainer = true
      · simp only [hc, if_true]; exact fmtVal_ref io v m ci hi hp
      · simp only [hc]; exact fmtVal_ref_scalar io cf ci v (by simpa using hc)
    simp only [fmtPairs, refPairs, hk, hv, ih]
    cases refVal io (if k.isContainer = true then m else cf) k <;> rfl
end

end Pcore.Format
