import Pcore.Model.ImmutMutable
/-!
Helper lemmas for the MutableHashValue-as-object model (property C08): the pool only grows at its end; what a step pushes;
with `frozen := true` no alias is ever created.
-/
namespace Pcore.Mut
open Pcore.Heap

/-- the operations whose Go method may `return hv` -/
def MOp.sameSite : MOp → Bool
  | .delete _ _ => true
  | .deleteAll _ _ => true
  | .unique _ => true
  | .entries _ => true
  | _ => false

def MEntry.isAlias : MEntry → Bool
  | .alias _ => true
  | _ => false

theorem hashRecv_self_frozen {s : MState} {r : Nat} {es : List Val} {self : MEntry}
    (h : s.hashRecv true r = some (es, self)) : self.isAlias = false := by
  unfold MState.hashRecv at h
  split at h
  · cases ho : s.objs[‹Nat›]? <;> simp [ho] at h; rw [← h.2]; rfl
  · cases ho : s.objs[‹Nat›]? <;> simp [ho] at h; rw [← h.2]; rfl
  · simp at h; rw [← h.2]; rfl
  · cases h

/-- every step pushes exactly one entry -/
theorem mstep_pool (frozen : Bool) (s : MState) (op : MOp) : ∃ e, (mstep frozen s op).pool = s.pool ++ [e] := by
  cases op <;> simp only [mstep, MState.push]
  case mnew => exact ⟨_, rfl⟩
  case lit v =>
    split
    · exact ⟨_, rfl⟩
    · split <;> exact ⟨_, rfl⟩
  case put m k v =>
    split
    · split <;> exact ⟨_, rfl⟩
    · exact ⟨_, rfl⟩
  case putAll m a => split <;> exact ⟨_, rfl⟩
  case delete r k =>
    split
    · split
      · exact ⟨_, rfl⟩
      · split <;> exact ⟨_, rfl⟩
    · exact ⟨_, rfl⟩
  case deleteAll r a =>
    split
    · split <;> exact ⟨_, rfl⟩
    · exact ⟨_, rfl⟩
  case unique r => split <;> exact ⟨_, rfl⟩
  case entries r => split <;> exact ⟨_, rfl⟩
  case keys r => split <;> exact ⟨_, rfl⟩
  case values r => split <;> exact ⟨_, rfl⟩
  case slice r i j =>
    split
    · split <;> exact ⟨_, rfl⟩
    · exact ⟨_, rfl⟩
  case merge r a => split <;> exact ⟨_, rfl⟩

/-- an alias is pushed only by the four `return hv` operations, and never when answers are frozen -/
theorem mstep_alias (frozen : Bool) (s : MState) (op : MOp) (e : MEntry)
    (h : (mstep frozen s op).pool = s.pool ++ [e]) (ha : e.isAlias = true) : op.sameSite = true ∧ frozen = false := by
  have key : ∀ {e' : MEntry}, s.pool ++ [e'] = s.pool ++ [e] → e' = e := by
    intro e' h'
    have := List.append_cancel_left h'
    simpa using this
  have selfOK : ∀ {r es self}, s.hashRecv frozen r = some (es, self) → self = e → frozen = false := by
    intro r es self hr he
    cases frozen with
    | false => rfl
    | true =>
      have := hashRecv_self_frozen hr
      rw [he, ha] at this
      cases this
  cases op <;> simp only [mstep, MState.push] at h
  case mnew => have := key h; subst this; cases ha
  case lit v =>
    split at h
    · have := key h; subst this; cases ha
    · split at h <;> (have := key h; subst this; cases ha)
  case put m k v =>
    split at h
    · split at h <;> (have := key h; subst this; cases ha)
    · have := key h; subst this; cases ha
  case putAll m a => split at h <;> (have := key h; subst this; cases ha)
  case delete r k =>
    split at h
    · rename_i es self hr
      split at h
      · have := key h; subst this; cases ha
      · split at h
        · have := key h; subst this; cases ha
        · exact ⟨rfl, selfOK hr (key h)⟩
    · have := key h; subst this; cases ha
  case deleteAll r a =>
    split at h
    · rename_i es self ks hr _
      split at h
      · exact ⟨rfl, selfOK hr (key h)⟩
      · have := key h; subst this; cases ha
    · have := key h; subst this; cases ha
  case unique r =>
    split at h
    · rename_i es self hr
      exact ⟨rfl, selfOK hr (key h)⟩
    · have := key h; subst this; cases ha
  case entries r =>
    split at h
    · rename_i es self hr
      exact ⟨rfl, selfOK hr (key h)⟩
    · have := key h; subst this; cases ha
  case keys r => split at h <;> (have := key h; subst this; cases ha)
  case values r => split at h <;> (have := key h; subst this; cases ha)
  case slice r i j =>
    split at h
    · split at h <;> (have := key h; subst this; cases ha)
    · have := key h; subst this; cases ha
  case merge r a => split at h <;> (have := key h; subst this; cases ha)

theorem foldl_pool (frozen : Bool) (ops : List MOp) :
    ∀ s : MState, ∃ es, es.length = ops.length ∧ (ops.foldl (mstep frozen) s).pool = s.pool ++ es := by
  induction ops with
  | nil => intro s; exact ⟨[], rfl, by simp⟩
  | cons op ops ih =>
    intro s
    obtain ⟨e, he⟩ := mstep_pool frozen s op
    obtain ⟨es, hl, hes⟩ := ih (mstep frozen s op)
    exact ⟨e :: es, by simp [hl], by simp only [List.foldl_cons]; rw [hes, he, List.append_assoc]; rfl⟩

theorem mrun_length (frozen : Bool) (ops : List MOp) : (mrun frozen ops).pool.length = ops.length := by
  obtain ⟨es, hl, h⟩ := foldl_pool frozen ops {}
  unfold mrun
  rw [h]
  simp [hl]

/-- the pool only grows at its end: entry `i` of a longer run is entry `i` of the shorter one -/
theorem mrun_prefix (frozen : Bool) (ops : List MOp) (i j j' : Nat) (hij : i < j) (hjj : j ≤ j') (hj : j' ≤ ops.length) :
    (mrun frozen (ops.take j')).pool[i]? = (mrun frozen (ops.take j)).pool[i]? := by
  have e : ops.take j' = ops.take j ++ (ops.take j').drop j := by
    have : ops.take j = (ops.take j').take j := by rw [List.take_take]; congr 1; omega
    rw [this, List.take_append_drop]
  have hlen : (mrun frozen (ops.take j)).pool.length = j := by
    rw [mrun_length, List.length_take]; omega
  unfold mrun at hlen ⊢
  rw [e, List.foldl_append]
  obtain ⟨es, _, hes⟩ := foldl_pool frozen ((ops.take j').drop j) (List.foldl (mstep frozen) {} (ops.take j))
  rw [hes, List.getElem?_append_left (by omega)]

/-- with frozen answers the pool never holds an alias -/
theorem frozen_no_alias (ops : List MOp) : ∀ e ∈ (mrun true ops).pool, e.isAlias = false := by
  suffices h : ∀ (s : MState), (∀ e ∈ s.pool, e.isAlias = false) →
      ∀ e ∈ (ops.foldl (mstep true) s).pool, e.isAlias = false from h {} (by intro e he; cases he)
  induction ops with
  | nil => intro s hs; exact hs
  | cons op ops ih =>
    intro s hs
    simp only [List.foldl_cons]
    apply ih
    obtain ⟨e, he⟩ := mstep_pool true s op
    intro e' he'
    rw [he, List.mem_append] at he'
    rcases he' with h1 | h1
    · exact hs e' h1
    · simp only [List.mem_cons, List.not_mem_nil, or_false] at h1
      subst h1
      cases hb : e'.isAlias with
      | false => rfl
      | true => exact absurd (mstep_alias true s op e' he hb).2 (by decide)

end Pcore.Mut
