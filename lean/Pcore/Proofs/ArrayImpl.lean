import Pcore.Model.ArrayPool
/-!
`types.Array`: the loops of the implementation model compute the sequence functions of the specification, for
every history over a pool of arrays; nothing that is in the pool ever changes.
-/
namespace Pcore.Coll.Arr
variable {α κ : Type} [DecidableEq κ]

theorem uniqueFrom_spec (key : α → κ) (a : List α) (seen : List κ) :
    ((uniqueFrom key a seen).map key).Nodup ∧ (∀ e ∈ uniqueFrom key a seen, key e ∉ seen) ∧
      (uniqueFrom key a seen).Sublist a ∧
      (∀ e ∈ a, key e ∈ seen ∨ key e ∈ (uniqueFrom key a seen).map key) := by
  induction a generalizing seen with
  | nil => simp [uniqueFrom]
  | cons v vs ih =>
    by_cases h : seen.contains (key v) = true
    · obtain ⟨h1, h2, h3, h4⟩ := ih seen
      simp only [uniqueFrom, h, if_true]
      refine ⟨h1, h2, List.Sublist.cons _ h3, ?_⟩
      intro e he
      rcases List.mem_cons.mp he with rfl | he
      · left; simpa using h
      · exact h4 e he
    · obtain ⟨h1, h2, h3, h4⟩ := ih (key v :: seen)
      have hns : key v ∉ seen := by simpa using h
      simp only [uniqueFrom, h, if_false, Bool.false_eq_true]
      refine ⟨?_, ?_, List.Sublist.cons₂ _ h3, ?_⟩
      · simp only [List.map_cons, List.nodup_cons]
        refine ⟨?_, h1⟩
        intro hm
        obtain ⟨e, he, hk⟩ := List.mem_map.mp hm
        exact h2 e he (by simp [hk])
      · intro e he
        rcases List.mem_cons.mp he with rfl | he
        · exact hns
        · intro hm; exact h2 e he (List.mem_cons_of_mem _ hm)
      · intro e he
        rcases List.mem_cons.mp he with rfl | he
        · right; simp
        · rcases h4 e he with hm | hm
          · rcases List.mem_cons.mp hm with heq | hm
            · right; simp [heq]
            · left; exact hm
          · right; simp only [List.map_cons, List.mem_cons]; right; exact hm

omit [DecidableEq κ] in
theorem rejectLoop_eq (p : α → Bool) (a acc : List α) : rejectLoop p a acc = acc ++ a.filter (fun e => !p e) := by
  induction a generalizing acc with
  | nil => simp [rejectLoop]
  | cons e es ih => by_cases h : p e = true <;> simp [rejectLoop, h, ih]

theorem delete_eq (key : α → κ) (a : List α) (v : α) :
    delete key a v = a.filter (fun e => !decide (key e = key v)) := by
  simp [delete, rejectLoop_eq]

theorem deleteAll_eq (key : α → κ) (a b : List α) :
    deleteAll key a b = a.filter (fun e => !(b.map key).contains (key e)) := by
  simp only [deleteAll, rejectLoop_eq, List.nil_append]
  congr 1
  funext e
  congr 1
  rw [Bool.eq_iff_iff]
  simp only [List.any_eq_true, decide_eq_true_eq, List.contains_iff_mem, List.mem_map]
  constructor
  · rintro ⟨o, ho, h⟩; exact ⟨o, ho, h.symm⟩
  · rintro ⟨o, ho, h⟩; exact ⟨o, ho, h.symm⟩

omit [DecidableEq κ] in
theorem range_filterMap_getElem (l : List α) (m : Nat) : (List.range m).filterMap (fun n => l[n]?) = l.take m := by
  induction m with
  | zero => simp
  | succ m ih =>
    rw [List.range_succ, List.filterMap_append, ih, List.take_succ]
    cases h : l[m]? <;> simp [h]

omit [DecidableEq κ] in
theorem addAll_eq (a b : List α) : addAll a b = a ++ b := by
  simp [addAll, range_filterMap_getElem]

omit [DecidableEq κ] in
theorem slice_eq (a : List α) (i j : Nat) (h : i ≤ j ∧ j ≤ a.length) : slice a i j = some (ASpec.slice a i j) := by
  simp only [slice, h, and_self, if_true, ASpec.slice]
  congr 1
  rw [← range_filterMap_getElem]
  congr 1
  funext n
  simp [List.getElem?_drop]

theorem filter_not_contains_cons (key : α → κ) (v : α) (seen : List κ) (vs : List α) :
    vs.filter (fun e => !(key v :: seen).contains (key e)) =
      (vs.filter (fun e => !seen.contains (key e))).filter (fun e => !decide (key e = key v)) := by
  rw [List.filter_filter]
  apply List.filter_congr
  intro e _
  by_cases h : key e = key v <;> simp [h]

theorem uniqueFrom_eq (key : α → κ) (a : List α) (seen : List κ) :
    uniqueFrom key a seen = ASpec.firsts key (a.filter (fun e => !seen.contains (key e))) := by
  induction a generalizing seen with
  | nil => simp [uniqueFrom, ASpec.firsts]
  | cons v vs ih =>
    by_cases h : seen.contains (key v) = true
    · have h' : ¬ (!seen.contains (key v)) = true := by rw [h]; decide
      rw [uniqueFrom, if_pos h, ih, List.filter_cons, if_neg h']
    · rw [uniqueFrom, if_neg h, ih, List.filter_cons]
      have h' : (!seen.contains (key v)) = true := by simpa using h
      rw [if_pos h', ASpec.firsts, filter_not_contains_cons]

theorem unique_eq (key : α → κ) (a : List α) : unique key a = ASpec.firsts key a := by
  rw [unique, uniqueFrom_eq]; congr 1; simp

omit [DecidableEq κ] in
theorem take_min_length (l : List α) (n : Nat) : l.take (min n l.length) = l.take n := by
  by_cases h : n ≤ l.length
  · simp [Nat.min_eq_left h]
  · have : l.length ≤ n := by omega
    simp [Nat.min_eq_right this, List.take_of_length_le this]

omit [DecidableEq κ] in
theorem eachSliceLoop_eq (n : Nat) (hn : 0 < n) (a : List α) (i fuel : Nat) (hf : a.length - i ≤ fuel) :
    eachSliceLoop n a i fuel = ASpec.chunks n (a.drop i) := by
  induction fuel generalizing i with
  | zero =>
    have : a.drop i = [] := List.drop_eq_nil_of_le (by omega)
    simp [eachSliceLoop, this, ASpec.chunks]
  | succ fuel ih =>
    by_cases hi : i < a.length
    · simp only [eachSliceLoop, hi, if_true]
      have hne : 0 < (a.drop i).length := by simp; omega
      cases hd : a.drop i with
      | nil => simp [hd] at hne
      | cons v vs =>
        have hn0 : n ≠ 0 := by omega
        rw [ASpec.chunks]
        simp only [hn0, if_false]
        rw [← hd, List.drop_drop, ← ih (i + n) (by omega)]
        congr 1
        have : min (i + n) a.length - i = min n (a.drop i).length := by simp; omega
        rw [this, take_min_length]
    · have : a.drop i = [] := List.drop_eq_nil_of_le (by omega)
      simp [eachSliceLoop, hi, this, ASpec.chunks]

omit [DecidableEq κ] in
theorem eachSlice_eq (n : Int) (hn : ¬ n < 1) (a : List α) : eachSlice n a = some (ASpec.chunks n.toNat a) := by
  have h0 : 0 < n.toNat := by omega
  simp [eachSlice, hn, eachSliceLoop_eq n.toNat h0 a 0 a.length (by omega)]

end Pcore.Coll.Arr

namespace Pcore.Coll
variable {α κ : Type} [DecidableEq κ]

/-- every step of the implementation model is the specification's step -/
theorem stepAImpl_eq (key : α → κ) (le : α → α → Bool) (pool : List (List α)) (op : AOp α) :
    stepAImpl key le pool op = stepASpec key le pool op := by
  cases op with
  | slice i x y =>
    simp only [stepAImpl, stepASpec]
    cases pool[i]? with
    | none => rfl
    | some a =>
      by_cases h : x ≤ y ∧ y ≤ a.length
      · simp [Arr.slice_eq a x y h, h]
      · simp [Arr.slice, h]
  | eachSlice i n =>
    simp only [stepAImpl, stepASpec]
    cases pool[i]? with
    | none => rfl
    | some a =>
      by_cases h : n < 1
      · simp [Arr.eachSlice, h]
      · simp [Arr.eachSlice_eq n h, h]
  | _ =>
    simp only [stepAImpl, stepASpec, Arr.add, Arr.addAll_eq, Arr.delete_eq, Arr.deleteAll_eq, Arr.unique_eq, Arr.sort,
      Arr.atInt, Arr.find] <;> rfl

theorem runAImpl_eq (key : α → κ) (le : α → α → Bool) (pool : List (List α)) (ops : List (AOp α)) :
    runAImpl key le pool ops = runASpec key le pool ops := by
  induction ops generalizing pool with
  | nil => rfl
  | cons op ops ih => simp only [runAImpl, runASpec, stepAImpl_eq, ih]

/-- a step never changes an array that is already in the pool: it only appends -/
theorem stepASpec_prefix (key : α → κ) (le : α → α → Bool) (pool : List (List α)) (op : AOp α) :
    pool <+: (stepASpec key le pool op).1 := by
  cases op <;> simp only [stepASpec] <;> (repeat' split) <;> simp [List.prefix_refl]

theorem runASpec_prefix (key : α → κ) (le : α → α → Bool) (pool : List (List α)) (ops : List (AOp α)) :
    pool <+: (runASpec key le pool ops).2 := by
  induction ops generalizing pool with
  | nil => exact List.prefix_refl _
  | cons op ops ih => exact List.IsPrefix.trans (stepASpec_prefix key le pool op) (ih _)

/-! ### Flatten -/

mutual
theorem AVal.flat_noArr : ∀ v : AVal, ∀ x ∈ v.flat, x.isArr = false
  | .leaf s, x, hx => by simp [AVal.flat] at hx; subst hx; rfl
  | .arr vs, x, hx => AVal.flats_noArr vs x (by simpa [AVal.flat] using hx)
theorem AVal.flats_noArr : ∀ vs : List AVal, ∀ x ∈ AVal.flats vs, x.isArr = false
  | [], x, hx => by simp [AVal.flats] at hx
  | v :: vs, x, hx => by
    simp only [AVal.flats, List.mem_append] at hx
    rcases hx with h | h
    · exact AVal.flat_noArr v x h
    · exact AVal.flats_noArr vs x h
end

theorem AVal.flats_of_noArr : ∀ vs : List AVal, (∀ x ∈ vs, x.isArr = false) → AVal.flats vs = vs
  | [], _ => rfl
  | v :: vs, h => by
    have hv := h v (by simp)
    have ih := AVal.flats_of_noArr vs (fun x hx => h x (by simp [hx]))
    cases v with
    | leaf s => simp [AVal.flats, AVal.flat, ih]
    | arr ws => simp [AVal.isArr] at hv

end Pcore.Coll

namespace Pcore.Coll.ASpec
variable {α κ : Type} [DecidableEq κ]

omit [DecidableEq κ] in
theorem chunks_spec (n : Nat) (hn : 0 < n) (a : List α) :
    (chunks n a).flatten = a ∧ ∀ c ∈ chunks n a, 0 < c.length ∧ c.length ≤ n := by
  generalize hl : a.length = m
  induction m using Nat.strongRecOn generalizing a with
  | _ m ih =>
    cases a with
    | nil => simp [chunks]
    | cons v vs =>
      have hn0 : n ≠ 0 := by omega
      rw [chunks]
      simp only [hn0, if_false]
      have hlt : ((v :: vs).drop n).length < m := by
        simp only [List.length_drop, ← hl, List.length_cons]; omega
      obtain ⟨h1, h2⟩ := ih _ hlt ((v :: vs).drop n) rfl
      refine ⟨by simp [h1], ?_⟩
      intro c hc
      rcases List.mem_cons.mp hc with rfl | hc
      · constructor
        · simp [List.length_take]; omega
        · simp [List.length_take]; omega
      · exact h2 c hc

theorem firsts_spec (key : α → κ) (a : List α) :
    ((firsts key a).map key).Nodup ∧ (firsts key a).Sublist a ∧ ∀ e ∈ a, key e ∈ (firsts key a).map key := by
  rw [← Arr.unique_eq]
  obtain ⟨h1, _, h3, h4⟩ := Arr.uniqueFrom_spec key a []
  exact ⟨h1, h3, fun e he => by simpa [Arr.unique] using h4 e he⟩

omit [DecidableEq κ] in
theorem slice_spec (a : List α) (i j : Nat) (h : i ≤ j ∧ j ≤ a.length) :
    (slice a i j).length = j - i ∧ ∀ n, n < j - i → (slice a i j)[n]? = a[i + n]? := by
  have : slice a i j = (a.drop i).take (j - i) := by
    have := Arr.slice_eq a i j h
    simp [Arr.slice, h] at this
    exact this.symm
  rw [this]
  refine ⟨by simp; omega, ?_⟩
  intro n hn
  simp [List.getElem?_take, hn]

end Pcore.Coll.ASpec
