import Pcore.Model.ArrayImpl
/-! Laws of the `types.Array` operations as functions on immutable sequences. -/
namespace Pcore.Coll.Arr
variable {α κ : Type} [DecidableEq κ]

theorem uniqueFrom_spec (key : α → κ) (a : List α) (seen : List κ) :
    ((uniqueFrom key a seen).map key).Nodup ∧ (∀ e ∈ uniqueFrom key a seen, key e ∉ seen) ∧
      (uniqueFrom key a seen).Sublist a ∧
      (∀ e ∈ a, key e ∈ seen ∨ key e ∈ (uniqueFrom key a seen).map key) := by
  induction a generalizing seen with
  | nil => simp [uniqueFrom]
  | cons v vs ih =>
    by_cases h : seen.contains (key v) = true
    · obtain ⟨h1, h2, h3, h4⟩ := ih seen
      simp only [uniqueFrom, h, if_true]
      refine ⟨h1, h2, List.Sublist.cons _ h3, ?_⟩
      intro e he
      rcases List.mem_cons.mp he with rfl | he
      · left; simpa using h
      · exact h4 e he
    · obtain ⟨h1, h2, h3, h4⟩ := ih (key v :: seen)
      have hns : key v ∉ seen := by simpa using h
      simp only [uniqueFrom, h, if_false, Bool.false_eq_true]
      refine ⟨?_, ?_, List.Sublist.cons₂ _ h3, ?_⟩
      · simp only [List.map_cons, List.nodup_cons]
        refine ⟨?_, h1⟩
        intro hm
        obtain ⟨e, he, hk⟩ := List.mem_map.mp hm
        exact h2 e he (by simp [hk])
      · intro e he
        rcases List.mem_cons.mp he with rfl | he
        · exact hns
        · intro hm; exact h2 e he (List.mem_cons_of_mem _ hm)
      · intro e he
        rcases List.mem_cons.mp he with rfl | he
        · right; simp
        · rcases h4 e he with hm | hm
          · rcases List.mem_cons.mp hm with heq | hm
            · right; simp [heq]
            · left; exact hm
          · right; simp only [List.map_cons, List.mem_cons]; right; exact hm

end Pcore.Coll.Arr
