import Pcore.Proofs.LatTransDAux
set_option linter.unusedSimpArgs false
set_option linter.unusedVariables false
/-! C03: reflexivity for EVERY well-formed type, the built-in aliases Data / RichData nested anywhere (the proof of `asg_refl` needed the
    left-weakening principle, which stopped at an alias on the right; `weaken_variant_all` / `weaken_optional_all` do not). -/
namespace Pcore.Lat
variable (cfg : Cfg) (sfh : Bool)

theorem asg_refl_all : ∀ (n : Nat) (a : Ty), a.w ≤ n → Ty.WF cfg a → asg cfg sfh a a = true := by
  intro n
  induction n with
  | zero => intro a h; have := Ty.w_pos a; omega
  | succ n ih =>
    intro a hw hwf
    have viaRecv : a.plainR = true → asgRecv cfg sfh a a = true → asg cfg sfh a a = true := by
      intro hp h; rw [asg_plain_r cfg sfh a a hp, h]; simp
    cases a with
    | any => exact asg_any_l cfg sfh _
    | unit => exact asg_unit_r cfg sfh _
    | undef => exact asg_undef_undef cfg sfh
    | dflt => rw [asg_plain_r cfg sfh _ _ rfl]; simp [sameNullary]
    | scalar => rw [asg_plain_r cfg sfh _ _ rfl]; simp [sameNullary]
    | scalarData => rw [asg_plain_r cfg sfh _ _ rfl]; simp [sameNullary]
    | numeric => rw [asg_plain_r cfg sfh _ _ rfl]; simp [sameNullary]
    | data => rw [asg_data_r]; simp [sameNullary]
    | richData => rw [asg_rich_r]; simp [sameNullary]
    | str => rw [asg_plain_r cfg sfh _ _ rfl]; simp [sameNullary]
    | bin => rw [asg_plain_r cfg sfh _ _ rfl]; simp [sameNullary]
    | int r => apply viaRecv rfl; unfold asgRecv; simp [Rng.sub]
    | float lo hi => apply viaRecv rfl; unfold asgRecv; simp
    | bool b => apply viaRecv rfl; unfold asgRecv; cases b <;> simp
    | tspan r => apply viaRecv rfl; unfold asgRecv; simp [Rng.sub]
    | strSz r => apply viaRecv rfl; unfold asgRecv; simp [Rng.sub]
    | strVal s => apply viaRecv rfl; unfold asgRecv; simp
    | enum vs ci =>
      apply viaRecv rfl; unfold asgRecv
      unfold Ty.WF at hwf
      by_cases he : vs.isEmpty = true
      · simp [he, isStringFamily]
      · simp only [he, Bool.false_eq_true, if_false]
        simp only [Bool.and_eq_true, Bool.not_eq_true', Bool.or_eq_true, List.all_eq_true]
        refine ⟨⟨by simpa using he, by cases ci <;> simp⟩, ?_⟩
        intro s hs
        simp only [enumInst, Bool.or_eq_true]
        right
        cases ci with
        | false => simpa using hs
        | true => simp [hwf rfl s hs, hs]
    | pattern rs =>
      apply viaRecv rfl; unfold asgRecv
      by_cases he : rs.isEmpty = true
      · simp [he]
      · simp [he, subsetStr]
    | regexp s => apply viaRecv rfl; unfold asgRecv; simp
    | coll r => apply viaRecv rfl; unfold asgRecv; simp [Rng.sub]
    | array e r =>
      unfold Ty.WF at hwf; simp only [Ty.w] at hw
      apply viaRecv rfl; unfold asgRecv
      simp [Rng.sub_refl, ih e (by omega) hwf]
    | hash k v r =>
      unfold Ty.WF at hwf; simp only [Ty.w] at hw
      apply viaRecv rfl; unfold asgRecv
      simp [Rng.sub_refl, ih k (by omega) hwf.1, ih v (by omega) hwf.2]
    | tuple ts g =>
      unfold Ty.WF at hwf; simp only [Ty.w] at hw
      apply viaRecv rfl; unfold asgRecv
      simp only [Rng.sub_refl, Bool.true_and, Bool.or_eq_true]
      by_cases hts : ts = []
      · left; simp [hts]
      · right
        have hne : ¬ (ts.isEmpty = true) := by simp [List.isEmpty_iff, hts]
        rw [if_neg hne, tupZip_iff cfg sfh ts ts _ hts hts]
        intro i a b _ _ ha hb
        rw [ha] at hb; cases hb
        have hm : a ∈ ts := List.mem_of_getElem? ha
        exact ih a (by have := Ty.w_lt_wl hm; omega) (hwf a hm)
    | struct ms =>
      unfold Ty.WF at hwf; simp only [Ty.w] at hw
      apply viaRecv rfl; unfold asgRecv
      simp only [beq_iff_eq]
      exact structAll_refl cfg sfh ms hwf.1 (fun m hm => ih m.2.2 (by have := Ty.w_lt_wm hm; omega) (hwf.2 m hm))
    | variant ts =>
      unfold Ty.WF at hwf; simp only [Ty.w] at hw
      rw [asg_variant_r]
      simp only [Bool.or_eq_true]; right
      rw [asgAllR_iff]
      intro t hm
      have hwt : t.w ≤ n := by have := Ty.w_lt_wl hm; omega
      exact wv_all cfg sfh hm (ih t hwt (hwf t hm))
    | optional x =>
      unfold Ty.WF at hwf; simp only [Ty.w] at hw
      rw [asg_optional_r]
      simp only [Bool.or_eq_true, Bool.and_eq_true]; right
      constructor
      · rw [asg_plain_r cfg sfh _ .undef rfl]
        simp only [Bool.or_eq_true]; right
        unfold asgRecv; simp [asg_undef_undef]
      · exact wo_all cfg sfh (ih x (by omega) hwf)
    | notUndef x =>
      unfold Ty.WF at hwf; simp only [Ty.w] at hw
      have hx := ih x (by omega) hwf
      rw [asg_notUndef_r]
      simp only [Bool.or_eq_true]; right
      by_cases hc : asg cfg sfh x .undef = true
      · simp only [hc, Bool.not_true, Bool.false_eq_true, if_false]
        unfold asgRecv; simp [hx]
      · have hc' : asg cfg sfh x .undef = false := by cases hh : asg cfg sfh x .undef <;> simp_all
        simp only [hc', Bool.not_false, if_true]
        exact nu_accepts cfg sfh x x.w x (Nat.le_refl _) hc' hx
    | typ x =>
      unfold Ty.WF at hwf; simp only [Ty.w] at hw
      apply viaRecv rfl; unfold asgRecv; simp [ih x (by omega) hwf]
    | sensitive x =>
      unfold Ty.WF at hwf; simp only [Ty.w] at hw
      apply viaRecv rfl; unfold asgRecv; simp [ih x (by omega) hwf]
    | iterable x =>
      unfold Ty.WF at hwf; simp only [Ty.w] at hw
      apply viaRecv rfl; unfold asgRecv; simp [ih x (by omega) hwf]
    | object p =>
      apply viaRecv rfl; unfold asgRecv
      cases p <;> simp [isPrefix_refl]


/-- `Optional[a] ⊒ Optional[b]` from `a ⊒ b`, any `b` -/
theorem mono_optional_all (a b : Ty) (h : asg cfg sfh a b = true) : asg cfg sfh (.optional a) (.optional b) = true := by
  rw [asg_optional_r]
  simp only [Bool.or_eq_true, Bool.and_eq_true]; right
  exact ⟨asg_optional_undef cfg sfh a, wo_all cfg sfh h⟩

/-- `Variant[..a..] ⊒ Variant[..b..]` from `a ⊒ b`, any `b`, the sibling members reflexive -/
theorem mono_variant_all (pre post : List Ty) (a b : Ty) (hsib : ∀ t ∈ pre ++ post, asg cfg sfh t t = true)
    (h : asg cfg sfh a b = true) : asg cfg sfh (.variant (pre ++ a :: post)) (.variant (pre ++ b :: post)) = true := by
  rw [asg_variant_r]
  simp only [Bool.or_eq_true]; right
  rw [asgAllR_iff]
  intro t ht
  simp only [List.mem_append, List.mem_cons] at ht
  rcases ht with ht | rfl | ht
  · exact wv_all cfg sfh (by simp [ht]) (hsib t (by simp [ht]))
  · exact wv_all cfg sfh (by simp) h
  · exact wv_all cfg sfh (by simp [ht]) (hsib t (by simp [ht]))

end Pcore.Lat
