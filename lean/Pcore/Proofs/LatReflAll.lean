import Pcore.Proofs.LatTransDAux
import Pcore.Proofs.LatEq
set_option linter.unusedSimpArgs false
set_option linter.unusedVariables false
/-! C03: reflexivity for EVERY well-formed type, the built-in aliases Data / RichData nested anywhere (the proof of `asg_refl` needed the
    left-weakening principle, which stopped at an alias on the right; `weaken_variant_all` / `weaken_optional_all` do not). -/
namespace Pcore.Lat
variable (cfg : Cfg) (sfh : Bool)

theorem asg_refl_all : ∀ (n : Nat) (a : Ty), a.w ≤ n → Ty.WF cfg a → asg cfg sfh a a = true := by
  intro n
  induction n with
  | zero => intro a h; have := Ty.w_pos a; omega
  | succ n ih =>
    intro a hw hwf
    have viaRecv : a.plainR = true → asgRecv cfg sfh a a = true → asg cfg sfh a a = true := by
      intro hp h; rw [asg_plain_r cfg sfh a a hp, h]; simp
    cases a with
    | any => exact asg_any_l cfg sfh _
    | unit => exact asg_unit_r cfg sfh _
    | callable p r k =>
      unfold Ty.WF at hwf; simp only [Ty.w, Ty.wo] at hw
      apply viaRecv rfl; rw [recv_callable_eq]
      apply callAcc_refl
      · intro t ht; subst ht; simp only [Ty.wo] at hw; exact ih t (by omega) hwf.1
      · intro t ht; subst ht; simp only [Ty.wo] at hw; exact ih t (by omega) hwf.2.1
      · intro t ht; subst ht; simp only [Ty.wo] at hw; exact ih t (by omega) hwf.2.2
    | undef => exact asg_undef_undef cfg sfh
    | dflt => rw [asg_plain_r cfg sfh _ _ rfl]; simp [sameNullary]
    | scalar => rw [asg_plain_r cfg sfh _ _ rfl]; simp [sameNullary]
    | scalarData => rw [asg_plain_r cfg sfh _ _ rfl]; simp [sameNullary]
    | numeric => rw [asg_plain_r cfg sfh _ _ rfl]; simp [sameNullary]
    | data => rw [asg_data_r]; simp [sameNullary]
    | richData => rw [asg_rich_r]; simp [sameNullary]
    | str => rw [asg_plain_r cfg sfh _ _ rfl]; simp [sameNullary]
    | bin => rw [asg_plain_r cfg sfh _ _ rfl]; simp [sameNullary]
    | int r => apply viaRecv rfl; unfold asgRecv; simp [Rng.sub]
    | float lo hi => apply viaRecv rfl; unfold asgRecv; simp
    | bool b => apply viaRecv rfl; unfold asgRecv; cases b <;> simp
    | tspan r => apply viaRecv rfl; unfold asgRecv; simp [Rng.sub]
    | tstamp r => apply viaRecv rfl; unfold asgRecv; simp [Rng.sub]
    | strSz r => apply viaRecv rfl; unfold asgRecv; simp [Rng.sub]
    | strVal s => apply viaRecv rfl; unfold asgRecv; simp
    | enum vs ci =>
      apply viaRecv rfl; unfold asgRecv
      unfold Ty.WF at hwf
      by_cases he : vs.isEmpty = true
      · simp [he, isStringFamily]
      · simp only [he, Bool.false_eq_true, if_false]
        simp only [Bool.and_eq_true, Bool.not_eq_true', Bool.or_eq_true, List.all_eq_true]
        refine ⟨⟨by simpa using he, by cases ci <;> simp⟩, ?_⟩
        intro s hs
        simp only [enumInst, Bool.or_eq_true]
        right
        cases ci with
        | false => simpa using hs
        | true => simp [hwf rfl s hs, hs]
    | pattern rs =>
      apply viaRecv rfl; unfold asgRecv
      by_cases he : rs.isEmpty = true
      · simp [he]
      · simp [he, subsetStr]
    | regexp s => apply viaRecv rfl; unfold asgRecv; simp
    | runtime rt nm pt => apply viaRecv rfl; rw [recv_runtime_eq]; exact rtAcc_refl rt nm pt
    | coll r => apply viaRecv rfl; unfold asgRecv; simp [Rng.sub]
    | array e r =>
      unfold Ty.WF at hwf; simp only [Ty.w] at hw
      apply viaRecv rfl; unfold asgRecv
      simp [Rng.sub_refl, ih e (by omega) hwf]
    | hash k v r =>
      unfold Ty.WF at hwf; simp only [Ty.w] at hw
      apply viaRecv rfl; unfold asgRecv
      simp [Rng.sub_refl, ih k (by omega) hwf.1, ih v (by omega) hwf.2]
    | tuple ts g =>
      unfold Ty.WF at hwf; simp only [Ty.w] at hw
      apply viaRecv rfl; unfold asgRecv
      simp only [Rng.sub_refl, Bool.true_and, Bool.or_eq_true]
      by_cases hts : ts = []
      · left; simp [hts]
      · right
        have hne : ¬ (ts.isEmpty = true) := by simp [List.isEmpty_iff, hts]
        rw [if_neg hne, tupZip_iff cfg sfh ts ts _ hts hts]
        intro i a b _ _ ha hb
        rw [ha] at hb; cases hb
        have hm : a ∈ ts := List.mem_of_getElem? ha
        exact ih a (by have := Ty.w_lt_wl hm; omega) (hwf a hm)
    | struct ms =>
      unfold Ty.WF at hwf; simp only [Ty.w] at hw
      apply viaRecv rfl; unfold asgRecv
      simp only [beq_iff_eq]
      exact structAll_refl cfg sfh ms hwf.1 (fun m hm => ih m.2.2 (by have := Ty.w_lt_wm hm; omega) (hwf.2 m hm))
    | variant ts =>
      unfold Ty.WF at hwf; simp only [Ty.w] at hw
      rw [asg_variant_r]
      simp only [Bool.or_eq_true]; right
      rw [asgAllR_iff]
      intro t hm
      have hwt : t.w ≤ n := by have := Ty.w_lt_wl hm; omega
      exact wv_all cfg sfh hm (ih t hwt (hwf t hm))
    | optional x =>
      unfold Ty.WF at hwf; simp only [Ty.w] at hw
      rw [asg_optional_r]
      simp only [Bool.or_eq_true, Bool.and_eq_true]; right
      constructor
      · rw [asg_plain_r cfg sfh _ .undef rfl]
        simp only [Bool.or_eq_true]; right
        unfold asgRecv; simp [asg_undef_undef]
      · exact wo_all cfg sfh (ih x (by omega) hwf)
    | notUndef x =>
      unfold Ty.WF at hwf; simp only [Ty.w] at hw
      have hx := ih x (by omega) hwf
      rw [asg_notUndef_r]
      simp only [Bool.or_eq_true]; right
      by_cases hc : asg cfg sfh x .undef = true
      · simp only [hc, Bool.not_true, Bool.false_eq_true, if_false]
        unfold asgRecv; simp [hx]
      · have hc' : asg cfg sfh x .undef = false := by cases hh : asg cfg sfh x .undef <;> simp_all
        simp only [hc', Bool.not_false, if_true]
        exact nu_accepts cfg sfh x x.w x (Nat.le_refl _) hc' hx
    | typ x =>
      unfold Ty.WF at hwf; simp only [Ty.w] at hw
      apply viaRecv rfl; unfold asgRecv; simp [ih x (by omega) hwf]
    | sensitive x =>
      unfold Ty.WF at hwf; simp only [Ty.w] at hw
      apply viaRecv rfl; unfold asgRecv; simp [ih x (by omega) hwf]
    | iterator x =>
      unfold Ty.WF at hwf; simp only [Ty.w] at hw
      apply viaRecv rfl; unfold asgRecv; simp [ih x (by omega) hwf]
    | iterable x =>
      unfold Ty.WF at hwf; simp only [Ty.w] at hw
      apply viaRecv rfl; unfold asgRecv; simp [ih x (by omega) hwf]
    | object p =>
      apply viaRecv rfl; unfold asgRecv
      cases p <;> simp [isPrefix_refl]


/-- `Optional[a] ⊒ Optional[b]` from `a ⊒ b`, any `b` -/
theorem mono_optional_all (a b : Ty) (h : asg cfg sfh a b = true) : asg cfg sfh (.optional a) (.optional b) = true := by
  rw [asg_optional_r]
  simp only [Bool.or_eq_true, Bool.and_eq_true]; right
  exact ⟨asg_optional_undef cfg sfh a, wo_all cfg sfh h⟩

/-- `Variant[..a..] ⊒ Variant[..b..]` from `a ⊒ b`, any `b`, the sibling members reflexive -/
theorem mono_variant_all (pre post : List Ty) (a b : Ty) (hsib : ∀ t ∈ pre ++ post, asg cfg sfh t t = true)
    (h : asg cfg sfh a b = true) : asg cfg sfh (.variant (pre ++ a :: post)) (.variant (pre ++ b :: post)) = true := by
  rw [asg_variant_r]
  simp only [Bool.or_eq_true]; right
  rw [asgAllR_iff]
  intro t ht
  simp only [List.mem_append, List.mem_cons] at ht
  rcases ht with ht | rfl | ht
  · exact wv_all cfg sfh (by simp [ht]) (hsib t (by simp [ht]))
  · exact wv_all cfg sfh (by simp) h
  · exact wv_all cfg sfh (by simp [ht]) (hsib t (by simp [ht]))

/-- equal types accept each other — every well-formed pair, aliases nested anywhere -/
theorem eq_asg_all : ∀ (n : Nat) (a b : Ty), a.w + b.w ≤ n → Ty.WF cfg a → Ty.WF cfg b →
    tyEq a b = true → asg cfg sfh a b = true ∧ asg cfg sfh b a = true := by
  intro n
  induction n with
  | zero => intro a b h; have := Ty.w_pos a; omega
  | succ n ih =>
    intro a b hw wa wb h
    have same : a = b → asg cfg sfh a b = true ∧ asg cfg sfh b a = true := by
      intro hab; subst hab
      have := asg_refl_all cfg sfh a.w a (Nat.le_refl _) wa
      exact ⟨this, this⟩
    unfold tyEq at h
    cases a with
    | any => cases b <;> simp at h; exact same rfl
    | unit => cases b <;> simp at h; exact same rfl
    | callable p r k =>
      cases b <;> simp only [] at h <;> (first | contradiction | skip)
      rename_i p' r' k'
      unfold Ty.WF at wa wb; simp only [Ty.w, Ty.wo] at hw
      simp only [Bool.and_eq_true] at h
      obtain ⟨⟨h1, h2⟩, h3⟩ := h
      have part : ∀ (x y : Option Ty), (match x, y with | none, none => true | some a, some b => tyEq a b | _, _ => false) = true →
          Ty.wo x + Ty.wo y ≤ n → (match x with | none => True | some t' => Ty.WF cfg t') → (match y with | none => True | some t' => Ty.WF cfg t') →
          (x = none ∧ y = none) ∨ ∃ a b, x = some a ∧ y = some b ∧ asg cfg sfh a b = true ∧ asg cfg sfh b a = true := by
        intro x y hxy hwxy wx wy
        cases x <;> cases y <;> simp only [] at hxy <;> (first | contradiction | skip)
        · left; exact ⟨rfl, rfl⟩
        · rename_i a b; right; simp only [Ty.wo] at hwxy
          exact ⟨a, b, rfl, rfl, ih a b (by omega) wx wy hxy⟩
      have := callAcc_of_parts cfg sfh p r k p' r' k' (part p p' h1 (by omega) wa.1 wb.1)
        (part r r' h2 (by omega) wa.2.1 wb.2.1) (part k k' h3 (by omega) wa.2.2 wb.2.2)
      exact ⟨viaR cfg sfh rfl (by rw [recv_callable_eq]; exact this.1), viaR cfg sfh rfl (by rw [recv_callable_eq]; exact this.2)⟩
    | undef => cases b <;> simp at h; exact same rfl
    | dflt => cases b <;> simp at h; exact same rfl
    | scalar => cases b <;> simp at h; exact same rfl
    | scalarData => cases b <;> simp at h; exact same rfl
    | numeric => cases b <;> simp at h; exact same rfl
    | data => cases b <;> simp at h; exact same rfl
    | richData => cases b <;> simp at h; exact same rfl
    | str => cases b <;> simp at h; exact same rfl
    | bin => cases b <;> simp at h; exact same rfl
    | int r => cases b <;> simp at h; subst h; exact same rfl
    | float lo hi => cases b <;> simp at h; obtain ⟨h1, h2⟩ := h; subst h1; subst h2; exact same rfl
    | bool v => cases b <;> simp at h; subst h; exact same rfl
    | tspan r => cases b <;> simp at h; subst h; exact same rfl
    | tstamp r => cases b <;> simp at h; subst h; exact same rfl
    | strSz r => cases b <;> simp at h; subst h; exact same rfl
    | strVal s => cases b <;> simp at h; subst h; exact same rfl
    | regexp s => cases b <;> simp at h; subst h; exact same rfl
    | runtime rt nm pt =>
      cases b <;> simp only [] at h <;> (first | contradiction | skip)
      rename_i rt' nm' pt'
      have := rtAcc_of_eq h
      exact ⟨viaR cfg sfh rfl (by rw [recv_runtime_eq]; exact this.1), viaR cfg sfh rfl (by rw [recv_runtime_eq]; exact this.2)⟩
    | coll r => cases b <;> simp at h; subst h; exact same rfl
    | object p => cases b <;> simp at h; subst h; exact same rfl
    | enum vs ci =>
      cases b <;> simp only [] at h <;> (first | contradiction | skip)
      rename_i vs' ci'
      simp only [Bool.and_eq_true, beq_iff_eq] at h
      obtain ⟨⟨⟨hci, hlen⟩, h1⟩, h2⟩ := h
      subst hci
      unfold Ty.WF at wa wb
      exact ⟨viaR cfg sfh rfl (enum_eq_asg cfg sfh vs vs' ci wb hlen h1),
             viaR cfg sfh rfl (enum_eq_asg cfg sfh vs' vs ci wa hlen.symm h2)⟩
    | pattern rs =>
      cases b <;> simp only [] at h <;> (first | contradiction | skip)
      rename_i rs'
      simp only [Bool.and_eq_true, beq_iff_eq] at h
      obtain ⟨⟨hlen, h1⟩, h2⟩ := h
      have key : ∀ (xs ys : List String), xs.length = ys.length → subsetStr ys xs = true →
          asgRecv cfg sfh (.pattern xs) (.pattern ys) = true := by
        intro xs ys hl hs
        unfold asgRecv
        by_cases he : xs.isEmpty = true
        · simp [he]
        · have he' : xs.isEmpty = false := by simpa using he
          have : ys.isEmpty = false := by
            cases ys with
            | nil => simp at hl; simp [hl] at he'
            | cons _ _ => rfl
          simp [he', this, hs]
      exact ⟨viaR cfg sfh rfl (key rs rs' hlen h2), viaR cfg sfh rfl (key rs' rs hlen.symm h1)⟩
    | array e r =>
      cases b <;> simp only [] at h <;> (first | contradiction | skip)
      rename_i e' r'
      simp only [Bool.and_eq_true, beq_iff_eq] at h
      obtain ⟨hr, he⟩ := h
      subst hr
      unfold Ty.WF at wa wb
      simp only [Ty.w] at hw
      obtain ⟨h1, h2⟩ := ih e e' (by omega) wa wb he
      exact ⟨viaR cfg sfh rfl (by unfold asgRecv; simp [Rng.sub_refl, h1]),
             viaR cfg sfh rfl (by unfold asgRecv; simp [Rng.sub_refl, h2])⟩
    | hash k v r =>
      cases b <;> simp only [] at h <;> (first | contradiction | skip)
      rename_i k' v' r'
      simp only [Bool.and_eq_true, beq_iff_eq] at h
      obtain ⟨⟨hr, hk⟩, hv⟩ := h
      subst hr
      unfold Ty.WF at wa wb
      simp only [Ty.w] at hw
      obtain ⟨k1, k2⟩ := ih k k' (by omega) wa.1 wb.1 hk
      obtain ⟨v1, v2⟩ := ih v v' (by omega) wa.2 wb.2 hv
      exact ⟨viaR cfg sfh rfl (by unfold asgRecv; simp [Rng.sub_refl, k1, v1]),
             viaR cfg sfh rfl (by unfold asgRecv; simp [Rng.sub_refl, k2, v2])⟩
    | typ t =>
      cases b <;> simp only [] at h <;> (first | contradiction | skip)
      rename_i t'
      unfold Ty.WF at wa wb
      simp only [Ty.w] at hw
      obtain ⟨h1, h2⟩ := ih t t' (by omega) wa wb h
      exact ⟨mono_typ cfg sfh t t' h1, mono_typ cfg sfh t' t h2⟩
    | sensitive t =>
      cases b <;> simp only [] at h <;> (first | contradiction | skip)
      rename_i t'
      unfold Ty.WF at wa wb
      simp only [Ty.w] at hw
      obtain ⟨h1, h2⟩ := ih t t' (by omega) wa wb h
      exact ⟨mono_sensitive cfg sfh t t' h1, mono_sensitive cfg sfh t' t h2⟩
    | iterator t =>
      cases b <;> simp only [] at h <;> (first | contradiction | skip)
      rename_i t'
      unfold Ty.WF at wa wb
      simp only [Ty.w] at hw
      obtain ⟨h1, h2⟩ := ih t t' (by omega) wa wb h
      exact ⟨mono_iterator cfg sfh t t' h1, mono_iterator cfg sfh t' t h2⟩
    | iterable t =>
      cases b <;> simp only [] at h <;> (first | contradiction | skip)
      rename_i t'
      unfold Ty.WF at wa wb
      simp only [Ty.w] at hw
      obtain ⟨h1, h2⟩ := ih t t' (by omega) wa wb h
      exact ⟨mono_iterable cfg sfh t t' h1, mono_iterable cfg sfh t' t h2⟩
    | optional t =>
      cases b <;> simp only [] at h <;> (first | contradiction | skip)
      rename_i t'
      unfold Ty.WF at wa wb
      simp only [Ty.w] at hw
      obtain ⟨h1, h2⟩ := ih t t' (by omega) wa wb h
      exact ⟨mono_optional_all cfg sfh t t' h1, mono_optional_all cfg sfh t' t h2⟩
    | notUndef t =>
      cases b <;> simp only [] at h <;> (first | contradiction | skip)
      rename_i t'
      unfold Ty.WF at wa wb
      simp only [Ty.w] at hw
      obtain ⟨h1, h2⟩ := ih t t' (by omega) wa wb h
      exact ⟨mono_notUndef cfg sfh t t' h1, mono_notUndef cfg sfh t' t h2⟩
    | variant ts =>
      cases b <;> simp only [] at h <;> (first | contradiction | skip)
      rename_i ts'
      simp only [Bool.and_eq_true, beq_iff_eq] at h
      obtain ⟨⟨_, h1⟩, h2⟩ := h
      unfold Ty.WF at wa wb
      simp only [Ty.w] at hw
      rw [tyEqIncl_iff] at h1 h2
      constructor
      · -- every member of ts' is Equals to (hence accepted by) a member of ts
        rw [asg_variant_r]; simp only [Bool.or_eq_true]; right
        rw [asgAllR_iff]
        intro t' hm'
        obtain ⟨t, hm, he⟩ := h2 t' hm'
        have hwt := Ty.w_lt_wl hm; have hwt' := Ty.w_lt_wl hm'
        obtain ⟨x, _⟩ := ih t t' (by omega) (wa t hm) (wb t' hm') he
        exact wv_all cfg sfh hm x
      · rw [asg_variant_r]; simp only [Bool.or_eq_true]; right
        rw [asgAllR_iff]
        intro t hm
        obtain ⟨t', hm', he⟩ := h1 t hm
        have hwt := Ty.w_lt_wl hm; have hwt' := Ty.w_lt_wl hm'
        obtain ⟨x, _⟩ := ih t' t (by omega) (wb t' hm') (wa t hm) he
        exact wv_all cfg sfh hm' x
    | tuple ts g =>
      cases b <;> simp only [] at h <;> (first | contradiction | skip)
      rename_i ts' g'
      simp only [Bool.and_eq_true, beq_iff_eq] at h
      obtain ⟨⟨hlen, hsz⟩, hl⟩ := h
      unfold Ty.WF at wa wb
      simp only [Ty.w] at hw
      have hget := tyEqL_get ts ts' hlen hl
      have key : ∀ (xs ys : List Ty) (gx gy : Option Rng), xs.length = ys.length → tupleSize xs gx = tupleSize ys gy →
          (∀ (i : Nat) (x y : Ty), xs[i]? = some x → ys[i]? = some y → asg cfg sfh x y = true) →
          asgRecv cfg sfh (.tuple xs gx) (.tuple ys gy) = true := by
        intro xs ys gx gy hl hs hp
        unfold asgRecv
        simp only [hs, Rng.sub_refl, Bool.true_and, Bool.or_eq_true]
        by_cases hx : xs = []
        · left; simp [hx]
        · right
          have hy : ys ≠ [] := by intro hy; subst hy; simp at hl; exact hx hl
          have hne : ¬ (ys.isEmpty = true) := by simp [List.isEmpty_iff, hy]
          rw [if_neg hne, tupZip_iff cfg sfh xs ys _ hx hy]
          intro i x y _ _ hxi hyi
          rw [hl] at hxi
          exact hp _ x y hxi hyi
      constructor
      · apply viaR cfg sfh rfl
        apply key ts ts' g g' hlen hsz
        intro i x y hx hy
        have hmx := List.mem_of_getElem? hx; have hmy := List.mem_of_getElem? hy
        have := Ty.w_lt_wl hmx; have := Ty.w_lt_wl hmy
        exact (ih x y (by omega) (wa x hmx) (wb y hmy) (hget i x y hx hy)).1
      · apply viaR cfg sfh rfl
        apply key ts' ts g' g hlen.symm hsz.symm
        intro i y x hy hx
        have hmx := List.mem_of_getElem? hx; have hmy := List.mem_of_getElem? hy
        have := Ty.w_lt_wl hmx; have := Ty.w_lt_wl hmy
        exact (ih x y (by omega) (wa x hmx) (wb y hmy) (hget i x y hx hy)).2
    | struct ms =>
      cases b <;> simp only [] at h <;> (first | contradiction | skip)
      rename_i ms'
      simp only [Bool.and_eq_true, beq_iff_eq] at h
      obtain ⟨hlen, hm⟩ := h
      unfold Ty.WF at wa wb
      simp only [Ty.w] at hw
      obtain ⟨hnames, hall⟩ := tyEqM_spec ms ms' hlen hm
      constructor
      · apply viaR cfg sfh rfl
        apply struct_eq_asg cfg sfh ms ms' wa.1 wb.1 hnames
        intro m hmm
        obtain ⟨m', hm', h1, h2, h3⟩ := hall m hmm
        have := Ty.w_lt_wm hmm; have := Ty.w_lt_wm hm'
        exact ⟨m', hm', h1, h2, (ih m.2.2 m'.2.2 (by omega) (wa.2 m hmm) (wb.2 m' hm') h3).1⟩
      · apply viaR cfg sfh rfl
        apply struct_eq_asg cfg sfh ms' ms wb.1 wa.1 hnames.symm
        intro m' hm'
        -- the partner of m' : by names (pairwise different on both sides)
        have : m'.1 ∈ ms.map (·.1) := by rw [hnames]; exact List.mem_map_of_mem hm'
        simp only [List.mem_map] at this
        obtain ⟨m, hmm, hmn⟩ := this
        obtain ⟨m2, hm2, h1, h2, h3⟩ := hall m hmm
        have hm2eq : m2 = m' := by
          have := mem_unique_name wb.1 hm' hm2 (by rw [h1, hmn])
          exact this
        subst hm2eq
        have := Ty.w_lt_wm hmm; have := Ty.w_lt_wm hm'
        exact ⟨m, hmm, h1.symm, h2.symm, (ih m.2.2 m2.2.2 (by omega) (wa.2 m hmm) (wb.2 m2 hm2) h3).2⟩


end Pcore.Lat
