import Pcore.Proofs.Object
/-! C17: the assignability the override check uses (`asg`, types.go GuardedIsAssignable on the attribute-type alphabet) is
    SOUND for the instance relation `inst`: a type that `asg` lets stand for another admits no value the other rejects. -/
namespace Pcore.Object

theorem Ty.size_pos (t : Ty) : 0 < t.size := by cases t <;> simp [Ty.size]

theorem Ty.size_opt (t : Ty) : (Ty.opt t).size = t.size + 1 := rfl
theorem Ty.size_notUndef (t : Ty) : (Ty.notUndef t).size = t.size + 1 := rfl
theorem Ty.size_array (t : Ty) : (Ty.array t).size = t.size + 1 := rfl
theorem Ty.size_variant (a b : Ty) : (Ty.variant a b).size = a.size + b.size + 1 := rfl
theorem Ty.size_int : Ty.int.size = 1 := rfl
theorem Ty.size_str : Ty.str.size = 1 := rfl
theorem Ty.size_bool : Ty.bool.size = 1 := rfl
theorem Ty.size_float : Ty.float.size = 1 := rfl
theorem Ty.size_any : Ty.any.size = 1 := rfl
theorem Ty.size_undefT : Ty.undefT.size = 1 := rfl

/-- unfold the sizes in the hypothesis `hsz` and the goal, then arithmetic -/
macro "tysize" : tactic => `(tactic|
  (simp only [Ty.size_opt, Ty.size_notUndef, Ty.size_array, Ty.size_variant, Ty.size_int, Ty.size_str, Ty.size_bool,
     Ty.size_float, Ty.size_any, Ty.size_undefT] at *
   omega))

/-- with enough fuel, "accepts Undef" is decided exactly -/
theorem asgF_undef (n : Nat) : ∀ a : Ty, a.size + 1 < n → asgF n a .undefT = inst a .undef := by
  induction n with
  | zero => intro a h; omega
  | succ n ih =>
    intro a h
    cases a with
    | opt t =>
      have h1 : 1 + 1 < n := by have := Ty.size_pos t; simp only [Ty.size] at h; omega
      have hu : asgF n .undefT .undefT = true := by
        have := ih .undefT (by simpa [Ty.size] using h1)
        simpa [inst] using this
      simp [asgF, inst, hu]
    | notUndef t =>
      have h1 : 1 + 1 < n := by have := Ty.size_pos t; simp only [Ty.size] at h; omega
      have hu : asgF n .undefT .undefT = true := by
        have := ih .undefT (by simpa [Ty.size] using h1)
        simpa [inst] using this
      simp [asgF, inst, hu]
    | variant x y =>
      have hx := ih x (by have := Ty.size_pos y; simp only [Ty.size] at h; omega)
      have hy := ih y (by have := Ty.size_pos x; simp only [Ty.size] at h; omega)
      simp [asgF, inst, hx, hy]
    | array t => simp [asgF, inst, allElems]
    | _ => simp [asgF, inst]

/-- the `IsAssignable` METHOD of `a` (what GuardedIsAssignable falls back to), on fuel `n` -/
def selfAsg (n : Nat) (a b : Ty) : Bool :=
  match a, b with
  | .int, .int => true
  | .str, .str => true
  | .bool, .bool => true
  | .float, .float => true
  | .undefT, .undefT => true
  | .opt t, b => asgF n .undefT b || asgF n t b
  | .notUndef t, .notUndef u => asgF n t u || asgF n t (.notUndef u)
  | .notUndef t, b => !asgF n b .undefT && asgF n t b
  | .variant x y, b => asgF n x b || asgF n y b
  | .array t, .array u => asgF n t u
  | _, _ => false

theorem asgF_succ (n : Nat) (a b : Ty) : asgF (n + 1) a b =
    if a == .any then true else
    match b with
    | .notUndef nt => if !asgF n nt .undefT then asgF n a nt else selfAsg n a b
    | .opt ot => if asgF n a .undefT then asgF n a ot else false
    | .variant x y => asgF n a x && asgF n a y
    | _ => selfAsg n a b := by
  cases b <;> rfl

/-- soundness with enough fuel -/
theorem asgF_sound (n : Nat) : ∀ a b : Ty, a.size + b.size < n → asgF n a b = true →
    ∀ v, inst b v = true → inst a v = true := by
  induction n with
  | zero => intro a b h; omega
  | succ n ih =>
    intro a b hsz h v hv
    have hpa := Ty.size_pos a
    have hpb := Ty.size_pos b
    by_cases hany : a = .any
    · subst hany; simp [inst]
    -- the `IsAssignable` method of `a`
    have hself : selfAsg n a b = true → inst a v = true := by
      intro hb
      unfold selfAsg at hb
      cases a with
      | opt t =>
        have hpt := Ty.size_pos t
        simp only [Bool.or_eq_true] at hb
        simp only [inst, Bool.or_eq_true, beq_iff_eq]
        rcases hb with hb | hb
        · have := ih .undefT b (by tysize) hb v hv
          left
          cases v <;> simp [inst] at this ⊢
        · exact Or.inr (ih t b (by tysize) hb v hv)
      | notUndef t =>
        have hpt := Ty.size_pos t
        cases b with
        | notUndef u =>
          simp only [Bool.or_eq_true] at hb
          simp only [inst, Bool.and_eq_true, bne_iff_ne, ne_eq] at hv ⊢
          refine ⟨hv.1, ?_⟩
          rcases hb with hb | hb
          · exact ih t u (by tysize) hb v hv.2
          · exact ih t (.notUndef u) (by tysize) hb v (by simp [inst, hv.1, hv.2])
        | _ =>
          simp only [Bool.and_eq_true, Bool.not_eq_true'] at hb
          obtain ⟨hb1, hb2⟩ := hb
          rw [asgF_undef] at hb1
          · have hin := ih t _ (by tysize) hb2 v hv
            simp only [inst, Bool.and_eq_true, bne_iff_ne, ne_eq]
            refine ⟨?_, hin⟩
            intro hvu
            subst hvu
            rw [hb1] at hv
            cases hv
          · tysize
      | variant x y =>
        simp only [Bool.or_eq_true] at hb
        simp only [inst, Bool.or_eq_true]
        rcases hb with hb | hb
        · exact Or.inl (ih x b (by tysize) hb v hv)
        · exact Or.inr (ih y b (by tysize) hb v hv)
      | array t =>
        cases b with
        | array u =>
          simp only [inst] at hv ⊢
          exact allElems_mono (ih t u (by rw [Ty.size_array, Ty.size_array] at hsz; omega) hb) v hv
        | _ => simp at hb
      | any => exact absurd rfl hany
      | int => cases b <;> simp at hb <;> exact hv
      | str => cases b <;> simp at hb <;> exact hv
      | bool => cases b <;> simp at hb <;> exact hv
      | float => cases b <;> simp at hb <;> exact hv
      | undefT => cases b <;> simp at hb <;> exact hv
    have hne : (a == Ty.any) = false := by simpa using hany
    rw [asgF_succ] at h
    simp only [hne, Bool.false_eq_true, if_false] at h
    cases b with
    | notUndef nt =>
      simp only at h
      by_cases hu : asgF n nt .undefT = true
      · simp only [hu, Bool.not_true, Bool.false_eq_true, if_false] at h
        exact hself h
      · simp only [hu, Bool.not_false, if_true] at h
        simp only [inst, Bool.and_eq_true] at hv
        exact ih a nt (by tysize) h v hv.2
    | opt ot =>
      simp only at h
      by_cases hu : asgF n a .undefT = true
      · simp only [hu, if_true] at h
        simp only [inst, Bool.or_eq_true, beq_iff_eq] at hv
        rcases hv with hv | hv
        · subst hv
          rw [← asgF_undef n a (by have := Ty.size_pos ot; tysize)]
          exact hu
        · exact ih a ot (by tysize) h v hv
      · simp [hu] at h
    | variant x y =>
      simp only [Bool.and_eq_true] at h
      simp only [inst, Bool.or_eq_true] at hv
      rcases hv with hv | hv
      · exact ih a x (by tysize) h.1 v hv
      · exact ih a y (by tysize) h.2 v hv
    | int => exact hself h
    | str => exact hself h
    | bool => exact hself h
    | float => exact hself h
    | any => exact hself h
    | undefT => exact hself h
    | array u => exact hself h

/-- SOUNDNESS of the assignability the override check uses: whatever `asg a b` admits, every instance of `b` is an instance
    of `a` -/
theorem asg_sound {a b : Ty} (h : asg a b = true) {v : Val} (hv : inst b v = true) : inst a v = true :=
  asgF_sound _ a b (by omega) h v hv

end Pcore.Object
