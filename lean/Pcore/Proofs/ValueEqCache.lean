import Pcore.Model.ValueEqCache
import Pcore.Proofs.ValueEqKey
/-! Helper lemmas for C07: the lazily built index of a Hash is a refinement of `lookupLast`, and no answer depends on whether
    (or when) it was built. -/
namespace Pcore.ValueEq

theorem idxGet_put (m : Index) (k k' : Bytes) (i : Nat) :
    idxGet (idxPut m k i) k' = if k == k' then some i else idxGet m k' := by
  induction m with
  | nil => simp [idxPut, idxGet]
  | cons p r ih =>
    obtain ⟨k0, j⟩ := p
    simp only [idxPut]
    by_cases h0 : (k0 == k) = true
    · have e : k0 = k := by simpa using h0
      subst e
      simp only [h0, if_true, idxGet]
      by_cases h1 : (k0 == k') = true <;> simp [h1]
    · simp only [h0, Bool.false_eq_true, if_false, idxGet, ih]
      by_cases h1 : (k0 == k') = true
      · have e : k0 = k' := by simpa using h1
        subst e
        have : (k == k0) = false := by
          cases hk : (k == k0)
          · rfl
          · exact absurd (by simpa using hk : k = k0).symm (by simpa using h0)
        simp [this]
      · simp [h1]

/-- the position of the last entry indexed under `kbs` -/
def lastIdx (kbs : Bytes) : List (Val × Val) → Option Nat
  | [] => none
  | e :: es =>
    match lastIdx kbs es with
    | some i => some (i + 1)
    | none => if kb e.1 == kbs then some 0 else none

theorem lastIdx_lt (kbs : Bytes) : ∀ (l : List (Val × Val)) (j : Nat), lastIdx kbs l = some j → j < l.length
  | [], j, h => by simp [lastIdx] at h
  | a :: l, j, h => by
      simp only [lastIdx] at h
      cases h3 : lastIdx kbs l with
      | some i' =>
        rw [h3] at h
        simp only [Option.some.injEq] at h
        have := lastIdx_lt kbs l i' h3
        simp only [List.length_cons]
        omega
      | none =>
        rw [h3] at h
        simp only at h
        split at h
        · simp only [Option.some.injEq] at h; subst h; simp
        · cases h

theorem idxGet_buildFrom (kbs : Bytes) : ∀ (es : List (Val × Val)) (n : Nat) (m : Index),
    idxGet (buildFrom n m es) kbs = match lastIdx kbs es with
      | some i => some (n + i)
      | none => idxGet m kbs
  | [], _, _ => by simp [buildFrom, lastIdx]
  | e :: es, n, m => by
      simp only [buildFrom, lastIdx]
      rw [idxGet_buildFrom kbs es (n + 1) (idxPut m (kb e.1) n)]
      cases h : lastIdx kbs es with
      | some i => simp; omega
      | none =>
        simp only [idxGet_put]
        by_cases hk : (kb e.1 == kbs) = true <;> simp [hk]

theorem idxGet_buildIndex (kbs : Bytes) (es : List (Val × Val)) : idxGet (buildIndex es) kbs = lastIdx kbs es := by
  unfold buildIndex
  rw [idxGet_buildFrom]
  cases lastIdx kbs es <;> simp [idxGet]

/-- the index is a refinement of `lookupLast`: it answers the position of the entry `lookupLast` answers -/
theorem lookupLast_lastIdx (kbs : Bytes) : ∀ es : List (Val × Val),
    lookupLast kbs es = (lastIdx kbs es).bind (fun i => es[i]?)
  | [] => by simp [lookupLast, lastIdx]
  | e :: es => by
      simp only [lookupLast, lastIdx]
      rw [lookupLast_lastIdx kbs es]
      cases h : lastIdx kbs es with
      | some i =>
        simp only [Option.bind_some, List.getElem?_cons_succ]
        cases h2 : es[i]? with
        | some x => simp
        | none =>
          -- impossible: `lastIdx` answers a position inside the list
          exfalso
          have hi := lastIdx_lt kbs es i h
          rw [List.getElem?_eq_none_iff] at h2
          omega
      | none =>
        simp only [Option.bind_none]
        by_cases hk : (kb e.1 == kbs) = true <;> simp [hk]

theorem valueIndex_coherent {h : CHash} (c : h.Coherent) :
    h.valueIndex.2 = buildIndex h.entries ∧ h.valueIndex.1.entries = h.entries ∧ h.valueIndex.1.Coherent := by
  unfold CHash.valueIndex
  rcases c with c | c
  · rw [c]; exact ⟨rfl, rfl, Or.inr rfl⟩
  · rw [c]; exact ⟨rfl, rfl, Or.inr c⟩

/-- `Hash.Get` through the index is `hashGet` (the `lookupLast` specification), whatever the state of the cache -/
theorem get_coherent {h : CHash} (c : h.Coherent) (k : Val) :
    (h.get k).2 = hashGet h.entries k ∧ (h.get k).1.entries = h.entries ∧ (h.get k).1.Coherent := by
  obtain ⟨h1, h2, h3⟩ := valueIndex_coherent c
  refine ⟨?_, h2, h3⟩
  simp only [CHash.get, h1, idxGet_buildIndex, hashGet, lookupLast_lastIdx]
  cases lastIdx (kb k) h.entries <;> simp

theorem includesKey_coherent {h : CHash} (c : h.Coherent) (k : Val) :
    (h.includesKey k).2 = (hashGet h.entries k).isSome ∧ (h.includesKey k).1.entries = h.entries ∧ (h.includesKey k).1.Coherent := by
  obtain ⟨h1, h2, h3⟩ := valueIndex_coherent c
  refine ⟨?_, h2, h3⟩
  simp only [CHash.includesKey, h1, idxGet_buildIndex, hashGet, lookupLast_lastIdx]
  cases hl : lastIdx (kb k) h.entries with
  | none => simp
  | some i =>
    have hi := lastIdx_lt (kb k) _ i hl
    simp [List.getElem?_eq_getElem hi]

/-- `Hash.Equals` reads the two indexes only: for coherent operands its answer is a function of the ENTRIES of the two hashes -/
theorem equals_coherent {h o : CHash} (ch : h.Coherent) (co : o.Coherent) :
    (h.equals o).2 = ((CHash.mk h.entries none).equals (CHash.mk o.entries none)).2 ∧
    (h.equals o).1.1.entries = h.entries ∧ (h.equals o).1.2.entries = o.entries ∧
    (h.equals o).1.1.Coherent ∧ (h.equals o).1.2.Coherent := by
  obtain ⟨h1, h2, h3⟩ := valueIndex_coherent ch
  obtain ⟨o1, o2, o3⟩ := valueIndex_coherent co
  refine ⟨?_, h2, o2, h3, o3⟩
  have e1 : (CHash.mk h.entries none).valueIndex.2 = buildIndex h.entries := rfl
  have e2 : (CHash.mk o.entries none).valueIndex.2 = buildIndex o.entries := rfl
  simp only [CHash.equals]
  rw [h1, o1, e1, e2]

theorem put_coherent (h : CHash) (k v : Val) : (h.put k v).Coherent := Or.inl rfl

theorem force_coherent {h : CHash} (c : h.Coherent) : h.force.entries = h.entries ∧ h.force.Coherent ∧ h.force.index = some (buildIndex h.entries) := by
  obtain ⟨h1, h2, h3⟩ := valueIndex_coherent c
  refine ⟨h2, h3, ?_⟩
  unfold CHash.force CHash.valueIndex
  rcases c with c | c <;> simp [c]

/-! ### `Hash.Equals` through the two indexes is the model's `veq` on hashes -/

def keysNodup (m : Index) : Prop := (m.map (·.1)).Nodup

theorem idxPut_keys (m : Index) (k : Bytes) (i : Nat) :
    ∀ x, x ∈ (idxPut m k i).map (·.1) ↔ x = k ∨ x ∈ m.map (·.1) := by
  induction m with
  | nil => intro x; simp [idxPut]
  | cons p r ih =>
    obtain ⟨k0, j⟩ := p
    intro x
    simp only [idxPut]
    by_cases h0 : (k0 == k) = true
    · have e : k0 = k := by simpa using h0
      subst e
      simp [h0]
    · simp only [h0, Bool.false_eq_true, if_false, List.map_cons, List.mem_cons, ih x]
      constructor
      · rintro (h | h | h)
        · exact Or.inr (Or.inl h)
        · exact Or.inl h
        · exact Or.inr (Or.inr h)
      · rintro (h | h | h)
        · exact Or.inr (Or.inl h)
        · exact Or.inl h
        · exact Or.inr (Or.inr h)

theorem idxPut_nodup {m : Index} (h : keysNodup m) (k : Bytes) (i : Nat) : keysNodup (idxPut m k i) := by
  unfold keysNodup at *
  induction m with
  | nil => simp [idxPut]
  | cons p r ih =>
    obtain ⟨k0, j⟩ := p
    simp only [List.map_cons, List.nodup_cons] at h
    simp only [idxPut]
    by_cases h0 : (k0 == k) = true
    · simp only [h0, if_true, List.map_cons, List.nodup_cons]; exact h
    · simp only [h0, Bool.false_eq_true, if_false, List.map_cons, List.nodup_cons]
      refine ⟨?_, ih h.2⟩
      intro hm
      rcases (idxPut_keys r k i k0).mp hm with e | hm
      · exact h0 (by simp [e])
      · exact h.1 hm

theorem buildFrom_nodup : ∀ (es : List (Val × Val)) (n : Nat) (m : Index), keysNodup m → keysNodup (buildFrom n m es)
  | [], _, _, h => h
  | e :: es, n, m, h => buildFrom_nodup es (n + 1) _ (idxPut_nodup h _ _)

theorem mem_iff_idxGet {m : Index} (h : keysNodup m) (k : Bytes) (i : Nat) : (k, i) ∈ m ↔ idxGet m k = some i := by
  unfold keysNodup at h
  induction m with
  | nil => simp [idxGet]
  | cons p r ih =>
    obtain ⟨k0, j⟩ := p
    simp only [List.map_cons, List.nodup_cons] at h
    simp only [List.mem_cons, Prod.mk.injEq, idxGet]
    by_cases h0 : (k0 == k) = true
    · have e : k0 = k := by simpa using h0
      subst e
      simp only [h0, if_true, Option.some.injEq]
      constructor
      · rintro (⟨_, rfl⟩ | hm)
        · rfl
        · exact absurd (List.mem_map.mpr ⟨(k0, i), hm, rfl⟩) h.1
      · intro e; exact Or.inl ⟨trivial, e.symm⟩
    · simp only [h0, Bool.false_eq_true, if_false]
      rw [← ih h.2]
      constructor
      · rintro (⟨e, _⟩ | hm)
        · exact absurd (by simp [e]) h0
        · exact hm
      · exact Or.inr

/-- the entries of the index of `es`: one per distinct key, holding the position of the LAST entry with it -/
theorem mem_buildIndex (es : List (Val × Val)) (k : Bytes) (i : Nat) : (k, i) ∈ buildIndex es ↔ lastIdx k es = some i := by
  have hn : keysNodup (buildIndex es) := buildFrom_nodup es 0 [] (by simp [keysNodup])
  rw [mem_iff_idxGet hn, idxGet_buildIndex]

/-- what an entry of the receiver must find in the argument -/
def findsEqual (fs : List (Val × Val)) (e : Val × Val) : Bool :=
  match lookupLast (kb e.1) fs with
  | some e' => veq e.1 e'.1 && veq e.2 e'.2
  | none => false

theorem shadowed_iff (k : Val) (es : List (Val × Val)) : shadowed k es = (lastIdx (kb k) es).isSome := by
  induction es with
  | nil => simp [shadowed, lastIdx]
  | cons e es ih =>
    simp only [shadowed, List.any_cons] at ih ⊢
    simp only [lastIdx]
    cases hl : lastIdx (kb k) es with
    | some i => rw [hl] at ih; simp at ih; simp [ih]
    | none =>
      rw [hl] at ih
      simp only [Option.isSome_none] at ih
      rw [ih]
      by_cases hk : (kb e.1 == kb k) = true <;> simp [hk]

theorem veqE_iff_last : ∀ (es fs : List (Val × Val)),
    veqE es fs = true ↔ ∀ p e, es[p]? = some e → lastIdx (kb e.1) es = some p → findsEqual fs e = true
  | [], fs => by simp [veqE]
  | (k, v) :: es, fs => by
      simp only [veqE, Bool.and_eq_true, veqE_iff_last es fs]
      constructor
      · rintro ⟨h0, hr⟩ p e hp hl
        cases p with
        | zero =>
          simp only [List.getElem?_cons_zero, Option.some.injEq] at hp
          subst hp
          simp only [lastIdx] at hl
          cases hl' : lastIdx (kb k) es with
          | some i => rw [hl'] at hl; simp at hl
          | none =>
            have : shadowed k es = false := by rw [shadowed_iff, hl']; rfl
            simp only [this, Bool.false_eq_true, if_false] at h0
            unfold findsEqual
            cases hf : lookupLast (kb k) fs with
            | none => rw [hf] at h0; cases h0
            | some r => rw [hf] at h0; obtain ⟨k', v'⟩ := r; exact h0
        | succ p =>
          simp only [List.getElem?_cons_succ] at hp
          simp only [lastIdx] at hl
          cases hl' : lastIdx (kb e.1) es with
          | some i =>
            rw [hl'] at hl
            simp only [Option.some.injEq, Nat.add_right_cancel_iff] at hl
            subst hl
            exact hr i e hp hl'
          | none =>
            rw [hl'] at hl
            simp only at hl
            split at hl <;> cases hl
      · intro h
        constructor
        · by_cases hs : shadowed k es = true
          · simp [hs]
          · have hs' : shadowed k es = false := by simpa using hs
            simp only [hs', Bool.false_eq_true, if_false]
            rw [shadowed_iff] at hs'
            have hl : lastIdx (kb k) ((k, v) :: es) = some 0 := by
              simp only [lastIdx]
              cases hl' : lastIdx (kb k) es with
              | some i => rw [hl'] at hs'; simp at hs'
              | none => simp
            have := h 0 (k, v) rfl hl
            unfold findsEqual at this
            cases hf : lookupLast (kb k) fs with
            | none => rw [hf] at this; cases this
            | some r => rw [hf] at this; obtain ⟨k', v'⟩ := r; exact this
        · intro p e hp hl
          refine h (p + 1) e (by simpa using hp) ?_
          simp only [lastIdx, hl]

/-- `Hash.Equals` computed through the two indexes (as the code does) is the model's `veq` on the two hashes -/
theorem equals_index_spec (es fs : List (Val × Val)) :
    ((CHash.mk es none).equals (CHash.mk fs none)).2 = veq (.hash es) (.hash fs) := by
  have e1 : (CHash.mk es none).valueIndex.2 = buildIndex es := rfl
  have e2 : (CHash.mk fs none).valueIndex.2 = buildIndex fs := rfl
  simp only [CHash.equals, e1, e2, veq]
  congr 1
  -- both sides as Props
  apply Bool.eq_iff_iff.mpr
  rw [veqE_iff_last, List.all_eq_true]
  constructor
  · intro h p e hp hl
    have hm := (mem_buildIndex es (kb e.1) p).mpr hl
    have := h _ hm
    simp only [idxGet_buildIndex] at this
    unfold findsEqual
    rw [lookupLast_lastIdx]
    cases hf : lastIdx (kb e.1) fs with
    | none => rw [hf] at this; cases this
    | some j =>
      rw [hf] at this
      simp only [hp] at this
      simp only [Option.bind_some]
      cases hj : fs[j]? with
      | none => rw [hj] at this; cases this
      | some b => rw [hj] at this; simpa [entryEq] using this
  · rintro h ⟨key, idx⟩ hm
    have hl := (mem_buildIndex es key idx).mp hm
    have hlt := lastIdx_lt key es idx hl
    have hp : es[idx]? = some es[idx] := List.getElem?_eq_getElem hlt
    -- the entry at the indexed position has that key
    have hk : kb (es[idx]).1 = key := by
      have := lookupLast_lastIdx key es
      rw [hl] at this
      simp only [Option.bind_some, hp] at this
      exact (lookupLast_some this).2
    have := h idx es[idx] hp (by rw [hk]; exact hl)
    unfold findsEqual at this
    rw [lookupLast_lastIdx, hk] at this
    simp only [idxGet_buildIndex]
    cases hf : lastIdx key fs with
    | none => rw [hf] at this; simp at this
    | some j =>
      rw [hf] at this
      simp only [Option.bind_some] at this
      simp only [hp]
      cases hj : fs[j]? with
      | none => rw [hj] at this; simp at this
      | some b => rw [hj] at this; simpa [entryEq] using this

end Pcore.ValueEq
