import Pcore.Proofs.TlsExec
/-!
Isolation of loader ENTRIES (definitions) for C14: a second induction over `exec`, run beside the facts of `exec_step`.

`DStep x w w'`: an entry table `defs l` that existed before (`l < w.nextLoader`) is unchanged unless `l` is the exception `x`
(the head of the running body's loader chain) or the head of the loader chain of a goroutine that was waiting in `w`;
new waiting goroutines get fresh heads.  `Full` bundles it with `Step`.
-/
namespace Pcore.Tls

/-- the loader a body working on context `c` defines into (`DefiningLoader()`), if any -/
def headOf (w : World) (c : CtxId) : Option LoaderId := (w.ctxs c).loader.head?

structure DStep (x : Option LoaderId) (w w' : World) : Prop where
  ldMono : w.nextLoader ≤ w'.nextLoader
  dframe : ∀ l, l < w.nextLoader → some l ≠ x → (∀ t ∈ w.pending, some l ≠ headOf w t.ctx) → w'.defs l = w.defs l
  newHeads : ∀ t ∈ w'.pending, t ∈ w.pending ∨ ∃ l, headOf w' t.ctx = some l ∧ w.nextLoader ≤ l

structure Full (xc : Option CtxId) (x : Option LoaderId) (w w' : World) : Prop where
  s : Step xc w w'
  d : DStep x w w'
  hinv : Inv w
  hx : ∀ t ∈ w.pending, some t.ctx ≠ xc

/-- a goroutine waiting before and after a step still has the context (hence the loader head) it had -/
theorem Full.pend_ctx {xc x w w'} (f : Full xc x w w') {t : Task} (ht : t ∈ w.pending) (ht' : t ∈ w'.pending) :
    w'.ctxs t.ctx = w.ctxs t.ctx :=
  f.s.frame t.ctx (f.hinv.pendCtxLt t ht) (f.hx t ht)
    (Or.inr (by simp only [pendCtxs, List.mem_map]; exact ⟨t, ht', rfl⟩))

theorem Full.trans {xc yc x y w w1 w2} (f1 : Full xc x w w1) (f2 : Full yc y w1 w2)
    (hc : ∀ i, i < w.nextCtx → some i ≠ xc → some i ≠ yc)
    (hl : ∀ l, l < w.nextLoader → some l ≠ x → (∀ t ∈ w.pending, some l ≠ headOf w t.ctx) → some l ≠ y) :
    Full xc x w w2 where
  s := f1.s.trans f2.s hc
  hinv := f1.hinv
  hx := f1.hx
  d :=
    { ldMono := Nat.le_trans f1.d.ldMono f2.d.ldMono
      dframe := by
        intro l hl1 hlx hp
        rw [← f1.d.dframe l hl1 hlx hp]
        apply f2.d.dframe l (Nat.lt_of_lt_of_le hl1 f1.d.ldMono) (hl l hl1 hlx hp)
        intro t ht
        rcases f1.d.newHeads t ht with h | ⟨l', hl', hge⟩
        · have : headOf w1 t.ctx = headOf w t.ctx := by simp only [headOf, f1.pend_ctx h ht]
          rw [this]; exact hp t h
        · rw [hl']; intro hc'; cases hc'; omega
      newHeads := by
        intro t ht
        rcases f2.d.newHeads t ht with h | ⟨l', hl', hge⟩
        · rcases f1.d.newHeads t h with h1 | ⟨l', hl', hge⟩
          · exact Or.inl h1
          · refine Or.inr ⟨l', ?_, hge⟩
            have : headOf w2 t.ctx = headOf w1 t.ctx := by simp only [headOf, f2.pend_ctx h ht]
            rw [this]; exact hl'
        · exact Or.inr ⟨l', hl', Nat.le_trans f1.d.ldMono hge⟩ }

theorem Full.refl {xc x w} (h : Inv w) (hx : ∀ t ∈ w.pending, some t.ctx ≠ xc) : Full xc x w w :=
  ⟨Step.refl h, ⟨Nat.le_refl _, fun _ _ _ _ => rfl, fun _ h => Or.inl h⟩, h, hx⟩

theorem Full.weaken {x w w'} {xc : Option CtxId} (f : Full none none w w') (hx : ∀ t ∈ w.pending, some t.ctx ≠ xc) :
    Full xc x w w' :=
  ⟨f.s.weaken, ⟨f.d.ldMono, fun l hl _ hp => f.d.dframe l hl (by simp) hp, f.d.newHeads⟩, f.hinv, hx⟩

theorem Full.weakenL {xc x w w'} (f : Full xc none w w') : Full xc x w w' :=
  ⟨f.s, ⟨f.d.ldMono, fun l hl _ hp => f.d.dframe l hl (by simp) hp, f.d.newHeads⟩, f.hinv, f.hx⟩

/-- nothing the `DStep` speaks about changes (entries, loader counter, waiting goroutines and their loader heads) -/
theorem DStep.of_same {x w w'} (h1 : w'.defs = w.defs) (h2 : w'.nextLoader = w.nextLoader) (h3 : w'.pending = w.pending) :
    DStep x w w' :=
  ⟨by rw [h2]; exact Nat.le_refl _, fun _ _ _ _ => by rw [h1], by rw [h3]; exact fun _ h => Or.inl h⟩

theorem none_ne_pend {w : World} : ∀ t ∈ w.pending, some t.ctx ≠ (none : Option CtxId) := fun _ _ => by simp

theorem lex_ne_pend {g c : Nat} {w : World} (h : Pre g c w) : ∀ t ∈ w.pending, some t.ctx ≠ some c := by
  intro t ht hc
  apply h.cnp
  simp only [pendCtxs, List.mem_map]
  exact ⟨t, ht, by simpa using hc⟩

theorem fresh_ne_pend {w : World} (h : Inv w) {cx : Nat} (hcx : w.nextCtx ≤ cx) : ∀ t ∈ w.pending, some t.ctx ≠ some cx := by
  intro t ht hc
  have h1 := h.pendCtxLt t ht
  have h2 : t.ctx = cx := by simpa using hc
  rw [h2] at h1
  exact absurd h1 (Nat.not_lt.mpr hcx)

/-! ## primitive steps -/

theorem emit_full {g : Gid} {e : Ev} {w : World} (h : Inv w) (he : EvOK w (g, e)) : Full none none w (emit g e w) :=
  ⟨emit_step h he, DStep.of_same rfl rfl rfl, h, none_ne_pend⟩

theorem ctxUpd_full {c : CtxId} {f : Ctx → Ctx} {w : World} (h : Inv w) (hc : ∀ t ∈ w.pending, some t.ctx ≠ some c) :
    Full (some c) none w (ctxUpd c f w) :=
  ⟨ctxUpd_step h, DStep.of_same rfl rfl rfl, h, hc⟩

theorem setVar_full {c : CtxId} {k : String} {x : Nat} {w : World} (h : Inv w) (hc : ∀ t ∈ w.pending, some t.ctx ≠ some c) :
    Full (some c) none w (setVar c k x w) := ctxUpd_full h hc

theorem setTag_full {c : CtxId} {x : Nat} {w : World} (h : Inv w) (hc : ∀ t ∈ w.pending, some t.ctx ≠ some c) :
    Full (some c) none w (setTag c x w) := ctxUpd_full h hc

theorem setEntry_full {l : LoaderId} {n : String} {b : Bool} {w : World} (h : Inv w) :
    Full none (some l) w (setEntry l n b w) := by
  refine ⟨setEntry_step h, ?_, h, none_ne_pend⟩
  unfold setEntry
  split
  · exact DStep.of_same rfl rfl rfl
  · refine ⟨Nat.le_refl _, ?_, fun _ h => Or.inl h⟩
    intro l' _ hne _
    have : l' ≠ l := fun hc => hne (by rw [hc])
    simp [this]

theorem newLoader_full {w : World} (h : Inv w) : Full none none w (newLoader w).2 := by
  refine ⟨newLoader_step h, ⟨Nat.le_succ _, ?_, fun _ h => Or.inl h⟩, h, none_ne_pend⟩
  intro l hl _ _
  have : l ≠ w.nextLoader := Nat.ne_of_lt hl
  simp [newLoader, this]

theorem newCtx_full {x : Ctx} {w : World} (h : Inv w) : Full none none w (newCtx x w).2 :=
  ⟨newCtx_step h, DStep.of_same rfl rfl rfl, h, none_ne_pend⟩

theorem forkCtx_full {c : CtxId} {w : World} (h : Inv w) : Full none none w (forkCtx c w).2 :=
  (newLoader_full h).trans (newCtx_full (newLoader_step h).inv) (fun _ _ h => h) (fun _ _ h _ => h)

theorem tlSet_full {g : Nat} {v : CtxId} {w w1 : World} (h : Inv w) (hg : g < w.nextGid) (hgp : g ∉ pendGids w)
    (hs : tlSet g ctxKey v w = some w1) : Full none none w w1 := by
  refine ⟨tlSet_step h hg hgp hs, ?_, h, none_ne_pend⟩
  unfold tlSet at hs
  split at hs
  · cases hs
  · cases hs; exact DStep.of_same rfl rfl rfl

theorem tlFresh_full {g : Nat} {v : CtxId} {w : World} (h : Inv w) (hg : g < w.nextGid) (hgp : g ∉ pendGids w) :
    Full none none w (tlFresh g v w) :=
  ⟨tlFresh_step h hg hgp, DStep.of_same rfl rfl rfl, h, none_ne_pend⟩

theorem tlCleanup_full {g : Nat} {w : World} (h : Inv w) (hg : g < w.nextGid) (hgp : g ∉ pendGids w) :
    Full none none w (tlCleanup g w) :=
  ⟨tlCleanup_step h hg hgp, DStep.of_same rfl rfl rfl, h, none_ne_pend⟩

theorem note_full {g : Gid} {c : Nat} {w : World} (h : Inv w) (hc : c < w.nextCtx) (hnp : c ∉ pendCtxs w)
    (hne : ∀ g', (g', c) ∉ w.estab) : Full none none w (note g c w) :=
  ⟨note_step h hc hnp hne, DStep.of_same rfl rfl rfl, h, none_ne_pend⟩

theorem same_full {w w' : World} (h : Inv w) (h1 : w'.tls = w.tls) (h2 : w'.nextGid = w.nextGid)
    (h3 : w'.pending = w.pending) (h4 : w'.estab = w.estab) (h5 : w'.nextCtx = w.nextCtx)
    (h6 : w'.log = w.log) (h7 : w'.ctxs = w.ctxs) (h8 : w'.defs = w.defs) (h9 : w'.nextLoader = w.nextLoader) :
    Full none none w w' :=
  ⟨Step.of_same h h1 h2 h3 h4 h5 (logOK_same h6 h4) (fun _ _ => by rw [h7]), DStep.of_same h8 h9 h3, h, none_ne_pend⟩

theorem spawn_full {c : CtxId} {p : Prog} {w : World} (h : Inv w) : Full none none w (spawn .now c p w) := by
  refine ⟨spawn_step h, ⟨?_, ?_, ?_⟩, h, none_ne_pend⟩
  · rw [spawn_now]; exact Nat.le_succ _
  · intro l hl _ _
    have : l ≠ w.nextLoader := Nat.ne_of_lt hl
    simp [spawn_now, forkCtx, newCtx, newLoader, this]
  · intro t ht
    rw [spawn_now] at ht
    simp only [List.mem_append, List.mem_singleton] at ht
    rcases ht with ht | ht
    · exact Or.inl ht
    · subst ht
      exact Or.inr ⟨w.nextLoader, by simp [headOf, spawn_now, forkCtx, newCtx, newLoader], Nat.le_refl _⟩

theorem Full.weakenC {x w w'} {xc : Option CtxId} (f : Full none x w w') (hx : ∀ t ∈ w.pending, some t.ctx ≠ xc) :
    Full xc x w w' :=
  ⟨f.s.weaken, f.d, f.hinv, hx⟩

theorem not_pend_ne {w : World} {cx : Nat} (h : cx ∉ pendCtxs w) : ∀ t ∈ w.pending, some t.ctx ≠ some cx := by
  intro t ht hc
  apply h
  simp only [pendCtxs, List.mem_map]
  exact ⟨t, ht, by simpa using hc⟩

/-! ## composite steps -/

/-- what the induction hypothesis says about executing with the smaller fuel -/
def ExecFull (ex : Prog → Gid → CtxId → World → Outcome × World) : Prop :=
  ∀ p g c w, Pre g c w →
    Full (some c) (headOf w c) w (ex p g c w).2 ∧ (ex p g c w).2.tls = w.tls ∧
      ((ex p g c w).2.ctxs c).loader = (w.ctxs c).loader

theorem setEntry_ctxs (l : LoaderId) (n : String) (b : Bool) (w : World) : (setEntry l n b w).ctxs = w.ctxs := by
  unfold setEntry; split <;> rfl

theorem leafStep_full {g c : Nat} {l : Leaf} {w : World} (h : Pre g c w) :
    Full (some c) (headOf w c) w (leafStep g c l w).2 ∧ ((leafStep g c l w).2.ctxs c).loader = (w.ctxs c).loader := by
  have hx := lex_ne_pend h
  cases l with
  | obs =>
    simp only [leafStep, h.cur]
    exact ⟨((emit_full h.inv (EvOK.obs h.est)).weakenC hx).weakenL, rfl⟩
  | set k x => exact ⟨(setVar_full h.inv hx).weakenL, by simp [leafStep, setVar, setTag, ctxUpd]⟩
  | get k => exact ⟨((emit_full h.inv EvOK.get).weakenC hx).weakenL, rfl⟩
  | del k =>
    simp only [leafStep]
    exact ⟨(ctxUpd_full h.inv hx).weakenL, by simp [ctxUpd]⟩
  | push l =>
    simp only [leafStep]
    exact ⟨(ctxUpd_full h.inv hx).weakenL, by simp [ctxUpd]⟩
  | pop =>
    simp only [leafStep]
    split
    · exact ⟨Full.refl h.inv hx, rfl⟩
    · exact ⟨(ctxUpd_full (c := c) (f := fun y => { y with stack := y.stack.dropLast }) h.inv hx).weakenL, by simp [ctxUpd]⟩
  | deftype n =>
    simp only [leafStep]
    split
    · exact ⟨Full.refl h.inv hx, rfl⟩
    · rename_i l tl heq
      have hh : headOf w c = some l := by simp [headOf, heq]
      rw [hh]
      exact ⟨(setEntry_full h.inv).weakenC hx, by rw [setEntry_ctxs]⟩
  | load n =>
    simp only [leafStep]
    split
    · split
      · exact ⟨((emit_full h.inv EvOK.load).weakenC hx).weakenL, rfl⟩
      · rename_i l tl heq
        have hh : headOf w c = some l := by simp [headOf, heq]
        rw [hh]
        refine ⟨((setEntry_full h.inv).trans (emit_full (setEntry_step h.inv).inv EvOK.load) (fun _ _ h => h)
          (fun _ _ _ _ => by simp)).weakenC hx, ?_⟩
        show ((setEntry l n false w).ctxs c).loader = _
        rw [setEntry_ctxs]
    · exact ⟨((emit_full h.inv EvOK.load).weakenC hx).weakenL, rfl⟩
  | panic => exact ⟨Full.refl h.inv hx, rfl⟩

theorem doWithContext_full {g cx : Nat} {y : Option LoaderId} {body : World → Outcome × World} {w : World}
    (hinv : Inv w) (hg : g < w.nextGid) (hgp : g ∉ pendGids w)
    (hcx : cx < w.nextCtx) (hnp : cx ∉ pendCtxs w) (hne : ∀ g', (g', cx) ∉ w.estab)
    (hb : ∀ w1, Pre g cx w1 → w1.ctxs = w.ctxs → Full (some cx) y w1 (body w1).2 ∧ (body w1).2.tls = w1.tls) :
    Full (some cx) y w (doWithContext .now g cx body w).2 ∧ (doWithContext .now g cx body w).2.tls = w.tls := by
  have hxw := not_pend_ne hnp
  unfold doWithContext
  cases hget : tlGet g ctxKey w with
  | some save =>
    obtain ⟨t, ht, hts⟩ : ∃ t, w.tls g = some t ∧ aget ctxKey t = some save := by
      unfold tlGet at hget
      cases h : w.tls g with
      | none => simp [h] at hget
      | some t => exact ⟨t, rfl, by simpa [h] using hget⟩
    have hset := tlSet_eq (v := cx) ht
    have s1 : Full none none w (tlPut g (aset ctxKey cx t) w) := tlSet_full hinv hg hgp hset
    have s2 : Full none none (tlPut g (aset ctxKey cx t) w) (note g cx (tlPut g (aset ctxKey cx t) w)) :=
      note_full s1.s.inv hcx hnp hne
    have hpre : Pre g cx (note g cx (tlPut g (aset ctxKey cx t) w)) :=
      { inv := s2.s.inv
        cur := by simp [tlGet, note, tlPut, aget_aset_same]
        glt := hg
        gnp := hgp
        est := by simp [note] }
    obtain ⟨sb, tb⟩ := hb _ hpre rfl
    simp only [hset]
    generalize hr : body (note g cx (tlPut g (aset ctxKey cx t) w)) = r at sb tb
    have htr : r.2.tls g = some (aset ctxKey cx t) := by rw [tb]; simp [note, tlPut]
    have hset2 := tlSet_eq (v := save) htr
    rw [aset_aset_restore cx hts] at hset2
    simp only [hset2]
    have s12 : Full (some cx) y w r.2 :=
      (((s1.trans s2 (fun _ _ h => h) (fun _ _ h _ => h)).weakenC hxw).weakenL).trans sb (fun _ _ h => h) (fun _ _ h _ => h)
    have s3 : Full none none r.2 (tlPut g t r.2) :=
      tlSet_full s12.s.inv (Nat.lt_of_lt_of_le hg s12.s.gidMono) (s12.s.gid_not_pend hg hgp) hset2
    refine ⟨s12.trans s3 (fun _ _ _ => by simp) (fun _ _ _ _ => by simp), ?_⟩
    funext g'
    by_cases hgg : g' = g
    · subst hgg; simp [tlPut, ht]
    · simp [tlPut, hgg, tb, note]
  | none =>
    simp only [tlSet_tlInit, if_true]
    have s1 : Full none none w (tlFresh g cx w) := tlFresh_full hinv hg hgp
    have s2 : Full none none (tlFresh g cx w) (note g cx (tlFresh g cx w)) := note_full s1.s.inv hcx hnp hne
    have hpre : Pre g cx (note g cx (tlFresh g cx w)) :=
      { inv := s2.s.inv
        cur := by simp [tlGet, note, tlFresh, aget]
        glt := hg
        gnp := hgp
        est := by simp [note] }
    obtain ⟨sb, tb⟩ := hb _ hpre rfl
    generalize hr : body (note g cx (tlFresh g cx w)) = r at sb tb
    have s12 : Full (some cx) y w r.2 :=
      (((s1.trans s2 (fun _ _ h => h) (fun _ _ h _ => h)).weakenC hxw).weakenL).trans sb (fun _ _ h => h) (fun _ _ h _ => h)
    have s3 : Full none none r.2 (tlCleanup g r.2) :=
      tlCleanup_full s12.s.inv (Nat.lt_of_lt_of_le hg s12.s.gidMono) (s12.s.gid_not_pend hg hgp)
    refine ⟨s12.trans s3 (fun _ _ _ => by simp) (fun _ _ _ _ => by simp), ?_⟩
    have htn : w.tls g = none := (tlGet_none_iff hinv).1 hget
    funext g'
    by_cases hgg : g' = g
    · subst hgg; simp [tlCleanup, htn]
    · simp [tlCleanup, hgg, tb, note, tlFresh]

theorem headOf_forkCtx (c : CtxId) (w : World) : headOf (forkCtx c w).2 w.nextCtx = some w.nextLoader := by
  simp [headOf, forkCtx, newCtx, newLoader]

theorem catch_full {g : Gid} {ctch : Bool} {r : Outcome × World} {xc : Option CtxId} {x : Option LoaderId} {w : World}
    (base : Full xc x w r.2) :
    Full xc x w (if ctch = true ∧ r.1 = .panicked then (Outcome.normal, emit g .recovered r.2) else r).2 := by
  by_cases hc : ctch = true ∧ r.1 = .panicked
  · rw [if_pos hc]
    exact base.trans (emit_full base.s.inv EvOK.recovered) (fun _ _ _ => by simp) (fun _ _ _ _ => by simp)
  · rw [if_neg hc]
    exact base

theorem doParent_full {g : Nat} {id : Nat} {ctch : Bool} {body : CtxId → World → Outcome × World} {root : Nat} {w2 : World}
    (hp : Pre g root w2)
    (hb : ∀ cx w1, Pre g cx w1 →
      Full (some cx) (headOf w1 cx) w1 (body cx w1).2 ∧ (body cx w1).2.tls = w1.tls) :
    Full (some root) none w2 (doParent .now g id ctch body root w2).2 := by
  have sF : Full none none w2 (forkCtx root w2).2 := forkCtx_full hp.inv
  have hbody : ∀ w4, Pre g w2.nextCtx w4 → w4.ctxs = (forkCtx root w2).2.ctxs →
      Full (some w2.nextCtx) (some w2.nextLoader) w4 (body w2.nextCtx (setTag w2.nextCtx id w4)).2 ∧
      (body w2.nextCtx (setTag w2.nextCtx id w4)).2.tls = w4.tls := by
    intro w4 hp4 hc4
    have s4 : Full (some w2.nextCtx) none w4 (setTag w2.nextCtx id w4) := setTag_full hp4.inv (lex_ne_pend hp4)
    obtain ⟨sb, tb⟩ := hb w2.nextCtx _ (hp4.step s4.s rfl)
    have hh : headOf (setTag w2.nextCtx id w4) w2.nextCtx = some w2.nextLoader := by
      have := headOf_forkCtx root w2
      simp only [headOf] at this ⊢
      rw [← hc4] at this
      simpa [setVar, setTag, ctxUpd] using this
    rw [hh] at sb
    exact ⟨s4.weakenL.trans sb (fun _ _ h => h) (fun _ _ h _ => h), by rw [tb]; rfl⟩
  obtain ⟨hd, _⟩ := doWithContext_full (g := g) (cx := w2.nextCtx) (y := some w2.nextLoader) (w := (forkCtx root w2).2)
    (body := fun w4 => body w2.nextCtx (setTag w2.nextCtx id w4))
    sF.s.inv hp.glt hp.gnp (by simp) (ctx_fresh_not_pend hp.inv) (fun g' => ctx_fresh_not_estab hp.inv g') hbody
  have base : Full (some root) none w2 (doWithContext .now g w2.nextCtx
      (fun w4 => body w2.nextCtx (setTag w2.nextCtx id w4)) (forkCtx root w2).2).2 := by
    refine (sF.trans hd ?_ ?_).weakenC (lex_ne_pend hp)
    · intro i hi _ hc
      simp at hc; omega
    · intro l hl _ _ hc
      simp at hc; omega
  simp only [doParent, forkCtx_fst]
  exact catch_full (g := g) (ctch := ctch) base

theorem doDo_full {g : Nat} {id : Nat} {ctch : Bool} {body : CtxId → World → Outcome × World} {w : World}
    (hinv : Inv w) (hg : g < w.nextGid) (hgp : g ∉ pendGids w)
    (hb : ∀ cx w1, Pre g cx w1 →
      Full (some cx) (headOf w1 cx) w1 (body cx w1).2 ∧ (body cx w1).2.tls = w1.tls) :
    Full none none w (doDo .now g id ctch body w).2 := by
  simp only [doDo]
  have s0 : Full none none w (newCtx { loader := [0] } w).2 := newCtx_full hinv
  have hroot : (newCtx { loader := [0] } w).1 = w.nextCtx := rfl
  rw [hroot]
  obtain ⟨hd, _⟩ := doWithContext_full (g := g) (cx := w.nextCtx) (y := none) (w := (newCtx { loader := [0] } w).2)
    (body := doParent .now g id ctch body w.nextCtx)
    s0.s.inv hg hgp (Nat.lt_succ_self _) (ctx_fresh_not_pend hinv) (fun g' => ctx_fresh_not_estab hinv g')
    (fun w2 hp _ => ⟨doParent_full hp hb,
      (doParent_step hp (fun cx w1 hp1 => ⟨(hb cx w1 hp1).1.s, (hb cx w1 hp1).2⟩)).2⟩)
  refine s0.trans hd ?_ (fun _ _ h _ => h)
  intro i hi _ hc
  simp at hc; omega

theorem ExecFull.toOK {ex : Prog → Gid → CtxId → World → Outcome × World} (ih : ExecFull ex) : ExecOK ex :=
  fun p g c w h => ⟨(ih p g c w h).1.s, (ih p g c w h).2.1⟩

/-- a waiting goroutine runs from start to end: only entry tables of loaders that are the head of some waiting goroutine's
    chain (its own or those of others that ran meanwhile) or fresh are written -/
theorem runTask_full {ex : Prog → Gid → CtxId → World → Outcome × World} (ih : ExecFull ex) {w : World} {i : Nat} {t : Task}
    (hinv : Inv w) (ht : w.pending[i]? = some t) :
    Full none none w (runTask .now ex t { w with pending := w.pending.eraseIdx i }) := by
  have hstep := (runTask_step ih.toOK hinv ht).1
  refine ⟨hstep, ?_, hinv, none_ne_pend⟩
  have htm : t ∈ w.pending := mem_of_getElem? ht
  have hgn : t.gid ∉ pendGids { w with pending := w.pending.eraseIdx i } :=
    key_not_mem_eraseIdx (fun x : Task => x.gid) w.pending i t hinv.pendNodup ht
  have hcn : t.ctx ∉ pendCtxs { w with pending := w.pending.eraseIdx i } :=
    key_not_mem_eraseIdx (fun x : Task => x.ctx) w.pending i t hinv.pendCtxNodup ht
  have hinv0 : Inv { w with pending := w.pending.eraseIdx i } :=
    ⟨hinv.tlsFresh, fun t' h' => hinv.pendNone t' (mem_eraseIdx_of h'), fun t' h' => hinv.pendLt t' (mem_eraseIdx_of h'),
     nodup_map_eraseIdx _ _ _ hinv.pendNodup, hinv.hasKey, hinv.estabLt,
     fun t' h' => hinv.pendCtxLt t' (mem_eraseIdx_of h'), nodup_map_eraseIdx _ _ _ hinv.pendCtxNodup,
     fun t' h' => hinv.pendNotEstab t' (mem_eraseIdx_of h'), hinv.estabUniq⟩
  have hsub : ∀ t' ∈ ({ w with pending := w.pending.eraseIdx i } : World).pending, t' ∈ w.pending :=
    fun t' h' => mem_eraseIdx_of h'
  generalize hw0 : ({ w with pending := w.pending.eraseIdx i } : World) = w0 at hgn hcn hinv0 hsub
  have e1 : w0.nextGid = w.nextGid := by rw [← hw0]
  have e2 : w0.nextCtx = w.nextCtx := by rw [← hw0]
  have e3 : w0.estab = w.estab := by rw [← hw0]
  have e5 : w0.ctxs = w.ctxs := by rw [← hw0]
  have e6 : w0.defs = w.defs := by rw [← hw0]
  have e7 : w0.nextLoader = w.nextLoader := by rw [← hw0]
  have hgl : t.gid < w0.nextGid := by rw [e1]; exact hinv.pendLt t htm
  have hcl : t.ctx < w0.nextCtx := by rw [e2]; exact hinv.pendCtxLt t htm
  have hne : ∀ g', (g', t.ctx) ∉ w0.estab := by rw [e3]; exact hinv.pendNotEstab t htm
  have s1 : Full none none w0 (tlFresh t.gid t.ctx w0) := tlFresh_full hinv0 hgl hgn
  have s2 : Full none none (tlFresh t.gid t.ctx w0) (note t.gid t.ctx (tlFresh t.gid t.ctx w0)) := note_full s1.s.inv hcl hcn hne
  have s3 : Full (some t.ctx) none (note t.gid t.ctx (tlFresh t.gid t.ctx w0))
      (setTag t.ctx (1000 + t.gid) (note t.gid t.ctx (tlFresh t.gid t.ctx w0))) := setTag_full s2.s.inv (not_pend_ne hcn)
  have hpre : Pre t.gid t.ctx (setTag t.ctx (1000 + t.gid) (note t.gid t.ctx (tlFresh t.gid t.ctx w0))) :=
    { inv := s3.s.inv
      cur := by simp [tlGet, setVar, setTag, ctxUpd, note, tlFresh, aget]
      glt := hgl
      gnp := hgn
      est := by simp [setVar, setTag, ctxUpd, note] }
  obtain ⟨sb, _, _⟩ := ih t.prog t.gid t.ctx _ hpre
  have hh : headOf (setTag t.ctx (1000 + t.gid) (note t.gid t.ctx (tlFresh t.gid t.ctx w0))) t.ctx = headOf w t.ctx := by
    simp [headOf, setVar, setTag, ctxUpd, note, tlFresh, e5]
  rw [hh] at sb
  rw [runTask_now]
  generalize ex t.prog t.gid t.ctx (setTag t.ctx (1000 + t.gid) (note t.gid t.ctx (tlFresh t.gid t.ctx w0))) = r at sb
  have s03 : Full (some t.ctx) (headOf w t.ctx) w0 r.2 :=
    (((((s1.trans s2 (fun _ _ h => h) (fun _ _ h _ => h)).weakenC (not_pend_ne hcn)).weakenL).trans s3.weakenL
      (fun _ _ h => h) (fun _ _ h _ => h))).trans sb (fun _ _ h => h) (fun _ _ h _ => h)
  have s4 : Full none none r.2 (emit t.gid (.done r.1) r.2) := emit_full s03.s.inv EvOK.done
  have s5 : Full none none (emit t.gid (.done r.1) r.2)
      { emit t.gid (.done r.1) r.2 with oof := (emit t.gid (.done r.1) r.2).oof || decide (r.1 = .fuel) } :=
    same_full s4.s.inv rfl rfl rfl rfl rfl rfl rfl rfl rfl
  have s05 := (s03.trans s4 (fun _ _ _ => by simp) (fun _ _ _ _ => by simp)).trans s5 (fun _ _ _ => by simp) (fun _ _ _ _ => by simp)
  have s6 := tlCleanup_full (g := t.gid) s05.s.inv (Nat.lt_of_lt_of_le hgl s05.s.gidMono) (s05.s.gid_not_pend hgl hgn)
  have s06 := s05.trans s6 (fun _ _ _ => by simp) (fun _ _ _ _ => by simp)
  refine ⟨by rw [← e7]; exact s06.d.ldMono, ?_, ?_⟩
  · intro l hl _ hp
    rw [← e6]
    apply s06.d.dframe l (by rw [e7]; exact hl) (hp t htm)
    intro t' ht'
    have : headOf w0 t'.ctx = headOf w t'.ctx := by simp [headOf, e5]
    rw [this]; exact hp t' (hsub t' ht')
  · intro t' ht'
    rcases s06.d.newHeads t' ht' with h | ⟨l, hl, hge⟩
    · exact Or.inl (hsub t' h)
    · exact Or.inr ⟨l, hl, by rw [← e7]; exact hge⟩

theorem yield_full {ex : Prog → Gid → CtxId → World → Outcome × World} (ih : ExecFull ex) {w : World} (hinv : Inv w) :
    Full none none w (yield .now ex w) := by
  unfold yield
  split
  · exact Full.refl hinv none_ne_pend
  · rename_i d s hs
    have s1 : Full none none w { w with sched := s } := same_full hinv rfl rfl rfl rfl rfl rfl rfl rfl rfl
    simp only
    split
    · exact s1
    · split
      · exact s1
      · rename_i t ht
        have := runTask_full ih (w := { w with sched := s }) (i := (d - 1) % w.pending.length) (t := t) s1.s.inv ht
        exact s1.trans this (fun _ _ h => h) (fun _ _ h _ => h)

theorem ctx_keep {xc x w w'} {g c : Nat} (f : Full xc x w w') (h : Pre g c w) (hne : some c ≠ xc) : w'.ctxs c = w.ctxs c :=
  f.s.frame c h.clt hne (Or.inl h.cnp)

/-- the second induction -/
theorem exec_full : ∀ f, ExecFull (exec .now f) := by
  intro f
  induction f with
  | zero => intro p g c w h; exact ⟨Full.refl h.inv (lex_ne_pend h), rfl, rfl⟩
  | succ f ih =>
    intro p g c w h
    have hx := lex_ne_pend h
    have htls := (exec_step (f + 1) p g c w h).2
    cases p with
    | skip => exact ⟨Full.refl h.inv hx, rfl, rfl⟩
    | leaf l =>
      refine ⟨?_, htls, ?_⟩ <;> simp only [exec]
      all_goals
        have sy := yield_full ih h.inv
        have ty := (yield_step ih.toOK h.inv).2
        have hk : (yield .now (exec .now f) w).ctxs c = w.ctxs c := ctx_keep sy h (by simp)
        obtain ⟨sl, kl⟩ := leafStep_full (l := l) (h.step sy.s ty)
      · have hh : headOf (yield .now (exec .now f) w) c = headOf w c := by simp only [headOf, hk]
        rw [hh] at sl
        exact ((sy.weakenC hx).weakenL).trans sl (fun _ _ h => h) (fun _ _ h _ => h)
      · rw [kl, hk]
    | seq p q =>
      obtain ⟨s1, t1, k1⟩ := ih p g c w h
      refine ⟨?_, htls, ?_⟩ <;> simp only [exec]
      all_goals split
      · obtain ⟨s2, _, _⟩ := ih q g c _ (h.step s1.s t1)
        have hh : headOf (exec .now f p g c w).2 c = headOf w c := by simp only [headOf, k1]
        rw [hh] at s2
        exact s1.trans s2 (fun _ _ h => h) (fun _ _ h _ => h)
      · exact s1
      · obtain ⟨_, _, k2⟩ := ih q g c _ (h.step s1.s t1)
        rw [k2, k1]
      · exact k1
    | recover p =>
      obtain ⟨s1, t1, k1⟩ := ih p g c w h
      refine ⟨?_, htls, ?_⟩ <;> simp only [exec]
      all_goals split
      · exact s1.trans (emit_full s1.s.inv EvOK.recovered) (fun _ _ _ => by simp) (fun _ _ _ _ => by simp)
      · exact s1
      · exact k1
      · exact k1
    | doctx id p =>
      have sF : Full none none w (forkCtx c w).2 := forkCtx_full h.inv
      have sV : Full (some w.nextCtx) none (forkCtx c w).2 (setTag w.nextCtx id (forkCtx c w).2) :=
        setTag_full sF.s.inv (fresh_ne_pend h.inv (Nat.le_refl _))
      have hbody : ∀ w1, Pre g w.nextCtx w1 → w1.ctxs = (setTag w.nextCtx id (forkCtx c w).2).ctxs →
          Full (some w.nextCtx) (some w.nextLoader) w1 (exec .now f p g w.nextCtx w1).2 ∧
          (exec .now f p g w.nextCtx w1).2.tls = w1.tls := by
        intro w1 hp hc1
        obtain ⟨sb, tb, _⟩ := ih p g w.nextCtx w1 hp
        have hh : headOf w1 w.nextCtx = some w.nextLoader := by
          simp [headOf, hc1, setVar, setTag, ctxUpd, forkCtx, newCtx, newLoader]
        rw [hh] at sb
        exact ⟨sb, tb⟩
      obtain ⟨hd, _⟩ := doWithContext_full (g := g) (cx := w.nextCtx) (y := some w.nextLoader)
        (w := setTag w.nextCtx id (forkCtx c w).2) (body := fun w2 => exec .now f p g w.nextCtx w2)
        sV.s.inv h.glt h.gnp (Nat.lt_succ_self _) (ctx_fresh_not_pend h.inv) (fun g' => ctx_fresh_not_estab h.inv g') hbody
      have sVd := sV.weakenL.trans hd (fun _ _ h => h) (fun _ _ h _ => h)
      have hne : some c ≠ some w.nextCtx := by
        have h1 := h.clt
        intro hc
        have h2 : c = w.nextCtx := by simpa using hc
        rw [h2] at h1
        exact Nat.lt_irrefl _ h1
      refine ⟨?_, htls, ?_⟩ <;> simp only [exec, forkCtx_fst]
      · refine ((sF.weakenC hx).weakenL).trans sVd ?_ ?_
        · intro i hi _ hc
          simp at hc; omega
        · intro l hl _ _ hc
          simp at hc; omega
      · have k1 : (forkCtx c w).2.ctxs c = w.ctxs c := ctx_keep sF h (by simp)
        have hp1 : Pre g c (forkCtx c w).2 := h.step sF.s rfl
        have k2 := ctx_keep sVd hp1 hne
        rw [k2, k1]
    | dodo id p =>
      have sd := doDo_full (id := id) (ctch := false) (body := fun cx w1 => exec .now f p g cx w1) h.inv h.glt h.gnp
        (fun cx w1 hp => ⟨(ih p g cx w1 hp).1, (ih p g cx w1 hp).2.1⟩)
      refine ⟨?_, htls, ?_⟩ <;> simp only [exec]
      · exact (sd.weakenC hx).weakenL
      · rw [ctx_keep sd h (by simp)]
    | dotry id p =>
      have sd := doDo_full (id := id) (ctch := true) (body := fun cx w1 => exec .now f p g cx w1) h.inv h.glt h.gnp
        (fun cx w1 hp => ⟨(ih p g cx w1 hp).1, (ih p g cx w1 hp).2.1⟩)
      refine ⟨?_, htls, ?_⟩ <;> simp only [exec]
      · exact (sd.weakenC hx).weakenL
      · rw [ctx_keep sd h (by simp)]
    | doloader p =>
      have s1 : Full none none w (newLoader w).2 := newLoader_full h.inv
      have s2 : Full (some c) none (newLoader w).2
          (ctxUpd c (fun y => { y with loader := (newLoader w).1 :: (w.ctxs c).loader }) (newLoader w).2) :=
        ctxUpd_full s1.s.inv hx
      have s12 := (s1.weakenC hx).trans s2 (fun _ _ h => h) (fun _ _ h _ => h)
      obtain ⟨s3, _, _⟩ := ih p g c _ (h.step s12.s rfl)
      have hh : headOf (ctxUpd c (fun y => { y with loader := (newLoader w).1 :: (w.ctxs c).loader }) (newLoader w).2) c
          = some w.nextLoader := by simp [headOf, ctxUpd, newLoader]
      rw [hh] at s3
      have s4 := ctxUpd_full (c := c) (f := fun y => { y with loader := (w.ctxs c).loader }) s3.s.inv
        (lex_ne_pend ((h.step s12.s rfl).step s3.s (exec_step f p g c _ (h.step s12.s rfl)).2))
      refine ⟨?_, htls, ?_⟩ <;> simp only [exec]
      · refine ((s12.weakenL).trans s3 (fun _ _ h => h) ?_).trans s4 (fun _ _ h => h) (fun _ _ _ _ => by simp)
        intro l hl _ _ hc
        simp at hc; omega
      · simp [ctxUpd]
    | fork p =>
      have sp : Full none none w (spawn .now c p w) := spawn_full h.inv
      refine ⟨?_, htls, ?_⟩ <;> simp only [exec]
      · exact (sp.weakenC hx).weakenL
      · rw [ctx_keep sp h (by simp)]
    | go p =>
      have sp : Full none none w (spawn .now c p w) := spawn_full h.inv
      refine ⟨?_, htls, ?_⟩ <;> simp only [exec, h.cur]
      · exact (sp.weakenC hx).weakenL
      · rw [ctx_keep sp h (by simp)]

end Pcore.Tls
