import Pcore.Proofs.Files
/-!
C15, soundness of `found`: every definition a loader holds (and therefore every definition a lookup answers) carries the
key it is stored under and is justified by a file of the tree that sits where the index says (`At`).
One induction on the fuel over all mutually recursive functions of the model.
-/
namespace Pcore.Files

/-- the file `p` is what the loaders consult for `key`: an origin of `key` in some loader's index, or the
    `init_typeset` origin of the module whose own name `key` is -/
def At (cfg : Cfg) (p : Path) (key : Key) : Prop :=
  ∃ l, p ∈ idx cfg l key ∨
    (∃ mod, l = .m mod ∧ isGlobalMod mod = false ∧ key = [mod] ∧ p ∈ idx cfg l ["init_typeset"])

/-- where a definition comes from -/
def Justified (cfg : Cfg) (d : Def) : Prop :=
  (∃ e ∈ staticTypes, e.2 = d) ∨
  ∃ p b, bodyAt cfg.tree p = some b ∧
    ((∃ ts, b = .typ d.kind d.name ts ∧ At cfg p (keyOf d.name)) ∨
     (∃ nm ts t i, b = .typ .typeset nm ts ∧ t ∈ ts ∧ d = ⟨kindAt i, nm ++ [t]⟩ ∧ At cfg p (keyOf nm)) ∨
     (b = .bare ∧ d.kind = .alias ∧ At cfg p (keyOf d.name)))

def GoodDef (cfg : Cfg) (k : Key) (d : Def) : Prop := keyOf d.name = k ∧ Justified cfg d

def Inv (cfg : Cfg) (s : St) : Prop := ∀ l k d, s.get l k = some (some d) → GoodDef cfg k d

def PostE (cfg : Cfg) (name : Name) (r : Option Entry) : Prop := ∀ d, r = some (some d) → GoodDef cfg (keyOf name) d

abbrev SpecE (cfg : Cfg) (name : Name) (x : M (Option Entry)) : Prop :=
  ∀ s, Inv cfg s → wp x (fun r s' => Inv cfg s' ∧ PostE cfg name r) (Inv cfg) s

abbrev SpecU (cfg : Cfg) (x : M Unit) : Prop :=
  ∀ s, Inv cfg s → wp x (fun _ s' => Inv cfg s') (Inv cfg) s

def MembersGood (cfg : Cfg) (tsName : Name) (ts : List String) : Prop :=
  ∀ t ∈ ts, ∀ i, GoodDef cfg (keyOf (tsName ++ [t])) ⟨kindAt i, tsName ++ [t]⟩

structure AllSound (n : Nat) : Prop where
  loadEntry : ∀ cfg l name, SpecE cfg name (loadEntry n cfg l name)
  fbLoadEntry : ∀ cfg l name, SpecE cfg name (fbLoadEntry n cfg l name)
  find : ∀ cfg l name, SpecE cfg name (find n cfg l name)
  findTail : ∀ cfg l name, SpecE cfg name (findTail n cfg l name)
  parentSearch : ∀ cfg l name ts, SpecE cfg name (parentSearch n cfg l name ts)
  instantiate : ∀ cfg l name origins, (∀ p, origins.head? = some p → At cfg p (keyOf name)) →
    SpecE cfg name (instantiate n cfg l name origins)
  instantiator : ∀ cfg name origins, (∀ p, origins.head? = some p → At cfg p (keyOf name)) →
    SpecU cfg (instantiator n cfg name origins)
  addTypes : ∀ cfg d ts, GoodDef cfg (keyOf d.name) d → (d.kind = .typeset → MembersGood cfg d.name ts) →
    SpecU cfg (addTypes n cfg d ts)
  resolveTS : ∀ cfg tsName ts i, MembersGood cfg tsName ts → SpecU cfg (resolveTS n cfg tsName ts i)
  dLoadEntry : ∀ cfg name, SpecE cfg name (dLoadEntry n cfg name)
  dFind : ∀ cfg name, SpecE cfg name (dFind n cfg name)
  dMembers : ∀ cfg name, SpecE cfg name (dMembers n cfg name)
  dLoop : ∀ cfg mods name, SpecE cfg name (dLoop n cfg mods name)

theorem inv_put {cfg : Cfg} {s : St} (h : Inv cfg s) (l : Lid) (k : Key) (e : Entry)
    (he : ∀ d, e = some d → GoodDef cfg k d) : Inv cfg (s.put l k e) := by
  intro l' k' d hd
  rw [get_put] at hd
  by_cases hk : (l', k') = (l, k)
  · simp only [hk, if_true] at hd
    have : k' = k := (Prod.mk.inj hk).2
    subst this
    exact he d (Option.some.inj hd)
  · simp only [hk, if_false] at hd
    exact h l' k' d hd

/-- `setEntry` keeps the invariant and answers a good entry -/
theorem sound_setEntry {cfg : Cfg} {s : St} (h : Inv cfg s) (l : Lid) (k : Key) (e : Entry)
    (he : ∀ d, e = some d → GoodDef cfg k d) :
    wp (setEntry l k e) (fun r s' => Inv cfg s' ∧ ∀ d, r = some d → GoodDef cfg k d) (Inv cfg) s := by
  rw [wp_setEntry]
  cases hg : s.get l k with
  | none => exact ⟨inv_put h l k e he, he⟩
  | some o =>
    cases o with
    | none => exact ⟨inv_put h l k e he, he⟩
    | some old =>
      cases e with
      | none => exact ⟨h, fun d hd => by cases hd; exact h l k old hg⟩
      | some new =>
        by_cases hd : defEquals old new
        · simp only [hd, if_true]; exact ⟨h, fun d hd' => by cases hd'; exact h l k old hg⟩
        · simp only [hd]; exact h

theorem sysLoad_good (cfg : Cfg) (name : Name) : PostE cfg name (sysLoad name) := by
  intro d hd
  unfold sysLoad at hd
  cases hf : staticTypes.find? (fun e => e.1 = keyOf name) with
  | none => rw [hf] at hd; cases hd
  | some e =>
    rw [hf] at hd
    have hd' : e.2 = d := by injection hd with h1; injection h1
    have hmem := List.mem_of_find?_eq_some hf
    have hkey := List.find?_some hf
    refine ⟨?_, Or.inl ⟨e, hmem, hd'⟩⟩
    have hk : e.1 = keyOf name := by simpa using hkey
    rw [← hd', ← hk]
    -- every static entry is stored under the key of its name
    have : ∀ e ∈ staticTypes, keyOf e.2.name = e.1 := by decide
    exact this e hmem

end Pcore.Files

namespace Pcore.Files

theorem postE_of_inv {cfg : Cfg} {s : St} (h : Inv cfg s) (l : Lid) (name : Name) :
    PostE cfg name (s.get l (keyOf name)) := fun d hd => h l (keyOf name) d hd

theorem partsOf_eq {n : Name} {k : Key} (h : partsOf n = some k) : k = keyOf n := by
  unfold partsOf at h
  by_cases hv : (keyOf n).all validPart = true
  · simp only [hv, if_true] at h; exact (Option.some.inj h).symm
  · simp only [hv] at h; cases h

theorem key_single {name : Name} {mod : String} (hq : qualified name = false)
    (hh : (keyOf name).head? = some mod) : keyOf name = [mod] := by
  unfold qualified at hq
  cases name with
  | nil => simp [keyOf] at hh
  | cons a rest =>
    cases rest with
    | nil => simpa [keyOf] using hh
    | cons b rest' => simp at hq

theorem lid_of_moduleName {l : Lid} (h : isGlobalMod l.moduleName = false) : l = .m l.moduleName := by
  cases l with
  | m mod => rfl
  | g => simp [Lid.moduleName, isGlobalMod] at h
  | d => simp [Lid.moduleName, isGlobalMod] at h

theorem step_fbLoadEntry {n : Nat} (ih : AllSound n) (cfg : Cfg) (l : Lid) (name : Name) :
    SpecE cfg name (fbLoadEntry (n+1) cfg l name) := by
  intro s hs
  simp only [fbLoadEntry, wp_bind]
  have h1 : wp (match l with
      | .m _ => if cfg.flat then pure (sysLoad name) else fbLoadEntry n cfg .g name
      | _ => pure (sysLoad name))
      (fun r s' => Inv cfg s' ∧ PostE cfg name r) (Inv cfg) s := by
    cases l with
    | m mod =>
      simp only []
      by_cases hf : cfg.flat = true
      · rw [if_pos hf]; exact ⟨hs, sysLoad_good cfg name⟩
      · rw [if_neg hf]; exact ih.fbLoadEntry cfg .g name s hs
    | g => exact ⟨hs, sysLoad_good cfg name⟩
    | d => exact ⟨hs, sysLoad_good cfg name⟩
  refine wp_mono h1 ?_ (fun _ h => h)
  intro pe s1 ⟨hs1, hpe⟩
  simp only [wp_getSt]
  have hrest : ∀ entry : Option Entry, PostE cfg name entry →
      wp (match entry with
          | some e => pure (some e)
          | none => do
            let r ← find n cfg l name
            match r with
              | some e => pure (some e)
              | none => do
                let e ← setEntry l (keyOf name) none
                pure (some e))
        (fun r s' => Inv cfg s' ∧ PostE cfg name r) (Inv cfg) s1 := by
    intro entry hentry
    cases entry with
    | some e => exact ⟨hs1, hentry⟩
    | none =>
      simp only [wp_bind]
      refine wp_mono (ih.find cfg l name s1 hs1) ?_ (fun _ h => h)
      intro r s2 ⟨hs2, hr⟩
      cases r with
      | some e => exact ⟨hs2, hr⟩
      | none =>
        simp only [wp_bind]
        refine wp_mono (sound_setEntry hs2 l (keyOf name) none (fun d hd => by cases hd)) ?_ (fun _ h => h)
        intro e s3 ⟨hs3, he⟩
        exact ⟨hs3, fun d hd => he d (by injection hd)⟩
  match pe, hpe with
  | some (some d), hpe => exact hrest _ hpe
  | some none, _ => exact hrest _ (postE_of_inv hs1 l name)
  | none, _ => exact hrest _ (postE_of_inv hs1 l name)

theorem step_loadEntry {n : Nat} (ih : AllSound n) (cfg : Cfg) (l : Lid) (name : Name) :
    SpecE cfg name (loadEntry (n+1) cfg l name) := by
  intro s hs
  cases l with
  | d => simp only [loadEntry]; exact ih.dLoadEntry cfg name s hs
  | g => simp only [loadEntry]; exact ih.fbLoadEntry cfg .g name s hs
  | m mod => simp only [loadEntry]; exact ih.fbLoadEntry cfg (.m mod) name s hs

theorem step_instantiate {n : Nat} (ih : AllSound n) (cfg : Cfg) (l : Lid) (name : Name) (origins : List Path)
    (hat : ∀ p, origins.head? = some p → At cfg p (keyOf name)) :
    SpecE cfg name (instantiate (n+1) cfg l name origins) := by
  intro s hs
  simp only [instantiate, wp_bind, wp_getSt]
  cases hg : s.get l (keyOf name) with
  | some v =>
    simp only [wp_bind, wp_getSt, wp_pure]
    exact ⟨hs, postE_of_inv hs l name⟩
  | none =>
    simp only [wp_bind]
    refine wp_mono (sound_setEntry hs l (keyOf name) none (fun d hd => by cases hd)) ?_ (fun _ h => h)
    intro _ s1 ⟨hs1, _⟩
    refine wp_mono (ih.instantiator cfg name origins hat s1 hs1) ?_ (fun _ h => h)
    intro _ s2 hs2
    simp only [wp_getSt, wp_pure]
    exact ⟨hs2, postE_of_inv hs2 l name⟩

theorem step_findTail {n : Nat} (ih : AllSound n) (cfg : Cfg) (l : Lid) (name : Name) :
    SpecE cfg name (findTail (n+1) cfg l name) := by
  intro s hs
  simp only [findTail]
  cases hi : idx cfg l (keyOf name) with
  | cons o os =>
    simp only []
    refine ih.instantiate cfg l name (o :: os) ?_ s hs
    intro p hp
    simp only [List.head?] at hp
    cases hp
    exact ⟨l, Or.inl (by rw [hi]; exact List.mem_cons_self ..)⟩
  | nil =>
    simp only []
    by_cases hq : qualified name = true
    · simp only [hq, if_true]; exact ih.parentSearch cfg l name name.dropLast s hs
    · simp only [hq]; exact ⟨hs, fun d hd => by cases hd⟩

theorem step_parentSearch {n : Nat} (ih : AllSound n) (cfg : Cfg) (l : Lid) (name ts : Name) :
    SpecE cfg name (parentSearch (n+1) cfg l name ts) := by
  intro s hs
  cases ts with
  | nil => simp only [parentSearch]; exact ⟨hs, fun d hd => by cases hd⟩
  | cons t rest =>
    simp only [parentSearch, wp_bind, wp_getSt]
    cases hg : s.get l (keyOf (t :: rest)) with
    | some v => simp only []; exact ih.parentSearch cfg l name _ s hs
    | none =>
      simp only [wp_bind]
      refine wp_mono (ih.find cfg l (t :: rest) s hs) ?_ (fun _ h => h)
      intro _ s1 ⟨hs1, _⟩
      simp only [wp_getSt]
      cases hg1 : s1.get l (keyOf name) with
      | some te =>
        simp only [wp_pure]
        exact ⟨hs1, fun d hd => hs1 l (keyOf name) d (by rw [hg1]; exact hd)⟩
      | none => simp only []; exact ih.parentSearch cfg l name _ s1 hs1

theorem step_find {n : Nat} (ih : AllSound n) (cfg : Cfg) (l : Lid) (name : Name) :
    SpecE cfg name (find (n+1) cfg l name) := by
  intro s hs
  simp only [find]
  have hnone : Inv cfg s ∧ PostE cfg name none := ⟨hs, fun d hd => by cases hd⟩
  by_cases hq : qualified name = true
  · rw [if_pos hq]
    by_cases hm : l.moduleName ≠ ""
    · rw [if_pos hm]
      simp only [wp_bind, wp_partsM]
      cases hp : partsOf name with
      | none => exact hs
      | some ps =>
        simp only []
        by_cases hh : some l.moduleName ≠ ps.head?
        · rw [if_pos hh]; exact hnone
        · rw [if_neg hh]; exact ih.findTail cfg l name s hs
    · rw [if_neg hm]; exact ih.findTail cfg l name s hs
  · rw [if_neg hq]
    have hq' : qualified name = false := by simpa using hq
    by_cases hg : (!isGlobalMod l.moduleName) = true
    · rw [if_pos hg]
      simp only [wp_bind, wp_partsM]
      cases hp : partsOf name with
      | none => exact hs
      | some ps =>
        simp only []
        by_cases hh : some l.moduleName ≠ ps.head?
        · rw [if_pos hh]; exact hnone
        · rw [if_neg hh]
          cases hi : idx cfg l ["init_typeset"] with
          | nil => exact hnone
          | cons o os =>
            simp only []
            have hat : ∀ p, (o :: os).head? = some p → At cfg p (keyOf name) := by
              intro p hp'
              simp only [List.head?] at hp'
              cases hp'
              have hgm : isGlobalMod l.moduleName = false := by simpa using hg
              have hk : keyOf name = [l.moduleName] := by
                apply key_single hq'
                rw [← partsOf_eq hp]
                have : some l.moduleName = ps.head? := by
                  by_cases h' : some l.moduleName = ps.head?
                  · exact h'
                  · exact absurd h' hh
                exact this.symm
              refine ⟨l, Or.inr ⟨l.moduleName, lid_of_moduleName hgm, hgm, hk, ?_⟩⟩
              rw [hi]; exact List.mem_cons_self ..
            by_cases hgi : cfg.guardInit = true
            · rw [if_pos hgi]
              simp only [wp_bind]
              refine wp_mono (ih.instantiate cfg l name (o :: os) hat s hs) ?_ (fun _ h => h)
              intro e s1 ⟨hs1, he⟩
              match e, he with
              | some (some d), he =>
                simp only []
                by_cases hk : d.kind = .typeset
                · rw [if_pos hk]; exact ⟨hs1, he⟩
                · rw [if_neg hk]; exact hs1
              | some none, he => exact ⟨hs1, he⟩
              | none, he => exact ⟨hs1, he⟩
            · rw [if_neg hgi]
              simp only [wp_bind]
              refine wp_mono (ih.instantiator cfg name (o :: os) hat s hs) ?_ (fun _ h => h)
              intro _ s1 hs1
              simp only [wp_getSt]
              cases hg1 : s1.get l (keyOf name) with
              | none => exact hs1
              | some v =>
                cases v with
                | none => exact hs1
                | some d =>
                  simp only []
                  by_cases hk : d.kind = .typeset
                  · rw [if_pos hk]
                    exact ⟨hs1, fun d' hd' => by
                      have : d = d' := by injection hd' with h1; injection h1
                      subst this; exact hs1 l (keyOf name) d hg1⟩
                  · rw [if_neg hk]; exact hs1
    · rw [if_neg hg]; exact ih.findTail cfg l name s hs

theorem inv_addRead {cfg : Cfg} {s : St} (h : Inv cfg s) (p : Path) : Inv cfg (s.addRead p) :=
  fun l k d hd => h l k d (by simpa using hd)

theorem step_instantiator {n : Nat} (ih : AllSound n) (cfg : Cfg) (name : Name) (origins : List Path)
    (hat : ∀ p, origins.head? = some p → At cfg p (keyOf name)) :
    SpecU cfg (instantiator (n+1) cfg name origins) := by
  intro s hs
  cases origins with
  | nil => simp only [instantiator]; exact hs
  | cons p rest =>
    simp only [instantiator, wp_bind, wp_modifySt]
    have hs1 := inv_addRead hs p
    have hp : At cfg p (keyOf name) := hat p rfl
    cases hb : bodyAt cfg.tree p with
    | none => exact hs1
    | some b =>
      cases b with
      | unreadable => exact hs1
      | malformed ln => exact hs1
      | nodef => exact hs1
      | bare =>
        simp only []
        refine ih.addTypes cfg ⟨.alias, name⟩ [] ⟨rfl, Or.inr ⟨p, .bare, hb, Or.inr (Or.inr ⟨rfl, rfl, hp⟩)⟩⟩ ?_ _ hs1
        intro h; cases h
      | typ k nm ts =>
        simp only []
        by_cases hk : keyOf nm ≠ keyOf name
        · rw [if_pos hk]; exact hs1
        · rw [if_neg hk]
          have hk' : keyOf nm = keyOf name := by
            by_cases h' : keyOf nm = keyOf name
            · exact h'
            · exact absurd h' hk
          have hp' : At cfg p (keyOf nm) := by rw [hk']; exact hp
          refine ih.addTypes cfg ⟨k, nm⟩ ts ⟨rfl, Or.inr ⟨p, _, hb, Or.inl ⟨ts, rfl, hp'⟩⟩⟩ ?_ _ hs1
          intro hkind t ht i
          have hkind' : k = .typeset := hkind
          subst hkind'
          exact ⟨rfl, Or.inr ⟨p, _, hb, Or.inr (Or.inl ⟨nm, ts, t, i, rfl, ht, rfl, hp'⟩)⟩⟩

theorem step_addTypes {n : Nat} (ih : AllSound n) (cfg : Cfg) (d : Def) (ts : List String)
    (hd : GoodDef cfg (keyOf d.name) d) (hm : d.kind = .typeset → MembersGood cfg d.name ts) :
    SpecU cfg (addTypes (n+1) cfg d ts) := by
  intro s hs
  simp only [addTypes]
  have hset : ∀ s1, Inv cfg s1 → wp (do
      let _ ← setEntry cfg.via (keyOf d.name) (some d)
      pure ()) (fun _ s' => Inv cfg s') (Inv cfg) s1 := by
    intro s1 hs1
    simp only [wp_bind]
    refine wp_mono (sound_setEntry hs1 cfg.via (keyOf d.name) (some d) (fun d' h' => by cases h'; exact hd)) ?_
      (fun _ h => h)
    intro _ s2 ⟨hs2, _⟩
    exact hs2
  by_cases hk : d.kind = .typeset
  · rw [if_pos hk]
    simp only [wp_bind]
    refine wp_mono (ih.resolveTS cfg d.name ts 0 (hm hk) s hs) ?_ (fun _ h => h)
    intro _ s1 hs1
    have := hset s1 hs1
    simpa only [wp_bind] using this
  · rw [if_neg hk]; exact hset s hs

theorem step_resolveTS {n : Nat} (ih : AllSound n) (cfg : Cfg) (tsName : Name) (ts : List String) (i : Nat)
    (hm : MembersGood cfg tsName ts) : SpecU cfg (resolveTS (n+1) cfg tsName ts i) := by
  intro s hs
  cases ts with
  | nil => simp only [resolveTS]; exact hs
  | cons t rest =>
    simp only [resolveTS, wp_bind]
    refine wp_mono (ih.loadEntry cfg cfg.via (tsName ++ [t]) s hs) ?_ (fun _ h => h)
    intro le s1 ⟨hs1, _⟩
    have hrest : ∀ s2, Inv cfg s2 → wp (resolveTS n cfg tsName rest (i + 1)) (fun _ s' => Inv cfg s') (Inv cfg) s2 :=
      fun s2 hs2 => ih.resolveTS cfg tsName rest (i + 1) (fun t' ht' => hm t' (List.mem_cons_of_mem _ ht')) s2 hs2
    have hset : wp (do
        let _ ← setEntry cfg.via (keyOf (tsName ++ [t])) (some ⟨kindAt i, tsName ++ [t]⟩)
        pure ()) (fun _ s' => wp (resolveTS n cfg tsName rest (i + 1)) (fun _ s' => Inv cfg s') (Inv cfg) s')
        (Inv cfg) s1 := by
      simp only [wp_bind]
      refine wp_mono (sound_setEntry hs1 cfg.via _ _ (fun d' h' => by
        cases h'; exact hm t (List.mem_cons_self ..) i)) ?_ (fun _ h => h)
      intro _ s2 ⟨hs2, _⟩
      exact hrest s2 hs2
    match le with
    | some (some d) => exact hrest s1 hs1
    | some none => simpa only [wp_bind, wp_pure] using hset
    | none => simpa only [wp_bind, wp_pure] using hset

theorem step_dLoop {n : Nat} (ih : AllSound n) (cfg : Cfg) (mods : List String) (name : Name) :
    SpecE cfg name (dLoop (n+1) cfg mods name) := by
  intro s hs
  cases mods with
  | nil =>
    simp only [dLoop, wp_bind, wp_getSt, wp_pure]
    exact ⟨hs, postE_of_inv hs .d name⟩
  | cons m rest =>
    simp only [dLoop, wp_bind]
    refine wp_mono (ih.fbLoadEntry cfg (.m m) name s hs) ?_ (fun _ h => h)
    intro e s1 ⟨hs1, he⟩
    match e, he with
    | some (some d), he => exact ⟨hs1, he⟩
    | some none, _ => exact ih.dLoop cfg rest name s1 hs1
    | none, _ => exact ih.dLoop cfg rest name s1 hs1

theorem step_dFind {n : Nat} (ih : AllSound n) (cfg : Cfg) (name : Name) :
    SpecE cfg name (dFind (n+1) cfg name) := by
  intro s hs
  simp only [dFind]
  by_cases hc : (!cfg.mods.isEmpty && qualified name) = true
  · rw [if_pos hc]
    simp only [wp_bind, wp_partsM]
    cases hp : partsOf name with
    | none => exact hs
    | some ps =>
      simp only []
      cases hh : ps.head? with
      | none => exact ih.dMembers cfg name s hs
      | some h =>
        simp only []
        by_cases hm : cfg.mods.contains h = true
        · rw [if_pos hm]; exact ih.fbLoadEntry cfg (.m h) name s hs
        · rw [if_neg hm]; exact ih.dMembers cfg name s hs
  · rw [if_neg hc]; exact ih.dMembers cfg name s hs

theorem step_dMembers {n : Nat} (ih : AllSound n) (cfg : Cfg) (name : Name) :
    SpecE cfg name (dMembers (n+1) cfg name) := by
  intro s hs
  simp only [dMembers]
  by_cases hf : cfg.flat = true
  · rw [if_pos hf]
    simp only [wp_bind]
    refine wp_mono (ih.fbLoadEntry cfg .g name s hs) ?_ (fun _ h => h)
    intro e s1 ⟨hs1, he⟩
    match e, he with
    | some (some d), he => exact ⟨hs1, he⟩
    | some none, _ => exact ih.dLoop cfg cfg.mods name s1 hs1
    | none, _ => exact ih.dLoop cfg cfg.mods name s1 hs1
  · rw [if_neg hf]; exact ih.dLoop cfg cfg.mods name s hs

theorem step_dLoadEntry {n : Nat} (ih : AllSound n) (cfg : Cfg) (name : Name) :
    SpecE cfg name (dLoadEntry (n+1) cfg name) := by
  intro s hs
  simp only [dLoadEntry, wp_bind, wp_getSt]
  have hbody : ∀ own : Option Entry, s.get .d (keyOf name) = own →
      wp (do
        let r ← dFind n cfg name
        let st ← getSt
        match r, st.get .d (keyOf name) with
        | some (some d), some (some d') =>
          if d = d' then pure (some (some d))
          else do
            let e ← setEntry .d (keyOf name) (some d)
            pure (some e)
        | some (some d), _ => do
          let e ← setEntry .d (keyOf name) (some d)
          pure (some e)
        | _, _ =>
          match own with
          | none => do
            let e ← setEntry .d (keyOf name) none
            pure (some e)
          | some o => pure (some o)) (fun r s' => Inv cfg s' ∧ PostE cfg name r) (Inv cfg) s := by
    intro own hown
    simp only [wp_bind]
    refine wp_mono (ih.dFind cfg name s hs) ?_ (fun _ h => h)
    intro r s1 ⟨hs1, hr⟩
    simp only [wp_getSt]
    have hset : ∀ e0 : Entry, (∀ d', e0 = some d' → GoodDef cfg (keyOf name) d') →
        wp (do
          let e ← setEntry .d (keyOf name) e0
          pure (some e)) (fun r s' => Inv cfg s' ∧ PostE cfg name r) (Inv cfg) s1 := by
      intro e0 he0
      simp only [wp_bind]
      refine wp_mono (sound_setEntry hs1 .d (keyOf name) e0 he0) ?_ (fun _ h => h)
      intro e s2 ⟨hs2, he⟩
      exact ⟨hs2, fun d hd => he d (by injection hd)⟩
    have hgen : wp (match own with
        | none => do
          let e ← setEntry .d (keyOf name) none
          pure (some e)
        | some o => pure (some o)) (fun r s' => Inv cfg s' ∧ PostE cfg name r) (Inv cfg) s1 := by
      cases own with
      | none => exact hset none (fun d' h' => by cases h')
      | some o =>
        refine ⟨hs1, fun d hd => ?_⟩
        have ho : o = some d := by injection hd
        exact hs .d (keyOf name) d (by rw [hown, ho])
    match r, hr, s1.get .d (keyOf name) with
    | some (some d), hr, some (some d') =>
      simp only []
      by_cases hdd : d = d'
      · rw [if_pos hdd]; exact ⟨hs1, hr⟩
      · rw [if_neg hdd]
        exact hset (some d) (fun d'' h' => by cases h'; exact hr d rfl)
    | some (some d), hr, some none => exact hset (some d) (fun d'' h' => by cases h'; exact hr d rfl)
    | some (some d), hr, none => exact hset (some d) (fun d'' h' => by cases h'; exact hr d rfl)
    | some none, hr, _ => exact hgen
    | none, hr, _ => exact hgen
  match hg : s.get .d (keyOf name) with
  | some (some d) =>
    simp only [wp_pure]
    exact ⟨hs, fun d' hd => hs .d (keyOf name) d' (by rw [hg]; exact hd)⟩
  | some none => exact hbody (some none) hg
  | none => exact hbody none hg

theorem allSound : ∀ n, AllSound n
  | 0 => by
    constructor <;> intros <;> intro s hs <;>
      simp only [loadEntry, fbLoadEntry, find, findTail, parentSearch, instantiate, instantiator, addTypes, resolveTS,
        dLoadEntry, dFind, dMembers, dLoop, wp_raise] <;> exact hs
  | n+1 =>
    have ih := allSound n
    { loadEntry := step_loadEntry ih
      fbLoadEntry := step_fbLoadEntry ih
      find := step_find ih
      findTail := step_findTail ih
      parentSearch := step_parentSearch ih
      instantiate := step_instantiate ih
      instantiator := step_instantiator ih
      addTypes := step_addTypes ih
      resolveTS := step_resolveTS ih
      dLoadEntry := step_dLoadEntry ih
      dFind := step_dFind ih
      dMembers := step_dMembers ih
      dLoop := step_dLoop ih }

theorem sound_load (fuel : Nat) (cfg : Cfg) (name : Name) (s : St) (hs : Inv cfg s) :
    wp (load fuel cfg name) (fun o s' => Inv cfg s' ∧ ∀ d, o = .found d → GoodDef cfg (keyOf name) d) (Inv cfg) s := by
  unfold load
  simp only [wp_bind]
  refine wp_mono ((allSound fuel).loadEntry cfg cfg.via name s hs) ?_ (fun _ h => h)
  intro e s1 ⟨hs1, he⟩
  match e, he with
  | none, _ =>
    simp only [wp_bind]
    refine wp_mono (sound_setEntry hs1 cfg.via (keyOf name) none (fun d hd => by cases hd)) ?_ (fun _ h => h)
    intro _ s2 ⟨hs2, _⟩
    exact ⟨hs2, fun d hd => by cases hd⟩
  | some none, _ => exact ⟨hs1, fun d hd => by cases hd⟩
  | some (some d), he => exact ⟨hs1, fun d' hd' => by cases hd'; exact he d rfl⟩

theorem sound_loadS (fuel : Nat) (cfg : Cfg) (s : St) (name : Name) (hs : Inv cfg s) :
    Inv cfg (loadS fuel cfg s name).2 ∧ ∀ d, (loadS fuel cfg s name).1 = .found d → GoodDef cfg (keyOf name) d := by
  have h := sound_load fuel cfg name s hs
  unfold wp at h
  unfold loadS
  cases hx : load fuel cfg name s with
  | ok a s' => rw [hx] at h; exact h
  | fail e s' => rw [hx] at h; exact ⟨h, fun d hd => by cases hd⟩

theorem inv_init (cfg : Cfg) : Inv cfg {} := fun _ _ _ h => by cases h

end Pcore.Files
