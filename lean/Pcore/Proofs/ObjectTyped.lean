import Pcore.Proofs.ObjectDefine
/-! C17: the attributes of accepted definitions hold well-typed defaults, and so the NAMED constructor — like the positional one —
    builds instances whose stored values are instances of their attributes' types (`Valid`). -/
namespace Pcore.Object

/-- the declared value of the attribute is an instance of its type; a given_or_derived attribute's type accepts undef -/
def AttrTyped (a : Attr) : Prop :=
  (∀ v, a.value = some v → inst a.ty v = true) ∧ (a.kind = .givenOrDerived → inst a.ty .undef = true)

theorem mkAttr_typed {d : AttrDecl} {a : Attr} (h : mkAttr d = .ok a) : AttrTyped a := by
  have hcore := (mkAttr_core h).1
  obtain ⟨n, ty, k, dv, o, f⟩ := d
  unfold mkAttrCore at hcore
  cases dv with
  | some v =>
    simp only at hcore
    split at hcore
    · cases hcore
    · rename_i hk
      split at hcore
      · rename_i hinst
        cases hcore
        simp only [Bool.or_eq_true, beq_iff_eq, not_or] at hk
        exact ⟨fun w hw => by simp only [Option.some.injEq] at hw; subst hw; exact hinst, fun hg => absurd hg hk.2⟩
      · cases hcore
  | none =>
    simp only at hcore
    split at hcore
    · cases hcore
    · cases hcore
      constructor
      · intro w hw
        simp only at hw
        split at hw
        · rename_i t' heq
          cases hw
          simp only
          rw [heq]
          simp [inst]
        · cases hw
      · intro hg
        simp only at hg ⊢
        subst hg
        by_cases hu : inst ty .undef = true
        · simp [hu]
        · simp [hu, inst]

/-- every attribute of the chain is `AttrTyped` -/
def TypeTyped (t : OType) : Prop := ∀ a ∈ eachAttribute t, AttrTyped a

theorem typeTyped_nil : TypeTyped [] := by intro a ha; simp [eachAttribute] at ha

theorem typeTyped_cons {l : Level} {p : OType} (hp : TypeTyped p) (hl : ∀ a ∈ l.attrs, AttrTyped a) :
    TypeTyped (l :: p) := by
  intro a ha
  rw [eachAttribute_cons, List.mem_append] at ha
  rcases ha with ha | ha
  · rw [List.mem_map] at ha
    obtain ⟨x, hx, rfl⟩ := ha
    unfold repl
    cases hf : l.attrs.find? (fun b => b.name == x.name) with
    | none => exact hp x hx
    | some b => exact hl b (find_some_mem hf).1
  · rw [List.mem_filter] at ha
    exact hl a ha.1

theorem defineAttrs_typed {parent : OType} {ds : List AttrDecl} {as : List Attr} (h : defineAttrs parent ds = .ok as) :
    ∀ a ∈ as, AttrTyped a := by
  induction ds generalizing as with
  | nil => simp [defineAttrs] at h; subst h; simp
  | cons d ds ih =>
    unfold defineAttrs at h
    cases hm : mkAttr d with
    | error c => simp [hm] at h
    | ok a =>
      simp only [hm] at h
      cases ho : assertOverride parent a with
      | error c => simp [ho] at h
      | ok u =>
        simp only [ho] at h
        cases hr : defineAttrs parent ds with
        | error c => simp [hr] at h
        | ok as' =>
          simp only [hr] at h
          cases h
          intro b hb
          simp only [List.mem_cons] at hb
          rcases hb with rfl | hb
          · exact mkAttr_typed hm
          · exact ih hr b hb

theorem define_typed {env : List OType} {d : Def} {t : OType} (henv : ∀ t' ∈ env, TypeTyped t')
    (h : define env d = .ok t) : TypeTyped t := by
  obtain ⟨-, attrs, hattrs, -, ht⟩ := define_ok h
  have hparent : TypeTyped (parentOf env d) := by
    unfold parentOf
    cases hp : d.parent with
    | none => exact typeTyped_nil
    | some j =>
      simp only
      cases hj : env[j]? with
      | none => simp; exact typeTyped_nil
      | some t' => simp; exact henv t' (List.mem_of_getElem? hj)
  subst ht
  exact typeTyped_cons hparent (defineAttrs_typed hattrs)

/-! ### allInst and prefixes -/

theorem allInst_prefix {attrs : List Attr} {p r : List Val} (h : allInst attrs (p ++ r) = true) : allInst attrs p = true := by
  induction p generalizing attrs with
  | nil => cases attrs <;> rfl
  | cons v vs ih =>
    cases attrs with
    | nil => simp [allInst] at h
    | cons a as =>
      simp only [List.cons_append, allInst, Bool.and_eq_true] at h ⊢
      exact ⟨h.1, ih h.2⟩

theorem trim_prefix (req : Nat) (attrs : List Attr) (va : List Val) : ∃ r, va = trim req attrs va ++ r := by
  induction va generalizing req attrs with
  | nil => exact ⟨[], by cases attrs <;> simp [trim]⟩
  | cons v vs ih =>
    cases attrs with
    | nil => exact ⟨[], by simp [trim]⟩
    | cons a as =>
      obtain ⟨r, hr⟩ := ih (req - 1) as
      unfold trim
      cases ht : trim (req - 1) as vs with
      | nil =>
        rw [ht] at hr
        by_cases hc : (req == 0 && a.isDefault v) = true
        · exact ⟨v :: vs, by simp [hc]⟩
        · exact ⟨vs, by simp [hc]⟩
      | cons x xs =>
        rw [ht] at hr
        exact ⟨r, by rw [hr]; simp⟩

/-- what `PositionalFromHash` fills in is well-typed: the given values by `coerceOk`, the implicit ones by `AttrTyped` -/
theorem allInst_filled {attrs : List Attr} {es : List (String × Val)} (ht : ∀ a ∈ attrs, AttrTyped a)
    (hc : ∀ a ∈ attrs, ∀ v, es.lookup a.name = some v → inst a.ty v = true)
    (hreq : ∀ a ∈ attrs, a.optional = true ∨ (es.lookup a.name).isSome = true) :
    allInst attrs (attrs.map (fun a => (es.lookup a.name).getD a.implicitT)) = true := by
  induction attrs with
  | nil => rfl
  | cons a as ih =>
    simp only [List.map_cons, allInst, Bool.and_eq_true]
    refine ⟨?_, ih (fun b hb => ht b (by simp [hb])) (fun b hb => hc b (by simp [hb])) (fun b hb => hreq b (by simp [hb]))⟩
    cases hl : es.lookup a.name with
    | some v => exact hc a (by simp) v hl
    | none =>
      show inst a.ty a.implicitT = true
      obtain ⟨hv, hg⟩ := ht a (by simp)
      unfold Attr.implicitT
      by_cases hk : a.kind = .givenOrDerived
      · simp [hk, hg hk]
      · have hkb : (a.kind == Kind.givenOrDerived) = false := by simpa using hk
        simp only [hkb, Bool.false_eq_true, if_false]
        rcases hreq a (by simp) with hopt | hsome
        · unfold Attr.optional Attr.hasValue at hopt
          simp only [hkb, Bool.false_or] at hopt
          obtain ⟨x, hx⟩ := Option.isSome_iff_exists.mp hopt
          simp [hx, hv x hx]
        · simp [hl] at hsome

end Pcore.Object
