import Pcore.Model.GoMap
/-! Laws of the Go-map model: `get` after `set`, `erase`, `mapVals`. -/
namespace Pcore.Coll.GoMap
variable {κ : Type} [DecidableEq κ]

theorem get_set (m : List (κ × Nat)) (k : κ) (v : Nat) (k' : κ) :
    get (set m k v) k' = if k = k' then some v else get m k' := by
  induction m with
  | nil => simp [set, get]
  | cons e r ih =>
    obtain ⟨a, b⟩ := e
    by_cases h : a = k
    · subst h; by_cases h' : a = k' <;> simp [set, get, h']
    · by_cases h' : a = k'
      · subst h'; simp [set, get, h, Ne.symm h]
      · simp [set, get, h, h', ih]

theorem get_erase (m : List (κ × Nat)) (k k' : κ) :
    get (erase m k) k' = if k' = k then none else get m k' := by
  induction m with
  | nil => simp [erase, get]
  | cons e r ih =>
    obtain ⟨a, b⟩ := e
    by_cases h : a = k
    · subst h
      by_cases h' : k' = a
      · subst h'; simp [erase, get, ih]
      · simp [erase, get, ih, h', Ne.symm h']
    · by_cases h' : a = k'
      · subst h'; simp [erase, get, h]
      · simp [erase, get, h, h', ih]

theorem get_mapVals (f : Nat → Nat) (m : List (κ × Nat)) (k : κ) :
    get (mapVals f m) k = (get m k).map f := by
  induction m with
  | nil => simp [mapVals, get]
  | cons e r ih =>
    obtain ⟨a, b⟩ := e
    simp only [mapVals] at ih
    by_cases h : a = k <;> simp [mapVals, get, h, ih]

end Pcore.Coll.GoMap
